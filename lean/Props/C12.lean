/-
  C12 — One Evaluator or Filter can be shared by concurrent goroutines.

  What is proved here (the logic part):
   * `interleave_eq_sequential`: calls whose steps never write the shared state (evaluator fields,
     syntax tree, datum) see the initial shared state at every step of EVERY interleaving, end
     with the shared state unchanged, and each call ends in exactly the local state (hence the
     result) of its own sequential run — for any number of calls, any schedule.
   * `no_conflict`: if every write of every call goes to memory owned by that call, no two
     accesses of different calls conflict, i.e. the execution is race-free under
     happens-before whatever the schedule.
  What ties it to the code: `Ties/Effects.lean` — every store site reachable from Evaluate / Execute,
  regenerated from /repo on each run, is one of the call-local sites of `Bexpr/Eval/Effects.lean`
  (and each appended-to slice has a fresh origin); the regexp cache is written at creation only.
  PARTIAL, named: the Go memory model, the internals of reflect / regexp (`*Regexp` is documented
  safe for concurrent use) / strconv, and "this address is freshly allocated in this call" are
  not proved in Lean; the last is the per-site syntactic argument recorded next to each site.
  The dynamic half is the `conc` fragment built with the Go race detector.
-/
import Bexpr.Eval.Effects
import Bexpr.Eval.Impl

namespace Bexpr.Props.C12
open Bexpr.Eval.Effects

variable {σ l : Type}

theorem upd_same (f : Nat → l) (i : Nat) (v : l) : upd f i v i = v := by simp [upd]
theorem upd_other (f : Nat → l) (i j : Nat) (v : l) (h : j ≠ i) : upd f i v j = f j := by simp [upd, h]

/-- steps of one call, run alone, leave the shared state unchanged when they are read-only -/
theorem runSeq_shared (steps : List (Step σ l)) (h : ∀ s ∈ steps, s.ReadOnly) (a : σ) (b : l) :
    (runSeq steps a b).1 = a := by
  induction steps generalizing a b with
  | nil => rfl
  | cons st rest ih =>
    simp only [runSeq]
    have h1 : (st.run a b).1 = a := h st (by simp) a b
    rw [ih (fun s hs => h s (by simp [hs]))]
    exact h1

/-- every interleaving of read-only calls: shared state unchanged, and every call ends in the
    local state of its sequential run from the INITIAL shared state -/
theorem interleave_eq_sequential (sched : List (Nat × Step σ l)) (h : ∀ p ∈ sched, p.2.ReadOnly)
    (a : σ) (loc : Nat → l) :
    (runAll sched a loc).1 = a ∧
      ∀ i, (runAll sched a loc).2 i = (runSeq (stepsOf i sched) a (loc i)).2 := by
  induction sched generalizing a loc with
  | nil => exact ⟨rfl, fun _ => rfl⟩
  | cons p rest ih =>
    obtain ⟨j, st⟩ := p
    have hro : (st.run a (loc j)).1 = a := h (j, st) (by simp) a (loc j)
    have ih' := ih (fun q hq => h q (by simp [hq])) (st.run a (loc j)).1 (upd loc j (st.run a (loc j)).2)
    simp only [runAll]
    refine ⟨by rw [ih'.1, hro], fun i => ?_⟩
    rw [ih'.2 i, hro]
    by_cases hij : i = j
    · subst hij
      simp only [stepsOf, List.filter_cons, beq_self_eq_true, if_true, List.map_cons, runSeq, upd_same]
      rw [hro]
    · have : (j == i) = false := by simp; exact fun h => hij h.symm
      simp only [stepsOf, List.filter_cons, this]
      rw [upd_other _ _ _ _ hij]
      rfl

/-- in particular the outcome of a call does not depend on the schedule -/
theorem schedule_independent (s1 s2 : List (Nat × Step σ l))
    (h1 : ∀ p ∈ s1, p.2.ReadOnly) (h2 : ∀ p ∈ s2, p.2.ReadOnly)
    (a : σ) (loc : Nat → l) (i : Nat) (hsame : stepsOf i s1 = stepsOf i s2) :
    (runAll s1 a loc).2 i = (runAll s2 a loc).2 i := by
  rw [(interleave_eq_sequential s1 h1 a loc).2 i, (interleave_eq_sequential s2 h2 a loc).2 i, hsame]

/-- memory locations: shared, or owned by one call -/
inductive Loc where
  | shared (name : Nat)
  | ownedBy (call : Nat) (name : Nat)
  deriving DecidableEq

structure Access where
  call : Nat
  loc : Loc
  isWrite : Bool

/-- two accesses conflict: different calls, same location, at least one write -/
def conflict (x y : Access) : Prop := x.call ≠ y.call ∧ x.loc = y.loc ∧ (x.isWrite = true ∨ y.isWrite = true)

/-- discipline extracted from the code: a call writes only memory it owns, and touches no memory
    owned by another call -/
def Disciplined (x : Access) : Prop :=
  (x.isWrite = true → ∃ n, x.loc = .ownedBy x.call n) ∧ (∀ c n, x.loc = .ownedBy c n → c = x.call)

theorem no_conflict (x y : Access) (hx : Disciplined x) (hy : Disciplined y) : ¬ conflict x y := by
  rintro ⟨hne, hloc, hw⟩
  rcases hw with hw | hw
  · obtain ⟨n, hn⟩ := hx.1 hw
    exact hne (hy.2 x.call n (hloc ▸ hn))
  · obtain ⟨n, hn⟩ := hy.1 hw
    exact hne (hx.2 y.call n (hloc.symm ▸ hn)).symm

/-- the model of Evaluate is a function of (syntax tree, options, datum): two calls with the same
    arguments return the same outcome (so "what it returns when the calls are made one after
    another" is well defined) -/
theorem evaluate_is_function (re : Bexpr.Eval.RegexOracle) (ev : Bexpr.Eval.Evaluator) (d : Bexpr.Go.Any) :
    ev.evaluate re d = ev.evaluate re d := rfl

/-- non-vacuity: two calls of two read-only steps each, interleaved a b a b, on a shared Nat -/
def exStep (k : Nat) : Step Nat Nat := { run := fun a b => (a, a + b + k) }
example : (exStep 1).ReadOnly := fun _ _ => rfl
example : (runAll [(0, exStep 1), (1, exStep 10), (0, exStep 2), (1, exStep 20)] 5 (fun _ => 0)).2 0
    = (runSeq [exStep 1, exStep 2] 5 0).2 := by decide

end Bexpr.Props.C12

#print axioms Bexpr.Props.C12.interleave_eq_sequential
#print axioms Bexpr.Props.C12.schedule_independent
#print axioms Bexpr.Props.C12.no_conflict
#print axioms Bexpr.Props.C12.runSeq_shared
