/-
  Property C09 (and C01's universe) — map keys of EVERY key type.

  `pointerstructure.Get` steps into a map by converting the path part to the map's key type
  (`coerce`: assignable / convertible / `mapstructure.WeakDecode`) and comparing the result with every
  key.  `Bexpr.Go.coerceKey` / `getMap` model this for every key type a Go map can have; nothing is
  answered `unmodelled` any more.  The general theorems live in `Proofs/Keys.lean`; here they are
  restated under the property's name, together with kernel-checked examples that reproduce what was
  observed on the real code (probe runs, and the harness's key sweep on every `./check C09`).

  Finding F12: below a pointer key type an array type may be uncomparable, and then
  `mapstructure.decodeArray` panics (`decodePanics`).  `Evaluate` panics with it; the no-panic theorems
  of `Props/C09.lean` therefore carry the hypothesis `GetNoPanic`.  Core Lean only.
-/
import Proofs.Keys
import Props.C09

namespace Bexpr.Props.C09Keys
open Bexpr Bexpr.Go Bexpr.Eval Bexpr.Proofs.Keys

/-- **`getMap_total_keys`**: for every map whose key type does not make mapstructure panic, and every
    part, `getMap` returns a value of the map, `notFound` or `convert` — never `unmodelled`, never a
    panic. -/
theorem getMap_total_keys (part : GoString) (kt : GoType) (es : List (GoVal × GoVal))
    (hk : decodePanics kt = false) :
    (∃ e, e ∈ es ∧ getMap part kt es = .ok (some e.2)) ∨ getMap part kt es = .error .notFound ∨
      getMap part kt es = .error .convert :=
  Proofs.Keys.getMap_total_keys part kt es hk

/-- … for every WELL-FORMED map value (its key type is comparable) whose key type has no pointer
    inside: all scalar kinds, `interface{}`, non-empty interface types, structs, complex numbers,
    channels, arrays of these at any depth. -/
theorem getMap_total_wf (part : GoString) (n : String) (kt vt : GoType) (nl : Bool)
    (es : List (GoVal × GoVal)) (hw : (GoVal.map n kt vt nl es).wf = true)
    (hp : ptrFree kt = true) :
    (∃ e, e ∈ es ∧ getMap part kt es = .ok (some e.2)) ∨ getMap part kt es = .error .notFound ∨
      getMap part kt es = .error .convert :=
  Proofs.Keys.getMap_total_wf part n kt vt nl es hw hp

/-- … and in general: the fourth answer, the panic, is given exactly for the key types of F12. -/
theorem getMap_total (part : GoString) (kt : GoType) (es : List (GoVal × GoVal)) :
    (∃ e, e ∈ es ∧ getMap part kt es = .ok (some e.2)) ∨ getMap part kt es = .error .notFound ∨
      getMap part kt es = .error .convert ∨
      (getMap part kt es = .error .panic ∧ decodePanics kt = true) :=
  Proofs.Keys.getMap_total part kt es

theorem getMap_panic_iff (part : GoString) (kt : GoType) (es : List (GoVal × GoVal)) :
    getMap part kt es = .error .panic ↔ decodePanics kt = true :=
  Proofs.Keys.getMap_panic_iff part kt es

/-- `Get` never answers `unmodelled`, on any datum. -/
theorem get_ne_unmodelled (cfg : Config) (parts : List GoString) (v : Any) :
    Go.get cfg parts v ≠ .error .unmodelled :=
  Proofs.Keys.get_ne_unmodelled cfg parts v

/-- no key compares equal to a freshly allocated pointer -/
theorem keyEqV_fresh_ptr (f : Nat → Nat → Nat → Bool) (a : GoVal) (e : GoType) (v : GoVal) :
    keyEqV f a (.ptr e (some v)) = false := by
  rcases a with _|_|_|_|_|_|⟨_, _|_⟩|_|_|_|_|⟨_|_⟩|_ <;> simp [keyEqV]

/-- **A pointer-keyed map never yields a value**: the part is decoded into a fresh pointee, and the
    fresh pointer equals no key — "couldn't convert", the library's panic, or `ErrNotFound`. -/
theorem getMap_ptr_never_found (part : GoString) (e : GoType) (es : List (GoVal × GoVal)) (r : RV) :
    getMap part (.ptr e) es ≠ .ok r := by
  unfold getMap coerceKey
  simp only [decodeInto]
  cases decodeInto part e with
  | error x => simp
  | ok v =>
    simp only []
    have : es.find? (fun e' => fkeyEq e'.1 (.ptr e (some v))) = none := by
      rw [List.find?_eq_none]
      intro x _
      simp [fkeyEq, keyEq, unboxKey, keyEqV_fresh_ptr]
    simp [this]

/-! ## Kernel-checked examples: the observations on the real code

Go strings are byte lists: `[49]` = "1", `[120]` = "x", `[]` = "", `[49, 50]` = "12". -/

namespace Examples

def intT : GoType := .basic .int ""
def i (n : Int) : GoVal := .int .int "" n
def s1 : GoVal := .str "" [49]

/-- `map[[1]int]string{{1}: "1"}`: the part "1" finds the key `[1]int{1}` -/
example : getMap [49] (.array 1 intT) [(.array intT [i 1], s1)] = .ok (some s1) := by rfl
/-- … "12" looks for `[1]int{12}`: not found; "x" does not convert (the empty part, `[1]int{0}`, and
    arrays of structs are exercised by the harness's key sweep: string literals / `String.endsWith` do
    not reduce in the kernel) -/
example : getMap [49, 50] (.array 1 intT) [(.array intT [i 1], s1)] = .error .notFound := by rfl
example : getMap [120] (.array 1 intT) [(.array intT [i 1], s1)] = .error .convert := by rfl
/-- `map[[2]int]string{{1, 2}: "1"}`: "1" looks for `[2]int{1, 0}` — not found; with the key
    `{1, 0}` in the map it is found -/
example : getMap [49] (.array 2 intT) [(.array intT [i 1, i 2], s1)] = .error .notFound := by rfl
example : getMap [49] (.array 2 intT) [(.array intT [i 1, i 2], s1), (.array intT [i 1, i 0], i 7)]
    = .ok (some (i 7)) := by rfl
/-- `[0]int` keys: the lifted one-element input is too long — "couldn't convert" -/
example : getMap [49] (.array 0 intT) [(.array intT [], s1)] = .error .convert := by rfl
/-- nested arrays: `map[[2][2]int]V`, "1" is `{{1, 0}, {0, 0}}` -/
example : getMap [49] (.array 2 (.array 2 intT))
    [(.array (.array 2 intT) [.array intT [i 1, i 0], .array intT [i 0, i 0]], s1)]
    = .ok (some s1) := by rfl
/-- `map[[2]interface{}]V{{"1", nil}: …}`: "1" is `{"1", nil}` -/
example : getMap [49] (.array 2 .iface)
    [(.array .iface [.iface (some s1), .iface (some (i 0))], i 2),
     (.array .iface [.iface (some s1), .iface none], i 1)] = .ok (some (i 1)) := by rfl
/-- `map[[1]MyStr]V`: every part converts -/
example : getMap [120] (.array 1 (.basic .string "main.MyStr"))
    [(.array (.basic .string "main.MyStr") [.str "main.MyStr" [120]], s1)] = .ok (some s1) := by rfl
/-- `map[*int]int{&one: 1, nil: 2}`: never found; "x" does not convert -/
example : getMap [49] (.ptr intT) [(.ptr intT (some (i 1)), i 1), (.ptr intT none, i 2)]
    = .error .notFound := by rfl
example : getMap [120] (.ptr intT) [(.ptr intT (some (i 1)), i 1)] = .error .convert := by rfl
/-- `map[[1]*int]V`: the array holds a fresh pointer — never found -/
example : getMap [49] (.array 1 (.ptr intT)) [(.array (.ptr intT) [.ptr intT (some (i 1))], s1)]
    = .error .notFound := by rfl
/-- struct, complex, channel, non-empty interface, uintptr, unsafe.Pointer keys: "couldn't convert" -/
example : getMap [49] (.struct "main.S") [(.struct "main.S" [], s1)] = .error .convert := by rfl
example : getMap [49] (.basic .complex128 "") [(.complex .complex128 "", s1)] = .error .convert := by rfl
example : getMap [49] (.other .chan "") [(.other .chan "" false, s1)] = .error .convert := by rfl
example : getMap [49] (.other .interface "error") [(.other .interface "error" false, s1)]
    = .error .convert := by rfl
example : getMap [49] (.basic .uintptr "") [(.uint .uintptr "" 1, s1)] = .error .convert := by rfl
example : getMap [49] (.other .unsafePointer "") [] = .error .convert := by rfl
/-- pointers to slices: `*[]byte` always converts (never found), `*[]int` converts iff the element does -/
example : getMap [120] (.ptr (.slice "" (.basic .uint8 ""))) [] = .error .notFound := by rfl
example : getMap [120] (.ptr (.slice "" intT)) [] = .error .convert := by rfl
example : getMap [49] (.ptr (.slice "" intT)) [] = .error .notFound := by rfl
/-- F12: `map[*[1][]int]V`, `map[[1]*[1]map[string]int]V`: the library panics, whatever the part -/
example : getMap [49] (.ptr (.array 1 (.slice "" intT))) [] = .error .panic := by rfl
example : getMap [] (.array 1 (.ptr (.array 1 (.map "" GoType.stringT intT)))) [] = .error .panic := by rfl
example : decodePanics (.ptr (.array 0 (.slice "" intT))) = true := by decide
example : decodePanics (.ptr (.array 1 intT)) = false := by decide

/-- the well-formedness of such maps: key types comparable, keys of the key type -/
example : (GoVal.map "" (.array 1 intT) GoType.stringT false [(.array intT [i 1], s1)]).wf = true := by
  decide
example : (GoVal.map "" (.other .interface "error") intT false
    [(.other .interface "error" false, i 1), (.other .interface "error" true, i 2)]).wf = true := by
  decide
example : (GoVal.map "" (.slice "" intT) intT true []).wf = false := by decide

/-- `Evaluate` on `map[string]interface{}{"m": map[*[1][]int]int{}}` with `m.a == 1`: the model
    panics, as the real code does (F12) — `GetNoPanic` is not superfluous in `C09.evaluate_no_panic` -/
def f12 : Any := some (.map "" GoType.stringT .iface false
  [(.str "" [109], .iface (some (.map "" (.ptr (.array 1 (.slice "" intT))) intT false [])))])
example : Any.wf f12 = true := by decide
example : evaluate C09.Examples.re0 (.match_ ⟨.bexpr, [[109], [97]]⟩ .equal (some [49]))
    C09.Examples.opts0 f12 = .panic := by decide

end Examples

end Bexpr.Props.C09Keys

#print axioms Bexpr.Props.C09Keys.getMap_total_keys
#print axioms Bexpr.Props.C09Keys.getMap_total_wf
#print axioms Bexpr.Props.C09Keys.getMap_total
#print axioms Bexpr.Props.C09Keys.getMap_panic_iff
#print axioms Bexpr.Props.C09Keys.get_ne_unmodelled
#print axioms Bexpr.Props.C09Keys.getMap_ptr_never_found
