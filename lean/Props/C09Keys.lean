/-
  Property C09 (and C01's universe) — map keys of EVERY key type.

  `pointerstructure.Get` steps into a map by converting the path part to the map's key type
  (`coerce`: assignable / convertible / `mapstructure.WeakDecode`) and comparing the result with every
  key.  `Bexpr.Go.coerceKey` / `getMap` model this for every key type a Go map can have; nothing is
  answered `unmodelled` any more.  The general theorems live in `Proofs/Keys.lean`; here they are
  restated under the property's name, together with kernel-checked examples that reproduce what was
  observed on the real code (probe runs, and the harness's key sweep on every `./check C09`).

  Finding F12 (repaired in /repo by 240ca2a): below a pointer key type an array type may be
  uncomparable, and then `mapstructure.decodeArray` panics (`decodePanics`; `pointerstructure.Get`
  still does, `GetErr.panic`).  `getValue` now walks through `safeGet`, which recovers the panic and
  returns it as the lookup error: `evaluate_recovers_walk_panic`; the parent walk of
  `evaluateNotPresent`, which is NOT guarded, cannot panic where it is reached
  (`parent_walk_no_panic`).  The no-panic theorems of `Props/C09.lean` hold for every well-formed
  datum again, now without an `unmodelled` blind spot at the key types.  Core Lean only.
-/
import Proofs.Keys
import Proofs.SpecLemmas
import Props.C09

namespace Bexpr.Props.C09Keys
open Bexpr Bexpr.Go Bexpr.Eval Bexpr.Proofs.Keys

/-- **`getMap_total_keys`**: for every map whose key type does not make mapstructure panic, and every
    part, `getMap` returns a value of the map, `notFound` or `convert` — never `unmodelled`, never a
    panic. -/
theorem getMap_total_keys (part : GoString) (kt : GoType) (es : List (GoVal × GoVal))
    (hk : decodePanics kt = false) :
    (∃ e, e ∈ es ∧ getMap part kt es = .ok (some e.2)) ∨ getMap part kt es = .error .notFound ∨
      getMap part kt es = .error .convert :=
  Proofs.Keys.getMap_total_keys part kt es hk

/-- … for every WELL-FORMED map value (its key type is comparable) whose key type has no pointer
    inside: all scalar kinds, `interface{}`, non-empty interface types, structs, complex numbers,
    channels, arrays of these at any depth. -/
theorem getMap_total_wf (part : GoString) (n : String) (kt vt : GoType) (nl : Bool)
    (es : List (GoVal × GoVal)) (hw : (GoVal.map n kt vt nl es).wf = true)
    (hp : ptrFree kt = true) :
    (∃ e, e ∈ es ∧ getMap part kt es = .ok (some e.2)) ∨ getMap part kt es = .error .notFound ∨
      getMap part kt es = .error .convert :=
  Proofs.Keys.getMap_total_wf part n kt vt nl es hw hp

/-- … and in general: the fourth answer, the panic, is given exactly for the key types of F12. -/
theorem getMap_total (part : GoString) (kt : GoType) (es : List (GoVal × GoVal)) :
    (∃ e, e ∈ es ∧ getMap part kt es = .ok (some e.2)) ∨ getMap part kt es = .error .notFound ∨
      getMap part kt es = .error .convert ∨
      (getMap part kt es = .error .panic ∧ decodePanics kt = true) :=
  Proofs.Keys.getMap_total part kt es

theorem getMap_panic_iff (part : GoString) (kt : GoType) (es : List (GoVal × GoVal)) :
    getMap part kt es = .error .panic ↔ decodePanics kt = true :=
  Proofs.Keys.getMap_panic_iff part kt es

/-- `Get` never answers `unmodelled`, on any datum. -/
theorem get_ne_unmodelled (cfg : Config) (parts : List GoString) (v : Any) :
    Go.get cfg parts v ≠ .error .unmodelled :=
  Proofs.Keys.get_ne_unmodelled cfg parts v

/-- no key compares equal to a freshly allocated pointer -/
theorem keyEqV_fresh_ptr (f : Nat → Nat → Nat → Bool) (a : GoVal) (e : GoType) (v : GoVal) :
    keyEqV f a (.ptr e (some v)) = false := by
  rcases a with _|_|_|_|_|_|⟨_, _|_⟩|_|_|_|_|⟨_|_⟩|_ <;> simp [keyEqV]

/-- **A pointer-keyed map never yields a value**: the part is decoded into a fresh pointee, and the
    fresh pointer equals no key — "couldn't convert", the library's panic, or `ErrNotFound`. -/
theorem getMap_ptr_never_found (part : GoString) (e : GoType) (es : List (GoVal × GoVal)) (r : RV) :
    getMap part (.ptr e) es ≠ .ok r := by
  unfold getMap coerceKey
  simp only [decodeInto]
  cases decodeInto part e with
  | error x => simp
  | ok v =>
    simp only []
    have : es.find? (fun e' => fkeyEq e'.1 (.ptr e (some v))) = none := by
      rw [List.find?_eq_none]
      intro x _
      simp [fkeyEq, keyEq, unboxKey, keyEqV_fresh_ptr]
    simp [this]

/-! ## The repaired evaluator: a panic inside the walk is the lookup error -/

/-- `Get` panics on every non-empty path from a map whose key type makes the decoder panic, under
    every hook configuration (the key is coerced before anything else happens) -/
theorem get_panics (cfg : Config) (p : GoString) (ps : List GoString) (n : String) (kt vt : GoType)
    (nl : Bool) (es : List (GoVal × GoVal)) (hk : decodePanics kt = true) :
    Go.get cfg (p :: ps) (some (.map n kt vt nl es)) = .error .panic := by
  have hm : getMap p kt es = .error .panic := (Proofs.Keys.getMap_panic_iff p kt es).2 hk
  simp [Go.get, getLoop, getStep, valueOf, unwrapForStep, unwrapIfaceV, unwrapPtrV, hm,
    getStep.applyHook]

/-- `safeGet`: whatever the options (unknown value configured or not), a panicking walk is the
    ordinary lookup error — not the absent-key path, not the unknown value -/
theorem getValue_recovers_walk_panic (o : Opts) (d : Any) (path p : List GoString)
    (hp : resolveLocals o.locals.reverse path = .ok (.inr p))
    (hg : Go.get o.cfg p d = .error .panic) : getValue o d path = .error := by
  simp [getValue, hp, hg]

/-- **`evaluate_recovers_walk_panic`**: on a datum that is a map with a `decodePanics` key type
    (`map[*[1][]int]V` …) every match expression and every quantifier whose selector steps into it
    evaluates to `(false, error)` — `Out.err false` — for every operator, literal, hook and unknown
    value; `Evaluate` does not panic (before 240ca2a it did: finding F12). -/
theorem evaluate_recovers_walk_panic (re : RegexOracle) (o : Opts) (hl : o.locals = [])
    (ty : SelType) (p : GoString) (ps : List GoString) (n : String) (kt vt : GoType) (nl : Bool)
    (es : List (GoVal × GoVal)) (hk : decodePanics kt = true) :
    (∀ op raw, evaluate re (.match_ ⟨ty, p :: ps⟩ op raw) o (some (.map n kt vt nl es)) = .err false) ∧
    (∀ cop b inner,
      evaluate re (.coll cop ⟨ty, p :: ps⟩ b inner) o (some (.map n kt vt nl es)) = .err false) := by
  have hg : getValue o (some (.map n kt vt nl es)) (p :: ps) = .error :=
    getValue_recovers_walk_panic o _ _ (p :: ps) (by simp [hl, resolveLocals])
      (get_panics o.cfg p ps n kt vt nl es hk)
  exact ⟨fun op raw => by simp [evaluate, evaluateMatch, hg],
    fun cop b inner => by simp [evaluate, hg]⟩

/-- The parent walk of `evaluateNotPresent` calls `ptr.Get` unguarded.  It is reached only after the
    full walk answered ErrNotFound, and then the walk of the path without its last part — a prefix
    of the steps already taken — cannot panic (nor fail in any other way than the full walk did). -/
theorem parent_walk_no_panic (cfg : Config) (parts : List GoString) (d : Any)
    (h : Go.get cfg parts d = .error .notFound) :
    Go.get cfg parts.dropLast d ≠ .error .panic := by
  intro hp
  have hne : parts ≠ [] := by
    intro h0; subst h0; simp [Go.get] at h
  have hsplit : parts = parts.dropLast ++ [parts.getLast hne] :=
    (List.dropLast_concat_getLast hne).symm
  rw [hsplit, Proofs.SpecLemmas.get_append, hp] at h
  cases h

/-! ## Kernel-checked examples: the observations on the real code

Go strings are byte lists: `[49]` = "1", `[120]` = "x", `[]` = "", `[49, 50]` = "12". -/

namespace Examples

def intT : GoType := .basic .int ""
def i (n : Int) : GoVal := .int .int "" n
def s1 : GoVal := .str "" [49]

/-- `map[[1]int]string{{1}: "1"}`: the part "1" finds the key `[1]int{1}` -/
example : getMap [49] (.array 1 intT) [(.array intT [i 1], s1)] = .ok (some s1) := by rfl
/-- … "12" looks for `[1]int{12}`: not found; "x" does not convert (the empty part, `[1]int{0}`, and
    arrays of structs are exercised by the harness's key sweep: string literals / `String.endsWith` do
    not reduce in the kernel) -/
example : getMap [49, 50] (.array 1 intT) [(.array intT [i 1], s1)] = .error .notFound := by rfl
example : getMap [120] (.array 1 intT) [(.array intT [i 1], s1)] = .error .convert := by rfl
/-- `map[[2]int]string{{1, 2}: "1"}`: "1" looks for `[2]int{1, 0}` — not found; with the key
    `{1, 0}` in the map it is found -/
example : getMap [49] (.array 2 intT) [(.array intT [i 1, i 2], s1)] = .error .notFound := by rfl
example : getMap [49] (.array 2 intT) [(.array intT [i 1, i 2], s1), (.array intT [i 1, i 0], i 7)]
    = .ok (some (i 7)) := by rfl
/-- `[0]int` keys: the lifted one-element input is too long — "couldn't convert" -/
example : getMap [49] (.array 0 intT) [(.array intT [], s1)] = .error .convert := by rfl
/-- nested arrays: `map[[2][2]int]V`, "1" is `{{1, 0}, {0, 0}}` -/
example : getMap [49] (.array 2 (.array 2 intT))
    [(.array (.array 2 intT) [.array intT [i 1, i 0], .array intT [i 0, i 0]], s1)]
    = .ok (some s1) := by rfl
/-- `map[[2]interface{}]V{{"1", nil}: …}`: "1" is `{"1", nil}` -/
example : getMap [49] (.array 2 .iface)
    [(.array .iface [.iface (some s1), .iface (some (i 0))], i 2),
     (.array .iface [.iface (some s1), .iface none], i 1)] = .ok (some (i 1)) := by rfl
/-- `map[[1]MyStr]V`: every part converts -/
example : getMap [120] (.array 1 (.basic .string "main.MyStr"))
    [(.array (.basic .string "main.MyStr") [.str "main.MyStr" [120]], s1)] = .ok (some s1) := by rfl
/-- `map[*int]int{&one: 1, nil: 2}`: never found; "x" does not convert -/
example : getMap [49] (.ptr intT) [(.ptr intT (some (i 1)), i 1), (.ptr intT none, i 2)]
    = .error .notFound := by rfl
example : getMap [120] (.ptr intT) [(.ptr intT (some (i 1)), i 1)] = .error .convert := by rfl
/-- `map[[1]*int]V`: the array holds a fresh pointer — never found -/
example : getMap [49] (.array 1 (.ptr intT)) [(.array (.ptr intT) [.ptr intT (some (i 1))], s1)]
    = .error .notFound := by rfl
/-- struct, complex, channel, non-empty interface, uintptr, unsafe.Pointer keys: "couldn't convert" -/
example : getMap [49] (.struct "main.S") [(.struct "main.S" [], s1)] = .error .convert := by rfl
example : getMap [49] (.basic .complex128 "") [(.complex .complex128 "", s1)] = .error .convert := by rfl
example : getMap [49] (.other .chan "") [(.other .chan "" false, s1)] = .error .convert := by rfl
example : getMap [49] (.other .interface "error") [(.other .interface "error" false, s1)]
    = .error .convert := by rfl
example : getMap [49] (.basic .uintptr "") [(.uint .uintptr "" 1, s1)] = .error .convert := by rfl
example : getMap [49] (.other .unsafePointer "") [] = .error .convert := by rfl
/-- pointers to slices: `*[]byte` always converts (never found), `*[]int` converts iff the element does -/
example : getMap [120] (.ptr (.slice "" (.basic .uint8 ""))) [] = .error .notFound := by rfl
example : getMap [120] (.ptr (.slice "" intT)) [] = .error .convert := by rfl
example : getMap [49] (.ptr (.slice "" intT)) [] = .error .notFound := by rfl
/-- F12: `map[*[1][]int]V`, `map[[1]*[1]map[string]int]V`: the library panics, whatever the part -/
example : getMap [49] (.ptr (.array 1 (.slice "" intT))) [] = .error .panic := by rfl
example : getMap [] (.array 1 (.ptr (.array 1 (.map "" GoType.stringT intT)))) [] = .error .panic := by rfl
example : decodePanics (.ptr (.array 0 (.slice "" intT))) = true := by decide
example : decodePanics (.ptr (.array 1 intT)) = false := by decide

/-- the well-formedness of such maps: key types comparable, keys of the key type -/
example : (GoVal.map "" (.array 1 intT) GoType.stringT false [(.array intT [i 1], s1)]).wf = true := by
  decide
example : (GoVal.map "" (.other .interface "error") intT false
    [(.other .interface "error" false, i 1), (.other .interface "error" true, i 2)]).wf = true := by
  decide
example : (GoVal.map "" (.slice "" intT) intT true []).wf = false := by decide

/-- `Evaluate` on `map[string]interface{}{"m": map[*[1][]int]int{}}` with `m.a == 1`:
    `pointerstructure.Get` panics (first line), the evaluator returns `(false, error)` (repaired F12;
    before 240ca2a: a panic), also with an unknown value configured, and for a quantifier -/
def f12 : Any := some (.map "" GoType.stringT .iface false
  [(.str "" [109], .iface (some (.map "" (.ptr (.array 1 (.slice "" intT))) intT false [])))])
def f12map : GoVal := .map "" (.ptr (.array 1 (.slice "" intT))) intT false []
example : Any.wf f12 = true := by decide
example : Go.get C09.Examples.opts0.cfg [[109], [97]] f12 = .error .panic := by rfl
example : evaluate C09.Examples.re0 (.match_ ⟨.bexpr, [[109], [97]]⟩ .equal (some [49]))
    C09.Examples.opts0 f12 = .err false := by decide
example : evaluate C09.Examples.re0 (.match_ ⟨.bexpr, [[109], [97]]⟩ .notEqual (some [49]))
    { C09.Examples.opts0 with unknown := some (some (i 1)) } f12 = .err false := by decide
example : evaluate C09.Examples.re0
    (.coll .any ⟨.bexpr, [[109], [97]]⟩ { mode := .default, default := [118] }
      (.match_ ⟨.bexpr, [[118]]⟩ .isEmpty none)) C09.Examples.opts0 f12 = .err false := by decide
/-- the theorem instantiated on `map[*[1][]int]int{}` itself -/
example : evaluate C09.Examples.re0 (.match_ ⟨.bexpr, [[97]]⟩ .equal (some [49]))
    C09.Examples.opts0 (some f12map) = .err false :=
  (evaluate_recovers_walk_panic _ _ rfl .bexpr [97] [] "" (.ptr (.array 1 (.slice "" intT))) intT
    false [] (by decide)).1 _ _
/-- … and `C09.evaluate_no_panic` covers this datum (no exclusion) -/
example : evaluate C09.Examples.re0 (.match_ ⟨.bexpr, [[109], [97]]⟩ .equal (some [49]))
    C09.Examples.opts0 f12 ≠ .panic :=
  C09.evaluate_no_panic _ _ _ _ (by decide) (by decide) C09.Examples.opts0_wf

end Examples

end Bexpr.Props.C09Keys

#print axioms Bexpr.Props.C09Keys.getMap_total_keys
#print axioms Bexpr.Props.C09Keys.getMap_total_wf
#print axioms Bexpr.Props.C09Keys.getMap_total
#print axioms Bexpr.Props.C09Keys.getMap_panic_iff
#print axioms Bexpr.Props.C09Keys.get_ne_unmodelled
#print axioms Bexpr.Props.C09Keys.getMap_ptr_never_found
#print axioms Bexpr.Props.C09Keys.get_panics
#print axioms Bexpr.Props.C09Keys.getValue_recovers_walk_panic
#print axioms Bexpr.Props.C09Keys.evaluate_recovers_walk_panic
#print axioms Bexpr.Props.C09Keys.parent_walk_no_panic
