/-
  C01 / C16 / C17, FULL STACK: from the TEXT of an expression to the reference outcome.

  `Props/C16.lean` proves that every well-formed rendering `ρ : Top` (text with any layout,
  redundant parentheses, literal / selector / operator / binding spellings) is accepted by the
  engine on the pinned grammar with the tree `norm ρ.ast`; `Props/C01.lean` proves that
  `(*Evaluator).Evaluate` on a tree returns what the reference interpreter `Spec.denote` assigns;
  `Props/C17.lean` specifies `(*Filter).Execute` in terms of `Evaluate`.  Here the three are
  composed through the real entry points `createEvaluator` (= `bexpr.CreateEvaluator`: option
  folding, `Peg.run` with the folded budget, type assertion, option plumbing), `Evaluator.evaluate`,
  `createFilter` / `execute`:

      TEXT  ──parser, AST actions──▶  tree  ──options, Evaluate──▶  outcome
        ρ.text                        norm ρ.ast                    Spec.denote re ρ.ast (top … d)

  PROVED (all at full strength, nothing left as `_partial`)
   1. `norm_denote` — folding `not not e` preserves the reference outcome, in every environment
      (`denote_err_false`: an error outcome of the reference interpreter always carries `false`,
      which is what makes `not not` the identity on outcomes); `norm_evaluate` — the same for the
      code model `Eval.evaluate`, for every option record and datum.
   2. `created_refines_spec` — for every well-formed rendering `ρ`, with `N` the number of parser
      steps of `ρ.text`: every option list whose folded budget admits `N` creates an evaluator
      (with tree `norm ρ.ast`), and on every datum satisfying the hypotheses `C01.Hyps` for the
      folded options, `Evaluate` returns `Spec.denote re ρ.ast (Spec.Env.top tag hook unknown d)`
      — the reference outcome of the PRINTED tree.  `wellBound (norm ρ.ast)` is DERIVED from
      `ρ.WF` (`rendering_wellBound`: parser-built binding records set the names of their mode
      only, a rendered selector has at least one part), it is not a hypothesis.
      Variants: `created_refines_spec_fits` (budget hypothesis on the engine, `FitsIn`),
      `created_refines_spec_default` (default options, `Fits`), `created_refines_spec_of_created`
      (NO budget hypothesis: whenever `CreateEvaluator` returns an evaluator at all),
      `created_refines_spec_quantifier_free` (no `any`/`all` in the tree: no hypothesis on the
      datum, the hook or the unknown-value either).
   3. `created_filter_spec` — `CreateFilter` on `ρ.text` returns a filter (never the nil filter),
      and `Execute` on a slice / array / map (any key type) keeps exactly the elements / entries
      whose reference outcome is `.val true`, in order; the first element whose reference outcome
      is not a value decides the result (`.err` for an error); for maps: `.err` iff some entry's
      reference outcome is an error.  Component theorems `filter_*`.
   4. `text_and_table`, `text_or_table`, `text_not_table` — the evaluator created from a rendering
      of `and`/`or`/`not` follows the C03 tables on the outcomes of the evaluators created from
      renderings of the operands, on EVERY datum (no `Hyps` needed); `_spec` forms: the same on
      the reference outcomes.  `renderings_agree` — two renderings of the same tree (more
      generally: of trees with the same `norm`) give the same outcome on every datum.
   5. `Example`: two concrete texts with tabs, newlines, redundant parentheses, backquoted
      literals, bracketed and JSON-pointer selectors, on concrete data: hypotheses discharged,
      outcomes computed in the kernel, also directly from the bytes; `budget_needed`.

  HYPOTHESES, and why each is needed
   * `ρ.WF` — the renderings covered by the round-trip theorem (restrictions 2–6 in the header of
     `Props/C16.lean`; 2 is the known `"/usr/bin"` finding of the grammar, 3–6 are properties of
     the language).
   * the budget (`N ≤ effectiveMax (getOpts opts).maxExpressions` / `FitsIn` / `Fits`): a parse of
     `N` steps under a smaller `MaxExpressions` is the max-expressions error
     (`Example.budget_needed`); the model of pigeon's `newParser` turns the budget 0 into
     `math.MaxUint64`, so SOME bound is needed also for the default options (header of
     `Props/C16Eval.lean`).  The `_of_created` forms have no budget hypothesis.
   * `C01.Hyps d cfg unknown` — datum well formed, hook off or identity, unknown-value not
     iterable, lists of at most 2^63 elements: each one is shown necessary in `Props/C01.lean`
     (`unknown_collection_differs`, `transforming_hook_differs`); not needed for quantifier-free
     trees and not needed in 4.
-/
import Props.C01
import Props.C03
import Props.C07Eval

namespace Bexpr.Props.C01Eval
open Bexpr Bexpr.Go Bexpr.Eval Bexpr.Peg Bexpr.Driver Bexpr.Proofs.RoundTrip
open Bexpr.Proofs.C16Eval
open Bexpr.Props.C16Eval (Fits)
open Bexpr.Props.C07Eval (FitsIn le_of_fitsIn fitsIn_zero_iff evOf create_ok_inv created_ast
  rendering_steps rendering_nonempty createFilter_ok_inv)

/-! ## 1. An error outcome of the reference interpreter carries `false` -/

theorem matchValue_err_false (re : RegexOracle) (op : MatchOp) (raw : Option GoString) (v : Any)
    (b : Bool) (h : Spec.matchValue re op raw v = .err b) : b = false := by
  unfold Spec.matchValue at h
  grind [C03.doMatchEqual_err_false, C03.doMatchIn_err_false, C03.doMatchIsEmpty_err_false,
    C03.doMatchMatches_err_false, C03.negate_err_false]

theorem fold_err_false (op : CollOp) (l : List Out) (b : Bool) (h : Spec.fold op l = .err b) :
    b = false := by
  induction l with
  | nil => simp [Spec.fold] at h
  | cons x xs ih =>
    unfold Spec.fold at h
    grind

/-- the reference interpreter never returns `true` together with an error -/
theorem denote_err_false (re : RegexOracle) (e : Expr) :
    ∀ (env : Spec.Env) (b : Bool), Spec.denote re e env = .err b → b = false := by
  induction e with
  | not e ih =>
    intro env b h
    simp only [Spec.denote] at h
    cases hx : Spec.denote re e env <;> simp_all [Spec.notT]
  | and l r ihl ihr =>
    intro env b h
    simp only [Spec.denote] at h
    cases hx : Spec.denote re l env with
    | val v =>
      rw [hx] at h
      cases v with
      | true => exact ihr env b h
      | false => simp [Spec.andT] at h
    | err b' =>
      rw [hx] at h
      simp only [Spec.andT] at h
      injection h with h
      subst h
      exact ihl env b' hx
    | panic => rw [hx] at h; simp [Spec.andT] at h
    | unmodelled => rw [hx] at h; simp [Spec.andT] at h
  | or l r ihl ihr =>
    intro env b h
    simp only [Spec.denote] at h
    cases hx : Spec.denote re l env with
    | val v =>
      rw [hx] at h
      cases v with
      | false => exact ihr env b h
      | true => simp [Spec.orT] at h
    | err b' =>
      rw [hx] at h
      simp only [Spec.orT] at h
      injection h with h
      subst h
      exact ihl env b' hx
    | panic => rw [hx] at h; simp [Spec.orT] at h
    | unmodelled => rw [hx] at h; simp [Spec.orT] at h
  | match_ sel op raw =>
    intro env b h
    simp only [Spec.denote] at h
    grind [matchValue_err_false]
  | coll op sel bnd inner ih =>
    intro env b h
    simp only [Spec.denote] at h
    grind [fold_err_false]

/-! ## 2. Folding `not not e` preserves the outcome -/

/-- the code block of `NotExpression` (`notFold`: wrap in `not`, but unwrap a `not`) acts on
    reference outcomes as the `not` table -/
theorem denote_notFold (re : RegexOracle) (x : Expr) (env : Spec.Env) :
    Spec.denote re (notFold x) env = Spec.notT (Spec.denote re x env) := by
  cases x with
  | not y =>
    show Spec.denote re y env = Spec.notT (Spec.denote re (.not y) env)
    simp only [Spec.denote]
    cases hy : Spec.denote re y env with
    | val b => simp [Spec.notT]
    | err b =>
      have := denote_err_false re y env b hy
      subst this
      rfl
    | panic => rfl
    | unmodelled => rfl
  | and l r => rfl
  | or l r => rfl
  | match_ s o v => rfl
  | coll o s b e => rfl

/-- **1. `norm` (folding every `not not e` to `e`, what the parser does) preserves the reference
    outcome**, for every expression, in every environment. -/
theorem norm_denote (re : RegexOracle) (e : Expr) :
    ∀ env : Spec.Env, Spec.denote re (norm e) env = Spec.denote re e env := by
  induction e with
  | not e ih => intro env; simp only [norm, denote_notFold, ih, Spec.denote]
  | and l r ihl ihr => intro env; simp only [norm, Spec.denote, ihl, ihr]
  | or l r ihl ihr => intro env; simp only [norm, Spec.denote, ihl, ihr]
  | match_ s o v => intro env; rfl
  | coll o s b inner ih => intro env; simp only [norm, Spec.denote, ih]

/-- the same for the code model: `notFold` acts as the C03 `not` table … -/
theorem evaluate_notFold (re : RegexOracle) (x : Expr) (o : Opts) (d : Any) :
    evaluate re (notFold x) o d = C03.notTable (evaluate re x o d) := by
  cases x with
  | not y =>
    show evaluate re y o d = C03.notTable (evaluate re (.not y) o d)
    rw [← C03.not_table, C03.not_not]
  | and l r => exact C03.not_table re o d _
  | or l r => exact C03.not_table re o d _
  | match_ s op v => exact C03.not_table re o d _
  | coll op s b e => exact C03.not_table re o d _

/-- … and `norm` preserves the outcome of `Eval.evaluate` — value, error, panic alike — for every
    option record (any hook, any local variables) and every datum (well formed or not). -/
theorem norm_evaluate (re : RegexOracle) (e : Expr) :
    ∀ (o : Opts) (d : Any), evaluate re (norm e) o d = evaluate re e o d := by
  induction e with
  | not e ih =>
    intro o d
    rw [norm, evaluate_notFold, ih, ← C03.not_table]
  | and l r ihl ihr => intro o d; simp only [norm, evaluate, ihl, ihr]
  | or l r ihl ihr => intro o d; simp only [norm, evaluate, ihl, ihr]
  | match_ s op v => intro o d; rfl
  | coll op s b inner ih => intro o d; simp only [norm, evaluate, ih]

/-- in terms of evaluators: replacing the tree by its folded form changes nothing -/
theorem norm_evaluator (re : RegexOracle) (ev : Evaluator) (d : Any) :
    ({ ev with ast := norm ev.ast } : Evaluator).evaluate re d = ev.evaluate re d :=
  norm_evaluate re ev.ast _ d

/-! ## 3. `wellBound` of a parsed rendering — derived, not assumed -/

theorem wellBound_notFold (x : Expr) : C01.wellBound (notFold x) = C01.wellBound x := by
  cases x <;> rfl

/-- folding keeps `wellBound` -/
theorem wellBound_norm (e : Expr) : C01.wellBound (norm e) = C01.wellBound e := by
  induction e with
  | not e ih => simp only [norm, wellBound_notFold, ih, C01.wellBound]
  | and l r ihl ihr => simp only [norm, C01.wellBound, ihl, ihr]
  | or l r ihl ihr => simp only [norm, C01.wellBound, ihl, ihr]
  | match_ s o v => rfl
  | coll o s b inner ih => simp only [norm, C01.wellBound, ih]

theorem quantFree_notFold (x : Expr) : C01.quantFree (notFold x) = C01.quantFree x := by
  cases x <;> rfl

theorem quantFree_norm (e : Expr) : C01.quantFree (norm e) = C01.quantFree e := by
  induction e with
  | not e ih => simp only [norm, quantFree_notFold, ih, C01.quantFree]
  | and l r ihl ihr => simp only [norm, C01.quantFree, ihl, ihr]
  | or l r ihl ihr => simp only [norm, C01.quantFree, ihl, ihr]
  | match_ s o v => rfl
  | coll o s b inner ih => rfl

/-- a rendered selector has at least one part -/
theorem selX_path_nonempty (x : SelX) (h : x.WF) : x.sel.path.isEmpty = false := by
  cases x with
  | bexpr σ => rfl
  | ptr path =>
    cases path with
    | nil => exact absurd rfl h.1
    | cons _ _ => rfl

/-- a rendered binding (`i, v` · `i, _` · `_, v` · `d`) sets the names of its mode only: at most
    one alias -/
theorem bindSp_oneAlias (b : BindSp) : C06.oneAlias b.binding = true := by
  cases b <;> rfl

theorem matchSp_wellBound (m : MatchSp) : C01.wellBound m.ast = true := by
  cases m <;> rfl

/-- every well-formed rendering, at every grammar level, renders a `wellBound` tree -/
theorem sp_wellBound : ∀ {l : Lvl} (c : Sp l), c.WF → C01.wellBound c.ast = true
  | _, .orOp l _ _ r, h => by
    simp only [Sp.ast, C01.wellBound, sp_wellBound l h.1, sp_wellBound r h.2.2.2, Bool.and_self]
  | _, .orUp a, h => sp_wellBound a h
  | _, .andOp l _ _ r, h => by
    simp only [Sp.ast, C01.wellBound, sp_wellBound l h.1, sp_wellBound r h.2.2.2, Bool.and_self]
  | _, .andUp n, h => sp_wellBound n h
  | _, .notOp _ n, h => sp_wellBound n h.2
  | _, .paren _ e _, h => sp_wellBound e h.2.1
  | _, .leaf m, _ => matchSp_wellBound m
  | _, .coll _ _ x _ _ bind _ _ body _, h => by
    obtain ⟨_, hx, _, _, _, _, _, _, hbody, _⟩ := h
    simp only [Sp.ast, C01.wellBound, selX_path_nonempty x hx, bindSp_oneAlias bind,
      sp_wellBound body hbody, Bool.not_false, Bool.and_self]

/-- **the tree the parser returns for a well-formed rendering satisfies the hypothesis
    `wellBound` of C01** -/
theorem rendering_wellBound (ρ : Top) (h : ρ.WF) : C01.wellBound (norm ρ.ast) = true := by
  rw [wellBound_norm]
  exact sp_wellBound ρ.c h.2.1

/-! ## 4. `CreateEvaluator` + `Evaluate` on a rendering = the reference outcome of its tree -/

/-- the configuration `Evaluate` works with under the option list `opts` -/
abbrev cfgOf (opts : List Opt) : Config :=
  { tagName := (getOpts opts).tagName, hook := (getOpts opts).hook }

/-- the reference outcome of the tree `e` on the datum `d` under the option list `opts` -/
abbrev refOutcome (re : RegexOracle) (e : Expr) (opts : List Opt) (d : Any) : Out :=
  Spec.denote re e
    (Spec.Env.top (getOpts opts).tagName (getOpts opts).hook (getOpts opts).unknown d)

/-- the evaluator built from the parsed tree of a rendering and the folded options returns the
    reference outcome of the PRINTED tree -/
theorem evOf_refines (re : RegexOracle) (ρ : Top) (h : ρ.WF) (opts : List Opt) (text : GoString)
    (d : Any) (hy : C01.Hyps d (cfgOf opts) (getOpts opts).unknown) :
    (evOf (norm ρ.ast) opts text).evaluate re d = refOutcome re ρ.ast opts d := by
  rw [C01.evaluator_refines_spec re d (evOf (norm ρ.ast) opts text) (rendering_wellBound ρ h) hy]
  exact norm_denote re ρ.ast _

/-- a returned evaluator is the record built from the parsed tree and the folded options -/
theorem created_eq_evOf (ρ : Top) (h : ρ.WF) (opts : List Opt) (ev : Evaluator)
    (hc : createEvaluator pinEnv pinGrammar ρ.text opts = .ok ev) :
    ev = evOf (norm ρ.ast) opts ρ.text := by
  have ha := created_ast hc (accepts_top_norm ρ h)
  obtain ⟨_, _, ht, hh, hu, he⟩ := create_ok_inv hc
  cases ev
  simp only at ha ht hh hu he
  subst ha ht hh hu he
  rfl

/-- **2. TEXT ↦ outcome is the reference semantics of the printed tree.**  For every well-formed
    rendering `ρ`: with `N` the number of parser steps of `ρ.text` (the size of its unique
    derivation), every option list whose folded budget admits `N` creates an evaluator — holding
    the tree `norm ρ.ast` — and on every datum `d` satisfying the hypotheses of
    `C01.evaluator_refines_spec` for the options folded from `opts`, with every regexp engine,
    `Evaluate` returns the reference outcome of the printed tree `ρ.ast` in the top-level
    environment of these options. -/
theorem created_refines_spec (ρ : Top) (h : ρ.WF) :
    ∃ N, AcceptsIn pinEnv pinGrammar ρ.text (.expr (norm ρ.ast)) N ∧
      ∀ opts : List Opt, N ≤ effectiveMax (getOpts opts).maxExpressions →
        ∃ ev, createEvaluator pinEnv pinGrammar ρ.text opts = .ok ev ∧ ev.ast = norm ρ.ast ∧
          ∀ (re : RegexOracle) (d : Any),
            C01.Hyps d { tagName := (getOpts opts).tagName, hook := (getOpts opts).hook }
              (getOpts opts).unknown →
            ev.evaluate re d =
              Spec.denote re ρ.ast
                (Spec.Env.top (getOpts opts).tagName (getOpts opts).hook (getOpts opts).unknown d) := by
  obtain ⟨N, hN⟩ := rendering_steps ρ h
  exact ⟨N, hN, fun opts hb => ⟨evOf (norm ρ.ast) opts ρ.text, create_of_acceptsIn hN opts hb, rfl,
    fun re d hy => evOf_refines re ρ h opts ρ.text d hy⟩⟩

/-- 2 with the budget hypothesis stated on the engine: the run with the budget of the options
    did not stop at the limit. -/
theorem created_refines_spec_fits (ρ : Top) (h : ρ.WF) (opts : List Opt)
    (hf : FitsIn (getOpts opts).maxExpressions ρ.text) :
    ∃ ev, createEvaluator pinEnv pinGrammar ρ.text opts = .ok ev ∧ ev.ast = norm ρ.ast ∧
      ∀ (re : RegexOracle) (d : Any), C01.Hyps d (cfgOf opts) (getOpts opts).unknown →
        ev.evaluate re d = refOutcome re ρ.ast opts d := by
  obtain ⟨N, hN, hc⟩ := created_refines_spec ρ h
  exact hc opts (le_of_fitsIn hN hf)

/-- 2 for the default options, under the weakest budget hypothesis (`C16Eval.fits_necessary`). -/
theorem created_refines_spec_default (ρ : Top) (h : ρ.WF) (hf : Fits ρ.text) :
    ∃ ev, createEvaluator pinEnv pinGrammar ρ.text [] = .ok ev ∧ ev.ast = norm ρ.ast ∧
      ∀ (re : RegexOracle) (d : Any), C01.Hyps d (cfgOf []) (getOpts []).unknown →
        ev.evaluate re d = refOutcome re ρ.ast [] d :=
  created_refines_spec_fits ρ h [] ((fitsIn_zero_iff _).2 hf)

/-- 2 WITHOUT budget hypothesis: whenever `CreateEvaluator` returns an evaluator for the text of
    a well-formed rendering, under any option list, that evaluator returns the reference outcome
    of the printed tree. -/
theorem created_refines_spec_of_created (ρ : Top) (h : ρ.WF) (opts : List Opt) (ev : Evaluator)
    (hc : createEvaluator pinEnv pinGrammar ρ.text opts = .ok ev) (re : RegexOracle) (d : Any)
    (hy : C01.Hyps d (cfgOf opts) (getOpts opts).unknown) :
    ev.evaluate re d = refOutcome re ρ.ast opts d := by
  rw [created_eq_evOf ρ h opts ev hc]
  exact evOf_refines re ρ h opts ρ.text d hy

/-- 2 for renderings without quantifier: NO hypothesis on the datum (well formed or not), the
    hook or the unknown-value. -/
theorem created_refines_spec_quantifier_free (ρ : Top) (h : ρ.WF)
    (hq : C01.quantFree ρ.ast = true) (opts : List Opt) (ev : Evaluator)
    (hc : createEvaluator pinEnv pinGrammar ρ.text opts = .ok ev) (re : RegexOracle) (d : Any) :
    ev.evaluate re d = refOutcome re ρ.ast opts d := by
  rw [created_eq_evOf ρ h opts ev hc]
  let o : Opts :=
    { tagName := (getOpts opts).tagName, hook := (getOpts opts).hook,
      unknown := (getOpts opts).unknown, locals := [] }
  have := C01.impl_refines_spec_quantifier_free re d (norm ρ.ast) o (C01.envOf d o)
    (by rw [quantFree_norm]; exact hq) (C01.envRel_top d o rfl)
  exact this.trans (norm_denote re ρ.ast _)

/-! ## 5. Corollaries at the text level -/

/-- `CreateEvaluator` on a well-formed rendering whose run fits the budget of the options -/
theorem created_fits (ρ : Top) (h : ρ.WF) (opts : List Opt)
    (hf : FitsIn (getOpts opts).maxExpressions ρ.text) :
    createEvaluator pinEnv pinGrammar ρ.text opts = .ok (evOf (norm ρ.ast) opts ρ.text) := by
  obtain ⟨N, hN⟩ := rendering_steps ρ h
  exact create_of_acceptsIn hN opts (le_of_fitsIn hN hf)

/-- the outcome tables of the reference interpreter are the C03 tables -/
theorem tables_same (a b : Out) :
    Spec.andT a b = C03.andTable a b ∧ Spec.orT a b = C03.orTable a b ∧
      Spec.notT a = C03.notTable a := by
  cases a with
  | val v => cases v <;> exact ⟨rfl, rfl, rfl⟩
  | _ => exact ⟨rfl, rfl, rfl⟩

/-- **`and` at the text level.**  `ρ` a rendering of `and` of the trees of the renderings `ρ₁`,
    `ρ₂` (any layout, parenthesised or not): for every option list admitting the three parses,
    the three evaluators exist and on EVERY datum (well formed or not, any hook) the outcome of
    the first is the C03 `and` table of the outcomes of the other two. -/
theorem text_and_table (ρ ρ₁ ρ₂ : Top) (h : ρ.WF) (h₁ : ρ₁.WF) (h₂ : ρ₂.WF)
    (hast : ρ.ast = .and ρ₁.ast ρ₂.ast) (opts : List Opt)
    (hf : FitsIn (getOpts opts).maxExpressions ρ.text)
    (hf₁ : FitsIn (getOpts opts).maxExpressions ρ₁.text)
    (hf₂ : FitsIn (getOpts opts).maxExpressions ρ₂.text) :
    ∃ ev ev₁ ev₂, createEvaluator pinEnv pinGrammar ρ.text opts = .ok ev ∧
      createEvaluator pinEnv pinGrammar ρ₁.text opts = .ok ev₁ ∧
      createEvaluator pinEnv pinGrammar ρ₂.text opts = .ok ev₂ ∧
      ∀ (re : RegexOracle) (d : Any),
        ev.evaluate re d = C03.andTable (ev₁.evaluate re d) (ev₂.evaluate re d) := by
  refine ⟨_, _, _, created_fits ρ h opts hf, created_fits ρ₁ h₁ opts hf₁,
    created_fits ρ₂ h₂ opts hf₂, fun re d => ?_⟩
  have hn : norm ρ.ast = .and (norm ρ₁.ast) (norm ρ₂.ast) := by rw [hast]; rfl
  show evaluate re (norm ρ.ast) _ d = _
  rw [hn, C03.and_table]
  rfl

/-- **`or` at the text level.** -/
theorem text_or_table (ρ ρ₁ ρ₂ : Top) (h : ρ.WF) (h₁ : ρ₁.WF) (h₂ : ρ₂.WF)
    (hast : ρ.ast = .or ρ₁.ast ρ₂.ast) (opts : List Opt)
    (hf : FitsIn (getOpts opts).maxExpressions ρ.text)
    (hf₁ : FitsIn (getOpts opts).maxExpressions ρ₁.text)
    (hf₂ : FitsIn (getOpts opts).maxExpressions ρ₂.text) :
    ∃ ev ev₁ ev₂, createEvaluator pinEnv pinGrammar ρ.text opts = .ok ev ∧
      createEvaluator pinEnv pinGrammar ρ₁.text opts = .ok ev₁ ∧
      createEvaluator pinEnv pinGrammar ρ₂.text opts = .ok ev₂ ∧
      ∀ (re : RegexOracle) (d : Any),
        ev.evaluate re d = C03.orTable (ev₁.evaluate re d) (ev₂.evaluate re d) := by
  refine ⟨_, _, _, created_fits ρ h opts hf, created_fits ρ₁ h₁ opts hf₁,
    created_fits ρ₂ h₂ opts hf₂, fun re d => ?_⟩
  have hn : norm ρ.ast = .or (norm ρ₁.ast) (norm ρ₂.ast) := by rw [hast]; rfl
  show evaluate re (norm ρ.ast) _ d = _
  rw [hn, C03.or_table]
  rfl

/-- **`not` at the text level** (the parser folds `not not`; the outcome is the `not` table all
    the same). -/
theorem text_not_table (ρ ρ₁ : Top) (h : ρ.WF) (h₁ : ρ₁.WF) (hast : ρ.ast = .not ρ₁.ast)
    (opts : List Opt) (hf : FitsIn (getOpts opts).maxExpressions ρ.text)
    (hf₁ : FitsIn (getOpts opts).maxExpressions ρ₁.text) :
    ∃ ev ev₁, createEvaluator pinEnv pinGrammar ρ.text opts = .ok ev ∧
      createEvaluator pinEnv pinGrammar ρ₁.text opts = .ok ev₁ ∧
      ∀ (re : RegexOracle) (d : Any), ev.evaluate re d = C03.notTable (ev₁.evaluate re d) := by
  refine ⟨_, _, created_fits ρ h opts hf, created_fits ρ₁ h₁ opts hf₁, fun re d => ?_⟩
  have hn : norm ρ.ast = notFold (norm ρ₁.ast) := by rw [hast]; rfl
  show evaluate re (norm ρ.ast) _ d = _
  rw [hn, evaluate_notFold]
  rfl

/-- the same three statements on the REFERENCE outcomes of the operands' trees (from 2; here the
    datum has to satisfy `C01.Hyps`) -/
theorem text_and_table_spec (ρ ρ₁ ρ₂ : Top) (h : ρ.WF) (hast : ρ.ast = .and ρ₁.ast ρ₂.ast)
    (opts : List Opt) (hf : FitsIn (getOpts opts).maxExpressions ρ.text) :
    ∃ ev, createEvaluator pinEnv pinGrammar ρ.text opts = .ok ev ∧
      ∀ (re : RegexOracle) (d : Any), C01.Hyps d (cfgOf opts) (getOpts opts).unknown →
        ev.evaluate re d =
          C03.andTable (refOutcome re ρ₁.ast opts d) (refOutcome re ρ₂.ast opts d) := by
  obtain ⟨ev, hc, _, he⟩ := created_refines_spec_fits ρ h opts hf
  refine ⟨ev, hc, fun re d hy => ?_⟩
  rw [he re d hy, ← (tables_same _ _).1, hast]
  rfl

theorem text_or_table_spec (ρ ρ₁ ρ₂ : Top) (h : ρ.WF) (hast : ρ.ast = .or ρ₁.ast ρ₂.ast)
    (opts : List Opt) (hf : FitsIn (getOpts opts).maxExpressions ρ.text) :
    ∃ ev, createEvaluator pinEnv pinGrammar ρ.text opts = .ok ev ∧
      ∀ (re : RegexOracle) (d : Any), C01.Hyps d (cfgOf opts) (getOpts opts).unknown →
        ev.evaluate re d =
          C03.orTable (refOutcome re ρ₁.ast opts d) (refOutcome re ρ₂.ast opts d) := by
  obtain ⟨ev, hc, _, he⟩ := created_refines_spec_fits ρ h opts hf
  refine ⟨ev, hc, fun re d hy => ?_⟩
  rw [he re d hy, ← (tables_same _ _).2.1, hast]
  rfl

theorem text_not_table_spec (ρ ρ₁ : Top) (h : ρ.WF) (hast : ρ.ast = .not ρ₁.ast)
    (opts : List Opt) (hf : FitsIn (getOpts opts).maxExpressions ρ.text) :
    ∃ ev, createEvaluator pinEnv pinGrammar ρ.text opts = .ok ev ∧
      ∀ (re : RegexOracle) (d : Any), C01.Hyps d (cfgOf opts) (getOpts opts).unknown →
        ev.evaluate re d = C03.notTable (refOutcome re ρ₁.ast opts d) := by
  obtain ⟨ev, hc, _, he⟩ := created_refines_spec_fits ρ h opts hf
  refine ⟨ev, hc, fun re d hy => ?_⟩
  rw [he re d hy, ← (tables_same _ (.val true)).2.2, hast]
  rfl

/-- renderings of `and` / `or` / `not` of given operands exist, whatever the operands: the
    operands in parentheses (the hypotheses `ρ.ast = …` above are satisfiable) -/
def andOf (ρ₁ ρ₂ : Top) : Top :=
  ⟨[], .orUp (.andOp (.paren [] ρ₁.c []) [32] [32] (.andUp (.paren [] ρ₂.c []))), []⟩
def orOf (ρ₁ ρ₂ : Top) : Top :=
  ⟨[], .orOp (.andUp (.paren [] ρ₁.c [])) [32] [32] (.orUp (.andUp (.paren [] ρ₂.c []))), []⟩
def notOf (ρ₁ : Top) : Top := ⟨[], .orUp (.andUp (.notOp [32] (.paren [] ρ₁.c []))), []⟩

theorem andOf_ok (ρ₁ ρ₂ : Top) (h₁ : ρ₁.WF) (h₂ : ρ₂.WF) :
    (andOf ρ₁ ρ₂).WF ∧ (andOf ρ₁ ρ₂).ast = .and ρ₁.ast ρ₂.ast ∧
      (andOf ρ₁ ρ₂).text = [40] ++ (ρ₁.c.text ++ ([41] ++ ([32] ++ (kAnd ++ ([32] ++
        ([40] ++ (ρ₂.c.text ++ [41]))))))) :=
  ⟨⟨AllIn.nil, ⟨⟨AllIn.nil, h₁.2.1, AllIn.nil⟩, ⟨by decide, by decide⟩, ⟨by decide, by decide⟩,
    ⟨AllIn.nil, h₂.2.1, AllIn.nil⟩⟩, AllIn.nil⟩, rfl, by simp [andOf, Top.text, Sp.text]⟩

theorem orOf_ok (ρ₁ ρ₂ : Top) (h₁ : ρ₁.WF) (h₂ : ρ₂.WF) :
    (orOf ρ₁ ρ₂).WF ∧ (orOf ρ₁ ρ₂).ast = .or ρ₁.ast ρ₂.ast :=
  ⟨⟨AllIn.nil, ⟨⟨AllIn.nil, h₁.2.1, AllIn.nil⟩, ⟨by decide, by decide⟩, ⟨by decide, by decide⟩,
    ⟨AllIn.nil, h₂.2.1, AllIn.nil⟩⟩, AllIn.nil⟩, rfl⟩

theorem notOf_ok (ρ₁ : Top) (h₁ : ρ₁.WF) :
    (notOf ρ₁).WF ∧ (notOf ρ₁).ast = .not ρ₁.ast :=
  ⟨⟨AllIn.nil, ⟨⟨by decide, by decide⟩, ⟨AllIn.nil, h₁.2.1, AllIn.nil⟩⟩, AllIn.nil⟩, rfl⟩

/-- **Two renderings give the same outcome on every datum** as soon as their trees agree up to
    `not not` folding — in particular two renderings of the same tree (`renderings_agree`) — for
    every option list admitting both parses; no hypothesis on the datum, hook, unknown-value. -/
theorem renderings_agree_norm (ρ₁ ρ₂ : Top) (h₁ : ρ₁.WF) (h₂ : ρ₂.WF)
    (hsame : norm ρ₁.ast = norm ρ₂.ast) (opts : List Opt)
    (hf₁ : FitsIn (getOpts opts).maxExpressions ρ₁.text)
    (hf₂ : FitsIn (getOpts opts).maxExpressions ρ₂.text) :
    ∃ ev₁ ev₂, createEvaluator pinEnv pinGrammar ρ₁.text opts = .ok ev₁ ∧
      createEvaluator pinEnv pinGrammar ρ₂.text opts = .ok ev₂ ∧
      ∀ (re : RegexOracle) (d : Any), ev₁.evaluate re d = ev₂.evaluate re d := by
  refine ⟨_, _, created_fits ρ₁ h₁ opts hf₁, created_fits ρ₂ h₂ opts hf₂, fun re d => ?_⟩
  show evaluate re (norm ρ₁.ast) _ d = evaluate re (norm ρ₂.ast) _ d
  rw [hsame]
  rfl

theorem renderings_agree (ρ₁ ρ₂ : Top) (h₁ : ρ₁.WF) (h₂ : ρ₂.WF) (hsame : ρ₁.ast = ρ₂.ast)
    (opts : List Opt) (hf₁ : FitsIn (getOpts opts).maxExpressions ρ₁.text)
    (hf₂ : FitsIn (getOpts opts).maxExpressions ρ₂.text) :
    ∃ ev₁ ev₂, createEvaluator pinEnv pinGrammar ρ₁.text opts = .ok ev₁ ∧
      createEvaluator pinEnv pinGrammar ρ₂.text opts = .ok ev₂ ∧
      ∀ (re : RegexOracle) (d : Any), ev₁.evaluate re d = ev₂.evaluate re d :=
  renderings_agree_norm ρ₁ ρ₂ h₁ h₂ (by rw [hsame]) opts hf₁ hf₂

/-- without budget hypothesis: whenever both evaluators are returned (same option list) -/
theorem renderings_agree_of_created (ρ₁ ρ₂ : Top) (h₁ : ρ₁.WF) (h₂ : ρ₂.WF)
    (hsame : norm ρ₁.ast = norm ρ₂.ast) (opts : List Opt) (ev₁ ev₂ : Evaluator)
    (hc₁ : createEvaluator pinEnv pinGrammar ρ₁.text opts = .ok ev₁)
    (hc₂ : createEvaluator pinEnv pinGrammar ρ₂.text opts = .ok ev₂)
    (re : RegexOracle) (d : Any) : ev₁.evaluate re d = ev₂.evaluate re d := by
  rw [created_eq_evOf ρ₁ h₁ opts ev₁ hc₁, created_eq_evOf ρ₂ h₂ opts ev₂ hc₂]
  show evaluate re (norm ρ₁.ast) _ d = evaluate re (norm ρ₂.ast) _ d
  rw [hsame]
  rfl

/-- … and both are the reference outcome of either tree -/
theorem renderings_agree_spec (ρ₁ ρ₂ : Top) (hsame : norm ρ₁.ast = norm ρ₂.ast)
    (re : RegexOracle) (opts : List Opt) (d : Any) :
    refOutcome re ρ₁.ast opts d = refOutcome re ρ₂.ast opts d := by
  show Spec.denote re ρ₁.ast _ = Spec.denote re ρ₂.ast _
  rw [← norm_denote re ρ₁.ast, ← norm_denote re ρ₂.ast, hsame]

/-! ## 6. Non-vacuity: concrete texts with unusual layout, concrete data, kernel-computed outcomes -/

namespace Example
open Bexpr.Props.C16.Example (asc top top_WF top_text top_engine selWF)
open Bexpr.Props.C07Eval.Example (steps_eq_cnt createAndEvaluate)

/-- the regexp engine that compiles nothing (not consulted by the operators used here) -/
def noRe : RegexOracle := fun _ => none

/-! data as `json.Unmarshal` into an `interface{}` builds them -/
def jstr (s : GoString) : GoVal := .str "" s
def jnum (bits : Nat) : GoVal := .float .float64 "" bits
def jbool (b : Bool) : GoVal := .bool "" b
def jarr (xs : List GoVal) : GoVal := .slice "" .iface false (xs.map fun x => .iface (some x))
def jobj (es : List (GoString × GoVal)) : GoVal :=
  .map "" GoType.stringT .iface false (es.map fun e => (.str "" e.1, .iface (some e.2)))

/-! ### A. `C16.Example.top`: two leading blanks, a bracketed index with a blank inside, a
    negative number, `not not` before a redundant parenthesis, a backquoted literal, two blanks
    and a TAB around `in`, a JSON-pointer selector with an escaped `/`:

      `  a.b[ "c"]!= -12.5 or not not ( `x y` not  in<TAB>"/p/q~1r" )  and foo is empty ` -/

/-- `{"a": {"b": {"c": -12.5}}, "p": {"q/r": ["z"]}, "foo": ""}` -/
def dA1 : Any := some (jobj [
  (asc "a", jobj [(asc "b", jobj [(asc "c", jnum 0xC029000000000000)])]),
  (asc "p", jobj [(asc "q/r", jarr [jstr (asc "z")])]),
  (asc "foo", jstr [])])

/-- the same without `foo` -/
def dA2 : Any := some (jobj [
  (asc "a", jobj [(asc "b", jobj [(asc "c", jnum 0xC029000000000000)])]),
  (asc "p", jobj [(asc "q/r", jarr [jstr (asc "z")])])])

/-- `{"a": {"b": {"c": 1}}}`: the left operand of `or` decides -/
def dA3 : Any := some (jobj [
  (asc "a", jobj [(asc "b", jobj [(asc "c", jnum 0x3FF0000000000000)])])])

theorem hypsA : C01.Hyps dA1 (cfgOf []) (getOpts []).unknown ∧
    C01.Hyps dA2 (cfgOf []) (getOpts []).unknown ∧ C01.Hyps dA3 (cfgOf []) (getOpts []).unknown :=
  ⟨C01.hyps_of_size dA1 _ _ (by decide) (Or.inl rfl) (by intro u h; cases h) (by decide),
   C01.hyps_of_size dA2 _ _ (by decide) (Or.inl rfl) (by intro u h; cases h) (by decide),
   C01.hyps_of_size dA3 _ _ (by decide) (Or.inl rfl) (by intro u h; cases h) (by decide)⟩

theorem fitsA : Fits top.text := by
  unfold Fits
  rw [top_engine.1]
  decide

/-- the reference outcomes of the PRINTED tree (with its `not not`), computed by the kernel -/
theorem refA : refOutcome noRe top.ast [] dA1 = .val true ∧
    refOutcome noRe top.ast [] dA2 = .err false ∧ refOutcome noRe top.ast [] dA3 = .val true := by
  decide +kernel

/-- **Example A as an instance of theorem 2**: `CreateEvaluator` on the text returns an
    evaluator, and it returns `true` on `dA1`, an error on `dA2` (no `foo`), `true` on `dA3`. -/
theorem exampleA : ∃ ev, createEvaluator pinEnv pinGrammar top.text [] = .ok ev ∧
    ev.evaluate noRe dA1 = .val true ∧ ev.evaluate noRe dA2 = .err false ∧
    ev.evaluate noRe dA3 = .val true := by
  obtain ⟨ev, hc, _, he⟩ := created_refines_spec_default top top_WF fitsA
  exact ⟨ev, hc, (he noRe dA1 hypsA.1).trans refA.1, (he noRe dA2 hypsA.2.1).trans refA.2.1,
    (he noRe dA3 hypsA.2.2).trans refA.2.2⟩

/-- … and independently, computed by the kernel from the BYTES: parse (engine on the pinned
    grammar), create, evaluate -/
theorem exampleA_kernel :
    createAndEvaluate
      (asc "  a.b[ \"c\"]!= -12.5 or not not ( `x y` not  in\t\"/p/q~1r\" )  and foo is empty ")
      [] noRe dA1 = some (.val true) ∧
    createAndEvaluate top.text [] noRe dA2 = some (.err false) := by
  decide +kernel

/-- **The budget hypothesis cannot be dropped**: the parse of the text of example A takes 2776
    steps; with `MaxExpressions(2776)` the evaluator is created (and returns `true` on `dA1`),
    with `MaxExpressions(2775)` `CreateEvaluator` returns the max-expressions error. -/
theorem budget_needed :
    (∃ ev, createEvaluator pinEnv pinGrammar top.text [.maxExpressions 2776] = .ok ev ∧
      ev.evaluate noRe dA1 = .val true) ∧
    createEvaluator pinEnv pinGrammar top.text [.maxExpressions 2775] = .err := by
  obtain ⟨N, hN, hc⟩ := created_refines_spec top top_WF
  have hN' : N = 2776 := (steps_eq_cnt hN fitsA).trans top_engine.1
  subst hN'
  have hb : (getOpts [.maxExpressions 2776]).maxExpressions = 2776 := rfl
  have hb' : (getOpts [.maxExpressions 2775]).maxExpressions = 2775 := rfl
  constructor
  · obtain ⟨ev, hev, _, he⟩ := hc [.maxExpressions 2776] (by rw [hb]; decide)
    exact ⟨ev, hev, (he noRe dA1 hypsA.1).trans refA.1⟩
  · exact C07Eval.create_of_exceeded hN _ (by rw [hb']; decide)

/-! ### B. Quantifiers, newlines and tabs, `_ ,<TAB>v` binding, a bracketed selector as the
    collection of the inner quantifier, a redundant parenthesis around a backquoted comparison:

      <LF>all items as _ ,<TAB>v {<LF><TAB>v.ok != true or<LF><TAB>any v["tags"] as t { ( t == `x` ) }<LF>}<LF> -/

/-- ``t == `x` `` -/
def leafT : MatchSp := .opValue (.bexpr ⟨116, [], []⟩) (.eq [32] [32]) (.str 0x60 [120] [120])
/-- `v.ok != true` -/
def leafOk : MatchSp :=
  .opValue (.bexpr ⟨118, [], [.dotIdent 111 [107]]⟩) (.ne [32] [32]) (.sel ⟨116, [114, 117, 101], []⟩)

def topB : Top :=
  ⟨[10],
   .coll .all [32] (.bexpr ⟨105, [116, 101, 109, 115], []⟩) [32] [32]
     (.value [32] [9] ⟨118, []⟩) [32] [10, 9]
     (.orOp (.andUp (.leaf leafOk)) [32] [10, 9]
       (.coll .any [32] (.bexpr ⟨118, [], [.index [] 0x22 [116, 97, 103, 115] [] [116, 97, 103, 115]]⟩)
         [32] [32] (.dflt ⟨116, []⟩) [32] [32]
         (.orUp (.andUp (.paren [32] (.orUp (.andUp (.leaf leafT))) [32])))
         [32]))
     [10],
   [10]⟩

theorem topB_text : topB.text =
    asc "\nall items as _ ,\tv {\n\tv.ok != true or\n\tany v[\"tags\"] as t { ( t == `x` ) }\n}\n" := by
  decide +kernel

/-- the printed tree -/
theorem topB_ast : topB.ast =
    .coll .all ⟨.bexpr, [asc "items"]⟩ { mode := .value, value := asc "v" }
      (.or (.match_ ⟨.bexpr, [asc "v", asc "ok"]⟩ .notEqual (some (asc "true")))
        (.coll .any ⟨.bexpr, [asc "v", asc "tags"]⟩ { mode := .default, default := asc "t" }
          (.match_ ⟨.bexpr, [asc "t"]⟩ .equal (some (asc "x"))))) := by
  decide +kernel

theorem topB_WF : topB.WF := by
  refine ⟨by decide, ?_, by decide⟩
  -- outer quantifier
  refine ⟨by decide, selWF _ _ (by decide) (by decide), ?_, by decide, by decide,
    ⟨by decide, by decide, by decide, by decide⟩, by decide, by decide, ?_, by decide,
    fun _ => by decide⟩
  · intro K hK
    simp only [kwList, List.mem_cons, List.not_mem_nil, or_false] at hK
    rcases hK with rfl | rfl | rfl | rfl | rfl <;> decide
  -- body: `v.ok != true or any …`
  refine ⟨⟨⟨⟨by decide, by decide, ?_⟩, ⟨by decide, by decide⟩,
      ⟨by decide, by decide, fun p hp => by cases hp⟩⟩, ?_⟩, by decide, by decide, ?_⟩
  · intro p hp
    simp only [List.mem_cons, List.not_mem_nil, or_false] at hp
    subst hp
    exact ⟨by decide, by decide⟩
  · intro σ hσ
    simp only [leafOk, MatchSp.lead, Option.some.injEq] at hσ
    subst hσ
    decide
  -- inner quantifier
  refine ⟨by decide, ⟨by decide, by decide, ?_⟩, ?_, by decide, by decide,
    ⟨by decide, by decide⟩, by decide, by decide, ?_, by decide, fun _ => by decide⟩
  · intro p hp
    simp only [List.mem_cons, List.not_mem_nil, or_false] at hp
    subst hp
    exact ⟨by decide, by decide, .inr rfl, by decide, by decide, by decide⟩
  · intro K hK
    simp only [kwList, List.mem_cons, List.not_mem_nil, or_false] at hK
    rcases hK with rfl | rfl | rfl | rfl | rfl <;> decide
  · refine ⟨by decide, ⟨⟨⟨by decide, by decide, fun p hp => by cases hp⟩, ⟨by decide, by decide⟩,
      ⟨.inl rfl, by decide, by decide, by decide, fun h => by cases h⟩⟩, ?_⟩, by decide⟩
    intro σ hσ
    simp only [leafT, MatchSp.lead, Option.some.injEq] at hσ
    subst hσ
    decide

/-- `{"items": [{"ok": false, "tags": []}, {"ok": true, "tags": ["y", "x"]}]}` -/
def dB1 : Any := some (jobj [(asc "items", jarr [
  jobj [(asc "ok", jbool false), (asc "tags", jarr [])],
  jobj [(asc "ok", jbool true), (asc "tags", jarr [jstr (asc "y"), jstr (asc "x")])]])])

/-- `{"items": [{"ok": true, "tags": ["y"]}, {"tags": 1}]}`: the first element decides, the
    second (on which the body is an error) is not looked at -/
def dB2 : Any := some (jobj [(asc "items", jarr [
  jobj [(asc "ok", jbool true), (asc "tags", jarr [jstr (asc "y")])],
  jobj [(asc "tags", jnum 0x3FF0000000000000)]])])

/-- `{"items": [{"ok": true, "tags": 1}]}`: `tags` is not iterable -/
def dB3 : Any := some (jobj [(asc "items", jarr [
  jobj [(asc "ok", jbool true), (asc "tags", jnum 0x3FF0000000000000)]])])

theorem hypsB : C01.Hyps dB1 (cfgOf []) (getOpts []).unknown ∧
    C01.Hyps dB2 (cfgOf []) (getOpts []).unknown ∧ C01.Hyps dB3 (cfgOf []) (getOpts []).unknown :=
  ⟨C01.hyps_of_size dB1 _ _ (by decide) (Or.inl rfl) (by intro u h; cases h) (by decide),
   C01.hyps_of_size dB2 _ _ (by decide) (Or.inl rfl) (by intro u h; cases h) (by decide),
   C01.hyps_of_size dB3 _ _ (by decide) (Or.inl rfl) (by intro u h; cases h) (by decide)⟩

theorem fitsB : Fits topB.text := by decide +kernel

theorem refB : refOutcome noRe topB.ast [] dB1 = .val true ∧
    refOutcome noRe topB.ast [] dB2 = .val false ∧ refOutcome noRe topB.ast [] dB3 = .err false := by
  decide +kernel

/-- **Example B as an instance of theorem 2.** -/
theorem exampleB : ∃ ev, createEvaluator pinEnv pinGrammar topB.text [] = .ok ev ∧
    ev.evaluate noRe dB1 = .val true ∧ ev.evaluate noRe dB2 = .val false ∧
    ev.evaluate noRe dB3 = .err false := by
  obtain ⟨ev, hc, _, he⟩ := created_refines_spec_default topB topB_WF fitsB
  exact ⟨ev, hc, (he noRe dB1 hypsB.1).trans refB.1, (he noRe dB2 hypsB.2.1).trans refB.2.1,
    (he noRe dB3 hypsB.2.2).trans refB.2.2⟩

/-- … under options: another tag name, the identity hook, an unknown-value that is not
    iterable, a budget — the hypotheses of theorem 2 are satisfiable for non-default options -/
def optsB : List Opt :=
  [.tagName [0x6A], .hookFn .identity, .unknownValue (some (.str "" [63])), .maxExpressions 100000]

theorem exampleB_opts : ∃ ev, createEvaluator pinEnv pinGrammar topB.text optsB = .ok ev ∧
    ev.evaluate noRe dB1 = refOutcome noRe topB.ast optsB dB1 := by
  obtain ⟨ev, hc, _, he⟩ := created_refines_spec_fits topB topB_WF optsB (by decide +kernel)
  refine ⟨ev, hc, he noRe dB1 ?_⟩
  refine C01.hyps_of_size dB1 _ _ (by decide) (Or.inr rfl) ?_ (by decide)
  intro u h
  have hu : (getOpts optsB).unknown = some (some (.str "" [63])) := rfl
  have : u = some (.str "" [63]) := (Option.some.inj (hu.symm.trans h)).symm
  subst this
  simp [C06.Iterable]

/-- … and independently from the BYTES, by the kernel -/
theorem exampleB_kernel :
    createAndEvaluate
      (asc "\nall items as _ ,\tv {\n\tv.ok != true or\n\tany v[\"tags\"] as t { ( t == `x` ) }\n}\n")
      [] noRe dB1 = some (.val true) ∧
    createAndEvaluate topB.text [] noRe dB2 = some (.val false) ∧
    createAndEvaluate topB.text [] noRe dB3 = some (.err false) := by
  decide +kernel

/-- the corollaries apply: `(A) and (B)`, `not (A)` built from the two renderings -/
example : ∃ ev ev₁ ev₂, createEvaluator pinEnv pinGrammar (andOf top topB).text [] = .ok ev ∧
    createEvaluator pinEnv pinGrammar top.text [] = .ok ev₁ ∧
    createEvaluator pinEnv pinGrammar topB.text [] = .ok ev₂ ∧
    ∀ (re : RegexOracle) (d : Any),
      ev.evaluate re d = C03.andTable (ev₁.evaluate re d) (ev₂.evaluate re d) :=
  text_and_table _ top topB (andOf_ok top topB top_WF topB_WF).1 top_WF topB_WF
    (andOf_ok top topB top_WF topB_WF).2.1 [] (by decide +kernel) ((fitsIn_zero_iff _).2 fitsA)
    ((fitsIn_zero_iff _).2 fitsB)

end Example

end Bexpr.Props.C01Eval

#print axioms Bexpr.Props.C01Eval.matchValue_err_false
#print axioms Bexpr.Props.C01Eval.fold_err_false
#print axioms Bexpr.Props.C01Eval.denote_err_false
#print axioms Bexpr.Props.C01Eval.denote_notFold
#print axioms Bexpr.Props.C01Eval.norm_denote
#print axioms Bexpr.Props.C01Eval.evaluate_notFold
#print axioms Bexpr.Props.C01Eval.norm_evaluate
#print axioms Bexpr.Props.C01Eval.norm_evaluator
#print axioms Bexpr.Props.C01Eval.wellBound_notFold
#print axioms Bexpr.Props.C01Eval.wellBound_norm
#print axioms Bexpr.Props.C01Eval.quantFree_notFold
#print axioms Bexpr.Props.C01Eval.quantFree_norm
#print axioms Bexpr.Props.C01Eval.selX_path_nonempty
#print axioms Bexpr.Props.C01Eval.bindSp_oneAlias
#print axioms Bexpr.Props.C01Eval.matchSp_wellBound
#print axioms Bexpr.Props.C01Eval.sp_wellBound
#print axioms Bexpr.Props.C01Eval.rendering_wellBound
#print axioms Bexpr.Props.C01Eval.evOf_refines
#print axioms Bexpr.Props.C01Eval.created_eq_evOf
#print axioms Bexpr.Props.C01Eval.created_refines_spec
#print axioms Bexpr.Props.C01Eval.created_refines_spec_fits
#print axioms Bexpr.Props.C01Eval.created_refines_spec_default
#print axioms Bexpr.Props.C01Eval.created_refines_spec_of_created
#print axioms Bexpr.Props.C01Eval.created_refines_spec_quantifier_free
#print axioms Bexpr.Props.C01Eval.created_fits
#print axioms Bexpr.Props.C01Eval.tables_same
#print axioms Bexpr.Props.C01Eval.text_and_table
#print axioms Bexpr.Props.C01Eval.text_or_table
#print axioms Bexpr.Props.C01Eval.text_not_table
#print axioms Bexpr.Props.C01Eval.text_and_table_spec
#print axioms Bexpr.Props.C01Eval.text_or_table_spec
#print axioms Bexpr.Props.C01Eval.text_not_table_spec
#print axioms Bexpr.Props.C01Eval.andOf_ok
#print axioms Bexpr.Props.C01Eval.orOf_ok
#print axioms Bexpr.Props.C01Eval.notOf_ok
#print axioms Bexpr.Props.C01Eval.renderings_agree_norm
#print axioms Bexpr.Props.C01Eval.renderings_agree
#print axioms Bexpr.Props.C01Eval.renderings_agree_of_created
#print axioms Bexpr.Props.C01Eval.renderings_agree_spec
#print axioms Bexpr.Props.C01Eval.Example.hypsA
#print axioms Bexpr.Props.C01Eval.Example.fitsA
#print axioms Bexpr.Props.C01Eval.Example.refA
#print axioms Bexpr.Props.C01Eval.Example.exampleA
#print axioms Bexpr.Props.C01Eval.Example.exampleA_kernel
#print axioms Bexpr.Props.C01Eval.Example.budget_needed
#print axioms Bexpr.Props.C01Eval.Example.topB_text
#print axioms Bexpr.Props.C01Eval.Example.topB_ast
#print axioms Bexpr.Props.C01Eval.Example.topB_WF
#print axioms Bexpr.Props.C01Eval.Example.hypsB
#print axioms Bexpr.Props.C01Eval.Example.fitsB
#print axioms Bexpr.Props.C01Eval.Example.refB
#print axioms Bexpr.Props.C01Eval.Example.exampleB
#print axioms Bexpr.Props.C01Eval.Example.exampleB_opts
#print axioms Bexpr.Props.C01Eval.Example.exampleB_kernel
