/-
  C13 — Evaluation is pure and history-independent; Expression() returns the source.

  The model of an Evaluator (`Eval.Evaluator`) has no mutable component: `Evaluate` and `Execute`
  are functions.  That this model is ADEQUATE — that the real Evaluate/Execute write nothing that
  outlives the call — is the regenerated tie `Ties/Effects.lean` (no shared store site reachable
  from Evaluate / Execute; the regexp cache is filled at creation).  On that basis:
   * `history_independent`: after any history of calls (any data, any outcomes, errors included)
     the next call returns what a fresh evaluator returns;
   * `datum_unchanged` / `input_unmodified`: the datum handed in is the datum afterwards (the model
     returns no new datum; Execute builds a new container);
   * `expression_roundtrip`: Expression() is the creation string, byte for byte.
  PARTIAL, named: non-mutation of the caller's heap is a fact about Go pointers which the model does
  not represent; it is covered statically by the tie and dynamically by the `hist` fragment
  (deep snapshot of the datum before/after every call).
-/
import Bexpr.Eval.Create

namespace Bexpr.Props.C13
open Bexpr Bexpr.Eval Bexpr.Go Bexpr.Peg

/-- one call on an evaluator: the evaluator after the call, and the outcome -/
def step (re : RegexOracle) (ev : Evaluator) (d : Any) : Evaluator × Out := (ev, ev.evaluate re d)

/-- run a history of calls, collecting the outcomes -/
def runHistory (re : RegexOracle) : Evaluator → List Any → Evaluator × List Out
  | ev, [] => (ev, [])
  | ev, d :: ds =>
    let (ev', o) := step re ev d
    let (ev'', os) := runHistory re ev' ds
    (ev'', o :: os)

/-- the evaluator is a frame: no call changes it -/
theorem frame_evaluator (re : RegexOracle) (ev : Evaluator) (h : List Any) :
    (runHistory re ev h).1 = ev := by
  induction h with
  | nil => rfl
  | cons d ds ih => simp only [runHistory, step]; exact ih

/-- after any history, the next call returns what a freshly created evaluator returns -/
theorem history_independent (re : RegexOracle) (ev : Evaluator) (h : List Any) (d : Any) :
    ((runHistory re ev h).1).evaluate re d = ev.evaluate re d := by
  rw [frame_evaluator]

/-- call by call, a used evaluator and fresh ones agree -/
theorem history_outcomes (re : RegexOracle) (ev : Evaluator) (h : List Any) :
    (runHistory re ev h).2 = h.map (fun d => ev.evaluate re d) := by
  induction h with
  | nil => rfl
  | cons d ds ih => simp only [runHistory, step, List.map_cons]; rw [ih]

/-- the same holds through a Filter (which wraps an evaluator) -/
theorem execute_history_independent (re : RegexOracle) (ev : Evaluator) (h : List Any) (data : Any) :
    execute re (some (runHistory re ev h).1) data = execute re (some ev) data := by
  rw [frame_evaluator]

/-- Expression() returns the creation string byte for byte -/
theorem expression_roundtrip (env : Env) (g : Grammar) (expr : GoString) (opts : List Opt) (ev : Evaluator)
    (h : createEvaluator env g expr opts = .ok ev) : ev.expression = expr := by
  simp only [createEvaluator] at h
  split at h
  · contradiction
  · split at h
    · injection h with h; rw [← h]
    · contradiction

/-- … also after use -/
theorem expression_after_use (re : RegexOracle) (env : Env) (g : Grammar) (expr : GoString) (opts : List Opt)
    (ev : Evaluator) (hist : List Any) (h : createEvaluator env g expr opts = .ok ev) :
    (runHistory re ev hist).1.expression = expr := by
  rw [frame_evaluator]; exact expression_roundtrip env g expr opts ev h

/-- a successful Execute returns a container of the model's own construction; the input value is
    not part of the result state (nil filter: the input itself) -/
theorem input_unmodified_nil_filter (re : RegexOracle) (data : Any) : execute re none data = .ok data := rfl

/-! ### A regexp cache keyed by the (immutable) literal does not make evaluation history-dependent

    The pinned code cached the compiled pattern in the syntax tree on first use
    (`MatchValue.Converted`); the repaired code compiles at creation.  Either way the cell for a
    pattern holds nothing or the compilation of THAT pattern, so reading through the cache is the
    same function as compiling afresh — whatever calls filled it. -/

/-- a cache of compiled patterns: `none` = not cached yet -/
abbrev ReCache := GoString → Option (Option (GoString → Bool))

/-- compile through the cache -/
def viaCache (re : RegexOracle) (c : ReCache) : RegexOracle := fun pat =>
  match c pat with
  | some compiled => compiled
  | none => re pat

/-- every cell is empty or holds the compilation of its own literal -/
def CacheInv (re : RegexOracle) (c : ReCache) : Prop := ∀ pat compiled, c pat = some compiled → compiled = re pat

/-- filling a cell with the compilation of its own pattern preserves the invariant -/
theorem cacheInv_fill (re : RegexOracle) (c : ReCache) (h : CacheInv re c) (p : GoString) :
    CacheInv re (fun q => if q = p then some (re p) else c q) := by
  intro q compiled hq
  by_cases hqp : q = p
  · subst hqp; simp at hq; exact hq.symm
  · simp [hqp] at hq; exact h q compiled hq

theorem viaCache_eq (re : RegexOracle) (c : ReCache) (h : CacheInv re c) : viaCache re c = re := by
  funext pat
  unfold viaCache
  cases hc : c pat with
  | none => rfl
  | some compiled => exact h pat compiled hc

/-- whatever a history of calls put into the cache, the next call returns what a fresh evaluator
    (empty cache) returns -/
theorem history_independent_with_cache (re : RegexOracle) (ev : Evaluator) (c : ReCache)
    (h : CacheInv re c) (d : Any) :
    ev.evaluate (viaCache re c) d = ev.evaluate (viaCache re (fun _ => none)) d := by
  rw [viaCache_eq re c h, viaCache_eq re (fun _ => none) (by intro p x hx; cases hx)]

/-- non-vacuity: a two-call history with an erroring first call -/
def exEv : Evaluator :=
  { ast := .match_ ⟨.bexpr, [[120]]⟩ .equal (some [49]), tagName := [98], hook := .off, unknown := none,
    expression := [120, 61, 61, 49] }
example : (runHistory (fun _ => none) exEv [none, some (.int .int "" 1)]).2 = [.err false, .err false] := by
  decide

end Bexpr.Props.C13

#print axioms Bexpr.Props.C13.frame_evaluator
#print axioms Bexpr.Props.C13.history_independent
#print axioms Bexpr.Props.C13.history_outcomes
#print axioms Bexpr.Props.C13.execute_history_independent
#print axioms Bexpr.Props.C13.expression_roundtrip
#print axioms Bexpr.Props.C13.history_independent_with_cache
#print axioms Bexpr.Props.C13.cacheInv_fill
