/-
  C03 — not/and/or are truth-functional, short-circuit left to right, errors propagate.

  The theorems are about `Eval.evaluate` (the model of evaluate.go:evaluate) and hold for every
  regexp oracle, option record and datum; the outcomes of the operands are arbitrary.  The tie of
  the connectives to the source is `Ties/EvaluateSem.lean` (the regenerated GoLite term of `evaluate`
  interpreted on every combination of operand outcomes: results equal to the tables below, calls
  exactly `evaluate(left)` [`, evaluate(right)`]) and the `conn` correspondence fragment.
-/
import Bexpr.Eval.Impl

namespace Bexpr.Props.C03
open Bexpr Bexpr.Eval Bexpr.Go

variable (re : RegexOracle) (o : Opts) (d : Any)

/-- the outcome table of `and`: A's outcome if A is false or an error, otherwise B's -/
def andTable (a b : Out) : Out :=
  match a with
  | .val true => b
  | x => x

/-- the outcome table of `or`: A's outcome if A is true or an error, otherwise B's -/
def orTable (a b : Out) : Out :=
  match a with
  | .val false => b
  | x => x

/-- `not` swaps true and false and passes an error through (with `false`) -/
def notTable (a : Out) : Out :=
  match a with
  | .val b => .val (!b)
  | .err _ => .err false
  | x => x

theorem and_table (l r : Expr) :
    evaluate re (.and l r) o d = andTable (evaluate re l o d) (evaluate re r o d) := by
  simp only [evaluate, andTable]
  split <;> simp_all

theorem or_table (l r : Expr) :
    evaluate re (.or l r) o d = orTable (evaluate re l o d) (evaluate re r o d) := by
  simp only [evaluate, orTable]
  split <;> simp_all

theorem not_table (e : Expr) :
    evaluate re (.not e) o d = notTable (evaluate re e o d) := by
  simp only [evaluate, notTable]
  split <;> simp_all

/-- an error in a sub-expression that the short circuit never reaches is not reported -/
theorem unreached_error_silent_and (l r : Expr) (h : evaluate re l o d = .val false) :
    evaluate re (.and l r) o d = .val false := by
  rw [and_table, h]; rfl

theorem unreached_error_silent_or (l r : Expr) (h : evaluate re l o d = .val true) :
    evaluate re (.or l r) o d = .val true := by
  rw [or_table, h]; rfl

/-- an error on the left is the result (the right side is not consulted) -/
theorem left_error_propagates_and (l r : Expr) (b : Bool) (h : evaluate re l o d = .err b) :
    evaluate re (.and l r) o d = .err b := by
  rw [and_table, h]; rfl

theorem left_error_propagates_or (l r : Expr) (b : Bool) (h : evaluate re l o d = .err b) :
    evaluate re (.or l r) o d = .err b := by
  rw [or_table, h]; rfl

/-- every error outcome of `evaluateMatch` carries `false` -/
theorem negate_err_false (x : Out) (b : Bool) (h : negate x = .err b) : b = false := by
  cases x <;> simp_all [negate]

theorem doMatchEqual_err_false (raw : Option GoString) (v : RV) (b : Bool)
    (h : doMatchEqual raw v = .err b) : b = false := by
  unfold doMatchEqual at h
  grind

theorem inIfaceLoop_err_false (raw : GoString) (xs : List GoVal) (b : Bool)
    (h : inIfaceLoop raw xs = .err b) : b = false := by
  induction xs with
  | nil => simp [inIfaceLoop] at h
  | cons x xs ih =>
    unfold inIfaceLoop at h
    grind

theorem inConcreteLoop_err_false (k : Kind) (lit : Lit) (xs : List GoVal) (b : Bool)
    (h : inConcreteLoop k lit xs = .err b) : b = false := by
  induction xs with
  | nil => simp [inConcreteLoop] at h
  | cons x xs ih =>
    unfold inConcreteLoop at h
    grind

theorem inElems_err_false (raw : GoString) (elem : GoType) (xs : List GoVal) (b : Bool)
    (h : doMatchIn.inElems raw elem xs = .err b) : b = false := by
  unfold doMatchIn.inElems at h
  grind [inIfaceLoop_err_false, inConcreteLoop_err_false]

theorem doMatchIn_err_false (raw : Option GoString) (v : RV) (b : Bool)
    (h : doMatchIn raw v = .err b) : b = false := by
  unfold doMatchIn at h
  grind [inElems_err_false]

theorem doMatchIsEmpty_err_false (v : RV) (b : Bool) (h : doMatchIsEmpty v = .err b) :
    b = false := by
  unfold doMatchIsEmpty at h
  grind

theorem doMatchMatches_err_false (raw : Option GoString) (v : RV) (b : Bool)
    (h : doMatchMatches re raw v = .err b) : b = false := by
  unfold doMatchMatches at h
  grind

theorem evaluateMatch_err_false (sel : Selector) (op : MatchOp) (raw : Option GoString) (b : Bool)
    (h : evaluateMatch re o d sel op raw = .err b) : b = false := by
  unfold evaluateMatch at h
  grind [doMatchEqual_err_false, doMatchIn_err_false, doMatchIsEmpty_err_false,
    doMatchMatches_err_false, negate_err_false]

theorem collLoop_err_false (f : Opts → Out) (op : CollOp) (bnd : Binding)
    (bss : List (List LocalVar)) (b : Bool) (h : collLoop f o op bnd bss = .err b) :
    b = false := by
  induction bss with
  | nil => simp [collLoop] at h
  | cons bs rest ih =>
    unfold collLoop at h
    grind

/-- an error outcome always carries `false` (the documented contract of Evaluate) -/
theorem err_bool_false (e : Expr) : ∀ (o : Opts) (b : Bool), evaluate re e o d = .err b → b = false := by
  induction e with
  | not e ih =>
    intro o b h
    rw [not_table] at h
    cases hx : evaluate re e o d <;> simp_all [notTable]
  | and l r ihl ihr =>
    intro o b h
    rw [and_table] at h
    cases hx : evaluate re l o d with
    | val v =>
      rw [hx] at h
      cases v with
      | true => exact ihr o b h
      | false => simp [andTable] at h
    | err b' =>
      rw [hx] at h
      simp only [andTable] at h
      injection h with h
      subst h
      exact ihl o b' hx
    | panic => rw [hx] at h; simp [andTable] at h
    | unmodelled => rw [hx] at h; simp [andTable] at h
  | or l r ihl ihr =>
    intro o b h
    rw [or_table] at h
    cases hx : evaluate re l o d with
    | val v =>
      rw [hx] at h
      cases v with
      | false => exact ihr o b h
      | true => simp [orTable] at h
    | err b' =>
      rw [hx] at h
      simp only [orTable] at h
      injection h with h
      subst h
      exact ihl o b' hx
    | panic => rw [hx] at h; simp [orTable] at h
    | unmodelled => rw [hx] at h; simp [orTable] at h
  | match_ sel op raw =>
    intro o b h
    simp only [evaluate] at h
    exact evaluateMatch_err_false re o d sel op raw b h
  | coll op sel bnd inner ih =>
    intro o b h
    simp only [evaluate] at h
    grind [collLoop_err_false]

/-- double negation preserves the outcome -/
theorem not_not (e : Expr) : evaluate re (.not (.not e)) o d = evaluate re e o d := by
  rw [not_table, not_table]
  cases hx : evaluate re e o d with
  | val b => simp [notTable]
  | err b => have := err_bool_false re d e o b hx; subst this; simp [notTable]
  | panic => simp [notTable]
  | unmodelled => simp [notTable]

/-- De Morgan rewrites preserve the outcome -/
theorem de_morgan_and (a b : Expr) :
    evaluate re (.not (.and a b)) o d = evaluate re (.or (.not a) (.not b)) o d := by
  rw [not_table, and_table, or_table, not_table, not_table]
  cases ha : evaluate re a o d with
  | val v => cases v <;> simp [andTable, orTable, notTable]
  | err x => have := err_bool_false re d a o x ha; subst this; simp [andTable, orTable, notTable]
  | panic => simp [andTable, orTable, notTable]
  | unmodelled => simp [andTable, orTable, notTable]

theorem de_morgan_or (a b : Expr) :
    evaluate re (.not (.or a b)) o d = evaluate re (.and (.not a) (.not b)) o d := by
  rw [not_table, or_table, and_table, not_table, not_table]
  cases ha : evaluate re a o d with
  | val v => cases v <;> simp [andTable, orTable, notTable]
  | err x => have := err_bool_false re d a o x ha; subst this; simp [andTable, orTable, notTable]
  | panic => simp [andTable, orTable, notTable]
  | unmodelled => simp [andTable, orTable, notTable]

/-- non-vacuity: the nine (A,B) outcome pairs of the table are all distinguishable -/
example : andTable (.val true) (.err false) = .err false ∧ andTable (.val false) (.err false) = .val false
    ∧ orTable (.val true) (.err false) = .val true ∧ orTable (.err false) (.val true) = .err false := by
  decide

end Bexpr.Props.C03

#print axioms Bexpr.Props.C03.and_table
#print axioms Bexpr.Props.C03.or_table
#print axioms Bexpr.Props.C03.not_table
#print axioms Bexpr.Props.C03.err_bool_false
#print axioms Bexpr.Props.C03.not_not
#print axioms Bexpr.Props.C03.de_morgan_and
#print axioms Bexpr.Props.C03.de_morgan_or
