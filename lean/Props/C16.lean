/-
  Property C16 (print / parse round trip):

    "Rendering any expression tree to text with any mix of optional whitespace, redundant
     parentheses, double-quote/backtick/bare literal styles, selector spellings and in/contains
     spellings, and parsing it back, yields the same tree: `not` binds tighter than `and`, `and`
     tighter than `or`, chains group to the right, `not not e` is `e`, parentheses override all of
     these, and a quoted literal denotes exactly the Go string it spells."

  The parser is the PINNED grammar table `pinGrammar` with the code blocks `pinEnv`
  (`Ties/PinnedGrammar.lean` ties the regenerated table to it); its meaning is the declarative
  PEG semantics `Sem` (`Props/C15.lean`: the engine is sound and complete for it), so
  `Accepts pinEnv pinGrammar text v` below means: pigeon's `Parse` on `text` returns `v` and no
  error, for every budget that admits the (unique) derivation — `print_parse_roundtrip_engine`.

  What "a rendering of a tree" is.  A rendering is a value `ρ : Top` = leading blanks, an
  `Sp .or`, trailing blanks.  `Sp l` (`Proofs/RoundTripExpr.lean`) is concrete syntax: it records
  every blank run, every keyword, every pair of parentheses (redundant ones included), the
  quantifiers `any/all S as bindings { body }` with all their blanks and the four binding forms
  (`i, v` · `i, _` · `_, v` · `d`), and at the leaves a `MatchSp` (`Proofs/RoundTripMatch.lean`)
  with the spelling of the selector (`a.b.0`, `a["b"][`0`]`, blanks inside the brackets, or
  `"/a/b/0"`), of the operator (`==`, `!=`, `contains`/`in`, `not contains`/`not in`, `matches`,
  `not matches`, `is empty`, `is not empty`, all with their blanks) and of the value (bare
  word, number, backquoted or double-quoted literal).  `ρ.text` is the text, `ρ.ast` the tree
  that was rendered (`print t layout` of the task = `ρ.text` for a `ρ` with `ρ.ast = t`; `ρ` IS
  the pair of tree and layout).  `STree.full` / `STree.minOr` construct the fully parenthesised
  and the minimally parenthesised rendering of any tree with spelled leaves.

  PROVED (`print_parse_roundtrip_partial`): for every well-formed rendering `ρ`,
      Accepts pinEnv pinGrammar ρ.text (.expr (norm ρ.ast))
  where `norm` folds `not not e` to `e`.  All node kinds (`not`, `and`, `or`, the three match
  forms, quantifiers) and all the layout freedom listed above are covered.

  INTENDED FULL STATEMENT (not proved in this generality):

      theorem print_parse_roundtrip (t : Expr) (ρ : Layout t) (h : Printable t ρ) :
          Accepts pinEnv pinGrammar (print t ρ) (.expr (norm t))

    for every tree `t`, every layout, and `Printable` demanding only what the bexpr language
    itself demands.  String contents and pointer segments are no longer restricted to ASCII
    (see 1); what separates the proved statement from this one is 2–6 below, of which 2 is a
    defect of the pinned grammar and 3–6 are properties of the language.

  RESTRICTIONS of the proved statement (all are explicit hypotheses inside `Top.WF`):
   1. (was: ASCII only — LIFTED.)  The text is VALID UTF-8, not ASCII: `VT` = Go's
      `utf8.ValidString` (`valid_text_iff`; `Proofs/Utf8Text.lean`).  Concretely
        · the body of a backquoted or double-quoted literal (value or index `a["…"]`) is ANY
          valid UTF-8 string without the delimiter byte (`PartSp.WF`, `ValSp.WF`: `VT body`); a
          backquoted body without `\r` denotes itself (`string_literal_backtick`), any other body
          whatever `strconv.Unquote` says (`string_literal_general`);
        · the renderer's double-quoted literal `quoteX22 s` is covered for EVERY byte string `s`,
          valid UTF-8 or not (`string_literal_quoteX22`, `quoteX22_shape`: its output is always
          valid text — printable runes raw, everything else and every invalid byte escaped), also
          inside renderings (`value_quoteX22_WF`, `index_quoteX22_WF`, `value_backtick_WF`;
          `wf_value_literal`, `wf_index_literal`, `wf_pointer` spell the hypotheses out);
        · a JSON-pointer segment is any non-empty valid UTF-8 string whose runes are in the
          grammar's class `[\pL\pN-_.~:|]` with Go's `unicode.L` / `unicode.N` tables, non-ASCII
          letters and digits included (`SegOK`, `segOK_iff`, `pointer_segment`);
        · blanks, keywords, identifiers, numbers and punctuation are ASCII because the grammar
          says so (`[ \t\r\n]`, `[a-zA-Z][a-zA-Z0-9_/]*`, …), not because of the proof.
      What is still required, validity of the UTF-8, is required by the parser itself: `read`
      logs `invalid encoding` on every byte that does not start a well-formed rune, and a run
      with a non-empty log is a rejection; a raw invalid byte inside a literal makes the engine
      reject (instance: `Example.invalid_byte_rejected`; not proved in general here) — it has to
      be written `\xHH` inside a double-quoted literal, which is what `quoteX22` does.  The lexical core is `any_multibyte` / `Proofs/RoundTripLex.lean`: at a well-formed
      multi-byte rune the position holds that rune, reading it advances by the width of its
      encoding and logs nothing, and it matches no ASCII literal and no ASCII-only class.
   2. A DOUBLE-quoted value literal must have a non-empty body that does not start with `/`
      (`ValSp.WF`).  This is a property of the pinned grammar, not of the proof: `Value` tries
      `Selector` first, which reads `"/usr/bin"` as a JSON pointer, so the literal's `Raw` becomes
      `usr/bin` (defect known as the `"/usr/bin"` finding); `""` happens to survive (the empty
      pointer renders as the empty string) but is excluded with the others.  Backquoted values
      and double-quoted INDEX literals `a["/x"]` are not restricted.
   3. The first identifier of a match expression is not the bare word `not`
      (`MatchSp.notKwOK`): `not in x` would be read as the operator `not`.
   4. The first identifier of a quantifier's selector is none of `contains`, `matches`, `not`,
      `is`, `in` (`SelX.kwOK`): `any contains as x {…}` IS a match expression `any contains as`
      for the grammar (language property).
   5. JSON-pointer selector spelling: every escaped path element is non-empty and over the
      grammar's `[\pL\pN-_.~:|]+` (language property: any other rune ends the segment — `SegOK`,
      no longer restricted to ASCII); the path is non-empty.
   6. A number value must be followed by a blank, `)` or the end of input — the grammar's own
      `AfterNumbers` condition.  Inside a rendering this always holds except for a quantifier
      body ending in a number directly before `}`: there a blank is required (`Sp.WF` of `coll`),
      as in the language (`{x == 1}` is an "Invalid number literal" error).
-/
import Props.C15
import Props.C16Lex
import Proofs.RoundTripExpr

namespace Bexpr.Props.C16
open Bexpr Bexpr.Peg Bexpr.Driver Bexpr.Proofs.RoundTrip

/-! ## 1. The round trip -/

/-- **C16, as proved.**  Every well-formed rendering `ρ` (any blanks, any redundant
    parentheses, any selector / operator / literal / binding spellings, see the header) of a
    tree parses back to that tree with `not not e` folded to `e`.
    Restrictions: see 2–6 in the header (1, ASCII only, is lifted: string bodies and pointer
    segments are arbitrary valid UTF-8). -/
theorem print_parse_roundtrip_partial (ρ : Top) (h : ρ.WF) :
    Accepts pinEnv pinGrammar ρ.text (.expr (norm ρ.ast)) :=
  accepts_top_norm ρ h

/-- … hence the ENGINE (`run` = pigeon's `Parse`) returns that tree, no errors, after exactly
    `N` expression evaluations, for every budget `n` that admits `N` (`n = 0` is
    `math.MaxUint64`). -/
theorem print_parse_roundtrip_engine (ρ : Top) (h : ρ.WF) :
    ∃ N, AcceptsIn pinEnv pinGrammar ρ.text (.expr (norm ρ.ast)) N ∧ ∀ n, N ≤ effectiveMax n →
      run pinEnv pinGrammar n ρ.text = { val := .expr (norm ρ.ast), errs := [], cnt := N } := by
  obtain ⟨N, hN⟩ := (C15.accepts_iff_acceptsIn _ _ _ _).1 (print_parse_roundtrip_partial ρ h)
  exact ⟨N, hN, fun n hn => C15.run_of_acceptsIn pinEnv pinGrammar n ρ.text hN hn⟩

/-- … and whenever the engine accepts the text at all (any budget), the tree is that one. -/
theorem print_parse_roundtrip_unique (ρ : Top) (h : ρ.WF) (n : Nat)
    (ha : (run pinEnv pinGrammar n ρ.text).accepted = true) :
    (run pinEnv pinGrammar n ρ.text).val = .expr (norm ρ.ast) :=
  C15.accepts_unique _ _ _ (C15.run_accepted_sound _ _ n _ ha) (print_parse_roundtrip_partial ρ h)

/-- The round trip below the start rule: at each grammar level (`OrExpression`,
    `AndExpression`, `NotExpression`) the rule consumes exactly the rendering and yields its
    tree, inside any admissible context `rest` (`Ctx`: what may follow an expression of that
    level), from any offset, logging nothing. -/
theorem level_roundtrip {l : Lvl} (c : Sp l) (h : c.WF) (rest : GoString)
    (hc : Ctx l c.endsNum rest)
    (hr : VT rest) (rule : String) (fr : Frame) (off : Nat) (errs : List PErr) :
    Sem pinEnv pinGrammar rule (.ruleRef (ruleName l)) fr (ptAt (c.text ++ rest) off) errs
      (.res (ptAt rest (off + c.text.length)) errs fr (.expr (norm c.ast)) true) := by
  have := eats_Sp c h rest hc hr rule fr off errs
  rw [c.val_eq_norm] at this
  exact this

/-! ## 2. Precedence, grouping, parentheses, `not not` -/

/-- Fully parenthesised rendering (every operand of `not`/`and`/`or` in parentheses). -/
theorem print_parse_roundtrip_paren (s : STree) (h : s.LeavesOK) :
    Accepts pinEnv pinGrammar (Top.text ⟨[], s.full, []⟩) (.expr (norm s.ast)) :=
  accepts_full s h

/-- Minimal parentheses: an operand is parenthesised only where the grammar needs it —
    `or` under `and`/`not`, `and` under `not` or as a LEFT operand of `and`, `or` as a LEFT
    operand of `or`.  That this parses back to the same tree IS the statement "`not` binds
    tighter than `and`, `and` tighter than `or`, chains group to the right". -/
theorem print_parse_roundtrip_minimal (s : STree) (h : s.LeavesOK) :
    Accepts pinEnv pinGrammar (Top.text ⟨[], s.minOr, []⟩) (.expr (norm s.ast)) :=
  accepts_minimal s h

/-- `a or b and not c` (no parentheses in the minimal rendering) is `or a (and b (not c))`,
    `a and b and c` is `and a (and b c)`, `(a and b) and c` keeps its parentheses. -/
theorem minimal_shapes (a b c : MatchSp) :
    (STree.or (.leaf a) (.and (.leaf b) (.not (.leaf c)))).minOr =
      .orOp (.andUp (.leaf a)) sp1 sp1
        (.orUp (.andOp (.leaf b) sp1 sp1 (.andUp (.notOp sp1 (.leaf c))))) ∧
    (STree.and (.leaf a) (.and (.leaf b) (.leaf c))).minOr =
      .orUp (.andOp (.leaf a) sp1 sp1 (.andOp (.leaf b) sp1 sp1 (.andUp (.leaf c)))) ∧
    (STree.and (.and (.leaf a) (.leaf b)) (.leaf c)).minOr =
      .orUp (.andOp (.paren [] (.orUp (.andOp (.leaf a) sp1 sp1 (.andUp (.leaf b)))) [])
        sp1 sp1 (.andUp (.leaf c))) :=
  ⟨rfl, rfl, rfl⟩

/-- `not not e` is `e`. -/
theorem not_not (e : Expr) : norm (.not (.not e)) = norm e := norm_not_not e

/-- A tree without `not not` comes back unchanged. -/
theorem norm_fixed (e : Expr) (h : NoNotNot e) : norm e = e := norm_id e h

/-- What the parser returns never contains `not not`. -/
theorem norm_folded (e : Expr) : NoNotNot (norm e) := norm_noNotNot e

/-! ## 3. The match forms: `in` / `contains` spellings -/

/-- `V in S` and `S contains V` denote the same node; so do `V not in S` and
    `S not contains V`. -/
theorem in_contains_same (x : SelX) (v : ValSp) (w₁ w₂ u₁ u₂ u₃ : GoString) :
    (MatchSp.inSel v (.in_ w₁ w₂) x).ast = (MatchSp.opValue x (.contains w₁ w₂) v).ast ∧
    (MatchSp.inSel v (.notIn u₁ u₂ u₃) x).ast =
      (MatchSp.opValue x (.notContains u₁ u₂ u₃) v).ast :=
  ⟨rfl, rfl⟩

/-- The rule `MatchExpression` on any spelled match expression. -/
theorem match_roundtrip (m : MatchSp) (h : m.WF) (rest : GoString) (hf : m.follow rest)
    (hr : VT rest) (rule : String) (fr : Frame) (off : Nat) (errs : List PErr) :
    Sem pinEnv pinGrammar rule (.ruleRef "MatchExpression") fr (ptAt (m.text ++ rest) off) errs
      (.res (ptAt rest (off + m.text.length)) errs fr (.expr m.ast) true) :=
  eats_MatchExpression m h hf hr

/-! ## 4. Literals: a quoted literal denotes the Go string it spells -/

/-- `VT` ("valid text", the hypothesis on the surrounding input everywhere below) is Go's
    `utf8.ValidString`. -/
theorem valid_text_iff (s : GoString) : VT s ↔ Utf8.validString s = true :=
  vt_iff_validString s

/-- ASCII text is valid text. -/
theorem valid_text_of_ascii (s : GoString) (h : Asc s) : VT s := h.vt

/-- Backquoted literal: the bytes between the backquotes — ANY valid UTF-8 string without
    backquote and `\r` (Go drops `\r` from raw strings). -/
theorem string_literal_backtick (s rest : GoString) (hs : Utf8.validString s = true)
    (hnq : ∀ c ∈ s, c ≠ 0x60 ∧ c ≠ 0x0D) (hr : VT rest) (rule : String) (fr : Frame) (off : Nat)
    (errs : List PErr) :
    Sem pinEnv pinGrammar rule (.ruleRef "StringLiteral") fr
      (ptAt (([0x60] ++ (s ++ [0x60])) ++ rest) off) errs
      (.res (ptAt rest (off + ([0x60] ++ (s ++ [0x60])).length)) errs fr (.str s) true) :=
  eats_StringLiteral_backtick s ((vt_iff_validString s).2 hs) hnq hr

/-- Double-quoted literal as written by the renderer (`strconv.Quote` with `\x22` for `"`):
    denotes the original string, for EVERY byte string `s` — valid UTF-8 or not, control bytes,
    quotes, backslashes, non-ASCII runes (printable ones are written raw, the others and every
    invalid byte as ASCII escapes). -/
theorem string_literal_quoteX22 (s rest : GoString) (hr : VT rest) (rule : String)
    (fr : Frame) (off : Nat) (errs : List PErr) :
    Sem pinEnv pinGrammar rule (.ruleRef "StringLiteral") fr
      (ptAt (Strconv.quoteX22 s ++ rest) off) errs
      (.res (ptAt rest (off + (Strconv.quoteX22 s).length)) errs fr (.str s) true) :=
  eats_StringLiteral_quoteX22 s hr

/-- The earlier form (hypothesis: the rendered text is ASCII), kept under its name; now a
    special case of `string_literal_quoteX22`, the hypothesis on the rendering is not used. -/
theorem string_literal_quoteX22_partial (s rest : GoString) (_ha : Asc (Strconv.quoteX22 s))
    (hr : Asc rest) (rule : String) (fr : Frame) (off : Nat) (errs : List PErr) :
    Sem pinEnv pinGrammar rule (.ruleRef "StringLiteral") fr
      (ptAt (Strconv.quoteX22 s ++ rest) off) errs
      (.res (ptAt rest (off + (Strconv.quoteX22 s).length)) errs fr (.str s) true) :=
  eats_StringLiteral_quoteX22 s hr.vt

/-- … because the rendering is always `"`, valid UTF-8 text without `"`, `"`. -/
theorem quoteX22_shape (s : GoString) :
    ∃ body, Strconv.quoteX22 s = [0x22] ++ (body ++ [0x22]) ∧ (∀ c ∈ body, c ≠ 0x22) ∧
      Utf8.validString body = true := by
  obtain ⟨body, h1, h2, h3⟩ := quoteX22_body s
  exact ⟨body, h1, h2, (vt_iff_validString body).1 h3⟩

/-- Any delimited literal `q body q` (body: valid UTF-8 without the byte `q`): denotes
    `strconv.Unquote` of the token. -/
theorem string_literal_general (q : UInt8) (hq : q = 0x60 ∨ q = 0x22) (body s rest : GoString)
    (hb : Utf8.validString body = true) (hnq : ∀ c ∈ body, c ≠ q)
    (hu : Strconv.unquote ([q] ++ (body ++ [q])) = some s) (hr : VT rest) (rule : String)
    (fr : Frame) (off : Nat) (errs : List PErr) :
    Sem pinEnv pinGrammar rule (.ruleRef "StringLiteral") fr
      (ptAt (([q] ++ (body ++ [q])) ++ rest) off) errs
      (.res (ptAt rest (off + ([q] ++ (body ++ [q])).length)) errs fr (.str s) true) :=
  eats_StringLiteral hq body s ((vt_iff_validString body).2 hb) hnq hu hr

/-- The lexical core of the generalisation: at a well-formed multi-byte rune the parser's
    position holds that rune, `.` consumes exactly its encoding and logs nothing. -/
theorem any_multibyte (r : Nat) (hv : Utf8.validRune r = true) (h80 : 0x80 ≤ r)
    (rest : GoString) (hr : VT rest) (rule : String) (fr : Frame) (off : Nat) (errs : List PErr) :
    (ptAt (Utf8.encodeRune r ++ rest) off).rn = r ∧
    Sem pinEnv pinGrammar rule .any fr (ptAt (Utf8.encodeRune r ++ rest) off) errs
      (.res (ptAt rest (off + (Utf8.encodeRune r).length)) errs fr
        (.bytes (Utf8.encodeRune r)) true) :=
  ⟨ptAt_rn_rune rest off hv h80, Eats.any_rune hv h80 hr⟩

/-- JSON-pointer segment: `/` and non-empty valid UTF-8 all of whose runes are letters or
    numbers (Go's `unicode.L`, `unicode.N`) or one of `-_.~:|`, followed by the end of input or
    an ASCII byte outside the class (in a selector: `/` or `"`). -/
theorem pointer_segment (g rest : GoString) (hg : SegOK g) (hstop : stopsAt segRune rest)
    (hr : VT rest) (rule : String) (fr : Frame) (off : Nat) (errs : List PErr) :
    Sem pinEnv pinGrammar rule (.ruleRef "JsonPointerSegment") fr (ptAt (([47] ++ g) ++ rest) off)
      errs (.res (ptAt rest (off + ([47] ++ g).length)) errs fr (.str g) true) :=
  eats_JsonPointerSegment hg hstop hr

/-- `SegOK`, spelled out and as a computation. -/
theorem segOK_iff (g : GoString) :
    SegOK g ↔ g ≠ [] ∧ runesInB (fun r => [45, 95, 46, 126, 58, 124].contains r ||
      (Unicode.isL r || Unicode.isN r)) g = true :=
  Iff.intro (fun h => ⟨h.1, (runesIn_iff _ g).1 h.2⟩) (fun h => ⟨h.1, (runesIn_iff _ g).2 h.2⟩)

/-! ### What `Top.WF` demands of literals and pointer segments (restriction 1 lifted) -/

/-- a quoted VALUE literal inside a rendering: any valid UTF-8 body without the delimiter
    (plus restriction 2 for double quotes) -/
theorem wf_value_literal (q : UInt8) (body val : GoString) :
    (ValSp.str q body val).WF ↔ (q = 0x60 ∨ q = 0x22) ∧ Utf8.validString body = true ∧
      (∀ c ∈ body, c ≠ q) ∧ Strconv.unquote ([q] ++ (body ++ [q])) = some val ∧
      (q = 0x22 → ∃ c t, body = c :: t ∧ c ≠ 47) := by
  show (_ ∧ VT body ∧ _) ↔ _
  rw [vt_iff_validString]

/-- a quoted INDEX literal `[ws₁ q body q ws₂]` inside a rendering -/
theorem wf_index_literal (ws₁ ws₂ body val : GoString) (q : UInt8) :
    (PartSp.index ws₁ q body ws₂ val).WF ↔ AllIn isWs ws₁ ∧ AllIn isWs ws₂ ∧
      (q = 0x60 ∨ q = 0x22) ∧ Utf8.validString body = true ∧ (∀ c ∈ body, c ≠ q) ∧
      Strconv.unquote ([q] ++ (body ++ [q])) = some val := by
  show (_ ∧ _ ∧ _ ∧ VT body ∧ _) ↔ _
  rw [vt_iff_validString]

/-- a JSON-pointer selector inside a rendering -/
theorem wf_pointer (path : List GoString) :
    (SelX.ptr path).WF ↔ path ≠ [] ∧ ∀ p ∈ path, SegOK (C16Lex.ptrEscape p) := Iff.rfl

/-- a backquoted value: every valid UTF-8 string without backquote and `\r` may be written
    between backquotes in a rendering, and denotes itself -/
theorem value_backtick_WF (s : GoString) (hs : Utf8.validString s = true)
    (hnq : ∀ c ∈ s, c ≠ 0x60 ∧ c ≠ 0x0D) : (ValSp.str 0x60 s s).WF :=
  ⟨.inl rfl, (vt_iff_validString s).2 hs, fun c hc => (hnq c hc).1,
    by simpa using C16Lex.unquote_quote_backtick s hnq, fun h => by cases h⟩

/-- the renderer's double-quoted value: for EVERY byte string `s` (valid UTF-8 or not) the
    literal `quoteX22 s = "body"` may be written in a rendering and denotes `s` — subject only
    to restriction 2 (body non-empty, not starting with `/`) -/
theorem value_quoteX22_WF (s body : GoString)
    (h : Strconv.quoteX22 s = [0x22] ++ (body ++ [0x22]))
    (h2 : ∃ c t, body = c :: t ∧ c ≠ 47) : (ValSp.str 0x22 body s).WF := by
  obtain ⟨b', e, hnq, hvt⟩ := quoteX22_body s
  have hb : b' = body := by
    rw [e] at h
    exact List.append_cancel_right (List.append_cancel_left h)
  subst hb
  refine ⟨.inr rfl, hvt, hnq, ?_, fun _ => h2⟩
  rw [← e]
  exact C16Lex.unquote_quote_double_x22 s

/-- … and as an index literal `a[ "body" ]`, without restriction 2 -/
theorem index_quoteX22_WF (s body ws₁ ws₂ : GoString) (h1 : AllIn isWs ws₁) (h2 : AllIn isWs ws₂)
    (h : Strconv.quoteX22 s = [0x22] ++ (body ++ [0x22])) :
    (PartSp.index ws₁ 0x22 body ws₂ s).WF := by
  obtain ⟨b', e, hnq, hvt⟩ := quoteX22_body s
  have hb : b' = body := by
    rw [e] at h
    exact List.append_cancel_right (List.append_cancel_left h)
  subst hb
  refine ⟨h1, h2, .inr rfl, hvt, hnq, ?_⟩
  rw [← e]
  exact C16Lex.unquote_quote_double_x22 s

/-- Numbers: `-?(0|[1-9][0-9]*)(\.[0-9]+)?` followed by a blank, `)` or the end of input is
    returned as its text. -/
theorem number_literal (n : NumLit) (hn : n.WF) (rest : GoString) (hf : numFollow rest = true)
    (hr : VT rest) (rule : String) (fr : Frame) (off : Nat) (errs : List PErr) :
    Sem pinEnv pinGrammar rule (.ruleRef "NumberLiteral") fr (ptAt (n.text ++ rest) off) errs
      (.res (ptAt rest (off + n.text.length)) errs fr (.str n.text) true) :=
  eats_NumberLiteral n hn hf hr

/-- Identifiers: `[a-zA-Z][a-zA-Z0-9_/]*`, maximal. -/
theorem identifier (b : UInt8) (x rest : GoString) (hb : isAlpha b.toNat = true)
    (hx : AllIn isIdc x) (hstop : headIn isIdc rest = false) (hr : VT rest) (rule : String)
    (fr : Frame) (off : Nat) (errs : List PErr) :
    Sem pinEnv pinGrammar rule (.ruleRef "Identifier") fr (ptAt ((b :: x) ++ rest) off) errs
      (.res (ptAt rest (off + (b :: x).length)) errs fr (.str (b :: x)) true) :=
  eats_Identifier hb hx hstop hr

/-- The three value styles: a bare word / selector denotes its dotted path, a number its text,
    a quoted literal its unquoted string. -/
theorem value_styles (v : ValSp) (h : v.WF) (rest : GoString) (hf : v.follow rest) (hr : VT rest)
    (rule : String) (fr : Frame) (off : Nat) (errs : List PErr) :
    Sem pinEnv pinGrammar rule (.ruleRef "Value") fr (ptAt (v.text ++ rest) off) errs
      (.res (ptAt rest (off + v.text.length)) errs fr (.mval v.raw) true) :=
  eats_Value v h hf hr

/-! ## 5. Non-vacuity: a concrete rendering, by the theorem and by running the engine -/

namespace Example

/-- the bytes of an ASCII literal -/
def asc (s : String) : GoString := s.toList.map GoString.byteOfChar

/-- `a.b`, `["c"]` with a blank inside the bracket -/
def selA : SelSp := ⟨97, [], [.dotIdent 98 [], .index [32] 0x22 [99] [] [99]]⟩
def numV : NumLit := ⟨true, [49, 50], [53]⟩
def strV : ValSp := .str 0x60 [120, 32, 121] [120, 32, 121]
/-- `a.b[ "c"]!= -12.5` -/
def m1 : MatchSp := .opValue (.bexpr selA) (.ne [] [32]) (.num numV)
/-- `` `x y` not in "/p/q~1r" `` -/
def m2 : MatchSp := .inSel strV (.notIn [32] [32, 32] [9]) (.ptr [[112], [113, 47, 114]])
/-- `foo is empty` -/
def m3 : MatchSp := .post (.bexpr ⟨102, [111, 111], []⟩) (.isEmpty [32] [32])

/-- `  a.b[ "c"]!= -12.5 or not not ( `x y` not  in<TAB>"/p/q~1r" )  and foo is empty ` -/
def top : Top :=
  ⟨[32, 32],
   .orOp (.andUp (.leaf m1)) [32] [32]
     (.orUp (.andOp
       (.notOp [32] (.notOp [32] (.paren [32] (.orUp (.andUp (.leaf m2))) [32])))
       [32, 32] [32] (.andUp (.leaf m3)))),
   [32]⟩

theorem top_text : top.text =
    asc "  a.b[ \"c\"]!= -12.5 or not not ( `x y` not  in\t\"/p/q~1r\" )  and foo is empty " := by
  decide +kernel

theorem selA_WF : selA.WF := by
  refine ⟨by decide, by decide, ?_⟩
  intro p hp
  simp only [selA, List.mem_cons, List.not_mem_nil, or_false] at hp
  rcases hp with rfl | rfl
  · exact ⟨by decide, by decide⟩
  · exact ⟨by decide, by decide, .inr rfl, by decide, by decide, by decide⟩

theorem m1_WF : m1.WF ∧ m1.notKwOK := by
  refine ⟨⟨selA_WF, ⟨by decide, by decide⟩, ⟨.inr ⟨49, [50], rfl, by decide, by decide⟩,
    by decide⟩⟩, ?_⟩
  intro σ hσ
  simp only [m1, MatchSp.lead, Option.some.injEq] at hσ
  subst hσ
  decide

theorem m2_WF : m2.WF ∧ m2.notKwOK := by
  refine ⟨⟨⟨.inl rfl, by decide, by decide, by decide, fun h => by cases h⟩,
    ⟨⟨by decide, by decide⟩, ⟨by decide, by decide⟩, ⟨by decide, by decide⟩⟩,
    ⟨by decide, ?_⟩⟩, ?_⟩
  · intro p hp
    simp only [List.mem_cons, List.not_mem_nil, or_false] at hp
    rcases hp with rfl | rfl
    · rw [C16Lex.ptrEscape_eq_flatMap]; exact SegOK.of_ascii (by decide) (by decide) (by decide)
    · rw [C16Lex.ptrEscape_eq_flatMap]; exact SegOK.of_ascii (by decide) (by decide) (by decide)
  · intro σ hσ
    simp [m2, strV, MatchSp.lead] at hσ

theorem m3_WF : m3.WF ∧ m3.notKwOK := by
  refine ⟨⟨⟨by decide, by decide, fun p hp => by cases hp⟩,
    ⟨⟨by decide, by decide⟩, ⟨by decide, by decide⟩⟩⟩, ?_⟩
  intro σ hσ
  simp only [m3, MatchSp.lead, Option.some.injEq] at hσ
  subst hσ
  decide

theorem top_WF : top.WF := by
  refine ⟨by decide, ?_, by decide⟩
  exact ⟨m1_WF, ⟨by decide, by decide⟩, ⟨by decide, by decide⟩,
    ⟨⟨by decide, by decide⟩, ⟨by decide, by decide⟩, by decide, m2_WF, by decide⟩,
    ⟨by decide, by decide⟩, ⟨by decide, by decide⟩, m3_WF⟩

/-- the tree: `or m1 (and m2 m3)` — `and` binds tighter than `or`, `not not` folded,
    parentheses gone, pointer path unescaped -/
theorem top_tree : norm top.ast =
    .or (.match_ ⟨.bexpr, [[97], [98], [99]]⟩ .notEqual (some (asc "-12.5")))
        (.and (.match_ ⟨.jsonPointer, [[112], [113, 47, 114]]⟩ .notIn (some (asc "x y")))
              (.match_ ⟨.bexpr, [asc "foo"]⟩ .isEmpty none)) := by
  decide +kernel

theorem top_accepted : Accepts pinEnv pinGrammar top.text (.expr (norm top.ast)) :=
  print_parse_roundtrip_partial top top_WF

def valExpr : PVal → Option Expr
  | .expr e => some e
  | _ => none

/-- cross-check by RUNNING the engine model on the text (kernel computation, independent of
    the theorem): same tree, no errors, 2776 expression evaluations -/
theorem top_engine :
    (run pinEnv pinGrammar 0 top.text).cnt = 2776 ∧ (run pinEnv pinGrammar 0 top.text).errs = [] ∧
    valExpr (run pinEnv pinGrammar 0 top.text).val = some (norm top.ast) := by
  decide +kernel

/-- … and as an instance of the theorems: the engine's answer is the predicted record -/
theorem top_engine' : run pinEnv pinGrammar 0 top.text =
    { val := .expr (norm top.ast), errs := [], cnt := 2776 } := by
  have hacc : (run pinEnv pinGrammar 0 top.text).accepted = true := by
    simp [ParseOut.accepted, top_engine.2.1]
  obtain ⟨M, hM, hMa⟩ := (C15.run_accepts_iff_budget pinEnv pinGrammar 0 top.text
    (.expr (norm top.ast))).1 ⟨hacc, print_parse_roundtrip_unique top top_WF 0 hacc⟩
  have hrun := C15.run_of_acceptsIn pinEnv pinGrammar 0 top.text hMa hM
  have hc : M = 2776 := by
    have := congrArg ParseOut.cnt hrun
    rw [top_engine.1] at this
    exact this.symm
  rw [hrun, hc]

/-- `all items as _ , v { v.ok != true or any v.tags as t { t in "/a/b" } }` -/
def top2 : Top :=
  ⟨[],
   .coll .all [32] (.bexpr ⟨105, [116, 101, 109, 115], []⟩) [32] [32]
     (.value [32] [32] ⟨118, []⟩) [32] [32]
     (.orOp
       (.andUp (.leaf (.opValue (.bexpr ⟨118, [], [.dotIdent 111 [107]]⟩) (.ne [32] [32])
         (.sel ⟨116, [114, 117, 101], []⟩))))
       [32] [32]
       (.coll .any [32] (.bexpr ⟨118, [], [.dotIdent 116 [97, 103, 115]]⟩)
         [32] [32] (.dflt ⟨116, []⟩) [32] [32]
         (.orUp (.andUp (.leaf (.inSel (.sel ⟨116, [], []⟩) (.in_ [32] [32])
           (.ptr [[97], [98]])))))
         [32]))
     [32],
   []⟩

theorem top2_text : top2.text =
    asc "all items as _ , v { v.ok != true or any v.tags as t { t in \"/a/b\" } }" := by
  decide +kernel

theorem selWF (b : UInt8) (x : GoString) (hb : isAlpha b.toNat = true) (hx : AllIn isIdc x) :
    (SelX.bexpr ⟨b, x, []⟩).WF := ⟨hb, hx, fun p hp => by cases hp⟩

theorem top2_WF : top2.WF := by
  refine ⟨by decide, ?_, by decide⟩
  -- outer quantifier
  refine ⟨by decide, selWF _ _ (by decide) (by decide), ?_, by decide, by decide,
    ⟨by decide, by decide, by decide, by decide⟩, by decide, by decide, ?_, by decide,
    fun _ => by decide⟩
  · intro K hK
    simp only [kwList, List.mem_cons, List.not_mem_nil, or_false] at hK
    rcases hK with rfl | rfl | rfl | rfl | rfl <;> decide
  -- body: `v.ok != true or any …`
  refine ⟨⟨⟨⟨by decide, by decide, ?_⟩, ⟨by decide, by decide⟩,
      ⟨by decide, by decide, fun p hp => by cases hp⟩⟩, ?_⟩, by decide, by decide, ?_⟩
  · intro p hp
    simp only [List.mem_cons, List.not_mem_nil, or_false] at hp
    subst hp
    exact ⟨by decide, by decide⟩
  · intro σ hσ
    simp only [MatchSp.lead, Option.some.injEq] at hσ
    subst hσ
    decide
  -- inner quantifier
  refine ⟨by decide, ⟨by decide, by decide, ?_⟩, ?_, by decide, by decide,
    ⟨by decide, by decide⟩, by decide, by decide, ?_, by decide, fun _ => by decide⟩
  · intro p hp
    simp only [List.mem_cons, List.not_mem_nil, or_false] at hp
    subst hp
    exact ⟨by decide, by decide⟩
  · intro K hK
    simp only [kwList, List.mem_cons, List.not_mem_nil, or_false] at hK
    rcases hK with rfl | rfl | rfl | rfl | rfl <;> decide
  · refine ⟨⟨⟨by decide, by decide, fun p hp => by cases hp⟩,
      ⟨⟨by decide, by decide⟩, ⟨by decide, by decide⟩⟩, ⟨by decide, ?_⟩⟩, ?_⟩
    · intro p hp
      simp only [List.mem_cons, List.not_mem_nil, or_false] at hp
      rcases hp with rfl | rfl <;>
        (rw [C16Lex.ptrEscape_eq_flatMap];
         exact SegOK.of_ascii (by decide) (by decide) (by decide))
    · intro σ hσ
      simp only [MatchSp.lead, Option.some.injEq] at hσ
      subst hσ
      decide

/-- the quantifier example as an instance of the theorem -/
theorem top2_accepted : Accepts pinEnv pinGrammar top2.text (.expr (norm top2.ast)) :=
  print_parse_roundtrip_partial top2 top2_WF

theorem top2_engine : (run pinEnv pinGrammar 0 top2.text).errs = [] ∧
    valExpr (run pinEnv pinGrammar 0 top2.text).val = some (norm top2.ast) := by
  decide +kernel

/-! ### A rendering with non-ASCII text: string bodies, an index literal, pointer segments -/

/-- the UTF-8 bytes of a Lean string, by the model's `encodeRune` -/
def utf8 (s : String) : GoString := s.toList.flatMap fun c => Utf8.encodeRune c.toNat

def seg1 : GoString := [0xE5, 0x90, 0x8D, 0xE5, 0x89, 0x8D]            -- 名前
def seg2 : GoString := [0xC3, 0xA9, 0x31]                              -- é1
def rawV : GoString := [110, 97, 0xC3, 0xAF, 118, 101, 32, 0xE2, 0x98, 0x83]   -- naïve ☃
def keyK : GoString := [0xD0, 0xBA, 0xD0, 0xBB, 0xD1, 0x8E, 0xD1, 0x87]  -- ключ
def dqBody : GoString := [0xE6, 0x97, 0xA5, 0xE6, 0x9C, 0xAC, 0x5C, 0x74]  -- 日本\t (escape)
def dqVal : GoString := [0xE6, 0x97, 0xA5, 0xE6, 0x9C, 0xAC, 9]          -- 日本<TAB>

/-- `"/名前/é1" contains `naïve ☃`` -/
def m4 : MatchSp := .opValue (.ptr [seg1, seg2]) (.contains [32] [32]) (.str 0x60 rawV rawV)
/-- `x["ключ"] == "日本\t"` -/
def m5 : MatchSp := .opValue (.bexpr ⟨120, [], [.index [] 0x22 keyK [] keyK]⟩) (.eq [32] [32])
  (.str 0x22 dqBody dqVal)

def top3 : Top := ⟨[], .orOp (.andUp (.leaf m4)) [32] [32] (.orUp (.andUp (.leaf m5))), []⟩

theorem top3_text : top3.text =
    utf8 "\"/名前/é1\" contains `naïve ☃` or x[\"ключ\"] == \"日本\\t\"" := by
  decide +kernel

/-- the renderer writes printable non-ASCII runes raw, the tab as `\t`, an invalid byte as
    `\xff` -/
theorem quoteX22_examples :
    Strconv.quoteX22 dqVal = [0x22] ++ (dqBody ++ [0x22]) ∧
    Strconv.quoteX22 ([0xFF] ++ seg2) = utf8 "\"\\xffé1\"" := by
  decide +kernel

theorem m4_WF : m4.WF ∧ m4.notKwOK := by
  refine ⟨⟨⟨by decide, ?_⟩, ⟨⟨by decide, by decide⟩, ⟨by decide, by decide⟩⟩,
    ⟨.inl rfl, by decide +kernel, by decide, by decide +kernel, fun h => by cases h⟩⟩, ?_⟩
  · intro p hp
    simp only [List.mem_cons, List.not_mem_nil, or_false] at hp
    rcases hp with rfl | rfl
    · rw [C16Lex.ptrEscape_eq_flatMap]; decide +kernel
    · rw [C16Lex.ptrEscape_eq_flatMap]; decide +kernel
  · intro σ hσ
    simp [m4, MatchSp.lead] at hσ

theorem m5_WF : m5.WF ∧ m5.notKwOK := by
  refine ⟨⟨⟨by decide, by decide, ?_⟩, ⟨by decide, by decide⟩,
    ⟨.inr rfl, by decide +kernel, by decide, by decide +kernel,
      fun _ => ⟨0xE6, _, rfl, by decide⟩⟩⟩, ?_⟩
  · intro p hp
    simp only [List.mem_cons, List.not_mem_nil, or_false] at hp
    subst hp
    exact ⟨by decide, by decide, .inr rfl, by decide +kernel, by decide, by decide +kernel⟩
  · intro σ hσ
    simp only [m5, MatchSp.lead, Option.some.injEq] at hσ
    subst hσ
    decide

theorem top3_WF : top3.WF :=
  ⟨by decide, ⟨m4_WF, ⟨by decide, by decide⟩, ⟨by decide, by decide⟩, m5_WF⟩, by decide⟩

theorem top3_tree : norm top3.ast =
    .or (.match_ ⟨.jsonPointer, [seg1, seg2]⟩ .in_ (some rawV))
        (.match_ ⟨.bexpr, [[120], keyK]⟩ .equal (some dqVal)) := by
  decide +kernel

/-- validity is needed: ``a == `<0xFF>` `` (a raw invalid byte in a backquoted literal) is
    rejected by the engine with an `invalid encoding` error, while the renderer's
    `a == "\xff"` is accepted -/
theorem invalid_byte_rejected :
    (run pinEnv pinGrammar 0 (asc "a == `" ++ [0xFF] ++ asc "`")).accepted = false ∧
    (run pinEnv pinGrammar 0 (asc "a == `" ++ [0xFF] ++ asc "`")).errs.all
      (fun e => e.kind == .invalidEncoding && e.off == 6) = true ∧
    (run pinEnv pinGrammar 0 (asc "a == " ++ Strconv.quoteX22 [0xFF])).accepted = true := by
  decide +kernel

/-- the non-ASCII example as an instance of the theorem -/
theorem top3_accepted : Accepts pinEnv pinGrammar top3.text (.expr (norm top3.ast)) :=
  print_parse_roundtrip_partial top3 top3_WF

/-- … and by running the engine model on the text -/
theorem top3_engine : (run pinEnv pinGrammar 0 top3.text).errs = [] ∧
    valExpr (run pinEnv pinGrammar 0 top3.text).val = some (norm top3.ast) := by
  decide +kernel

end Example

end Bexpr.Props.C16

#print axioms Bexpr.Props.C16.print_parse_roundtrip_partial
#print axioms Bexpr.Props.C16.print_parse_roundtrip_engine
#print axioms Bexpr.Props.C16.print_parse_roundtrip_unique
#print axioms Bexpr.Props.C16.level_roundtrip
#print axioms Bexpr.Props.C16.print_parse_roundtrip_paren
#print axioms Bexpr.Props.C16.print_parse_roundtrip_minimal
#print axioms Bexpr.Props.C16.minimal_shapes
#print axioms Bexpr.Props.C16.not_not
#print axioms Bexpr.Props.C16.norm_fixed
#print axioms Bexpr.Props.C16.norm_folded
#print axioms Bexpr.Props.C16.in_contains_same
#print axioms Bexpr.Props.C16.match_roundtrip
#print axioms Bexpr.Props.C16.string_literal_backtick
#print axioms Bexpr.Props.C16.string_literal_quoteX22
#print axioms Bexpr.Props.C16.string_literal_quoteX22_partial
#print axioms Bexpr.Props.C16.quoteX22_shape
#print axioms Bexpr.Props.C16.any_multibyte
#print axioms Bexpr.Props.C16.pointer_segment
#print axioms Bexpr.Props.C16.segOK_iff
#print axioms Bexpr.Props.C16.valid_text_iff
#print axioms Bexpr.Props.C16.valid_text_of_ascii
#print axioms Bexpr.Props.C16.string_literal_general
#print axioms Bexpr.Props.C16.wf_value_literal
#print axioms Bexpr.Props.C16.wf_index_literal
#print axioms Bexpr.Props.C16.wf_pointer
#print axioms Bexpr.Props.C16.value_backtick_WF
#print axioms Bexpr.Props.C16.value_quoteX22_WF
#print axioms Bexpr.Props.C16.index_quoteX22_WF
#print axioms Bexpr.Props.C16.number_literal
#print axioms Bexpr.Props.C16.identifier
#print axioms Bexpr.Props.C16.value_styles
#print axioms Bexpr.Props.C16.Example.top_text
#print axioms Bexpr.Props.C16.Example.top_WF
#print axioms Bexpr.Props.C16.Example.top_tree
#print axioms Bexpr.Props.C16.Example.top_accepted
#print axioms Bexpr.Props.C16.Example.top_engine
#print axioms Bexpr.Props.C16.Example.top_engine'
#print axioms Bexpr.Props.C16.Example.top2_text
#print axioms Bexpr.Props.C16.Example.top2_accepted
#print axioms Bexpr.Props.C16.Example.top2_engine
#print axioms Bexpr.Props.C16.Example.top3_text
#print axioms Bexpr.Props.C16.Example.quoteX22_examples
#print axioms Bexpr.Props.C16.Example.top3_WF
#print axioms Bexpr.Props.C16.Example.top3_tree
#print axioms Bexpr.Props.C16.Example.invalid_byte_rejected
#print axioms Bexpr.Props.C16.Example.top3_accepted
#print axioms Bexpr.Props.C16.Example.top3_engine
