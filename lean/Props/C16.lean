/-
  Property C16 (print / parse round trip):

    "Rendering any expression tree to text with any mix of optional whitespace, redundant
     parentheses, double-quote/backtick/bare literal styles, selector spellings and in/contains
     spellings, and parsing it back, yields the same tree: `not` binds tighter than `and`, `and`
     tighter than `or`, chains group to the right, `not not e` is `e`, parentheses override all of
     these, and a quoted literal denotes exactly the Go string it spells."

  The parser is the PINNED grammar table `pinGrammar` with the code blocks `pinEnv`
  (`Ties/PinnedGrammar.lean` ties the regenerated table to it); its meaning is the declarative
  PEG semantics `Sem` (`Props/C15.lean`: the engine is sound and complete for it), so
  `Accepts pinEnv pinGrammar text v` below means: pigeon's `Parse` on `text` returns `v` and no
  error, for every budget that admits the (unique) derivation — `print_parse_roundtrip_engine`.

  What "a rendering of a tree" is.  A rendering is a value `ρ : Top` = leading blanks, an
  `Sp .or`, trailing blanks.  `Sp l` (`Proofs/RoundTripExpr.lean`) is concrete syntax: it records
  every blank run, every keyword, every pair of parentheses (redundant ones included), the
  quantifiers `any/all S as bindings { body }` with all their blanks and the four binding forms
  (`i, v` · `i, _` · `_, v` · `d`), and at the leaves a `MatchSp` (`Proofs/RoundTripMatch.lean`)
  with the spelling of the selector (`a.b.0`, `a["b"][`0`]`, blanks inside the brackets, or
  `"/a/b/0"`), of the operator (`==`, `!=`, `contains`/`in`, `not contains`/`not in`, `matches`,
  `not matches`, `is empty`, `is not empty`, all with their blanks) and of the value (bare
  word, number, backquoted or double-quoted literal).  `ρ.text` is the text, `ρ.ast` the tree
  that was rendered (`print t layout` of the task = `ρ.text` for a `ρ` with `ρ.ast = t`; `ρ` IS
  the pair of tree and layout).  `STree.full` / `STree.minOr` construct the fully parenthesised
  and the minimally parenthesised rendering of any tree with spelled leaves.

  PROVED (`print_parse_roundtrip_partial`): for every well-formed rendering `ρ`,
      Accepts pinEnv pinGrammar ρ.text (.expr (norm ρ.ast))
  where `norm` folds `not not e` to `e`.  All node kinds (`not`, `and`, `or`, the three match
  forms, quantifiers) and all the layout freedom listed above are covered.

  INTENDED FULL STATEMENT (not proved in this generality):

      theorem print_parse_roundtrip (t : Expr) (ρ : Layout t) (h : Printable t ρ) :
          Accepts pinEnv pinGrammar (print t ρ) (.expr (norm t))

    for every tree `t`, every layout, arbitrary (non-ASCII) string contents, and `Printable`
    demanding only what the bexpr language itself demands.

  RESTRICTIONS of the proved statement (all are explicit hypotheses inside `Top.WF`):
   1. ASCII only: every byte of the text is `< 0x80` (`Asc`).  So string bodies and JSON-pointer
      segments are ASCII; the double-quoted renderer `quoteX22` is covered for ASCII source
      strings (`string_literal_quoteX22`), any other double-quoted / backquoted body must be
      ASCII (its denotation is whatever `strconv.Unquote` says: `PartSp.WF`, `ValSp.WF`).
   2. A DOUBLE-quoted value literal must have a non-empty body that does not start with `/`
      (`ValSp.WF`).  This is a property of the pinned grammar, not of the proof: `Value` tries
      `Selector` first, which reads `"/usr/bin"` as a JSON pointer, so the literal's `Raw` becomes
      `usr/bin` (defect known as the `"/usr/bin"` finding); `""` happens to survive (the empty
      pointer renders as the empty string) but is excluded with the others.  Backquoted values
      and double-quoted INDEX literals `a["/x"]` are not restricted.
   3. The first identifier of a match expression is not the bare word `not`
      (`MatchSp.notKwOK`): `not in x` would be read as the operator `not`.
   4. The first identifier of a quantifier's selector is none of `contains`, `matches`, `not`,
      `is`, `in` (`SelX.kwOK`): `any contains as x {…}` IS a match expression `any contains as`
      for the grammar (language property).
   5. JSON-pointer selector spelling: every escaped path element is non-empty and over
      `[A-Za-z0-9-_.~:|]` (the grammar's `[\pL\pN-_.~:|]+` restricted to ASCII); the path is
      non-empty.
   6. A number value must be followed by a blank, `)` or the end of input — the grammar's own
      `AfterNumbers` condition.  Inside a rendering this always holds except for a quantifier
      body ending in a number directly before `}`: there a blank is required (`Sp.WF` of `coll`),
      as in the language (`{x == 1}` is an "Invalid number literal" error).
-/
import Props.C15
import Props.C16Lex
import Proofs.RoundTripExpr

namespace Bexpr.Props.C16
open Bexpr Bexpr.Peg Bexpr.Driver Bexpr.Proofs.RoundTrip

/-! ## 1. The round trip -/

/-- **C16, as proved.**  Every well-formed rendering `ρ` (any blanks, any redundant
    parentheses, any selector / operator / literal / binding spellings, see the header) of a
    tree parses back to that tree with `not not e` folded to `e`.
    Restrictions: see 1–6 in the header. -/
theorem print_parse_roundtrip_partial (ρ : Top) (h : ρ.WF) :
    Accepts pinEnv pinGrammar ρ.text (.expr (norm ρ.ast)) :=
  accepts_top_norm ρ h

/-- … hence the ENGINE (`run` = pigeon's `Parse`) returns that tree, no errors, after exactly
    `N` expression evaluations, for every budget `n` that admits `N` (`n = 0` is
    `math.MaxUint64`). -/
theorem print_parse_roundtrip_engine (ρ : Top) (h : ρ.WF) :
    ∃ N, AcceptsIn pinEnv pinGrammar ρ.text (.expr (norm ρ.ast)) N ∧ ∀ n, N ≤ effectiveMax n →
      run pinEnv pinGrammar n ρ.text = { val := .expr (norm ρ.ast), errs := [], cnt := N } := by
  obtain ⟨N, hN⟩ := (C15.accepts_iff_acceptsIn _ _ _ _).1 (print_parse_roundtrip_partial ρ h)
  exact ⟨N, hN, fun n hn => C15.run_of_acceptsIn pinEnv pinGrammar n ρ.text hN hn⟩

/-- … and whenever the engine accepts the text at all (any budget), the tree is that one. -/
theorem print_parse_roundtrip_unique (ρ : Top) (h : ρ.WF) (n : Nat)
    (ha : (run pinEnv pinGrammar n ρ.text).accepted = true) :
    (run pinEnv pinGrammar n ρ.text).val = .expr (norm ρ.ast) :=
  C15.accepts_unique _ _ _ (C15.run_accepted_sound _ _ n _ ha) (print_parse_roundtrip_partial ρ h)

/-- The round trip below the start rule: at each grammar level (`OrExpression`,
    `AndExpression`, `NotExpression`) the rule consumes exactly the rendering and yields its
    tree, inside any admissible context `rest` (`Ctx`: what may follow an expression of that
    level), from any offset, logging nothing. -/
theorem level_roundtrip {l : Lvl} (c : Sp l) (h : c.WF) (rest : GoString)
    (hc : Ctx l c.endsNum rest)
    (hr : Asc rest) (rule : String) (fr : Frame) (off : Nat) (errs : List PErr) :
    Sem pinEnv pinGrammar rule (.ruleRef (ruleName l)) fr (ptAt (c.text ++ rest) off) errs
      (.res (ptAt rest (off + c.text.length)) errs fr (.expr (norm c.ast)) true) := by
  have := eats_Sp c h rest hc hr rule fr off errs
  rw [c.val_eq_norm] at this
  exact this

/-! ## 2. Precedence, grouping, parentheses, `not not` -/

/-- Fully parenthesised rendering (every operand of `not`/`and`/`or` in parentheses). -/
theorem print_parse_roundtrip_paren (s : STree) (h : s.LeavesOK) :
    Accepts pinEnv pinGrammar (Top.text ⟨[], s.full, []⟩) (.expr (norm s.ast)) :=
  accepts_full s h

/-- Minimal parentheses: an operand is parenthesised only where the grammar needs it —
    `or` under `and`/`not`, `and` under `not` or as a LEFT operand of `and`, `or` as a LEFT
    operand of `or`.  That this parses back to the same tree IS the statement "`not` binds
    tighter than `and`, `and` tighter than `or`, chains group to the right". -/
theorem print_parse_roundtrip_minimal (s : STree) (h : s.LeavesOK) :
    Accepts pinEnv pinGrammar (Top.text ⟨[], s.minOr, []⟩) (.expr (norm s.ast)) :=
  accepts_minimal s h

/-- `a or b and not c` (no parentheses in the minimal rendering) is `or a (and b (not c))`,
    `a and b and c` is `and a (and b c)`, `(a and b) and c` keeps its parentheses. -/
theorem minimal_shapes (a b c : MatchSp) :
    (STree.or (.leaf a) (.and (.leaf b) (.not (.leaf c)))).minOr =
      .orOp (.andUp (.leaf a)) sp1 sp1
        (.orUp (.andOp (.leaf b) sp1 sp1 (.andUp (.notOp sp1 (.leaf c))))) ∧
    (STree.and (.leaf a) (.and (.leaf b) (.leaf c))).minOr =
      .orUp (.andOp (.leaf a) sp1 sp1 (.andOp (.leaf b) sp1 sp1 (.andUp (.leaf c)))) ∧
    (STree.and (.and (.leaf a) (.leaf b)) (.leaf c)).minOr =
      .orUp (.andOp (.paren [] (.orUp (.andOp (.leaf a) sp1 sp1 (.andUp (.leaf b)))) [])
        sp1 sp1 (.andUp (.leaf c))) :=
  ⟨rfl, rfl, rfl⟩

/-- `not not e` is `e`. -/
theorem not_not (e : Expr) : norm (.not (.not e)) = norm e := norm_not_not e

/-- A tree without `not not` comes back unchanged. -/
theorem norm_fixed (e : Expr) (h : NoNotNot e) : norm e = e := norm_id e h

/-- What the parser returns never contains `not not`. -/
theorem norm_folded (e : Expr) : NoNotNot (norm e) := norm_noNotNot e

/-! ## 3. The match forms: `in` / `contains` spellings -/

/-- `V in S` and `S contains V` denote the same node; so do `V not in S` and
    `S not contains V`. -/
theorem in_contains_same (x : SelX) (v : ValSp) (w₁ w₂ u₁ u₂ u₃ : GoString) :
    (MatchSp.inSel v (.in_ w₁ w₂) x).ast = (MatchSp.opValue x (.contains w₁ w₂) v).ast ∧
    (MatchSp.inSel v (.notIn u₁ u₂ u₃) x).ast =
      (MatchSp.opValue x (.notContains u₁ u₂ u₃) v).ast :=
  ⟨rfl, rfl⟩

/-- The rule `MatchExpression` on any spelled match expression. -/
theorem match_roundtrip (m : MatchSp) (h : m.WF) (rest : GoString) (hf : m.follow rest)
    (hr : Asc rest) (rule : String) (fr : Frame) (off : Nat) (errs : List PErr) :
    Sem pinEnv pinGrammar rule (.ruleRef "MatchExpression") fr (ptAt (m.text ++ rest) off) errs
      (.res (ptAt rest (off + m.text.length)) errs fr (.expr m.ast) true) :=
  eats_MatchExpression m h hf hr

/-! ## 4. Literals: a quoted literal denotes the Go string it spells -/

/-- Backquoted literal: the bytes between the backquotes (ASCII, no backquote, no `\r`). -/
theorem string_literal_backtick (s rest : GoString) (hs : Asc s)
    (hnq : ∀ c ∈ s, c ≠ 0x60 ∧ c ≠ 0x0D) (hr : Asc rest) (rule : String) (fr : Frame) (off : Nat)
    (errs : List PErr) :
    Sem pinEnv pinGrammar rule (.ruleRef "StringLiteral") fr
      (ptAt (([0x60] ++ (s ++ [0x60])) ++ rest) off) errs
      (.res (ptAt rest (off + ([0x60] ++ (s ++ [0x60])).length)) errs fr (.str s) true) :=
  eats_StringLiteral_backtick s hs hnq hr

/-- Double-quoted literal as written by the renderer (`strconv.Quote` with `\x22` for `"`):
    denotes the original string, for EVERY ASCII string `s` (control bytes, quotes and
    backslashes included). -/
theorem string_literal_quoteX22 (s rest : GoString) (hs : Asc s) (hr : Asc rest) (rule : String)
    (fr : Frame) (off : Nat) (errs : List PErr) :
    Sem pinEnv pinGrammar rule (.ruleRef "StringLiteral") fr
      (ptAt (Strconv.quoteX22 s ++ rest) off) errs
      (.res (ptAt rest (off + (Strconv.quoteX22 s).length)) errs fr (.str s) true) :=
  eats_StringLiteral_quoteX22_asc s hs hr

/-- … for a non-ASCII `s` whose rendering happens to be ASCII-free of multi-byte runes the
    same holds; in general the hypothesis is on the rendered text. -/
theorem string_literal_quoteX22_partial (s rest : GoString) (ha : Asc (Strconv.quoteX22 s))
    (hr : Asc rest) (rule : String) (fr : Frame) (off : Nat) (errs : List PErr) :
    Sem pinEnv pinGrammar rule (.ruleRef "StringLiteral") fr
      (ptAt (Strconv.quoteX22 s ++ rest) off) errs
      (.res (ptAt rest (off + (Strconv.quoteX22 s).length)) errs fr (.str s) true) :=
  eats_StringLiteral_quoteX22 s ha hr

/-- Any delimited literal `q body q` (ASCII body without `q`): denotes `strconv.Unquote` of
    the token. -/
theorem string_literal_general (q : UInt8) (hq : q = 0x60 ∨ q = 0x22) (body s rest : GoString)
    (hb : Asc body) (hnq : ∀ c ∈ body, c ≠ q)
    (hu : Strconv.unquote ([q] ++ (body ++ [q])) = some s) (hr : Asc rest) (rule : String)
    (fr : Frame) (off : Nat) (errs : List PErr) :
    Sem pinEnv pinGrammar rule (.ruleRef "StringLiteral") fr
      (ptAt (([q] ++ (body ++ [q])) ++ rest) off) errs
      (.res (ptAt rest (off + ([q] ++ (body ++ [q])).length)) errs fr (.str s) true) :=
  eats_StringLiteral hq body s hb hnq hu hr

/-- Numbers: `-?(0|[1-9][0-9]*)(\.[0-9]+)?` followed by a blank, `)` or the end of input is
    returned as its text. -/
theorem number_literal (n : NumLit) (hn : n.WF) (rest : GoString) (hf : numFollow rest = true)
    (hr : Asc rest) (rule : String) (fr : Frame) (off : Nat) (errs : List PErr) :
    Sem pinEnv pinGrammar rule (.ruleRef "NumberLiteral") fr (ptAt (n.text ++ rest) off) errs
      (.res (ptAt rest (off + n.text.length)) errs fr (.str n.text) true) :=
  eats_NumberLiteral n hn hf hr

/-- Identifiers: `[a-zA-Z][a-zA-Z0-9_/]*`, maximal. -/
theorem identifier (b : UInt8) (x rest : GoString) (hb : isAlpha b.toNat = true)
    (hx : AllIn isIdc x) (hstop : headIn isIdc rest = false) (hr : Asc rest) (rule : String)
    (fr : Frame) (off : Nat) (errs : List PErr) :
    Sem pinEnv pinGrammar rule (.ruleRef "Identifier") fr (ptAt ((b :: x) ++ rest) off) errs
      (.res (ptAt rest (off + (b :: x).length)) errs fr (.str (b :: x)) true) :=
  eats_Identifier hb hx hstop hr

/-- The three value styles: a bare word / selector denotes its dotted path, a number its text,
    a quoted literal its unquoted string. -/
theorem value_styles (v : ValSp) (h : v.WF) (rest : GoString) (hf : v.follow rest) (hr : Asc rest)
    (rule : String) (fr : Frame) (off : Nat) (errs : List PErr) :
    Sem pinEnv pinGrammar rule (.ruleRef "Value") fr (ptAt (v.text ++ rest) off) errs
      (.res (ptAt rest (off + v.text.length)) errs fr (.mval v.raw) true) :=
  eats_Value v h hf hr

/-! ## 5. Non-vacuity: a concrete rendering, by the theorem and by running the engine -/

namespace Example

/-- the bytes of an ASCII literal -/
def asc (s : String) : GoString := s.toList.map GoString.byteOfChar

/-- `a.b`, `["c"]` with a blank inside the bracket -/
def selA : SelSp := ⟨97, [], [.dotIdent 98 [], .index [32] 0x22 [99] [] [99]]⟩
def numV : NumLit := ⟨true, [49, 50], [53]⟩
def strV : ValSp := .str 0x60 [120, 32, 121] [120, 32, 121]
/-- `a.b[ "c"]!= -12.5` -/
def m1 : MatchSp := .opValue (.bexpr selA) (.ne [] [32]) (.num numV)
/-- `` `x y` not in "/p/q~1r" `` -/
def m2 : MatchSp := .inSel strV (.notIn [32] [32, 32] [9]) (.ptr [[112], [113, 47, 114]])
/-- `foo is empty` -/
def m3 : MatchSp := .post (.bexpr ⟨102, [111, 111], []⟩) (.isEmpty [32] [32])

/-- `  a.b[ "c"]!= -12.5 or not not ( `x y` not  in<TAB>"/p/q~1r" )  and foo is empty ` -/
def top : Top :=
  ⟨[32, 32],
   .orOp (.andUp (.leaf m1)) [32] [32]
     (.orUp (.andOp
       (.notOp [32] (.notOp [32] (.paren [32] (.orUp (.andUp (.leaf m2))) [32])))
       [32, 32] [32] (.andUp (.leaf m3)))),
   [32]⟩

theorem top_text : top.text =
    asc "  a.b[ \"c\"]!= -12.5 or not not ( `x y` not  in\t\"/p/q~1r\" )  and foo is empty " := by
  decide +kernel

theorem selA_WF : selA.WF := by
  refine ⟨by decide, by decide, ?_⟩
  intro p hp
  simp only [selA, List.mem_cons, List.not_mem_nil, or_false] at hp
  rcases hp with rfl | rfl
  · exact ⟨by decide, by decide⟩
  · exact ⟨by decide, by decide, .inr rfl, by decide, by decide, by decide⟩

theorem m1_WF : m1.WF ∧ m1.notKwOK := by
  refine ⟨⟨selA_WF, ⟨by decide, by decide⟩, ⟨.inr ⟨49, [50], rfl, by decide, by decide⟩,
    by decide⟩⟩, ?_⟩
  intro σ hσ
  simp only [m1, MatchSp.lead, Option.some.injEq] at hσ
  subst hσ
  decide

theorem m2_WF : m2.WF ∧ m2.notKwOK := by
  refine ⟨⟨⟨.inl rfl, by decide, by decide, by decide, fun h => by cases h⟩,
    ⟨⟨by decide, by decide⟩, ⟨by decide, by decide⟩, ⟨by decide, by decide⟩⟩,
    ⟨by decide, ?_⟩⟩, ?_⟩
  · intro p hp
    simp only [List.mem_cons, List.not_mem_nil, or_false] at hp
    rcases hp with rfl | rfl
    · rw [C16Lex.ptrEscape_eq_flatMap]; exact ⟨by decide, by decide, by decide⟩
    · rw [C16Lex.ptrEscape_eq_flatMap]; exact ⟨by decide, by decide, by decide⟩
  · intro σ hσ
    simp [m2, strV, MatchSp.lead] at hσ

theorem m3_WF : m3.WF ∧ m3.notKwOK := by
  refine ⟨⟨⟨by decide, by decide, fun p hp => by cases hp⟩,
    ⟨⟨by decide, by decide⟩, ⟨by decide, by decide⟩⟩⟩, ?_⟩
  intro σ hσ
  simp only [m3, MatchSp.lead, Option.some.injEq] at hσ
  subst hσ
  decide

theorem top_WF : top.WF := by
  refine ⟨by decide, ?_, by decide⟩
  exact ⟨m1_WF, ⟨by decide, by decide⟩, ⟨by decide, by decide⟩,
    ⟨⟨by decide, by decide⟩, ⟨by decide, by decide⟩, by decide, m2_WF, by decide⟩,
    ⟨by decide, by decide⟩, ⟨by decide, by decide⟩, m3_WF⟩

/-- the tree: `or m1 (and m2 m3)` — `and` binds tighter than `or`, `not not` folded,
    parentheses gone, pointer path unescaped -/
theorem top_tree : norm top.ast =
    .or (.match_ ⟨.bexpr, [[97], [98], [99]]⟩ .notEqual (some (asc "-12.5")))
        (.and (.match_ ⟨.jsonPointer, [[112], [113, 47, 114]]⟩ .notIn (some (asc "x y")))
              (.match_ ⟨.bexpr, [asc "foo"]⟩ .isEmpty none)) := by
  decide +kernel

theorem top_accepted : Accepts pinEnv pinGrammar top.text (.expr (norm top.ast)) :=
  print_parse_roundtrip_partial top top_WF

def valExpr : PVal → Option Expr
  | .expr e => some e
  | _ => none

/-- cross-check by RUNNING the engine model on the text (kernel computation, independent of
    the theorem): same tree, no errors, 2776 expression evaluations -/
theorem top_engine :
    (run pinEnv pinGrammar 0 top.text).cnt = 2776 ∧ (run pinEnv pinGrammar 0 top.text).errs = [] ∧
    valExpr (run pinEnv pinGrammar 0 top.text).val = some (norm top.ast) := by
  decide +kernel

/-- … and as an instance of the theorems: the engine's answer is the predicted record -/
theorem top_engine' : run pinEnv pinGrammar 0 top.text =
    { val := .expr (norm top.ast), errs := [], cnt := 2776 } := by
  have hacc : (run pinEnv pinGrammar 0 top.text).accepted = true := by
    simp [ParseOut.accepted, top_engine.2.1]
  obtain ⟨M, hM, hMa⟩ := (C15.run_accepts_iff_budget pinEnv pinGrammar 0 top.text
    (.expr (norm top.ast))).1 ⟨hacc, print_parse_roundtrip_unique top top_WF 0 hacc⟩
  have hrun := C15.run_of_acceptsIn pinEnv pinGrammar 0 top.text hMa hM
  have hc : M = 2776 := by
    have := congrArg ParseOut.cnt hrun
    rw [top_engine.1] at this
    exact this.symm
  rw [hrun, hc]

/-- `all items as _ , v { v.ok != true or any v.tags as t { t in "/a/b" } }` -/
def top2 : Top :=
  ⟨[],
   .coll .all [32] (.bexpr ⟨105, [116, 101, 109, 115], []⟩) [32] [32]
     (.value [32] [32] ⟨118, []⟩) [32] [32]
     (.orOp
       (.andUp (.leaf (.opValue (.bexpr ⟨118, [], [.dotIdent 111 [107]]⟩) (.ne [32] [32])
         (.sel ⟨116, [114, 117, 101], []⟩))))
       [32] [32]
       (.coll .any [32] (.bexpr ⟨118, [], [.dotIdent 116 [97, 103, 115]]⟩)
         [32] [32] (.dflt ⟨116, []⟩) [32] [32]
         (.orUp (.andUp (.leaf (.inSel (.sel ⟨116, [], []⟩) (.in_ [32] [32])
           (.ptr [[97], [98]])))))
         [32]))
     [32],
   []⟩

theorem top2_text : top2.text =
    asc "all items as _ , v { v.ok != true or any v.tags as t { t in \"/a/b\" } }" := by
  decide +kernel

theorem selWF (b : UInt8) (x : GoString) (hb : isAlpha b.toNat = true) (hx : AllIn isIdc x) :
    (SelX.bexpr ⟨b, x, []⟩).WF := ⟨hb, hx, fun p hp => by cases hp⟩

theorem top2_WF : top2.WF := by
  refine ⟨by decide, ?_, by decide⟩
  -- outer quantifier
  refine ⟨by decide, selWF _ _ (by decide) (by decide), ?_, by decide, by decide,
    ⟨by decide, by decide, by decide, by decide⟩, by decide, by decide, ?_, by decide,
    fun _ => by decide⟩
  · intro K hK
    simp only [kwList, List.mem_cons, List.not_mem_nil, or_false] at hK
    rcases hK with rfl | rfl | rfl | rfl | rfl <;> decide
  -- body: `v.ok != true or any …`
  refine ⟨⟨⟨⟨by decide, by decide, ?_⟩, ⟨by decide, by decide⟩,
      ⟨by decide, by decide, fun p hp => by cases hp⟩⟩, ?_⟩, by decide, by decide, ?_⟩
  · intro p hp
    simp only [List.mem_cons, List.not_mem_nil, or_false] at hp
    subst hp
    exact ⟨by decide, by decide⟩
  · intro σ hσ
    simp only [MatchSp.lead, Option.some.injEq] at hσ
    subst hσ
    decide
  -- inner quantifier
  refine ⟨by decide, ⟨by decide, by decide, ?_⟩, ?_, by decide, by decide,
    ⟨by decide, by decide⟩, by decide, by decide, ?_, by decide, fun _ => by decide⟩
  · intro p hp
    simp only [List.mem_cons, List.not_mem_nil, or_false] at hp
    subst hp
    exact ⟨by decide, by decide⟩
  · intro K hK
    simp only [kwList, List.mem_cons, List.not_mem_nil, or_false] at hK
    rcases hK with rfl | rfl | rfl | rfl | rfl <;> decide
  · refine ⟨⟨⟨by decide, by decide, fun p hp => by cases hp⟩,
      ⟨⟨by decide, by decide⟩, ⟨by decide, by decide⟩⟩, ⟨by decide, ?_⟩⟩, ?_⟩
    · intro p hp
      simp only [List.mem_cons, List.not_mem_nil, or_false] at hp
      rcases hp with rfl | rfl <;>
        (rw [C16Lex.ptrEscape_eq_flatMap]; exact ⟨by decide, by decide, by decide⟩)
    · intro σ hσ
      simp only [MatchSp.lead, Option.some.injEq] at hσ
      subst hσ
      decide

/-- the quantifier example as an instance of the theorem -/
theorem top2_accepted : Accepts pinEnv pinGrammar top2.text (.expr (norm top2.ast)) :=
  print_parse_roundtrip_partial top2 top2_WF

theorem top2_engine : (run pinEnv pinGrammar 0 top2.text).errs = [] ∧
    valExpr (run pinEnv pinGrammar 0 top2.text).val = some (norm top2.ast) := by
  decide +kernel

end Example

end Bexpr.Props.C16

#print axioms Bexpr.Props.C16.print_parse_roundtrip_partial
#print axioms Bexpr.Props.C16.print_parse_roundtrip_engine
#print axioms Bexpr.Props.C16.print_parse_roundtrip_unique
#print axioms Bexpr.Props.C16.level_roundtrip
#print axioms Bexpr.Props.C16.print_parse_roundtrip_paren
#print axioms Bexpr.Props.C16.print_parse_roundtrip_minimal
#print axioms Bexpr.Props.C16.minimal_shapes
#print axioms Bexpr.Props.C16.not_not
#print axioms Bexpr.Props.C16.norm_fixed
#print axioms Bexpr.Props.C16.norm_folded
#print axioms Bexpr.Props.C16.in_contains_same
#print axioms Bexpr.Props.C16.match_roundtrip
#print axioms Bexpr.Props.C16.string_literal_backtick
#print axioms Bexpr.Props.C16.string_literal_quoteX22
#print axioms Bexpr.Props.C16.string_literal_quoteX22_partial
#print axioms Bexpr.Props.C16.string_literal_general
#print axioms Bexpr.Props.C16.number_literal
#print axioms Bexpr.Props.C16.identifier
#print axioms Bexpr.Props.C16.value_styles
#print axioms Bexpr.Props.C16.Example.top_text
#print axioms Bexpr.Props.C16.Example.top_WF
#print axioms Bexpr.Props.C16.Example.top_tree
#print axioms Bexpr.Props.C16.Example.top_accepted
#print axioms Bexpr.Props.C16.Example.top_engine
#print axioms Bexpr.Props.C16.Example.top_engine'
#print axioms Bexpr.Props.C16.Example.top2_text
#print axioms Bexpr.Props.C16.Example.top2_accepted
#print axioms Bexpr.Props.C16.Example.top2_engine
