/-
  Props.C02Float — property C02, float part: "a float literal is compared as the
  NEAREST float of the field's width".

  `parseFloat` (the model of Go's `strconv.ParseFloat`) scans the literal into an
  exact rational and rounds it with `roundRat`.  This file states, for both IEEE
  formats (the theorems are parametrised by the format record, `FloatFmt.WF`):

    * `roundRat_exact`            a representable rational is returned unchanged;
    * `roundRat_finite_nearest`   a finite result is a nearest representable value;
    * `roundRat_ties_even`        in a tie the even pattern is returned;
    * `roundRat_monotone`         rounding is monotone;
    * `roundRat_overflow_iff`     overflow iff `x ≥ maxFinite + ulp/2`;
    * `parseFloat_nearest`, `parseFloat_ties_even`, `parseFloat_exact`,
      `parseFloat_range_iff…`     the same for `parseFloat` on every literal that
                                  `readFloat` accepts (decimal or hex), with signs;
    * `readFloat_decLit`, `parseFloat_decLit`  what the scan yields on
      `[+-]digits[.digits][e[+-]digits]`, and the resulting specification.

  All distances are cross-multiplied (`ratDistLe`, `sdist`): no division occurs.
  Proofs are in `Proofs/FloatRound.lean`.
-/
import Proofs.FloatRound

namespace Bexpr.Props.C02Float
open Bexpr Bexpr.Strconv Bexpr.GoString

/-! ## 1. Rounding a non-negative rational: `roundRat`

`roundRat f num den : Nat` is the sign-less pattern; a value `≥ f.infBits` signals
overflow.  `finiteToRat f b = (n, d)` is the exact value `n/d` of the finite pattern `b`.
`ratDistLe x p q` is `|p - x| ≤ |q - x|`, `ratDistEq x p q` is `|p - x| = |q - x|`. -/

/-- (5) **Exactness.**  If `num/den` equals the value of the sign-less pattern `b`, the
result is `b`.  (No sign is involved at this level: `roundRat` rounds magnitudes; the sign
of the literal is attached by `parseFloat`, see `parseFloat_exact` for the zero case.) -/
theorem roundRat_exact (f : FloatFmt) (hf : f.WF) (num den : Nat) (hd : den ≠ 0)
    (b : Nat) (hb : b < f.infBits)
    (hval : num * (finiteToRat f b).2 = (finiteToRat f b).1 * den) :
    roundRat f num den = b :=
  Strconv.roundRat_exact f hf num den hd b (Nat.lt_trans hb (infBits_lt_signBit f)) hval

/-- (1) **Nearest.**  A finite result is at least as close to `num/den` as EVERY finite
pattern of the format (normal or subnormal results alike). -/
theorem roundRat_finite_nearest (f : FloatFmt) (hf : f.WF) (num den : Nat) (hd : den ≠ 0)
    (bits : Nat) (hbits : roundRat f num den = bits) (hfin : bits < f.infBits)
    (b' : Nat) (hb' : b' < f.infBits) :
    ratDistLe (num, den) (finiteToRat f bits) (finiteToRat f b') := by
  subst hbits
  exact Strconv.roundRat_finite_nearest f hf num den hd hfin b' hb'

/-- (2) **Ties to even.**  If another finite pattern is exactly as close, the returned
pattern has an even fraction field. -/
theorem roundRat_ties_even (f : FloatFmt) (hf : f.WF) (num den : Nat) (hd : den ≠ 0)
    (bits : Nat) (hbits : roundRat f num den = bits) (hfin : bits < f.infBits)
    (b' : Nat) (hb' : b' < f.infBits) (hne : b' ≠ bits)
    (htie : ratDistEq (num, den) (finiteToRat f b') (finiteToRat f bits)) :
    f.fracOf bits % 2 = 0 := by
  subst hbits
  exact Strconv.roundRat_ties_even f hf num den hd hfin b' hb' hne htie

/-- (3) **Monotone.**  `n1/d1 ≤ n2/d2` implies `roundRat f n1 d1 ≤ roundRat f n2 d2`. -/
theorem roundRat_monotone (f : FloatFmt) (hf : f.WF) (n1 d1 n2 d2 : Nat) (hd1 : d1 ≠ 0)
    (hd2 : d2 ≠ 0) (h : n1 * d2 ≤ n2 * d1) : roundRat f n1 d1 ≤ roundRat f n2 d2 :=
  Strconv.roundRat_monotone f hf n1 d1 n2 d2 hd1 hd2 h

/-- The result depends only on the rational, not on the fraction representing it. -/
theorem roundRat_congr (f : FloatFmt) (hf : f.WF) (n1 d1 n2 d2 : Nat) (hd1 : d1 ≠ 0)
    (hd2 : d2 ≠ 0) (h : n1 * d2 = n2 * d1) : roundRat f n1 d1 = roundRat f n2 d2 :=
  Nat.le_antisymm (Strconv.roundRat_monotone f hf n1 d1 n2 d2 hd1 hd2 (Nat.le_of_eq h))
    (Strconv.roundRat_monotone f hf n2 d2 n1 d1 hd2 hd1 (Nat.le_of_eq h.symm))

/-- (4) **Overflow**, any format, in units of the smallest subnormal `2^(-ushift)`
(`ulps f b` is the value of pattern `b` in these units): the result leaves the finite
range iff `num/den ≥ (maxFinite + 2^(emax+1)) / 2 = maxFinite + ulp/2`. -/
theorem roundRat_overflow_iff (f : FloatFmt) (hf : f.WF) (num den : Nat) (hd : den ≠ 0) :
    f.infBits ≤ roundRat f num den ↔
      (ulps f (f.infBits - 1) + ulps f f.infBits) * den ≤ 2 * (num * 2 ^ f.ushift) :=
  Strconv.roundRat_overflow_iff f hf num den hd

/-- (4) binary64: overflow iff `num/den ≥ (2^54 - 1) * 2^970 = MaxFloat64 + 2^970`. -/
theorem roundRat_overflow_iff64 (num den : Nat) (hd : den ≠ 0) :
    fmt64.infBits ≤ roundRat fmt64 num den ↔ (2 ^ 54 - 1) * 2 ^ 970 * den ≤ num :=
  roundRat64_overflow_iff num den hd

/-- (4) binary32: overflow iff `num/den ≥ (2^25 - 1) * 2^103 = MaxFloat32 + 2^103`. -/
theorem roundRat_overflow_iff32 (num den : Nat) (hd : den ≠ 0) :
    fmt32.infBits ≤ roundRat fmt32 num den ↔ (2 ^ 25 - 1) * 2 ^ 103 * den ≤ num :=
  roundRat32_overflow_iff num den hd

/-! ## 2. `parseFloat` on any literal accepted by `readFloat`

`readFloat s = some r` gives sign `r.neg` and the exact magnitude `r.toRat = (num, den)`
(`mant * 10^exp` or `mant * 2^exp`).  Patterns now carry a sign: `patNeg f b`, magnitude
`patMag f b`, finite patterns `isFinitePat f b`; `sdist` is the signed cross-multiplied
distance. -/

/-- `bits` is at least as close to `(-1)^neg * x.1/x.2` as `b'`:
`|val bits - x| ≤ |val b' - x|`, cross-multiplied. -/
def NoFarther (f : FloatFmt) (neg : Bool) (x : Nat × Nat) (bits b' : Nat) : Prop :=
  sdist neg x (patNeg f bits) (patMag f bits) * (patMag f b').2 ≤
    sdist neg x (patNeg f b') (patMag f b') * (patMag f bits).2

/-- `|val b' - x| = |val bits - x|`, cross-multiplied. -/
def EquallyFar (f : FloatFmt) (neg : Bool) (x : Nat × Nat) (bits b' : Nat) : Prop :=
  sdist neg x (patNeg f b') (patMag f b') * (patMag f bits).2 =
    sdist neg x (patNeg f bits) (patMag f bits) * (patMag f b').2

/-- `bits` is a finite pattern nearest to `(-1)^neg * x.1/x.2` among all finite patterns
of the format, and is the even one if there are two. -/
structure NearestEven (f : FloatFmt) (neg : Bool) (x : Nat × Nat) (bits : Nat) : Prop where
  finite : isFinitePat f bits
  sign : patNeg f bits = neg
  nearest : ∀ b', isFinitePat f b' → NoFarther f neg x bits b'
  even : ∀ b', isFinitePat f b' → b' ≠ bits → EquallyFar f neg x bits b' → f.fracOf bits % 2 = 0

theorem toRat_den_ne_zero (r : ReadFloat) : r.toRat.2 ≠ 0 := by
  unfold ReadFloat.toRat
  simp only
  split
  · simp
  · have : 0 < (if r.hex = true then 2 else 10) ^ (-r.exp).toNat := Nat.pow_pos (by split <;> omega)
    simp only; omega

/-- The numeric arm of `parseFloat` (`readFloat` accepting excludes the `inf`/`nan` arm). -/
theorem parseFloat_of_readFloat (s : GoString) (bitSize : Nat) (r : ReadFloat)
    (hr : readFloat s = some r) :
    parseFloat s bitSize =
      if (fmtOf bitSize).infBits ≤ roundRat (fmtOf bitSize) r.toRat.1 r.toRat.2 then .error .range
      else .ok (withSign (fmtOf bitSize) r.neg (roundRat (fmtOf bitSize) r.toRat.1 r.toRat.2)) := by
  simp only [parseFloat, special_none_of_readFloat s r hr, hr, withSign, ge_iff_le]

/-- `withSign neg (roundRat num den)` is nearest-even for `(-1)^neg * num/den`. -/
theorem nearestEven_withSign (f : FloatFmt) (hf : f.WF) (neg : Bool) (num den : Nat)
    (hd : den ≠ 0) (hfin : roundRat f num den < f.infBits) :
    NearestEven f neg (num, den) (withSign f neg (roundRat f num den)) := by
  have hs := infBits_lt_signBit f
  refine ⟨⟨withSign_lt f neg _ (by omega), ?_⟩, patNeg_withSign f neg _ (by omega), ?_, ?_⟩
  · rw [absOf_withSign f neg _ (by omega)]; exact hfin
  · exact fun b' hb' => roundRat_signed_nearest f hf neg num den hd hfin b' hb'
  · exact fun b' hb' hne htie => roundRat_signed_ties_even f hf neg num den hd hfin b' hb' hne htie

/-- (6) **`parseFloat` returns a nearest float of the requested width, ties to even.**
For every literal `s` that `readFloat` accepts (decimal or hexadecimal, with or without
sign, point, exponent, underscores) with sign `r.neg` and exact magnitude `r.toRat`: if
`parseFloat s bitSize = .ok bits` then `bits` is a finite pattern with the literal's sign,
no finite pattern of either sign is closer to the literal's exact value, and if another one
is equally close then `bits` has an even fraction field. -/
theorem parseFloat_nearest (s : GoString) (bitSize : Nat) (r : ReadFloat) (bits : Nat)
    (hr : readFloat s = some r) (hok : parseFloat s bitSize = .ok bits) :
    NearestEven (fmtOf bitSize) r.neg r.toRat bits := by
  rw [parseFloat_of_readFloat s bitSize r hr] at hok
  split at hok
  · cases hok
  · rename_i hfin
    cases hok
    exact nearestEven_withSign (fmtOf bitSize) (fmtOf_wf bitSize) r.neg r.toRat.1 r.toRat.2
      (toRat_den_ne_zero r) (by omega)

/-- (6) The tie clause on its own. -/
theorem parseFloat_ties_even (s : GoString) (bitSize : Nat) (r : ReadFloat) (bits : Nat)
    (hr : readFloat s = some r) (hok : parseFloat s bitSize = .ok bits)
    (b' : Nat) (hb' : isFinitePat (fmtOf bitSize) b') (hne : b' ≠ bits)
    (htie : EquallyFar (fmtOf bitSize) r.neg r.toRat bits b') :
    (fmtOf bitSize).fracOf bits % 2 = 0 :=
  (parseFloat_nearest s bitSize r bits hr hok).even b' hb' hne htie

/-- (5) for `parseFloat`: a literal whose exact magnitude is the value of the finite
sign-less pattern `a` parses to `a` with the LITERAL's sign — so `-0`, `-0.0`, `-0e5` give
the negative zero `signBit`, and `0` gives `0`. -/
theorem parseFloat_exact (s : GoString) (bitSize : Nat) (r : ReadFloat)
    (hr : readFloat s = some r) (a : Nat) (ha : a < (fmtOf bitSize).infBits)
    (hval : r.toRat.1 * (finiteToRat (fmtOf bitSize) a).2 =
      (finiteToRat (fmtOf bitSize) a).1 * r.toRat.2) :
    parseFloat s bitSize = .ok (withSign (fmtOf bitSize) r.neg a) := by
  have h := roundRat_exact (fmtOf bitSize) (fmtOf_wf bitSize) r.toRat.1 r.toRat.2
    (toRat_den_ne_zero r) a ha hval
  rw [parseFloat_of_readFloat s bitSize r hr, h, if_neg (by omega)]

/-- (4) for `parseFloat`, 64 bit: a range error exactly from `(2^54 - 1) * 2^970` on. -/
theorem parseFloat_range_iff64 (s : GoString) (bitSize : Nat) (hb : bitSize ≠ 32) (r : ReadFloat)
    (hr : readFloat s = some r) :
    parseFloat s bitSize = .error .range ↔ (2 ^ 54 - 1) * 2 ^ 970 * r.toRat.2 ≤ r.toRat.1 := by
  have hf : fmtOf bitSize = fmt64 := by simp [fmtOf, hb]
  rw [parseFloat_of_readFloat s bitSize r hr, hf,
    ← roundRat64_overflow_iff r.toRat.1 r.toRat.2 (toRat_den_ne_zero r)]
  split <;> simp_all

/-- (4) for `parseFloat`, 32 bit: a range error exactly from `(2^25 - 1) * 2^103` on. -/
theorem parseFloat_range_iff32 (s : GoString) (r : ReadFloat) (hr : readFloat s = some r) :
    parseFloat s 32 = .error .range ↔ (2 ^ 25 - 1) * 2 ^ 103 * r.toRat.2 ≤ r.toRat.1 := by
  have hf : fmtOf 32 = fmt32 := rfl
  rw [parseFloat_of_readFloat s 32 r hr, hf,
    ← roundRat32_overflow_iff r.toRat.1 r.toRat.2 (toRat_den_ne_zero r)]
  split <;> simp_all

/-- A literal accepted by `readFloat` never yields a syntax error. -/
theorem parseFloat_no_syntax_error (s : GoString) (bitSize : Nat) (r : ReadFloat)
    (hr : readFloat s = some r) : parseFloat s bitSize ≠ .error .syntax := by
  rw [parseFloat_of_readFloat s bitSize r hr]
  split <;> simp

/-! ## 3. Decimal literals `[+-]digits[.digits][e[+-]digits]`

`DecLit` describes such a literal (`l.text` is its text); `l.mant` is the integer made of
all its mantissa digits, `l.exp10` the written exponent (Go's saturating reading
`expVal`, equal to the decimal value below `100000`: `expVal_eq_decVal`) minus the number
of fraction digits. -/

/-- The exact magnitude `mant * 10^exp10` as a fraction. -/
def litRat (mant : Nat) (exp10 : Int) : Nat × Nat :=
  if exp10 ≥ 0 then (mant * 10 ^ exp10.toNat, 1) else (mant, 10 ^ (-exp10).toNat)

/-- What the scan of a well-formed decimal literal yields. -/
theorem readFloat_decLit (l : DecLit) (h : l.WF) :
    readFloat l.text = some ⟨l.neg, false, l.mant, l.exp10⟩ :=
  Strconv.readFloat_decLit l h

/-- (6) **Decimal literals**: `parseFloat` either reports a range error or returns a
nearest-even float of `(-1)^neg * mant * 10^exp10`. -/
theorem parseFloat_decLit (l : DecLit) (h : l.WF) (bitSize : Nat) :
    parseFloat l.text bitSize = .error .range ∨
    ∃ bits, parseFloat l.text bitSize = .ok bits ∧
      NearestEven (fmtOf bitSize) l.neg (litRat l.mant l.exp10) bits := by
  have hr := readFloat_decLit l h
  cases hp : parseFloat l.text bitSize with
  | error e =>
    cases e
    · exact absurd hp (parseFloat_no_syntax_error _ _ _ hr)
    · exact Or.inl rfl
  | ok bits => exact Or.inr ⟨bits, rfl, parseFloat_nearest _ _ _ _ hr hp⟩

/-- (6) as an implication. -/
theorem parseFloat_decLit_nearest (l : DecLit) (h : l.WF) (bitSize bits : Nat)
    (hok : parseFloat l.text bitSize = .ok bits) :
    NearestEven (fmtOf bitSize) l.neg (litRat l.mant l.exp10) bits :=
  parseFloat_nearest _ _ _ _ (readFloat_decLit l h) hok

/-- Shape `digits`. -/
theorem parseFloat_digits_nearest (ip : GoString) (hip : AllDec ip) (hne : ip ≠ [])
    (bitSize bits : Nat) (hok : parseFloat ip bitSize = .ok bits) :
    NearestEven (fmtOf bitSize) false (decVal ip, 1) bits := by
  have h : (⟨none, ip, none, none⟩ : DecLit).WF :=
    ⟨hip, fun _ h => (by cases h), (by simpa [DecLit.digits] using hne), fun _ _ _ h => (by cases h)⟩
  have := parseFloat_decLit_nearest ⟨none, ip, none, none⟩ h bitSize bits
    (by simpa [DecLit.text, DecLit.body, DecLit.fracText, DecLit.expText, signText] using hok)
  simpa [DecLit.neg, DecLit.mant, DecLit.digits, DecLit.exp10, litRat] using this

/-- Shape `digits.digits` (either side may be empty, not both). -/
theorem parseFloat_digits_frac_nearest (ip fp : GoString) (hip : AllDec ip) (hfp : AllDec fp)
    (hne : ip ++ fp ≠ []) (bitSize bits : Nat)
    (hok : parseFloat (ip ++ 0x2E :: fp) bitSize = .ok bits) :
    NearestEven (fmtOf bitSize) false (litRat (decVal (ip ++ fp)) (-(fp.length : Int))) bits := by
  have h : (⟨none, ip, some fp, none⟩ : DecLit).WF :=
    ⟨hip, fun _ h => (by cases h; exact hfp), (by simpa [DecLit.digits] using hne),
      fun _ _ _ h => (by cases h)⟩
  have := parseFloat_decLit_nearest ⟨none, ip, some fp, none⟩ h bitSize bits
    (by simpa [DecLit.text, DecLit.body, DecLit.fracText, DecLit.expText, signText] using hok)
  simpa [DecLit.neg, DecLit.mant, DecLit.digits, DecLit.exp10] using this

/-- Shape `digits[.digits]e[±]digits`, unsigned, exponent below `100000`:
the value is `digits * 10^(±exponent - number of fraction digits)`. -/
theorem parseFloat_digits_exp_nearest (ip : GoString) (fp : Option GoString) (e : UInt8)
    (sg : Option Bool) (ep : GoString) (hip : AllDec ip) (hfp : ∀ x, fp = some x → AllDec x)
    (hne : ip ++ fp.getD [] ≠ []) (he : isE e = true) (hep : AllDec ep) (hepne : ep ≠ [])
    (hsmall : decVal ep < 100000) (bitSize bits : Nat)
    (hok : parseFloat (DecLit.text ⟨none, ip, fp, some (e, sg, ep)⟩) bitSize = .ok bits) :
    NearestEven (fmtOf bitSize) false
      (litRat (decVal (ip ++ fp.getD []))
        ((if sg = some true then -(decVal ep : Int) else (decVal ep : Int)) -
          ((fp.getD []).length : Int))) bits := by
  have h : (⟨none, ip, fp, some (e, sg, ep)⟩ : DecLit).WF :=
    ⟨hip, hfp, hne, fun _ _ _ h => (by cases h; exact ⟨he, hep, hepne⟩)⟩
  have := parseFloat_decLit_nearest _ h bitSize bits hok
  simpa [DecLit.neg, DecLit.mant, DecLit.digits, DecLit.exp10,
    expVal_eq_decVal ep hep hsmall] using this


/-! ## 4. Non-vacuity: concrete literals -/

/-- ASCII text as a `GoString`. -/
def asc (s : String) : GoString := s.toList.map byteOfChar

instance (f : FloatFmt) (b : Nat) : Decidable (isFinitePat f b) := by
  unfold isFinitePat; infer_instance
instance (f : FloatFmt) (neg : Bool) (x : Nat × Nat) (a b : Nat) : Decidable (NoFarther f neg x a b) := by
  unfold NoFarther; infer_instance
instance (f : FloatFmt) (neg : Bool) (x : Nat × Nat) (a b : Nat) : Decidable (EquallyFar f neg x a b) := by
  unfold EquallyFar; infer_instance
instance (xs : GoString) : Decidable (AllDec xs) := by
  unfold AllDec; infer_instance

/-- `0.1` at both widths. -/
example : parseFloat (asc "0.1") 64 = .ok 0x3FB999999999999A := by decide +kernel
example : parseFloat (asc "0.1") 32 = .ok 0x3DCCCCCD := by decide +kernel

/-- `0.1` as a `DecLit`: digits `0`, fraction digits `1`; mantissa `1`, exponent `-1`. -/
def lit01 : DecLit := ⟨none, asc "0", some (asc "1"), none⟩
theorem lit01_wf : lit01.WF :=
  ⟨by decide, fun _ h => (by cases h; decide), by decide, fun _ _ _ h => (by cases h)⟩
example : lit01.text = asc "0.1" := by decide
example : litRat lit01.mant lit01.exp10 = (1, 10) := by decide

/-- The general theorem applied to `0.1`: `0x3FB999999999999A` is the nearest binary64 to
`1/10`, `0x3DCCCCCD` the nearest binary32. -/
example : NearestEven fmt64 false (1, 10) 0x3FB999999999999A :=
  parseFloat_decLit_nearest lit01 lit01_wf 64 _ (by decide +kernel)
example : NearestEven fmt32 false (1, 10) 0x3DCCCCCD :=
  parseFloat_decLit_nearest lit01 lit01_wf 32 _ (by decide +kernel)
/-- … in particular it is no farther from `1/10` than its two neighbours, and strictly
closer than the lower one. -/
example : NoFarther fmt64 false (1, 10) 0x3FB999999999999A 0x3FB9999999999999 ∧
    NoFarther fmt64 false (1, 10) 0x3FB999999999999A 0x3FB999999999999B ∧
    ¬ NoFarther fmt64 false (1, 10) 0x3FB9999999999999 0x3FB999999999999A := by decide +kernel

/-- A tie: `2^53 + 1` is half-way between `2^53` (even pattern `…000`) and `2^53 + 2`
(odd pattern `…001`); the even one is returned. -/
def litTie : DecLit := ⟨none, asc "9007199254740993", none, none⟩
theorem litTie_wf : litTie.WF :=
  ⟨by decide, fun _ h => (by cases h), by decide, fun _ _ _ h => (by cases h)⟩
example : parseFloat litTie.text 64 = .ok 0x4340000000000000 := by decide +kernel
example : EquallyFar fmt64 false (2 ^ 53 + 1, 1) 0x4340000000000000 0x4340000000000001 := by
  decide +kernel
/-- The hypotheses of `parseFloat_ties_even` are satisfiable, and its conclusion holds. -/
example : fmt64.fracOf 0x4340000000000000 % 2 = 0 :=
  parseFloat_ties_even litTie.text 64 _ 0x4340000000000000 (readFloat_decLit litTie litTie_wf)
    (by decide +kernel) 0x4340000000000001 (by decide +kernel) (by decide) (by decide +kernel)
/-- The other way round: `2^53 + 3` is a tie between `…001` and `…010`; it goes UP. -/
example : parseFloat (asc "9007199254740995") 64 = .ok 0x4340000000000002 := by decide +kernel

/-- Subnormals: `5e-324` is the smallest positive subnormal (pattern `1`); `2e-324` is
below half of it and rounds to `+0`; `2^-1075` exactly (a tie between `0` and `1`) rounds
to the even pattern `0`; `3e-324` rounds up. -/
example : parseFloat (asc "5e-324") 64 = .ok 1 := by decide +kernel
example : parseFloat (asc "2e-324") 64 = .ok 0 := by decide +kernel
example : parseFloat (asc "3e-324") 64 = .ok 1 := by decide +kernel
example : parseFloat (asc "0x1p-1075") 64 = .ok 0 := by decide +kernel
example : parseFloat (asc "0x3p-1075") 64 = .ok 2 := by decide +kernel
example : parseFloat (asc "1e-45") 32 = .ok 1 := by decide +kernel
def litSub : DecLit := ⟨none, asc "5", none, some (0x65, some true, asc "324")⟩
theorem litSub_wf : litSub.WF :=
  ⟨by decide, fun _ h => (by cases h), by decide,
    fun _ _ _ h => (by cases h; exact ⟨by decide, by decide, by decide⟩)⟩
example : litSub.text = asc "5e-324" := by decide
example : litSub.mant = 5 ∧ litSub.exp10 = -324 := by decide
example : NearestEven fmt64 false (litRat 5 (-324)) 1 :=
  parseFloat_decLit_nearest litSub litSub_wf 64 _ (by decide +kernel)

/-- Exactness and the sign of zero. -/
example : parseFloat (asc "-0") 64 = .ok 0x8000000000000000 := by decide +kernel
example : parseFloat (asc "-0.000e7") 32 = .ok 0x80000000 := by decide +kernel
example : parseFloat (asc "0.5") 64 = .ok 0x3FE0000000000000 := by decide +kernel
def litHalf : DecLit := ⟨some true, asc "0", some (asc "5"), none⟩
theorem litHalf_wf : litHalf.WF :=
  ⟨by decide, fun _ h => (by cases h; decide), by decide, fun _ _ _ h => (by cases h)⟩
/-- `parseFloat_exact` applied to `-0.5`. -/
example : parseFloat (asc "-0.5") 64 = .ok 0xBFE0000000000000 :=
  parseFloat_exact litHalf.text 64 _ (readFloat_decLit litHalf litHalf_wf) 0x3FE0000000000000
    (by decide +kernel) (by decide +kernel)

/-- Overflow: the threshold is `MaxFloat64 + 2^970 = (2^54 - 1) * 2^970`. -/
example : parseFloat (asc "1e309") 64 = .error .range := by decide +kernel
example : parseFloat (asc "1.7976931348623157e308") 64 = .ok 0x7FEFFFFFFFFFFFFF := by
  decide +kernel
example : parseFloat (asc "1.7976931348623159e308") 64 = .error .range := by decide +kernel
/-- one below the threshold / the threshold itself, as integer literals -/
example : parseFloat (natToDec ((2 ^ 54 - 1) * 2 ^ 970 - 1)) 64 = .ok 0x7FEFFFFFFFFFFFFF := by
  decide +kernel
example : parseFloat (natToDec ((2 ^ 54 - 1) * 2 ^ 970)) 64 = .error .range := by decide +kernel
example : parseFloat (asc "3.4028235e38") 32 = .ok 0x7F7FFFFF := by decide +kernel
example : parseFloat (asc "3.4028236e38") 32 = .error .range := by decide +kernel
def litBig : DecLit := ⟨none, asc "1", none, some (0x65, none, asc "309")⟩
theorem litBig_wf : litBig.WF :=
  ⟨by decide, fun _ h => (by cases h), by decide,
    fun _ _ _ h => (by cases h; exact ⟨by decide, by decide, by decide⟩)⟩
/-- `parseFloat_range_iff64` applied to `1e309`. -/
example : parseFloat (asc "1e309") 64 = .error .range :=
  (parseFloat_range_iff64 litBig.text 64 (by decide) _ (readFloat_decLit litBig litBig_wf)).mpr
    (by decide +kernel)

end Bexpr.Props.C02Float

#print axioms Bexpr.Props.C02Float.roundRat_exact
#print axioms Bexpr.Props.C02Float.roundRat_finite_nearest
#print axioms Bexpr.Props.C02Float.roundRat_ties_even
#print axioms Bexpr.Props.C02Float.roundRat_monotone
#print axioms Bexpr.Props.C02Float.roundRat_congr
#print axioms Bexpr.Props.C02Float.roundRat_overflow_iff
#print axioms Bexpr.Props.C02Float.roundRat_overflow_iff64
#print axioms Bexpr.Props.C02Float.roundRat_overflow_iff32
#print axioms Bexpr.Props.C02Float.parseFloat_of_readFloat
#print axioms Bexpr.Props.C02Float.nearestEven_withSign
#print axioms Bexpr.Props.C02Float.parseFloat_nearest
#print axioms Bexpr.Props.C02Float.parseFloat_ties_even
#print axioms Bexpr.Props.C02Float.parseFloat_exact
#print axioms Bexpr.Props.C02Float.parseFloat_range_iff64
#print axioms Bexpr.Props.C02Float.parseFloat_range_iff32
#print axioms Bexpr.Props.C02Float.parseFloat_no_syntax_error
#print axioms Bexpr.Props.C02Float.readFloat_decLit
#print axioms Bexpr.Props.C02Float.parseFloat_decLit
#print axioms Bexpr.Props.C02Float.parseFloat_decLit_nearest
#print axioms Bexpr.Props.C02Float.parseFloat_digits_nearest
#print axioms Bexpr.Props.C02Float.parseFloat_digits_frac_nearest
#print axioms Bexpr.Props.C02Float.parseFloat_digits_exp_nearest
#print axioms Bexpr.Props.C02Float.lit01_wf
#print axioms Bexpr.Props.C02Float.litTie_wf
