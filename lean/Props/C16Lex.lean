/-
  Props.C16Lex — the lexical stage of C16 / C07: what a quoted literal and a
  JSON-pointer segment denote.
-/
import Bexpr.Unquote
import Bexpr.Quote
import Bexpr.Peg.Actions
import Proofs.UnquoteLemmas

namespace Bexpr.Props.C16Lex
open Bexpr Bexpr.GoString Bexpr.Strconv Bexpr.Peg

/-- An ASCII literal as a Go string (bytes of the characters). -/
def asc (s : String) : GoString := s.toList.map byteOfChar

/-! ## 6. Raw strings are verbatim -/

/-- A backquoted literal denotes exactly the bytes between the backquotes, provided
they contain no backquote and no carriage return (Go drops `\r` from raw strings). -/
theorem unquote_quote_backtick (s : GoString) (hs : ∀ b ∈ s, b ≠ 0x60 ∧ b ≠ 0x0D) :
    unquote ([0x60] ++ s ++ [0x60]) = some s := by
  simpa using unquote_backtick s hs

/-- The restriction on `\r` is necessary: Go (and the model) drop carriage returns. -/
theorem unquote_backtick_drops_cr :
    unquote ([0x60] ++ [0x61, 0x0D, 0x62] ++ [0x60]) = some [0x61, 0x62] := by decide

/-! ## 7a. Double-quoted strings of plain bytes are verbatim -/

/-- For bytes that are ASCII and none of `"`, `\`, newline — in particular for every
ASCII-printable string without `"` and `\` — a double-quoted literal denotes the
bytes between the quotes. -/
theorem unquote_double_plain (s : GoString)
    (hs : ∀ b ∈ s, b < 0x80 ∧ b ≠ 0x22 ∧ b ≠ 0x5C ∧ b ≠ 0x0A) :
    unquote ([0x22] ++ s ++ [0x22]) = some s := by
  have := unquote_plain s (fun b hb => by
    obtain ⟨h1, h2, h3, h4⟩ := hs b hb
    simp [plainByte, h1, h2, h3, h4])
  simpa using this

/-- (a) of the task: ASCII-printable (`0x20..0x7E`), no `"`, no `\`. -/
theorem unquote_quote_double_ascii (s : GoString)
    (hs : ∀ b ∈ s, 0x20 ≤ b ∧ b ≤ 0x7E ∧ b ≠ 0x22 ∧ b ≠ 0x5C) :
    unquote ([0x22] ++ s ++ [0x22]) = some s := by
  apply unquote_double_plain
  intro b hb
  obtain ⟨h1, h2, h3, h4⟩ := hs b hb
  refine ⟨?_, h3, h4, ?_⟩
  · exact Nat.lt_of_le_of_lt (UInt8.le_iff_toNat_le.mp h2) (by decide)
  · intro h; subst h; exact absurd h1 (by decide)

/-! ## 7b. `Unquote ∘ Quote = id` -/

/-- Go's `strconv.Unquote(strconv.Quote(s)) == s`, for EVERY byte string `s` — valid
UTF-8 or not (invalid bytes travel as `\xHH`), printable or not, with or without
quotes and backslashes.  No restriction was needed. -/
theorem unquote_quote_double (s : GoString) : unquote (Strconv.quote s) = some s :=
  unquote_quote s

/-- Consequently `Quote` is injective: two different strings never render to the
same double-quoted literal. -/
theorem quote_injective (s t : GoString) (h : Strconv.quote s = Strconv.quote t) : s = t := by
  have h1 := unquote_quote_double s
  rw [h, unquote_quote_double t] at h1
  exact (Option.some.inj h1).symm

/-! ## 7c. The renderer's spelling: `\x22` for a double quote

The bexpr grammar has no escape for `"` inside a double-quoted literal (the first
`"` after the opening one ends the token), so a renderer cannot use `strconv.Quote`
verbatim: it writes `\x22` where `Quote` writes `\"` (harness: `quoteDouble`, which
does this by `strings.ReplaceAll(inner, "\\\"", "\\x22")` on `Quote`'s output; the model
`Strconv.quoteX22` does it in the rune escaper).  That spelling has both properties
the round trip needs. -/

/-- The renderer's literal denotes the original string, for every byte string. -/
theorem unquote_quote_double_x22 (s : GoString) : unquote (quoteX22 s) = some s :=
  unquote_quoteX22 s

/-- … and between its delimiters there is no `"`, so the grammar's string rule
consumes it as one token ending at the final quote. -/
theorem quoteX22_no_inner_quote (s : GoString) :
    ∃ body, quoteX22 s = [0x22] ++ body ++ [0x22] ∧ ∀ c ∈ body, c ≠ 0x22 := by
  obtain ⟨body, h1, h2⟩ := quoteX22_shape s
  exact ⟨body, by simpa using h1, h2⟩

/-- `Quote` itself does NOT have that property (so `Quote`d text is not in general a
bexpr literal). -/
theorem quote_has_inner_quote :
    Strconv.quote (asc "a\"b") = asc "\"a\\\"b\"" ∧ unquote (asc "\"a\\\"b\"") = some (asc "a\"b")
    := by decide +kernel

/-! ## 8. JSON-pointer escapes -/

/-- RFC 6901 escaping of a reference token: first `~` ↦ `~0`, then `/` ↦ `~1`. -/
def ptrEscape (p : GoString) : GoString :=
  replaceAll (replaceAll p (ofString "~") (ofString "~0")) (ofString "/") (ofString "~1")

/-- Byte-wise reading of `ptrEscape`. -/
theorem ptrEscape_eq_flatMap (p : GoString) : ptrEscape p = p.flatMap escByte := by
  unfold ptrEscape
  rw [ofString_tilde, ofString_tilde0, ofString_slash, ofString_tilde1]
  exact escape_two_steps p

/-- `~1` and `~0` denote `/` and `~`: un-escaping inverts escaping, for every byte
string. -/
theorem pointer_escape_roundtrip (p : GoString) : ptrUnescape (ptrEscape p) = p := by
  rw [ptrEscape_eq_flatMap]; exact ptrUnescape_flatMap_escByte p

/-- An escaped token contains no `/`. -/
theorem ptrEscape_no_slash (p : GoString) : ∀ c ∈ ptrEscape p, c ≠ 0x2F := by
  rw [ptrEscape_eq_flatMap]; exact escByte_no_slash p

/-- The JSON-pointer spelling `/t₁/…/tₙ` (tokens escaped) denotes exactly the token
list, for every non-empty list of arbitrary byte strings. -/
theorem pointer_parse_roundtrip (parts : List GoString) (hne : parts ≠ []) :
    ptrParse (parts.map ptrEscape) = parts := by
  unfold ptrParse
  rw [ofString_slash, splitSlash_join _ (by simpa using hne)]
  · rw [List.map_map]
    conv => rhs; rw [← List.map_id parts]
    apply List.map_congr_left
    intro p _
    exact pointer_escape_roundtrip p
  · intro q hq c hc
    rw [List.mem_map] at hq
    obtain ⟨p, _, rfl⟩ := hq
    exact ptrEscape_no_slash p c hc

/-- The empty segment list is read as one empty token (the pointer `"/"`); the
grammar never produces it (a JSON-pointer selector has at least one segment). -/
theorem pointer_parse_nil : ptrParse [] = [[]] := by
  unfold ptrParse
  rw [ofString_slash]
  show [ptrUnescape []] = [[]]
  rw [show ([] : GoString) = ([] : GoString).flatMap escByte from rfl,
    ptrUnescape_flatMap_escByte]
  rfl

/-! ## 9. Non-vacuity: concrete instances -/

example : unquote (asc "`a\\nb`") = some (asc "a\\nb") := by decide
example : unquote (asc "\"a\\nb\"") = some [0x61, 0x0A, 0x62] := by decide
example : unquote (asc "\"a\\x22b\"") = some (asc "a\"b") := by decide
/-- A raw `"` inside `"…"` ends the literal: the whole text is rejected. -/
example : unquote (asc "\"a\"b\"") = none := by decide
example : unquote (asc "\"abc") = none := by decide
example : unquote (asc "'ab'") = none := by decide
/-- `Quote` on control bytes, quotes, backslashes, invalid UTF-8, non-ASCII. -/
example : Strconv.quote (asc "a\"b\\c\n") = asc "\"a\\\"b\\\\c\\n\"" := by decide +kernel
example : Strconv.quote [0xFF, 0xE2, 0x82, 0xAC, 0x00] =
    asc "\"\\xff" ++ [0xE2, 0x82, 0xAC] ++ asc "\\x00\"" := by decide +kernel
example : unquote (Strconv.quote [0xFF, 0xE2, 0x82, 0xAC, 0x00, 0x22, 0x5C, 0xED, 0xA0, 0x80]) =
    some [0xFF, 0xE2, 0x82, 0xAC, 0x00, 0x22, 0x5C, 0xED, 0xA0, 0x80] := unquote_quote_double _
example : quoteX22 (asc "a\"b\\") = asc "\"a\\x22b\\\\\"" := by decide +kernel
/-- Pointer tokens: `~1` is `/`, `~0` is `~`, and `~01` is `~1` (not `/`). -/
example : ptrUnescape (asc "a~1b") = asc "a/b" := by
  have : asc "a~1b" = ptrEscape (asc "a/b") := by rw [ptrEscape_eq_flatMap]; decide
  rw [this, pointer_escape_roundtrip]
example : ptrUnescape (asc "~01") = asc "~1" := by
  have : asc "~01" = ptrEscape (asc "~1") := by rw [ptrEscape_eq_flatMap]; decide
  rw [this, pointer_escape_roundtrip]
example : ptrParse [asc "a~1b", asc "c~0d", asc "~01", asc ""] =
    [asc "a/b", asc "c~d", asc "~1", asc ""] := by
  have : [asc "a~1b", asc "c~0d", asc "~01", asc ""] =
      [asc "a/b", asc "c~d", asc "~1", asc ""].map ptrEscape := by
    simp only [List.map, ptrEscape_eq_flatMap]; decide
  rw [this]
  exact pointer_parse_roundtrip _ (by simp)
example : ptrEscape (asc "a/b~c") = asc "a~1b~0c" := by rw [ptrEscape_eq_flatMap]; decide

end Bexpr.Props.C16Lex

#print axioms Bexpr.Props.C16Lex.unquote_quote_backtick
#print axioms Bexpr.Props.C16Lex.unquote_double_plain
#print axioms Bexpr.Props.C16Lex.unquote_quote_double_ascii
#print axioms Bexpr.Props.C16Lex.unquote_quote_double
#print axioms Bexpr.Props.C16Lex.quote_injective
#print axioms Bexpr.Props.C16Lex.unquote_quote_double_x22
#print axioms Bexpr.Props.C16Lex.quoteX22_no_inner_quote
#print axioms Bexpr.Props.C16Lex.ptrEscape_eq_flatMap
#print axioms Bexpr.Props.C16Lex.pointer_escape_roundtrip
#print axioms Bexpr.Props.C16Lex.ptrEscape_no_slash
#print axioms Bexpr.Props.C16Lex.pointer_parse_roundtrip
#print axioms Bexpr.Props.C16Lex.pointer_parse_nil
