/-
  Property C09 — "Evaluate is total: it never panics, and an error always comes with false."

  Stated about the executable model `Bexpr.Eval.evaluate` of `evaluate.go` (every reflect call
  that would panic in Go yields `Out.panic` in the model) and the model `Bexpr.Eval.execute` of
  `(*Filter).Execute`.  Helper lemmas live in `Proofs/Total.lean`.  Core Lean only.
-/
import Proofs.Total

namespace Bexpr.Props.C09
open Bexpr Bexpr.Go Bexpr.Eval Bexpr.Proofs.Total

/-- Well-formed evaluation options (defined in `Proofs/Total.lean`): the unknown value, if any,
    is `Any.wf`, and every local variable's `value` is `Any.wf`. -/
abbrev OptsWf (o : Opts) : Prop := Bexpr.Proofs.Total.OptsWf o

/-- 1. An error always comes with `false` (no hypotheses). -/
theorem evaluate_err_false (re : RegexOracle) (e : Expr) (o : Opts) (d : Any) (b : Bool) :
    evaluate re e o d = .err b → b = false := by
  induction e generalizing o b with
  | not e ih =>
    intro h
    simp only [evaluate] at h
    split at h
    · cases h
    · cases h; rfl
    · rename_i other h1 h2
      exact absurd h (h2 _)
  | and l r ihl ihr =>
    intro h
    simp only [evaluate] at h
    split at h
    · exact ihr o b h
    · exact ihl o b h
  | or l r ihl ihr =>
    intro h
    simp only [evaluate] at h
    split at h
    · exact ihr o b h
    · exact ihl o b h
  | match_ sel op raw =>
    intro h
    simp only [evaluate] at h
    exact evaluateMatch_err _ _ _ _ _ _ _ h
  | coll op sel bd inner ih =>
    intro h
    simp only [evaluate] at h
    split at h
    · cases h; rfl
    · cases h
    · cases h
    · split at h
      · split at h
        · cases h; rfl
        · exact collLoop_err _ _ _ _ _ _ h
      · exact collLoop_err _ _ _ _ _ _ h
      · exact collLoop_err _ _ _ _ _ _ h
      · cases h; rfl

/-- 2. `evaluate` never panics on a parser-shaped expression, a well-formed datum and
    well-formed options.  Every map key type is inside the model (nothing is answered `unmodelled`
    for a key type, `C09Keys.get_ne_unmodelled`), so this covers the one place where a LIBRARY
    panics — `pointerstructure.Get` on a map keyed like `map[*[1][]int]V`, `GetErr.panic`,
    `C09Keys.getMap_panic_iff` — because `getValue` recovers it (`safeGet`, repair of finding F12):
    `C09Keys.evaluate_recovers_walk_panic`. -/
theorem evaluate_no_panic (re : RegexOracle) (e : Expr) (o : Opts) (d : Any) :
    e.parserShaped = true → Any.wf d = true → OptsWf o → evaluate re e o d ≠ .panic := by
  intro hs hd
  induction e generalizing o with
  | not e ih =>
    intro ho
    simp only [Expr.parserShaped] at hs
    have := ih o hs ho
    simp only [evaluate]
    split <;> simp_all
  | and l r ihl ihr =>
    intro ho
    simp only [Expr.parserShaped, Bool.and_eq_true] at hs
    have hl := ihl o hs.1 ho
    have hr := ihr o hs.2 ho
    simp only [evaluate]
    split
    · exact hr
    · exact hl
  | or l r ihl ihr =>
    intro ho
    simp only [Expr.parserShaped, Bool.and_eq_true] at hs
    have hl := ihl o hs.1 ho
    have hr := ihr o hs.2 ho
    simp only [evaluate]
    split
    · exact hr
    · exact hl
  | match_ sel op raw =>
    intro ho
    simp only [Expr.parserShaped] at hs
    simp only [evaluate]
    exact evaluateMatch_no_panic _ _ _ _ _ _ hs ho hd
  | coll op sel bd inner ih =>
    intro ho
    simp only [Expr.parserShaped] at hs
    have hf : ∀ o', Bexpr.Proofs.Total.OptsWf o' → evaluate re inner o' d ≠ .panic :=
      fun o' ho' => ih o' hs ho'
    simp only [evaluate]
    split
    · simp
    · simp
    · simp
    · split
      · split
        · simp
        · refine collLoop_no_panic _ _ _ _ _ ?_ hf ho
          intro bs hm lv hl
          rcases List.mem_map.mp hm with ⟨k, _, rfl⟩
          exact mapBindings_wf _ _ _ _ hl
      · refine collLoop_no_panic _ _ _ _ _ ?_ hf ho
        intro bs hm lv hl
        rcases List.mem_map.mp hm with ⟨k, _, rfl⟩
        exact listBindings_wf _ _ _ _ hl
      · refine collLoop_no_panic _ _ _ _ _ ?_ hf ho
        intro bs hm lv hl
        rcases List.mem_map.mp hm with ⟨k, _, rfl⟩
        exact listBindings_wf _ _ _ _ hl
      · simp

/-- 3. Property C09: `Evaluate` is total — it never panics (on parser-produced trees and
    well-formed inputs), and an error always comes with `false`. -/
theorem evaluate_total (re : RegexOracle) (e : Expr) (o : Opts) (d : Any) :
    (e.parserShaped = true → Any.wf d = true → OptsWf o → evaluate re e o d ≠ .panic) ∧
    (∀ b, evaluate re e o d = .err b → b = false) :=
  ⟨evaluate_no_panic re e o d, fun b => evaluate_err_false re e o d b⟩

/-- `(*Evaluator).Evaluate` (options rebuilt from the evaluator's fields, no locals). -/
theorem Evaluator_evaluate_no_panic (re : RegexOracle) (ev : Evaluator) (d : Any)
    (hs : ev.ast.parserShaped = true) (hd : Any.wf d = true)
    (hu : ∀ u, ev.unknown = some u → Any.wf u = true) : ev.evaluate re d ≠ .panic :=
  evaluate_no_panic re ev.ast _ d hs hd ⟨hu, fun _ hm => nomatch hm⟩

theorem Evaluator_evaluate_err_false (re : RegexOracle) (ev : Evaluator) (d : Any) (b : Bool) :
    ev.evaluate re d = .err b → b = false :=
  evaluate_err_false re ev.ast _ d b

/-- 4a. The nil filter returns its input. -/
theorem execute_nil (re : RegexOracle) (data : Any) : execute re none data = .ok data := rfl

/-- 4b. `(*Filter).Execute` never panics on a parser-shaped filter and well-formed data. -/
theorem execute_no_panic (re : RegexOracle) (ev : Evaluator) (data : Any)
    (hs : ev.ast.parserShaped = true) (hd : Any.wf data = true)
    (hu : ∀ u, ev.unknown = some u → Any.wf u = true) :
    execute re (some ev) data ≠ .panic := by
  have hev : ∀ x : GoVal, x.wf = true → ev.evaluate re x.toAny ≠ .panic :=
    fun x hx => Evaluator_evaluate_no_panic re ev _ hs (toAny_wf x hx) hu
  unfold execute
  simp only [valueOf]
  split
  · simp
  · rename_i elem xs
    have hw := (Any_wf_some.mp hd).2
    simp only [GoVal.wf] at hw
    split
    · simp
    · rename_i o ho
      exact outToExec_ne_panic
        (execSliceLoop_ne_panic _ _ _ _ (fun x hx => hev x (wfList_mem hw hx).2) ho)
  · rename_i name elem nil xs
    have hw := (Any_wf_some.mp hd).2
    simp only [GoVal.wf] at hw
    split
    · simp
    · rename_i o ho
      exact outToExec_ne_panic
        (execSliceLoop_ne_panic _ _ _ _ (fun x hx => hev x (wfList_mem hw hx).2) ho)
  · rename_i name kt vt nil es
    have hw := (Any_wf_some.mp hd).2
    simp only [GoVal.wf, Bool.and_eq_true] at hw
    split
    · simp
    · rename_i o ho
      exact outToExec_ne_panic
        (execMapLoop_ne_panic _ _ _ _ (fun e he => hev e.2 (wfEntries_mem hw.1 he).2.2.2) ho)
  · simp

/-! ## Non-vacuity: concrete data and expressions satisfying the hypotheses

Go strings are byte lists: `[76]` = "L", `[88]` = "X", `[77]` = "M", `[83]` = "S", `[65]` = "A",
`[97]` = "a", `[122, 122]` = "zz", `[50]` = "2", `[49]` = "1", `[98]` = "b" (tag name). -/

namespace Examples

def intT : GoType := .basic .int ""
def fld (n : GoString) : Field := { goName := n, exported := true, tags := [] }

/-- `[]*int{&1, nil, &2}` -/
def ptrList : GoVal :=
  .slice "" (.ptr intT) false
    [.ptr intT (some (.int .int "" 1)), .ptr intT none, .ptr intT (some (.int .int "" 2))]

/-- `struct{ L []*int; X interface{}; M map[string]interface{}; S struct{A int} }` with a nil
    pointer element, a nil interface field and a map holding a nil interface. -/
def sdatum : Any := some (.struct "main.D" [
  (fld [76], ptrList),
  (fld [88], .iface none),
  (fld [77], .map "" GoType.stringT .iface false [(.str "" [97], .iface none)]),
  (fld [83], .struct "main.S" [(fld [65], .int .int "" 7)])])

/-- `map[string]interface{}{"L": []*int{&1, nil, &2}, "X": nil, "S": struct{A int}{7}}` -/
def mdatum : Any := some (.map "" GoType.stringT .iface false [
  (.str "" [76], .iface (some ptrList)),
  (.str "" [88], .iface none),
  (.str "" [83], .iface (some (.struct "main.S" [(fld [65], .int .int "" 7)])))])

def opts0 : Opts := { tagName := [98], hook := .off, unknown := none, locals := [] }
def re0 : RegexOracle := fun _ => none

/-- `"2" in L` -/
def eIn : Expr := .match_ ⟨.bexpr, [[76]]⟩ .in_ (some [50])
/-- `X is empty` -/
def eEmpty : Expr := .match_ ⟨.bexpr, [[88]]⟩ .isEmpty none
/-- `not (zz == 1)` -/
def eNot : Expr := .not (.match_ ⟨.bexpr, [[122, 122]]⟩ .equal (some [49]))
/-- `any L as i, v { i == 2 }`: a collection expression over `L` with index and value bound -/
def eColl : Expr :=
  .coll .any ⟨.bexpr, [[76]]⟩ { mode := .indexAndValue, index := [105], value := [118] }
    (.match_ ⟨.bexpr, [[105]]⟩ .equal (some [50]))

/-- the hypotheses of `evaluate_no_panic` hold -/
example : Any.wf sdatum = true := by decide
example : Any.wf mdatum = true := by decide
example : eIn.parserShaped = true := by decide
example : eEmpty.parserShaped = true := by decide
example : eNot.parserShaped = true := by decide
example : eColl.parserShaped = true := by decide
theorem opts0_wf : OptsWf opts0 := ⟨fun _ h => (nomatch h), fun _ h => (nomatch h)⟩

/-- … and this is what `evaluate` returns on the struct datum (kernel evaluation) -/
example : evaluate re0 eIn opts0 sdatum = .val true := by decide
example : evaluate re0 eEmpty opts0 sdatum = .err false := by decide
example : evaluate re0 eNot opts0 sdatum = .err false := by decide
example : evaluate re0 eColl opts0 sdatum = .val true := by decide
example : evaluate re0 (.match_ ⟨.bexpr, [[77]]⟩ .isEmpty none) opts0 sdatum = .val false := by
  decide
example : evaluate re0 (.match_ ⟨.bexpr, [[83], [65]]⟩ .equal (some [55])) opts0 sdatum
    = .val true := by decide

/-- the theorem instantiated -/
example : evaluate re0 eIn opts0 sdatum ≠ .panic :=
  evaluate_no_panic _ _ _ _ (by decide) (by decide) opts0_wf

/-! On the map datum the key lookup goes through `keyEq` (well-founded recursion, irreducible
    for the kernel evaluator), so the three `Get`s are computed by `simp` with the equations of
    the model and the rest by `rfl`. -/

theorem fkeyEq_str (n m : String) (a b : GoString) :
    fkeyEq (.str n a) (.str m b) = (n == m && a == b) := by
  simp [fkeyEq, keyEq, unboxKey, keyEqScalar, keyEqV]

theorem get_L : Go.get opts0.cfg [[76]] mdatum = .ok (some ptrList) := by
  simp [Go.get, mdatum, getLoop, getStep, valueOf, unwrapForStep, unwrapIfaceV, unwrapPtrV,
    getMap, coerceKey, GoType.stringT, fkeyEq_str, getStep.applyHook, opts0, Opts.cfg,
    GoVal.toAny]

theorem get_X : Go.get opts0.cfg [[88]] mdatum = .ok none := by
  simp [Go.get, mdatum, getLoop, getStep, valueOf, unwrapForStep, unwrapIfaceV, unwrapPtrV,
    getMap, coerceKey, GoType.stringT, fkeyEq_str, getStep.applyHook, opts0, Opts.cfg,
    GoVal.toAny]

theorem get_zz : Go.get opts0.cfg [[122, 122]] mdatum = .error .notFound := by
  simp [Go.get, mdatum, getLoop, getStep, valueOf, unwrapForStep, unwrapIfaceV, unwrapPtrV,
    getMap, coerceKey, GoType.stringT, fkeyEq_str, getStep.applyHook]

example : evaluate re0 eIn opts0 mdatum = .val true := by
  simp only [evaluate, eIn, evaluateMatch, getValue, List.reverse_nil, resolveLocals, opts0]
  rw [show ({ tagName := [98], hook := Hook.off, unknown := none, locals := [] } : Opts) = opts0
    from rfl, get_L]
  rfl

example : evaluate re0 eEmpty opts0 mdatum = .err false := by
  simp only [evaluate, eEmpty, evaluateMatch, getValue, List.reverse_nil, resolveLocals, opts0]
  rw [show ({ tagName := [98], hook := Hook.off, unknown := none, locals := [] } : Opts) = opts0
    from rfl, get_X]
  rfl

example : evaluate re0 eNot opts0 mdatum = .err false := by
  simp only [evaluate, eNot, evaluateMatch, getValue, List.reverse_nil, resolveLocals, opts0]
  rw [show ({ tagName := [98], hook := Hook.off, unknown := none, locals := [] } : Opts) = opts0
    from rfl, get_zz]
  rfl

/-- `Execute` over the `[]*int` (as a slice datum): the filter `"2" in L` errors on every element
    (an `*int` has no field `L`), so the first error aborts; no panic. -/
def ev0 : Evaluator :=
  { ast := eIn, tagName := [98], hook := .off, unknown := none, expression := [] }
example : execute re0 (some ev0) (some ptrList) ≠ .panic :=
  execute_no_panic _ _ _ (by decide) (by decide) (fun _ h => nomatch h)

/-! The hypotheses are not superfluous: dropping either one makes the model panic. -/

/-- not parser-shaped (`==` without a value): `first.(T)` on the nil match value -/
example : evaluate re0 (.match_ ⟨.bexpr, [[83], [65]]⟩ .equal none) opts0 sdatum = .panic := by
  decide
/-- ill-formed value (an `int` constructor claiming kind `Array`): `Len` panics -/
example : evaluate re0 (.match_ ⟨.bexpr, []⟩ .isEmpty none) opts0 (some (.int .array "" 0))
    = .panic := by decide

end Examples


end Bexpr.Props.C09

#print axioms Bexpr.Props.C09.evaluate_err_false
#print axioms Bexpr.Props.C09.evaluate_no_panic
#print axioms Bexpr.Props.C09.evaluate_total
#print axioms Bexpr.Props.C09.Evaluator_evaluate_no_panic
#print axioms Bexpr.Props.C09.execute_nil
#print axioms Bexpr.Props.C09.execute_no_panic
