/-
  Property C16, last clause, END TO END:

    "… a quoted literal denotes exactly the Go string it spells
       (so `X == <quoted s>` is true of X = s for every string s)."

  `Props/C16.lean` proves the parsing half (the pinned grammar reads a rendered literal back as
  the string it spells), `Props/C02.lean` the evaluation half (`==` on a string value compares
  raw bytes), `Props/C01.lean` the lookup.  Here the halves are composed through the real entry
  points: `createEvaluator pinEnv pinGrammar text opts` (= `bexpr.CreateEvaluator`: runs the
  parser `Peg.run`, type-asserts the result, stores the options) and `Evaluator.evaluate`
  (= `(*Evaluator).Evaluate`).

  The text is `X == <literal>`: bytes `58 20 3D 3D 20` followed by the literal.  The datum is the
  Go value `map[string]interface{}{"X": t}` (`datumIface t`) or `map[string]string{"X": t}`
  (`datumStr t`), `t` an arbitrary byte string.

  PROVED
   (A) `quoted_literal_true`   — for EVERY byte string `s` (valid UTF-8 or not, empty or not) that
       does not start with `/`:  `CreateEvaluator("X == " + quoteX22 s)` (default options)
       returns an evaluator, and evaluating it on `{"X": s}` returns `true`, no error.
   (C) `quoted_literal_false`  — … and on `{"X": t}` with `t ≠ s` it returns `false`, no error;
       `quoted_literal_decides` is both at once (`.val (s == t)`).
   (B) `backquoted_literal_true` / `_false` / `_decides` — the same for ``X == `s` `` with `s` any
       valid UTF-8 string without backquote and `\r`; no restriction on a leading `/`, `s` may
       be empty.
   `quoted_literal_opts` / `backquoted_literal_opts` — the general form: every option list
       (any tag name, any unknown-value, a hook that does not replace values, any budget that
       allows the `N` steps of the parse), both datum shapes, every regexp engine.
   `quoted_literal_engine` / `backquoted_literal_engine` — the parser level: `Peg.run` returns
       exactly the tree `match(selector X, equal, raw s)`, no errors, after `N` steps, and
       `N ≤ 576 + 200·|s|` resp. `N ≤ 540 + 20·|s|` (`Proofs/C16EvalLemmas.lean` rebuilds the
       derivation of this text shape with sizes: 576 resp. 540 steps plus 20 per byte of the
       literal's body; `Example.step_counts` shows the bound is attained).

  HYPOTHESES, and why each is needed
   1. `s.head? ≠ some 0x2F` in (A), (C): restriction 2 of `Props/C16.lean`, a DEFECT of the
      grammar, not of the proof — `Value` tries `Selector` first, which reads `"/a"` as a JSON
      pointer, so `X == "/a"` compares with `a`: `Example.leading_slash_defect` shows
      `X == "/a"` evaluating to FALSE on `{"X": "/a"}` and to TRUE on `{"X": "a"}`.
      The other half of restriction 2 (non-empty body) is NOT needed here: `s = ""` is the
      single text `X == ""`, settled by running the engine (`empty_run`).
      No such hypothesis in (B).
   2. `s.length < 2^56` in (A), (C), `s.length < 2^59` in (B) — 64 PiB resp. 512 PiB, more than a
      Go string can hold on any existing machine; it is a hypothesis only because the MODEL of
      pigeon's `newParser` turns the budget `0` ("unlimited") into `math.MaxUint64`
      (`Peg.effectiveMax`), so a parse of more than `2^64 - 1` expression evaluations ends in
      the max-expressions error also without any `MaxExpressions` option, and the parse of
      `X == "body"` takes `576 + 20·(runes of body)` steps on every instance computed (proved:
      at most `576 + 20·|body|`), so SOME bound on the length is unavoidable.  The hypothesis that is EXACTLY
      needed is `Fits text` (the unlimited parse takes fewer than `2^64` steps): the `_of_fits`
      forms assume only that, `fits_necessary` shows that it holds whenever `CreateEvaluator`
      (default options) returns an evaluator at all, `fits_quoted` / `fits_backquoted` derive
      it from the length bound.  The `_opts` / `_engine` forms have no such hypothesis: they
      speak about every budget `n` with `N ≤ effectiveMax n`.
   3. (B) `Utf8.validString s`, no byte `0x60`, no byte `0x0D`: the parser rejects invalid
      UTF-8 (`C16.Example.invalid_byte_rejected`), a backquote ends the literal, and Go drops
      `\r` from raw string literals.
   4. `PlainHook` in the `_opts` forms: the value-transformation hook of the options must not
      replace the value looked up (`off`, `identity`, `unwrap` of the harness family; `const42`
      and `nilret` do).  The default options have no hook.

  Nothing else is assumed; in particular nothing about `s` being ASCII, printable or valid
  UTF-8 in (A)/(C).
-/
import Props.C16
import Props.C02
import Props.C11
import Proofs.C16EvalLemmas

namespace Bexpr.Props.C16Eval
open Bexpr Bexpr.Go Bexpr.Eval Bexpr.Peg Bexpr.Driver Bexpr.Proofs.RoundTrip
open Bexpr.Proofs.C16Eval Bexpr.Proofs.C16Steps

/-! ## 0. The objects of the statements -/

/-- the text `X == "…"` with the renderer's double-quoted literal for `s` -/
def textDQ (s : GoString) : GoString := [0x58, 0x20, 0x3D, 0x3D, 0x20] ++ Strconv.quoteX22 s

/-- the text ``X == `s` `` -/
def textBQ (s : GoString) : GoString := [0x58, 0x20, 0x3D, 0x3D, 0x20] ++ ([0x60] ++ (s ++ [0x60]))

/-- the tree: a match expression, selector `X` (bexpr spelling, one segment), operator equal,
    value with `Raw = s` -/
def litExpr (s : GoString) : Expr := .match_ ⟨.bexpr, [[0x58]]⟩ .equal (some s)

/-- `map[string]interface{}{"X": t}` with `t` a Go `string` holding exactly the bytes `t` -/
def datumIface (t : GoString) : Any :=
  some (.map "" GoType.stringT .iface false [(.str "" [0x58], .iface (some (.str "" t)))])

/-- `map[string]string{"X": t}` -/
def datumStr (t : GoString) : Any :=
  some (.map "" GoType.stringT GoType.stringT false [(.str "" [0x58], .str "" t)])

/-- hooks that hand on the value they are given -/
def PlainHook (h : Hook) : Prop := h = .off ∨ h = .identity ∨ h = .unwrap

/-- the unlimited parse (`MaxExpressions` unset = `math.MaxUint64`) does not hit the limit -/
def Fits (text : GoString) : Prop := (run pinEnv pinGrammar 0 text).cnt < 2 ^ 64

/-- both data are well-formed Go values (the evaluator theorems of C09/C10 apply to them) -/
theorem datum_wf (t : GoString) : Any.wf (datumIface t) = true ∧ Any.wf (datumStr t) = true := by
  constructor <;>
  simp [Any.wf, datumIface, datumStr, GoVal.kind, GoVal.wf, wfEntries, GoVal.typeOf,
    GoType.stringT] <;> decide

/-! ## 1. Evaluation of the tree `X == raw s` -/

/-- On `{"X": t}` the tree `X == raw s` evaluates to `s == t` (byte-wise), without error,
    under any tag name, unknown-value and plain hook, with any regexp engine. -/
theorem evaluate_litExpr (re : RegexOracle) (s t tag : GoString) (hook : Hook)
    (hh : PlainHook hook) (unknown : Option Any) :
    Eval.evaluate re (litExpr s)
      { tagName := tag, hook := hook, unknown := unknown, locals := [] } (datumIface t) =
        .val (s == t) ∧
    Eval.evaluate re (litExpr s)
      { tagName := tag, hook := hook, unknown := unknown, locals := [] } (datumStr t) =
        .val (s == t) := by
  rcases hh with rfl | rfl | rfl <;>
  simp [Eval.evaluate, litExpr, datumIface, datumStr, evaluateMatch, getValue, resolveLocals,
    Go.get, getLoop, getStep, unwrapForStep, unwrapIfaceV, unwrapPtrV, valueOf, getMap,
    coerceKey, GoType.stringT, fkeyEq, keyEq, keyEqScalar, keyEqV, unboxKey, getStep.applyHook,
    Opts.cfg, GoVal.toAny, Hook.apply, stripIP, narrowJsonNumber, indirect,
    Props.C02.eq_string_spec]

/-! ## 2. The parser level -/

/-- `X == ""` (the one text excluded by restriction 2 of `Props/C16.lean` that is needed here),
    by running the engine: accepted after 420 steps, with the tree `X == raw ""`. -/
theorem empty_run :
    (run pinEnv pinGrammar 0 (textDQ [])).cnt = 420 ∧
    (run pinEnv pinGrammar 0 (textDQ [])).errs = [] ∧
    C16.Example.valExpr (run pinEnv pinGrammar 0 (textDQ [])).val = some (litExpr []) := by
  decide +kernel

theorem empty_steps : AcceptsIn pinEnv pinGrammar (textDQ []) (.expr (litExpr [])) 420 := by
  have hacc : (run pinEnv pinGrammar 0 (textDQ [])).accepted = true := by
    simp [ParseOut.accepted, empty_run.2.1]
  obtain ⟨N, hN, hd⟩ := (C15.run_accepts_iff pinEnv pinGrammar (textDQ []) _).1 ⟨hacc, rfl⟩
  have hr := C15.run_of_acceptsIn pinEnv pinGrammar 0 (textDQ []) hd
    (by rw [C11.effectiveMax_zero]; exact hN)
  have hc : N = 420 := by
    have := congrArg ParseOut.cnt hr
    rw [empty_run.1] at this
    exact this.symm
  have hv := empty_run.2.2
  subst hc
  generalize (run pinEnv pinGrammar 0 (textDQ [])).val = v at hd hv
  cases v <;> simp [C16.Example.valExpr] at hv
  subst hv
  exact hd

/-- **The derivation and its size (A).**  The grammar derives `X == <quoteX22 s>` with the tree
    `X == raw s`, for every byte string `s` that does not start with `/`, by a derivation of at
    most `576 + 200·|s|` nodes (= parser steps). -/
theorem quoted_literal_steps (s : GoString) (hsl : s.head? ≠ some 0x2F) :
    ∃ N, N ≤ 576 + 200 * s.length ∧
      AcceptsIn pinEnv pinGrammar (textDQ s) (.expr (litExpr s)) N := by
  by_cases hne : s = []
  · subst hne; exact ⟨420, by decide, empty_steps⟩
  · obtain ⟨body, hq, hhead⟩ := quoteX22_body_head s hne hsl
    exact acceptsIn_bound_quoteX22 s body hq hhead

/-- **The derivation and its size (B).**  The grammar derives ``X == `s` `` with the tree
    `X == raw s`, for every valid UTF-8 string `s` without backquote and `\r`, by a derivation of
    at most `540 + 20·|s|` nodes. -/
theorem backquoted_literal_steps (s : GoString) (hs : Utf8.validString s = true)
    (hnq : ∀ c ∈ s, c ≠ 0x60 ∧ c ≠ 0x0D) :
    ∃ N, N ≤ 540 + 20 * s.length ∧
      AcceptsIn pinEnv pinGrammar (textBQ s) (.expr (litExpr s)) N :=
  acceptsIn_bound_backtick s hs hnq

theorem quoted_literal_accepts (s : GoString) (hsl : s.head? ≠ some 0x2F) :
    Accepts pinEnv pinGrammar (textDQ s) (.expr (litExpr s)) := by
  obtain ⟨N, _, hN⟩ := quoted_literal_steps s hsl
  exact (C15.accepts_iff_acceptsIn _ _ _ _).2 ⟨N, hN⟩

theorem backquoted_literal_accepts (s : GoString) (hs : Utf8.validString s = true)
    (hnq : ∀ c ∈ s, c ≠ 0x60 ∧ c ≠ 0x0D) :
    Accepts pinEnv pinGrammar (textBQ s) (.expr (litExpr s)) := by
  obtain ⟨N, _, hN⟩ := backquoted_literal_steps s hs hnq
  exact (C15.accepts_iff_acceptsIn _ _ _ _).2 ⟨N, hN⟩

/-- Engine level (A): `Peg.run` (= pigeon's `Parse`) on `X == <quoteX22 s>` returns the tree
    `match(X, equal, raw s)`, no errors, after exactly `N ≤ 576 + 200·|s|` steps — for every
    budget `n` that allows `N` (`n = 0` is `math.MaxUint64`). -/
theorem quoted_literal_engine (s : GoString) (hsl : s.head? ≠ some 0x2F) :
    ∃ N, N ≤ 576 + 200 * s.length ∧
      AcceptsIn pinEnv pinGrammar (textDQ s) (.expr (litExpr s)) N ∧
      ∀ n, N ≤ effectiveMax n →
        run pinEnv pinGrammar n (textDQ s) = { val := .expr (litExpr s), errs := [], cnt := N } := by
  obtain ⟨N, hb, hN⟩ := quoted_literal_steps s hsl
  exact ⟨N, hb, hN, fun n hn => C15.run_of_acceptsIn pinEnv pinGrammar n _ hN hn⟩

/-- Engine level (B). -/
theorem backquoted_literal_engine (s : GoString) (hs : Utf8.validString s = true)
    (hnq : ∀ c ∈ s, c ≠ 0x60 ∧ c ≠ 0x0D) :
    ∃ N, N ≤ 540 + 20 * s.length ∧
      AcceptsIn pinEnv pinGrammar (textBQ s) (.expr (litExpr s)) N ∧
      ∀ n, N ≤ effectiveMax n →
        run pinEnv pinGrammar n (textBQ s) = { val := .expr (litExpr s), errs := [], cnt := N } := by
  obtain ⟨N, hb, hN⟩ := backquoted_literal_steps s hs hnq
  exact ⟨N, hb, hN, fun n hn => C15.run_of_acceptsIn pinEnv pinGrammar n _ hN hn⟩

/-! ## 3. End to end, every option list -/

/-- From a derivation of `text` with tree `X == raw s` to `CreateEvaluator` + `Evaluate`. -/
theorem endToEnd_of_acceptsIn {text s : GoString} {N : Nat}
    (h : AcceptsIn pinEnv pinGrammar text (.expr (litExpr s)) N) (opts : List Opt)
    (hN : N ≤ effectiveMax (getOpts opts).maxExpressions) (hh : PlainHook (getOpts opts).hook) :
    ∃ ev, createEvaluator pinEnv pinGrammar text opts = .ok ev ∧ ev.ast = litExpr s ∧
      ∀ (re : RegexOracle) (t : GoString),
        ev.evaluate re (datumIface t) = .val (s == t) ∧
        ev.evaluate re (datumStr t) = .val (s == t) :=
  ⟨_, create_of_acceptsIn h opts hN, rfl, fun re t => evaluate_litExpr re s t _ _ hh _⟩

/-- **General form of (A)+(C).**  `N ≤ 576 + 200·|s|` is the number of parser steps of the text;
    every option list whose budget allows `N` and whose hook is plain creates an evaluator that
    decides `X = s` on both datum shapes. -/
theorem quoted_literal_opts (s : GoString) (hsl : s.head? ≠ some 0x2F) :
    ∃ N, N ≤ 576 + 200 * s.length ∧
      AcceptsIn pinEnv pinGrammar (textDQ s) (.expr (litExpr s)) N ∧
      ∀ opts : List Opt, N ≤ effectiveMax (getOpts opts).maxExpressions →
        PlainHook (getOpts opts).hook →
        ∃ ev, createEvaluator pinEnv pinGrammar (textDQ s) opts = .ok ev ∧ ev.ast = litExpr s ∧
          ∀ (re : RegexOracle) (t : GoString),
            ev.evaluate re (datumIface t) = .val (s == t) ∧
            ev.evaluate re (datumStr t) = .val (s == t) := by
  obtain ⟨N, hb, hN⟩ := quoted_literal_steps s hsl
  exact ⟨N, hb, hN, fun opts hb hh => endToEnd_of_acceptsIn hN opts hb hh⟩

/-- **General form of (B).** -/
theorem backquoted_literal_opts (s : GoString) (hs : Utf8.validString s = true)
    (hnq : ∀ c ∈ s, c ≠ 0x60 ∧ c ≠ 0x0D) :
    ∃ N, N ≤ 540 + 20 * s.length ∧
      AcceptsIn pinEnv pinGrammar (textBQ s) (.expr (litExpr s)) N ∧
      ∀ opts : List Opt, N ≤ effectiveMax (getOpts opts).maxExpressions →
        PlainHook (getOpts opts).hook →
        ∃ ev, createEvaluator pinEnv pinGrammar (textBQ s) opts = .ok ev ∧ ev.ast = litExpr s ∧
          ∀ (re : RegexOracle) (t : GoString),
            ev.evaluate re (datumIface t) = .val (s == t) ∧
            ev.evaluate re (datumStr t) = .val (s == t) := by
  obtain ⟨N, hb, hN⟩ := backquoted_literal_steps s hs hnq
  exact ⟨N, hb, hN, fun opts hb hh => endToEnd_of_acceptsIn hN opts hb hh⟩

/-! ## 4. The budget of the default options -/

/-- the length bound implies that the unlimited parse stays below the `2^64` limit -/
theorem fits_quoted (s : GoString) (hsl : s.head? ≠ some 0x2F) (hlen : s.length < 2 ^ 56) :
    Fits (textDQ s) := by
  obtain ⟨N, hb, hN, hrun⟩ := quoted_literal_engine s hsl
  have hle : N ≤ effectiveMax 0 := by rw [C11.effectiveMax_zero]; omega
  unfold Fits
  rw [hrun 0 hle]
  show N < 2 ^ 64
  omega

theorem fits_backquoted (s : GoString) (hs : Utf8.validString s = true)
    (hnq : ∀ c ∈ s, c ≠ 0x60 ∧ c ≠ 0x0D) (hlen : s.length < 2 ^ 59) : Fits (textBQ s) := by
  obtain ⟨N, hb, hN, hrun⟩ := backquoted_literal_engine s hs hnq
  have hle : N ≤ effectiveMax 0 := by rw [C11.effectiveMax_zero]; omega
  unfold Fits
  rw [hrun 0 hle]
  show N < 2 ^ 64
  omega

/-- Whenever `CreateEvaluator` with the default options returns an evaluator — for ANY text —
    the unlimited parse stayed below the `2^64` limit: `Fits` is necessary. -/
theorem fits_necessary (text : GoString) (ev : Evaluator)
    (h : createEvaluator pinEnv pinGrammar text [] = .ok ev) : Fits text := by
  have hacc : (run pinEnv pinGrammar 0 text).accepted = true := by
    have h0 : (getOpts []).maxExpressions = 0 := rfl
    simp only [createEvaluator, h0] at h
    cases hc : (run pinEnv pinGrammar 0 text).accepted with
    | true => rfl
    | false => simp [hc] at h
  obtain ⟨N, hN, hd⟩ := (C15.run_accepts_iff pinEnv pinGrammar text _).1 ⟨hacc, rfl⟩
  have hr := C15.run_of_acceptsIn pinEnv pinGrammar 0 text hd
    (by rw [C11.effectiveMax_zero]; exact hN)
  unfold Fits
  rw [hr]
  show N < 2 ^ 64
  omega

/-- `Fits` is decidable by running the engine. -/
instance (text : GoString) : Decidable (Fits text) := by unfold Fits; infer_instance

/-! ## 5. End to end, default options -/

/-- (A)+(C) under the weakest budget hypothesis (`Fits`, see `fits_necessary`). -/
theorem quoted_literal_decides_of_fits (s : GoString) (hsl : s.head? ≠ some 0x2F)
    (hfit : Fits (textDQ s)) :
    ∃ ev, createEvaluator pinEnv pinGrammar (textDQ s) [] = .ok ev ∧
      ∀ (re : RegexOracle) (t : GoString),
        ev.evaluate re (datumIface t) = .val (s == t) ∧
        ev.evaluate re (datumStr t) = .val (s == t) := by
  obtain ⟨N, _, hN, h⟩ := quoted_literal_opts s hsl
  obtain ⟨ev, hev, _, he⟩ := h [] (le_of_cnt_lt hN hfit) (.inl rfl)
  exact ⟨ev, hev, he⟩

/-- (B) and its converse under the weakest budget hypothesis. -/
theorem backquoted_literal_decides_of_fits (s : GoString) (hs : Utf8.validString s = true)
    (hnq : ∀ c ∈ s, c ≠ 0x60 ∧ c ≠ 0x0D) (hfit : Fits (textBQ s)) :
    ∃ ev, createEvaluator pinEnv pinGrammar (textBQ s) [] = .ok ev ∧
      ∀ (re : RegexOracle) (t : GoString),
        ev.evaluate re (datumIface t) = .val (s == t) ∧
        ev.evaluate re (datumStr t) = .val (s == t) := by
  obtain ⟨N, _, hN, h⟩ := backquoted_literal_opts s hs hnq
  obtain ⟨ev, hev, _, he⟩ := h [] (le_of_cnt_lt hN hfit) (.inl rfl)
  exact ⟨ev, hev, he⟩

/-- (A)+(C) in one: with the default options the evaluator created from `X == <quoteX22 s>`
    returns, on `{"X": t}`, the boolean `s == t` (byte-wise) and no error. -/
theorem quoted_literal_decides (s : GoString) (hsl : s.head? ≠ some 0x2F)
    (hlen : s.length < 2 ^ 56) :
    ∃ ev, createEvaluator pinEnv pinGrammar (textDQ s) [] = .ok ev ∧
      ∀ (re : RegexOracle) (t : GoString),
        ev.evaluate re (datumIface t) = .val (s == t) ∧
        ev.evaluate re (datumStr t) = .val (s == t) :=
  quoted_literal_decides_of_fits s hsl (fits_quoted s hsl hlen)

/-- **(A) A quoted literal denotes exactly the Go string it spells.**  For every byte string `s`
    not starting with `/` (of fewer than `2^56` bytes): `CreateEvaluator("X == " + quoteX22 s)`
    succeeds and the evaluator returns `true`, no error, on `map[string]interface{}{"X": s}` and
    on `map[string]string{"X": s}`. -/
theorem quoted_literal_true (s : GoString) (hsl : s.head? ≠ some 0x2F) (hlen : s.length < 2 ^ 56) :
    ∃ ev, createEvaluator pinEnv pinGrammar (textDQ s) [] = .ok ev ∧
      ∀ re : RegexOracle,
        ev.evaluate re (datumIface s) = .val true ∧ ev.evaluate re (datumStr s) = .val true := by
  obtain ⟨ev, hev, he⟩ := quoted_literal_decides s hsl hlen
  refine ⟨ev, hev, fun re => ?_⟩
  have := he re s
  simpa using this

/-- **(C) … and no other string.**  Under the hypotheses of (A), for every string value
    `t ≠ s` the evaluator returns `false`, no error, on `{"X": t}`. -/
theorem quoted_literal_false (s : GoString) (hsl : s.head? ≠ some 0x2F) (hlen : s.length < 2 ^ 56) :
    ∃ ev, createEvaluator pinEnv pinGrammar (textDQ s) [] = .ok ev ∧
      ∀ (re : RegexOracle) (t : GoString), t ≠ s →
        ev.evaluate re (datumIface t) = .val false ∧ ev.evaluate re (datumStr t) = .val false := by
  obtain ⟨ev, hev, he⟩ := quoted_literal_decides s hsl hlen
  refine ⟨ev, hev, fun re t hts => ?_⟩
  have hb : (s == t) = false := by
    simpa using fun h : s = t => hts h.symm
  have := he re t
  rw [hb] at this
  exact this

/-- (B) and its converse in one, default options. -/
theorem backquoted_literal_decides (s : GoString) (hs : Utf8.validString s = true)
    (hnq : ∀ c ∈ s, c ≠ 0x60 ∧ c ≠ 0x0D) (hlen : s.length < 2 ^ 59) :
    ∃ ev, createEvaluator pinEnv pinGrammar (textBQ s) [] = .ok ev ∧
      ∀ (re : RegexOracle) (t : GoString),
        ev.evaluate re (datumIface t) = .val (s == t) ∧
        ev.evaluate re (datumStr t) = .val (s == t) :=
  backquoted_literal_decides_of_fits s hs hnq (fits_backquoted s hs hnq hlen)

/-- **(B) The backquoted literal.**  For every valid UTF-8 string `s` without backquote and
    `\r` (a leading `/` and the empty string included; fewer than `2^59` bytes):
    ``CreateEvaluator("X == `" + s + "`")`` succeeds and the evaluator returns `true`, no error,
    on `{"X": s}`. -/
theorem backquoted_literal_true (s : GoString) (hs : Utf8.validString s = true)
    (hnq : ∀ c ∈ s, c ≠ 0x60 ∧ c ≠ 0x0D) (hlen : s.length < 2 ^ 59) :
    ∃ ev, createEvaluator pinEnv pinGrammar (textBQ s) [] = .ok ev ∧
      ∀ re : RegexOracle,
        ev.evaluate re (datumIface s) = .val true ∧ ev.evaluate re (datumStr s) = .val true := by
  obtain ⟨ev, hev, he⟩ := backquoted_literal_decides s hs hnq hlen
  refine ⟨ev, hev, fun re => ?_⟩
  have := he re s
  simpa using this

/-- … and `false`, no error, on `{"X": t}` for every `t ≠ s`. -/
theorem backquoted_literal_false (s : GoString) (hs : Utf8.validString s = true)
    (hnq : ∀ c ∈ s, c ≠ 0x60 ∧ c ≠ 0x0D) (hlen : s.length < 2 ^ 59) :
    ∃ ev, createEvaluator pinEnv pinGrammar (textBQ s) [] = .ok ev ∧
      ∀ (re : RegexOracle) (t : GoString), t ≠ s →
        ev.evaluate re (datumIface t) = .val false ∧ ev.evaluate re (datumStr t) = .val false := by
  obtain ⟨ev, hev, he⟩ := backquoted_literal_decides s hs hnq hlen
  refine ⟨ev, hev, fun re t hts => ?_⟩
  have hb : (s == t) = false := by
    simpa using fun h : s = t => hts h.symm
  have := he re t
  rw [hb] at this
  exact this

/-! ## 6. Non-vacuity: the hypotheses are satisfiable, the theorems apply -/

namespace Example

/-- `a"b\c é` — a double quote, a backslash, a blank, a two-byte rune -/
def s1 : GoString := [0x61, 0x22, 0x62, 0x5C, 0x63, 0x20, 0xC3, 0xA9]
/-- invalid UTF-8: `0xFF`, then `a` -/
def s2 : GoString := [0xFF, 0x61]
/-- control bytes, a surrogate half's encoding (invalid), a non-printable rune, `/` inside -/
def s3 : GoString := [0x00, 0x0A, 0xED, 0xA0, 0x80, 0xE2, 0x80, 0x8B, 0x2F]

/-- what the renderer writes: `X == "a\x22b\\c é"`, `X == "\xffa"` -/
theorem texts :
    textDQ s1 = [0x58, 0x20, 0x3D, 0x3D, 0x20, 0x22, 0x61, 0x5C, 0x78, 0x32, 0x32, 0x62, 0x5C, 0x5C,
      0x63, 0x20, 0xC3, 0xA9, 0x22] ∧
    textDQ s2 = [0x58, 0x20, 0x3D, 0x3D, 0x20, 0x22, 0x5C, 0x78, 0x66, 0x66, 0x61, 0x22] := by
  decide +kernel

/-- the step counts, by running the engine: 576 + 20 per rune of the body `a\x22b\\c é`
    (11 runes, 12 bytes), `\xffa` (5), `\x00\n\xed\xa0\x80\u200b/` (25); 420 for `X == ""` (read as
    the empty JSON pointer); 540 + 20 per rune for ``X == `a"b\c é` `` (7 runes).  For `s2` and
    `s3` (bodies of one-byte runes) the bound `576 + 20·|body|` of `Proofs/C16EvalLemmas.lean` is
    attained. -/
theorem step_counts :
    (run pinEnv pinGrammar 0 (textDQ s1)).cnt = 576 + 20 * 11 ∧
    (run pinEnv pinGrammar 0 (textDQ s2)).cnt = 576 + 20 * 5 ∧
    (run pinEnv pinGrammar 0 (textDQ s3)).cnt = 576 + 20 * 25 ∧
    (run pinEnv pinGrammar 0 (textDQ [])).cnt = 420 ∧
    (run pinEnv pinGrammar 0 (textBQ s1)).cnt = 540 + 20 * 7 ∧
    (run pinEnv pinGrammar 0 (textBQ [])).cnt = 540 := by
  decide +kernel

/-- (A) applies to `a"b\c é` … -/
example : ∃ ev, createEvaluator pinEnv pinGrammar (textDQ s1) [] = .ok ev ∧
    ∀ re : RegexOracle,
      ev.evaluate re (datumIface s1) = .val true ∧ ev.evaluate re (datumStr s1) = .val true :=
  quoted_literal_true s1 (by decide) (by decide)

/-- … to a string that is not valid UTF-8 … -/
example : ∃ ev, createEvaluator pinEnv pinGrammar (textDQ s2) [] = .ok ev ∧
    ∀ re : RegexOracle,
      ev.evaluate re (datumIface s2) = .val true ∧ ev.evaluate re (datumStr s2) = .val true :=
  quoted_literal_true s2 (by decide) (by decide)

/-- … to control bytes, invalid sequences and non-printable runes … -/
example : ∃ ev, createEvaluator pinEnv pinGrammar (textDQ s3) [] = .ok ev ∧
    ∀ re : RegexOracle,
      ev.evaluate re (datumIface s3) = .val true ∧ ev.evaluate re (datumStr s3) = .val true :=
  quoted_literal_true s3 (by decide) (by decide)

/-- … and to the empty string. -/
example : ∃ ev, createEvaluator pinEnv pinGrammar (textDQ []) [] = .ok ev ∧
    ∀ re : RegexOracle,
      ev.evaluate re (datumIface []) = .val true ∧ ev.evaluate re (datumStr []) = .val true :=
  quoted_literal_true [] (by decide) (by decide)

/-- (C): `X == "\xffa"` is false of `X = "\xff"`, of `X = "a"`, of `X = "�a"`. -/
example : ∃ ev, createEvaluator pinEnv pinGrammar (textDQ s2) [] = .ok ev ∧
    ∀ re : RegexOracle, ev.evaluate re (datumIface [0xFF]) = .val false ∧
      ev.evaluate re (datumStr [0x61]) = .val false ∧
      ev.evaluate re (datumIface [0xEF, 0xBF, 0xBD, 0x61]) = .val false := by
  obtain ⟨ev, hev, he⟩ := quoted_literal_false s2 (by decide) (by decide)
  exact ⟨ev, hev, fun re => ⟨(he re _ (by decide)).1, (he re _ (by decide)).2,
    (he re _ (by decide)).1⟩⟩

/-- `/usr/bin` -/
def s4 : GoString := [0x2F, 0x75, 0x73, 0x72, 0x2F, 0x62, 0x69, 0x6E]

/-- (B) applies to ``X == `/usr/bin` `` (a leading `/` is fine between backquotes) … -/
example : ∃ ev, createEvaluator pinEnv pinGrammar (textBQ s4) [] = .ok ev ∧
    ∀ re : RegexOracle,
      ev.evaluate re (datumIface s4) = .val true ∧ ev.evaluate re (datumStr s4) = .val true :=
  backquoted_literal_true s4 (by decide +kernel) (by decide) (by decide)

/-- … to ``X == `` `` … -/
example : ∃ ev, createEvaluator pinEnv pinGrammar (textBQ []) [] = .ok ev ∧
    ∀ re : RegexOracle,
      ev.evaluate re (datumIface []) = .val true ∧ ev.evaluate re (datumStr []) = .val true :=
  backquoted_literal_true [] (by decide +kernel) (by decide) (by decide)

/-- … and to ``X == `é"\` `` (no escapes between backquotes). -/
example : ∃ ev, createEvaluator pinEnv pinGrammar (textBQ [0xC3, 0xA9, 0x22, 0x5C]) [] = .ok ev ∧
    ∀ re : RegexOracle,
      ev.evaluate re (datumIface [0xC3, 0xA9, 0x22, 0x5C]) = .val true ∧
      ev.evaluate re (datumStr [0xC3, 0xA9, 0x22, 0x5C]) = .val true :=
  backquoted_literal_true _ (by decide +kernel) (by decide) (by decide)

/-- The `_of_fits` form, its hypothesis discharged by running the engine. -/
example : ∃ ev, createEvaluator pinEnv pinGrammar (textDQ s1) [] = .ok ev ∧
    ∀ (re : RegexOracle) (t : GoString), ev.evaluate re (datumIface t) = .val (s1 == t) ∧
      ev.evaluate re (datumStr t) = .val (s1 == t) :=
  quoted_literal_decides_of_fits s1 (by decide) (by decide +kernel)

/-- The general form with a budget: `MaxExpressions(1000)` allows the 796 steps of
    `X == "a\x22b\\c é"`, a tag name and an unknown-value do not matter. -/
example : ∃ ev, createEvaluator pinEnv pinGrammar (textDQ s1)
      [.maxExpressions 1000, .tagName [0x6A], .unknownValue none, .hookFn .identity] = .ok ev ∧
    ∀ re : RegexOracle, ev.evaluate re (datumIface s1) = .val true := by
  obtain ⟨N, _, hN, h⟩ := quoted_literal_opts s1 (by decide)
  have hc : N = 576 + 20 * 11 := by
    have := C15.run_of_acceptsIn pinEnv pinGrammar 0 _ hN
      (le_of_cnt_lt hN (fits_quoted s1 (by decide) (by decide)))
    have := congrArg ParseOut.cnt this
    rw [step_counts.1] at this
    exact this.symm
  obtain ⟨ev, hev, _, he⟩ := h [.maxExpressions 1000, .tagName [0x6A], .unknownValue none,
    .hookFn .identity] (by subst hc; decide) (.inr (.inl rfl))
  exact ⟨ev, hev, fun re => by simpa using (he re s1).1⟩

/-- … and `MaxExpressions(795)` does not: the same text is an error. -/
example : createEvaluator pinEnv pinGrammar (textDQ s1) [.maxExpressions 795] = .err := by
  have h : (run pinEnv pinGrammar 795 (textDQ s1)).accepted = false := by decide +kernel
  have h0 : (getOpts [.maxExpressions 795]).maxExpressions = 795 := rfl
  simp [createEvaluator, h0, h]

/-- the tree of `X == "/a"`: its value is `a`, not `/a` -/
theorem leading_slash_tree :
    (run pinEnv pinGrammar 0 (textDQ [0x2F, 0x61])).errs = [] ∧
    C16.Example.valExpr (run pinEnv pinGrammar 0 (textDQ [0x2F, 0x61])).val =
      some (litExpr [0x61]) := by
  decide +kernel

/-- **Hypothesis 1 is needed** (the `"/usr/bin"` finding): the evaluator created from
    `X == "/a"` = `X == <quoteX22 "/a">` returns FALSE on `{"X": "/a"}` and TRUE on
    `{"X": "a"}`. -/
theorem leading_slash_defect :
    ∃ ev, createEvaluator pinEnv pinGrammar (textDQ [0x2F, 0x61]) [] = .ok ev ∧
      ∀ re : RegexOracle, ev.evaluate re (datumIface [0x2F, 0x61]) = .val false ∧
        ev.evaluate re (datumIface [0x61]) = .val true := by
  have hacc : (run pinEnv pinGrammar 0 (textDQ [0x2F, 0x61])).accepted = true := by
    simp [ParseOut.accepted, leading_slash_tree.1]
  have hv := leading_slash_tree.2
  have h0 : (getOpts []).maxExpressions = 0 := rfl
  generalize hval : (run pinEnv pinGrammar 0 (textDQ [0x2F, 0x61])).val = v at hv
  cases v <;> simp [C16.Example.valExpr] at hv
  subst hv
  refine ⟨_, by simp [createEvaluator, h0, hacc, hval]; rfl, fun re => ?_⟩
  have h1 := (evaluate_litExpr re [0x61] [0x2F, 0x61] (getOpts []).tagName .off (.inl rfl) none).1
  have h2 := (evaluate_litExpr re [0x61] [0x61] (getOpts []).tagName .off (.inl rfl) none).1
  exact ⟨h1.trans (by decide), h2.trans (by decide)⟩

end Example

end Bexpr.Props.C16Eval

#print axioms Bexpr.Props.C16Eval.datum_wf
#print axioms Bexpr.Props.C16Eval.evaluate_litExpr
#print axioms Bexpr.Props.C16Eval.empty_run
#print axioms Bexpr.Props.C16Eval.empty_steps
#print axioms Bexpr.Props.C16Eval.quoted_literal_steps
#print axioms Bexpr.Props.C16Eval.backquoted_literal_steps
#print axioms Bexpr.Props.C16Eval.quoted_literal_accepts
#print axioms Bexpr.Props.C16Eval.backquoted_literal_accepts
#print axioms Bexpr.Props.C16Eval.quoted_literal_engine
#print axioms Bexpr.Props.C16Eval.backquoted_literal_engine
#print axioms Bexpr.Props.C16Eval.endToEnd_of_acceptsIn
#print axioms Bexpr.Props.C16Eval.quoted_literal_opts
#print axioms Bexpr.Props.C16Eval.backquoted_literal_opts
#print axioms Bexpr.Props.C16Eval.fits_quoted
#print axioms Bexpr.Props.C16Eval.fits_backquoted
#print axioms Bexpr.Props.C16Eval.fits_necessary
#print axioms Bexpr.Props.C16Eval.quoted_literal_decides_of_fits
#print axioms Bexpr.Props.C16Eval.backquoted_literal_decides_of_fits
#print axioms Bexpr.Props.C16Eval.quoted_literal_decides
#print axioms Bexpr.Props.C16Eval.quoted_literal_true
#print axioms Bexpr.Props.C16Eval.quoted_literal_false
#print axioms Bexpr.Props.C16Eval.backquoted_literal_decides
#print axioms Bexpr.Props.C16Eval.backquoted_literal_true
#print axioms Bexpr.Props.C16Eval.backquoted_literal_false
#print axioms Bexpr.Props.C16Eval.Example.texts
#print axioms Bexpr.Props.C16Eval.Example.step_counts
#print axioms Bexpr.Props.C16Eval.Example.leading_slash_tree
#print axioms Bexpr.Props.C16Eval.Example.leading_slash_defect
