/-
  Property C07 (selector spellings), END TO END:

    "A path spelled `a.b.0`, `a["b"]["0"]` (or with backticks) or `"/a/b/0"` selects the same
     element …"

  `Props/C07.lean` proves the statement for the grammar (`Accepts`, declarative PEG semantics)
  and for the trees (`Eval.evaluate`).  Here it is stated for the real entry points:
  `createEvaluator pinEnv pinGrammar text opts` (= `bexpr.CreateEvaluator`: folds the options,
  runs the engine `Peg.run` with their budget, type-asserts the result, stores the options),
  `Evaluator.evaluate` (= `(*Evaluator).Evaluate`), `createFilter` / `execute`
  (= `bexpr.CreateFilter` / `(*Filter).Execute`).

  Two whole renderings `ρ₁ ρ₂ : Top` (concrete syntax, `Proofs/RoundTripExpr.lean`), well formed,
  whose trees differ only in the selector TYPE fields (`eraseTy ρ₁.ast = eraseTy ρ₂.ast`: they
  differ in how selectors are spelled — dotted / bracketed / JSON pointer — and in blanks,
  parentheses, literal styles).

  PROVED
   (A) `spellings_same_outcome_created` — there are step counts `N₁ N₂` (the sizes of the two
       derivations = the numbers of parser steps, unique by `C15.acceptsIn_unique`) such that for
       EVERY option list whose budget allows both (`Nᵢ ≤ effectiveMax (getOpts opts).maxExpressions`;
       any tag name, any hook, any unknown-value): `CreateEvaluator` returns evaluators `ev₁`,
       `ev₂` for the two texts, they hold the trees `norm ρᵢ.ast`, and
       `ev₁.evaluate re d = ev₂.evaluate re d` for every regexp engine and EVERY datum (well formed
       or not; value, error, panic alike).
       `spellings_same_outcome_created_fits` — the same with the budget hypothesis stated on the
       engine (`FitsIn n text`: the run with budget `n` did not stop at the limit),
       `spellings_same_outcome_created_default` — default options, hypothesis `Fits` of
       `Props/C16Eval.lean` (necessary: `C16Eval.fits_necessary`).
       `spellings_same_outcome_of_created` — NO budget hypothesis: whenever `CreateEvaluator`
       returns evaluators for both texts — even under two DIFFERENT option lists, as long as tag
       name, hook and unknown-value agree (budgets may differ) — they agree on every datum.
       `create_rendering` — what `CreateEvaluator` does on a well-formed rendering, for every
       option list: the evaluator with the tree `norm ρ.ast` if `N ≤` budget, the error if not;
       never the type-assertion panic.
   (B) `spellings_same_outcome_filter` — `CreateFilter` on the two texts (they are non-empty:
       `rendering_nonempty`) returns filters whose `Execute` results agree on every input (kept
       elements, first error, panic alike); `spellings_same_outcome_of_filters` is the form
       without budget hypothesis.
   (C) `Example`: `a.b.0 == 1`, `a["b"][ `0` ] == 1`, `"/a/b/0" == 1` — the three evaluators
       exist (default options), agree on every datum, and return `true`, no error, on
       `{"a": {"b": [1]}}` (as `json.Unmarshal` builds it: `map[string]interface{}`,
       `[]interface{}`, `float64(1)`; and with `int(1)`; `false` on `{"a": {"b": [2]}}`):
       `three_spellings_agree`, `three_spellings_agree_opts` (budget 836, a hook that replaces
       every value), `three_spellings_true`; `end_to_end_kernel` is one instance computed by the
       kernel from the bytes (parse, create, evaluate); `steps`: the three parses take 668, 836
       and 552 steps; `budget_needed`: with `MaxExpressions(835)` the bracketed spelling is the
       max-expressions error while the other two are accepted.

  HYPOTHESES
   * `ρᵢ.WF`: the renderings covered by the round-trip theorem (RESTRICTIONS listed in
     `Props/C07.lean` and `Props/C16.lean`).
   * the budget (`Nᵢ ≤ effectiveMax …` / `FitsIn` / `Fits`): the model of pigeon's `newParser` turns
     the budget 0 into `math.MaxUint64`, so SOME bound is needed also for the default options
     (see the header of `Props/C16Eval.lean`); the `_of_created` forms have none.
   * NO restriction on the hook, the tag name or the unknown-value: both evaluators store the
     same ones and `Eval.evaluate` never reads a selector's type.
-/
import Props.C07
import Props.C16Eval
import Props.C17

namespace Bexpr.Props.C07Eval
open Bexpr Bexpr.Go Bexpr.Eval Bexpr.Peg Bexpr.Driver Bexpr.Proofs.RoundTrip
open Bexpr.Proofs.C16Eval
open Bexpr.Props.C07 (eraseTy eraseTy_norm evaluate_ignores_selector_type)
open Bexpr.Props.C16Eval (Fits)

/-! ## 0. Bookkeeping: `createEvaluator`, budgets -/

/-- the run with budget `n` did not stop at the limit (`n = 0`: `Fits` of `Props/C16Eval.lean`) -/
def FitsIn (n : Nat) (text : GoString) : Prop :=
  (run pinEnv pinGrammar n text).cnt ≤ effectiveMax n

instance (n : Nat) (text : GoString) : Decidable (FitsIn n text) := by
  unfold FitsIn; infer_instance

theorem fitsIn_zero_iff (text : GoString) : FitsIn 0 text ↔ Fits text := by
  unfold FitsIn Fits
  rw [C11.effectiveMax_zero]
  omega

/-- a derivation whose run did not stop at the limit fits the budget -/
theorem le_of_fitsIn {n : Nat} {text : GoString} {v : PVal} {N : Nat}
    (h : AcceptsIn pinEnv pinGrammar text v N) (hfit : FitsIn n text) : N ≤ effectiveMax n := by
  apply Nat.le_of_not_lt
  intro hlt
  have := (C15.run_of_acceptsIn_exceeded pinEnv pinGrammar n text h hlt).2.2
  unfold FitsIn at hfit
  omega

/-- … and conversely -/
theorem fitsIn_of_le {n : Nat} {text : GoString} {v : PVal} {N : Nat}
    (h : AcceptsIn pinEnv pinGrammar text v N) (hN : N ≤ effectiveMax n) : FitsIn n text := by
  unfold FitsIn
  rw [C15.run_of_acceptsIn pinEnv pinGrammar n text h hN]
  exact hN

/-- a derivation that does not fit the budget of the options: `CreateEvaluator` returns the
    error -/
theorem create_of_exceeded {text : GoString} {v : PVal} {N : Nat}
    (h : AcceptsIn pinEnv pinGrammar text v N) (opts : List Opt)
    (hN : effectiveMax (getOpts opts).maxExpressions < N) :
    createEvaluator pinEnv pinGrammar text opts = .err := by
  obtain ⟨_, ⟨e, he, _⟩, _⟩ := C15.run_of_acceptsIn_exceeded pinEnv pinGrammar _ text h hN
  have hacc : (run pinEnv pinGrammar (getOpts opts).maxExpressions text).accepted = false := by
    unfold ParseOut.accepted
    cases hl : (run pinEnv pinGrammar (getOpts opts).maxExpressions text).errs with
    | nil => rw [hl] at he; cases he
    | cons _ _ => rfl
  simp [createEvaluator, hacc]

/-- what a returned evaluator is: the run was accepted, its value is the tree, the fields are
    those of the folded options -/
theorem create_ok_inv {text : GoString} {opts : List Opt} {ev : Evaluator}
    (h : createEvaluator pinEnv pinGrammar text opts = .ok ev) :
    (run pinEnv pinGrammar (getOpts opts).maxExpressions text).accepted = true ∧
    (run pinEnv pinGrammar (getOpts opts).maxExpressions text).val = .expr ev.ast ∧
    ev.tagName = (getOpts opts).tagName ∧ ev.hook = (getOpts opts).hook ∧
    ev.unknown = (getOpts opts).unknown ∧ ev.expression = text := by
  simp only [createEvaluator] at h
  cases hacc : (run pinEnv pinGrammar (getOpts opts).maxExpressions text).accepted with
  | false => simp [hacc] at h
  | true =>
    simp only [hacc, Bool.not_true, Bool.false_eq_true, ↓reduceIte] at h
    cases hv : (run pinEnv pinGrammar (getOpts opts).maxExpressions text).val with
    | expr e =>
      rw [hv] at h
      simp only [CreateOut.ok.injEq] at h
      subst h
      exact ⟨rfl, rfl, rfl, rfl, rfl, rfl⟩
    | _ => rw [hv] at h; simp at h

/-- the tree of a returned evaluator is the one the grammar prescribes -/
theorem created_ast {text : GoString} {opts : List Opt} {ev : Evaluator} {e : Expr}
    (h : createEvaluator pinEnv pinGrammar text opts = .ok ev)
    (ha : Accepts pinEnv pinGrammar text (.expr e)) : ev.ast = e := by
  obtain ⟨hacc, hv, _⟩ := create_ok_inv h
  have := C15.run_accepted_sound pinEnv pinGrammar _ text hacc
  rw [hv] at this
  have := C15.accepts_unique pinEnv pinGrammar text this ha
  injection this

/-- the evaluator `CreateEvaluator` builds from the tree `e` of `text` and the options -/
def evOf (e : Expr) (opts : List Opt) (text : GoString) : Evaluator :=
  { ast := e, tagName := (getOpts opts).tagName, hook := (getOpts opts).hook,
    unknown := (getOpts opts).unknown, expression := text }

/-! ## 1. One rendering -/

/-- the derivation of a well-formed rendering, with its size -/
theorem rendering_steps (ρ : Top) (h : ρ.WF) :
    ∃ N, AcceptsIn pinEnv pinGrammar ρ.text (.expr (norm ρ.ast)) N :=
  (C15.accepts_iff_acceptsIn _ _ _ _).1 (accepts_top_norm ρ h)

/-- **`CreateEvaluator` on a well-formed rendering**, every option list: with `N` the number of
    parser steps of the text, the evaluator holding the tree `norm ρ.ast` and the option fields
    if the budget allows `N`, the error otherwise — never the type-assertion panic. -/
theorem create_rendering (ρ : Top) (h : ρ.WF) :
    ∃ N, AcceptsIn pinEnv pinGrammar ρ.text (.expr (norm ρ.ast)) N ∧
      ∀ opts : List Opt,
        (N ≤ effectiveMax (getOpts opts).maxExpressions →
          createEvaluator pinEnv pinGrammar ρ.text opts = .ok (evOf (norm ρ.ast) opts ρ.text)) ∧
        (effectiveMax (getOpts opts).maxExpressions < N →
          createEvaluator pinEnv pinGrammar ρ.text opts = .err) := by
  obtain ⟨N, hN⟩ := rendering_steps ρ h
  exact ⟨N, hN, fun opts => ⟨create_of_acceptsIn hN opts, create_of_exceeded hN opts⟩⟩

/-- the empty text is rejected -/
theorem empty_rejected : (run pinEnv pinGrammar 0 []).accepted = false := by decide +kernel

/-- a well-formed rendering is not the empty text (`CreateFilter` does not return the nil
    filter) -/
theorem rendering_nonempty (ρ : Top) (h : ρ.WF) : ρ.text.isEmpty = false := by
  cases ht : ρ.text with
  | cons _ _ => rfl
  | nil =>
    exfalso
    obtain ⟨N, hN⟩ := rendering_steps ρ h
    rw [ht] at hN
    have hcnt : (run pinEnv pinGrammar 0 []).cnt ≤ effectiveMax 0 := by decide +kernel
    have hr := C15.run_of_acceptsIn pinEnv pinGrammar 0 [] hN (le_of_fitsIn hN hcnt)
    have := empty_rejected
    rw [hr] at this
    simp [ParseOut.accepted] at this

/-! ## 2. Evaluators that differ in selector types only -/

/-- two evaluators with the same option fields whose trees differ only in selector types have
    the same outcome — value, error or panic — on every datum, with every regexp engine -/
theorem evaluators_agree (ev₁ ev₂ : Evaluator) (ha : eraseTy ev₁.ast = eraseTy ev₂.ast)
    (ht : ev₁.tagName = ev₂.tagName) (hh : ev₁.hook = ev₂.hook) (hu : ev₁.unknown = ev₂.unknown)
    (re : RegexOracle) (d : Any) : ev₁.evaluate re d = ev₂.evaluate re d := by
  unfold Evaluator.evaluate
  rw [ht, hh, hu]
  exact evaluate_ignores_selector_type re _ _ ha _ d

theorem eraseTy_norm_same {e₁ e₂ : Expr} (h : eraseTy e₁ = eraseTy e₂) :
    eraseTy (norm e₁) = eraseTy (norm e₂) := by
  rw [eraseTy_norm, eraseTy_norm, h]

/-! ## 3. (A) `CreateEvaluator` -/

/-- **C07 at creation level.**  Two well-formed renderings whose trees differ only in the
    selector types: with `N₁`, `N₂` the numbers of parser steps of the two texts, EVERY option
    list whose budget allows both creates two evaluators, and these have the same outcome on
    every datum with every regexp engine.  No hypothesis on hook, tag name, unknown-value. -/
theorem spellings_same_outcome_created (ρ₁ ρ₂ : Top) (h₁ : ρ₁.WF) (h₂ : ρ₂.WF)
    (hsame : eraseTy ρ₁.ast = eraseTy ρ₂.ast) :
    ∃ N₁ N₂, AcceptsIn pinEnv pinGrammar ρ₁.text (.expr (norm ρ₁.ast)) N₁ ∧
      AcceptsIn pinEnv pinGrammar ρ₂.text (.expr (norm ρ₂.ast)) N₂ ∧
      ∀ opts : List Opt, N₁ ≤ effectiveMax (getOpts opts).maxExpressions →
        N₂ ≤ effectiveMax (getOpts opts).maxExpressions →
        ∃ ev₁ ev₂, createEvaluator pinEnv pinGrammar ρ₁.text opts = .ok ev₁ ∧
          createEvaluator pinEnv pinGrammar ρ₂.text opts = .ok ev₂ ∧
          ev₁.ast = norm ρ₁.ast ∧ ev₂.ast = norm ρ₂.ast ∧
          ∀ (re : RegexOracle) (d : Any), ev₁.evaluate re d = ev₂.evaluate re d := by
  obtain ⟨N₁, hN₁⟩ := rendering_steps ρ₁ h₁
  obtain ⟨N₂, hN₂⟩ := rendering_steps ρ₂ h₂
  refine ⟨N₁, N₂, hN₁, hN₂, fun opts hb₁ hb₂ => ⟨evOf (norm ρ₁.ast) opts ρ₁.text,
    evOf (norm ρ₂.ast) opts ρ₂.text, create_of_acceptsIn hN₁ opts hb₁,
    create_of_acceptsIn hN₂ opts hb₂, rfl, rfl, fun re d => ?_⟩⟩
  exact evaluators_agree (evOf (norm ρ₁.ast) opts ρ₁.text) (evOf (norm ρ₂.ast) opts ρ₂.text)
    (eraseTy_norm_same hsame) rfl rfl rfl re d

/-- **Without budget hypothesis.**  Whenever `CreateEvaluator` returns evaluators for the two
    texts — under option lists that agree on tag name, hook and unknown-value (in particular
    under the same list; the budgets may differ) — these have the same outcome on every datum. -/
theorem spellings_same_outcome_of_created (ρ₁ ρ₂ : Top) (h₁ : ρ₁.WF) (h₂ : ρ₂.WF)
    (hsame : eraseTy ρ₁.ast = eraseTy ρ₂.ast) (opts₁ opts₂ : List Opt)
    (ht : (getOpts opts₁).tagName = (getOpts opts₂).tagName)
    (hh : (getOpts opts₁).hook = (getOpts opts₂).hook)
    (hu : (getOpts opts₁).unknown = (getOpts opts₂).unknown) (ev₁ ev₂ : Evaluator)
    (hc₁ : createEvaluator pinEnv pinGrammar ρ₁.text opts₁ = .ok ev₁)
    (hc₂ : createEvaluator pinEnv pinGrammar ρ₂.text opts₂ = .ok ev₂) :
    ev₁.ast = norm ρ₁.ast ∧ ev₂.ast = norm ρ₂.ast ∧
      ∀ (re : RegexOracle) (d : Any), ev₁.evaluate re d = ev₂.evaluate re d := by
  have a₁ := created_ast hc₁ (accepts_top_norm ρ₁ h₁)
  have a₂ := created_ast hc₂ (accepts_top_norm ρ₂ h₂)
  obtain ⟨_, _, t₁, k₁, u₁, _⟩ := create_ok_inv hc₁
  obtain ⟨_, _, t₂, k₂, u₂, _⟩ := create_ok_inv hc₂
  refine ⟨a₁, a₂, fun re d => evaluators_agree _ _ ?_ ?_ ?_ ?_ re d⟩
  · rw [a₁, a₂]; exact eraseTy_norm_same hsame
  · rw [t₁, t₂, ht]
  · rw [k₁, k₂, hh]
  · rw [u₁, u₂, hu]

/-- the same option list on both sides -/
theorem spellings_same_outcome_of_created_same (ρ₁ ρ₂ : Top) (h₁ : ρ₁.WF) (h₂ : ρ₂.WF)
    (hsame : eraseTy ρ₁.ast = eraseTy ρ₂.ast) (opts : List Opt) (ev₁ ev₂ : Evaluator)
    (hc₁ : createEvaluator pinEnv pinGrammar ρ₁.text opts = .ok ev₁)
    (hc₂ : createEvaluator pinEnv pinGrammar ρ₂.text opts = .ok ev₂)
    (re : RegexOracle) (d : Any) : ev₁.evaluate re d = ev₂.evaluate re d :=
  (spellings_same_outcome_of_created ρ₁ ρ₂ h₁ h₂ hsame opts opts rfl rfl rfl ev₁ ev₂ hc₁
    hc₂).2.2 re d

/-- (A) with the budget hypothesis on the engine: the runs with the budget of the options did
    not stop at the limit. -/
theorem spellings_same_outcome_created_fits (ρ₁ ρ₂ : Top) (h₁ : ρ₁.WF) (h₂ : ρ₂.WF)
    (hsame : eraseTy ρ₁.ast = eraseTy ρ₂.ast) (opts : List Opt)
    (hf₁ : FitsIn (getOpts opts).maxExpressions ρ₁.text)
    (hf₂ : FitsIn (getOpts opts).maxExpressions ρ₂.text) :
    ∃ ev₁ ev₂, createEvaluator pinEnv pinGrammar ρ₁.text opts = .ok ev₁ ∧
      createEvaluator pinEnv pinGrammar ρ₂.text opts = .ok ev₂ ∧
      ∀ (re : RegexOracle) (d : Any), ev₁.evaluate re d = ev₂.evaluate re d := by
  obtain ⟨N₁, N₂, hN₁, hN₂, h⟩ := spellings_same_outcome_created ρ₁ ρ₂ h₁ h₂ hsame
  obtain ⟨ev₁, ev₂, c₁, c₂, _, _, he⟩ := h opts (le_of_fitsIn hN₁ hf₁) (le_of_fitsIn hN₂ hf₂)
  exact ⟨ev₁, ev₂, c₁, c₂, he⟩

/-- (A), default options, under the weakest budget hypothesis (`C16Eval.fits_necessary`). -/
theorem spellings_same_outcome_created_default (ρ₁ ρ₂ : Top) (h₁ : ρ₁.WF) (h₂ : ρ₂.WF)
    (hsame : eraseTy ρ₁.ast = eraseTy ρ₂.ast) (hf₁ : Fits ρ₁.text) (hf₂ : Fits ρ₂.text) :
    ∃ ev₁ ev₂, createEvaluator pinEnv pinGrammar ρ₁.text [] = .ok ev₁ ∧
      createEvaluator pinEnv pinGrammar ρ₂.text [] = .ok ev₂ ∧
      ∀ (re : RegexOracle) (d : Any), ev₁.evaluate re d = ev₂.evaluate re d :=
  spellings_same_outcome_created_fits ρ₁ ρ₂ h₁ h₂ hsame []
    ((fitsIn_zero_iff _).2 hf₁) ((fitsIn_zero_iff _).2 hf₂)

/-! ## 4. (B) `CreateFilter` / `Execute` -/

/-- `Execute` reads the evaluator through `Evaluate` only -/
theorem execute_congr (ev₁ ev₂ : Evaluator) (re : RegexOracle)
    (h : ∀ d, ev₁.evaluate re d = ev₂.evaluate re d) (data : Any) :
    execute re (some ev₁) data = execute re (some ev₂) data := by
  have hf : ev₁.evaluate re = ev₂.evaluate re := funext h
  simp only [execute, hf]

theorem createFilter_ok_inv {text : GoString} {ev : Evaluator}
    (h : createFilter pinEnv pinGrammar text = .ok ev) :
    createEvaluator pinEnv pinGrammar text [] = .ok ev := by
  unfold createFilter at h
  split at h
  · cases h
  · cases hc : createEvaluator pinEnv pinGrammar text [] with
    | ok ev' => rw [hc] at h; simp only [FilterCreate.ok.injEq] at h; rw [h]
    | err => rw [hc] at h; cases h
    | panic => rw [hc] at h; cases h

/-- **C07 for filters.**  `CreateFilter` on two well-formed renderings whose trees differ only
    in the selector types (and whose unlimited parses stay below the `2^64` limit) returns two
    filters — not the nil filter, the texts are non-empty — and `Execute` gives the same result
    (kept elements in the same order, error, panic) on every input. -/
theorem spellings_same_outcome_filter (ρ₁ ρ₂ : Top) (h₁ : ρ₁.WF) (h₂ : ρ₂.WF)
    (hsame : eraseTy ρ₁.ast = eraseTy ρ₂.ast) (hf₁ : Fits ρ₁.text) (hf₂ : Fits ρ₂.text) :
    ∃ ev₁ ev₂, createFilter pinEnv pinGrammar ρ₁.text = .ok ev₁ ∧
      createFilter pinEnv pinGrammar ρ₂.text = .ok ev₂ ∧
      ∀ (re : RegexOracle) (data : Any),
        execute re (some ev₁) data = execute re (some ev₂) data := by
  obtain ⟨ev₁, ev₂, c₁, c₂, he⟩ :=
    spellings_same_outcome_created_default ρ₁ ρ₂ h₁ h₂ hsame hf₁ hf₂
  refine ⟨ev₁, ev₂, ?_, ?_, fun re data => execute_congr ev₁ ev₂ re (he re) data⟩
  · simp [createFilter, rendering_nonempty ρ₁ h₁, c₁]
  · simp [createFilter, rendering_nonempty ρ₂ h₂, c₂]

/-- the form without budget hypothesis: whenever `CreateFilter` returns filters for both texts,
    `Execute` gives the same result on every input -/
theorem spellings_same_outcome_of_filters (ρ₁ ρ₂ : Top) (h₁ : ρ₁.WF) (h₂ : ρ₂.WF)
    (hsame : eraseTy ρ₁.ast = eraseTy ρ₂.ast) (ev₁ ev₂ : Evaluator)
    (hc₁ : createFilter pinEnv pinGrammar ρ₁.text = .ok ev₁)
    (hc₂ : createFilter pinEnv pinGrammar ρ₂.text = .ok ev₂) (re : RegexOracle) (data : Any) :
    execute re (some ev₁) data = execute re (some ev₂) data :=
  execute_congr ev₁ ev₂ re
    (spellings_same_outcome_of_created_same ρ₁ ρ₂ h₁ h₂ hsame [] ev₁ ev₂
      (createFilter_ok_inv hc₁) (createFilter_ok_inv hc₂) re) data

/-- `CreateFilter` on a well-formed rendering never returns the nil filter and never panics -/
theorem createFilter_rendering (ρ : Top) (h : ρ.WF) :
    (Fits ρ.text → ∃ ev, createFilter pinEnv pinGrammar ρ.text = .ok ev ∧ ev.ast = norm ρ.ast) ∧
    (¬ Fits ρ.text → createFilter pinEnv pinGrammar ρ.text = .err) := by
  obtain ⟨N, hN, hc⟩ := create_rendering ρ h
  constructor
  · intro hf
    refine ⟨evOf (norm ρ.ast) [] ρ.text, ?_, rfl⟩
    simp only [createFilter, rendering_nonempty ρ h, Bool.false_eq_true, ↓reduceIte,
      (hc []).1 (le_of_cnt_lt hN hf)]
  · intro hf
    have hlt : effectiveMax (getOpts []).maxExpressions < N := by
      apply Nat.lt_of_not_le
      intro hle
      exact hf ((fitsIn_zero_iff _).1 (fitsIn_of_le hN hle))
    simp only [createFilter, rendering_nonempty ρ h, Bool.false_eq_true, ↓reduceIte,
      (hc []).2 hlt]

/-! ## 5. (C) Non-vacuity: `a.b.0 == 1`, `a["b"][ `0` ] == 1`, `"/a/b/0" == 1` -/

namespace Example
open Bexpr.Props.C07.Example

/-- the number literal `1` -/
def one : NumLit := ⟨false, [49], []⟩

/-- `<selector> == 1` -/
def top (x : SelX) : Top := ⟨[], .orUp (.andUp (.leaf (.opValue x (.eq [32] [32]) (.num one)))), []⟩

def ρDot : Top := top (.bexpr dotted)
def ρBr : Top := top (.bexpr bracketed)
def ρPtr : Top := top (.ptr path)

/-- the three texts -/
theorem texts : ρDot.text = asc "a.b.0 == 1" ∧ ρBr.text = asc "a[\"b\"][ `0` ] == 1" ∧
    ρPtr.text = asc "\"/a/b/0\" == 1" := by decide +kernel

/-- the same as byte lists -/
def tDot : GoString := [97, 46, 98, 46, 48, 32, 61, 61, 32, 49]
def tBr : GoString := [97, 91, 34, 98, 34, 93, 91, 32, 96, 48, 96, 32, 93, 32, 61, 61, 32, 49]
def tPtr : GoString := [34, 47, 97, 47, 98, 47, 48, 34, 32, 61, 61, 32, 49]

theorem texts_bytes : ρDot.text = tDot ∧ ρBr.text = tBr ∧ ρPtr.text = tPtr := by decide +kernel

theorem one_WF : one.WF := ⟨.inr ⟨49, [], rfl, by decide, AllIn.nil⟩, AllIn.nil⟩

theorem top_WF (x : SelX) (hx : x.WF) (hk : (MatchSp.opValue x (.eq [32] [32]) (.num one)).notKwOK) :
    (top x).WF :=
  ⟨AllIn.nil, ⟨⟨hx, ⟨by decide, by decide⟩, one_WF⟩, hk⟩, AllIn.nil⟩

theorem ρDot_WF : ρDot.WF := by
  refine top_WF _ dotted_WF ?_
  intro σ hσ
  simp only [MatchSp.lead, Option.some.injEq] at hσ
  subst hσ
  decide

theorem ρBr_WF : ρBr.WF := by
  refine top_WF _ bracketed_WF ?_
  intro σ hσ
  simp only [MatchSp.lead, Option.some.injEq] at hσ
  subst hσ
  decide

theorem ρPtr_WF : ρPtr.WF := by
  refine top_WF _ pointer_WF ?_
  intro σ hσ
  simp [MatchSp.lead] at hσ

/-- the three trees: the same path `[a, b, 0]`, operator `==`, value `1`; the pointer spelling
    differs in the selector type -/
theorem asts :
    norm ρDot.ast = .match_ ⟨.bexpr, path⟩ .equal (some [49]) ∧
    norm ρBr.ast = .match_ ⟨.bexpr, path⟩ .equal (some [49]) ∧
    norm ρPtr.ast = .match_ ⟨.jsonPointer, path⟩ .equal (some [49]) := ⟨rfl, rfl, rfl⟩

theorem same : eraseTy ρDot.ast = eraseTy ρBr.ast ∧ eraseTy ρDot.ast = eraseTy ρPtr.ast :=
  ⟨rfl, rfl⟩

/-- the step counts, by running the engine -/
theorem step_counts :
    (run pinEnv pinGrammar 0 tDot).cnt = 668 ∧ (run pinEnv pinGrammar 0 tBr).cnt = 836 ∧
    (run pinEnv pinGrammar 0 tPtr).cnt = 552 := by
  decide +kernel

/-- a derivation whose unlimited run stays below the limit has the size the engine counts -/
theorem steps_eq_cnt {text : GoString} {v : PVal} {N : Nat}
    (h : AcceptsIn pinEnv pinGrammar text v N) (hfit : Fits text) :
    N = (run pinEnv pinGrammar 0 text).cnt := by
  rw [C15.run_of_acceptsIn pinEnv pinGrammar 0 text h (le_of_cnt_lt h hfit)]

theorem fits : Fits ρDot.text ∧ Fits ρBr.text ∧ Fits ρPtr.text := by
  rw [texts_bytes.1, texts_bytes.2.1, texts_bytes.2.2]
  unfold Fits
  rw [step_counts.1, step_counts.2.1, step_counts.2.2]
  decide

/-- the derivations of the three texts and their sizes: 668, 836 and 552 parser steps -/
theorem steps :
    AcceptsIn pinEnv pinGrammar tDot (.expr (.match_ ⟨.bexpr, path⟩ .equal (some [49]))) 668 ∧
    AcceptsIn pinEnv pinGrammar tBr (.expr (.match_ ⟨.bexpr, path⟩ .equal (some [49]))) 836 ∧
    AcceptsIn pinEnv pinGrammar tPtr (.expr (.match_ ⟨.jsonPointer, path⟩ .equal (some [49])))
      552 := by
  obtain ⟨N₁, h₁⟩ := rendering_steps ρDot ρDot_WF
  obtain ⟨N₂, h₂⟩ := rendering_steps ρBr ρBr_WF
  obtain ⟨N₃, h₃⟩ := rendering_steps ρPtr ρPtr_WF
  have e₁ := steps_eq_cnt h₁ fits.1
  have e₂ := steps_eq_cnt h₂ fits.2.1
  have e₃ := steps_eq_cnt h₃ fits.2.2
  rw [texts_bytes.1] at h₁ e₁
  rw [texts_bytes.2.1] at h₂ e₂
  rw [texts_bytes.2.2] at h₃ e₃
  rw [step_counts.1] at e₁
  rw [step_counts.2.1] at e₂
  rw [step_counts.2.2] at e₃
  subst e₁ e₂ e₃
  exact ⟨h₁, h₂, h₃⟩

/-- **The three spellings, default options**: `CreateEvaluator("a.b.0 == 1")`,
    ``CreateEvaluator("a[\"b\"][ `0` ] == 1")`` and `CreateEvaluator("\"/a/b/0\" == 1")` return
    evaluators, and the three have the same outcome on every datum with every regexp engine. -/
theorem three_spellings_agree :
    ∃ ev₁ ev₂ ev₃, createEvaluator pinEnv pinGrammar tDot [] = .ok ev₁ ∧
      createEvaluator pinEnv pinGrammar tBr [] = .ok ev₂ ∧
      createEvaluator pinEnv pinGrammar tPtr [] = .ok ev₃ ∧
      ∀ (re : RegexOracle) (d : Any),
        ev₁.evaluate re d = ev₂.evaluate re d ∧ ev₁.evaluate re d = ev₃.evaluate re d := by
  obtain ⟨ev₁, ev₂, c₁, c₂, h₁₂⟩ :=
    spellings_same_outcome_created_default ρDot ρBr ρDot_WF ρBr_WF same.1 fits.1 fits.2.1
  obtain ⟨ev₁', ev₃, c₁', c₃, h₁₃⟩ :=
    spellings_same_outcome_created_default ρDot ρPtr ρDot_WF ρPtr_WF same.2 fits.1 fits.2.2
  rw [c₁] at c₁'
  injection c₁' with c₁'
  subst c₁'
  rw [texts_bytes.1] at c₁
  rw [texts_bytes.2.1] at c₂
  rw [texts_bytes.2.2] at c₃
  exact ⟨ev₁, ev₂, ev₃, c₁, c₂, c₃, fun re d => ⟨h₁₂ re d, h₁₃ re d⟩⟩

/-- the same under options: a budget of 836 expressions (exactly what the longest of the three
    texts needs), another tag name, a hook that REPLACES every value (`const42`) and an
    unknown-value — no restriction on the hook -/
def someOpts : List Opt :=
  [.maxExpressions 836, .tagName [0x6A], .hookFn .const42, .unknownValue none]

theorem three_spellings_agree_opts :
    ∃ ev₁ ev₂ ev₃, createEvaluator pinEnv pinGrammar tDot someOpts = .ok ev₁ ∧
      createEvaluator pinEnv pinGrammar tBr someOpts = .ok ev₂ ∧
      createEvaluator pinEnv pinGrammar tPtr someOpts = .ok ev₃ ∧
      ∀ (re : RegexOracle) (d : Any),
        ev₁.evaluate re d = ev₂.evaluate re d ∧ ev₁.evaluate re d = ev₃.evaluate re d := by
  have hb : (getOpts someOpts).maxExpressions = 836 := rfl
  have c₁ := create_of_acceptsIn steps.1 someOpts (by rw [hb]; decide)
  have c₂ := create_of_acceptsIn steps.2.1 someOpts (by rw [hb]; decide)
  have c₃ := create_of_acceptsIn steps.2.2 someOpts (by rw [hb]; decide)
  refine ⟨_, _, _, c₁, c₂, c₃, fun re d => ⟨?_, ?_⟩⟩
  · exact evaluators_agree _ _ rfl rfl rfl rfl re d
  · exact evaluators_agree _ _ rfl rfl rfl rfl re d

/-- **The budget hypothesis is needed**: with `MaxExpressions(835)` the dotted and the pointer
    spelling are accepted, the bracketed one (836 steps) is the max-expressions error. -/
theorem budget_needed :
    (∃ ev, createEvaluator pinEnv pinGrammar tDot [.maxExpressions 835] = .ok ev) ∧
    (∃ ev, createEvaluator pinEnv pinGrammar tPtr [.maxExpressions 835] = .ok ev) ∧
    createEvaluator pinEnv pinGrammar tBr [.maxExpressions 835] = .err := by
  have hb : (getOpts [.maxExpressions 835]).maxExpressions = 835 := rfl
  exact ⟨⟨_, create_of_acceptsIn steps.1 _ (by rw [hb]; decide)⟩,
    ⟨_, create_of_acceptsIn steps.2.2 _ (by rw [hb]; decide)⟩,
    create_of_exceeded steps.2.1 _ (by rw [hb]; decide)⟩

/-- `{"a": {"b": [1]}}` as `json.Unmarshal` into an `interface{}` builds it:
    `map[string]interface{}{"a": map[string]interface{}{"b": []interface{}{float64(1)}}}` -/
def datum : Any :=
  some (.map "" GoType.stringT .iface false [(.str "" [97], .iface (some
    (.map "" GoType.stringT .iface false [(.str "" [98], .iface (some
      (.slice "" .iface false [.iface (some (.float .float64 "" 0x3FF0000000000000))])))])))])

/-- the same with the Go literal's `int`: `[]interface{}{1}` -/
def datumInt : Any :=
  some (.map "" GoType.stringT .iface false [(.str "" [97], .iface (some
    (.map "" GoType.stringT .iface false [(.str "" [98], .iface (some
      (.slice "" .iface false [.iface (some (.int .int "" 1))])))])))])

/-- `{"a": {"b": [2]}}` -/
def datum2 : Any :=
  some (.map "" GoType.stringT .iface false [(.str "" [97], .iface (some
    (.map "" GoType.stringT .iface false [(.str "" [98], .iface (some
      (.slice "" .iface false [.iface (some (.float .float64 "" 0x4000000000000000))])))])))])

theorem datum_wf : Any.wf datum = true ∧ Any.wf datumInt = true ∧ Any.wf datum2 = true := by
  decide +kernel

/-- the tree `[a, b, 0] == 1` (either selector type), on the three data, under the default
    option fields, by evaluation -/
theorem tree_on_datum (re : RegexOracle) (ty : SelType) (tag : GoString) :
    Eval.evaluate re (.match_ ⟨ty, path⟩ .equal (some [49]))
      { tagName := tag, hook := .off, unknown := none, locals := [] } datum = .val true ∧
    Eval.evaluate re (.match_ ⟨ty, path⟩ .equal (some [49]))
      { tagName := tag, hook := .off, unknown := none, locals := [] } datumInt = .val true ∧
    Eval.evaluate re (.match_ ⟨ty, path⟩ .equal (some [49]))
      { tagName := tag, hook := .off, unknown := none, locals := [] } datum2 = .val false := by
  refine ⟨?_, ?_, ?_⟩ <;> rfl

/-- **All three return `true` on `{"a": {"b": [1]}}`** (and on the `int` variant; `false` on
    `{"a": {"b": [2]}}`): the evaluators `CreateEvaluator` returns for the three texts, default
    options, every regexp engine — no error. -/
theorem three_spellings_true :
    ∃ ev₁ ev₂ ev₃, createEvaluator pinEnv pinGrammar tDot [] = .ok ev₁ ∧
      createEvaluator pinEnv pinGrammar tBr [] = .ok ev₂ ∧
      createEvaluator pinEnv pinGrammar tPtr [] = .ok ev₃ ∧
      ∀ re : RegexOracle,
        (ev₁.evaluate re datum = .val true ∧ ev₂.evaluate re datum = .val true ∧
          ev₃.evaluate re datum = .val true) ∧
        (ev₁.evaluate re datumInt = .val true ∧ ev₂.evaluate re datumInt = .val true ∧
          ev₃.evaluate re datumInt = .val true) ∧
        (ev₁.evaluate re datum2 = .val false ∧ ev₂.evaluate re datum2 = .val false ∧
          ev₃.evaluate re datum2 = .val false) := by
  have h0 : (getOpts []).maxExpressions = 0 := rfl
  have c₁ := create_of_acceptsIn steps.1 [] (by rw [h0]; decide)
  have c₂ := create_of_acceptsIn steps.2.1 [] (by rw [h0]; decide)
  have c₃ := create_of_acceptsIn steps.2.2 [] (by rw [h0]; decide)
  refine ⟨_, _, _, c₁, c₂, c₃, fun re => ?_⟩
  have hb := tree_on_datum re .bexpr (getOpts []).tagName
  have hp := tree_on_datum re .jsonPointer (getOpts []).tagName
  exact ⟨⟨hb.1, hb.1, hp.1⟩, ⟨hb.2.1, hb.2.1, hp.2.1⟩, ⟨hb.2.2, hb.2.2, hp.2.2⟩⟩

/-- what `CreateEvaluator` + `Evaluate` return, as one value -/
def createAndEvaluate (text : GoString) (opts : List Opt) (re : RegexOracle) (d : Any) :
    Option Out :=
  match createEvaluator pinEnv pinGrammar text opts with
  | .ok ev => some (ev.evaluate re d)
  | _ => none

/-- **One instance computed by the kernel from the bytes**: parse (the engine `Peg.run` on the
    pinned grammar), create, evaluate — the three texts on `{"a": {"b": [1]}}`, default options
    (the regexp engine is not consulted by `==`; here: the one that compiles nothing). -/
theorem end_to_end_kernel :
    createAndEvaluate tDot [] (fun _ => none) datum = some (.val true) ∧
    createAndEvaluate tBr [] (fun _ => none) datum = some (.val true) ∧
    createAndEvaluate tPtr [] (fun _ => none) datum = some (.val true) := by
  decide +kernel

end Example

end Bexpr.Props.C07Eval

#print axioms Bexpr.Props.C07Eval.fitsIn_zero_iff
#print axioms Bexpr.Props.C07Eval.le_of_fitsIn
#print axioms Bexpr.Props.C07Eval.fitsIn_of_le
#print axioms Bexpr.Props.C07Eval.create_of_exceeded
#print axioms Bexpr.Props.C07Eval.create_ok_inv
#print axioms Bexpr.Props.C07Eval.created_ast
#print axioms Bexpr.Props.C07Eval.rendering_steps
#print axioms Bexpr.Props.C07Eval.create_rendering
#print axioms Bexpr.Props.C07Eval.empty_rejected
#print axioms Bexpr.Props.C07Eval.rendering_nonempty
#print axioms Bexpr.Props.C07Eval.evaluators_agree
#print axioms Bexpr.Props.C07Eval.eraseTy_norm_same
#print axioms Bexpr.Props.C07Eval.spellings_same_outcome_created
#print axioms Bexpr.Props.C07Eval.spellings_same_outcome_of_created
#print axioms Bexpr.Props.C07Eval.spellings_same_outcome_of_created_same
#print axioms Bexpr.Props.C07Eval.spellings_same_outcome_created_fits
#print axioms Bexpr.Props.C07Eval.spellings_same_outcome_created_default
#print axioms Bexpr.Props.C07Eval.execute_congr
#print axioms Bexpr.Props.C07Eval.createFilter_ok_inv
#print axioms Bexpr.Props.C07Eval.spellings_same_outcome_filter
#print axioms Bexpr.Props.C07Eval.spellings_same_outcome_of_filters
#print axioms Bexpr.Props.C07Eval.createFilter_rendering
#print axioms Bexpr.Props.C07Eval.Example.texts
#print axioms Bexpr.Props.C07Eval.Example.texts_bytes
#print axioms Bexpr.Props.C07Eval.Example.one_WF
#print axioms Bexpr.Props.C07Eval.Example.top_WF
#print axioms Bexpr.Props.C07Eval.Example.ρDot_WF
#print axioms Bexpr.Props.C07Eval.Example.ρBr_WF
#print axioms Bexpr.Props.C07Eval.Example.ρPtr_WF
#print axioms Bexpr.Props.C07Eval.Example.asts
#print axioms Bexpr.Props.C07Eval.Example.same
#print axioms Bexpr.Props.C07Eval.Example.step_counts
#print axioms Bexpr.Props.C07Eval.Example.steps_eq_cnt
#print axioms Bexpr.Props.C07Eval.Example.fits
#print axioms Bexpr.Props.C07Eval.Example.steps
#print axioms Bexpr.Props.C07Eval.Example.three_spellings_agree
#print axioms Bexpr.Props.C07Eval.Example.three_spellings_agree_opts
#print axioms Bexpr.Props.C07Eval.Example.budget_needed
#print axioms Bexpr.Props.C07Eval.Example.datum_wf
#print axioms Bexpr.Props.C07Eval.Example.tree_on_datum
#print axioms Bexpr.Props.C07Eval.Example.three_spellings_true
#print axioms Bexpr.Props.C07Eval.Example.end_to_end_kernel
