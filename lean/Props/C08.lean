/-
  C08: "Fields tagged "-" under the evaluator's tag name and unexported fields are unobservable:
  two data that differ only in the contents of such fields produce identical Evaluate outcomes
  and identical Filter selections; a selector that names such a field never resolves to its
  content."

  `HiddenEq tag strict d d'` (Proofs/HiddenRel.lean): `d` and `d'` differ only inside struct
  fields hidden under `tag` (`strict = true` additionally asks the first field of `main.Wrap`
  structs to be visible, needed for the harness' `unwrap` hook only).  The two-run theorems are
  instances of the generic theorems of Proofs/Relational.lean.
-/
import Proofs.HiddenRel

namespace Bexpr.Props.C08
open Bexpr Bexpr.Go Bexpr.Eval Bexpr.Proofs.Rel Bexpr.Proofs.HiddenRel

/-- General form: the two runs may also use options whose unknown value / bound locals differ
    inside hidden fields. -/
theorem noninterference_opts (re : RegexOracle) (e : Expr) (tag : GoString) (strict : Bool)
    (cfg : Config) (ht : cfg.tagName = tag) (hh : cfg.hook = .unwrap → strict = true)
    {o o' : Opts} {d d' : Any} (hd : AnyRel (HiddenEq tag strict) d d')
    (ho : OptsRel (HiddenEq tag strict) cfg o o') :
    evaluate re e o d = evaluate re e o' d' :=
  evaluate_rel (hiddenEq_hyps cfg ht hh) re hd e ho

/-- **C08, Evaluate**: data that differ only in hidden fields (under the evaluator's tag name)
    give the same outcome.  `OptsOk` is `True` for `strict = false`. -/
theorem noninterference (re : RegexOracle) (e : Expr) (o : Opts) (tag : GoString) (strict : Bool)
    {d d' : Any} (hd : AnyRel (HiddenEq tag strict) d d') (ht : o.tagName = tag)
    (hh : o.hook = .unwrap → strict = true) (ho : OptsOk tag strict o) :
    evaluate re e o d = evaluate re e o d' :=
  noninterference_opts re e tag strict o.cfg ht hh hd (optsRel_refl ho)

/-- every hook except `unwrap`: no side condition at all -/
theorem noninterference_plain (re : RegexOracle) (e : Expr) (o : Opts) {d d' : Any}
    (hd : AnyRel (HiddenEq o.tagName false) d d') (hh : o.hook ≠ .unwrap) :
    evaluate re e o d = evaluate re e o d' :=
  noninterference re e o o.tagName false hd rfl (fun h => absurd h hh) (optsOk_false _ o)

theorem evRel_refl (ev : Evaluator) (tag : GoString) (strict : Bool) (ht : ev.tagName = tag)
    (hu : ∀ u, ev.unknown = some u → ReflOk tag strict (anyWrapOk (tagNameOf tag) u)) :
    EvRel (HiddenEq tag strict) { tagName := tag, hook := ev.hook } ev ev where
  ast := rfl
  tagL := ht
  hookL := rfl
  tagR := ht
  hookR := rfl
  unknown := by
    cases h : ev.unknown with
    | none => exact .none
    | some u => exact .some (anyRel_refl tag strict (hu u h))

/-- **C08, Execute**: filtering two containers that differ only inside hidden fields fails
    identically, or keeps the elements / entries at the same positions (`pick m` of the two
    element / entry lists for one and the same mask `m`; map entries carry the same keys). -/
theorem filter_noninterference (re : RegexOracle) (ev : Evaluator) (tag : GoString) (strict : Bool)
    {d d' : Any} (hd : AnyRel (HiddenEq tag strict) d d') (ht : ev.tagName = tag)
    (hh : ev.hook = .unwrap → strict = true)
    (hu : ∀ u, ev.unknown = some u → ReflOk tag strict (anyWrapOk (tagNameOf tag) u)) :
    ExecRelOrd (HiddenEq tag strict) (execute re (some ev) d) (execute re (some ev) d') := by
  refine execute_rel_ordered (hiddenEq_hyps { tagName := tag, hook := ev.hook } rfl hh) re
    (evRel_refl ev tag strict ht hu) hd ?_
  intro n kt vt nl es n' kt' vt' nl' es' h1 h2
  subst h1 h2
  cases hd with
  | some h => cases h with
    | map _ _ _ _ he => exact he

/-- readable corollary: the same failure, or two results that again differ only inside hidden
    fields -/
theorem filter_noninterference' (re : RegexOracle) (ev : Evaluator) (tag : GoString)
    (strict : Bool) {d d' : Any} (hd : AnyRel (HiddenEq tag strict) d d') (ht : ev.tagName = tag)
    (hh : ev.hook = .unwrap → strict = true)
    (hu : ∀ u, ev.unknown = some u → ReflOk tag strict (anyWrapOk (tagNameOf tag) u)) :
    ((execute re (some ev) d).failed = true ∧ execute re (some ev) d = execute re (some ev) d') ∨
    ∃ r r', execute re (some ev) d = .ok r ∧ execute re (some ev) d' = .ok r' ∧
      AnyRel (HiddenEq tag strict) r r' := by
  have hx := filter_noninterference re ev tag strict hd ht hh hu
  generalize execute re (some ev) d = r at hx
  generalize execute re (some ev) d' = r' at hx
  cases hx with
  | failed a h => exact .inl ⟨h, rfl⟩
  | list n e m hl => exact .inr ⟨_, _, rfl, rfl, .some (.slice n e false (pick_rel hl m))⟩
  | map n kt vt m he => exact .inr ⟨_, _, rfl, rfl, .some (.map n kt vt false (pick_ent he m))⟩

theorem filter_nil (re : RegexOracle) (d : Any) : execute re none d = .ok d := rfl

/-! ## A selector never resolves to a hidden field -/

/-- **C08, selectors**: if every field the selector part names (by tag, else by Go name) is
    hidden, `getStruct` fails — with "not found", "is ignored" or the '|' error — and never
    returns a value. -/
theorem hidden_never_resolves (cfg : Config) (part : GoString) (fs : List (Field × GoVal))
    (h : ∀ e ∈ fs, names (effTag cfg) part e.1 → hiddenIn (effTag cfg) e.1 = true) :
    getStruct cfg part fs = .error .notFound ∨ getStruct cfg part fs = .error .ignored ∨
    getStruct cfg part fs = .error .tagBar := by
  rw [getStruct_eq]
  refine structLoop_no_hit _ _ fs ?_ false false (fun h => by cases h)
  intro e he
  have hnot : ¬ (fieldAct (effTag cfg) part e.1 = .tagHit ∨ fieldAct (effTag cfg) part e.1 = .nameHit) := by
    intro hhit
    have hhid := h e he (fieldAct_hit_names hhit)
    rcases fieldAct_hidden hhid part with ha | ha <;> rw [ha] at hhit <;>
      rcases hhit with h | h <;> cases h
  exact ⟨fun h => hnot (.inl h), fun h => hnot (.inr h)⟩

/-- the form of the property text: a hidden field selected by its Go name, no other field
    named by that part -/
theorem hidden_field_by_goName (cfg : Config) (pre post : List (Field × GoVal)) (f : Field)
    (v : GoVal) (hf : hiddenIn (effTag cfg) f = true)
    (hothers : ∀ e ∈ pre ++ post, ¬ names (effTag cfg) f.goName e.1) :
    ∃ err, getStruct cfg f.goName (pre ++ (f, v) :: post) = .error err := by
  have := hidden_never_resolves cfg f.goName (pre ++ (f, v) :: post) (by
    intro e he hn
    simp only [List.mem_append, List.mem_cons] at he
    rcases he with he | rfl | he
    · exact absurd hn (hothers e (by simp [he]))
    · exact hf
    · exact absurd hn (hothers e (by simp [he])))
  rcases this with h | h | h <;> exact ⟨_, h⟩

/-- **C08, renaming**: a field whose tag head is non-empty, not "-", and differs from its Go
    name is not found under its Go name, unless another field is named by it (the '|' error is the
    only other outcome). -/
theorem renamed_only_by_tag (cfg : Config) (fs : List (Field × GoVal)) (f : Field)
    (hne : (f.tag (effTag cfg)).isEmpty = false)
    (hdash : tagHead (f.tag (effTag cfg)) ≠ GoString.ofString "-")
    (ht : tagHead (f.tag (effTag cfg)) ≠ f.goName)
    (hothers : ∀ e ∈ fs, e.1 ≠ f → e.1.goName ≠ f.goName ∧ ¬ names (effTag cfg) f.goName e.1) :
    getStruct cfg f.goName fs = .error .notFound ∨ getStruct cfg f.goName fs = .error .tagBar := by
  rw [getStruct_eq]
  refine structLoop_all_skip _ _ fs ?_
  intro e he
  by_cases hef : e.1 = f
  · rw [hef]
    unfold fieldAct
    simp only [hne, Bool.not_false, if_true]
    split
    · exact .inl rfl
    · split
      · exact .inr rfl
      · split
        · rename_i h; exact absurd (eq_of_beq h) hdash
        · split
          · rename_i h; exact absurd (eq_of_beq h) ht
          · exact .inl rfl
  · obtain ⟨hname, hnn⟩ := hothers e he hef
    have hnot : ¬ (fieldAct (effTag cfg) f.goName e.1 = .tagHit ∨
        fieldAct (effTag cfg) f.goName e.1 = .nameHit) := fun h => hnn (fieldAct_hit_names h)
    cases ha : fieldAct (effTag cfg) f.goName e.1 with
    | skip => exact .inl rfl
    | bar => exact .inr rfl
    | tagHit => exact absurd (.inl ha) hnot
    | nameHit => exact absurd (.inr ha) hnot
    | ignore =>
      -- "-" tag on a field whose Go name is the part: excluded, Go names are unique
      exfalso
      unfold fieldAct at ha
      repeat' split at ha
      all_goals first
        | (rename_i h; exact hname (eq_of_beq h))
        | cases ha

/-! ## Non-vacuity: a struct with an unexported field and a "-" field

  `type T struct { A int; b string; C string `bexpr:"-"`; D int `bexpr:"dd"` }` -/
section Examples

def bexprTag : GoString := [98, 101, 120, 112, 114]
def fA : Field := { goName := [65], exported := true, tags := [] }
def fb : Field := { goName := [98], exported := false, tags := [] }
def fC : Field := { goName := [67], exported := true, tags := [(bexprTag, [45])] }
def fD : Field := { goName := [68], exported := true, tags := [(bexprTag, [100, 100])] }
def fieldsT (s1 s2 : GoString) : List (Field × GoVal) :=
  [(fA, .int .int "" 1), (fb, .str "" s1), (fC, .str "" s2), (fD, .int .int "" 4)]
def d1 : Any := some (.struct "main.T" (fieldsT [115] [116]))
def d2 : Any := some (.struct "main.T" (fieldsT [117] [118]))
def cfg0 : Config := { tagName := bexprTag, hook := .off }
def o0 : Opts := { tagName := bexprTag, hook := .off, unknown := none, locals := [] }

theorem hidden_fb : hiddenIn (tagNameOf bexprTag) fb = true := by
  simp [hiddenIn, fb]
theorem hidden_fC : hiddenIn (tagNameOf bexprTag) fC = true := by
  simp [hiddenIn, tagNameOf, fC, Field.tag, tagHead, ofString_dash, bexprTag]

theorem d1_hidden_d2 : AnyRel (HiddenEq bexprTag false) d1 d2 :=
  .some (.struct _
    (.visible (.int _ _ _) (.hidden hidden_fb (.hidden hidden_fC (.visible (.int _ _ _) .nil))))
    (fun h => by cases h))

theorem d1_ne_d2 : d1 ≠ d2 := by simp [d1, d2, fieldsT]

/-- the two data are indistinguishable by every expression -/
example (re : RegexOracle) (e : Expr) : evaluate re e o0 d1 = evaluate re e o0 d2 :=
  noninterference_plain re e o0 d1_hidden_d2 (by simp [o0])

/-- selecting the unexported field: not found; the "-" field: ignored; the renamed field under
    its Go name: not found, under its tag: found; the plain field: found -/
example (s1 s2) : getStruct cfg0 [98] (fieldsT s1 s2) = .error .notFound := by
  simp [getStruct, structLoop, fieldsT, fA, fb, fC, fD, cfg0, bexprTag, Field.tag, tagHead,
    ofString_dash]
example (s1 s2) : getStruct cfg0 [67] (fieldsT s1 s2) = .error .ignored := by
  simp [getStruct, structLoop, fieldsT, fA, fb, fC, fD, cfg0, bexprTag, Field.tag, tagHead,
    ofString_dash]
example (s1 s2) : getStruct cfg0 [68] (fieldsT s1 s2) = .error .notFound := by
  simp [getStruct, structLoop, fieldsT, fA, fb, fC, fD, cfg0, bexprTag, Field.tag, tagHead,
    ofString_dash]
example (s1 s2) : getStruct cfg0 [100, 100] (fieldsT s1 s2) = .ok (some (.int .int "" 4)) := by
  simp [getStruct, structLoop, fieldsT, fA, fb, fC, fD, cfg0, bexprTag, Field.tag, tagHead,
    ofString_dash]
example (s1 s2) : getStruct cfg0 [65] (fieldsT s1 s2) = .ok (some (.int .int "" 1)) := by
  simp [getStruct, structLoop, fieldsT, fA, fb, fC, fD, cfg0, bexprTag, Field.tag, tagHead,
    ofString_dash]

/-- the hypothesis of `hidden_never_resolves` holds for the parts `b` and `C` -/
example (s1 s2) : ∀ e ∈ fieldsT s1 s2, names (effTag cfg0) [98] e.1 →
    hiddenIn (effTag cfg0) e.1 = true := by
  intro e he
  simp only [fieldsT, List.mem_cons, List.not_mem_nil, or_false] at he
  rcases he with rfl | rfl | rfl | rfl <;>
    simp [names, hiddenIn, effTag, cfg0, bexprTag, fA, fb, fC, fD, Field.tag, tagHead, ofString_dash]
example (s1 s2) : ∀ e ∈ fieldsT s1 s2, names (effTag cfg0) [67] e.1 →
    hiddenIn (effTag cfg0) e.1 = true := by
  intro e he
  simp only [fieldsT, List.mem_cons, List.not_mem_nil, or_false] at he
  rcases he with rfl | rfl | rfl | rfl <;>
    simp [names, hiddenIn, effTag, cfg0, bexprTag, fA, fb, fC, fD, Field.tag, tagHead, ofString_dash]

/-- why `unwrap` needs `strict`: the harness hook hands out the first field of a `main.Wrap`
    struct whatever its visibility (here the unexported `b`) -/
example (s : GoString) :
    Hook.unwrap.apply (.struct "main.Wrap" [(fb, .str "" s)]) = some (.str "" s) := rfl

end Examples

end Bexpr.Props.C08

#print axioms Bexpr.Props.C08.noninterference_opts
#print axioms Bexpr.Props.C08.noninterference
#print axioms Bexpr.Props.C08.noninterference_plain
#print axioms Bexpr.Props.C08.filter_noninterference
#print axioms Bexpr.Props.C08.filter_noninterference'
#print axioms Bexpr.Props.C08.hidden_never_resolves
#print axioms Bexpr.Props.C08.hidden_field_by_goName
#print axioms Bexpr.Props.C08.renamed_only_by_tag
