/-
  C18 — Options act only on their own aspect, in any order.

  Model: `Options`, `Opt`, `Opt.apply`, `getOpts`, `createEvaluator` (`Bexpr/Eval/Create.lean`),
  `Evaluator.evaluate` (`Bexpr/Eval/Impl.lean`), `getStep` (`Bexpr/Go/Pointer.lean`).
  Go: `/repo/options.go`, `/repo/bexpr.go`.
  Core Lean only.  `Opt.kind`, `Opt.maxArg` … and `lastSome` are defined in
  `Proofs/OptionLemmas.lean`.
-/
import Bexpr.Eval.Create
import Proofs.OptionLemmas

namespace Bexpr.Props.C18
open Bexpr Bexpr.Go Bexpr.Eval Bexpr.Peg Bexpr.Proofs.Options

/-! ### 1: every field of `getOpts opts` is the argument of the LAST option of its kind, else
    the default.  (`lastSome f l = (l.filterMap f).getLast?`; `nilOpt` has no argument of any
    kind, so it is skipped.) -/

theorem getOpts_maxExpressions (opts : List Opt) :
    (getOpts opts).maxExpressions = (lastSome Opt.maxArg opts).getD 0 :=
  foldl_max opts defaultOptions

theorem getOpts_tagName (opts : List Opt) :
    (getOpts opts).tagName = (lastSome Opt.tagArg opts).getD (GoString.ofString "bexpr") :=
  foldl_tag opts defaultOptions

theorem getOpts_hook (opts : List Opt) :
    (getOpts opts).hook = (lastSome Opt.hookArg opts).getD .off :=
  foldl_hook opts defaultOptions

/-- `withUnknown` is a pointer: `nil` unless some `WithUnknownValue(v)` was given, then the
    address of the last `v`. -/
theorem getOpts_unknown (opts : List Opt) :
    (getOpts opts).unknown = lastSome Opt.unknownArg opts := by
  have h := foldl_unknown opts defaultOptions
  rw [show defaultOptions.unknown = none from rfl, Option.or_none] at h
  exact h

/-- the four statements together -/
theorem getOpts_fields (opts : List Opt) :
    getOpts opts =
      { maxExpressions := (lastSome Opt.maxArg opts).getD 0,
        tagName := (lastSome Opt.tagArg opts).getD (GoString.ofString "bexpr"),
        hook := (lastSome Opt.hookArg opts).getD .off,
        unknown := lastSome Opt.unknownArg opts } := by
  rw [← getOpts_maxExpressions, ← getOpts_tagName, ← getOpts_hook, ← getOpts_unknown]

/-- `lastSome` really is "the last one": a fold that keeps overwriting. -/
theorem lastSome_eq_foldl {α β : Type} (f : α → Option β) (l : List α) :
    lastSome f l = l.foldl (fun acc a => (f a).or acc) none := by
  suffices h : ∀ init, l.foldl (fun acc a => (f a).or acc) init = (lastSome f l).or init by
    rw [h none, Option.or_none]
  induction l with
  | nil => intro init; rfl
  | cons a t ih =>
    intro init
    rw [List.foldl_cons, ih]
    cases hfa : f a with
    | none => rw [lastSome_cons_none f a t hfa]; rfl
    | some b =>
      rw [lastSome_cons_some f a t b hfa]
      cases lastSome f t <;> rfl

/-! ### 2: permutation invariance for options of pairwise different kinds -/

/-- Options of different kinds commute. -/
theorem apply_comm_of_kind_ne (o : Options) (a b : Opt) (h : a.kind ≠ b.kind) :
    Opt.apply (Opt.apply o a) b = Opt.apply (Opt.apply o b) a :=
  apply_comm o a b h

theorem getOpts_perm (opts₁ opts₂ : List Opt) (hp : opts₁.Perm opts₂)
    (hk : opts₁.Pairwise fun a b => a.kind ≠ b.kind) :
    getOpts opts₁ = getOpts opts₂ := by
  unfold getOpts
  apply hp.foldl_eq'
  intro x hx y hy z
  rcases pairwise_mem (fun a b (h : a.kind ≠ b.kind) => Ne.symm h) hk x hx y hy with rfl | hne
  · rfl
  · exact apply_comm z x y hne

/-- Stronger: `nilOpt`s may be repeated (only the non-nil options must be of pairwise different
    kinds). -/
theorem getOpts_perm_nil (opts₁ opts₂ : List Opt) (hp : opts₁.Perm opts₂)
    (hk : opts₁.Pairwise fun a b => a.kind ≠ b.kind ∨ a.kind = .nil ∨ b.kind = .nil) :
    getOpts opts₁ = getOpts opts₂ := by
  unfold getOpts
  apply hp.foldl_eq'
  intro x hx y hy z
  have hs : ∀ a b : Opt, (a.kind ≠ b.kind ∨ a.kind = .nil ∨ b.kind = .nil) →
      (b.kind ≠ a.kind ∨ b.kind = .nil ∨ a.kind = .nil) := by
    intro a b h
    rcases h with h | h | h
    · exact .inl (Ne.symm h)
    · exact .inr (.inr h)
    · exact .inr (.inl h)
  rcases pairwise_mem hs hk x hx y hy with rfl | hne | hn | hn
  · rfl
  · exact apply_comm z x y hne
  · cases x <;> first | rfl | (simp [Opt.kind] at hn)
  · cases y <;> first | rfl | (simp [Opt.kind] at hn)

/-- The side condition is needed: two options of the same kind do not commute. -/
example : ∃ opts₁ opts₂ : List Opt, opts₁.Perm opts₂ ∧
    (getOpts opts₁).maxExpressions ≠ (getOpts opts₂).maxExpressions :=
  ⟨[.maxExpressions 1, .maxExpressions 2], [.maxExpressions 2, .maxExpressions 1],
    List.Perm.swap .., by decide⟩

/-! ### 3: the last option wins -/

theorem getOpts_last_wins (opts : List Opt) (o : Opt) :
    getOpts (opts ++ [o]) = o.apply (getOpts opts) := by
  simp [getOpts, List.foldl_append]

/-- An option overwrites an earlier option of the same kind completely … -/
theorem apply_same_kind_overwrites (o : Options) (a b : Opt) (h : a.kind = b.kind) :
    Opt.apply (Opt.apply o a) b = Opt.apply o b :=
  apply_same_kind o a b h

/-- … so of two adjacent same-kind options only the later one matters, -/
theorem getOpts_same_kind_adjacent (opts rest : List Opt) (a b : Opt) (h : a.kind = b.kind) :
    getOpts (opts ++ a :: b :: rest) = getOpts (opts ++ b :: rest) := by
  simp only [getOpts, List.foldl_append, List.foldl_cons, apply_same_kind _ a b h]

/-- and, with arbitrary options in between, the later one determines the field. -/
theorem getOpts_later_wins (pre mid : List Opt) :
    (∀ n m, (getOpts (pre ++ .maxExpressions n :: mid ++ [.maxExpressions m])).maxExpressions = m) ∧
    (∀ s t, (getOpts (pre ++ .tagName s :: mid ++ [.tagName t])).tagName = t) ∧
    (∀ h k, (getOpts (pre ++ .hookFn h :: mid ++ [.hookFn k])).hook = k) ∧
    (∀ v w, (getOpts (pre ++ .unknownValue v :: mid ++ [.unknownValue w])).unknown = some w) := by
  refine ⟨?_, ?_, ?_, ?_⟩ <;> intros <;> rw [getOpts_last_wins] <;> rfl

/-! ### 4: each option changes at most its own field -/

theorem apply_only_own_field_max (o : Options) (n : Nat) :
    Opt.apply o (.maxExpressions n) = { o with maxExpressions := n } ∧
    (Opt.apply o (.maxExpressions n)).tagName = o.tagName ∧
    (Opt.apply o (.maxExpressions n)).hook = o.hook ∧
    (Opt.apply o (.maxExpressions n)).unknown = o.unknown := ⟨rfl, rfl, rfl, rfl⟩

theorem apply_only_own_field_tag (o : Options) (s : GoString) :
    Opt.apply o (.tagName s) = { o with tagName := s } ∧
    (Opt.apply o (.tagName s)).maxExpressions = o.maxExpressions ∧
    (Opt.apply o (.tagName s)).hook = o.hook ∧
    (Opt.apply o (.tagName s)).unknown = o.unknown := ⟨rfl, rfl, rfl, rfl⟩

theorem apply_only_own_field_hook (o : Options) (h : Hook) :
    Opt.apply o (.hookFn h) = { o with hook := h } ∧
    (Opt.apply o (.hookFn h)).maxExpressions = o.maxExpressions ∧
    (Opt.apply o (.hookFn h)).tagName = o.tagName ∧
    (Opt.apply o (.hookFn h)).unknown = o.unknown := ⟨rfl, rfl, rfl, rfl⟩

theorem apply_only_own_field_unknown (o : Options) (v : Any) :
    Opt.apply o (.unknownValue v) = { o with unknown := some v } ∧
    (Opt.apply o (.unknownValue v)).maxExpressions = o.maxExpressions ∧
    (Opt.apply o (.unknownValue v)).tagName = o.tagName ∧
    (Opt.apply o (.unknownValue v)).hook = o.hook := ⟨rfl, rfl, rfl, rfl⟩

theorem apply_nilOpt (o : Options) : Opt.apply o .nilOpt = o := rfl

/-- uniform statement: a field can only change under an option of that field's kind -/
theorem apply_only_own_field (o : Options) (a : Opt) :
    (a.kind ≠ .maxExpressions → (Opt.apply o a).maxExpressions = o.maxExpressions) ∧
    (a.kind ≠ .tagName → (Opt.apply o a).tagName = o.tagName) ∧
    (a.kind ≠ .hook → (Opt.apply o a).hook = o.hook) ∧
    (a.kind ≠ .unknown → (Opt.apply o a).unknown = o.unknown) := by
  cases a <;> simp [Opt.kind, Opt.apply]

/-! ### 5: plumbing of the option record into parser and evaluator -/

theorem create_plumbing (env : Env) (g : Grammar) (expr : GoString) (opts : List Opt)
    (ev : Evaluator) (h : createEvaluator env g expr opts = .ok ev) :
    ev.tagName = (getOpts opts).tagName ∧
    ev.hook = (getOpts opts).hook ∧
    ev.unknown = (getOpts opts).unknown ∧
    ev.expression = expr ∧
    (Peg.run env g (getOpts opts).maxExpressions expr).val = .expr ev.ast ∧
    (Peg.run env g (getOpts opts).maxExpressions expr).accepted = true := by
  simp only [createEvaluator] at h
  split at h
  · cases h
  · next hacc =>
    split at h
    · next e he =>
      cases h
      refine ⟨rfl, rfl, rfl, rfl, he, ?_⟩
      simpa using hacc
    · cases h

/-- The outcome class (`ok`/`err`/`panic`) and the AST depend on the options only through
    `maxExpressions`: tag name, hook and unknown value never reach the parser. -/
theorem create_parser_sees_only_budget (env : Env) (g : Grammar) (expr : GoString)
    (opts₁ opts₂ : List Opt)
    (hm : (getOpts opts₁).maxExpressions = (getOpts opts₂).maxExpressions) :
    (createEvaluator env g expr opts₁ = .err ↔ createEvaluator env g expr opts₂ = .err) ∧
    (createEvaluator env g expr opts₁ = .panic ↔ createEvaluator env g expr opts₂ = .panic) ∧
    (∀ ev₁, createEvaluator env g expr opts₁ = .ok ev₁ →
      ∃ ev₂, createEvaluator env g expr opts₂ = .ok ev₂ ∧ ev₂.ast = ev₁.ast ∧
        ev₂.expression = ev₁.expression) := by
  simp only [createEvaluator, hm]
  split
  · simp
  · split <;> simp

/-- The evaluator's three option fields do not depend on the budget: with equal parses and equal
    tag/hook/unknown the evaluators are equal, whatever the budgets were. -/
theorem create_evaluator_ignores_budget (env : Env) (g : Grammar) (expr : GoString)
    (opts₁ opts₂ : List Opt)
    (hparse : Peg.run env g (getOpts opts₁).maxExpressions expr =
              Peg.run env g (getOpts opts₂).maxExpressions expr)
    (ht : (getOpts opts₁).tagName = (getOpts opts₂).tagName)
    (hh : (getOpts opts₁).hook = (getOpts opts₂).hook)
    (hu : (getOpts opts₁).unknown = (getOpts opts₂).unknown) :
    createEvaluator env g expr opts₁ = createEvaluator env g expr opts₂ := by
  simp only [createEvaluator, hparse, ht, hh, hu]

/-- `(*Evaluator).Evaluate` uses exactly `ast`, `tagName`, `hook`, `unknown` (no budget, no
    expression text, no local variables). -/
theorem evaluate_uses (re : RegexOracle) (ev : Evaluator) (d : Any) :
    ev.evaluate re d =
      evaluate re ev.ast
        { tagName := ev.tagName, hook := ev.hook, unknown := ev.unknown, locals := [] } d := rfl

/-- End to end: what `Evaluate` computes for a created evaluator. -/
theorem create_evaluate (env : Env) (g : Grammar) (expr : GoString) (opts : List Opt)
    (ev : Evaluator) (h : createEvaluator env g expr opts = .ok ev) (re : RegexOracle) (d : Any) :
    ev.evaluate re d =
      evaluate re ev.ast
        { tagName := (getOpts opts).tagName, hook := (getOpts opts).hook,
          unknown := (getOpts opts).unknown, locals := [] } d := by
  obtain ⟨h1, h2, h3, _⟩ := create_plumbing env g expr opts ev h
  rw [evaluate_uses, h1, h2, h3]

/-! ### 6: neutral settings -/

/-- prepending an option that sets a field to its default value is a no-op -/
theorem max_zero_neutral (opts : List Opt) :
    getOpts (.maxExpressions 0 :: opts) = getOpts opts := rfl

theorem tag_default_neutral (opts : List Opt) :
    getOpts (.tagName (GoString.ofString "bexpr") :: opts) = getOpts opts := rfl

theorem hook_off_neutral (opts : List Opt) :
    getOpts (.hookFn .off :: opts) = getOpts opts := rfl

/-- a `nil` option is a no-op at any position -/
theorem nilOpt_neutral (pre post : List Opt) :
    getOpts (pre ++ .nilOpt :: post) = getOpts (pre ++ post) := by
  simp [getOpts, List.foldl_append, Opt.apply]

/-- budget 0 is "unlimited" in the parser (`newParser`: 0 ↦ MaxUint64), so passing the default
    explicitly gives the same parse as the largest budget -/
theorem max_zero_is_unlimited (env : Env) (g : Grammar) (expr : GoString) :
    Peg.run env g 0 expr = Peg.run env g (2 ^ 64 - 1) expr := rfl

theorem hook_identity_neutral (v : GoVal) : Hook.identity.apply v = Hook.off.apply v := rfl

theorem getStep_identity_neutral (cfg : Config) (part : GoString) (cur : RV) :
    getStep { cfg with hook := .identity } part cur = getStep { cfg with hook := .off } part cur :=
  getStep_identity cfg part cur

theorem get_identity_neutral (cfg : Config) (parts : List GoString) (v : Any) :
    get { cfg with hook := .identity } parts v = get { cfg with hook := .off } parts v :=
  get_identity cfg parts v

theorem getValue_identity_neutral (o : Opts) (d : Any) (path : List GoString) :
    getValue { o with hook := .identity } d path = getValue { o with hook := .off } d path :=
  getValue_identity o d path

theorem evaluate_identity_neutral (re : RegexOracle) (e : Expr) (o : Opts) (d : Any) :
    evaluate re e { o with hook := .identity } d = evaluate re e { o with hook := .off } d :=
  evaluate_identity re e o d

/-- an evaluator with the identity hook evaluates like one without a hook -/
theorem evaluator_identity_neutral (re : RegexOracle) (ev : Evaluator) (d : Any) :
    ({ ev with hook := .identity } : Evaluator).evaluate re d =
      ({ ev with hook := .off } : Evaluator).evaluate re d :=
  evaluate_identity re ev.ast ⟨ev.tagName, ev.hook, ev.unknown, []⟩ d

/-- `WithHookFn(identity)` as the last hook option vs. no hook option at all: the created
    evaluators (if any) evaluate identically. -/
theorem create_identity_neutral (env : Env) (g : Grammar) (expr : GoString) (opts : List Opt)
    (hnh : ∀ o ∈ opts, o.kind ≠ .hook) (ev₁ ev₂ : Evaluator)
    (h₁ : createEvaluator env g expr (opts ++ [.hookFn .identity]) = .ok ev₁)
    (h₂ : createEvaluator env g expr opts = .ok ev₂) (re : RegexOracle) (d : Any) :
    ev₁.evaluate re d = ev₂.evaluate re d := by
  have hoff : (getOpts opts).hook = .off := by
    rw [getOpts_hook]
    have : opts.filterMap Opt.hookArg = [] := by
      rw [List.filterMap_eq_nil_iff]
      intro o ho
      have := hnh o ho
      cases o <;> first | rfl | exact absurd rfl this
    simp [lastSome, this]
  have e1 : createEvaluator env g expr (opts ++ [.hookFn .identity]) =
      match createEvaluator env g expr opts with
      | .ok ev => .ok { ev with hook := .identity }
      | o => o := by
    simp only [createEvaluator, getOpts_last_wins, Opt.apply]
    split
    · rfl
    · split <;> rfl
  rw [h₂] at e1
  rw [h₁] at e1
  cases e1
  have h2 := (create_plumbing env g expr opts ev₂ h₂).2.1
  rw [hoff] at h2
  rw [evaluator_identity_neutral]
  cases ev₂
  simp only at h2
  subst h2
  rfl

/-! ### 7: non-vacuity -/

section examples

def gs (x : String) : GoString := x.toList.map GoString.byteOfChar

def exOpts : List Opt :=
  [.tagName (gs "a"), .maxExpressions 3, .nilOpt, .tagName (gs "json"), .hookFn .unwrap,
   .unknownValue none, .unknownValue (some (.bool "" true)), .maxExpressions 7]

example : (getOpts exOpts).maxExpressions = 7 := rfl
example : (getOpts exOpts).tagName = gs "json" := rfl
example : (getOpts exOpts).hook = .unwrap := rfl
example : (getOpts exOpts).unknown = some (some (.bool "" true)) := rfl
example : lastSome Opt.maxArg exOpts = some 7 := by decide
example : lastSome Opt.tagArg exOpts = some (gs "json") := by decide
example : lastSome Opt.hookArg exOpts = some .unwrap := by decide
example : (getOpts []).maxExpressions = 0 ∧ (getOpts []).hook = .off ∧
    (getOpts []).tagName = GoString.ofString "bexpr" := ⟨rfl, rfl, rfl⟩

/-- a list of pairwise different kinds, and a permutation of it -/
example : getOpts [.tagName (gs "t"), .maxExpressions 5, .hookFn .const42] =
          getOpts [.hookFn .const42, .tagName (gs "t"), .maxExpressions 5] :=
  getOpts_perm _ _ ((List.Perm.cons _ (List.Perm.swap ..)).trans (List.Perm.swap ..))
    (by simp [Opt.kind])

/-- A toy grammar whose only rule is an action returning a fixed tree: enough to exercise the
    `.ok` path of `createEvaluator` (the real grammar is exercised by the driver). -/
def toyTree : Expr := .match_ ⟨.bexpr, [gs "x"]⟩ .isEmpty none
def toyEnv : Env :=
  { action := fun _ _ _ => .ret (.expr toyTree) none, pred := fun _ _ => .panic "none",
    classIn := fun _ _ => none }
def toyG : Grammar := [{ name := "Input", displayName := "", expr := .action "mk" (.seq []) }]

example : ∃ ev, createEvaluator toyEnv toyG (gs "x is empty") exOpts = .ok ev ∧
    ev.ast = toyTree ∧ ev.tagName = gs "json" ∧ ev.hook = .unwrap ∧
    ev.unknown = some (some (.bool "" true)) := ⟨_, rfl, rfl, rfl, rfl, rfl⟩

/-- a budget that is too small makes creation fail: the budget does reach the parser -/
example : ∃ opts, (match createEvaluator toyEnv toyG (gs "x") opts with
    | .err => true | _ => false) = true := ⟨[.maxExpressions 1], rfl⟩

/-- the hooks differ in general: `identity` is neutral but `const42` is not -/
example : Hook.const42.apply (.bool "" true) ≠ Hook.off.apply (.bool "" true) := by
  simp [Hook.apply]

end examples

end Bexpr.Props.C18

open Bexpr.Props.C18 in
section
end

#print axioms Bexpr.Props.C18.getOpts_maxExpressions
#print axioms Bexpr.Props.C18.getOpts_tagName
#print axioms Bexpr.Props.C18.getOpts_hook
#print axioms Bexpr.Props.C18.getOpts_unknown
#print axioms Bexpr.Props.C18.getOpts_fields
#print axioms Bexpr.Props.C18.lastSome_eq_foldl
#print axioms Bexpr.Props.C18.getOpts_perm
#print axioms Bexpr.Props.C18.getOpts_perm_nil
#print axioms Bexpr.Props.C18.getOpts_last_wins
#print axioms Bexpr.Props.C18.apply_same_kind_overwrites
#print axioms Bexpr.Props.C18.getOpts_same_kind_adjacent
#print axioms Bexpr.Props.C18.getOpts_later_wins
#print axioms Bexpr.Props.C18.apply_only_own_field_max
#print axioms Bexpr.Props.C18.apply_only_own_field_tag
#print axioms Bexpr.Props.C18.apply_only_own_field_hook
#print axioms Bexpr.Props.C18.apply_only_own_field_unknown
#print axioms Bexpr.Props.C18.apply_only_own_field
#print axioms Bexpr.Props.C18.create_plumbing
#print axioms Bexpr.Props.C18.create_parser_sees_only_budget
#print axioms Bexpr.Props.C18.create_evaluator_ignores_budget
#print axioms Bexpr.Props.C18.evaluate_uses
#print axioms Bexpr.Props.C18.create_evaluate
#print axioms Bexpr.Props.C18.max_zero_neutral
#print axioms Bexpr.Props.C18.tag_default_neutral
#print axioms Bexpr.Props.C18.hook_off_neutral
#print axioms Bexpr.Props.C18.nilOpt_neutral
#print axioms Bexpr.Props.C18.max_zero_is_unlimited
#print axioms Bexpr.Props.C18.hook_identity_neutral
#print axioms Bexpr.Props.C18.getStep_identity_neutral
#print axioms Bexpr.Props.C18.get_identity_neutral
#print axioms Bexpr.Props.C18.getValue_identity_neutral
#print axioms Bexpr.Props.C18.evaluate_identity_neutral
#print axioms Bexpr.Props.C18.evaluator_identity_neutral
#print axioms Bexpr.Props.C18.create_identity_neutral
