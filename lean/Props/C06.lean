/-
  C06 — any/all fold the body over elements with correct binding, order and scoping.

  Statements about `Eval.evaluate` on `.coll` nodes (model of
  evaluate.go:evaluateCollectionExpression) and about `Eval.getValue` / `resolveLocals` (model of
  evaluate.go:getValue) under the bindings a quantifier pushes.  They hold for every regexp
  oracle, option record and datum.

  Contents
   1. `foldColl`, `coll_list_fold`, `coll_map_fold`, `coll_same_name_error`
   2. `any_iff_exists`, `all_iff_forall`, `coll_empty`, `coll_absent`, `coll_first_error`,
      `coll_first_decisive`
   3. `coll_bad_kind`
   4. binding semantics: `alias_resolves_in_outer_scope`, `binding_scope_value`,
      `binding_scope_index`, `binding_scope_key`, `shadowing`, one-name form
   5. `coll_unroll` (+ `_default`, `_value`, `_index_and_value`, `_map_value`,
      `_map_index_and_value`): the quantifier equals the unrolled or/and chain of the
      capture-avoiding substitution instances of its body — bodies with nested quantifiers
      included; key lemmas `evaluate_subst`, `evaluate_congr_locals`, `evaluate_drop`; the side
      condition `unrollOK` is shown necessary by a counterexample at the end
-/
import Bexpr.Eval.Impl
import Props.C03
import Props.C05
import Proofs.Total

namespace Bexpr.Props.C06
open Bexpr Bexpr.Eval Bexpr.Go

variable (re : RegexOracle) (o : Opts) (d : Any)

/-! ## 1. The fold -/

/-- The documented fold of a quantifier over the outcomes of its body, left to right: an error
    ends the fold with an error, a panic / unmodelled outcome with itself; `any` ends at the first
    `true`, `all` at the first `false`; an exhausted list gives `false` for `any`, `true` for
    `all`. -/
def foldColl (op : CollOp) : List Out → Out
  | [] => .val (op == .all)
  | .val r :: rest =>
    match op, r with
    | .any, true => .val true
    | .all, false => .val false
    | _, _ => foldColl op rest
  | .err _ :: _ => .err false
  | .panic :: _ => .panic
  | .unmodelled :: _ => .unmodelled

/-- the quantifier declares one name for both the index and the value -/
def sameName (b : Binding) : Prop := b.mode = .indexAndValue ∧ b.index = b.value

instance (b : Binding) : Decidable (sameName b) := by unfold sameName; infer_instance

/-- the loop of `evaluateCollectionExpression` is the fold over the per-element outcomes -/
theorem collLoop_eq_fold (f : Opts → Out) (op : CollOp) (b : Binding) (hb : ¬ sameName b)
    (bss : List (List LocalVar)) :
    collLoop f o op b bss =
      foldColl op (bss.map fun bs => f { o with locals := o.locals ++ bs }) := by
  have hb' : (b.mode == .indexAndValue && b.index == b.value) = false := by
    cases hm : (b.mode == .indexAndValue && b.index == b.value)
    · rfl
    · exfalso; apply hb; simpa [sameName] using hm
  induction bss with
  | nil => simp [collLoop, foldColl]
  | cons bs rest ih =>
    simp only [collLoop, hb', List.map_cons]
    cases hf : f { o with locals := o.locals ++ bs } with
    | val r => cases op <;> cases r <;> simp_all [foldColl]
    | err x => simp [foldColl]
    | panic => simp [foldColl]
    | unmodelled => simp [foldColl]

theorem collLoop_same_name (f : Opts → Out) (op : CollOp) (b : Binding) (hb : sameName b)
    (bs : List LocalVar) (rest : List (List LocalVar)) :
    collLoop f o op b (bs :: rest) = .err false := by
  obtain ⟨h1, h2⟩ := hb
  simp [collLoop, h1, h2]

/-- per-element outcomes of a quantifier over a list of `n` elements -/
def listOutcomes (sel : Selector) (b : Binding) (inner : Expr) (n : Nat) : List Out :=
  (List.range n).map fun i =>
    evaluate re inner { o with locals := o.locals ++ listBindings sel b i } d

/-- per-entry outcomes of a quantifier over a map with the given entries: keys in sorted order -/
def mapOutcomes (sel : Selector) (b : Binding) (inner : Expr) (es : List (GoVal × GoVal)) :
    List Out :=
  (sortKeys (es.map fun e => strKey e.1)).map fun k =>
    evaluate re inner { o with locals := o.locals ++ mapBindings sel b k } d

/-- `any`/`all` over a slice is the fold of the body over the elements in index order, element
    `i` evaluated under the bindings `listBindings sel b i` appended to the enclosing ones -/
theorem coll_slice_fold (op : CollOp) (sel : Selector) (b : Binding) (inner : Expr)
    (n : String) (e : GoType) (nl : Bool) (xs : List GoVal)
    (hv : getValue o d sel.path = .present (some (.slice n e nl xs)))
    (hb : ¬ (b.mode = .indexAndValue ∧ b.index = b.value ∧ xs ≠ [])) :
    evaluate re (.coll op sel b inner) o d =
      foldColl op ((List.range xs.length).map fun i =>
        evaluate re inner { o with locals := o.locals ++ listBindings sel b i } d) := by
  simp only [evaluate, hv]
  by_cases hs : sameName b
  · have hx : xs = [] := by
      cases xs with
      | nil => rfl
      | cons x xs => exact absurd ⟨hs.1, hs.2, by simp⟩ hb
    subst hx
    simp [collLoop, foldColl]
  · rw [collLoop_eq_fold o _ op b hs]
    simp [List.map_map, Function.comp_def]

theorem coll_array_fold (op : CollOp) (sel : Selector) (b : Binding) (inner : Expr)
    (e : GoType) (xs : List GoVal)
    (hv : getValue o d sel.path = .present (some (.array e xs)))
    (hb : ¬ (b.mode = .indexAndValue ∧ b.index = b.value ∧ xs ≠ [])) :
    evaluate re (.coll op sel b inner) o d =
      foldColl op ((List.range xs.length).map fun i =>
        evaluate re inner { o with locals := o.locals ++ listBindings sel b i } d) := by
  simp only [evaluate, hv]
  by_cases hs : sameName b
  · have hx : xs = [] := by
      cases xs with
      | nil => rfl
      | cons x xs => exact absurd ⟨hs.1, hs.2, by simp⟩ hb
    subst hx
    simp [collLoop, foldColl]
  · rw [collLoop_eq_fold o _ op b hs]
    simp [List.map_map, Function.comp_def]

/-- the selector resolved to a list (slice or array) with elements `xs` -/
def IsList (v : Any) (xs : List GoVal) : Prop :=
  (∃ n e nl, v = some (.slice n e nl xs)) ∨ (∃ e, v = some (.array e xs))

/-- C06.1 (lists): slices and arrays together -/
theorem coll_list_fold (op : CollOp) (sel : Selector) (b : Binding) (inner : Expr)
    (v : Any) (xs : List GoVal) (hl : IsList v xs)
    (hv : getValue o d sel.path = .present v)
    (hb : ¬ (b.mode = .indexAndValue ∧ b.index = b.value ∧ xs ≠ [])) :
    evaluate re (.coll op sel b inner) o d =
      foldColl op ((List.range xs.length).map fun i =>
        evaluate re inner { o with locals := o.locals ++ listBindings sel b i } d) := by
  rcases hl with ⟨n, e, nl, rfl⟩ | ⟨e, rfl⟩
  · exact coll_slice_fold re o d op sel b inner n e nl xs hv hb
  · exact coll_array_fold re o d op sel b inner e xs hv hb

/-- C06.1 (maps): a map whose key type is exactly `string` is folded over its keys in sorted
    (bytewise) order, entry `k` evaluated under `mapBindings sel b k` -/
theorem coll_map_fold (op : CollOp) (sel : Selector) (b : Binding) (inner : Expr)
    (n : String) (vt : GoType) (nl : Bool) (es : List (GoVal × GoVal))
    (hv : getValue o d sel.path = .present (some (.map n GoType.stringT vt nl es)))
    (hb : ¬ (b.mode = .indexAndValue ∧ b.index = b.value ∧ es ≠ [])) :
    evaluate re (.coll op sel b inner) o d =
      foldColl op ((sortKeys (es.map fun e => strKey e.1)).map fun k =>
        evaluate re inner { o with locals := o.locals ++ mapBindings sel b k } d) := by
  simp only [evaluate, hv]
  have hk : (GoType.stringT != GoType.stringT) = false := by decide
  simp only [hk]
  by_cases hs : sameName b
  · have hx : es = [] := by
      cases es with
      | nil => rfl
      | cons x xs => exact absurd ⟨hs.1, hs.2, by simp⟩ hb
    subst hx
    simp [collLoop, foldColl, sortKeys]
  · rw [collLoop_eq_fold o _ op b hs]
    simp [List.map_map, Function.comp_def]

/-- C06.1: one name for index and value (`any S as x, x {…}`) is an error as soon as there is
    an element; over an empty collection the loop body is never entered -/
theorem coll_same_name_error (op : CollOp) (sel : Selector) (b : Binding) (inner : Expr)
    (v : Any) (hs : b.mode = .indexAndValue ∧ b.index = b.value) :
    (∀ xs, IsList v xs → getValue o d sel.path = .present v →
      evaluate re (.coll op sel b inner) o d =
        if xs = [] then .val (op == .all) else .err false) ∧
    (∀ n vt nl es, v = some (.map n GoType.stringT vt nl es) →
      getValue o d sel.path = .present v →
      evaluate re (.coll op sel b inner) o d =
        if es = [] then .val (op == .all) else .err false) := by
  have hs' : sameName b := hs
  refine ⟨?_, ?_⟩
  · intro xs hl hv
    rcases hl with ⟨n, e, nl, rfl⟩ | ⟨e, rfl⟩ <;> simp only [evaluate, hv] <;>
      cases xs <;> simp [collLoop, List.range_succ_eq_map, collLoop_same_name o _ op b hs']
  · rintro n vt nl es rfl hv
    simp only [evaluate, hv]
    have hk : (GoType.stringT != GoType.stringT) = false := by decide
    simp only [hk]
    cases es with
    | nil => simp [collLoop, sortKeys]
    | cons e es =>
      have hne : sortKeys ((e :: es).map fun e => strKey e.1) ≠ [] := by
        intro h
        have := congrArg List.length h
        simp [sortKeys, List.length_mergeSort] at this
      cases hk : sortKeys ((e :: es).map fun e => strKey e.1) with
      | nil => exact absurd hk hne
      | cons k ks => simp [collLoop_same_name o _ op b hs']

/-! ## 2. Meaning of the fold -/

theorem foldColl_any_true_iff (outs : List Out) (hv : ∀ x ∈ outs, ∃ r, x = .val r) :
    foldColl .any outs = .val true ↔ ∃ i, i < outs.length ∧ outs[i]? = some (.val true) := by
  induction outs with
  | nil => simp [foldColl]
  | cons x rest ih =>
    obtain ⟨r, rfl⟩ := hv x (by simp)
    have ih' := ih (fun y hy => hv y (by simp [hy]))
    cases r with
    | true =>
      simp only [foldColl, true_iff]
      exact ⟨0, by simp, by simp⟩
    | false =>
      simp only [foldColl, ih']
      constructor
      · rintro ⟨i, hi, he⟩; exact ⟨i + 1, by simp; omega, by simpa using he⟩
      · rintro ⟨i, hi, he⟩
        cases i with
        | zero => simp at he
        | succ j => exact ⟨j, by simp at hi; omega, by simpa using he⟩

theorem foldColl_all_true_iff (outs : List Out) (hv : ∀ x ∈ outs, ∃ r, x = .val r) :
    foldColl .all outs = .val true ↔ ∀ i, i < outs.length → outs[i]? = some (.val true) := by
  induction outs with
  | nil => simp [foldColl]
  | cons x rest ih =>
    obtain ⟨r, rfl⟩ := hv x (by simp)
    have ih' := ih (fun y hy => hv y (by simp [hy]))
    cases r with
    | false =>
      simp only [foldColl]
      constructor
      · intro h; cases h
      · intro h; have := h 0 (by simp); simp at this
    | true =>
      simp only [foldColl, ih']
      constructor
      · intro h i hi
        cases i with
        | zero => simp
        | succ j => simpa using h j (by simp at hi; omega)
      · intro h i hi
        simpa using h (i + 1) (by simp; omega)

/-- with value outcomes only, the fold is a Boolean: `any` is the disjunction -/
theorem foldColl_any_false_iff (outs : List Out) (hv : ∀ x ∈ outs, ∃ r, x = .val r) :
    foldColl .any outs = .val false ↔ ∀ i, i < outs.length → outs[i]? = some (.val false) := by
  induction outs with
  | nil => simp [foldColl]
  | cons x rest ih =>
    obtain ⟨r, rfl⟩ := hv x (by simp)
    have ih' := ih (fun y hy => hv y (by simp [hy]))
    cases r with
    | true =>
      simp only [foldColl]
      constructor
      · intro h; cases h
      · intro h; have := h 0 (by simp); simp at this
    | false =>
      simp only [foldColl, ih']
      constructor
      · intro h i hi
        cases i with
        | zero => simp
        | succ j => simpa using h j (by simp at hi; omega)
      · intro h i hi
        simpa using h (i + 1) (by simp; omega)

/-- C06.2: over a list all of whose element outcomes are values, `any` is true iff the body is
    true for some element -/
theorem any_iff_exists (sel : Selector) (b : Binding) (inner : Expr) (v : Any) (xs : List GoVal)
    (hl : IsList v xs) (hv : getValue o d sel.path = .present v) (hb : ¬ sameName b)
    (hval : ∀ i, i < xs.length → ∃ r,
      evaluate re inner { o with locals := o.locals ++ listBindings sel b i } d = .val r) :
    evaluate re (.coll .any sel b inner) o d = .val true ↔
      ∃ i, i < xs.length ∧
        evaluate re inner { o with locals := o.locals ++ listBindings sel b i } d = .val true := by
  rw [coll_list_fold re o d .any sel b inner v xs hl hv (fun h => hb ⟨h.1, h.2.1⟩)]
  rw [foldColl_any_true_iff]
  · simp only [List.length_map, List.length_range]
    constructor
    · rintro ⟨i, hi, he⟩
      refine ⟨i, hi, ?_⟩
      simpa [List.getElem?_map, List.getElem?_range hi] using he
    · rintro ⟨i, hi, he⟩
      exact ⟨i, hi, by simp [List.getElem?_map, List.getElem?_range hi, he]⟩
  · intro x hx
    simp only [List.mem_map, List.mem_range] at hx
    obtain ⟨i, hi, rfl⟩ := hx
    exact hval i hi

/-- C06.2: … and `all` is true iff the body is true for every element -/
theorem all_iff_forall (sel : Selector) (b : Binding) (inner : Expr) (v : Any) (xs : List GoVal)
    (hl : IsList v xs) (hv : getValue o d sel.path = .present v) (hb : ¬ sameName b)
    (hval : ∀ i, i < xs.length → ∃ r,
      evaluate re inner { o with locals := o.locals ++ listBindings sel b i } d = .val r) :
    evaluate re (.coll .all sel b inner) o d = .val true ↔
      ∀ i, i < xs.length →
        evaluate re inner { o with locals := o.locals ++ listBindings sel b i } d = .val true := by
  rw [coll_list_fold re o d .all sel b inner v xs hl hv (fun h => hb ⟨h.1, h.2.1⟩)]
  rw [foldColl_all_true_iff]
  · simp only [List.length_map, List.length_range]
    constructor
    · intro h i hi
      simpa [List.getElem?_map, List.getElem?_range hi] using h i hi
    · intro h i hi
      simp [List.getElem?_map, List.getElem?_range hi, h i hi]
  · intro x hx
    simp only [List.mem_map, List.mem_range] at hx
    obtain ⟨i, hi, rfl⟩ := hx
    exact hval i hi

/-- the same two statements for string-keyed maps, over the sorted keys -/
theorem any_iff_exists_map (sel : Selector) (b : Binding) (inner : Expr)
    (n : String) (vt : GoType) (nl : Bool) (es : List (GoVal × GoVal))
    (hv : getValue o d sel.path = .present (some (.map n GoType.stringT vt nl es)))
    (hb : ¬ sameName b)
    (hval : ∀ k ∈ sortKeys (es.map fun e => strKey e.1), ∃ r,
      evaluate re inner { o with locals := o.locals ++ mapBindings sel b k } d = .val r) :
    evaluate re (.coll .any sel b inner) o d = .val true ↔
      ∃ k ∈ sortKeys (es.map fun e => strKey e.1),
        evaluate re inner { o with locals := o.locals ++ mapBindings sel b k } d = .val true := by
  rw [coll_map_fold re o d .any sel b inner n vt nl es hv (fun h => hb ⟨h.1, h.2.1⟩)]
  rw [foldColl_any_true_iff]
  · simp only [List.length_map]
    constructor
    · rintro ⟨i, hi, he⟩
      refine ⟨_, List.getElem_mem hi, ?_⟩
      simpa [List.getElem?_map, List.getElem?_eq_getElem hi] using he
    · rintro ⟨k, hk, he⟩
      obtain ⟨i, hi, rfl⟩ := List.getElem_of_mem hk
      exact ⟨i, hi, by simp [List.getElem?_map, List.getElem?_eq_getElem hi, he]⟩
  · intro x hx
    simp only [List.mem_map] at hx
    obtain ⟨k, hk, rfl⟩ := hx
    exact hval k hk

theorem all_iff_forall_map (sel : Selector) (b : Binding) (inner : Expr)
    (n : String) (vt : GoType) (nl : Bool) (es : List (GoVal × GoVal))
    (hv : getValue o d sel.path = .present (some (.map n GoType.stringT vt nl es)))
    (hb : ¬ sameName b)
    (hval : ∀ k ∈ sortKeys (es.map fun e => strKey e.1), ∃ r,
      evaluate re inner { o with locals := o.locals ++ mapBindings sel b k } d = .val r) :
    evaluate re (.coll .all sel b inner) o d = .val true ↔
      ∀ k ∈ sortKeys (es.map fun e => strKey e.1),
        evaluate re inner { o with locals := o.locals ++ mapBindings sel b k } d = .val true := by
  rw [coll_map_fold re o d .all sel b inner n vt nl es hv (fun h => hb ⟨h.1, h.2.1⟩)]
  rw [foldColl_all_true_iff]
  · simp only [List.length_map]
    constructor
    · intro h k hk
      obtain ⟨i, hi, rfl⟩ := List.getElem_of_mem hk
      simpa [List.getElem?_map, List.getElem?_eq_getElem hi] using h i hi
    · intro h i hi
      simp [List.getElem?_map, List.getElem?_eq_getElem hi, h _ (List.getElem_mem hi)]
  · intro x hx
    simp only [List.mem_map] at hx
    obtain ⟨k, hk, rfl⟩ := hx
    exact hval k hk

/-- C06.2: an empty list or map gives `any` = false, `all` = true, for every binding form -/
theorem coll_empty (op : CollOp) (sel : Selector) (b : Binding) (inner : Expr) (v : Any)
    (hv : getValue o d sel.path = .present v)
    (he : IsList v [] ∨ ∃ n vt nl, v = some (.map n GoType.stringT vt nl [])) :
    evaluate re (.coll op sel b inner) o d = .val (op == .all) := by
  rcases he with hl | ⟨n, vt, nl, rfl⟩
  · rw [coll_list_fold re o d op sel b inner v [] hl hv (by simp)]; simp [foldColl]
  · rw [coll_map_fold re o d op sel b inner n vt nl [] hv (by simp)]; simp [foldColl, sortKeys]

/-- C06.2: an absent collection (a key absent from a map, C05) gives `any` = false,
    `all` = true -/
theorem coll_absent (op : CollOp) (sel : Selector) (b : Binding) (inner : Expr)
    (h : getValue o d sel.path = .absent) :
    evaluate re (.coll op sel b inner) o d = .val (op == .all) :=
  C05.absent_all_any re o d op sel b inner h

/-- an outcome that does not end the fold: `false` for `any`, `true` for `all` -/
def nonDeciding (op : CollOp) (x : Out) : Prop := x = .val (op == .all)

/-- the outcome of the fold is decided by the first element whose outcome is not a
    non-deciding value -/
theorem foldColl_first (op : CollOp) (outs : List Out) (i : Nat) (x : Out)
    (hi : outs[i]? = some x)
    (hbefore : ∀ j, j < i → outs[j]? = some (.val (op == .all)))
    (hx : x ≠ .val (op == .all)) :
    foldColl op outs = foldColl op [x] := by
  induction outs generalizing i with
  | nil => simp at hi
  | cons y rest ih =>
    cases i with
    | zero =>
      simp at hi; subst hi
      cases y with
      | val r => cases op <;> cases r <;> simp_all [foldColl]
      | err _ => simp [foldColl]
      | panic => simp [foldColl]
      | unmodelled => simp [foldColl]
    | succ k =>
      have h0 := hbefore 0 (by omega)
      simp at h0; subst h0
      have := ih k (by simpa using hi) (fun j hj => by simpa using hbefore (j + 1) (by omega))
      cases op <;> simpa [foldColl] using this

/-- C06.2: the first error ends the fold — if element `i` is an error and every earlier element
    is a non-deciding value, the quantifier is an error, whatever the later elements are -/
theorem coll_first_error (op : CollOp) (sel : Selector) (b : Binding) (inner : Expr) (v : Any)
    (xs : List GoVal) (hl : IsList v xs) (hv : getValue o d sel.path = .present v)
    (hb : ¬ sameName b) (i : Nat) (hi : i < xs.length) (eb : Bool)
    (herr : evaluate re inner { o with locals := o.locals ++ listBindings sel b i } d = .err eb)
    (hbefore : ∀ j, j < i →
      evaluate re inner { o with locals := o.locals ++ listBindings sel b j } d
        = .val (op == .all)) :
    evaluate re (.coll op sel b inner) o d = .err false := by
  rw [coll_list_fold re o d op sel b inner v xs hl hv (fun h => hb ⟨h.1, h.2.1⟩)]
  rw [foldColl_first op _ i (.err eb)]
  · simp [foldColl]
  · simp [List.getElem?_map, List.getElem?_range hi, herr]
  · intro j hj
    simp [List.getElem?_map, List.getElem?_range (Nat.lt_trans hj hi), hbefore j hj]
  · simp

/-- C06.2: the first decisive element ends the fold — later elements (even errors or panics)
    are never consulted -/
theorem coll_first_decisive (op : CollOp) (sel : Selector) (b : Binding) (inner : Expr) (v : Any)
    (xs : List GoVal) (hl : IsList v xs) (hv : getValue o d sel.path = .present v)
    (hb : ¬ sameName b) (i : Nat) (hi : i < xs.length)
    (hdec : evaluate re inner { o with locals := o.locals ++ listBindings sel b i } d
      = .val (op == .any))
    (hbefore : ∀ j, j < i →
      evaluate re inner { o with locals := o.locals ++ listBindings sel b j } d
        = .val (op == .all)) :
    evaluate re (.coll op sel b inner) o d = .val (op == .any) := by
  rw [coll_list_fold re o d op sel b inner v xs hl hv (fun h => hb ⟨h.1, h.2.1⟩)]
  rw [foldColl_first op _ i (.val (op == .any))]
  · cases op <;> rfl
  · simp [List.getElem?_map, List.getElem?_range hi, hdec]
  · intro j hj
    simp [List.getElem?_map, List.getElem?_range (Nat.lt_trans hj hi), hbefore j hj]
  · cases op <;> simp

/-! ## 3. What can be iterated -/

/-- the values `any`/`all` iterate: slices, arrays, and maps whose key type is exactly `string` -/
def Iterable : Any → Prop
  | some (.slice ..) => True
  | some (.array ..) => True
  | some (.map _ kt _ _ _) => kt = GoType.stringT
  | _ => False

/-- C06.3: a selector that resolves to anything else — nil, a scalar, a struct, a pointer (even
    to a slice), a map with another key type (named string types included) — is an error -/
theorem coll_bad_kind (op : CollOp) (sel : Selector) (b : Binding) (inner : Expr) (v : Any)
    (hv : getValue o d sel.path = .present v) (hbad : ¬ Iterable v) :
    evaluate re (.coll op sel b inner) o d = .err false := by
  simp only [evaluate, hv]
  cases v with
  | none => rfl
  | some w =>
    cases w <;> simp_all [Iterable]

example : ¬ Iterable none ∧ ¬ Iterable (some (.int .int "" 1)) ∧ ¬ Iterable (some (.struct "T" []))
    ∧ ¬ Iterable (some (.ptr (.slice "" .iface) (some (.slice "" .iface false []))))
    ∧ ¬ Iterable (some (.map "" (.basic .int "") .iface false []))
    ∧ ¬ Iterable (some (.map "" (.basic .string "main.MyStr") .iface false []))
    ∧ ¬ Iterable (some (.map "" .iface .iface false [])) := by
  simp [Iterable, GoType.stringT]

/-! ## 4. Binding semantics -/

/-- the binding record as the parser builds it (`CollectionNameBinding`): exactly the names of
    its mode are set -/
def Shaped (b : Binding) : Prop :=
  match b.mode with
  | .default => b.default ≠ [] ∧ b.index = [] ∧ b.value = []
  | .index => b.default = [] ∧ b.index ≠ [] ∧ b.value = []
  | .value => b.default = [] ∧ b.index = [] ∧ b.value ≠ []
  | .indexAndValue => b.default = [] ∧ b.index ≠ [] ∧ b.value ≠ []

instance (b : Binding) : Decidable (Shaped b) := by unfold Shaped; split <;> infer_instance

/-- the name that aliases the ELEMENT of a list: the one name of the one-name form, the value
    name of the other forms -/
def listValueName (b : Binding) : Option GoString :=
  match b.mode with
  | .default => some b.default
  | .value => some b.value
  | .indexAndValue => some b.value
  | .index => none

/-- the name bound to the INDEX of a list element -/
def listIndexName (b : Binding) : Option GoString :=
  match b.mode with
  | .index => some b.index
  | .indexAndValue => some b.index
  | _ => none

/-- the name that aliases the VALUE of a map entry -/
def mapValueName (b : Binding) : Option GoString :=
  match b.mode with
  | .value => some b.value
  | .indexAndValue => some b.value
  | _ => none

/-- the name bound to the KEY of a map entry: the one name of the one-name form, the index name
    of the other forms -/
def mapKeyName (b : Binding) : Option GoString :=
  match b.mode with
  | .default => some b.default
  | .index => some b.index
  | .indexAndValue => some b.index
  | .value => none

def aliasVar (x : GoString) (path : List GoString) : LocalVar :=
  { name := x, path := path, value := none }
def valueVar (k : GoString) (v : GoVal) : LocalVar :=
  { name := k, path := [], value := some v }

/-- what a quantifier over a list pushes for element `i`, mode by mode: the alias of the element
    first, the index after it (newer) -/
theorem listBindings_shaped (sel : Selector) (b : Binding) (i : Nat) (hs : Shaped b) :
    listBindings sel b i =
      (match listValueName b with
        | some x => [aliasVar x (sel.path ++ [GoString.natToDec i])]
        | none => []) ++
      (match listIndexName b with
        | some k => [valueVar k (.int .int "" i)]
        | none => []) := by
  unfold Shaped at hs
  unfold listBindings listValueName listIndexName aliasVar valueVar
  cases hm : b.mode <;> simp only [hm] at hs <;> obtain ⟨h1, h2, h3⟩ := hs <;>
    simp [h1, h2, h3]

/-- … and over a string-keyed map for the entry with key `key` -/
theorem mapBindings_shaped (sel : Selector) (b : Binding) (key : GoString) (hs : Shaped b) :
    mapBindings sel b key =
      (match mapValueName b with
        | some x => [aliasVar x (sel.path ++ [key])]
        | none => []) ++
      (match mapKeyName b with
        | some k => [valueVar k (.str "" key)]
        | none => []) := by
  unfold Shaped at hs
  unfold mapBindings mapValueName mapKeyName aliasVar valueVar
  cases hm : b.mode <;> simp only [hm] at hs <;> obtain ⟨h1, h2, h3⟩ := hs <;>
    simp [h1, h2, h3]

/-- C06.4, the one-name form: `any S as x {…}` binds the VALUE for lists and the KEY for maps -/
theorem one_name_form (sel : Selector) (b : Binding) (hs : Shaped b) (hm : b.mode = .default) :
    (∀ i, listBindings sel b i = [aliasVar b.default (sel.path ++ [GoString.natToDec i])]) ∧
    (∀ key, mapBindings sel b key = [valueVar b.default (.str "" key)]) := by
  constructor
  · intro i; rw [listBindings_shaped sel b i hs]; simp [listValueName, listIndexName, hm]
  · intro k; rw [mapBindings_shaped sel b k hs]; simp [mapValueName, mapKeyName, hm]

/-! ### The scan of `getValue` over the local variables -/

theorem resolveLocals_nil_path (ls : List LocalVar) : resolveLocals ls [] = .ok (.inr []) := by
  cases ls <;> rfl

/-- scanning `A ++ B` is scanning `A` and, unless a key/index binding of `A` ended the scan,
    scanning `B` with the path `A` left -/
theorem resolveLocals_append (A B : List LocalVar) (p : List GoString) :
    resolveLocals (A ++ B) p =
      match resolveLocals A p with
      | .ok (.inr q) => resolveLocals B q
      | r => r := by
  induction A generalizing p with
  | nil => simp [resolveLocals]
  | cons lv A ih =>
    cases p with
    | nil => simp [resolveLocals, resolveLocals_nil_path]
    | cons n rest =>
      simp only [List.cons_append, resolveLocals]
      by_cases hn : n = lv.name
      · by_cases hp : lv.path.isEmpty
        · by_cases hr : rest.isEmpty <;> simp [hn, hp, hr]
        · simp [hn, hp, ih]
      · have : (n == lv.name) = false := by simpa using hn
        simp [this, ih]

/-- a binding whose name is not the first part of the path is skipped -/
theorem resolveLocals_miss (lv : LocalVar) (older : List LocalVar) (n : GoString)
    (rest : List GoString) (h : n ≠ lv.name) :
    resolveLocals (lv :: older) (n :: rest) = resolveLocals older (n :: rest) := by
  have : (n == lv.name) = false := by simpa using h
  simp [resolveLocals, this]

/-- an alias binding replaces the first part by its path; the scan continues with the OLDER
    bindings only -/
theorem resolveLocals_alias (x : GoString) (path : List GoString) (v : Any)
    (older : List LocalVar) (rest : List GoString) (hp : path ≠ []) :
    resolveLocals ({ name := x, path := path, value := v } :: older) (x :: rest) =
      resolveLocals older (path ++ rest) := by
  have : path.isEmpty = false := by cases path <;> simp_all
  simp [resolveLocals, this]

/-- a key/index binding ends the scan: its value if nothing follows, an error otherwise -/
theorem resolveLocals_value (k : GoString) (v : Any) (older : List LocalVar)
    (rest : List GoString) :
    resolveLocals ({ name := k, path := [], value := v } :: older) (k :: rest) =
      if rest = [] then .ok (.inl v) else .error () := by
  cases rest <;> simp [resolveLocals]

/-- `getValue` depends on the local variables only through the scan -/
theorem getValue_congr (o o' : Opts) (p p' : List GoString)
    (ht : o.tagName = o'.tagName) (hh : o.hook = o'.hook) (hu : o.unknown = o'.unknown)
    (h : resolveLocals o.locals.reverse p = resolveLocals o'.locals.reverse p') :
    getValue o d p = getValue o' d p' := by
  unfold getValue Opts.cfg
  rw [h, ht, hh, hu]

theorem getValue_of_resolve_inl (p : List GoString) (v : Any)
    (h : resolveLocals o.locals.reverse p = .ok (.inl v)) : getValue o d p = .present v := by
  unfold getValue; rw [h]

theorem getValue_of_resolve_error (p : List GoString)
    (h : resolveLocals o.locals.reverse p = .error ()) : getValue o d p = .error := by
  unfold getValue; rw [h]

/-- C06.4 (`alias_resolves_in_outer_scope`): inside the braces of a quantifier over a list, a
    path that starts with the value name `x` is rewritten to the element's path `S.i.rest`, and
    that path is then resolved by the bindings of the ENCLOSING scopes only (`o.locals`): neither
    the index name of the same quantifier nor `x` itself can capture the first part of `S`
    (the order of /repo commit 1db1c61).  The only side condition: `x` is not also the index
    name — that is the `any S as x, x` form, an error by `coll_same_name_error`. -/
theorem alias_resolves_in_outer_scope (sel : Selector) (b : Binding) (i : Nat) (hs : Shaped b)
    (x : GoString) (hx : listValueName b = some x) (hk : listIndexName b ≠ some x)
    (rest : List GoString) :
    resolveLocals (o.locals ++ listBindings sel b i).reverse (x :: rest) =
      resolveLocals o.locals.reverse (sel.path ++ [GoString.natToDec i] ++ rest) := by
  rw [listBindings_shaped sel b i hs, hx]
  cases hkn : listIndexName b with
  | none =>
    simp only [List.append_nil, List.reverse_append, List.reverse_cons, List.reverse_nil,
      List.nil_append, List.cons_append, aliasVar]
    exact resolveLocals_alias x _ none _ rest (by simp)
  | some k =>
    have hne : x ≠ k := by intro h; apply hk; rw [hkn, h]
    simp only [List.reverse_append, List.reverse_cons, List.reverse_nil,
      List.nil_append, List.cons_append, aliasVar, valueVar]
    rw [resolveLocals_miss _ _ _ _ (by simpa using hne)]
    exact resolveLocals_alias x _ none _ rest (by simp)

/-- C06.4 (`binding_scope`, value name): `x.rest` inside the braces selects `rest` within element
    `i` of `S`, as seen from outside the braces -/
theorem binding_scope_value (sel : Selector) (b : Binding) (i : Nat) (hs : Shaped b)
    (x : GoString) (hx : listValueName b = some x) (hk : listIndexName b ≠ some x)
    (rest : List GoString) :
    getValue { o with locals := o.locals ++ listBindings sel b i } d (x :: rest) =
      getValue o d (sel.path ++ [GoString.natToDec i] ++ rest) :=
  getValue_congr d _ _ _ _ rfl rfl rfl
    (alias_resolves_in_outer_scope o sel b i hs x hx hk rest)

/-- C06.4 (`binding_scope`, index name): the index name is the position itself, an `int`;
    selecting into it is an error -/
theorem binding_scope_index (sel : Selector) (b : Binding) (i : Nat) (hs : Shaped b)
    (k : GoString) (hk : listIndexName b = some k) :
    getValue { o with locals := o.locals ++ listBindings sel b i } d [k] =
      .present (some (.int .int "" i)) ∧
    ∀ p ps, getValue { o with locals := o.locals ++ listBindings sel b i } d (k :: p :: ps) =
      .error := by
  have hscan : ∀ rest, resolveLocals (o.locals ++ listBindings sel b i).reverse (k :: rest) =
      if rest = [] then .ok (.inl (some (.int .int "" i))) else .error () := by
    intro rest
    rw [listBindings_shaped sel b i hs, hk]
    simp only [List.reverse_append, List.reverse_cons, List.reverse_nil,
      List.nil_append, List.cons_append, valueVar]
    exact resolveLocals_value k _ _ rest
  constructor
  · exact getValue_of_resolve_inl _ d _ _ (by simpa using hscan [])
  · intro p ps
    exact getValue_of_resolve_error _ d _ (by simpa using hscan (p :: ps))

/-- C06.4 (maps, value name): the value name aliases the entry `S.key` -/
theorem binding_scope_map_value (sel : Selector) (b : Binding) (key : GoString) (hs : Shaped b)
    (x : GoString) (hx : mapValueName b = some x) (hk : mapKeyName b ≠ some x)
    (rest : List GoString) :
    getValue { o with locals := o.locals ++ mapBindings sel b key } d (x :: rest) =
      getValue o d (sel.path ++ [key] ++ rest) := by
  refine getValue_congr d { o with locals := o.locals ++ mapBindings sel b key } o _ _ rfl rfl rfl ?_
  show resolveLocals (o.locals ++ mapBindings sel b key).reverse (x :: rest) = _
  rw [mapBindings_shaped sel b key hs, hx]
  cases hkn : mapKeyName b with
  | none =>
    simp only [List.append_nil, List.reverse_append, List.reverse_cons, List.reverse_nil,
      List.nil_append, List.cons_append, aliasVar]
    exact resolveLocals_alias x _ none _ rest (by simp)
  | some k =>
    have hne : x ≠ k := by intro h; apply hk; rw [hkn, h]
    simp only [List.reverse_append, List.reverse_cons, List.reverse_nil,
      List.nil_append, List.cons_append, aliasVar, valueVar]
    rw [resolveLocals_miss _ _ _ _ (by simpa using hne)]
    exact resolveLocals_alias x _ none _ rest (by simp)

/-- C06.4 (maps, key name): the key name is the key itself, a `string`; selecting into it is an
    error -/
theorem binding_scope_key (sel : Selector) (b : Binding) (key : GoString) (hs : Shaped b)
    (k : GoString) (hk : mapKeyName b = some k) :
    getValue { o with locals := o.locals ++ mapBindings sel b key } d [k] =
      .present (some (.str "" key)) ∧
    ∀ p ps, getValue { o with locals := o.locals ++ mapBindings sel b key } d (k :: p :: ps) =
      .error := by
  have hscan : ∀ rest, resolveLocals (o.locals ++ mapBindings sel b key).reverse (k :: rest) =
      if rest = [] then .ok (.inl (some (.str "" key))) else .error () := by
    intro rest
    rw [mapBindings_shaped sel b key hs, hk]
    simp only [List.reverse_append, List.reverse_cons, List.reverse_nil,
      List.nil_append, List.cons_append, valueVar]
    exact resolveLocals_value k _ _ rest
  constructor
  · exact getValue_of_resolve_inl _ d _ _ (by simpa using hscan [])
  · intro p ps
    exact getValue_of_resolve_error _ d _ (by simpa using hscan (p :: ps))

/-- C06.4 (scoping): a path whose first part is none of the names the quantifier binds means
    inside the braces what it means outside -/
theorem binding_scope_other (bs : List LocalVar) (y : GoString) (rest : List GoString)
    (hy : ∀ lv ∈ bs, lv.name ≠ y) :
    getValue { o with locals := o.locals ++ bs } d (y :: rest) = getValue o d (y :: rest) := by
  refine getValue_congr d { o with locals := o.locals ++ bs } o _ _ rfl rfl rfl ?_
  show resolveLocals (o.locals ++ bs).reverse (y :: rest) = _
  rw [List.reverse_append, resolveLocals_append]
  have : resolveLocals bs.reverse (y :: rest) = .ok (.inr (y :: rest)) := by
    have hy' : ∀ lv ∈ bs.reverse, lv.name ≠ y := fun lv h => hy lv (List.mem_reverse.mp h)
    generalize bs.reverse = l at hy'
    induction l with
    | nil => rfl
    | cons lv l ih =>
      rw [resolveLocals_miss _ _ _ _ (fun h => hy' lv (by simp) h.symm)]
      exact ih (fun lv' h => hy' lv' (by simp [h]))
  rw [this]

/-- C06.4 (`shadowing`): whatever `x` means outside the braces — an outer quantifier's index
    `w`, an outer alias, or a top-level field of the datum — inside the braces of
    `any S as x {…}` over a list it is element `i` of `S`, and of `any S as x, v {…}` it is the
    index; outside (with `o.locals` only) the old meaning applies. -/
theorem shadowing (sel : Selector) (b : Binding) (i : Nat) (hs : Shaped b) (x : GoString)
    (outer : List LocalVar) (w : GoVal) (ho : o.locals = outer ++ [valueVar x w]) :
    -- outside: the outer binding
    getValue o d [x] = .present (some w) ∧
    -- inside, `x` the value name: the element, resolved in the outer scope
    (listValueName b = some x → listIndexName b ≠ some x →
      getValue { o with locals := o.locals ++ listBindings sel b i } d [x] =
        getValue o d (sel.path ++ [GoString.natToDec i])) ∧
    -- inside, `x` the index name: the position
    (listIndexName b = some x →
      getValue { o with locals := o.locals ++ listBindings sel b i } d [x] =
        .present (some (.int .int "" i))) := by
  refine ⟨?_, ?_, ?_⟩
  · apply getValue_of_resolve_inl
    rw [ho]
    simp only [List.reverse_append, List.reverse_cons, List.reverse_nil, List.nil_append,
      List.cons_append, valueVar]
    simpa using resolveLocals_value x (some w) outer.reverse []
  · intro hx hk
    simpa using binding_scope_value o d sel b i hs x hx hk []
  · intro hk
    exact (binding_scope_index o d sel b i hs x hk).1

/-- C06.4 (`shadowing` of a top-level field): with no enclosing binding of `x`, outside the
    braces `x.rest` is the datum's field/key `x`; inside it is the binding -/
theorem shadowing_field (sel : Selector) (b : Binding) (i : Nat) (hs : Shaped b) (x : GoString)
    (rest : List GoString) (hno : ∀ lv ∈ o.locals, lv.name ≠ x)
    (hx : listValueName b = some x) (hk : listIndexName b ≠ some x) :
    resolveLocals o.locals.reverse (x :: rest) = .ok (.inr (x :: rest)) ∧
    getValue { o with locals := o.locals ++ listBindings sel b i } d (x :: rest) =
      getValue o d (sel.path ++ [GoString.natToDec i] ++ rest) := by
  refine ⟨?_, binding_scope_value o d sel b i hs x hx hk rest⟩
  have hy' : ∀ lv ∈ o.locals.reverse, lv.name ≠ x := fun lv h => hno lv (List.mem_reverse.mp h)
  generalize o.locals.reverse = l at hy'
  induction l with
  | nil => rfl
  | cons lv l ih =>
    rw [resolveLocals_miss _ _ _ _ (fun h => hy' lv (by simp) h.symm)]
    exact ih (fun lv' h => hy' lv' (by simp [h]))

/-- C06.4 (scoping): the bindings of a quantifier do not leak to what follows its braces -/
theorem scope_ends_at_brace (op : CollOp) (sel : Selector) (b : Binding) (inner r : Expr) :
    evaluate re (.and (.coll op sel b inner) r) o d =
      C03.andTable (evaluate re (.coll op sel b inner) o d) (evaluate re r o d) :=
  C03.and_table re o d _ r

/-! ## 5. Unrolling: `any S as x {P(x)}` = `P(S.0) or P(S.1) or …` -/

/-- replace a leading `x` of a selector path by the element's path -/
def substPath (x : GoString) (elem : List GoString) : List GoString → List GoString
  | [] => []
  | n :: rest => if n = x then elem ++ rest else n :: rest

def substSel (x : GoString) (elem : List GoString) (sel : Selector) : Selector :=
  { sel with path := substPath x elem sel.path }

/-- the quantifier pushes a binding named `x` -/
def bindsName (b : Binding) (x : GoString) : Bool :=
  (!b.default.isEmpty && b.default == x) || (!b.index.isEmpty && b.index == x) ||
    (!b.value.isEmpty && b.value == x)

/-- capture-avoiding substitution of the element path for the value name `x`: every selector
    (of a match and of a quantifier — the collection selector stands OUTSIDE the braces) that is
    in the scope of the outer `x`; the body of a quantifier that rebinds `x` is left alone -/
def subst (x : GoString) (elem : List GoString) : Expr → Expr
  | .not e => .not (subst x elem e)
  | .and l r => .and (subst x elem l) (subst x elem r)
  | .or l r => .or (subst x elem l) (subst x elem r)
  | .match_ sel op v => .match_ (substSel x elem sel) op v
  | .coll op sel b inner =>
    .coll op (substSel x elem sel) b (if bindsName b x then inner else subst x elem inner)

/-- right-nested disjunction of a non-empty list (`orChain [] ` is a dummy) -/
def orChain : List Expr → Expr
  | [] => .match_ ⟨.unknown, []⟩ .isEmpty none
  | [e] => e
  | e :: e' :: es => .or e (orChain (e' :: es))

def andChain : List Expr → Expr
  | [] => .match_ ⟨.unknown, []⟩ .isEmpty none
  | [e] => e
  | e :: e' :: es => .and e (andChain (e' :: es))

/-- at most one of the bindings a quantifier pushes is an alias (true of every parser-built
    binding record: the one-name form sets `default` only) -/
def oneAlias (b : Binding) : Bool := b.default.isEmpty || b.value.isEmpty

/-- Side condition of the unrolling, for the substituted name `x` and the FIRST part `h` of the
    element path that replaces it.  For every quantifier in the body that is in the scope of the
    outer `x`:
     * its selector has at least one part (with an empty selector the alias path is the bare
       index/key, which is not a selector occurrence that `subst` can see);
     * its binding record pushes at most one alias;
     * unless it rebinds `x`, it binds no name equal to `h` — otherwise the substituted path
       `h.….i.rest` would be captured by that binding, while the original `x.rest` is not. -/
def unrollOK (x h : GoString) : Expr → Bool
  | .not e => unrollOK x h e
  | .and l r => unrollOK x h l && unrollOK x h r
  | .or l r => unrollOK x h l && unrollOK x h r
  | .match_ .. => true
  | .coll _ sel b inner =>
    !sel.path.isEmpty && oneAlias b &&
      (bindsName b x || (!bindsName b h && unrollOK x h inner))

def substLV (x : GoString) (elem : List GoString) (lv : LocalVar) : LocalVar :=
  { lv with path := substPath x elem lv.path }

@[simp] theorem substPath_nil (x : GoString) (elem : List GoString) : substPath x elem [] = [] := rfl

theorem substPath_append (x : GoString) (elem p q : List GoString) (hp : p ≠ []) :
    substPath x elem (p ++ q) = substPath x elem p ++ q := by
  cases p with
  | nil => exact absurd rfl hp
  | cons n rest =>
    simp only [List.cons_append, substPath]
    split <;> simp

theorem substPath_isEmpty (x : GoString) (elem p : List GoString) (he : elem ≠ []) :
    (substPath x elem p).isEmpty = p.isEmpty := by
  cases p with
  | nil => rfl
  | cons n rest =>
    simp only [substPath]
    split
    · cases elem with
      | nil => exact absurd rfl he
      | cons a as => rfl
    · rfl

theorem substPath_ne_head (x : GoString) (elem : List GoString) (n : GoString)
    (rest : List GoString) (h : n ≠ x) : substPath x elem (n :: rest) = n :: rest := by
  simp [substPath, h]

/-- Lemma A (the scope of the outer `x` is still open): the scan through inner bindings `Xr`
    (newest first; none named `x`, none named `h`), then the alias `x ↦ h :: et`, then the outer
    bindings, equals the scan of the substituted path through the substituted inner bindings and
    the outer bindings. -/
theorem resolve_active (x h : GoString) (et : List GoString) (Or : List LocalVar) :
    ∀ (Xr : List LocalVar), (∀ lv ∈ Xr, lv.name ≠ x ∧ lv.name ≠ h) → ∀ p,
    resolveLocals (Xr ++ aliasVar x (h :: et) :: Or) p =
      resolveLocals (Xr.map (substLV x (h :: et)) ++ Or) (substPath x (h :: et) p) := by
  intro Xr
  induction Xr with
  | nil =>
    intro _ p
    cases p with
    | nil => simp [substPath, resolveLocals_nil_path]
    | cons n rest =>
      by_cases hn : n = x
      · subst hn
        simp only [List.nil_append, List.map_nil, substPath, if_true, aliasVar]
        exact resolveLocals_alias n _ none Or rest (by simp)
      · simp only [List.nil_append, List.map_nil, substPath, if_neg hn]
        exact resolveLocals_miss _ _ _ _ (by simpa [aliasVar] using hn)
  | cons lv Xr ih =>
    intro hX p
    have hlv := hX lv (by simp)
    have ih' := ih (fun l hl => hX l (by simp [hl]))
    cases p with
    | nil => simp [substPath, resolveLocals_nil_path]
    | cons n rest =>
      simp only [List.cons_append, List.map_cons]
      by_cases hn : n = lv.name
      · -- the binding fires on both sides (its name is not `x`, so the path is unchanged)
        have hnx : n ≠ x := by rw [hn]; exact hlv.1
        rw [substPath_ne_head _ _ _ _ hnx]
        simp only [resolveLocals, substLV, hn, beq_self_eq_true, if_true,
          substPath_isEmpty x (h :: et) lv.path (by simp)]
        by_cases hp : lv.path.isEmpty
        · simp [hp]
        · have hpne : lv.path ≠ [] := by intro h0; simp [h0] at hp
          simp only [hp, Bool.false_eq_true, if_false]
          rw [ih', substPath_append _ _ _ _ hpne]
      · rw [resolveLocals_miss _ _ _ _ hn, ih']
        by_cases hnx : n = x
        · subst hnx
          simp only [substPath, if_true, List.cons_append]
          rw [resolveLocals_miss _ _ _ _ (by simpa [substLV] using (Ne.symm hlv.2))]
        · rw [substPath_ne_head _ _ _ _ hnx]
          rw [resolveLocals_miss _ _ _ _ (by simpa [substLV] using hn)]

/-- Lemma D (the bindings of one quantifier, all but the oldest of which are key/index
    bindings): substituting in the alias commutes with the scan, provided the scanned path does
    not start with an `x` that falls through -/
theorem resolve_one_quantifier (x : GoString) (elem : List GoString) (he : elem ≠ []) :
    ∀ (bsr : List LocalVar), (∀ lv ∈ bsr.dropLast, lv.path = []) → ∀ p,
    ((∃ lv ∈ bsr, lv.name = x) ∨ p.head? ≠ some x) →
    resolveLocals (bsr.map (substLV x elem)) p =
      match resolveLocals bsr p with
      | .ok (.inr q) => .ok (.inr (substPath x elem q))
      | r => r := by
  intro bsr
  induction bsr with
  | nil =>
    intro _ p hp
    cases p with
    | nil => simp [resolveLocals, substPath]
    | cons n rest =>
      have hn : n ≠ x := by simpa using hp
      simp [resolveLocals, substPath, hn]
  | cons lv rest ih =>
    intro hval p hp
    cases p with
    | nil => simp [resolveLocals, substPath]
    | cons n tl =>
      simp only [List.map_cons]
      by_cases hn : n = lv.name
      · simp only [resolveLocals, substLV, hn, beq_self_eq_true, if_true,
          substPath_isEmpty x elem lv.path he]
        by_cases hpe : lv.path.isEmpty
        · by_cases ht : tl.isEmpty <;> simp [hpe, ht]
        · have hpne : lv.path ≠ [] := by intro h0; simp [h0] at hpe
          have hrest : rest = [] := by
            cases rest with
            | nil => rfl
            | cons r rs => exact absurd (hval lv (by simp [List.dropLast])) hpne
          subst hrest
          simp [hpe, resolveLocals, substPath_append _ _ _ _ hpne]
      · rw [resolveLocals_miss _ _ _ _ (by simpa [substLV] using hn),
          resolveLocals_miss _ _ _ _ hn]
        apply ih
        · intro l hl
          apply hval
          cases rest with
          | nil => simp at hl
          | cons r rs => simp [List.dropLast, hl]
        · rcases hp with ⟨l, hl, hlx⟩ | hp
          · rcases List.mem_cons.mp hl with rfl | hl
            · right; simpa using fun h : n = x => hn (h.trans hlx.symm)
            · left; exact ⟨l, hl, hlx⟩
          · right; exact hp

/-- `evaluate` depends on the local variables only through the scan function -/
theorem collLoop_congr (f f' : Opts → Out) (o o' : Opts) (op : CollOp) (b : Binding)
    {ι : Type} (idx : List ι) (g g' : ι → List LocalVar)
    (h : ∀ i ∈ idx, f { o with locals := o.locals ++ g i } =
      f' { o' with locals := o'.locals ++ g' i }) :
    collLoop f o op b (idx.map g) = collLoop f' o' op b (idx.map g') := by
  induction idx with
  | nil => simp [collLoop]
  | cons i rest ih =>
    simp only [List.map_cons, collLoop]
    rw [h i (by simp), ih (fun j hj => h j (by simp [hj]))]

/-- the kind dispatch of `evaluateCollectionExpression`, with the loop abstracted -/
def collDispatch (op : CollOp) (sel : Selector) (b : Binding)
    (loop : List (List LocalVar) → Out) : GetValue → Out
  | .error => .err false
  | .unmodelled => .unmodelled
  | .absent => .val (op == .all)
  | .present (some (.map _ kt _ _ es)) =>
    if kt != GoType.stringT then .err false
    else loop ((sortKeys (es.map fun e => strKey e.1)).map fun k => mapBindings sel b k)
  | .present (some (.slice _ _ _ xs)) =>
    loop ((List.range xs.length).map fun i => listBindings sel b i)
  | .present (some (.array _ xs)) =>
    loop ((List.range xs.length).map fun i => listBindings sel b i)
  | .present _ => .err false

theorem evaluate_coll (op : CollOp) (sel : Selector) (b : Binding) (inner : Expr) :
    evaluate re (.coll op sel b inner) o d =
      collDispatch op sel b (collLoop (fun o' => evaluate re inner o' d) o op b)
        (getValue o d sel.path) := by
  simp only [evaluate]
  cases getValue o d sel.path with
  | error => rfl
  | unmodelled => rfl
  | absent => rfl
  | present v =>
    cases v with
    | none => rfl
    | some w => cases w <;> rfl

theorem collDispatch_congr (op : CollOp) (sel sel' : Selector) (b : Binding)
    (loop loop' : List (List LocalVar) → Out) (gv : GetValue)
    (hl : ∀ idx : List Nat, loop (idx.map fun i => listBindings sel b i) =
      loop' (idx.map fun i => listBindings sel' b i))
    (hm : ∀ idx : List GoString, loop (idx.map fun k => mapBindings sel b k) =
      loop' (idx.map fun k => mapBindings sel' b k)) :
    collDispatch op sel b loop gv = collDispatch op sel' b loop' gv := by
  cases gv with
  | error => rfl
  | unmodelled => rfl
  | absent => rfl
  | present v =>
    cases v with
    | none => rfl
    | some w =>
      cases w <;> try rfl
      · exact hl _
      · exact hl _
      · simp only [collDispatch]; split
        · rfl
        · exact hm _

theorem evaluate_congr_locals (e : Expr) : ∀ (o : Opts) (L1 L2 : List LocalVar),
    (∀ p, resolveLocals L1.reverse p = resolveLocals L2.reverse p) →
    evaluate re e { o with locals := L1 } d = evaluate re e { o with locals := L2 } d := by
  induction e with
  | not e ih => intro o L1 L2 h; simp only [evaluate]; rw [ih o L1 L2 h]
  | and l r ihl ihr => intro o L1 L2 h; simp only [evaluate]; rw [ihl o L1 L2 h, ihr o L1 L2 h]
  | or l r ihl ihr => intro o L1 L2 h; simp only [evaluate]; rw [ihl o L1 L2 h, ihr o L1 L2 h]
  | match_ sel op v =>
    intro o L1 L2 h
    simp only [evaluate]
    exact C05.match_depends_on_getValue re _ d _ d sel sel op v
      (getValue_congr d _ _ _ _ rfl rfl rfl (h sel.path))
  | coll op sel b inner ih =>
    intro o L1 L2 h
    have hg : getValue { o with locals := L1 } d sel.path =
        getValue { o with locals := L2 } d sel.path :=
      getValue_congr d _ _ _ _ rfl rfl rfl (h sel.path)
    have hstep : ∀ bs : List LocalVar,
        evaluate re inner { o with locals := L1 ++ bs } d =
          evaluate re inner { o with locals := L2 ++ bs } d := by
      intro bs
      apply ih o
      intro p
      rw [List.reverse_append, List.reverse_append, resolveLocals_append, resolveLocals_append]
      cases resolveLocals bs.reverse p with
      | error e => rfl
      | ok r => cases r <;> simp [h]
    rw [evaluate_coll, evaluate_coll, hg]
    apply collDispatch_congr
    · intro idx
      exact collLoop_congr _ _ { o with locals := L1 } { o with locals := L2 } op b idx _ _
        (fun i _ => hstep _)
    · intro idx
      exact collLoop_congr _ _ { o with locals := L1 } { o with locals := L2 } op b idx _ _
        (fun i _ => hstep _)

/-! ### facts about the pushed bindings -/

theorem listBindings_names (sel : Selector) (b : Binding) (i : Nat) (x : GoString) :
    (∃ lv ∈ listBindings sel b i, lv.name = x) ↔ bindsName b x = true := by
  unfold listBindings bindsName
  by_cases h1 : b.default.isEmpty <;> by_cases h2 : b.value.isEmpty <;>
    by_cases h3 : b.index.isEmpty <;> simp [h1, h2, h3] <;> grind

theorem mapBindings_names (sel : Selector) (b : Binding) (k : GoString) (x : GoString) :
    (∃ lv ∈ mapBindings sel b k, lv.name = x) ↔ bindsName b x = true := by
  unfold mapBindings bindsName
  by_cases h1 : b.default.isEmpty <;> by_cases h2 : b.value.isEmpty <;>
    by_cases h3 : b.index.isEmpty <;> simp [h1, h2, h3] <;> grind

theorem listBindings_subst (x : GoString) (elem : List GoString) (sel : Selector) (b : Binding)
    (i : Nat) (hs : sel.path ≠ []) :
    listBindings (substSel x elem sel) b i = (listBindings sel b i).map (substLV x elem) := by
  unfold listBindings substSel substLV
  by_cases h1 : b.default.isEmpty <;> by_cases h2 : b.value.isEmpty <;>
    by_cases h3 : b.index.isEmpty <;>
    simp [h1, h2, h3, substPath_append _ _ _ _ hs, substPath_nil]

theorem mapBindings_subst (x : GoString) (elem : List GoString) (sel : Selector) (b : Binding)
    (k : GoString) (hs : sel.path ≠ []) :
    mapBindings (substSel x elem sel) b k = (mapBindings sel b k).map (substLV x elem) := by
  unfold mapBindings substSel substLV
  by_cases h1 : b.default.isEmpty <;> by_cases h2 : b.value.isEmpty <;>
    by_cases h3 : b.index.isEmpty <;>
    simp [h1, h2, h3, substPath_append _ _ _ _ hs, substPath_nil]

theorem listBindings_oneAlias (sel : Selector) (b : Binding) (i : Nat) (h : oneAlias b = true) :
    ∀ lv ∈ (listBindings sel b i).reverse.dropLast, lv.path = [] := by
  unfold oneAlias at h
  unfold listBindings
  by_cases h1 : b.default.isEmpty <;> by_cases h2 : b.value.isEmpty <;>
    by_cases h3 : b.index.isEmpty <;> simp_all [List.dropLast]

theorem mapBindings_oneAlias (sel : Selector) (b : Binding) (k : GoString) :
    ∀ lv ∈ (mapBindings sel b k).reverse.dropLast, lv.path = [] := by
  unfold mapBindings
  by_cases h1 : b.default.isEmpty <;> by_cases h2 : b.value.isEmpty <;>
    by_cases h3 : b.index.isEmpty <;> simp_all [List.dropLast]

theorem scan_active (x h : GoString) (et : List GoString) (O X : List LocalVar)
    (hX : ∀ lv ∈ X, lv.name ≠ x ∧ lv.name ≠ h) (p : List GoString) :
    resolveLocals (O ++ aliasVar x (h :: et) :: X).reverse p =
      resolveLocals (O ++ X.map (substLV x (h :: et))).reverse (substPath x (h :: et) p) := by
  have e1 : (O ++ aliasVar x (h :: et) :: X).reverse =
      X.reverse ++ aliasVar x (h :: et) :: O.reverse := by simp
  have e2 : (O ++ X.map (substLV x (h :: et))).reverse =
      X.reverse.map (substLV x (h :: et)) ++ O.reverse := by simp [List.map_reverse]
  rw [e1, e2]
  exact resolve_active x h et O.reverse X.reverse
    (fun lv hl => hX lv (List.mem_reverse.mp hl)) p

/-- the scope of the outer `x` has been closed by the bindings `bs` of a quantifier that rebinds
    `x`: the scan functions of the two sides agree on every path -/
theorem scan_shadowed (x h : GoString) (et : List GoString) (O X bs : List LocalVar)
    (hX : ∀ lv ∈ X, lv.name ≠ x ∧ lv.name ≠ h)
    (hone : ∀ lv ∈ bs.reverse.dropLast, lv.path = []) (hx : ∃ lv ∈ bs, lv.name = x)
    (p : List GoString) :
    resolveLocals ((O ++ aliasVar x (h :: et) :: X) ++ bs).reverse p =
      resolveLocals ((O ++ X.map (substLV x (h :: et))) ++ bs.map (substLV x (h :: et))).reverse
        p := by
  rw [List.reverse_append (as := O ++ aliasVar x (h :: et) :: X),
    List.reverse_append (as := O ++ X.map (substLV x (h :: et))), resolveLocals_append,
    resolveLocals_append, ← List.map_reverse]
  rw [resolve_one_quantifier x (h :: et) (by simp) bs.reverse hone p
    (Or.inl (by obtain ⟨lv, hl, hn⟩ := hx; exact ⟨lv, List.mem_reverse.mpr hl, hn⟩))]
  cases resolveLocals bs.reverse p with
  | error e => rfl
  | ok r =>
    cases r with
    | inl v => rfl
    | inr q => exact scan_active x h et O X hX q

/-- Key lemma of the unrolling.  With the alias `x ↦ h :: et` in the local list, below it the
    enclosing bindings `O`, above it the bindings `X` of quantifiers inside the body that do not
    rebind `x`: evaluating `P` equals evaluating the substituted `P` without the alias, the
    inner aliases substituted as well. -/
theorem evaluate_subst (x h : GoString) (et : List GoString) (O : List LocalVar) (P : Expr) :
    ∀ (o : Opts) (X : List LocalVar), unrollOK x h P = true →
      (∀ lv ∈ X, lv.name ≠ x ∧ lv.name ≠ h) →
      evaluate re P { o with locals := O ++ aliasVar x (h :: et) :: X } d =
        evaluate re (subst x (h :: et) P)
          { o with locals := O ++ X.map (substLV x (h :: et)) } d := by
  induction P with
  | not e ih =>
    intro o X hok hX
    simp only [unrollOK] at hok
    simp only [subst, evaluate]; rw [ih o X hok hX]
  | and l r ihl ihr =>
    intro o X hok hX
    simp only [unrollOK, Bool.and_eq_true] at hok
    simp only [subst, evaluate]; rw [ihl o X hok.1 hX, ihr o X hok.2 hX]
  | or l r ihl ihr =>
    intro o X hok hX
    simp only [unrollOK, Bool.and_eq_true] at hok
    simp only [subst, evaluate]; rw [ihl o X hok.1 hX, ihr o X hok.2 hX]
  | match_ sel op v =>
    intro o X _ hX
    simp only [subst, evaluate]
    exact C05.match_depends_on_getValue re _ d _ d sel (substSel x (h :: et) sel) op v
      (getValue_congr d _ _ _ _ rfl rfl rfl (scan_active x h et O X hX sel.path))
  | coll op sel b inner ih =>
    intro o X hok hX
    simp only [unrollOK, Bool.and_eq_true, Bool.or_eq_true, Bool.not_eq_true'] at hok
    obtain ⟨⟨hsel, hone⟩, hbind⟩ := hok
    have hselne : sel.path ≠ [] := by intro h0; simp [h0] at hsel
    have hg : getValue { o with locals := O ++ aliasVar x (h :: et) :: X } d sel.path =
        getValue { o with locals := O ++ X.map (substLV x (h :: et)) } d
          (substSel x (h :: et) sel).path :=
      getValue_congr d _ _ _ _ rfl rfl rfl (scan_active x h et O X hX sel.path)
    -- one element: the bindings `bs` on the left, their substitution on the right
    have hstep : ∀ bs : List LocalVar,
        ((∃ lv ∈ bs, lv.name = x) ↔ bindsName b x = true) →
        ((∃ lv ∈ bs, lv.name = h) ↔ bindsName b h = true) →
        (∀ lv ∈ bs.reverse.dropLast, lv.path = []) →
        evaluate re inner { o with locals := (O ++ aliasVar x (h :: et) :: X) ++ bs } d =
          evaluate re (if bindsName b x then inner else subst x (h :: et) inner)
            { o with locals := (O ++ X.map (substLV x (h :: et))) ++
                bs.map (substLV x (h :: et)) } d := by
      intro bs hnx hnh hdl
      by_cases hb : bindsName b x = true
      · simp only [hb, if_true]
        exact evaluate_congr_locals re d inner o _ _
          (scan_shadowed x h et O X bs hX hdl (hnx.mpr hb))
      · have hb' : bindsName b x = false := by simpa using hb
        simp only [hb', Bool.false_eq_true, if_false]
        have hbh : bindsName b h = false ∧ unrollOK x h inner = true := by
          rcases hbind with h1 | h1
          · exact absurd h1 hb
          · exact h1
        have e1 : (O ++ aliasVar x (h :: et) :: X) ++ bs =
            O ++ aliasVar x (h :: et) :: (X ++ bs) := by simp
        have e2 : (O ++ X.map (substLV x (h :: et))) ++ bs.map (substLV x (h :: et)) =
            O ++ (X ++ bs).map (substLV x (h :: et)) := by simp
        rw [e1, e2]
        apply ih o (X ++ bs) hbh.2
        intro lv hl
        rcases List.mem_append.mp hl with hl | hl
        · exact hX lv hl
        · constructor
          · intro hn; exact hb (hnx.mp ⟨lv, hl, hn⟩)
          · intro hn; have := hnh.mp ⟨lv, hl, hn⟩; simp [hbh.1] at this
    rw [evaluate_coll]
    simp only [subst]
    rw [evaluate_coll, hg]
    apply collDispatch_congr
    · intro idx
      apply collLoop_congr _ _ { o with locals := O ++ aliasVar x (h :: et) :: X }
        { o with locals := O ++ X.map (substLV x (h :: et)) } op b idx
      intro i _
      rw [listBindings_subst x (h :: et) sel b i hselne]
      exact hstep _ (listBindings_names sel b i x) (listBindings_names sel b i h)
        (listBindings_oneAlias sel b i hone)
    · intro idx
      apply collLoop_congr _ _ { o with locals := O ++ aliasVar x (h :: et) :: X }
        { o with locals := O ++ X.map (substLV x (h :: et)) } op b idx
      intro k _
      rw [mapBindings_subst x (h :: et) sel b k hselne]
      exact hstep _ (mapBindings_names sel b k x) (mapBindings_names sel b k h)
        (mapBindings_oneAlias sel b k)

/-! ### the chains -/

theorem evaluate_orChain (es : List Expr) (hne : es ≠ []) :
    evaluate re (orChain es) o d = foldColl .any (es.map fun e => evaluate re e o d) := by
  induction es with
  | nil => exact absurd rfl hne
  | cons e rest ih =>
    cases rest with
    | nil =>
      simp only [orChain, List.map_cons, List.map_nil]
      cases he : evaluate re e o d with
      | val r => cases r <;> simp [foldColl]
      | err eb => rw [C03.err_bool_false re d e o eb he]; simp [foldColl]
      | panic => simp [foldColl]
      | unmodelled => simp [foldColl]
    | cons e' es =>
      have ih' := ih (by simp)
      simp only [orChain, List.map_cons] at ih' ⊢
      rw [C03.or_table, ih']
      cases he : evaluate re e o d with
      | val r => cases r <;> simp [foldColl, C03.orTable]
      | err eb => rw [C03.err_bool_false re d e o eb he]; simp [foldColl, C03.orTable]
      | panic => simp [foldColl, C03.orTable]
      | unmodelled => simp [foldColl, C03.orTable]

theorem evaluate_andChain (es : List Expr) (hne : es ≠ []) :
    evaluate re (andChain es) o d = foldColl .all (es.map fun e => evaluate re e o d) := by
  induction es with
  | nil => exact absurd rfl hne
  | cons e rest ih =>
    cases rest with
    | nil =>
      simp only [andChain, List.map_cons, List.map_nil]
      cases he : evaluate re e o d with
      | val r => cases r <;> simp [foldColl]
      | err eb => rw [C03.err_bool_false re d e o eb he]; simp [foldColl]
      | panic => simp [foldColl]
      | unmodelled => simp [foldColl]
    | cons e' es =>
      have ih' := ih (by simp)
      simp only [andChain, List.map_cons] at ih' ⊢
      rw [C03.and_table, ih']
      cases he : evaluate re e o d with
      | val r => cases r <;> simp [foldColl, C03.andTable]
      | err eb => rw [C03.err_bool_false re d e o eb he]; simp [foldColl, C03.andTable]
      | panic => simp [foldColl, C03.andTable]
      | unmodelled => simp [foldColl, C03.andTable]

/-- the chain of a quantifier: `orChain` for `any`, `andChain` for `all` -/
def chain : CollOp → List Expr → Expr
  | .any => orChain
  | .all => andChain

theorem evaluate_chain (op : CollOp) (es : List Expr) (hne : es ≠ []) :
    evaluate re (chain op es) o d = foldColl op (es.map fun e => evaluate re e o d) := by
  cases op
  · exact evaluate_andChain re o d es hne
  · exact evaluate_orChain re o d es hne

/-- the first part of the path of element `i` (resp. of the entry `key`) of the collection at
    `sel`: the first part of `sel`, or the index / key itself for an empty selector -/
def elemHead (sel : Selector) (last : GoString) : GoString := (sel.path ++ [last]).headD []

theorem elem_path_cons (sel : Selector) (last : GoString) :
    ∃ et, sel.path ++ [last] = elemHead sel last :: et := by
  unfold elemHead
  cases sel.path with
  | nil => exact ⟨[], rfl⟩
  | cons s ss => exact ⟨ss ++ [last], rfl⟩

/-- one element of the unrolling -/
theorem unroll_element (x : GoString) (sel : Selector) (last : GoString) (P : Expr)
    (hok : unrollOK x (elemHead sel last) P = true) :
    evaluate re P { o with locals := o.locals ++ [aliasVar x (sel.path ++ [last])] } d =
      evaluate re (subst x (sel.path ++ [last]) P) o d := by
  obtain ⟨et, he⟩ := elem_path_cons sel last
  rw [he]
  have := evaluate_subst re d x (elemHead sel last) et o.locals P o [] hok (by simp)
  simpa using this

/-- C06.5 (`coll_unroll`, general form).  A quantifier over a present list of `n ≥ 1` elements
    whose binding record pushes exactly the alias `x ↦ S.i` equals the right-nested `or` (for
    `any`) / `and` (for `all`) chain of the substitution instances `P[x := S.i]`, `i = 0 … n-1`,
    evaluated in the enclosing scope.  (For `n = 0` the quantifier is `any` = false /
    `all` = true by `coll_empty`; the expression language has no constant to unroll to.) -/
theorem coll_unroll (op : CollOp) (sel : Selector) (b : Binding) (P : Expr) (v : Any)
    (xs : List GoVal) (hl : IsList v xs) (hv : getValue o d sel.path = .present v)
    (hne : xs ≠ []) (x : GoString) (hns : ¬ sameName b)
    (hb : ∀ i, listBindings sel b i = [aliasVar x (sel.path ++ [GoString.natToDec i])])
    (hok : ∀ i, i < xs.length → unrollOK x (elemHead sel (GoString.natToDec i)) P = true) :
    evaluate re (.coll op sel b P) o d =
      evaluate re (chain op ((List.range xs.length).map fun i =>
        subst x (sel.path ++ [GoString.natToDec i]) P)) o d := by
  rw [coll_list_fold re o d op sel b P v xs hl hv (fun h => hns ⟨h.1, h.2.1⟩)]
  rw [evaluate_chain re o d op _ (by
    cases xs with
    | nil => exact absurd rfl hne
    | cons y ys => simp [List.range_succ_eq_map])]
  rw [List.map_map]
  congr 1
  apply List.map_congr_left
  intro i hi
  simp only [Function.comp]
  rw [hb i]
  exact unroll_element re o d x sel _ P (hok i (List.mem_range.mp hi))

/-- C06.5 for the one-name form `any S as x {P}` (lists: the name is the element) -/
theorem coll_unroll_default (op : CollOp) (sel : Selector) (b : Binding) (P : Expr) (v : Any)
    (xs : List GoVal) (hl : IsList v xs) (hv : getValue o d sel.path = .present v)
    (hne : xs ≠ []) (hs : Shaped b) (hm : b.mode = .default)
    (hok : ∀ i, i < xs.length →
      unrollOK b.default (elemHead sel (GoString.natToDec i)) P = true) :
    evaluate re (.coll op sel b P) o d =
      evaluate re (chain op ((List.range xs.length).map fun i =>
        subst b.default (sel.path ++ [GoString.natToDec i]) P)) o d :=
  coll_unroll re o d op sel b P v xs hl hv hne b.default (by simp [sameName, hm])
    (one_name_form sel b hs hm).1 hok

/-- C06.5 for the value form `any S as _, x {P}` written with the value name only (mode
    `value`) -/
theorem coll_unroll_value (op : CollOp) (sel : Selector) (b : Binding) (P : Expr) (v : Any)
    (xs : List GoVal) (hl : IsList v xs) (hv : getValue o d sel.path = .present v)
    (hne : xs ≠ []) (hs : Shaped b) (hm : b.mode = .value)
    (hok : ∀ i, i < xs.length →
      unrollOK b.value (elemHead sel (GoString.natToDec i)) P = true) :
    evaluate re (.coll op sel b P) o d =
      evaluate re (chain op ((List.range xs.length).map fun i =>
        subst b.value (sel.path ++ [GoString.natToDec i]) P)) o d :=
  coll_unroll re o d op sel b P v xs hl hv hne b.value (by simp [sameName, hm])
    (fun i => by rw [listBindings_shaped sel b i hs]; simp [listValueName, listIndexName, hm]) hok

/-- C06.5 for string-keyed maps, value name only (mode `value`): the chain over the entries in
    sorted key order -/
theorem coll_unroll_map_value (op : CollOp) (sel : Selector) (b : Binding) (P : Expr)
    (n : String) (vt : GoType) (nl : Bool) (es : List (GoVal × GoVal))
    (hv : getValue o d sel.path = .present (some (.map n GoType.stringT vt nl es)))
    (hne : es ≠ []) (hs : Shaped b) (hm : b.mode = .value)
    (hok : ∀ k ∈ sortKeys (es.map fun e => strKey e.1),
      unrollOK b.value (elemHead sel k) P = true) :
    evaluate re (.coll op sel b P) o d =
      evaluate re (chain op ((sortKeys (es.map fun e => strKey e.1)).map fun k =>
        subst b.value (sel.path ++ [k]) P)) o d := by
  rw [coll_map_fold re o d op sel b P n vt nl es hv (by simp [hm])]
  rw [evaluate_chain re o d op _ (by
    intro h
    have := congrArg List.length h
    cases es with
    | nil => exact hne rfl
    | cons e es => simp [sortKeys, List.length_mergeSort] at this)]
  rw [List.map_map]
  congr 1
  apply List.map_congr_left
  intro k hk
  simp only [Function.comp]
  have hb : mapBindings sel b k = [aliasVar b.value (sel.path ++ [k])] := by
    rw [mapBindings_shaped sel b k hs]; simp [mapValueName, mapKeyName, hm]
  rw [hb]
  exact unroll_element re o d b.value sel k P (hok k hk)

/-! ### an unused binding can be dropped (for the two-name form) -/

/-- `k` may be looked up as the first part of a selector of `P` that is not in the scope of a
    quantifier of `P` binding `k`.  (A quantifier with an EMPTY selector counts as a use: its
    alias paths start with the bare index / key, which might spell `k`.) -/
def usesName (k : GoString) : Expr → Bool
  | .not e => usesName k e
  | .and l r => usesName k l || usesName k r
  | .or l r => usesName k l || usesName k r
  | .match_ sel _ _ => sel.path.head? == some k
  | .coll _ sel b inner =>
    sel.path.head? == some k || sel.path.isEmpty || (!bindsName b k && usesName k inner)

/-- scan-order invariant: an alias whose path starts with `k` has an OLDER binding of `k` in the
    same list -/
def kClosed (k : GoString) : List LocalVar → Prop
  | [] => True
  | lv :: older =>
    kClosed k older ∧ (lv.path = [] ∨ lv.path.head? ≠ some k ∨ ∃ l ∈ older, l.name = k)

theorem resolve_drop (k : GoString) (kb : LocalVar) (hk : kb.name = k) (R : List LocalVar) :
    ∀ (Xr : List LocalVar), kClosed k Xr → ∀ p,
    (p.head? ≠ some k ∨ ∃ l ∈ Xr, l.name = k) →
    resolveLocals (Xr ++ kb :: R) p = resolveLocals (Xr ++ R) p := by
  intro Xr
  induction Xr with
  | nil =>
    intro _ p hp
    cases p with
    | nil => simp [resolveLocals_nil_path]
    | cons n rest =>
      have hn : n ≠ kb.name := by
        rcases hp with hp | ⟨l, hl, _⟩
        · rw [hk]; simpa using hp
        · simp at hl
      simpa using resolveLocals_miss kb R n rest hn
  | cons lv older ih =>
    intro hc p hp
    obtain ⟨hco, hlv⟩ := hc
    cases p with
    | nil => simp [resolveLocals_nil_path]
    | cons n rest =>
      simp only [List.cons_append]
      by_cases hn : n = lv.name
      · simp only [resolveLocals, hn, beq_self_eq_true, if_true]
        by_cases hpe : lv.path.isEmpty
        · simp [hpe]
        · have hpne : lv.path ≠ [] := by intro h0; simp [h0] at hpe
          simp only [hpe, Bool.false_eq_true, if_false]
          apply ih hco
          rcases hlv with h1 | h1 | h1
          · exact absurd h1 hpne
          · left
            cases hq : lv.path with
            | nil => exact absurd hq hpne
            | cons a as => rw [hq] at h1; simpa using h1
          · right; exact h1
      · rw [resolveLocals_miss _ _ _ _ hn, resolveLocals_miss _ _ _ _ hn]
        apply ih hco
        rcases hp with hp | ⟨l, hl, hlk⟩
        · left; exact hp
        · rcases List.mem_cons.mp hl with rfl | hl
          · left; simpa using fun h : n = k => hn (h.trans hlk.symm)
          · right; exact ⟨l, hl, hlk⟩

theorem kClosed_append (k : GoString) (A B : List LocalVar) (hB : kClosed k B)
    (hA : ∀ lv ∈ A, lv.path = [] ∨ lv.path.head? ≠ some k ∨ ∃ l ∈ B, l.name = k) :
    kClosed k (A ++ B) := by
  induction A with
  | nil => exact hB
  | cons lv A ih =>
    refine ⟨ih (fun l hl => hA l (by simp [hl])), ?_⟩
    rcases hA lv (by simp) with h | h | ⟨l, hl, hk⟩
    · exact Or.inl h
    · exact Or.inr (Or.inl h)
    · exact Or.inr (Or.inr ⟨l, by simp [hl], hk⟩)

theorem listBindings_paths (sel : Selector) (b : Binding) (i : Nat) :
    ∀ lv ∈ listBindings sel b i, lv.path = [] ∨ lv.path = sel.path ++ [GoString.natToDec i] := by
  unfold listBindings
  by_cases h1 : b.default.isEmpty <;> by_cases h2 : b.value.isEmpty <;>
    by_cases h3 : b.index.isEmpty <;> simp [h1, h2, h3]

theorem mapBindings_paths (sel : Selector) (b : Binding) (k : GoString) :
    ∀ lv ∈ mapBindings sel b k, lv.path = [] ∨ lv.path = sel.path ++ [k] := by
  unfold mapBindings
  by_cases h1 : b.default.isEmpty <;> by_cases h2 : b.value.isEmpty <;>
    by_cases h3 : b.index.isEmpty <;> simp [h1, h2, h3]

/-- a binding `kb` whose name the expression does not use can be removed from the local list,
    wherever it stands -/
theorem evaluate_drop (k : GoString) (kb : LocalVar) (hk : kb.name = k) (O : List LocalVar)
    (P : Expr) : ∀ (o : Opts) (X : List LocalVar), kClosed k X.reverse →
      (usesName k P = false ∨ ∃ l ∈ X, l.name = k) →
      evaluate re P { o with locals := O ++ kb :: X } d =
        evaluate re P { o with locals := O ++ X } d := by
  have hscan : ∀ X : List LocalVar, kClosed k X.reverse → ∀ p,
      (p.head? ≠ some k ∨ ∃ l ∈ X, l.name = k) →
      resolveLocals (O ++ kb :: X).reverse p = resolveLocals (O ++ X).reverse p := by
    intro X hc p hp
    have e1 : (O ++ kb :: X).reverse = X.reverse ++ kb :: O.reverse := by simp
    rw [e1, List.reverse_append]
    apply resolve_drop k kb hk O.reverse X.reverse hc p
    rcases hp with hp | ⟨l, hl, hlk⟩
    · exact Or.inl hp
    · exact Or.inr ⟨l, List.mem_reverse.mpr hl, hlk⟩
  induction P with
  | not e ih =>
    intro o X hc hu
    simp only [usesName] at hu
    simp only [evaluate]; rw [ih o X hc hu]
  | and l r ihl ihr =>
    intro o X hc hu
    simp only [usesName, Bool.or_eq_false_iff] at hu
    simp only [evaluate]
    rw [ihl o X hc (hu.imp_left (·.1)), ihr o X hc (hu.imp_left (·.2))]
  | or l r ihl ihr =>
    intro o X hc hu
    simp only [usesName, Bool.or_eq_false_iff] at hu
    simp only [evaluate]
    rw [ihl o X hc (hu.imp_left (·.1)), ihr o X hc (hu.imp_left (·.2))]
  | match_ sel op v =>
    intro o X hc hu
    simp only [evaluate]
    refine C05.match_depends_on_getValue re _ d _ d sel sel op v
      (getValue_congr d _ _ _ _ rfl rfl rfl (hscan X hc sel.path ?_))
    exact hu.imp_left (by simp [usesName])
  | coll op sel b inner ih =>
    intro o X hc hu
    have hsel : sel.path.head? ≠ some k ∨ ∃ l ∈ X, l.name = k :=
      hu.imp_left (by simp only [usesName, Bool.or_eq_false_iff]; intro h; simpa using h.1.1)
    have hg : getValue { o with locals := O ++ kb :: X } d sel.path =
        getValue { o with locals := O ++ X } d sel.path :=
      getValue_congr d _ _ _ _ rfl rfl rfl (hscan X hc sel.path hsel)
    have hstep : ∀ (bs : List LocalVar) (last : GoString),
        ((∃ lv ∈ bs, lv.name = k) ↔ bindsName b k = true) →
        (∀ lv ∈ bs, lv.path = [] ∨ lv.path = sel.path ++ [last]) →
        evaluate re inner { o with locals := (O ++ kb :: X) ++ bs } d =
          evaluate re inner { o with locals := (O ++ X) ++ bs } d := by
      intro bs last hnk hpaths
      have e1 : (O ++ kb :: X) ++ bs = O ++ kb :: (X ++ bs) := by simp
      have e2 : (O ++ X) ++ bs = O ++ (X ++ bs) := by simp
      rw [e1, e2]
      apply ih o (X ++ bs)
      · rw [List.reverse_append]
        apply kClosed_append k _ _ hc
        intro lv hl
        rcases hpaths lv (List.mem_reverse.mp hl) with hp | hp
        · exact Or.inl hp
        · rcases hu with hu | ⟨l, hl', hlk⟩
          · right; left
            simp only [usesName, Bool.or_eq_false_iff] at hu
            rw [hp]
            cases hsp : sel.path with
            | nil => simp [hsp] at hu
            | cons a as => have := hu.1.1; rw [hsp] at this; simpa using this
          · right; right; exact ⟨l, List.mem_reverse.mpr hl', hlk⟩
      · rcases hu with hu | ⟨l, hl', hlk⟩
        · simp only [usesName, Bool.or_eq_false_iff, Bool.and_eq_false_iff,
            Bool.not_eq_false'] at hu
          rcases hu.2 with hb | hi
          · right
            obtain ⟨lv, hl, hn⟩ := hnk.mpr hb
            exact ⟨lv, by simp [hl], hn⟩
          · left; exact hi
        · right; exact ⟨l, by simp [hl'], hlk⟩
    rw [evaluate_coll, evaluate_coll, hg]
    apply collDispatch_congr
    · intro idx
      exact collLoop_congr _ _ { o with locals := O ++ kb :: X } { o with locals := O ++ X }
        op b idx _ _
        (fun i _ => hstep _ _ (listBindings_names sel b i k) (listBindings_paths sel b i))
    · intro idx
      exact collLoop_congr _ _ { o with locals := O ++ kb :: X } { o with locals := O ++ X }
        op b idx _ _
        (fun key _ => hstep _ _ (mapBindings_names sel b key k) (mapBindings_paths sel b key))

/-- C06.5 for the two-name form `any S as k, x {P}` over a list, when the index name `k` is not
    used by the body (and differs from `x`): the same chain -/
theorem coll_unroll_index_and_value (op : CollOp) (sel : Selector) (b : Binding) (P : Expr)
    (v : Any) (xs : List GoVal) (hl : IsList v xs) (hv : getValue o d sel.path = .present v)
    (hne : xs ≠ []) (hs : Shaped b) (hm : b.mode = .indexAndValue) (hkx : b.index ≠ b.value)
    (hunused : usesName b.index P = false)
    (hok : ∀ i, i < xs.length →
      unrollOK b.value (elemHead sel (GoString.natToDec i)) P = true) :
    evaluate re (.coll op sel b P) o d =
      evaluate re (chain op ((List.range xs.length).map fun i =>
        subst b.value (sel.path ++ [GoString.natToDec i]) P)) o d := by
  rw [coll_list_fold re o d op sel b P v xs hl hv (fun h => hkx h.2.1)]
  rw [evaluate_chain re o d op _ (by
    cases xs with
    | nil => exact absurd rfl hne
    | cons y ys => simp [List.range_succ_eq_map])]
  rw [List.map_map]
  congr 1
  apply List.map_congr_left
  intro i hi
  simp only [Function.comp]
  have hb : listBindings sel b i =
      [aliasVar b.value (sel.path ++ [GoString.natToDec i]), valueVar b.index (.int .int "" i)] := by
    rw [listBindings_shaped sel b i hs]; simp [listValueName, listIndexName, hm]
  rw [hb]
  have hdrop := evaluate_drop re d b.index (valueVar b.index (.int .int "" i)) rfl
    (o.locals ++ [aliasVar b.value (sel.path ++ [GoString.natToDec i])]) P o []
    (by simp [kClosed]) (Or.inl hunused)
  simp only [List.append_assoc, List.cons_append, List.nil_append, List.append_nil] at hdrop
  rw [hdrop]
  exact unroll_element re o d b.value sel _ P (hok i (List.mem_range.mp hi))

/-- C06.5 for the two-name form `any M as k, x {P}` over a string-keyed map, when the key name
    `k` is not used by the body -/
theorem coll_unroll_map_index_and_value (op : CollOp) (sel : Selector) (b : Binding) (P : Expr)
    (n : String) (vt : GoType) (nl : Bool) (es : List (GoVal × GoVal))
    (hv : getValue o d sel.path = .present (some (.map n GoType.stringT vt nl es)))
    (hne : es ≠ []) (hs : Shaped b) (hm : b.mode = .indexAndValue) (hkx : b.index ≠ b.value)
    (hunused : usesName b.index P = false)
    (hok : ∀ k ∈ sortKeys (es.map fun e => strKey e.1),
      unrollOK b.value (elemHead sel k) P = true) :
    evaluate re (.coll op sel b P) o d =
      evaluate re (chain op ((sortKeys (es.map fun e => strKey e.1)).map fun k =>
        subst b.value (sel.path ++ [k]) P)) o d := by
  rw [coll_map_fold re o d op sel b P n vt nl es hv (fun h => hkx h.2.1)]
  rw [evaluate_chain re o d op _ (by
    intro h
    have := congrArg List.length h
    cases es with
    | nil => exact hne rfl
    | cons e es => simp [sortKeys, List.length_mergeSort] at this)]
  rw [List.map_map]
  congr 1
  apply List.map_congr_left
  intro k hk
  simp only [Function.comp]
  have hb : mapBindings sel b k =
      [aliasVar b.value (sel.path ++ [k]), valueVar b.index (.str "" k)] := by
    rw [mapBindings_shaped sel b k hs]; simp [mapValueName, mapKeyName, hm]
  rw [hb]
  have hdrop := evaluate_drop re d b.index (valueVar b.index (.str "" k)) rfl
    (o.locals ++ [aliasVar b.value (sel.path ++ [k])]) P o []
    (by simp [kClosed]) (Or.inl hunused)
  simp only [List.append_assoc, List.cons_append, List.nil_append, List.append_nil] at hdrop
  rw [hdrop]
  exact unroll_element re o d b.value sel k P (hok k hk)

/-! ## Non-vacuity and the necessity of the side conditions -/

section Examples

def f64_1 : GoVal := .float .float64 "" 0x3FF0000000000000
def f64_2 : GoVal := .float .float64 "" 0x4000000000000000

/-- `{"k": [1, 2]}` as `encoding/json` decodes it -/
def exDatum : Any :=
  some (.map "" GoType.stringT .iface false
    [(.str "" [107], .iface (some (.slice "" .iface false [.iface (some f64_1), .iface (some f64_2)])))])

def exOpts : Opts := { tagName := [98, 101, 120, 112, 114], hook := .off, unknown := none, locals := [] }
def noRe : RegexOracle := fun _ => none

def selK : Selector := ⟨.bexpr, [[107]]⟩                         -- k
def bindX : Binding := { mode := .default, default := [120] }      -- as x
def bodyXeq (lit : UInt8) : Expr := .match_ ⟨.bexpr, [[120]]⟩ .equal (some [lit])   -- x == lit

/-- `any k as x { x == 2 }` is true, `all k as x { x == 2 }` false -/
example : evaluate noRe (.coll .any selK bindX (bodyXeq 50)) exOpts exDatum = .val true := by
  decide +kernel
example : evaluate noRe (.coll .all selK bindX (bodyXeq 50)) exOpts exDatum = .val false := by
  decide +kernel

/-- … and equals its unrolling `k.0 == 2 or k.1 == 2` by `coll_unroll_default` -/
example : evaluate noRe (.coll .any selK bindX (bodyXeq 50)) exOpts exDatum =
    evaluate noRe (.or (.match_ ⟨.bexpr, [[107], [48]]⟩ .equal (some [50]))
      (.match_ ⟨.bexpr, [[107], [49]]⟩ .equal (some [50]))) exOpts exDatum := by
  have hv : getValue exOpts exDatum selK.path = .present (some (.slice "" .iface false
      [.iface (some f64_1), .iface (some f64_2)])) := by rfl
  exact coll_unroll_default noRe exOpts exDatum .any selK bindX (bodyXeq 50) _
    [.iface (some f64_1), .iface (some f64_2)] (Or.inl ⟨_, _, _, rfl⟩) hv
    (by simp) (by decide) rfl (by intro i _; rfl)

/-- a body with a nested quantifier through the alias: on `{"k": [[1], [2]]}`-shaped data the
    statement is the same; here `any k as x { any k as y { y == 2 } }` satisfies the side
    condition and unrolls to `(any k as y { y == 2 }) or (any k as y { y == 2 })` -/
example : evaluate noRe (.coll .any selK bindX
      (.coll .any selK { mode := .default, default := [121] }
        (.match_ ⟨.bexpr, [[121]]⟩ .equal (some [50])))) exOpts exDatum =
    evaluate noRe (chain .any ((List.range 2).map fun i =>
      subst [120] (selK.path ++ [GoString.natToDec i])
        (.coll .any selK { mode := .default, default := [121] }
          (.match_ ⟨.bexpr, [[121]]⟩ .equal (some [50]))))) exOpts exDatum := by
  have hv : getValue exOpts exDatum selK.path = .present (some (.slice "" .iface false
      [.iface (some f64_1), .iface (some f64_2)])) := by rfl
  exact coll_unroll_default noRe exOpts exDatum .any selK bindX _ _
    [.iface (some f64_1), .iface (some f64_2)] (Or.inl ⟨_, _, _, rfl⟩) hv
    (by simp) (by decide) rfl (by intro i _; rfl)

/-- the case of /repo commit 1db1c61: `any k as k, v { v == 1 }` — the index name `k` of the
    quantifier does not capture the collection path `k` that the alias `v` stands for -/
example : evaluate noRe
    (.coll .any selK { mode := .indexAndValue, index := [107], value := [118] }
      (.match_ ⟨.bexpr, [[118]]⟩ .equal (some [49]))) exOpts exDatum = .val true := by
  decide +kernel

/-- the index name is the position: `any k as i, v { i == 1 and v == 2 }` -/
example : evaluate noRe
    (.coll .any selK { mode := .indexAndValue, index := [105], value := [118] }
      (.and (.match_ ⟨.bexpr, [[105]]⟩ .equal (some [49]))
        (.match_ ⟨.bexpr, [[118]]⟩ .equal (some [50])))) exOpts exDatum = .val true := by
  decide +kernel

/-- `any k as x, x {…}` is an error; over `{"k": []}` it is `false` -/
example : evaluate noRe
    (.coll .any selK { mode := .indexAndValue, index := [120], value := [120] } (bodyXeq 49))
    exOpts exDatum = .err false := by
  decide +kernel

/-- the first decisive element ends the fold: `any k as x { x == 1 or x.f == 1 }` never reaches
    the erroneous `x.f` of element 1, while `all` of the same body does -/
example : evaluate noRe (.coll .any selK bindX
    (.or (bodyXeq 49) (.match_ ⟨.bexpr, [[120], [102]]⟩ .equal (some [49])))) exOpts exDatum
      = .val true := by
  decide +kernel
example : evaluate noRe (.coll .all selK bindX
    (.or (bodyXeq 49) (.match_ ⟨.bexpr, [[120], [102]]⟩ .equal (some [49])))) exOpts exDatum
      = .err false := by
  decide +kernel

/-- iterating a scalar is an error -/
example : evaluate noRe (.coll .any ⟨.bexpr, [[107], [48]]⟩ bindX (bodyXeq 49)) exOpts exDatum
    = .err false := by
  decide +kernel

/-- `{"k": [{"a": [0], "b": 1}]}` -/
def capDatum : Any :=
  some (.map "" GoType.stringT .iface false
    [(.str "" [107], .iface (some (.slice "" .iface false
      [.iface (some (.map "" GoType.stringT .iface false
        [(.str "" [97], .iface (some (.slice "" .iface false
            [.iface (some (.float .float64 "" 0))]))),
         (.str "" [98], .iface (some f64_1))]))])))])

/-- `any x.a as k { x.b == 1 }`: the body of `any k as x {…}` below -/
def capBody : Expr :=
  .coll .any ⟨.bexpr, [[120], [97]]⟩ { mode := .default, default := [107] }
    (.match_ ⟨.bexpr, [[120], [98]]⟩ .equal (some [49]))

/-- The capture side condition of the unrolling is necessary.  In
    `any k as x { any x.a as k { x.b == 1 } }` the inner quantifier binds `k`, the first part of
    the outer collection path: `unrollOK` fails, and indeed the quantifier is true while the
    textual unrolling `any k.0.a as k { k.0.b == 1 }` is an error (its `k.0.b` is captured by the
    inner `k`). -/
example : unrollOK [120] (elemHead selK (GoString.natToDec 0)) capBody = false := by decide
example : evaluate noRe (.coll .any selK bindX capBody) exOpts capDatum = .val true := by
  decide +kernel
example : evaluate noRe (subst [120] (selK.path ++ [GoString.natToDec 0]) capBody) exOpts capDatum
    = .err false := by
  decide +kernel

end Examples

end Bexpr.Props.C06

#print axioms Bexpr.Props.C06.coll_list_fold
#print axioms Bexpr.Props.C06.coll_map_fold
#print axioms Bexpr.Props.C06.coll_same_name_error
#print axioms Bexpr.Props.C06.any_iff_exists
#print axioms Bexpr.Props.C06.all_iff_forall
#print axioms Bexpr.Props.C06.any_iff_exists_map
#print axioms Bexpr.Props.C06.all_iff_forall_map
#print axioms Bexpr.Props.C06.coll_empty
#print axioms Bexpr.Props.C06.coll_absent
#print axioms Bexpr.Props.C06.coll_first_error
#print axioms Bexpr.Props.C06.coll_first_decisive
#print axioms Bexpr.Props.C06.coll_bad_kind
#print axioms Bexpr.Props.C06.one_name_form
#print axioms Bexpr.Props.C06.alias_resolves_in_outer_scope
#print axioms Bexpr.Props.C06.binding_scope_value
#print axioms Bexpr.Props.C06.binding_scope_index
#print axioms Bexpr.Props.C06.binding_scope_map_value
#print axioms Bexpr.Props.C06.binding_scope_key
#print axioms Bexpr.Props.C06.binding_scope_other
#print axioms Bexpr.Props.C06.shadowing
#print axioms Bexpr.Props.C06.shadowing_field
#print axioms Bexpr.Props.C06.scope_ends_at_brace
#print axioms Bexpr.Props.C06.evaluate_congr_locals
#print axioms Bexpr.Props.C06.evaluate_subst
#print axioms Bexpr.Props.C06.evaluate_drop
#print axioms Bexpr.Props.C06.coll_unroll
#print axioms Bexpr.Props.C06.coll_unroll_default
#print axioms Bexpr.Props.C06.coll_unroll_value
#print axioms Bexpr.Props.C06.coll_unroll_index_and_value
#print axioms Bexpr.Props.C06.coll_unroll_map_value
#print axioms Bexpr.Props.C06.coll_unroll_map_index_and_value
