/-
  C17 — `(*Filter).Execute` returns exactly the elements for which `Evaluate` is true.

  Model: `Bexpr.Eval.execute` (`Bexpr/Eval/Create.lean`), Go: `/repo/filter.go`.
  Core Lean only (the imported `Proofs/FilterLemmas.lean` is core-only as well).
-/
import Bexpr.Eval.Create
import Proofs.FilterLemmas

namespace Bexpr.Props.C17
open Bexpr Bexpr.Go Bexpr.Eval Bexpr.Proofs.Filter

/-! ### helpers: `execute` in terms of the generic loop -/

theorem execute_slice_eq (re : RegexOracle) (ev : Evaluator) name elem isNil xs :
    execute re (some ev) (some (.slice name elem isNil xs)) =
      match genLoop (fun x : GoVal => ev.evaluate re x.toAny) xs [] with
      | .ok kept => .ok (some (.slice name elem false kept))
      | .error o => outToExec o := by
  simp only [execute, valueOf, execSliceLoop_eq_genLoop]
  rfl

theorem execute_array_eq (re : RegexOracle) (ev : Evaluator) elem xs :
    execute re (some ev) (some (.array elem xs)) =
      match genLoop (fun x : GoVal => ev.evaluate re x.toAny) xs [] with
      | .ok kept => .ok (some (.slice "" elem false kept))
      | .error o => outToExec o := by
  simp only [execute, valueOf, execSliceLoop_eq_genLoop]
  rfl

theorem execute_map_eq (re : RegexOracle) (ev : Evaluator) name kt vt isNil es :
    execute re (some ev) (some (.map name kt vt isNil es)) =
      match genLoop (fun e : GoVal × GoVal => ev.evaluate re e.2.toAny) es [] with
      | .ok kept => .ok (some (.map name kt vt false kept))
      | .error o => outToExec o := by
  simp only [execute, valueOf, execMapLoop_eq_genLoop]
  rfl

/-! ### 1–3: the result is the filtered container -/

/-- Slice input, every element evaluates to a value: the result is a (non-nil) slice of the same
    named slice type and element type holding exactly the `true` elements in original order. -/
theorem execute_slice_spec (re : RegexOracle) (ev : Evaluator)
    (name : String) (elem : GoType) (isNil : Bool) (xs : List GoVal)
    (h : ∀ x ∈ xs, ∃ b, ev.evaluate re x.toAny = .val b) :
    execute re (some ev) (some (.slice name elem isNil xs)) =
      .ok (some (.slice name elem false
        (xs.filter fun x => ev.evaluate re x.toAny == .val true))) := by
  rw [execute_slice_eq, genLoop_of_all_val _ xs [] h]
  rfl

/-- Array input: the result is a slice of the unnamed type `[]elem`. -/
theorem execute_array_spec (re : RegexOracle) (ev : Evaluator)
    (elem : GoType) (xs : List GoVal)
    (h : ∀ x ∈ xs, ∃ b, ev.evaluate re x.toAny = .val b) :
    execute re (some ev) (some (.array elem xs)) =
      .ok (some (.slice "" elem false
        (xs.filter fun x => ev.evaluate re x.toAny == .val true))) := by
  rw [execute_array_eq, genLoop_of_all_val _ xs [] h]
  rfl

/-- Map input: same map type, the entries (key and value unchanged) whose value is `true`. -/
theorem execute_map_spec (re : RegexOracle) (ev : Evaluator)
    (name : String) (kt vt : GoType) (isNil : Bool) (es : List (GoVal × GoVal))
    (h : ∀ e ∈ es, ∃ b, ev.evaluate re e.2.toAny = .val b) :
    execute re (some ev) (some (.map name kt vt isNil es)) =
      .ok (some (.map name kt vt false
        (es.filter fun e => ev.evaluate re e.2.toAny == .val true))) := by
  rw [execute_map_eq, genLoop_of_all_val _ es [] h]
  rfl

/-! ### 4: the first non-value outcome decides -/

/-- Slice: the result is the image of the FIRST non-value outcome. -/
theorem execute_first_error_slice (re : RegexOracle) (ev : Evaluator)
    (name : String) (elem : GoType) (isNil : Bool) (pre : List GoVal) (x : GoVal)
    (post : List GoVal)
    (hpre : ∀ y ∈ pre, ∃ b, ev.evaluate re y.toAny = .val b)
    (hx : ∀ b, ev.evaluate re x.toAny ≠ .val b) :
    execute re (some ev) (some (.slice name elem isNil (pre ++ x :: post))) =
      outToExec (ev.evaluate re x.toAny) := by
  rw [execute_slice_eq, genLoop_first_error _ pre x post [] hpre hx]

theorem execute_first_error_array (re : RegexOracle) (ev : Evaluator)
    (elem : GoType) (pre : List GoVal) (x : GoVal) (post : List GoVal)
    (hpre : ∀ y ∈ pre, ∃ b, ev.evaluate re y.toAny = .val b)
    (hx : ∀ b, ev.evaluate re x.toAny ≠ .val b) :
    execute re (some ev) (some (.array elem (pre ++ x :: post))) =
      outToExec (ev.evaluate re x.toAny) := by
  rw [execute_array_eq, genLoop_first_error _ pre x post [] hpre hx]

/-- `outToExec` of a non-value is never `.ok`, and is `.err` for an `.err _`. -/
theorem outToExec_not_ok (o : Out) (v : Any) : outToExec o ≠ .ok v := by
  cases o <;> simp [outToExec]

theorem outToExec_err (b : Bool) : outToExec (.err b) = .err := rfl

/-- Packaged form of item 4 for slices: a non-value element exists ⇒ the result is not `.ok`, and
    it is `.err` when the first non-value outcome is `.err _`. -/
theorem execute_first_error (re : RegexOracle) (ev : Evaluator)
    (name : String) (elem : GoType) (isNil : Bool) (pre : List GoVal) (x : GoVal)
    (post : List GoVal)
    (hpre : ∀ y ∈ pre, ∃ b, ev.evaluate re y.toAny = .val b)
    (hx : ∀ b, ev.evaluate re x.toAny ≠ .val b) :
    (∀ r, execute re (some ev) (some (.slice name elem isNil (pre ++ x :: post))) ≠ .ok r) ∧
    (∀ b, ev.evaluate re x.toAny = .err b →
      execute re (some ev) (some (.slice name elem isNil (pre ++ x :: post))) = .err) ∧
    (ev.evaluate re x.toAny = .panic →
      execute re (some ev) (some (.slice name elem isNil (pre ++ x :: post))) = .panic) := by
  rw [execute_first_error_slice re ev name elem isNil pre x post hpre hx]
  refine ⟨fun r => outToExec_not_ok _ r, ?_, ?_⟩
  · intro b hb; rw [hb]; rfl
  · intro hb; rw [hb]; rfl

/-- Same packaged form for arrays. -/
theorem execute_first_error_array' (re : RegexOracle) (ev : Evaluator)
    (elem : GoType) (pre : List GoVal) (x : GoVal) (post : List GoVal)
    (hpre : ∀ y ∈ pre, ∃ b, ev.evaluate re y.toAny = .val b)
    (hx : ∀ b, ev.evaluate re x.toAny ≠ .val b) :
    (∀ r, execute re (some ev) (some (.array elem (pre ++ x :: post))) ≠ .ok r) ∧
    (∀ b, ev.evaluate re x.toAny = .err b →
      execute re (some ev) (some (.array elem (pre ++ x :: post))) = .err) := by
  rw [execute_first_error_array re ev elem pre x post hpre hx]
  refine ⟨fun r => outToExec_not_ok _ r, ?_⟩
  intro b hb; rw [hb]; rfl

/-- Existence of a first non-value element whenever some element is not a value (so the
    hypotheses of `execute_first_error` can always be met). -/
theorem exists_first_nonval (re : RegexOracle) (ev : Evaluator) (xs : List GoVal)
    (h : ∃ x ∈ xs, ∀ b, ev.evaluate re x.toAny ≠ .val b) :
    ∃ pre x post, xs = pre ++ x :: post ∧
      (∀ y ∈ pre, ∃ b, ev.evaluate re y.toAny = .val b) ∧
      ∀ b, ev.evaluate re x.toAny ≠ .val b := by
  rcases split_first_nonval (fun x : GoVal => ev.evaluate re x.toAny) xs with hall | hex
  · obtain ⟨x, hx, hn⟩ := h
    obtain ⟨b, hb⟩ := hall x hx
    exact absurd hb (hn b)
  · exact hex

/-- Map: when every entry's outcome is a value or an error, `Execute` fails with `.err` iff
    some entry errs — a statement that does not mention the iteration order. -/
theorem execute_map_err_iff (re : RegexOracle) (ev : Evaluator)
    (name : String) (kt vt : GoType) (isNil : Bool) (es : List (GoVal × GoVal))
    (hve : ∀ e ∈ es, (∃ b, ev.evaluate re e.2.toAny = .val b) ∨
                      ∃ b, ev.evaluate re e.2.toAny = .err b) :
    execute re (some ev) (some (.map name kt vt isNil es)) = .err ↔
      ∃ e ∈ es, ∃ b, ev.evaluate re e.2.toAny = .err b := by
  rw [execute_map_eq, ← genLoop_err_iff _ es [] hve]
  rcases genLoop_ok_or_err _ es [] hve with ⟨r, hr⟩ | ⟨b, hb⟩
  · rw [hr]
    constructor
    · intro h; cases h
    · rintro ⟨b, hb⟩; cases hb
  · rw [hb]
    exact ⟨fun _ => ⟨b, rfl⟩, fun _ => rfl⟩

/-- Map: the error verdict is invariant under permutation of the entries (Go's map iteration
    order is unspecified). -/
theorem execute_first_error_map_perm (re : RegexOracle) (ev : Evaluator)
    (name : String) (kt vt : GoType) (isNil : Bool) (es es' : List (GoVal × GoVal))
    (hp : es.Perm es')
    (hve : ∀ e ∈ es, (∃ b, ev.evaluate re e.2.toAny = .val b) ∨
                      ∃ b, ev.evaluate re e.2.toAny = .err b) :
    execute re (some ev) (some (.map name kt vt isNil es)) = .err ↔
      execute re (some ev) (some (.map name kt vt isNil es')) = .err := by
  have hve' : ∀ e ∈ es', (∃ b, ev.evaluate re e.2.toAny = .val b) ∨
      ∃ b, ev.evaluate re e.2.toAny = .err b := fun e he => hve e (hp.mem_iff.2 he)
  rw [execute_map_err_iff re ev name kt vt isNil es hve,
      execute_map_err_iff re ev name kt vt isNil es' hve']
  constructor
  · rintro ⟨e, he, b, hb⟩; exact ⟨e, hp.mem_iff.1 he, b, hb⟩
  · rintro ⟨e, he, b, hb⟩; exact ⟨e, hp.mem_iff.2 he, b, hb⟩

/-- Map: if any entry errs (all outcomes value-or-error) the result is `.err`. -/
theorem execute_map_any_err (re : RegexOracle) (ev : Evaluator)
    (name : String) (kt vt : GoType) (isNil : Bool) (es : List (GoVal × GoVal))
    (hve : ∀ e ∈ es, (∃ b, ev.evaluate re e.2.toAny = .val b) ∨
                      ∃ b, ev.evaluate re e.2.toAny = .err b)
    (e : GoVal × GoVal) (he : e ∈ es) (b : Bool) (hb : ev.evaluate re e.2.toAny = .err b) :
    execute re (some ev) (some (.map name kt vt isNil es)) = .err :=
  (execute_map_err_iff re ev name kt vt isNil es hve).2 ⟨e, he, b, hb⟩

/-- Map, successful case: the kept entries of a permuted input are a permutation of the kept
    entries (the result map is the same set of entries). -/
theorem execute_map_ok_perm (re : RegexOracle) (ev : Evaluator)
    (name : String) (kt vt : GoType) (isNil : Bool) (es es' : List (GoVal × GoVal))
    (hp : es.Perm es')
    (h : ∀ e ∈ es, ∃ b, ev.evaluate re e.2.toAny = .val b) :
    ∃ k k', execute re (some ev) (some (.map name kt vt isNil es)) =
              .ok (some (.map name kt vt false k)) ∧
            execute re (some ev) (some (.map name kt vt isNil es')) =
              .ok (some (.map name kt vt false k')) ∧ k.Perm k' := by
  have h' : ∀ e ∈ es', ∃ b, ev.evaluate re e.2.toAny = .val b :=
    fun e he => h e (hp.mem_iff.2 he)
  exact ⟨_, _, execute_map_spec re ev name kt vt isNil es h,
    execute_map_spec re ev name kt vt isNil es' h', hp.filter _⟩

/-! ### 5: nil filter, other kinds -/

theorem execute_nil_filter (re : RegexOracle) (data : Any) : execute re none data = .ok data := rfl

/-- "the value is a slice, an array or a map" -/
def isContainer : GoVal → Bool
  | .slice .. | .array .. | .map .. => true
  | _ => false

/-- untyped nil, or any value that is not a slice / array / map: an error, never a panic -/
theorem execute_other_kind (re : RegexOracle) (ev : Evaluator) :
    execute re (some ev) none = .err ∧
    ∀ v, isContainer v = false → execute re (some ev) (some v) = .err := by
  refine ⟨rfl, ?_⟩
  intro v hv
  cases v <;> first | rfl | (simp [isContainer] at hv)

/-- conversely an `.ok` result only arises from a container input -/
theorem execute_ok_container (re : RegexOracle) (ev : Evaluator) (data r : Any)
    (h : execute re (some ev) data = .ok r) : ∃ v, data = some v ∧ isContainer v = true := by
  cases data with
  | none => cases h
  | some v =>
    refine ⟨v, rfl, ?_⟩
    cases hc : isContainer v
    · rw [(execute_other_kind re ev).2 v hc] at h; cases h
    · rfl

/-! ### 6: idempotence -/

private theorem gen_idem {α : Type} (g : α → Out) (xs kept : List α)
    (h : genLoop g xs [] = .ok kept) : genLoop g kept [] = .ok kept := by
  have e := genLoop_ok_eq g xs [] kept h
  simp only [List.reverse_nil, List.nil_append] at e
  subst e
  rw [genLoop_of_all_val g _ [] (all_val_of_filter g xs)]
  simp

/-- Executing a filter on its own successful result returns that result (any input: only
    slices, arrays and maps produce `.ok`). -/
theorem execute_idem (re : RegexOracle) (ev : Evaluator) (data r : Any)
    (h : execute re (some ev) data = .ok r) : execute re (some ev) r = .ok r := by
  obtain ⟨v, rfl, hc⟩ := execute_ok_container re ev data r h
  cases v <;> simp [isContainer] at hc
  case slice name elem isNil xs =>
    rw [execute_slice_eq] at h
    split at h
    · next kept hk =>
      cases h
      rw [execute_slice_eq, gen_idem _ xs kept hk]
    · exact absurd h (outToExec_not_ok _ _)
  case array elem xs =>
    rw [execute_array_eq] at h
    split at h
    · next kept hk =>
      cases h
      rw [execute_slice_eq, gen_idem _ xs kept hk]
    · exact absurd h (outToExec_not_ok _ _)
  case map name kt vt isNil es =>
    rw [execute_map_eq] at h
    split at h
    · next kept hk =>
      cases h
      rw [execute_map_eq, gen_idem _ es kept hk]
    · exact absurd h (outToExec_not_ok _ _)

/-- also for the nil filter -/
theorem execute_idem_nil (re : RegexOracle) (data r : Any)
    (_h : execute re none data = .ok r) : execute re none r = .ok r := rfl

/-! ### 7: a filter and its negation partition the input -/

/-- The negation hypothesis in the form requested (what C03 proves for `not (E)` up to the
    boolean carried by an error). -/
def Negates (re : RegexOracle) (ev evN : Evaluator) : Prop :=
  ∀ x, evN.evaluate re x = match ev.evaluate re x with | .val b => .val (!b) | o => o

/-- The part of `Negates` that the partition property needs: values are negated. -/
def NegatesVals (re : RegexOracle) (ev evN : Evaluator) : Prop :=
  ∀ x b, ev.evaluate re x = .val b → evN.evaluate re x = .val (!b)

theorem Negates.vals {re : RegexOracle} {ev evN : Evaluator} (h : Negates re ev evN) :
    NegatesVals re ev evN := by
  intro x b hb
  rw [h x, hb]

/-- Wrapping the AST in `not` yields an evaluator that negates values (unconditionally). -/
theorem not_negatesVals (re : RegexOracle) (ev : Evaluator) :
    NegatesVals re ev { ev with ast := .not ev.ast } := by
  intro x b hb
  simp only [Evaluator.evaluate, Eval.evaluate] at *
  rw [hb]

/-- … and satisfies the full `Negates` wherever `ev` does not return `.err true` (the `not`
    branch of `evaluate` returns `false, err`, i.e. it resets the boolean of an error). -/
theorem not_negates_at (re : RegexOracle) (ev : Evaluator) (x : Any)
    (hnoerr : ev.evaluate re x ≠ .err true) :
    ({ ev with ast := .not ev.ast } : Evaluator).evaluate re x =
      match ev.evaluate re x with | .val b => .val (!b) | o => o := by
  simp only [Evaluator.evaluate, Eval.evaluate] at *
  split <;> simp_all

private theorem gen_partition {α : Type} (g gN : α → Out)
    (hneg : ∀ x b, g x = .val b → gN x = .val (!b))
    (xs k kN : List α) (h : genLoop g xs [] = .ok k) (hN : genLoop gN xs [] = .ok kN) :
    (k ++ kN).Perm xs ∧ k.length + kN.length = xs.length := by
  have hv := genLoop_ok_all_val g xs [] k h
  have e := genLoop_ok_eq g xs [] k h
  have eN := genLoop_ok_eq gN xs [] kN hN
  simp only [List.reverse_nil, List.nil_append] at e eN
  have hc : xs.filter (fun x => isTrue (gN x)) = xs.filter (fun x => !isTrue (g x)) := by
    apply List.filter_congr
    intro x hx
    obtain ⟨b, hb⟩ := hv x hx
    rw [hneg x b hb, hb]
    cases b <;> rfl
  rw [hc] at eN
  subst e eN
  have hp := List.filter_append_perm (fun x => isTrue (g x)) xs
  exact ⟨hp, by rw [← List.length_append]; exact hp.length_eq⟩

/-- Slices (weak hypothesis): the elements kept by `ev` followed by those kept by `evN` are a
    permutation of the input, and the lengths add up. -/
theorem execute_partition_vals (re : RegexOracle) (ev evN : Evaluator)
    (hneg : NegatesVals re ev evN)
    (name : String) (elem : GoType) (isNil : Bool) (xs : List GoVal) (r rN : Any)
    (h : execute re (some ev) (some (.slice name elem isNil xs)) = .ok r)
    (hN : execute re (some evN) (some (.slice name elem isNil xs)) = .ok rN) :
    ∃ k kN, r = some (.slice name elem false k) ∧ rN = some (.slice name elem false kN) ∧
      (k ++ kN).Perm xs ∧ k.length + kN.length = xs.length := by
  rw [execute_slice_eq] at h hN
  split at h
  · next k hk =>
    split at hN
    · next kN hkN =>
      cases h; cases hN
      exact ⟨k, kN, rfl, rfl,
        gen_partition _ _ (fun x => hneg x.toAny) xs k kN hk hkN⟩
    · exact absurd hN (outToExec_not_ok _ _)
  · exact absurd h (outToExec_not_ok _ _)

/-- Slices, hypothesis as requested. -/
theorem execute_partition (re : RegexOracle) (ev evN : Evaluator)
    (hneg : ∀ x, evN.evaluate re x =
      match ev.evaluate re x with | .val b => .val (!b) | o => o)
    (name : String) (elem : GoType) (isNil : Bool) (xs : List GoVal) (r rN : Any)
    (h : execute re (some ev) (some (.slice name elem isNil xs)) = .ok r)
    (hN : execute re (some evN) (some (.slice name elem isNil xs)) = .ok rN) :
    ∃ k kN, r = some (.slice name elem false k) ∧ rN = some (.slice name elem false kN) ∧
      (k ++ kN).Perm xs ∧ k.length + kN.length = xs.length :=
  execute_partition_vals re ev evN (Negates.vals hneg) name elem isNil xs r rN h hN

/-- Slices, instantiated with the `not`-wrapped evaluator: no hypothesis left. -/
theorem execute_partition_not (re : RegexOracle) (ev : Evaluator)
    (name : String) (elem : GoType) (isNil : Bool) (xs : List GoVal) (r rN : Any)
    (h : execute re (some ev) (some (.slice name elem isNil xs)) = .ok r)
    (hN : execute re (some { ev with ast := .not ev.ast })
            (some (.slice name elem isNil xs)) = .ok rN) :
    ∃ k kN, r = some (.slice name elem false k) ∧ rN = some (.slice name elem false kN) ∧
      (k ++ kN).Perm xs ∧ k.length + kN.length = xs.length :=
  execute_partition_vals re ev _ (not_negatesVals re ev) name elem isNil xs r rN h hN

/-- Arrays. -/
theorem execute_partition_array (re : RegexOracle) (ev evN : Evaluator)
    (hneg : ∀ x, evN.evaluate re x =
      match ev.evaluate re x with | .val b => .val (!b) | o => o)
    (elem : GoType) (xs : List GoVal) (r rN : Any)
    (h : execute re (some ev) (some (.array elem xs)) = .ok r)
    (hN : execute re (some evN) (some (.array elem xs)) = .ok rN) :
    ∃ k kN, r = some (.slice "" elem false k) ∧ rN = some (.slice "" elem false kN) ∧
      (k ++ kN).Perm xs ∧ k.length + kN.length = xs.length := by
  rw [execute_array_eq] at h hN
  split at h
  · next k hk =>
    split at hN
    · next kN hkN =>
      cases h; cases hN
      exact ⟨k, kN, rfl, rfl,
        gen_partition _ _ (fun x => Negates.vals hneg x.toAny) xs k kN hk hkN⟩
    · exact absurd hN (outToExec_not_ok _ _)
  · exact absurd h (outToExec_not_ok _ _)

/-- Maps: the two result maps partition the entries. -/
theorem execute_partition_map (re : RegexOracle) (ev evN : Evaluator)
    (hneg : ∀ x, evN.evaluate re x =
      match ev.evaluate re x with | .val b => .val (!b) | o => o)
    (name : String) (kt vt : GoType) (isNil : Bool) (es : List (GoVal × GoVal)) (r rN : Any)
    (h : execute re (some ev) (some (.map name kt vt isNil es)) = .ok r)
    (hN : execute re (some evN) (some (.map name kt vt isNil es)) = .ok rN) :
    ∃ k kN, r = some (.map name kt vt false k) ∧ rN = some (.map name kt vt false kN) ∧
      (k ++ kN).Perm es ∧ k.length + kN.length = es.length := by
  rw [execute_map_eq] at h hN
  split at h
  · next k hk =>
    split at hN
    · next kN hkN =>
      cases h; cases hN
      exact ⟨k, kN, rfl, rfl,
        gen_partition _ _ (fun e => Negates.vals hneg e.2.toAny) es k kN hk hkN⟩
    · exact absurd hN (outToExec_not_ok _ _)
  · exact absurd h (outToExec_not_ok _ _)

/-! ### 8: non-vacuity -/

section examples

/-- ASCII bytes of a literal; unlike `GoString.ofString` (which goes through `ByteArray`) this
    reduces by `rfl`; the two agree on the literals used here (checked below). -/
def gs (x : String) : GoString := x.toList.map GoString.byteOfChar

example : gs "x" = GoString.ofString "x" ∧ gs "1" = GoString.ofString "1" ∧
    gs "bexpr" = GoString.ofString "bexpr" := by decide +kernel

/-- `x == "1"` -/
def exEv : Evaluator :=
  { ast := .match_ ⟨.bexpr, [gs "x"]⟩ .equal (some (gs "1")),
    tagName := gs "bexpr", hook := .off, unknown := none, expression := gs "x == \"1\"" }

/-- `not (x == "1")` -/
def exEvN : Evaluator := { exEv with ast := .not exEv.ast }

def noRe : RegexOracle := fun _ => none

def rowT : GoType := .struct "main.Row"

/-- `Row{x: v}` (one exported field `x` without tags) -/
def row (v : String) : GoVal := .struct "main.Row" [(⟨gs "x", true, []⟩, .str "" (gs v))]

/-- a struct without the field `x`: selecting `x` is an error -/
def badRow : GoVal := .struct "main.Row" [(⟨gs "y", true, []⟩, .str "" (gs "1"))]

def key (k : String) : GoVal := .str "" (gs k)

example : exEv.evaluate noRe (row "1").toAny = .val true := by decide
example : exEv.evaluate noRe (row "2").toAny = .val false := by decide
example : exEv.evaluate noRe badRow.toAny = .err false := by decide

/-- a value of the named slice type `main.Rows = []Row` with three rows -/
def exSlice : Any := some (.slice "main.Rows" rowT false [row "1", row "2", row "1"])

example : execute noRe (some exEv) exSlice =
    .ok (some (.slice "main.Rows" rowT false [row "1", row "1"])) := rfl

example : execute noRe (some exEvN) exSlice =
    .ok (some (.slice "main.Rows" rowT false [row "2"])) := rfl

/-- `[3]Row` -/
example : execute noRe (some exEv) (some (.array rowT [row "2", row "1", row "3"])) =
    .ok (some (.slice "" rowT false [row "1"])) := rfl

/-- `map[string]Row` of the named type `main.M` -/
def exMap : Any :=
  some (.map "main.M" GoType.stringT rowT false
    [(key "a", row "1"), (key "b", row "2"), (key "c", row "1")])

example : execute noRe (some exEv) exMap =
    .ok (some (.map "main.M" GoType.stringT rowT false
      [(key "a", row "1"), (key "c", row "1")])) := rfl

/-- the first error aborts (the later `row "1"` is not looked at) -/
example : execute noRe (some exEv)
    (some (.slice "" rowT false [row "1", badRow, row "1"])) = .err := rfl

/-- the hypotheses of `execute_slice_spec` / `execute_first_error` hold on these data -/
example : ∀ x ∈ [row "1", row "2", row "1"], ∃ b, exEv.evaluate noRe x.toAny = .val b := by
  intro x hx
  simp only [List.mem_cons, List.not_mem_nil, or_false] at hx
  rcases hx with rfl | rfl | rfl
  · exact ⟨true, by decide⟩
  · exact ⟨false, by decide⟩
  · exact ⟨true, by decide⟩

example : ∀ b, exEv.evaluate noRe badRow.toAny ≠ .val b := by decide

/-- nil filter, untyped nil, a non-container -/
example : execute noRe none exSlice = .ok exSlice := rfl
example : execute noRe (some exEv) none = .err := rfl
example : execute noRe (some exEv) (some (row "1")) = .err := rfl

/-- `exEvN` satisfies the negation hypothesis of `execute_partition` on the example rows -/
example : ∀ x ∈ [row "1", row "2", row "1"],
    exEvN.evaluate noRe x.toAny =
      match exEv.evaluate noRe x.toAny with | .val b => .val (!b) | o => o := by
  intro x hx
  simp only [List.mem_cons, List.not_mem_nil, or_false] at hx
  rcases hx with rfl | rfl | rfl <;> decide

end examples

end Bexpr.Props.C17

open Bexpr.Props.C17 in
section
end

#print axioms Bexpr.Props.C17.execute_slice_spec
#print axioms Bexpr.Props.C17.execute_array_spec
#print axioms Bexpr.Props.C17.execute_map_spec
#print axioms Bexpr.Props.C17.execute_first_error_slice
#print axioms Bexpr.Props.C17.execute_first_error_array
#print axioms Bexpr.Props.C17.execute_first_error
#print axioms Bexpr.Props.C17.execute_first_error_array'
#print axioms Bexpr.Props.C17.exists_first_nonval
#print axioms Bexpr.Props.C17.execute_map_err_iff
#print axioms Bexpr.Props.C17.execute_first_error_map_perm
#print axioms Bexpr.Props.C17.execute_map_any_err
#print axioms Bexpr.Props.C17.execute_map_ok_perm
#print axioms Bexpr.Props.C17.execute_nil_filter
#print axioms Bexpr.Props.C17.execute_other_kind
#print axioms Bexpr.Props.C17.execute_ok_container
#print axioms Bexpr.Props.C17.execute_idem
#print axioms Bexpr.Props.C17.execute_partition_vals
#print axioms Bexpr.Props.C17.execute_partition
#print axioms Bexpr.Props.C17.execute_partition_not
#print axioms Bexpr.Props.C17.execute_partition_array
#print axioms Bexpr.Props.C17.execute_partition_map
#print axioms Bexpr.Props.C17.not_negatesVals
#print axioms Bexpr.Props.C17.not_negates_at
