/-
  C20 — The shipped generated parser is the one the shipped grammar describes.

  Both sides of every equation below are REGENERATED from /repo on every run:
  `BexprGen.PegGrammar` / `BexprGen.PegActions` by the reader of `grammar/grammar.peg`
  (re-implementing pigeon's node numbering, label scoping and class parsing),
  `BexprGen.GoGrammar` / `BexprGen.GoActions` by the go/ast reader of `grammar/grammar.go`.
  The comparison is complete (every rule, node, literal, class, label, code token) and is
  decided by the kernel (`rfl`), not sampled.  Positions are deliberately not compared.
-/
import Bexpr.Driver

namespace Bexpr.Props.C20
open Bexpr Bexpr.Peg Bexpr.Driver

/-- same rules in the same order, same alternatives, sequences, labels, predicates, repetition
    operators, literals, character classes and rule references -/
theorem peg_table_eq_go_table : BexprGen.PegGrammar.grammar = BexprGen.GoGrammar.grammar := rfl

/-- each action's / code predicate's name, argument labels and code (token for token) -/
theorem peg_actions_eq_go_actions : BexprGen.PegActions.actions = BexprGen.GoActions.actions := rfl

/-- hence the two tables have the same executable semantics in the model … -/
theorem peg_env_eq_go_env : pegEnv = goEnv := by
  unfold pegEnv goEnv pegSem goSem
  rw [peg_actions_eq_go_actions]

/-- … and every parse of the shipped parser is the parse the grammar source specifies,
    on all inputs and budgets (including inputs no test or generator reaches). -/
theorem parser_is_grammar (max : Nat) (input : GoString) :
    Peg.run goEnv goGrammar max input = Peg.run pegEnv pegGrammar max input := by
  unfold pegGrammar goGrammar
  rw [peg_env_eq_go_env, peg_table_eq_go_table]

/-- the tables are what the translators fully understood: no `unsupported` node … -/
def supported : PExpr → Bool
  | .unsupported _ => false
  | .choice alts => supportedList alts
  | .seq es => supportedList es
  | .action _ e => supported e
  | .labeled _ e => supported e
  | .andP e => supported e
  | .notP e => supported e
  | .zeroOrOne e => supported e
  | .zeroOrMore e => supported e
  | .oneOrMore e => supported e
  | _ => true
where supportedList : List PExpr → Bool
  | [] => true
  | e :: es => supported e && supportedList es

theorem go_table_supported : goGrammar.all (fun r => supported r.expr) = true := by decide +kernel

/-- … every code block is one of the recognised shapes (no `ActionSem.unknown`) and the
    `callon*` wrappers pass exactly the labels the `on*` functions take … -/
theorem go_actions_recognised : goSem.all (fun p => p.2 != .unknown) = true := by decide +kernel

theorem go_params_consistent :
    BexprGen.GoActions.actions.all (fun a => !a.params.contains "!mismatch") = true := by
  decide +kernel

/-- … and the table is non-trivial: 37 rules, 50 code blocks (non-vacuity). -/
example : goGrammar.length = 37 ∧ goSem.length = 50 := by decide +kernel

end Bexpr.Props.C20

#print axioms Bexpr.Props.C20.peg_table_eq_go_table
#print axioms Bexpr.Props.C20.peg_actions_eq_go_actions
#print axioms Bexpr.Props.C20.parser_is_grammar
#print axioms Bexpr.Props.C20.go_table_supported
#print axioms Bexpr.Props.C20.go_actions_recognised
