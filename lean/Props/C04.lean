/-
  C04 — Negated operators are exact complements; `contains` is `in` with the operands flipped.

  Statements about `Eval.evaluateMatch` / `Eval.evaluate` (model of evaluate.go) for every
  selector, literal, option record and datum, INCLUDING absent map keys, ill-typed literals,
  nil values and non-collection targets.  Ties: `Ties/Tables.lean` (the dispatch shape
  `direct f` / `negated f` and the NotPresentDisposition table extracted from the source),
  the action table (both `contains` actions return the `In` / `NotIn` constants), `neg` fragment.
-/
import Bexpr.Driver
import Props.C03

namespace Bexpr.Props.C04
open Bexpr Bexpr.Eval Bexpr.Go Bexpr.Peg Bexpr.Driver

/-- the negated counterpart of a positive operator (and back) -/
def neg : MatchOp → MatchOp
  | .equal => .notEqual | .notEqual => .equal
  | .in_ => .notIn | .notIn => .in_
  | .isEmpty => .isNotEmpty | .isNotEmpty => .isEmpty
  | .matches => .notMatches | .notMatches => .matches

def positive : MatchOp → Bool
  | .equal | .in_ | .isEmpty | .matches => true
  | _ => false

variable (re : RegexOracle) (o : Opts) (d : Any)

/-- `!=`, `not in`, `is not empty`, `not matches` return the logical negation of the positive
    form whenever it returns without error, and an error exactly when it does — also when the
    selected map key is absent. -/
theorem neg_complement (sel : Selector) (op : MatchOp) (raw : Option GoString)
    (hp : positive op = true) :
    evaluateMatch re o d sel (neg op) raw = negate (evaluateMatch re o d sel op raw) := by
  cases op <;> simp [positive] at hp <;>
    (unfold evaluateMatch neg; split <;> simp_all [negate, notPresentDisposition] <;>
      split <;> simp_all [negate])

/-- negation is an involution on outcomes that carry `false` with an error -/
theorem negate_negate (x : Out) (h : ∀ b, x = .err b → b = false) : negate (negate x) = x := by
  cases x with
  | val b => simp [negate]
  | err b => have := h b rfl; subst this; simp [negate]
  | panic => simp [negate]
  | unmodelled => simp [negate]

/-- the positive form is the negation of the negated form as well -/
theorem neg_complement' (sel : Selector) (op : MatchOp) (raw : Option GoString)
    (hp : positive op = true) :
    evaluateMatch re o d sel op raw = negate (evaluateMatch re o d sel (neg op) raw) := by
  rw [neg_complement re o d sel op raw hp, negate_negate]
  intro b hb
  exact C03.evaluateMatch_err_false re o d sel op raw b hb

/-- the error cases coincide -/
theorem neg_error_iff (sel : Selector) (op : MatchOp) (raw : Option GoString)
    (hp : positive op = true) :
    (∃ b, evaluateMatch re o d sel (neg op) raw = .err b) ↔
      (∃ b, evaluateMatch re o d sel op raw = .err b) := by
  rw [neg_complement re o d sel op raw hp]
  cases evaluateMatch re o d sel op raw <;> simp [negate]

/-- each form equals `not (…)` around its counterpart -/
theorem not_around_counterpart (sel : Selector) (op : MatchOp) (raw : Option GoString)
    (hp : positive op = true) :
    evaluate re (.not (.match_ sel op raw)) o d = evaluate re (.match_ sel (neg op) raw) o d := by
  rw [C03.not_table]
  simp only [evaluate]
  rw [neg_complement re o d sel op raw hp]
  cases evaluateMatch re o d sel op raw <;> simp [C03.notTable, negate]

theorem not_around_negated (sel : Selector) (op : MatchOp) (raw : Option GoString)
    (hp : positive op = true) :
    evaluate re (.not (.match_ sel (neg op) raw)) o d = evaluate re (.match_ sel op raw) o d := by
  rw [C03.not_table]
  simp only [evaluate]
  rw [neg_complement re o d sel op raw hp]
  cases hx : evaluateMatch re o d sel op raw with
  | val b => simp [C03.notTable, negate]
  | err b =>
    have := C03.evaluateMatch_err_false re o d sel op raw b hx
    subst this; simp [C03.notTable, negate]
  | panic => simp [C03.notTable, negate]
  | unmodelled => simp [C03.notTable, negate]

/-- the per-operator default for an absent map key is complementary -/
theorem npd_complement (op : MatchOp) : notPresentDisposition (neg op) = !notPresentDisposition op := by
  cases op <;> rfl

/-- top-level action of a rule of the (regenerated) grammar table -/
def ruleAction (g : Grammar) (rule : String) : Option String :=
  match lookupRule g rule with
  | some r => match r.expr with
    | .action n _ => some n
    | _ => none
  | none => none

def ruleSem (rule : String) : ActionSem :=
  match ruleAction goGrammar rule with
  | some n => lookupSem goSem n
  | none => .unknown

/-- `contains` / `not contains` are parsed to the `In` / `NotIn` operators: the code blocks of the
    rules `MatchContains` and `MatchIn` (resp. the negated ones) return the same constant — decided
    on the table regenerated from grammar.go -/
theorem contains_is_in :
    ruleSem "MatchContains" = .constMatchOp .in_ ∧ ruleSem "MatchIn" = .constMatchOp .in_ ∧
    ruleSem "MatchNotContains" = .constMatchOp .notIn ∧ ruleSem "MatchNotIn" = .constMatchOp .notIn := by
  decide +kernel

/-- and every operator rule returns its own constant (so the eight operators are distinct) -/
theorem operator_constants :
    ruleSem "MatchEqual" = .constMatchOp .equal ∧ ruleSem "MatchNotEqual" = .constMatchOp .notEqual ∧
    ruleSem "MatchIsEmpty" = .constMatchOp .isEmpty ∧ ruleSem "MatchIsNotEmpty" = .constMatchOp .isNotEmpty ∧
    ruleSem "MatchMatches" = .constMatchOp .matches ∧ ruleSem "MatchNotMatches" = .constMatchOp .notMatches := by
  decide +kernel

/-- non-vacuity: a positive operator exists and its negation differs -/
example : positive .in_ = true ∧ neg .in_ = .notIn ∧ negate (.val true) = .val false := by decide

end Bexpr.Props.C04

#print axioms Bexpr.Props.C04.neg_complement
#print axioms Bexpr.Props.C04.neg_error_iff
#print axioms Bexpr.Props.C04.not_around_counterpart
#print axioms Bexpr.Props.C04.not_around_negated
#print axioms Bexpr.Props.C04.npd_complement
#print axioms Bexpr.Props.C04.contains_is_in
#print axioms Bexpr.Props.C04.operator_constants
