/-
  Property C15 (the parser implements the grammar):

    "The parser accepts precisely the strings derivable from the grammar (as an ordered-choice
     PEG, including its explicit error productions) and rejects all others, and for each
     accepted string returns the syntax tree the grammar prescribes."

  The grammar is the rule table `g` (C20 identifies the table with `grammar.peg`), its meaning
  is the declarative big-step semantics `Sem` of `Bexpr/Peg/Sem.lean` (no budget, no fuel),
  `SemN` is `Sem` with the size of the derivation.  The theorems hold for every action
  semantics `env`, every rule table `g`, every input:

    * `engine_sound` / `engine_sound_abort` / `engine_sound_steps` — every result of the engine
      is a derivation (of size = the number of steps the engine took);
    * `sem_deterministic` / `semN_deterministic` — at most one outcome (and one size);
    * `engine_complete` / `engine_complete_abort` / `engine_exceeds` — the engine finds every
      derivation, in exactly `N` steps, whenever the budget allows, and otherwise stops with
      the budget error;
    * `sem_fail_restores` — a failed match does not move the position;
    * `run_accepts_iff`, `run_accepts_iff_budget`, `run_of_acceptsIn`, `run_rejects`,
      `run_rejects_underivable` — the top level `run` (= pigeon's `Parse`).
-/
import Bexpr.Peg.Engine
import Bexpr.Peg.Sem
import Proofs.Budget
import Proofs.SemRefine

namespace Bexpr.Props.C15
open Bexpr Bexpr.Peg
open Bexpr.Proofs.Budget (runMax run_eq_runMax outOf)
open Bexpr.Proofs.SemRefine

/-! ## 1. Soundness: what the engine returns is derivable -/

/-- A result `ok` of `parseExpr` is a derivation of the declarative semantics, from the
    position and log of the initial state to those of the final state. -/
theorem engine_sound (env : Env) (g : Grammar) (max fuel : Nat) (rule : String) (e : PExpr)
    (fr : Frame) (st : PState) {st' : PState} {fr' : Frame} {v : PVal} {m : Bool}
    (h : eval env g max fuel rule e fr st = .ok st' fr' v m) :
    Sem env g rule e fr st.pt st.errs (.res st'.pt st'.errs fr' v m) := by
  have := eval_snd env g max fuel rule e fr st
  rw [h] at this; exact this

/-- A panic of the engine (other than the budget) is an `abort` derivation. -/
theorem engine_sound_abort (env : Env) (g : Grammar) (max fuel : Nat) (rule : String)
    (e : PExpr) (fr : Frame) (st : PState) {st' : PState} {msg : String}
    (h : eval env g max fuel rule e fr st = .abort st' msg) :
    Sem env g rule e fr st.pt st.errs (.abort msg) := by
  have := eval_snd env g max fuel rule e fr st
  rw [h] at this; exact this

/-- Soundness with the step count: the derivation has exactly as many nodes as the engine
    made `parseExpr` calls. -/
theorem engine_sound_steps (env : Env) (g : Grammar) (max fuel : Nat) (rule : String)
    (e : PExpr) (fr : Frame) (st : PState) {st' : PState} {fr' : Frame} {v : PVal} {m : Bool}
    (h : eval env g max fuel rule e fr st = .ok st' fr' v m) :
    ∃ N, SemN env g rule e fr st.pt st.errs (.res st'.pt st'.errs fr' v m) N ∧
      st'.cnt = st.cnt + N := by
  obtain ⟨N, hN⟩ := sem_semN (engine_sound env g max fuel rule e fr st h)
  refine ⟨N, hN, ?_⟩
  have hc : st.cnt ≤ max := by
    cases fuel with
    | zero => rw [Proofs.Budget.eval_zero] at h; cases h
    | succ fuel =>
      rw [Proofs.Budget.eval_succ] at h
      split at h
      · cases h
      · omega
  have hfl := Proofs.Budget.eval_fle env g max fuel (fuel + N) rule e fr st (by omega)
    (by rw [h]; simp)
  rw [h] at hfl
  have hat := cmpN_at (semN_cmp hN) max (fuel + N) st.cnt hc (by omega)
  by_cases hm : st.cnt + N ≤ max
  · have := hat.1 hm
    simp only [CmpRes] at this
    rw [hfl] at this
    injection this with h1
    rw [h1]
  · obtain ⟨s, hs, _⟩ := hat.2 (by omega)
    rw [hfl] at hs
    cases hs

/-! ## 2. Determinism -/

theorem sem_deterministic (env : Env) (g : Grammar) {rule : String} {e : PExpr} {fr : Frame}
    {pt : Pt} {errs : List PErr} {o₁ o₂ : SemOut}
    (h1 : Sem env g rule e fr pt errs o₁) (h2 : Sem env g rule e fr pt errs o₂) : o₁ = o₂ :=
  sem_det h1 h2

theorem semN_deterministic (env : Env) (g : Grammar) {rule : String} {e : PExpr} {fr : Frame}
    {pt : Pt} {errs : List PErr} {o₁ o₂ : SemOut} {N₁ N₂ : Nat}
    (h1 : SemN env g rule e fr pt errs o₁ N₁) (h2 : SemN env g rule e fr pt errs o₂ N₂) :
    o₁ = o₂ ∧ N₁ = N₂ :=
  semN_det h1 h2

/-- `Sem` is `SemN` with the size forgotten. -/
theorem sem_iff_semN (env : Env) (g : Grammar) {rule : String} {e : PExpr} {fr : Frame}
    {pt : Pt} {errs : List PErr} {o : SemOut} :
    Sem env g rule e fr pt errs o ↔ ∃ N, SemN env g rule e fr pt errs o N :=
  semN_iff

/-! ## 3. Completeness: the engine finds every derivation, in exactly `N` steps -/

/-- A derivation of size `N` is reproduced by the engine from every counter `cnt` with
    `cnt + N ≤ max`, with any fuel `≥ N`; the final counter is `cnt + N`. -/
theorem engine_complete (env : Env) (g : Grammar) {rule : String} {e : PExpr} {fr : Frame}
    {pt : Pt} {errs : List PErr} {pt' : Pt} {errs' : List PErr} {fr' : Frame} {v : PVal}
    {m : Bool} {N : Nat}
    (h : SemN env g rule e fr pt errs (.res pt' errs' fr' v m) N) :
    1 ≤ N ∧ ∀ max fuel cnt, cnt + N ≤ max → N ≤ fuel →
      eval env g max fuel rule e fr { pt := pt, cnt := cnt, errs := errs } =
        .ok { pt := pt', cnt := cnt + N, errs := errs' } fr' v m :=
  semN_cmp h

/-- The same from a size-free derivation. -/
theorem engine_complete_sem (env : Env) (g : Grammar) {rule : String} {e : PExpr} {fr : Frame}
    {pt : Pt} {errs : List PErr} {pt' : Pt} {errs' : List PErr} {fr' : Frame} {v : PVal}
    {m : Bool}
    (h : Sem env g rule e fr pt errs (.res pt' errs' fr' v m)) :
    ∃ N, 1 ≤ N ∧ ∀ max fuel cnt, cnt + N ≤ max → N ≤ fuel →
      eval env g max fuel rule e fr { pt := pt, cnt := cnt, errs := errs } =
        .ok { pt := pt', cnt := cnt + N, errs := errs' } fr' v m := by
  obtain ⟨N, hN⟩ := sem_semN h
  exact ⟨N, engine_complete env g hN⟩

/-- With the fuel invariant of C11 (`eval_never_fuelOut`) instead of `N ≤ fuel`. -/
theorem engine_complete_fuel (env : Env) (g : Grammar) {rule : String} {e : PExpr} {fr : Frame}
    {pt : Pt} {errs : List PErr} {pt' : Pt} {errs' : List PErr} {fr' : Frame} {v : PVal}
    {m : Bool} {N : Nat}
    (h : SemN env g rule e fr pt errs (.res pt' errs' fr' v m) N)
    (max fuel cnt : Nat) (hm : cnt + N ≤ max) (hf : max + 1 ≤ fuel + cnt) :
    eval env g max fuel rule e fr { pt := pt, cnt := cnt, errs := errs } =
      .ok { pt := pt', cnt := cnt + N, errs := errs' } fr' v m :=
  (engine_complete env g h).2 max fuel cnt hm (by omega)

/-- An `abort` derivation is reproduced as a panic with the same message. -/
theorem engine_complete_abort (env : Env) (g : Grammar) {rule : String} {e : PExpr}
    {fr : Frame} {pt : Pt} {errs : List PErr} {msg : String} {N : Nat}
    (h : SemN env g rule e fr pt errs (.abort msg) N) :
    1 ≤ N ∧ ∀ max fuel cnt, cnt + N ≤ max → N ≤ fuel →
      ∃ pt' errs', eval env g max fuel rule e fr { pt := pt, cnt := cnt, errs := errs } =
        .abort { pt := pt', cnt := cnt + N, errs := errs' } msg :=
  semN_cmp h

/-- If the budget does not allow the `N` steps the engine stops with the budget error, at
    exactly `max + 1` steps. -/
theorem engine_exceeds (env : Env) (g : Grammar) {rule : String} {e : PExpr} {fr : Frame}
    {pt : Pt} {errs : List PErr} {o : SemOut} {N : Nat}
    (h : SemN env g rule e fr pt errs o N)
    (max fuel cnt : Nat) (hc : cnt ≤ max) (hm : max < cnt + N) (hf : N ≤ fuel) :
    ∃ s, eval env g max fuel rule e fr { pt := pt, cnt := cnt, errs := errs } = .exceeded s ∧
      s.cnt = max + 1 :=
  (cmpN_at (semN_cmp h) max fuel cnt hc hf).2 hm

/-! ## 4. A failed match does not move the position

  This is what makes the rule for ordered choice the textbook one: a failed alternative hands
  on its log, nothing else. -/

theorem sem_fail_restores (env : Env) (g : Grammar) {rule : String} {e : PExpr} {fr : Frame}
    {pt : Pt} {errs : List PErr} {pt' : Pt} {errs' : List PErr} {fr' : Frame} {v : PVal}
    (h : Sem env g rule e fr pt errs (.res pt' errs' fr' v false)) : pt' = pt :=
  sem_failPt h _ _ _ _ rfl

/-! ## 5. The top level: `run` = pigeon's `Parse` -/

theorem accepts_iff_acceptsIn (env : Env) (g : Grammar) (input : GoString) (v : PVal) :
    Accepts env g input v ↔ ∃ N, AcceptsIn env g input v N := by
  constructor
  · rintro ⟨start, pt', fr', hs, h⟩
    obtain ⟨N, hN⟩ := sem_semN h
    exact ⟨N, start, pt', fr', hs, hN⟩
  · rintro ⟨N, start, pt', fr', hs, h⟩
    exact ⟨start, pt', fr', hs, semN_sem h⟩

/-- The accepted value and the size of the derivation are unique. -/
theorem acceptsIn_unique (env : Env) (g : Grammar) (input : GoString) {v₁ v₂ : PVal}
    {N₁ N₂ : Nat} (h1 : AcceptsIn env g input v₁ N₁) (h2 : AcceptsIn env g input v₂ N₂) :
    v₁ = v₂ ∧ N₁ = N₂ := by
  obtain ⟨s1, p1, f1, hs1, h1⟩ := h1
  obtain ⟨s2, p2, f2, hs2, h2⟩ := h2
  rw [hs1] at hs2
  cases hs2
  obtain ⟨ho, hN⟩ := semN_det h1 h2
  injection ho with _ _ _ hv
  exact ⟨hv, hN⟩

theorem accepts_unique (env : Env) (g : Grammar) (input : GoString) {v₁ v₂ : PVal}
    (h1 : Accepts env g input v₁) (h2 : Accepts env g input v₂) : v₁ = v₂ := by
  obtain ⟨N₁, h1⟩ := (accepts_iff_acceptsIn env g input v₁).1 h1
  obtain ⟨N₂, h2⟩ := (accepts_iff_acceptsIn env g input v₂).1 h2
  exact (acceptsIn_unique env g input h1 h2).1

/-- What an accepting `run` looks like inside. -/
theorem runMax_accepted (env : Env) (g : Grammar) (max : Nat) (input : GoString)
    (h : (runMax env g max input).accepted = true) :
    ∃ start pt' fr' cnt, startRule g = some start ∧
      eval env g max (max + 2) start.shown start.expr []
        { pt := (Pt.start input).next, cnt := 0, errs := logRead "" (Pt.start input).next [] } =
        .ok { pt := pt', cnt := cnt, errs := [] } fr' (runMax env g max input).val true := by
  cases hs : startRule g with
  | none =>
    rw [startRule_eq_none.1 hs, runMax_nil] at h
    simp [ParseOut.accepted] at h
  | some start =>
    rw [runMax_start hs] at h ⊢
    generalize hR : eval env g max (max + 2) start.shown start.expr [] _ = R at h ⊢
    cases R with
    | ok st fr v m =>
      cases m
      · simp only [outOf, ParseOut.accepted] at h
        split at h <;> simp_all
      · obtain ⟨pt', cnt, errs'⟩ := st
        simp only [outOf, ParseOut.accepted, List.isEmpty_reverse, List.isEmpty_iff] at h
        subst h
        exact ⟨start, pt', fr, cnt, rfl, hR⟩
    | exceeded s => simp [outOf, ParseOut.accepted, PState.addErr] at h
    | abort s msg => simp [outOf, ParseOut.accepted, PState.addErr] at h
    | fuelOut => simp [outOf, ParseOut.accepted] at h

/-- Soundness of `run`, for EVERY budget `n`: if `run` reports no error, the input is derivable
    from the grammar and the value returned is the one the grammar prescribes. -/
theorem run_accepted_sound (env : Env) (g : Grammar) (n : Nat) (input : GoString)
    (h : (run env g n input).accepted = true) :
    Accepts env g input (run env g n input).val := by
  rw [run_eq_runMax] at h ⊢
  obtain ⟨start, pt', fr', cnt, hs, he⟩ := runMax_accepted env g _ input h
  exact ⟨start, pt', fr', hs, engine_sound env g _ _ _ _ _ _ he⟩

/-- Completeness of `run`: a derivation of size `N` that fits the effective budget is found,
    the result is the prescribed value, no errors, after exactly `N` steps. -/
theorem run_of_acceptsIn (env : Env) (g : Grammar) (n : Nat) (input : GoString) {v : PVal}
    {N : Nat} (h : AcceptsIn env g input v N) (hN : N ≤ effectiveMax n) :
    run env g n input = { val := v, errs := [], cnt := N } := by
  obtain ⟨start, pt', fr', hs, hd⟩ := h
  rw [run_eq_runMax, runMax_start hs]
  have := (cmpN_run (semN_cmp hd) (effectiveMax n)).1 hN
  simp only [CmpRes] at this
  rw [this]
  rfl

/-- … and one that does not fit is reported as the budget error. -/
theorem run_of_acceptsIn_exceeded (env : Env) (g : Grammar) (n : Nat) (input : GoString)
    {v : PVal} {N : Nat} (h : AcceptsIn env g input v N) (hN : effectiveMax n < N) :
    (run env g n input).val = .nil ∧ (∃ e ∈ (run env g n input).errs, e.kind = .maxExpr) ∧
      (run env g n input).cnt = effectiveMax n + 1 := by
  obtain ⟨start, pt', fr', hs, hd⟩ := h
  rw [run_eq_runMax, runMax_start hs]
  obtain ⟨s, hs', hc⟩ := (cmpN_run (semN_cmp hd) (effectiveMax n)).2 hN
  rw [hs']
  refine ⟨rfl, ⟨{ off := s.pt.off, rule := "", kind := .maxExpr }, ?_, rfl⟩, hc⟩
  simp [outOf, PState.addErr]

/-- C15 for an arbitrary budget `n` (effective budget `effectiveMax n`): `run` accepts with
    value `v` iff the grammar derives `(input, v)` by a derivation of at most that size. -/
theorem run_accepts_iff_budget (env : Env) (g : Grammar) (n : Nat) (input : GoString)
    (v : PVal) :
    ((run env g n input).accepted = true ∧ (run env g n input).val = v) ↔
      ∃ N, N ≤ effectiveMax n ∧ AcceptsIn env g input v N := by
  constructor
  · rintro ⟨ha, hv⟩
    rw [run_eq_runMax] at ha hv
    obtain ⟨start, pt', fr', cnt, hs, he⟩ := runMax_accepted env g _ input ha
    rw [hv] at he
    obtain ⟨N, hN⟩ := sem_semN (engine_sound env g _ _ _ _ _ _ he)
    refine ⟨N, ?_, start, pt', fr', hs, hN⟩
    apply Nat.le_of_not_lt
    intro hlt
    obtain ⟨s, hs', _⟩ := (cmpN_run (semN_cmp hN) (effectiveMax n)).2 hlt
    rw [he] at hs'
    cases hs'
  · rintro ⟨N, hN, h⟩
    rw [run_of_acceptsIn env g n input h hN]
    exact ⟨rfl, rfl⟩

/-- C15, unlimited budget (`n = 0`, i.e. `math.MaxUint64` expressions): `run` reports no error
    and returns `v` iff the grammar derives `(input, v)` — by a derivation of at most
    `2^64 - 1` nodes, the one number the hard limit of the real engine imposes. -/
theorem run_accepts_iff (env : Env) (g : Grammar) (input : GoString) (v : PVal) :
    ((run env g 0 input).accepted = true ∧ (run env g 0 input).val = v) ↔
      ∃ N, N ≤ 2 ^ 64 - 1 ∧ AcceptsIn env g input v N :=
  run_accepts_iff_budget env g 0 input v

/-- … in terms of the size-free `Accepts`: the side condition is only about the size. -/
theorem run_accepts_iff' (env : Env) (g : Grammar) (input : GoString) (v : PVal) :
    ((run env g 0 input).accepted = true ∧ (run env g 0 input).val = v) ↔
      Accepts env g input v ∧ ∀ N, AcceptsIn env g input v N → N ≤ 2 ^ 64 - 1 := by
  rw [run_accepts_iff]
  constructor
  · rintro ⟨N, hN, h⟩
    refine ⟨(accepts_iff_acceptsIn env g input v).2 ⟨N, h⟩, fun N' h' => ?_⟩
    rw [← (acceptsIn_unique env g input h h').2]; exact hN
  · rintro ⟨ha, hN⟩
    obtain ⟨N, h⟩ := (accepts_iff_acceptsIn env g input v).1 ha
    exact ⟨N, hN N h, h⟩

/-- Rejection, for EVERY budget: if the start rule fails, or matches with a non-empty error log
    (an explicit error production fired, or the input is not valid UTF-8), or panics, or there
    is no start rule, then `run` reports errors. -/
theorem run_rejects (env : Env) (g : Grammar) (input : GoString) (h : Rejects env g input)
    (n : Nat) : (run env g n input).accepted = false := by
  cases ha : (run env g n input).accepted with
  | false => rfl
  | true =>
    exfalso
    obtain ⟨start, pt', fr', hs, hd⟩ := run_accepted_sound env g n input ha
    rcases h with h | ⟨start', o, hs', hd', ho⟩
    · rw [h] at hs; cases hs
    · rw [hs] at hs'
      cases hs'
      have := sem_det hd hd'
      subst this
      simp at ho

/-- "… and rejects all others": an input with no accepting derivation at all (this includes
    inputs on which the grammar loops) is rejected under every budget. -/
theorem run_rejects_underivable (env : Env) (g : Grammar) (input : GoString)
    (h : ∀ v, ¬ Accepts env g input v) (n : Nat) : (run env g n input).accepted = false := by
  cases ha : (run env g n input).accepted with
  | false => rfl
  | true => exact absurd (run_accepted_sound env g n input ha) (h _)

/-! ## 6. Non-vacuity: `S <- "a" S / "a"` on `"aa"`, derivations built by hand -/

namespace Example

def env : Env where
  action := fun name _ b =>
    if name == "bad" then .ret (.bytes b) (some "boom") else .ret (.bytes b) none
  pred := fun _ _ => .ret true none
  classIn := fun _ _ => some false

abbrev a : PExpr := .lit [97] false
abbrev alt1 : PExpr := .seq [a, .ruleRef "S"]
abbrev sExpr : PExpr := .choice [alt1, a]
def sRule : Rule := { name := "S", displayName := "", expr := sExpr }
def g : Grammar := [sRule]
def input : GoString := [97, 97]

def pt1 : Pt := { rest := [97, 97], off := 0, rn := 97, w := 1 }
def pt2 : Pt := { rest := [97], off := 1, rn := 97, w := 1 }
def pt3 : Pt := { rest := [], off := 2, rn := 0xFFFD, w := 0 }

theorem start_next : (Pt.start input).next = pt1 := by decide
theorem start_log : logRead "" (Pt.start input).next [] = [] := by decide
theorem pt1_next : pt1.next = pt2 := by decide
theorem pt2_next : pt2.next = pt3 := by decide
theorem look : lookupRule g "S" = some sRule := rfl
theorem shown : sRule.shown = "S" := by decide

/-- `"a"` matches at `pt1` and at `pt2`, and fails at the end of input. -/
theorem lit1 : SemLit "S" [97] pt1 [] pt2 [] true := .step rfl .nil
theorem lit2 : SemLit "S" [97] pt2 [] pt3 [] true := .step rfl .nil
theorem lit3 : SemLit "S" [97] pt3 [] pt3 [] false := .mismatch (by decide)
abbrev b : PVal := .bytes [97]

/-- `S` at the end of input: both alternatives fail (4 steps). -/
theorem S_at3 (fr : Frame) : SemN env g "S" sExpr fr pt3 [] (.res pt3 [] fr .nil false) 4 :=
  .choice (.next (.seq_fail (.fail (.lit_fail lit3))) (.next (.lit_fail lit3) .exhausted))

/-- `S` at `pt2` (one `a` left): the first alternative fails in the recursive call, the position
    is restored, the second alternative matches (9 steps). -/
theorem S_at2 (fr : Frame) : SemN env g "S" sExpr fr pt2 [] (.res pt3 [] fr b true) 9 :=
  .choice (.next
    (.seq_fail (.cons (.lit_ok lit2) (.fail (.ruleRef_res (by decide) look (S_at3 [])))))
    (.hit (.lit_ok lit2)))

/-- `S` at `pt1` (the whole input `aa`): the first alternative matches (13 steps). -/
theorem S_at1 : SemN env g "S" sExpr [] pt1 [] (.res pt3 [] [] (.list [b, b]) true) 13 :=
  .choice (.hit (.seq_ok
    (.cons (.lit_ok lit1) (.cons (.ruleRef_res (by decide) look (S_at2 [])) .nil))))

theorem acceptsIn_aa : AcceptsIn env g input (.list [b, b]) 13 :=
  ⟨sRule, pt3, [], rfl, S_at1⟩

/-- The engine: same value, no errors, exactly 13 steps (by computation …). -/
example : (run env g 0 input).val = .list [b, b] := rfl
example : (run env g 0 input).errs = [] := by decide
example : (run env g 0 input).cnt = 13 := by decide
/-- … and as instances of the theorems. -/
example : run env g 0 input = { val := .list [b, b], errs := [], cnt := 13 } :=
  run_of_acceptsIn env g 0 input acceptsIn_aa (by decide)
example : (run env g 0 input).accepted = true ∧ (run env g 0 input).val = .list [b, b] :=
  (run_accepts_iff env g input _).2 ⟨13, by decide, acceptsIn_aa⟩
example : run env g 13 input = { val := .list [b, b], errs := [], cnt := 13 } :=
  run_of_acceptsIn env g 13 input acceptsIn_aa (by decide)
example : (run env g 12 input).cnt = 13 ∧ (run env g 12 input).val = .nil :=
  let h := run_of_acceptsIn_exceeded env g 12 input acceptsIn_aa (by decide)
  ⟨h.2.2, h.1⟩
example : Accepts env g input (.list [b, b]) :=
  (accepts_iff_acceptsIn env g input _).2 ⟨13, acceptsIn_aa⟩
/-- completeness at the level of `eval`, from an arbitrary counter -/
example : eval env g 1000 20 "S" sExpr [] { pt := pt1, cnt := 7, errs := [] } =
    .ok { pt := pt3, cnt := 20, errs := [] } [] (.list [b, b]) true :=
  (engine_complete env g S_at1).2 1000 20 7 (by decide) (by decide)

/-! A rejected input: `""` (the start rule fails, empty log → "no match found"). -/
def ptE : Pt := { rest := [], off := 0, rn := 0xFFFD, w := 0 }
theorem startE : (Pt.start []).next = ptE := by decide
theorem litE : SemLit "S" [97] ptE [] ptE [] false := .mismatch (by decide)
theorem S_atE : Sem env g "S" sExpr [] ptE [] (.res ptE [] [] .nil false) :=
  .choice (.next (.seq_fail (.fail (.lit_fail litE))) (.next (.lit_fail litE) .exhausted))
theorem rejects_empty : Rejects env g [] :=
  .inr ⟨sRule, _, rfl, S_atE, .inl rfl⟩
example : (run env g 0 []).accepted = false := run_rejects env g [] rejects_empty 0
example : (run env g 0 []).errs = [{ off := 0, rule := "", kind := .noMatch }] := by decide

/-! An explicit error production: `E <- "a" { return nil, errors.New("boom") }`.  The match
    succeeds, the error is logged at the start offset of the action, the input is rejected. -/
def eRule : Rule := { name := "E", displayName := "", expr := .action "bad" a }
def gE : Grammar := [eRule]
def ptA : Pt := { rest := [97], off := 0, rn := 97, w := 1 }
def ptA' : Pt := { rest := [], off := 1, rn := 0xFFFD, w := 0 }
theorem litA : SemLit "E" [97] ptA [] ptA' [] true := .step rfl .nil
theorem E_at : Sem env gE "E" (.action "bad" a) [] ptA []
    (.res ptA' [{ off := 0, rule := "E", kind := .action "boom" }] [] b true) :=
  .action_ret (err := some "boom") (.lit_ok litA) rfl
theorem rejects_err : Rejects env gE [97] :=
  .inr ⟨eRule, _, rfl, E_at, .inr (by simp)⟩
example : (run env gE 0 [97]).accepted = false := run_rejects env gE [97] rejects_err 0
example : (run env gE 0 [97]).errs = [{ off := 0, rule := "E", kind := .action "boom" }] := by
  decide

/-! Repetition and predicates: `T <- "a"* !.` on `"a"` (6 steps). -/
def tRule : Rule := { name := "T", displayName := "", expr := .seq [.zeroOrMore a, .notP .any] }
def gT : Grammar := [tRule]
theorem litT : SemLit "T" [97] ptA [] ptA' [] true := .step rfl .nil
theorem litT' : SemLit "T" [97] ptA' [] ptA' [] false := .mismatch (by decide)
theorem T_at : SemN env gT "T" (.seq [.zeroOrMore a, .notP .any]) [] ptA []
    (.res ptA' [] [] (.list [.list [b], .nil]) true) 6 :=
  .seq_ok (.cons (.star_done (.more (.lit_ok litT) (.stop (.lit_fail litT'))))
    (.cons (.notP_res (.any_eof rfl)) .nil))
example : run env gT 0 [97] = { val := .list [.list [b], .nil], errs := [], cnt := 6 } :=
  run_of_acceptsIn env gT 0 [97] ⟨tRule, ptA', [], rfl, T_at⟩ (by decide)
example : (run env gT 0 [97]).cnt = 6 := by decide

end Example

end Bexpr.Props.C15

#print axioms Bexpr.Props.C15.engine_sound
#print axioms Bexpr.Props.C15.engine_sound_abort
#print axioms Bexpr.Props.C15.engine_sound_steps
#print axioms Bexpr.Props.C15.sem_deterministic
#print axioms Bexpr.Props.C15.semN_deterministic
#print axioms Bexpr.Props.C15.sem_iff_semN
#print axioms Bexpr.Props.C15.engine_complete
#print axioms Bexpr.Props.C15.engine_complete_sem
#print axioms Bexpr.Props.C15.engine_complete_fuel
#print axioms Bexpr.Props.C15.engine_complete_abort
#print axioms Bexpr.Props.C15.engine_exceeds
#print axioms Bexpr.Props.C15.sem_fail_restores
#print axioms Bexpr.Props.C15.accepts_iff_acceptsIn
#print axioms Bexpr.Props.C15.acceptsIn_unique
#print axioms Bexpr.Props.C15.accepts_unique
#print axioms Bexpr.Props.C15.run_accepted_sound
#print axioms Bexpr.Props.C15.run_of_acceptsIn
#print axioms Bexpr.Props.C15.run_of_acceptsIn_exceeded
#print axioms Bexpr.Props.C15.run_accepts_iff_budget
#print axioms Bexpr.Props.C15.run_accepts_iff
#print axioms Bexpr.Props.C15.run_accepts_iff'
#print axioms Bexpr.Props.C15.run_rejects
#print axioms Bexpr.Props.C15.run_rejects_underivable
#print axioms Bexpr.Props.C15.Example.acceptsIn_aa
#print axioms Bexpr.Props.C15.Example.rejects_empty
#print axioms Bexpr.Props.C15.Example.rejects_err
#print axioms Bexpr.Props.C15.Example.T_at
