/-
  C19 — `ExpressionDump` renders the tree faithfully.

  Model: `Bexpr.Dump.dump` (`Bexpr/Eval/Dump.lean`), `Bexpr.Selector.render`
  (`Bexpr/Peg/Actions.lean`), Go: `/repo/grammar/ast.go`.
  Core Lean only.
-/
import Bexpr.Eval.Dump
import Proofs.DumpLemmas

namespace Bexpr.Props.C19
open Bexpr Bexpr.Dump Bexpr.Proofs.Dump

/-! ### the reference renderer: a pre-order list of (level, text) lines -/

/-- header text of a node (without indentation, without the newline) -/
def header : Expr → GoString
  | .not _ => s "Not {"
  | .and _ _ => s "And {"
  | .or _ _ => s "Or {"
  | .match_ _ op _ => s (matchOpName op) ++ s " {"
  | .coll op sel b _ =>
    s (collOpName op) ++ s " " ++ bindingString b ++ s " on " ++ sel.render ++ s " {"

/-- the attribute lines of a match node (texts only) -/
def matchAttrs (sel : Selector) (op : MatchOp) (val : Option GoString) : List GoString :=
  (s "Selector: " ++ sel.render) ::
    (if printsValue op then [s "Value: " ++ Strconv.quote (val.getD [])] else [])

/-- One block per node: header at the node's level, attribute lines and child blocks one level
    deeper, the closing brace at the node's level. -/
def render : Expr → Nat → List (Nat × GoString)
  | .not e, l => (l, s "Not {") :: (render e (l + 1) ++ [(l, s "}")])
  | .and a b, l => (l, s "And {") :: (render a (l + 1) ++ render b (l + 1) ++ [(l, s "}")])
  | .or a b, l => (l, s "Or {") :: (render a (l + 1) ++ render b (l + 1) ++ [(l, s "}")])
  | .match_ sel op val, l =>
    (l, s (matchOpName op) ++ s " {") ::
      ((matchAttrs sel op val).map (fun t => (l + 1, t)) ++ [(l, s "}")])
  | .coll op sel b inner, l =>
    (l, s (collOpName op) ++ s " " ++ bindingString b ++ s " on " ++ sel.render ++ s " {") ::
      (render inner (l + 1) ++ [(l, s "}")])

/-- the bytes of one output line -/
def lineStr (indent : GoString) (p : Nat × GoString) : GoString :=
  repeatStr indent p.1 ++ p.2 ++ s "\n"

/-- the bytes of a list of lines -/
def linesStr (indent : GoString) (ls : List (Nat × GoString)) : GoString :=
  (ls.map (lineStr indent)).flatten

theorem linesStr_nil (indent : GoString) : linesStr indent [] = [] := rfl

theorem linesStr_cons (indent : GoString) (p : Nat × GoString) (ls : List (Nat × GoString)) :
    linesStr indent (p :: ls) = lineStr indent p ++ linesStr indent ls := by
  simp [linesStr]

theorem linesStr_append (indent : GoString) (a b : List (Nat × GoString)) :
    linesStr indent (a ++ b) = linesStr indent a ++ linesStr indent b := by
  simp [linesStr]

/-! ### 2: `dump` is the concatenation of the rendered lines -/

theorem dump_eq_render (indent : GoString) (e : Expr) (level : Nat)
    (h : e.parserShaped = true) :
    dump indent e level = some (linesStr indent (render e level)) := by
  induction e generalizing level with
  | not e ih =>
    simp only [Expr.parserShaped] at h
    simp only [dump, ih (level + 1) h, render, linesStr_cons, linesStr_append, linesStr_nil,
      lineStr, s_not, s_close, bind, Option.bind, pure, List.append_assoc, List.append_nil]
  | and a b iha ihb =>
    simp only [Expr.parserShaped, Bool.and_eq_true] at h
    simp only [dump, iha (level + 1) h.1, ihb (level + 1) h.2, render, linesStr_cons,
      linesStr_append, linesStr_nil, lineStr, s_and, s_close, bind, Option.bind, pure,
      List.append_assoc, List.append_nil]
  | or a b iha ihb =>
    simp only [Expr.parserShaped, Bool.and_eq_true] at h
    simp only [dump, iha (level + 1) h.1, ihb (level + 1) h.2, render, linesStr_cons,
      linesStr_append, linesStr_nil, lineStr, s_or, s_close, bind, Option.bind, pure,
      List.append_assoc, List.append_nil]
  | match_ sel op val =>
    simp only [Expr.parserShaped, beq_iff_eq] at h
    cases hp : printsValue op
    · simp only [dump, hp, render, matchAttrs, linesStr_cons, linesStr_nil, lineStr, s_open,
        s_close, List.map, List.append_assoc, List.append_nil, List.cons_append, List.nil_append,
        Bool.false_eq_true, if_false]
    · have ht : op.takesValue = true := by cases op <;> first | rfl | cases hp
      rw [ht] at h
      cases val with
      | none => cases h
      | some raw =>
        simp only [dump, hp, render, matchAttrs, linesStr_cons, linesStr_nil, lineStr, s_open,
          s_close, List.map, List.append_assoc, List.append_nil, List.cons_append,
          List.nil_append, if_true, Option.getD_some]
  | coll op sel b inner ih =>
    simp only [Expr.parserShaped] at h
    simp only [dump, ih (level + 1) h, render, linesStr_cons, linesStr_append, linesStr_nil,
      lineStr, s_open, s_close, bind, Option.bind, pure, List.append_assoc, List.append_nil]

/-- The form asked for: `flatten` of the mapped lines. -/
theorem dump_eq_render' (indent : GoString) (e : Expr) (level : Nat)
    (h : e.parserShaped = true) :
    dump indent e level =
      some (((render e level).map fun (p : Nat × GoString) =>
        repeatStr indent p.1 ++ p.2 ++ s "\n").flatten) :=
  dump_eq_render indent e level h

/-! ### 1: totality on parser-shaped trees -/

theorem dump_total (indent : GoString) (e : Expr) (level : Nat) (h : e.parserShaped = true) :
    (dump indent e level).isSome = true := by
  rw [dump_eq_render indent e level h]; rfl

/-- Conversely the only way `dump` panics is a value-printing match node without a value. -/
theorem dump_none_example (indent : GoString) (sel : Selector) (level : Nat) :
    dump indent (.match_ sel .equal none) level = none := rfl

/-- `matches` / `not matches` carry a value that is NOT printed; a missing value is harmless
    there (so `parserShaped` is sufficient, not necessary, for totality). -/
example (indent : GoString) (sel : Selector) (level : Nat) :
    (dump indent (.match_ sel .matches none) level).isSome = true := rfl

/-! ### 3: block structure and levels -/

/-- first line: the header at the node's level; last line: `}` at the node's level; everything in
    between (attribute lines and the children's blocks) is at least one level deeper. -/
theorem render_block (e : Expr) (l : Nat) :
    ∃ mid, render e l = (l, header e) :: (mid ++ [(l, s "}")]) ∧ ∀ p ∈ mid, l + 1 ≤ p.1 := by
  induction e generalizing l with
  | not e ih =>
    obtain ⟨m, hm, hl⟩ := ih (l + 1)
    refine ⟨render e (l + 1), rfl, ?_⟩
    intro p hp
    rw [hm] at hp
    simp only [List.mem_cons, List.mem_append, List.not_mem_nil, or_false] at hp
    rcases hp with rfl | hp | rfl
    · exact Nat.le_refl _
    · exact Nat.le_of_succ_le (hl p hp)
    · exact Nat.le_refl _
  | and a b iha ihb =>
    obtain ⟨ma, hma, hla⟩ := iha (l + 1)
    obtain ⟨mb, hmb, hlb⟩ := ihb (l + 1)
    refine ⟨render a (l + 1) ++ render b (l + 1), by simp [render, header], ?_⟩
    intro p hp
    rw [hma, hmb] at hp
    simp only [List.mem_cons, List.mem_append, List.not_mem_nil, or_false] at hp
    rcases hp with (rfl | hp | rfl) | (rfl | hp | rfl)
    · exact Nat.le_refl _
    · exact Nat.le_of_succ_le (hla p hp)
    · exact Nat.le_refl _
    · exact Nat.le_refl _
    · exact Nat.le_of_succ_le (hlb p hp)
    · exact Nat.le_refl _
  | or a b iha ihb =>
    obtain ⟨ma, hma, hla⟩ := iha (l + 1)
    obtain ⟨mb, hmb, hlb⟩ := ihb (l + 1)
    refine ⟨render a (l + 1) ++ render b (l + 1), by simp [render, header], ?_⟩
    intro p hp
    rw [hma, hmb] at hp
    simp only [List.mem_cons, List.mem_append, List.not_mem_nil, or_false] at hp
    rcases hp with (rfl | hp | rfl) | (rfl | hp | rfl)
    · exact Nat.le_refl _
    · exact Nat.le_of_succ_le (hla p hp)
    · exact Nat.le_refl _
    · exact Nat.le_refl _
    · exact Nat.le_of_succ_le (hlb p hp)
    · exact Nat.le_refl _
  | match_ sel op val =>
    refine ⟨(matchAttrs sel op val).map (fun t => (l + 1, t)), rfl, ?_⟩
    intro p hp
    obtain ⟨t, _, rfl⟩ := List.mem_map.1 hp
    exact Nat.le_refl _
  | coll op sel b inner ih =>
    obtain ⟨m, hm, hl⟩ := ih (l + 1)
    refine ⟨render inner (l + 1), rfl, ?_⟩
    intro p hp
    rw [hm] at hp
    simp only [List.mem_cons, List.mem_append, List.not_mem_nil, or_false] at hp
    rcases hp with rfl | hp | rfl
    · exact Nat.le_refl _
    · exact Nat.le_of_succ_le (hl p hp)
    · exact Nat.le_refl _

/-- every line of a block is at the block's level or deeper -/
theorem render_level_ge (e : Expr) (l : Nat) : ∀ p ∈ render e l, l ≤ p.1 := by
  obtain ⟨mid, hm, hl⟩ := render_block e l
  intro p hp
  rw [hm] at hp
  simp only [List.mem_cons, List.mem_append, List.not_mem_nil, or_false] at hp
  rcases hp with rfl | hp | rfl
  · exact Nat.le_refl _
  · exact Nat.le_of_succ_le (hl p hp)
  · exact Nat.le_refl _

/-- `dump_levels`: first and last line of a node's block are at the node's level … -/
theorem dump_levels_first_last (e : Expr) (l : Nat) :
    (render e l).head? = some (l, header e) ∧ (render e l).getLast? = some (l, s "}") := by
  obtain ⟨mid, hm, _⟩ := render_block e l
  rw [hm]
  refine ⟨rfl, ?_⟩
  rw [← List.cons_append, List.getLast?_append]
  rfl

/-- … and every line of a child's block is at a level ≥ the parent's level + 1. -/
theorem dump_levels :
    (∀ e l, ∀ p ∈ render e (l + 1), l + 1 ≤ p.1) ∧
    (∀ e l, render (.not e) l = (l, s "Not {") :: (render e (l + 1) ++ [(l, s "}")])) ∧
    (∀ a b l, render (.and a b) l =
      (l, s "And {") :: (render a (l + 1) ++ render b (l + 1) ++ [(l, s "}")])) ∧
    (∀ a b l, render (.or a b) l =
      (l, s "Or {") :: (render a (l + 1) ++ render b (l + 1) ++ [(l, s "}")])) ∧
    (∀ op sel b inner l, render (.coll op sel b inner) l =
      (l, header (.coll op sel b inner)) :: (render inner (l + 1) ++ [(l, s "}")])) :=
  ⟨fun e l => render_level_ge e (l + 1), fun _ _ => rfl, fun _ _ _ => rfl, fun _ _ _ => rfl,
    fun _ _ _ _ _ => rfl⟩

/-- indentation is uniform: rendering at a deeper level only shifts the levels -/
theorem render_shift (e : Expr) (l k : Nat) :
    render e (l + k) = (render e l).map fun p => (p.1 + k, p.2) := by
  induction e generalizing l with
  | not e ih =>
    simp only [render, List.map_cons, List.map_append, List.map_nil]
    rw [Nat.add_right_comm l k 1, ih]
  | and a b iha ihb =>
    simp only [render, List.map_cons, List.map_append, List.map_nil]
    rw [Nat.add_right_comm l k 1, iha, ihb]
  | or a b iha ihb =>
    simp only [render, List.map_cons, List.map_append, List.map_nil]
    rw [Nat.add_right_comm l k 1, iha, ihb]
  | match_ sel op val =>
    simp only [render, List.map_cons, List.map_append, List.map_nil, List.map_map]
    rw [Nat.add_right_comm l k 1]
    rfl
  | coll op sel b inner ih =>
    simp only [render, List.map_cons, List.map_append, List.map_nil]
    rw [Nat.add_right_comm l k 1, ih]

/-- number of lines: two per node, plus the attribute lines of match nodes -/
def lineCount : Expr → Nat
  | .not e => lineCount e + 2
  | .and a b => lineCount a + lineCount b + 2
  | .or a b => lineCount a + lineCount b + 2
  | .match_ _ op _ => if printsValue op then 4 else 3
  | .coll _ _ _ inner => lineCount inner + 2

theorem render_length (e : Expr) (l : Nat) : (render e l).length = lineCount e := by
  induction e generalizing l with
  | not e ih => simp [render, lineCount, ih]
  | and a b iha ihb => simp [render, lineCount, iha, ihb]; omega
  | or a b iha ihb => simp [render, lineCount, iha, ihb]; omega
  | match_ sel op val => cases h : printsValue op <;> simp [render, lineCount, matchAttrs, h]
  | coll op sel b inner ih => simp [render, lineCount, ih]

/-! ### 4: determinism — `dump` is a function of (indent, tree, level) -/

theorem dump_deterministic (i₁ i₂ : GoString) (e₁ e₂ : Expr) (l₁ l₂ : Nat)
    (hi : i₁ = i₂) (he : e₁ = e₂) (hl : l₁ = l₂) : dump i₁ e₁ l₁ = dump i₂ e₂ l₂ := by
  subst hi he hl; rfl

/-! ### 5: `Selector.String()` -/

theorem selector_string_spec :
    (∀ ty, (⟨ty, []⟩ : Selector).render = []) ∧
    (∀ path, (⟨.bexpr, path⟩ : Selector).render = GoString.join (GoString.ofString ".") path) ∧
    (∀ path, (⟨.jsonPointer, path⟩ : Selector).render =
      GoString.join (GoString.ofString "/") path) ∧
    (∀ path, (⟨.unknown, path⟩ : Selector).render = []) := by
  refine ⟨fun _ => rfl, ?_, ?_, ?_⟩ <;> intro path <;> cases path <;> rfl

/-- dot-joined / slash-joined, spelled out with `intersperse` -/
theorem selector_string_bexpr (path : List GoString) :
    (⟨.bexpr, path⟩ : Selector).render = (path.intersperse [46]).flatten := by
  rw [selector_string_spec.2.1, join_eq_intercalate, s_dot]

theorem selector_string_jsonPointer (path : List GoString) :
    (⟨.jsonPointer, path⟩ : Selector).render = (path.intersperse [47]).flatten := by
  rw [selector_string_spec.2.2.1, join_eq_intercalate, s_slash]

/-! ### 6: operator names -/

theorem matchOpName_injective (a b : MatchOp) (h : matchOpName a = matchOpName b) : a = b := by
  cases a <;> cases b <;> first | rfl | (revert h; decide)

theorem collOpName_injective (a b : CollOp) (h : collOpName a = collOpName b) : a = b := by
  cases a <;> cases b <;> first | rfl | (revert h; decide)

theorem bindModeName_injective (a b : BindMode) (h : bindModeName a = bindModeName b) :
    a = b := by
  cases a <;> cases b <;> first | rfl | (revert h; decide)

theorem printsValue_iff (op : MatchOp) :
    printsValue op = true ↔ op = .equal ∨ op = .notEqual ∨ op = .in_ ∨ op = .notIn := by
  cases op <;> simp [printsValue]

/-- the four equality / membership operators print `Value: <quoted raw>` … -/
theorem render_match_prints (sel : Selector) (op : MatchOp) (raw : GoString) (l : Nat)
    (h : printsValue op = true) :
    render (.match_ sel op (some raw)) l =
      [(l, s (matchOpName op) ++ s " {"), (l + 1, s "Selector: " ++ sel.render),
       (l + 1, s "Value: " ++ Strconv.quote raw), (l, s "}")] := by
  simp [render, matchAttrs, h]

/-- … the other four never look at the value. -/
theorem render_match_silent (sel : Selector) (op : MatchOp) (val : Option GoString) (l : Nat)
    (h : printsValue op = false) :
    render (.match_ sel op val) l =
      [(l, s (matchOpName op) ++ s " {"), (l + 1, s "Selector: " ++ sel.render), (l, s "}")] := by
  simp [render, matchAttrs, h]

theorem dump_match_silent (indent : GoString) (sel : Selector) (op : MatchOp)
    (v w : Option GoString) (l : Nat) (h : printsValue op = false) :
    dump indent (.match_ sel op v) l = dump indent (.match_ sel op w) l := by
  simp [dump, h]

/-- `ALL` / `ANY` header -/
theorem header_coll (op : CollOp) (sel : Selector) (b : Binding) (inner : Expr) :
    header (.coll op sel b inner) =
      s (collOpName op) ++ s " " ++ bindingString b ++ s " on " ++ sel.render ++ s " {" := rfl

/-! ### 7: non-vacuity -/

section examples

/-- `foo.bar == "a\"b" and not (all Value (v) in /xs { v is empty })` -/
def exTree : Expr :=
  .and
    (.match_ ⟨.bexpr, [s "foo", s "bar"]⟩ .equal (some (s "a\"b")))
    (.not (.coll .all ⟨.jsonPointer, [s "xs"]⟩ { mode := .value, value := s "v" }
      (.match_ ⟨.bexpr, [s "v"]⟩ .isEmpty none)))

example : exTree.parserShaped = true := by decide

example : dump (s "  ") exTree 0 = some (s (
    "And {\n" ++
    "  Equal {\n" ++
    "    Selector: foo.bar\n" ++
    "    Value: \"a\\\"b\"\n" ++
    "  }\n" ++
    "  Not {\n" ++
    "    ALL Value (v) on xs {\n" ++
    "      Is Empty {\n" ++
    "        Selector: v\n" ++
    "      }\n" ++
    "    }\n" ++
    "  }\n" ++
    "}\n")) := by decide +kernel

example : (render exTree 0).map (·.1) = [0, 1, 2, 2, 1, 1, 2, 3, 4, 3, 2, 1, 0] := by
  decide +kernel

example : lineCount exTree = 13 := by decide

/-- a tree that is not parser-shaped and does panic -/
example : dump (s "  ") (.not (.match_ ⟨.bexpr, [s "x"]⟩ .in_ none)) 0 = none := rfl

example : (⟨.jsonPointer, [s "a", s "b", s "c"]⟩ : Selector).render = s "a/b/c" := by
  decide +kernel
example : (⟨.bexpr, [s "a", s "b", s "c"]⟩ : Selector).render = s "a.b.c" := by
  decide +kernel

end examples

end Bexpr.Props.C19

open Bexpr.Props.C19 in
section
end

#print axioms Bexpr.Props.C19.dump_total
#print axioms Bexpr.Props.C19.dump_eq_render
#print axioms Bexpr.Props.C19.dump_eq_render'
#print axioms Bexpr.Props.C19.render_block
#print axioms Bexpr.Props.C19.render_level_ge
#print axioms Bexpr.Props.C19.dump_levels_first_last
#print axioms Bexpr.Props.C19.dump_levels
#print axioms Bexpr.Props.C19.render_shift
#print axioms Bexpr.Props.C19.render_length
#print axioms Bexpr.Props.C19.dump_deterministic
#print axioms Bexpr.Props.C19.selector_string_spec
#print axioms Bexpr.Props.C19.selector_string_bexpr
#print axioms Bexpr.Props.C19.selector_string_jsonPointer
#print axioms Bexpr.Props.C19.matchOpName_injective
#print axioms Bexpr.Props.C19.collOpName_injective
#print axioms Bexpr.Props.C19.bindModeName_injective
#print axioms Bexpr.Props.C19.printsValue_iff
#print axioms Bexpr.Props.C19.render_match_prints
#print axioms Bexpr.Props.C19.render_match_silent
#print axioms Bexpr.Props.C19.dump_match_silent
