/-
  C17, FULL STACK: `CreateFilter(text)` + `Execute(data)` in terms of the REFERENCE outcome of the
  printed tree on each element.

  `Props/C17.lean` specifies `(*Filter).Execute` in terms of `Evaluate` of the filter's evaluator;
  `Props/C01Eval.lean` (`created_refines_spec`) shows that the evaluator created from the text of
  a well-formed rendering `ρ` returns, on a datum satisfying `C01.Hyps`, the reference outcome
  `Spec.denote re ρ.ast (top … d)`.  Here the two are composed through the real entry points
  `createFilter` (= `bexpr.CreateFilter`: the nil filter for the empty text, otherwise
  `CreateEvaluator` with NO options) and `execute` (= `(*Filter).Execute`).

  `refElem re ρ x` is the reference outcome of the printed tree `ρ.ast` on the element `x` under
  the default options (tag name `bexpr`, no hook, no unknown-value); `ElemOK x` are the
  hypotheses of C01 on `x` under these options: `x` well formed and every list reachable in it
  of at most 2^63 elements (the hook and unknown-value clauses are vacuous), `elemOK_of_size`.

  PROVED (`created_filter_spec`, the conjunction; components `filter_*` hold for every filter
  `CreateFilter` returns, without budget hypothesis)
   * `CreateFilter(ρ.text)` returns a filter — never the nil filter (the text is not empty), never
     the type-assertion panic — provided the unlimited parse stays below the 2^64 limit (`Fits`,
     necessary: `C16Eval.fits_necessary`).
   * slice / array / map (ANY key type; `Execute` never looks at the keys): if every element
     (entry value) is `ElemOK` and has a reference outcome that is a value, the result is the
     container of the same type (arrays: the slice `[]elem`) holding exactly the elements /
     entries whose reference outcome is `.val true`, in the original order.
   * slice / array: if the elements before `x` are `ElemOK` with value outcomes and `x` is
     `ElemOK` with a reference outcome that is not a value, the result is the image of THAT
     outcome (`.err` for an error, whatever follows `x`): `filter_first_error_*`,
     `filter_error_*`.
   * map: if every entry is `ElemOK` with a reference outcome that is a value or an error, the
     result is `.err` iff some entry's reference outcome is an error (independent of the
     iteration order, which Go leaves unspecified).
-/
import Props.C01Eval

namespace Bexpr.Props.C17Eval
open Bexpr Bexpr.Go Bexpr.Eval Bexpr.Peg Bexpr.Driver Bexpr.Proofs.RoundTrip
open Bexpr.Proofs Bexpr.Proofs.SpecLemmas
open Bexpr.Props.C16Eval (Fits)
open Bexpr.Props.C07Eval (createFilter_ok_inv createFilter_rendering)
open Bexpr.Props.C01Eval (cfgOf refOutcome created_refines_spec_of_created)

/-- the hypotheses of C01 on one element, for the options `CreateFilter` uses (none) -/
def ElemOK (x : Any) : Prop := C01.Hyps x (cfgOf []) (getOpts []).unknown

/-- sufficient: a well-formed value of at most 2^63 nodes -/
theorem elemOK_of_size (x : Any) (hwf : Any.wf x = true) (hsz : rvSize x ≤ 2 ^ 63) : ElemOK x :=
  C01.hyps_of_size x _ _ hwf (Or.inl rfl) (by intro u h; cases h) hsz

/-- … and necessary up to the size: an `ElemOK` value is well formed -/
theorem ElemOK.wf {x : Any} (h : ElemOK x) : Any.wf x = true := C01.Hyps.wf h

/-- the reference outcome of the printed tree on one element, default options -/
abbrev refElem (re : RegexOracle) (ρ : Top) (x : Any) : Out := refOutcome re ρ.ast [] x

/-- what the filter's evaluator returns on one element -/
theorem filter_refines (ρ : Top) (h : ρ.WF) (ev : Evaluator)
    (hc : createFilter pinEnv pinGrammar ρ.text = .ok ev) (re : RegexOracle) (x : Any)
    (hx : ElemOK x) : ev.evaluate re x = refElem re ρ x :=
  created_refines_spec_of_created ρ h [] ev (createFilter_ok_inv hc) re x hx

/-- `CreateFilter` on a well-formed rendering: a filter holding the parsed tree -/
theorem created_filter (ρ : Top) (h : ρ.WF) (hfit : Fits ρ.text) :
    ∃ ev, createFilter pinEnv pinGrammar ρ.text = .ok ev ∧ ev.ast = norm ρ.ast :=
  (createFilter_rendering ρ h).1 hfit

section components
variable (ρ : Top) (h : ρ.WF) (ev : Evaluator)
  (hc : createFilter pinEnv pinGrammar ρ.text = .ok ev) (re : RegexOracle)
include h hc

/-- slice: exactly the elements whose reference outcome is `true`, in order -/
theorem filter_slice_spec (name : String) (elem : GoType) (isNil : Bool) (xs : List GoVal)
    (hok : ∀ x ∈ xs, ElemOK x.toAny) (hval : ∀ x ∈ xs, ∃ b, refElem re ρ x.toAny = .val b) :
    execute re (some ev) (some (.slice name elem isNil xs)) =
      .ok (some (.slice name elem false
        (xs.filter fun x => refElem re ρ x.toAny == .val true))) := by
  have heq : ∀ x ∈ xs, ev.evaluate re x.toAny = refElem re ρ x.toAny :=
    fun x hx => filter_refines ρ h ev hc re _ (hok x hx)
  have hf : (xs.filter fun x => ev.evaluate re x.toAny == .val true) =
      xs.filter fun x => refElem re ρ x.toAny == .val true :=
    List.filter_congr fun x hx => by rw [heq x hx]
  rw [C17.execute_slice_spec re ev name elem isNil xs
    (fun x hx => by rw [heq x hx]; exact hval x hx), hf]

/-- array: the slice `[]elem` of the elements whose reference outcome is `true` -/
theorem filter_array_spec (elem : GoType) (xs : List GoVal)
    (hok : ∀ x ∈ xs, ElemOK x.toAny) (hval : ∀ x ∈ xs, ∃ b, refElem re ρ x.toAny = .val b) :
    execute re (some ev) (some (.array elem xs)) =
      .ok (some (.slice "" elem false
        (xs.filter fun x => refElem re ρ x.toAny == .val true))) := by
  have heq : ∀ x ∈ xs, ev.evaluate re x.toAny = refElem re ρ x.toAny :=
    fun x hx => filter_refines ρ h ev hc re _ (hok x hx)
  have hf : (xs.filter fun x => ev.evaluate re x.toAny == .val true) =
      xs.filter fun x => refElem re ρ x.toAny == .val true :=
    List.filter_congr fun x hx => by rw [heq x hx]
  rw [C17.execute_array_spec re ev elem xs
    (fun x hx => by rw [heq x hx]; exact hval x hx), hf]

/-- map, any key type (string keys, `interface{}` keys, …): the same map type with the entries
    (key and value unchanged) whose value has the reference outcome `true` -/
theorem filter_map_spec (name : String) (kt vt : GoType) (isNil : Bool)
    (es : List (GoVal × GoVal)) (hok : ∀ e ∈ es, ElemOK e.2.toAny)
    (hval : ∀ e ∈ es, ∃ b, refElem re ρ e.2.toAny = .val b) :
    execute re (some ev) (some (.map name kt vt isNil es)) =
      .ok (some (.map name kt vt false
        (es.filter fun e => refElem re ρ e.2.toAny == .val true))) := by
  have heq : ∀ e ∈ es, ev.evaluate re e.2.toAny = refElem re ρ e.2.toAny :=
    fun e he => filter_refines ρ h ev hc re _ (hok e he)
  have hf : (es.filter fun e => ev.evaluate re e.2.toAny == .val true) =
      es.filter fun e => refElem re ρ e.2.toAny == .val true :=
    List.filter_congr fun e he => by rw [heq e he]
  rw [C17.execute_map_spec re ev name kt vt isNil es
    (fun e he => by rw [heq e he]; exact hval e he), hf]

/-- slice: the FIRST element whose reference outcome is not a value decides; nothing is assumed
    about the elements after it -/
theorem filter_first_error_slice (name : String) (elem : GoType) (isNil : Bool)
    (pre : List GoVal) (x : GoVal) (post : List GoVal)
    (hok : ∀ y ∈ pre, ElemOK y.toAny) (hokx : ElemOK x.toAny)
    (hpre : ∀ y ∈ pre, ∃ b, refElem re ρ y.toAny = .val b)
    (hx : ∀ b, refElem re ρ x.toAny ≠ .val b) :
    execute re (some ev) (some (.slice name elem isNil (pre ++ x :: post))) =
      outToExec (refElem re ρ x.toAny) := by
  have hxe := filter_refines ρ h ev hc re _ hokx
  rw [C17.execute_first_error_slice re ev name elem isNil pre x post
    (fun y hy => by rw [filter_refines ρ h ev hc re _ (hok y hy)]; exact hpre y hy)
    (by rw [hxe]; exact hx), hxe]

theorem filter_first_error_array (elem : GoType) (pre : List GoVal) (x : GoVal)
    (post : List GoVal) (hok : ∀ y ∈ pre, ElemOK y.toAny) (hokx : ElemOK x.toAny)
    (hpre : ∀ y ∈ pre, ∃ b, refElem re ρ y.toAny = .val b)
    (hx : ∀ b, refElem re ρ x.toAny ≠ .val b) :
    execute re (some ev) (some (.array elem (pre ++ x :: post))) =
      outToExec (refElem re ρ x.toAny) := by
  have hxe := filter_refines ρ h ev hc re _ hokx
  rw [C17.execute_first_error_array re ev elem pre x post
    (fun y hy => by rw [filter_refines ρ h ev hc re _ (hok y hy)]; exact hpre y hy)
    (by rw [hxe]; exact hx), hxe]

/-- slice: `.err` as soon as one element's reference outcome is an error and the reference
    outcomes of all elements before it are values -/
theorem filter_error_slice (name : String) (elem : GoType) (isNil : Bool)
    (pre : List GoVal) (x : GoVal) (post : List GoVal)
    (hok : ∀ y ∈ pre, ElemOK y.toAny) (hokx : ElemOK x.toAny)
    (hpre : ∀ y ∈ pre, ∃ b, refElem re ρ y.toAny = .val b)
    (b : Bool) (hx : refElem re ρ x.toAny = .err b) :
    execute re (some ev) (some (.slice name elem isNil (pre ++ x :: post))) = .err := by
  rw [filter_first_error_slice ρ h ev hc re name elem isNil pre x post hok hokx hpre
    (by rw [hx]; intro b' hb'; cases hb'), hx]
  rfl

theorem filter_error_array (elem : GoType) (pre : List GoVal) (x : GoVal) (post : List GoVal)
    (hok : ∀ y ∈ pre, ElemOK y.toAny) (hokx : ElemOK x.toAny)
    (hpre : ∀ y ∈ pre, ∃ b, refElem re ρ y.toAny = .val b)
    (b : Bool) (hx : refElem re ρ x.toAny = .err b) :
    execute re (some ev) (some (.array elem (pre ++ x :: post))) = .err := by
  rw [filter_first_error_array ρ h ev hc re elem pre x post hok hokx hpre
    (by rw [hx]; intro b' hb'; cases hb'), hx]
  rfl

/-- map: `.err` iff some entry's reference outcome is an error (all outcomes values or errors);
    the statement does not mention the iteration order -/
theorem filter_map_err_iff (name : String) (kt vt : GoType) (isNil : Bool)
    (es : List (GoVal × GoVal)) (hok : ∀ e ∈ es, ElemOK e.2.toAny)
    (hve : ∀ e ∈ es, (∃ b, refElem re ρ e.2.toAny = .val b) ∨
                      ∃ b, refElem re ρ e.2.toAny = .err b) :
    execute re (some ev) (some (.map name kt vt isNil es)) = .err ↔
      ∃ e ∈ es, ∃ b, refElem re ρ e.2.toAny = .err b := by
  have heq : ∀ e ∈ es, ev.evaluate re e.2.toAny = refElem re ρ e.2.toAny :=
    fun e he => filter_refines ρ h ev hc re _ (hok e he)
  rw [C17.execute_map_err_iff re ev name kt vt isNil es
    (fun e he => by rw [heq e he]; exact hve e he)]
  constructor
  · rintro ⟨e, he, b, hb⟩; exact ⟨e, he, b, by rw [← heq e he]; exact hb⟩
  · rintro ⟨e, he, b, hb⟩; exact ⟨e, he, b, by rw [heq e he]; exact hb⟩

end components

/-- **3. `CreateFilter` + `Execute` at the text level.**  For every well-formed rendering `ρ`
    whose unlimited parse stays below the 2^64 limit, `CreateFilter(ρ.text)` returns a filter
    `ev` (holding the tree `norm ρ.ast`), and with every regexp engine `Execute`
     (1) on a slice, (2) on an array, (3) on a map of any key type whose elements / entry values
         are `ElemOK` and have value reference outcomes: keeps exactly those whose reference
         outcome `Spec.denote re ρ.ast (top … element)` is `.val true`, in order;
     (4) on a slice, (5) on an array `pre ++ x :: post` where `pre` is as before and the reference
         outcome of `x` (`ElemOK`) is not a value: returns the image of that outcome — `.err` for an
         error, (6);
     (7) on a map whose entries are `ElemOK` with value-or-error reference outcomes: is `.err`
         iff some entry's reference outcome is an error. -/
theorem created_filter_spec (ρ : Top) (h : ρ.WF) (hfit : Fits ρ.text) :
    ∃ ev, createFilter pinEnv pinGrammar ρ.text = .ok ev ∧ ev.ast = norm ρ.ast ∧
      ∀ re : RegexOracle,
        (∀ name elem isNil xs, (∀ x ∈ xs, ElemOK x.toAny) →
          (∀ x ∈ xs, ∃ b, refElem re ρ x.toAny = .val b) →
          execute re (some ev) (some (.slice name elem isNil xs)) =
            .ok (some (.slice name elem false
              (xs.filter fun x => refElem re ρ x.toAny == .val true)))) ∧
        (∀ elem xs, (∀ x ∈ xs, ElemOK x.toAny) →
          (∀ x ∈ xs, ∃ b, refElem re ρ x.toAny = .val b) →
          execute re (some ev) (some (.array elem xs)) =
            .ok (some (.slice "" elem false
              (xs.filter fun x => refElem re ρ x.toAny == .val true)))) ∧
        (∀ name kt vt isNil (es : List (GoVal × GoVal)), (∀ e ∈ es, ElemOK e.2.toAny) →
          (∀ e ∈ es, ∃ b, refElem re ρ e.2.toAny = .val b) →
          execute re (some ev) (some (.map name kt vt isNil es)) =
            .ok (some (.map name kt vt false
              (es.filter fun e => refElem re ρ e.2.toAny == .val true)))) ∧
        (∀ name elem isNil pre x post, (∀ y ∈ pre, ElemOK y.toAny) → ElemOK x.toAny →
          (∀ y ∈ pre, ∃ b, refElem re ρ y.toAny = .val b) →
          (∀ b, refElem re ρ x.toAny ≠ .val b) →
          execute re (some ev) (some (.slice name elem isNil (pre ++ x :: post))) =
            outToExec (refElem re ρ x.toAny)) ∧
        (∀ elem pre x post, (∀ y ∈ pre, ElemOK y.toAny) → ElemOK x.toAny →
          (∀ y ∈ pre, ∃ b, refElem re ρ y.toAny = .val b) →
          (∀ b, refElem re ρ x.toAny ≠ .val b) →
          execute re (some ev) (some (.array elem (pre ++ x :: post))) =
            outToExec (refElem re ρ x.toAny)) ∧
        (∀ b, outToExec (.err b) = .err) ∧
        (∀ name kt vt isNil (es : List (GoVal × GoVal)), (∀ e ∈ es, ElemOK e.2.toAny) →
          (∀ e ∈ es, (∃ b, refElem re ρ e.2.toAny = .val b) ∨
                      ∃ b, refElem re ρ e.2.toAny = .err b) →
          (execute re (some ev) (some (.map name kt vt isNil es)) = .err ↔
            ∃ e ∈ es, ∃ b, refElem re ρ e.2.toAny = .err b)) := by
  obtain ⟨ev, hc, ha⟩ := created_filter ρ h hfit
  exact ⟨ev, hc, ha, fun re =>
    ⟨filter_slice_spec ρ h ev hc re, filter_array_spec ρ h ev hc re, filter_map_spec ρ h ev hc re,
     filter_first_error_slice ρ h ev hc re, filter_first_error_array ρ h ev hc re,
     fun _ => rfl, filter_map_err_iff ρ h ev hc re⟩⟩

/-- `CreateFilter` on a text whose unlimited parse does not fit is the error, not a filter: the
    budget hypothesis of `created_filter_spec` cannot be dropped -/
theorem created_filter_needs_fits (ρ : Top) (h : ρ.WF) (hn : ¬ Fits ρ.text) :
    createFilter pinEnv pinGrammar ρ.text = .err :=
  (createFilter_rendering ρ h).2 hn

/-! ## Non-vacuity -/

namespace Example
open Bexpr.Props.C01Eval.Example
open Bexpr.Props.C16.Example (asc)

/-- the elements of `dB1`, `dB3` of `Props/C01Eval.lean` wrapped one level deeper: each element
    is a document `{"items": […]}` -/
def good : GoVal := .iface dB1
def bad : GoVal := .iface dB3
def other : GoVal := .iface dB2

theorem elems_ok : ElemOK good.toAny ∧ ElemOK other.toAny ∧ ElemOK bad.toAny :=
  ⟨hypsB.1, hypsB.2.1, hypsB.2.2⟩

/-- `[]interface{}{dB1, dB2, dB1}` filtered by the text of example B (newlines, tabs, two
    quantifiers): the first and the third element are kept -/
example : ∃ ev, createFilter pinEnv pinGrammar topB.text = .ok ev ∧
    execute noRe (some ev) (some (.slice "" .iface false [good, other, good])) =
      .ok (some (.slice "" .iface false [good, good])) := by
  obtain ⟨ev, hc, _, hs⟩ := created_filter_spec topB topB_WF fitsB
  refine ⟨ev, hc, ?_⟩
  rw [(hs noRe).1 "" .iface false [good, other, good]]
  · have : ([good, other, good].filter fun x => refElem noRe topB x.toAny == .val true) =
        [good, good] := by
      simp only [List.filter, good, other, GoVal.toAny, refElem, refB.1, refB.2.1]
      rfl
    rw [this]
  · intro x hx
    simp only [List.mem_cons, List.not_mem_nil, or_false] at hx
    rcases hx with rfl | rfl | rfl
    · exact elems_ok.1
    · exact elems_ok.2.1
    · exact elems_ok.1
  · intro x hx
    simp only [List.mem_cons, List.not_mem_nil, or_false] at hx
    rcases hx with rfl | rfl | rfl
    · exact ⟨true, refB.1⟩
    · exact ⟨false, refB.2.1⟩
    · exact ⟨true, refB.1⟩

/-- `[good, bad, good]`: the second element's reference outcome is an error — `Execute` fails -/
example : ∃ ev, createFilter pinEnv pinGrammar topB.text = .ok ev ∧
    execute noRe (some ev) (some (.slice "" .iface false [good, bad, good])) = .err := by
  obtain ⟨ev, hc, _⟩ := created_filter topB topB_WF fitsB
  refine ⟨ev, hc, ?_⟩
  refine filter_error_slice topB topB_WF ev hc noRe "" .iface false [good] bad [good] ?_
    elems_ok.2.2 ?_ false refB.2.2
  · intro y hy
    simp only [List.mem_cons, List.not_mem_nil, or_false] at hy
    subst hy
    exact elems_ok.1
  · intro y hy
    simp only [List.mem_cons, List.not_mem_nil, or_false] at hy
    subst hy
    exact ⟨true, refB.1⟩

/-- `map[int]interface{}{1: dB1, 2: dB2}` (a key type that is not `string`): the entry with key 1
    is kept, key and value unchanged -/
example : ∃ ev, createFilter pinEnv pinGrammar topB.text = .ok ev ∧
    execute noRe (some ev) (some (.map "" (.basic .int "") .iface false
        [(.int .int "" 1, good), (.int .int "" 2, other)])) =
      .ok (some (.map "" (.basic .int "") .iface false [(.int .int "" 1, good)])) := by
  obtain ⟨ev, hc, _⟩ := created_filter topB topB_WF fitsB
  refine ⟨ev, hc, ?_⟩
  rw [filter_map_spec topB topB_WF ev hc noRe "" (.basic .int "") .iface false
    [(.int .int "" 1, good), (.int .int "" 2, other)]]
  · have : ([(GoVal.int .int "" 1, good), (GoVal.int .int "" 2, other)].filter
        fun e => refElem noRe topB e.2.toAny == .val true) = [(.int .int "" 1, good)] := by
      simp only [List.filter, good, other, GoVal.toAny, refElem, refB.1, refB.2.1]
      rfl
    rw [this]
  · intro e he
    simp only [List.mem_cons, List.not_mem_nil, or_false] at he
    rcases he with rfl | rfl
    · exact elems_ok.1
    · exact elems_ok.2.1
  · intro e he
    simp only [List.mem_cons, List.not_mem_nil, or_false] at he
    rcases he with rfl | rfl
    · exact ⟨true, refB.1⟩
    · exact ⟨false, refB.2.1⟩

end Example

end Bexpr.Props.C17Eval

#print axioms Bexpr.Props.C17Eval.elemOK_of_size
#print axioms Bexpr.Props.C17Eval.ElemOK.wf
#print axioms Bexpr.Props.C17Eval.filter_refines
#print axioms Bexpr.Props.C17Eval.created_filter
#print axioms Bexpr.Props.C17Eval.filter_slice_spec
#print axioms Bexpr.Props.C17Eval.filter_array_spec
#print axioms Bexpr.Props.C17Eval.filter_map_spec
#print axioms Bexpr.Props.C17Eval.filter_first_error_slice
#print axioms Bexpr.Props.C17Eval.filter_first_error_array
#print axioms Bexpr.Props.C17Eval.filter_error_slice
#print axioms Bexpr.Props.C17Eval.filter_error_array
#print axioms Bexpr.Props.C17Eval.filter_map_err_iff
#print axioms Bexpr.Props.C17Eval.created_filter_spec
#print axioms Bexpr.Props.C17Eval.created_filter_needs_fits
#print axioms Bexpr.Props.C17Eval.Example.elems_ok
