/-
  C14: "Evaluate and Execute are functions of (expression, options, datum): the same boolean and
  the same error-or-not outcome even when quantifiers or filters range over maps whose iteration
  order Go randomizes."

  Model reading.  A map value is an association list = one arbitrary runtime iteration order.
  `PermEq d d'` (Proofs/PermRel.lean): `d'` is `d` with the entry list of every map anywhere
  inside permuted; every such map has pairwise distinct keys (`keysDistinct`; NaN float keys are
  allowed, see the header of Proofs/PermRel.lean).  The theorems are instances of the generic
  two-run theorems of Proofs/Relational.lean.
-/
import Proofs.PermRel

namespace Bexpr.Props.C14
open Bexpr Bexpr.Go Bexpr.Eval Bexpr.Proofs.Rel Bexpr.Proofs.PermRel

/-- General form: the two runs may also differ in the iteration order of maps inside the
    options' unknown value and bound locals. -/
theorem eval_perm_invariant_opts (re : RegexOracle) (e : Expr) (cfg : Config) {o o' : Opts}
    {d d' : Any} (hd : AnyRel PermEq d d') (ho : OptsRel PermEq cfg o o') :
    evaluate re e o d = evaluate re e o' d' :=
  evaluate_rel (permEq_hyps cfg) re hd e ho

/-- **C14, Evaluate**: the outcome (boolean, error, panic) does not depend on the iteration order
    of any map inside the datum. -/
theorem eval_perm_invariant (re : RegexOracle) (e : Expr) (o : Opts) {d d' : Any}
    (hd : AnyRel PermEq d d') (ho : OptsOk o) :
    evaluate re e o d = evaluate re e o d' :=
  eval_perm_invariant_opts re e o.cfg hd (optsRel_refl ho)

/-- the same for the public entry point `(*Evaluator).Evaluate` -/
theorem evaluator_perm_invariant (re : RegexOracle) (ev : Evaluator) {d d' : Any}
    (hd : AnyRel PermEq d d') (hu : ∀ u, ev.unknown = some u → anyOk u = true) :
    ev.evaluate re d = ev.evaluate re d' :=
  eval_perm_invariant re ev.ast _ hd ⟨hu, by intro lv h; cases h⟩

theorem evRel_refl (ev : Evaluator) (hu : ∀ u, ev.unknown = some u → anyOk u = true) :
    EvRel PermEq { tagName := ev.tagName, hook := ev.hook } ev ev where
  ast := rfl
  tagL := rfl
  hookL := rfl
  tagR := rfl
  hookR := rfl
  unknown := by
    cases h : ev.unknown with
    | none => exact .none
    | some u => exact .some (anyRel_refl (hu u h))

theorem keysDistinct_iff : ∀ (es : List (GoVal × GoVal)),
    keysDistinct es = true ↔ es.Pairwise fun e1 e2 => fkeyEq e2.1 e1.1 = false
  | [] => by simp [keysDistinct]
  | (k, v) :: es => by
    simp only [keysDistinct, Bool.and_eq_true, Bool.not_eq_true', List.any_eq_false,
      List.pairwise_cons, keysDistinct_iff es]
    constructor
    · rintro ⟨h1, h2⟩; exact ⟨fun e he => by simpa using h1 e he, h2⟩
    · rintro ⟨h1, h2⟩; exact ⟨fun e he => by simpa using h1 e he, h2⟩

theorem keysDistinct_sublist {kept es : List (GoVal × GoVal)} (hs : kept.Sublist es)
    (h : keysDistinct es = true) : keysDistinct kept = true :=
  (keysDistinct_iff kept).2 (((keysDistinct_iff es).1 h).sublist hs)

/-- **C14, Execute**: filtering a container whose maps are iterated in another order fails in
    both runs or succeeds in both; on success the results are again equal up to the order of map
    entries (slice / array containers: the same positions are kept; map containers: the same
    keys are kept with related values).  The nil filter returns its input.

    Which error is reported first may differ between two orders of a map container (the first
    failing entry aborts the loop), hence "both fail" rather than "the same failure". -/
theorem filter_perm_invariant (re : RegexOracle) (ev : Evaluator) {d d' : Any}
    (hd : AnyRel PermEq d d') (hu : ∀ u, ev.unknown = some u → anyOk u = true) :
    ((execute re (some ev) d).failed = true ∧ (execute re (some ev) d').failed = true) ∨
    ∃ r r', execute re (some ev) d = .ok r ∧ execute re (some ev) d' = .ok r' ∧
      AnyRel PermEq r r' := by
  have H := permEq_hyps { tagName := ev.tagName, hook := ev.hook }
  have hm : ∀ n kt vt nl es n' kt' vt' nl' es', d = some (.map n kt vt nl es) →
      d' = some (.map n' kt' vt' nl' es') → EntCorr PermEq es es' := by
    intro n kt vt nl es n' kt' vt' nl' es' h1 h2
    subst h1 h2
    cases hd with
    | some h => cases h with
      | map _ _ _ _ _ hp he => exact ⟨_, hp, he⟩
  have hx := execute_rel H re (evRel_refl ev hu) hd hm
  generalize hr : execute re (some ev) d = r at hx
  generalize hr' : execute re (some ev) d' = r' at hx
  cases hx with
  | failed h1 h2 => exact .inl ⟨h1, h2⟩
  | list n e hl => exact .inr ⟨_, _, rfl, rfl, .some (.slice n e false hl)⟩
  | @map n kt vt kept kept' hc =>
    obtain ⟨p, hp, he⟩ := hc
    refine .inr ⟨_, _, rfl, rfl, .some (.map n kt vt false ?_ hp he)⟩
    -- the kept entries are a sublist of the (distinct-keyed) input entries
    obtain ⟨nl0, es0, rfl⟩ := execute_ok_map_inv re ev hr
    cases hd with
    | some h =>
      cases h with
      | map n0 kt0 vt0 nl0 hdist _ _ =>
        obtain ⟨kept0, hk, hsub⟩ := execute_map_sublist re ev _ _ _ _ _ hr
        cases hk
        exact keysDistinct_sublist hsub hdist

/-- the kept key multisets coincide (map containers) -/
theorem filter_perm_same_keys (re : RegexOracle) (ev : Evaluator) {d d' : Any}
    (hd : AnyRel PermEq d d') (hu : ∀ u, ev.unknown = some u → anyOk u = true)
    {n kt vt nl kept n' kt' vt' nl' kept'}
    (h1 : execute re (some ev) d = .ok (some (.map n kt vt nl kept)))
    (h2 : execute re (some ev) d' = .ok (some (.map n' kt' vt' nl' kept'))) :
    (kept.map (·.1)).Perm (kept'.map (·.1)) := by
  rcases filter_perm_invariant re ev hd hu with ⟨hf, _⟩ | ⟨r, r', hr, hr', hrel⟩
  · rw [h1] at hf; cases hf
  · rw [h1] at hr; rw [h2] at hr'
    cases hr; cases hr'
    cases hrel with
    | some h => cases h with
      | map _ _ _ _ _ hp he => exact (hp.map _).trans (by rw [he.keys_eq])

theorem filter_nil_invariant (re : RegexOracle) (d : Any) : execute re none d = .ok d := rfl

/-! ## The old behaviour (iterate the keys in `MapKeys()` order) is NOT invariant

  `evaluateU` is `evaluate` with `sortKeys ks` replaced by `ks` (the code before the fix).
  Datum `{a:{x:1}, b:5, c:{x:2}}`, expression `any m as k, v { v.x == 1 }` (selector = the datum
  itself): in the order a,b,c the quantifier returns `true` at `a`; in the order b,a,c the body
  fails on `b` first (`v.x` on an int) and the whole evaluation is an error. -/
section OldBehaviour

def strT : GoType := GoType.stringT
def mapSI (es : List (GoVal × GoVal)) : GoVal := .map "" strT .iface false es
def ea : GoVal × GoVal := (.str "" [97], .iface (some (mapSI [(.str "" [120], .iface (some (.int .int "" 1)))])))
def eb : GoVal × GoVal := (.str "" [98], .iface (some (.int .int "" 5)))
def ec : GoVal × GoVal := (.str "" [99], .iface (some (mapSI [(.str "" [120], .iface (some (.int .int "" 2)))])))
def dA : Any := some (mapSI [ea, eb, ec])
def dB : Any := some (mapSI [eb, ea, ec])

def evaluateU (re : RegexOracle) : Expr → Opts → Any → Out
  | .not e, o, d =>
    match evaluateU re e o d with
    | .val b => .val (!b)
    | .err _ => .err false
    | other => other
  | .and l r, o, d =>
    match evaluateU re l o d with
    | .val true => evaluateU re r o d
    | other => other
  | .or l r, o, d =>
    match evaluateU re l o d with
    | .val false => evaluateU re r o d
    | other => other
  | .match_ sel op raw, o, d => evaluateMatch re o d sel op raw
  | .coll op sel b inner, o, d =>
    match getValue o d sel.path with
    | .error => .err false
    | .unmodelled => .unmodelled
    | .absent => .val (op == .all)
    | .present v =>
      match v with
      | some (.map _ kt _ _ es) =>
        if kt != GoType.stringT then .err false
        else collLoop (fun o' => evaluateU re inner o' d) o op b
          ((es.map fun e => strKey e.1).map fun k => mapBindings sel b k)
      | some (.slice _ _ _ xs) =>
        collLoop (fun o' => evaluateU re inner o' d) o op b
          ((List.range xs.length).map fun i => listBindings sel b i)
      | some (.array _ xs) =>
        collLoop (fun o' => evaluateU re inner o' d) o op b
          ((List.range xs.length).map fun i => listBindings sel b i)
      | _ => .err false

def body : Expr := .match_ { ty := .bexpr, path := [[118], [120]] } .equal (some [49])
def ex : Expr := .coll .any { ty := .bexpr, path := [] } { mode := .indexAndValue, index := [107], value := [118] } body
def o0 : Opts := { tagName := [98,101,120,112,114], hook := .off, unknown := none, locals := [] }
def re0 : RegexOracle := fun _ => none

theorem coerce1 : coerceLit [49] .int = .ok (.int 1) := by rfl

theorem strT_bne : (GoType.basic Kind.string "" != GoType.basic Kind.string "") = false := by decide

theorem uA : evaluateU re0 ex o0 dA = .val true := by
  simp [evaluateU, ex, body, collLoop, mapBindings, evaluateMatch, getValue, resolveLocals, narrowJsonNumber, indirect,
    doMatchEqual, hasEqFn, applyEq, coerce1, strT_bne, RV.kind, GoVal.kind, Kind.isInt,
    Go.get, getLoop, getStep, getStep.applyHook, unwrapForStep, unwrapIfaceV, unwrapPtrV, getMap, coerceKey,
    fkeyEq, keyEq, unboxKey, keyEqScalar, keyEqV, dA, mapSI, ea, eb, ec, strT, GoType.stringT, valueOf, o0, Opts.cfg, GoVal.toAny, strKey]
theorem uB : evaluateU re0 ex o0 dB = .err false := by
  simp [evaluateU, ex, body, collLoop, mapBindings, evaluateMatch, getValue, resolveLocals, narrowJsonNumber, indirect,
    doMatchEqual, hasEqFn, applyEq, strT_bne, RV.kind, GoVal.kind, Kind.isInt,
    Go.get, getLoop, getStep, getStep.applyHook, unwrapForStep, unwrapIfaceV, unwrapPtrV, getMap, coerceKey,
    fkeyEq, keyEq, unboxKey, keyEqScalar, keyEqV, dB, mapSI, ea, eb, ec, strT, GoType.stringT, valueOf, o0, Opts.cfg, GoVal.toAny, strKey]

/-- the unsorted evaluator distinguishes two iteration orders of the same map -/
theorem old_behaviour_not_invariant : evaluateU re0 ex o0 dA ≠ evaluateU re0 ex o0 dB := by
  rw [uA, uB]; intro h; cases h

/-! ### Non-vacuity: the same pair satisfies the hypotheses of the theorems -/

theorem dA_perm_dB : AnyRel PermEq dA dB := by
  refine .some (permEq_of_perm _ _ _ _ ?_ ?_ (List.Perm.swap eb ea [ec]))
  · simp [keysDistinct, fkeyEq, keyEq, unboxKey, keyEqScalar, keyEqV, ea, eb, ec]
  · simp [mapsOkEntries, mapsOk, keysDistinct, ea, eb, ec, mapSI]

theorem dA_ne_dB : dA ≠ dB := by
  simp [dA, dB, mapSI, ea, eb]

theorem o0_ok : OptsOk o0 := by
  constructor
  · intro u h; cases h
  · intro lv h; cases h

/-- the fixed evaluator gives the same outcome on both orders -/
example : evaluate re0 ex o0 dA = evaluate re0 ex o0 dB :=
  eval_perm_invariant re0 ex o0 dA_perm_dB o0_ok

end OldBehaviour

/-! ### Why `filter_perm_invariant` says "both fail" and not "the same failure"

  `Execute` aborts at the first failing entry, so WHICH failure is reported follows the
  iteration order.  In the model this is visible only where one entry panics and another returns
  an error; here with the (not parser-producible) expression `<datum> == <nil value>`: the int
  entry panics (`first.(T)` on a nil match value), the slice entry is an "unsupported type"
  error.  (On real Go the error TEXT of two failing entries differs the same way.) -/
section FirstFailure

def evP : Evaluator :=
  { ast := .match_ { ty := .bexpr, path := [] } .equal none, tagName := [], hook := .off,
    unknown := none, expression := [] }
def e1 : GoVal × GoVal := (.str "" [97], .iface (some (.int .int "" 1)))
def e2 : GoVal × GoVal := (.str "" [98], .iface (some (.slice "" (.basic .int "") false [])))

example : execute re0 (some evP) (some (.map "" GoType.stringT .iface false [e1, e2])) = .panic :=
  rfl
example : execute re0 (some evP) (some (.map "" GoType.stringT .iface false [e2, e1])) = .err :=
  rfl

end FirstFailure

end Bexpr.Props.C14

#print axioms Bexpr.Props.C14.eval_perm_invariant_opts
#print axioms Bexpr.Props.C14.eval_perm_invariant
#print axioms Bexpr.Props.C14.evaluator_perm_invariant
#print axioms Bexpr.Props.C14.filter_perm_invariant
#print axioms Bexpr.Props.C14.filter_perm_same_keys
#print axioms Bexpr.Props.C14.old_behaviour_not_invariant
