/-
  Property C11 (expression budget):

    "for every input there is a step count N such that parsing under budget n gives exactly the
     unlimited result when n = 0 or n ≥ N, and fails with the max-expressions error when
     0 < n < N; a limited parse never executes more than n + 1 parser steps."

  All theorems are generic in the action semantics `env`, the grammar `g` and the input.
  The helper lemmas (one per loop / per node kind) live in `Proofs/Budget.lean`.
-/
import Bexpr.Peg.Engine
import Proofs.Budget

namespace Bexpr.Props.C11
open Bexpr Bexpr.Peg

/-- The step counter of the state carried by a `parseExpr` result (`0` for the model artefact
    `fuelOut`, which theorems 3 and 5 show to be unreachable from `run`). -/
def finalCnt : PRes → Nat
  | .ok st _ _ _ => st.cnt
  | .exceeded st => st.cnt
  | .abort st _ => st.cnt
  | .fuelOut => 0

theorem finalCnt_eq (r : PRes) : finalCnt r = Proofs.Budget.finalCnt r := by
  cases r <;> rfl

/-! ## 1. Every `parseExpr` call ticks the counter at least once -/

theorem eval_cnt_mono (env : Env) (g : Grammar) (max fuel : Nat) (rule : String) (e : PExpr)
    (fr : Frame) (st : PState) {st' : PState} {fr' : Frame} {v : PVal} {m : Bool}
    (h : eval env g max fuel rule e fr st = .ok st' fr' v m) : st.cnt + 1 ≤ st'.cnt := by
  have := Proofs.Budget.eval_cntGe env g max fuel rule e fr st
  rw [h] at this; exact this

theorem eval_cnt_mono_exceeded (env : Env) (g : Grammar) (max fuel : Nat) (rule : String)
    (e : PExpr) (fr : Frame) (st : PState) {st' : PState}
    (h : eval env g max fuel rule e fr st = .exceeded st') : st.cnt + 1 ≤ st'.cnt := by
  have := Proofs.Budget.eval_cntGe env g max fuel rule e fr st
  rw [h] at this; exact this

theorem eval_cnt_mono_abort (env : Env) (g : Grammar) (max fuel : Nat) (rule : String)
    (e : PExpr) (fr : Frame) (st : PState) {st' : PState} {msg : String}
    (h : eval env g max fuel rule e fr st = .abort st' msg) : st.cnt + 1 ≤ st'.cnt := by
  have := Proofs.Budget.eval_cntGe env g max fuel rule e fr st
  rw [h] at this; exact this

/-- The three cases in one statement. -/
theorem eval_cnt_mono_final (env : Env) (g : Grammar) (max fuel : Nat) (rule : String)
    (e : PExpr) (fr : Frame) (st : PState)
    (h : eval env g max fuel rule e fr st ≠ .fuelOut) :
    st.cnt + 1 ≤ finalCnt (eval env g max fuel rule e fr st) := by
  rw [finalCnt_eq]
  exact (Proofs.Budget.eval_cntGe env g max fuel rule e fr st).finalCnt h

/-- Under a budget the counter never passes `max + 1`: results other than `exceeded` carry a
    counter `≤ max`, and `exceeded` carries exactly `max + 1`. -/
theorem eval_cnt_le (env : Env) (g : Grammar) (max fuel : Nat) (rule : String) (e : PExpr)
    (fr : Frame) (st : PState) (hst : st.cnt ≤ max) :
    (∀ st' fr' v m, eval env g max fuel rule e fr st = .ok st' fr' v m → st'.cnt ≤ max) ∧
    (∀ st' msg, eval env g max fuel rule e fr st = .abort st' msg → st'.cnt ≤ max) ∧
    (∀ st', eval env g max fuel rule e fr st = .exceeded st' → st'.cnt = max + 1) := by
  have hb := Proofs.Budget.eval_bnd env g max fuel rule e fr st hst
  refine ⟨?_, ?_, ?_⟩
  · intro st' fr' v m h; rw [h] at hb; exact hb
  · intro st' msg h; rw [h] at hb; exact hb
  · intro st' h; rw [h] at hb; exact hb

/-! ## 2. Fuel is only a recursion device: more fuel never changes a proper result -/

theorem eval_fuel_mono (env : Env) (g : Grammar) (max fuel : Nat) (rule : String) (e : PExpr)
    (fr : Frame) (st : PState) (r : PRes)
    (h : eval env g max fuel rule e fr st = r) (hne : r ≠ .fuelOut) :
    ∀ fuel', fuel ≤ fuel' → eval env g max fuel' rule e fr st = r := by
  intro fuel' hle
  have := Proofs.Budget.eval_fle env g max fuel fuel' rule e fr st hle
  rw [h] at this
  exact this hne

/-! ## 3. With the fuel that `run` provides, `fuelOut` is unreachable -/

/-- Invariant: `st.cnt ≤ max` and `max + 1 ≤ fuel + st.cnt`.  (The initial call of `run` has
    `fuel = max + 2`, `cnt = 0`.) -/
theorem eval_never_fuelOut (env : Env) (g : Grammar) (max fuel : Nat) (rule : String)
    (e : PExpr) (fr : Frame) (st : PState)
    (hst : st.cnt ≤ max) (hfuel : max + 1 ≤ fuel + st.cnt) :
    eval env g max fuel rule e fr st ≠ .fuelOut :=
  Proofs.Budget.eval_noFuelOut env g max fuel rule e fr st hst hfuel

/-- The same with the (stronger) hypothesis that literally matches `run`. -/
theorem eval_never_fuelOut' (env : Env) (g : Grammar) (max fuel : Nat) (rule : String)
    (e : PExpr) (fr : Frame) (st : PState)
    (hst : st.cnt ≤ max) (hfuel : max + 2 ≤ fuel + st.cnt) :
    eval env g max fuel rule e fr st ≠ .fuelOut :=
  eval_never_fuelOut env g max fuel rule e fr st hst (by omega)

/-! ## 4. Budget simulation (same fuel on both sides) -/

theorem eval_budget_sim (env : Env) (g : Grammar) (max max' fuel : Nat) (rule : String)
    (e : PExpr) (fr : Frame) (st : PState) (r' : PRes)
    (hmax : max ≤ max') (hst : st.cnt ≤ max)
    (hr : eval env g max' fuel rule e fr st = r') (hne : r' ≠ .fuelOut) :
    (finalCnt r' ≤ max → eval env g max fuel rule e fr st = r') ∧
    (max < finalCnt r' →
      ∃ s, eval env g max fuel rule e fr st = .exceeded s ∧ s.cnt = max + 1) := by
  have hs := Proofs.Budget.eval_sim env g max max' hmax fuel rule e fr st hst
  rw [hr] at hs
  rw [finalCnt_eq]
  rcases hs with h | ⟨hle, h⟩ | ⟨hlt, s, h, hs⟩
  · exact absurd h hne
  · exact ⟨fun _ => h, fun hlt => by omega⟩
  · exact ⟨fun hle => by omega, fun _ => ⟨s, h, hs⟩⟩


/-! ## 5. Top-level corollaries about `run` -/

open Bexpr.Proofs.Budget (runMax run_eq_runMax runMax_sim runMax_cnt_le)

theorem effectiveMax_zero : effectiveMax 0 = 2 ^ 64 - 1 := by simp [effectiveMax]

theorem effectiveMax_pos {n : Nat} (h : 0 < n) : effectiveMax n = n := by
  simp only [effectiveMax]
  split
  · rename_i h0; simp at h0; omega
  · rfl

/-- A budget of `0` means "unlimited", i.e. `math.MaxUint64`. -/
theorem budget_zero_unlimited (env : Env) (g : Grammar) (input : GoString) :
    run env g 0 input = run env g (2 ^ 64 - 1) input := by
  rw [run_eq_runMax, run_eq_runMax, effectiveMax_zero, effectiveMax_pos (by omega)]

/-- Even the unlimited run stops after at most `2^64` steps. -/
theorem unlimited_cnt_le (env : Env) (g : Grammar) (input : GoString) :
    (run env g 0 input).cnt ≤ 2 ^ 64 := by
  have := runMax_cnt_le env g (2 ^ 64 - 1) input
  rw [run_eq_runMax, effectiveMax_zero]
  omega

/-- General form: any budget `n ≥ N` reproduces the unlimited run, provided the unlimited run
    itself stayed within `2^64 - 1` steps (`n` may even exceed `2^64 - 1` in the model). -/
theorem budget_exact_ge_gen (env : Env) (g : Grammar) (input : GoString) (n : Nat)
    (hN : (run env g 0 input).cnt ≤ n) (hM : (run env g 0 input).cnt ≤ 2 ^ 64 - 1) :
    run env g n input = run env g 0 input := by
  by_cases h0 : n = 0
  · subst h0; rfl
  · rw [run_eq_runMax, run_eq_runMax, effectiveMax_zero, effectiveMax_pos (by omega)] at *
    by_cases hn : n ≤ 2 ^ 64 - 1
    · exact (runMax_sim env g n (2 ^ 64 - 1) hn input).1 hN
    · have h := runMax_sim env g (2 ^ 64 - 1) n (by omega) input
      by_cases hc : (runMax env g n input).cnt ≤ 2 ^ 64 - 1
      · exact (h.1 hc).symm
      · have := (h.2 (by omega)).2.2
        omega

/-- C11, first half: with `N` the step count of the unlimited run, every budget `n` with
    `N ≤ n ≤ 2^64 - 1` gives exactly the unlimited result. -/
theorem budget_exact_ge (env : Env) (g : Grammar) (input : GoString) (n : Nat)
    (hN : (run env g 0 input).cnt ≤ n) (hn : n ≤ 2 ^ 64 - 1) :
    run env g n input = run env g 0 input :=
  budget_exact_ge_gen env g input n hN (by omega)

/-- C11, second half: every budget `0 < n < N` fails with the max-expressions error after
    exactly `n + 1` steps.  (No side condition: if the unlimited run itself hit the `2^64 - 1`
    limit then `N = 2^64` and the statement still holds for every `0 < n < 2^64`.) -/
theorem budget_exact_lt (env : Env) (g : Grammar) (input : GoString) (n : Nat)
    (h0 : 0 < n) (hN : n < (run env g 0 input).cnt) :
    (run env g n input).val = .nil ∧
    (∃ e ∈ (run env g n input).errs, e.kind = .maxExpr) ∧
    (run env g n input).cnt = n + 1 := by
  have hle := unlimited_cnt_le env g input
  rw [run_eq_runMax, effectiveMax_zero] at hN hle
  rw [run_eq_runMax, effectiveMax_pos h0]
  exact (runMax_sim env g n (2 ^ 64 - 1) (by omega) input).2 hN

/-- A limited parse never executes more than `n + 1` parser steps. -/
theorem budget_steps_le (env : Env) (g : Grammar) (input : GoString) (n : Nat) (h0 : 0 < n) :
    (run env g n input).cnt ≤ n + 1 := by
  rw [run_eq_runMax, effectiveMax_pos h0]
  exact runMax_cnt_le env g n input

/-- C11 as one statement: there is a threshold `N` (the step count of the unlimited run). -/
theorem budget_threshold (env : Env) (g : Grammar) (input : GoString) :
    ∃ N : Nat,
      (∀ n, (n = 0 ∨ N ≤ n) → n ≤ 2 ^ 64 - 1 → run env g n input = run env g 0 input) ∧
      (∀ n, 0 < n → n < N →
        (run env g n input).val = .nil ∧
        (∃ e ∈ (run env g n input).errs, e.kind = .maxExpr) ∧
        (run env g n input).cnt = n + 1) ∧
      (∀ n, 0 < n → (run env g n input).cnt ≤ n + 1) := by
  refine ⟨(run env g 0 input).cnt, ?_, ?_, ?_⟩
  · intro n h hn
    rcases h with rfl | h
    · rfl
    · exact budget_exact_ge env g input n h hn
  · intro n h0 hN; exact budget_exact_lt env g input n h0 hN
  · intro n h0; exact budget_steps_le env g input n h0

/-! ## 6. Non-vacuity: a concrete grammar, `S <- "a" S / "a"`, on the input `"aa"` -/

namespace Example

def env : Env where
  action := fun _ _ b => .ret (.bytes b) none
  pred := fun _ _ => .ret true none
  classIn := fun _ _ => some false

/-- `S <- "a" S / "a"` -/
def g : Grammar :=
  [{ name := "S", displayName := "",
     expr := .choice [.seq [.lit [97] false, .ruleRef "S"], .lit [97] false] }]

/-- `"aa"` -/
def input : GoString := [97, 97]

/-- The unlimited parse takes `N = 13` steps and succeeds. -/
example : (run env g 0 input).cnt = 13 := by decide
example : (run env g 0 input).val = .list [.bytes [97], .bytes [97]] := rfl
example : (run env g 0 input).errs = [] := by decide

/-- A budget below `N` fails with `maxExpr` after `n + 1` steps (direct computation …). -/
example : (run env g 5 input).val = .nil := rfl
example : (run env g 5 input).errs = [{ off := 1, rule := "", kind := .maxExpr }] := by decide
example : (run env g 5 input).cnt = 6 := by decide
example : (run env g 12 input).errs = [{ off := 1, rule := "", kind := .maxExpr }] := by decide

/-- … and as an instance of `budget_exact_lt`; the hypotheses are satisfiable. -/
example : (run env g 12 input).val = .nil ∧
    (∃ e ∈ (run env g 12 input).errs, e.kind = .maxExpr) ∧ (run env g 12 input).cnt = 13 :=
  budget_exact_lt env g input 12 (by decide) (by decide)

/-- A budget `≥ N` gives the same result (direct computation and instance of the theorem). -/
example : (run env g 13 input).val = (run env g 0 input).val := rfl
example : (run env g 13 input).cnt = 13 := by decide
example : run env g 13 input = run env g 0 input :=
  budget_exact_ge env g input 13 (by decide) (by decide)
example : run env g 1000 input = run env g 0 input :=
  budget_exact_ge env g input 1000 (by decide) (by decide)

end Example

end Bexpr.Props.C11

#print axioms Bexpr.Props.C11.eval_cnt_mono
#print axioms Bexpr.Props.C11.eval_cnt_mono_exceeded
#print axioms Bexpr.Props.C11.eval_cnt_mono_abort
#print axioms Bexpr.Props.C11.eval_cnt_mono_final
#print axioms Bexpr.Props.C11.eval_cnt_le
#print axioms Bexpr.Props.C11.eval_fuel_mono
#print axioms Bexpr.Props.C11.eval_never_fuelOut
#print axioms Bexpr.Props.C11.eval_never_fuelOut'
#print axioms Bexpr.Props.C11.eval_budget_sim
#print axioms Bexpr.Props.C11.budget_zero_unlimited
#print axioms Bexpr.Props.C11.unlimited_cnt_le
#print axioms Bexpr.Props.C11.budget_exact_ge_gen
#print axioms Bexpr.Props.C11.budget_exact_ge
#print axioms Bexpr.Props.C11.budget_exact_lt
#print axioms Bexpr.Props.C11.budget_steps_le
#print axioms Bexpr.Props.C11.budget_threshold
