/-
  C01 — Evaluate returns what an independent interpreter of the documented semantics assigns.

  `Eval.Spec.denote` (Bexpr/Eval/Spec.lean) is the reference interpreter: lexical environment
  binding names to element VALUES, one walk per selector, per-operator tables, left-to-right
  folds.  `impl_refines_spec`: on well-formed data `Eval.evaluate` — which instead binds names to
  PATHS that are rewritten and looked up again from the root, and decides "absent" by a second
  walk — returns exactly the outcome `denote` assigns, for every expression (all operators, all
  binding modes, any nesting), under the hypotheses listed at `Hyps` / `wellBound`; the excluded
  points are shown to be real differences by `example`s at the end.
-/
import Bexpr.Eval.Spec
import Bexpr.Eval.RefCheck
import Proofs.SpecLemmas
import Props.C06

namespace Bexpr.Props.C01
open Bexpr Bexpr.Eval Bexpr.Go Bexpr.Proofs Bexpr.Proofs.SpecLemmas

variable (re : RegexOracle) (d : Any)

/-- The code's option record `o` (local variables = aliases by PATH, oldest first) against the
    specification's environment (bindings by VALUE, innermost first): same configuration and
    datum; key/index bindings hold the same value; the path of every alias binding resolves —
    through the OLDER bindings, then from the root — to the value the environment holds. -/
structure EnvRel (o : Opts) (env : Spec.Env) : Prop where
  cfg : env.cfg = o.cfg
  unknown : env.unknown = o.unknown
  root : env.root = d
  locals : LocalsRel o.cfg d o.locals.reverse env.vars

/-- the environment of a top-level evaluation (no local variables) -/
def envOf (o : Opts) : Spec.Env := Spec.Env.top o.tagName o.hook o.unknown d

theorem envRel_top (o : Opts) (h : o.locals = []) : EnvRel d o (envOf d o) :=
  ⟨rfl, rfl, rfl, by rw [h]; exact LocalsRel.nil⟩

/-- Hypotheses on the configuration and the datum.
     * `wf`: the datum is a value Go's type system can build (`Go.Any.wf`).
     * `hook`: no value-transformation hook, or the identity.  (Other hooks are applied by
       `Get` at every step of the re-walked alias path; the element a quantifier iterates is then
       not the element its alias selects.)
     * `unknown`: the unknown value, if configured, is not itself iterable — see
       `unknown_collection_differs` for the excluded point.
     * `short`: lists reachable by a selector have at most 2^63 elements, so that every index is
       an `int64` (`strconv.Itoa` / `ParseInt` round trip).  True of every Go value. -/
structure Hyps (cfg : Config) (unknown : Option Any) : Prop where
  wf : Any.wf d = true
  hook : plainHook cfg.hook
  unknown : ∀ u, unknown = some u → ¬ C06.Iterable u
  short : ∀ p v xs, get cfg p d = .ok v → C06.IsList v xs → xs.length ≤ 2 ^ 63

/-- Hypothesis on the expression: every quantifier's collection selector has at least one part,
    and its binding record pushes at most one alias (true of parser-built records, which set the
    names of their mode only). -/
def wellBound : Expr → Bool
  | .not e => wellBound e
  | .and l r => wellBound l && wellBound r
  | .or l r => wellBound l && wellBound r
  | .match_ .. => true
  | .coll _ sel b inner => !sel.path.isEmpty && C06.oneAlias b && wellBound inner

/-- selector resolution: `getValue` (scan, rewrite, `Get` from the root, second walk for the
    parent test) is `Spec.select` (lookup, one walk from the bound value) -/
theorem getValue_eq_select (o : Opts) (env : Spec.Env) (h : EnvRel d o env)
    (path : List GoString) : getValue o d path = Spec.select env path := by
  rw [getValue_eq_finish, finish_eq_select o.cfg o.unknown d _ env.vars h.locals path]
  obtain ⟨c, u, r, vs⟩ := env
  obtain ⟨h1, h2, h3, _⟩ := h
  simp only at h1 h2 h3
  subst h1 h2 h3
  rfl

/-! ## Entering the braces -/

/-- the alias a quantifier pushes for one element resolves to the element value -/
theorem alias_rel (o : Opts) (env : Spec.Env) (hrel : EnvRel d o env)
    (hy : Hyps d o.cfg o.unknown) (sel : Selector) (hsel : sel.path ≠ []) (v : Any)
    (hit : C06.Iterable v) (hv : getValue o d sel.path = .present v) (x last : GoString)
    (val : Any) (hget : get o.cfg [last] v = .ok val) :
    LocalsRel o.cfg d ({ name := x, path := sel.path ++ [last], value := none } :: o.locals.reverse)
      ((x, .elem val) :: env.vars) := by
  rw [getValue_eq_finish] at hv
  obtain ⟨full, hres, hfull⟩ :=
    present_iterable_inv o.cfg o.unknown d _ env.vars hrel.locals sel.path v hv hit hy.unknown
  refine LocalsRel.elem x _ none (full ++ [last]) val hrel.locals (by simp)
    (resolveLocals_append_path _ _ _ _ hsel hres).1 ?_
  rw [get_append, hfull]
  exact hget

theorem not_iterable_int (i : Int) : ¬ C06.Iterable (some (.int .int "" i)) := by
  simp [C06.Iterable]
theorem not_iterable_str (k : GoString) : ¬ C06.Iterable (some (.str "" k)) := by
  simp [C06.Iterable]

/-- the bindings pushed for element `i` of a list keep the relation -/
theorem envRel_list (o : Opts) (env : Spec.Env) (hrel : EnvRel d o env)
    (hy : Hyps d o.cfg o.unknown) (sel : Selector) (b : Binding) (hsel : sel.path ≠ [])
    (hone : C06.oneAlias b = true) (v : Any) (xs : List GoVal) (hl : C06.IsList v xs)
    (hv : getValue o d sel.path = .present v) (i : Nat) (hi : i < xs.length) :
    EnvRel d { o with locals := o.locals ++ listBindings sel b i }
      (env.push (Spec.bindItem b false { pos := .int .int "" i, val := elemAt xs i })) := by
  have hit : C06.Iterable v := by
    rcases hl with ⟨n, e, nl, rfl⟩ | ⟨e, rfl⟩ <;> simp [C06.Iterable]
  have h63 : i < 2 ^ 63 := by
    rw [getValue_eq_finish] at hv
    obtain ⟨full, _, hfull⟩ :=
      present_iterable_inv o.cfg o.unknown d _ env.vars hrel.locals sel.path v hv hit hy.unknown
    have := hy.short full v xs hfull hl
    omega
  have hal : ∀ x, LocalsRel o.cfg d
      ({ name := x, path := sel.path ++ [GoString.natToDec i], value := none } :: o.locals.reverse)
      ((x, .elem (elemAt xs i)) :: env.vars) := fun x =>
    alias_rel d o env hrel hy sel hsel v hit hv x _ _ (get_index o.cfg hy.hook v xs hl i hi h63)
  refine ⟨hrel.cfg, hrel.unknown, hrel.root, ?_⟩
  show LocalsRel o.cfg d (o.locals ++ listBindings sel b i).reverse
    (Spec.bindItem b false _ ++ env.vars)
  unfold C06.oneAlias at hone
  unfold listBindings Spec.bindItem
  by_cases h1 : b.default.isEmpty = true <;> by_cases h2 : b.value.isEmpty = true <;>
    by_cases h3 : b.index.isEmpty = true <;>
    simp only [h1, h2, h3, Bool.not_true, Bool.not_false, Bool.false_eq_true, if_true, if_false,
      List.append_nil, List.nil_append, List.reverse_append, List.reverse_cons, List.reverse_nil,
      List.cons_append] <;>
    first
      | exact hrel.locals
      | exact hal _
      | exact LocalsRel.key _ _ hrel.locals (not_iterable_int _)
      | exact LocalsRel.key _ _ (hal _) (not_iterable_int _)
      | (simp [h1, h2] at hone)

/-- the bindings pushed for the entry with key `k` of a string-keyed map keep the relation -/
theorem envRel_map (o : Opts) (env : Spec.Env) (hrel : EnvRel d o env)
    (hy : Hyps d o.cfg o.unknown) (sel : Selector) (b : Binding) (hsel : sel.path ≠ [])
    (n : String) (vt : GoType) (nl : Bool) (es : List (GoVal × GoVal))
    (hv : getValue o d sel.path = .present (some (.map n GoType.stringT vt nl es)))
    (k : GoString) (hk : k ∈ sortKeys (es.map fun e => strKey e.1)) :
    EnvRel d { o with locals := o.locals ++ mapBindings sel b k }
      (env.push (Spec.bindItem b true { pos := .str "" k, val := Spec.entry es k })) := by
  have hit : C06.Iterable (some (.map n GoType.stringT vt nl es)) := by simp [C06.Iterable]
  have hwf : Any.wf (some (.map n GoType.stringT vt nl es)) = true := by
    have hv' := hv
    rw [getValue_eq_finish] at hv'
    obtain ⟨full, _, hfull⟩ :=
      present_iterable_inv o.cfg o.unknown d _ env.vars hrel.locals sel.path _ hv' hit hy.unknown
    exact Total.get_wf _ _ _ _ hy.wf hfull
  have hal : ∀ x, LocalsRel o.cfg d
      ({ name := x, path := sel.path ++ [k], value := none } :: o.locals.reverse)
      ((x, .elem (Spec.entry es k)) :: env.vars) := fun x =>
    alias_rel d o env hrel hy sel hsel _ hit hv x _ _
      (get_key o.cfg hy.hook n vt nl es k (key_found n vt nl es hwf k hk))
  refine ⟨hrel.cfg, hrel.unknown, hrel.root, ?_⟩
  show LocalsRel o.cfg d (o.locals ++ mapBindings sel b k).reverse
    (Spec.bindItem b true _ ++ env.vars)
  unfold mapBindings Spec.bindItem
  by_cases h1 : b.default.isEmpty = true <;> by_cases h2 : b.value.isEmpty = true <;>
    by_cases h3 : b.index.isEmpty = true <;>
    simp only [h1, h2, h3, Bool.not_true, Bool.not_false, Bool.false_eq_true, if_true, if_false,
      List.append_nil, List.nil_append, List.reverse_append, List.reverse_cons, List.reverse_nil,
      List.cons_append] <;>
    first
      | exact hrel.locals
      | exact hal _
      | exact LocalsRel.key _ _ hrel.locals (not_iterable_str _)
      | exact LocalsRel.key _ _ (hal _) (not_iterable_str _)
      | exact LocalsRel.key _ _ (LocalsRel.key _ _ hrel.locals (not_iterable_str _))
          (not_iterable_str _)
      | exact LocalsRel.key _ _ (LocalsRel.key _ _ (hal _) (not_iterable_str _))
          (not_iterable_str _)

/-! ## The refinement -/

theorem items_not_iterable (v : Any) (h : ¬ C06.Iterable v) : Spec.items v = none := by
  cases v with
  | none => rfl
  | some w =>
    cases w <;> simp_all [C06.Iterable, Spec.items]

theorem listItems_isEmpty (xs : List GoVal) (k : Nat) :
    (Spec.listItems xs k).isEmpty = xs.isEmpty := by
  cases xs <;> rfl

theorem sameName_cond (b : Binding) (e : Bool) :
    (b.mode == .indexAndValue && b.index == b.value && e) =
      (decide (C06.sameName b) && e) := by
  by_cases h : C06.sameName b
  · obtain ⟨h1, h2⟩ := h
    simp [C06.sameName, h1, h2]
  · have hc : (b.mode == .indexAndValue && b.index == b.value) = false := by
      cases hc : (b.mode == .indexAndValue && b.index == b.value)
      · rfl
      · exfalso; apply h; simpa [C06.sameName] using hc
    simp [h, hc]

/-- C01 (`impl_refines_spec`, general form): in every scope — `o.locals` arbitrary, related to
    the environment by `EnvRel` — the code's `evaluate` returns the denotation. -/
theorem impl_refines_spec_env (e : Expr) : ∀ (o : Opts) (env : Spec.Env),
    wellBound e = true → Hyps d o.cfg o.unknown → EnvRel d o env →
    evaluate re e o d = Spec.denote re e env := by
  induction e with
  | not e ih =>
    intro o env hwb hy hrel
    simp only [wellBound] at hwb
    simp only [evaluate, Spec.denote, ih o env hwb hy hrel]
    cases Spec.denote re e env <;> rfl
  | and l r ihl ihr =>
    intro o env hwb hy hrel
    simp only [wellBound, Bool.and_eq_true] at hwb
    simp only [evaluate, Spec.denote, ihl o env hwb.1 hy hrel, ihr o env hwb.2 hy hrel]
    cases Spec.denote re l env with
    | val b => cases b <;> rfl
    | _ => rfl
  | or l r ihl ihr =>
    intro o env hwb hy hrel
    simp only [wellBound, Bool.and_eq_true] at hwb
    simp only [evaluate, Spec.denote, ihl o env hwb.1 hy hrel, ihr o env hwb.2 hy hrel]
    cases Spec.denote re l env with
    | val b => cases b <;> rfl
    | _ => rfl
  | match_ sel op raw =>
    intro o env _ _ hrel
    simp only [evaluate, evaluateMatch, Spec.denote, getValue_eq_select d o env hrel]
    cases Spec.select env sel.path <;> rfl
  | coll op sel b inner ih =>
    intro o env hwb hy hrel
    simp only [wellBound, Bool.and_eq_true, Bool.not_eq_true'] at hwb
    obtain ⟨⟨hsel, hone⟩, hwbi⟩ := hwb
    have hselne : sel.path ≠ [] := by intro h0; simp [h0] at hsel
    have hgv := getValue_eq_select d o env hrel sel.path
    simp only [Spec.denote, ← hgv]
    cases hv : getValue o d sel.path with
    | error => simp only [evaluate, hv]
    | unmodelled => simp only [evaluate, hv]
    | absent => simp only [evaluate, hv]
    | present v =>
      simp only []
      by_cases hit : C06.Iterable v
      · -- the element-wise step, shared by lists and maps
        have hyi : ∀ bs, Hyps d
            ({ o with locals := o.locals ++ bs } : Opts).cfg
            ({ o with locals := o.locals ++ bs } : Opts).unknown := fun _ => hy
        cases v with
        | none => exact absurd hit (by simp [C06.Iterable])
        | some w =>
          cases w with
          | slice n el nl xs =>
            have hl : C06.IsList (some (.slice n el nl xs)) xs := Or.inl ⟨n, el, nl, rfl⟩
            simp only [Spec.items, sameName_cond, listItems_isEmpty]
            by_cases hs : C06.sameName b
            · rw [(C06.coll_same_name_error re o d op sel b inner _ hs).1 xs hl hv]
              cases xs <;> simp [hs, Spec.listItems, Spec.fold]
            · rw [C06.coll_list_fold re o d op sel b inner _ xs hl hv (fun h => hs ⟨h.1, h.2.1⟩)]
              simp only [hs, decide_false, Bool.false_and, Bool.false_eq_true, if_false]
              rw [fold_eq_foldColl, listItems_eq, List.map_map]
              congr 1
              apply List.map_congr_left
              intro i hi
              simp only [Function.comp, Nat.zero_add]
              exact ih _ _ hwbi (hyi _)
                (envRel_list d o env hrel hy sel b hselne hone _ xs hl hv i (List.mem_range.mp hi))
          | array el xs =>
            have hl : C06.IsList (some (.array el xs)) xs := Or.inr ⟨el, rfl⟩
            simp only [Spec.items, sameName_cond, listItems_isEmpty]
            by_cases hs : C06.sameName b
            · rw [(C06.coll_same_name_error re o d op sel b inner _ hs).1 xs hl hv]
              cases xs <;> simp [hs, Spec.listItems, Spec.fold]
            · rw [C06.coll_list_fold re o d op sel b inner _ xs hl hv (fun h => hs ⟨h.1, h.2.1⟩)]
              simp only [hs, decide_false, Bool.false_and, Bool.false_eq_true, if_false]
              rw [fold_eq_foldColl, listItems_eq, List.map_map]
              congr 1
              apply List.map_congr_left
              intro i hi
              simp only [Function.comp, Nat.zero_add]
              exact ih _ _ hwbi (hyi _)
                (envRel_list d o env hrel hy sel b hselne hone _ xs hl hv i (List.mem_range.mp hi))
          | map n kt vt nl es =>
            have hkt : kt = GoType.stringT := hit
            subst hkt
            simp only [Spec.items, beq_self_eq_true, if_true, sameName_cond]
            by_cases hs : C06.sameName b
            · rw [(C06.coll_same_name_error re o d op sel b inner _ hs).2 n vt nl es rfl hv]
              cases hes : es with
              | nil => simp [hs, sortKeys, Spec.fold]
              | cons e0 es0 =>
                have hne : sortKeys ((e0 :: es0).map fun e => strKey e.1) ≠ [] := by
                  intro h
                  have := congrArg List.length h
                  simp [sortKeys, List.length_mergeSort] at this
                cases hk : sortKeys ((e0 :: es0).map fun e => strKey e.1) with
                | nil => exact absurd hk hne
                | cons k ks => simp [hs]
            · rw [C06.coll_map_fold re o d op sel b inner n vt nl es hv (fun h => hs ⟨h.1, h.2.1⟩)]
              simp only [hs, decide_false, Bool.false_and, Bool.false_eq_true, if_false]
              rw [fold_eq_foldColl, List.map_map]
              congr 1
              apply List.map_congr_left
              intro k hk
              simp only [Function.comp]
              exact ih _ _ hwbi (hyi _)
                (envRel_map d o env hrel hy sel b hselne n vt nl es hv k hk)
          | _ => exact absurd hit (by simp [C06.Iterable])
      · rw [C06.coll_bad_kind re o d op sel b inner v hv hit, items_not_iterable v hit]

/-- C01 (`impl_refines_spec`): `Evaluate` — no local variables at the top — returns what the
    reference interpreter assigns. -/
theorem impl_refines_spec (e : Expr) (o : Opts) (hloc : o.locals = [])
    (hwb : wellBound e = true) (hy : Hyps d o.cfg o.unknown) :
    evaluate re e o d = Spec.denote re e (envOf d o) :=
  impl_refines_spec_env re d e o (envOf d o) hwb hy (envRel_top d o hloc)

/-- … in terms of the public entry point `(*Evaluator).Evaluate` -/
theorem evaluator_refines_spec (ev : Evaluator) (hwb : wellBound ev.ast = true)
    (hy : Hyps d { tagName := ev.tagName, hook := ev.hook } ev.unknown) :
    ev.evaluate re d = Spec.denote re ev.ast (Spec.Env.top ev.tagName ev.hook ev.unknown d) :=
  impl_refines_spec re d ev.ast
    { tagName := ev.tagName, hook := ev.hook, unknown := ev.unknown, locals := [] } rfl hwb hy

/-- no `any`/`all` inside -/
def quantFree : Expr → Bool
  | .not e => quantFree e
  | .and l r => quantFree l && quantFree r
  | .or l r => quantFree l && quantFree r
  | .match_ .. => true
  | .coll .. => false

/-- for quantifier-free expressions no hypothesis on the datum or the configuration is needed:
    every hook, every unknown value, every (even ill-formed) datum, in every scope -/
theorem impl_refines_spec_quantifier_free (e : Expr) : ∀ (o : Opts) (env : Spec.Env),
    quantFree e = true → EnvRel d o env → evaluate re e o d = Spec.denote re e env := by
  induction e with
  | not e ih =>
    intro o env hq hrel
    simp only [quantFree] at hq
    simp only [evaluate, Spec.denote, ih o env hq hrel]
    cases Spec.denote re e env <;> rfl
  | and l r ihl ihr =>
    intro o env hq hrel
    simp only [quantFree, Bool.and_eq_true] at hq
    simp only [evaluate, Spec.denote, ihl o env hq.1 hrel, ihr o env hq.2 hrel]
    cases Spec.denote re l env with
    | val b => cases b <;> rfl
    | _ => rfl
  | or l r ihl ihr =>
    intro o env hq hrel
    simp only [quantFree, Bool.and_eq_true] at hq
    simp only [evaluate, Spec.denote, ihl o env hq.1 hrel, ihr o env hq.2 hrel]
    cases Spec.denote re l env with
    | val b => cases b <;> rfl
    | _ => rfl
  | match_ sel op raw =>
    intro o env _ hrel
    simp only [evaluate, evaluateMatch, Spec.denote, getValue_eq_select d o env hrel]
    cases Spec.select env sel.path <;> rfl
  | coll op sel b inner _ => intro _ _ hq; simp [quantFree] at hq

/-- a convenient sufficient condition for `Hyps`: well-formed datum of at most 2^63 nodes -/
theorem hyps_of_size (cfg : Config) (unknown : Option Any) (hwf : Any.wf d = true)
    (hh : plainHook cfg.hook) (hu : ∀ u, unknown = some u → ¬ C06.Iterable u)
    (hsz : rvSize d ≤ 2 ^ 63) : Hyps d cfg unknown :=
  ⟨hwf, hh, hu, fun p v xs hg hl => short_of_size cfg hh d hsz p v xs hg hl⟩


/-! ## The decidable side conditions the driver evaluates (`Bexpr.Eval.RefCheck`) -/

theorem iterableB_iff (v : Any) : RefCheck.iterableB v = true ↔ C06.Iterable v := by
  cases v with
  | none => simp [RefCheck.iterableB, C06.Iterable]
  | some x => cases x <;> simp [RefCheck.iterableB, C06.Iterable]

theorem wellBoundB_eq (e : Expr) : RefCheck.wellBoundB e = wellBound e := by
  induction e with
  | not e ih => simpa [RefCheck.wellBoundB, wellBound] using ih
  | and l r ihl ihr => simp [RefCheck.wellBoundB, wellBound, ihl, ihr]
  | or l r ihl ihr => simp [RefCheck.wellBoundB, wellBound, ihl, ihr]
  | match_ sel op raw => rfl
  | coll op sel b inner ih => simp [RefCheck.wellBoundB, wellBound, C06.oneAlias, ih]

/-- C01, in the form the check uses to decide whether a disagreement between the real code and
    the model is a failing input: when the Boolean `refOk` holds of the evaluator and the datum,
    `Evaluate` is the reference answer. -/
theorem refOk_sound (ev : Evaluator) (h : RefCheck.refOk ev d = true) :
    ev.evaluate re d = RefCheck.refAnswer re ev d := by
  simp only [RefCheck.refOk, Bool.and_eq_true, Bool.or_eq_true, beq_iff_eq, decide_eq_true_eq] at h
  obtain ⟨⟨⟨⟨hwf, hh⟩, hu⟩, hwb⟩, hsz⟩ := h
  refine evaluator_refines_spec re d ev (by rw [← wellBoundB_eq]; exact hwb) ?_
  refine hyps_of_size d _ _ hwf hh ?_ ?_
  · intro u hu' hit
    rw [hu'] at hu
    have := (iterableB_iff u).mpr hit
    simp [this] at hu
  · cases d <;> simpa [rvSize, RefCheck.sizeOf] using hsz

/-! ## Non-vacuity, and the excluded points are real -/

section Examples
open C06 (exDatum exOpts noRe selK bindX bodyXeq f64_1)

/-- `any k as x { x == 2 }` and `all k as i, x { any k as y { y != 3 } }` on `{"k": [1, 2]}`:
    the hypotheses hold, the theorem applies, and the denotation is a concrete outcome -/
def ex1 : Expr := .coll .any selK bindX (bodyXeq 50)
def ex2 : Expr :=
  .coll .all selK { mode := .indexAndValue, index := [105], value := [120] }
    (.coll .any selK { mode := .default, default := [121] }
      (.match_ ⟨.bexpr, [[121]]⟩ .notEqual (some [51])))

theorem exHyps : Hyps exDatum exOpts.cfg exOpts.unknown :=
  hyps_of_size exDatum _ _ (by decide) (Or.inl rfl) (by intro u h; cases h) (by decide)

example : evaluate noRe ex1 exOpts exDatum = Spec.denote noRe ex1 (envOf exDatum exOpts) :=
  impl_refines_spec noRe exDatum ex1 exOpts rfl (by decide) exHyps
example : Spec.denote noRe ex1 (envOf exDatum exOpts) = .val true := by decide +kernel
example : evaluate noRe ex2 exOpts exDatum = Spec.denote noRe ex2 (envOf exDatum exOpts) :=
  impl_refines_spec noRe exDatum ex2 exOpts rfl (by decide) exHyps
example : Spec.denote noRe ex2 (envOf exDatum exOpts) = .val true := by decide +kernel

/-- absent key through an element: on `{"k": [{"a": 1}]}`, `any k as x { x.zz != 1 }` is true
    (absent, `!=` disposition) by one walk from the element -/
def absDatum : Any :=
  some (.map "" GoType.stringT .iface false
    [(.str "" [107], .iface (some (.slice "" .iface false
      [.iface (some (.map "" GoType.stringT .iface false [(.str "" [97], .iface (some f64_1))]))])))])
example : Spec.denote noRe (.coll .any selK bindX
    (.match_ ⟨.bexpr, [[120], [122, 122]]⟩ .notEqual (some [49]))) (envOf absDatum exOpts)
      = .val true := by decide +kernel
example : evaluate noRe (.coll .any selK bindX
    (.match_ ⟨.bexpr, [[120], [122, 122]]⟩ .notEqual (some [49]))) exOpts absDatum
      = .val true := by decide +kernel

/-- EXCLUDED POINT 1 (`Hyps.unknown`): a collection as the unknown value.  On the empty document
    with unknown value `[]int{1, 2}`, `any zz as x { x == 1 }` iterates the unknown value; the
    code then resolves the alias `zz.0` — `zz` is still absent — to the WHOLE unknown value again
    and fails to compare a slice, while the element is `1` and the denotation is `true`. -/
def unkOpts : Opts :=
  { exOpts with unknown := some (some (.slice "" (.basic .int "") false
      [.int .int "" 1, .int .int "" 2])) }
def emptyDoc : Any := some (.map "" GoType.stringT .iface false [])
def exZZ : Expr := .coll .any ⟨.bexpr, [[122, 122]]⟩ bindX (bodyXeq 49)

theorem unknown_collection_differs :
    evaluate noRe exZZ unkOpts emptyDoc = .err false ∧
    Spec.denote noRe exZZ (envOf emptyDoc unkOpts) = .val true := by
  constructor <;> decide +kernel

/-- EXCLUDED POINT 2 (`Hyps.hook`): a transforming hook.  With the `unwrap` hook on
    `{"k": []Wrap{{V: 1}}}`, `any k as x { x == 1 }`: the iterated element is the struct, but the
    code's alias `k.0` is walked by `Get`, whose hook unwraps it to `1`. -/
def wrapDatum : Any :=
  some (.map "" GoType.stringT .iface false
    [(.str "" [107], .iface (some (.slice "" (.struct "main.Wrap") false
      [.struct "main.Wrap" [({ goName := [86], exported := true, tags := [] }, .int .int "" 1)]])))])
def wrapOpts : Opts := { exOpts with hook := .unwrap }

def exXeq1 : Expr := .coll .any selK bindX (bodyXeq 49)

theorem transforming_hook_differs :
    evaluate noRe exXeq1 wrapOpts wrapDatum = .val true ∧
    Spec.denote noRe exXeq1 (envOf wrapDatum wrapOpts) = .err false := by
  constructor <;> decide +kernel

/-- EXCLUDED POINT 3 (`wellBound`): a binding record with BOTH the one-name and the value name
    set (the parser never builds one).  On `{"k": [[1]]}` with names `k` (one-name) and `z`
    (value) over `k`: the alias `z ↦ k.0` is resolved through the older alias `k ↦ k.0` of the
    same quantifier, giving `k.0.0`. -/
def nestDatum : Any :=
  some (.map "" GoType.stringT .iface false
    [(.str "" [107], .iface (some (.slice "" .iface false
      [.iface (some (.slice "" .iface false [.iface (some f64_1)]))])))])
def exTwoAliases : Expr :=
  .coll .any selK { mode := .default, default := [107], value := [122] }
    (.match_ ⟨.bexpr, [[122]]⟩ .equal (some [49]))

theorem two_aliases_differ :
    wellBound exTwoAliases = false ∧
    evaluate noRe exTwoAliases exOpts nestDatum = .val true ∧
    Spec.denote noRe exTwoAliases (envOf nestDatum exOpts) = .err false := by
  refine ⟨by decide, ?_, ?_⟩ <;> decide +kernel

end Examples

end Bexpr.Props.C01

#print axioms Bexpr.Props.C01.getValue_eq_select
#print axioms Bexpr.Props.C01.impl_refines_spec_env
#print axioms Bexpr.Props.C01.impl_refines_spec
#print axioms Bexpr.Props.C01.evaluator_refines_spec
#print axioms Bexpr.Props.C01.impl_refines_spec_quantifier_free
#print axioms Bexpr.Props.C01.hyps_of_size
#print axioms Bexpr.Props.C01.refOk_sound
#print axioms Bexpr.Props.C01.unknown_collection_differs
#print axioms Bexpr.Props.C01.transforming_hook_differs
#print axioms Bexpr.Props.C01.two_aliases_differ
#print axioms Bexpr.Proofs.SpecLemmas.get_append
#print axioms Bexpr.Proofs.SpecLemmas.IndexRoundTrip.parseInt_natToDec
