/-
  C05 — Absent map keys follow the documented table; the unknown value substitutes exactly.

  Statements about `Eval.getValue` / `evaluateMatch` / `evaluate` (model of evaluate.go:getValue,
  evaluateNotPresent, evaluateMatchExpression, evaluateCollectionExpression) and about
  `Go.get` (model of pointerstructure.Get) for all data, paths, options and operators.
  Ties: `Ties/Dispatch.lean` (NotPresentDisposition regenerated from ast.go), the `absent`
  correspondence fragment.

  Modelling decision (follows the code): "a key absent from a map" means that the parent path
  resolves to a value whose kind is Map.  A parent that is a POINTER to a map is not (the code
  tests `reflect.ValueOf(val).Kind() == reflect.Map` on the boxed parent): such a selector is an
  error, see `parent_pointer_to_map_is_error`.
-/
import Bexpr.Eval.Impl
import Proofs.Keys
import Props.C03

namespace Bexpr.Props.C05
open Bexpr Bexpr.Eval Bexpr.Go

variable (re : RegexOracle) (o : Opts) (d : Any)

/-- the documented table: ==, in, matches, is not empty are false; !=, not in, not matches,
    is empty are true -/
theorem npd_table :
    notPresentDisposition .equal = false ∧ notPresentDisposition .in_ = false ∧
    notPresentDisposition .matches = false ∧ notPresentDisposition .isNotEmpty = false ∧
    notPresentDisposition .notEqual = true ∧ notPresentDisposition .notIn = true ∧
    notPresentDisposition .notMatches = true ∧ notPresentDisposition .isEmpty = true := by
  decide

/-- a match over an absent map key is not an error: it is the table's value -/
theorem absent_table (sel : Selector) (op : MatchOp) (raw : Option GoString)
    (h : getValue o d sel.path = .absent) :
    evaluateMatch re o d sel op raw = .val (notPresentDisposition op) := by
  unfold evaluateMatch; rw [h]

/-- `all` over an absent map key is true, `any` false -/
theorem absent_all_any (op : CollOp) (sel : Selector) (b : Binding) (inner : Expr)
    (h : getValue o d sel.path = .absent) :
    evaluate re (.coll op sel b inner) o d = .val (op == .all) := by
  simp only [evaluate]; rw [h]

/-- when exactly the selector is "absent": the path (after local-variable rewriting) fails with
    ErrNotFound, no unknown value is configured, and the parent test succeeds -/
theorem getValue_absent_iff (path : List GoString) :
    getValue o d path = .absent ↔
      ∃ p, resolveLocals o.locals.reverse path = .ok (.inr p) ∧ get o.cfg p d = .error .notFound ∧
        o.unknown = none ∧ evaluateNotPresent o.cfg p d = true := by
  unfold getValue
  constructor
  · intro h
    split at h
    · contradiction
    · contradiction
    · rename_i p hp
      refine ⟨p, hp, ?_⟩
      split at h <;> try contradiction
      split at h <;> try contradiction
      split at h <;> simp_all
  · rintro ⟨p, hp, hg, hu, hn⟩
    simp [hp, hg, hu, hn]

/-- the parent test: two or more parts and the parent path resolves to a value of kind Map -/
theorem evaluateNotPresent_iff (cfg : Config) (p : List GoString) :
    evaluateNotPresent cfg p d = true ↔
      2 ≤ p.length ∧ ∃ v, get cfg p.dropLast d = .ok (some v) ∧ v.kind = .map := by
  unfold evaluateNotPresent
  by_cases hl : p.length < 2
  · simp [hl]; omega
  · simp only [hl, if_false]
    constructor
    · intro h
      refine ⟨by omega, ?_⟩
      split at h
      · rename_i v hv; exact ⟨v, hv, by simpa using h⟩
      · contradiction
    · rintro ⟨_, v, hv, hk⟩
      simp [hv, hk]

/-- an absent single-part (top-level) key is never "absent": it is an error -/
theorem single_part_never_absent (cfg : Config) (p : List GoString) (h : p.length < 2) :
    evaluateNotPresent cfg p d = false := by
  simp [evaluateNotPresent, h]

/-- failing for any reason other than ErrNotFound is an error: index out of range, a step into
    a scalar, an ignored field, a key that cannot be coerced, and — since `getValue` walks through
    `safeGet` (repair of finding F12) — a panic raised inside the walk (`GetErr.panic`: a key type
    like `*[1][]int`, `Proofs.Keys.getStep_panic`).  No exclusion is left: `Get` never answers
    `unmodelled` (`Proofs.Keys.get_ne_unmodelled`). -/
theorem other_failure_is_error (path p : List GoString) (e : GetErr)
    (hp : resolveLocals o.locals.reverse path = .ok (.inr p)) (hg : get o.cfg p d = .error e)
    (hne : e ≠ .notFound) : getValue o d path = .error := by
  have hnu : e ≠ .unmodelled := fun h => Proofs.Keys.get_ne_unmodelled _ _ _ (h ▸ hg)
  unfold getValue
  cases e <;> simp_all

/-- `getValue` never answers `unmodelled`: every map key type is inside the model -/
theorem getValue_ne_unmodelled (path : List GoString) : ∀ g, getValue o d path = g →
    (match g with | .unmodelled => False | _ => True) := by
  intro g hg
  unfold getValue at hg
  split at hg
  · cases hg; trivial
  · cases hg; trivial
  · split at hg
    · cases hg; trivial
    · rename_i h; exact absurd h (Proofs.Keys.get_ne_unmodelled _ _ _)
    · cases hg; trivial
    · split at hg
      · cases hg; trivial
      · split at hg <;> (cases hg; trivial)
    · cases hg; trivial

/-- ErrNotFound whose parent is not a map (an absent struct field, an absent intermediate key
    below a struct or list …) is an error when no unknown value is configured -/
theorem notFound_nonmap_parent_is_error (path p : List GoString)
    (hp : resolveLocals o.locals.reverse path = .ok (.inr p)) (hg : get o.cfg p d = .error .notFound)
    (hu : o.unknown = none) (hn : evaluateNotPresent o.cfg p d = false) :
    getValue o d path = .error := by
  unfold getValue
  simp [hp, hg, hu, hn]

/-- an index out of range is `ErrOutOfRange`, not ErrNotFound -/
theorem slice_index_out_of_range (part : GoString) (xs : List GoVal) (i : Int)
    (hi : Strconv.parseInt (if part.isEmpty then GoString.ofString "0" else part) 0 64 = .ok i)
    (hr : i < 0 ∨ (xs.length : Int) ≤ i) : getSlice part xs = .error .outOfRange := by
  unfold getSlice
  simp only [hi]
  rcases hr with h | h
  · simp [h]
  · have : ¬ (i < (xs.length : Int)) := by omega
    by_cases h0 : i < 0 <;> simp_all

/-- a step into a scalar (or nil) is `ErrInvalidKind` -/
theorem step_into_scalar (cfg : Config) (part : GoString) (v : GoVal)
    (hk : v.kind ≠ .map ∧ v.kind ≠ .slice ∧ v.kind ≠ .array ∧ v.kind ≠ .struct ∧
      v.kind ≠ .pointer ∧ v.kind ≠ .interface) :
    getStep cfg part (some v) = .error .invalidKind := by
  cases v <;> simp_all [GoVal.kind, getStep, unwrapForStep, unwrapIfaceV, unwrapPtrV]

theorem step_into_nil (cfg : Config) (part : GoString) : getStep cfg part none = .error .invalidKind := by
  simp [getStep, unwrapForStep]

/-- with an unknown value `u`: every selector that fails only because a key or field is absent
    evaluates exactly as if it had resolved to `u` -/
theorem unknown_subst (path p : List GoString) (u : Any)
    (hp : resolveLocals o.locals.reverse path = .ok (.inr p)) (hg : get o.cfg p d = .error .notFound)
    (hu : o.unknown = some u) : getValue o d path = .present u := by
  unfold getValue
  simp [hp, hg, hu]

/-- … and the operators then see exactly `u` (a match depends on the datum only through
    `getValue`) -/
theorem match_depends_on_getValue (o' : Opts) (d' : Any) (sel sel' : Selector) (op : MatchOp)
    (raw : Option GoString) (h : getValue o d sel.path = getValue o' d' sel'.path) :
    evaluateMatch re o d sel op raw = evaluateMatch re o' d' sel' op raw := by
  unfold evaluateMatch; rw [h]

/-- expressions whose selectors resolve are unaffected by the unknown value -/
theorem unknown_neutral_getValue (path p : List GoString) (v u : Any)
    (hp : resolveLocals o.locals.reverse path = .ok (.inr p)) (hg : get o.cfg p d = .ok v) :
    getValue { o with unknown := u } d path = getValue o d path := by
  unfold getValue Opts.cfg
  simp only [hp]
  unfold Opts.cfg at hg
  simp [hg]

/-- a selector bound to a key/index local variable is unaffected as well -/
theorem unknown_neutral_local (path : List GoString) (v u : Any)
    (hp : resolveLocals o.locals.reverse path = .ok (.inl v)) :
    getValue { o with unknown := u } d path = getValue o d path := by
  unfold getValue
  simp [hp]

/-- a pointer to a map is not a map for the parent test: the selector is an error
    (follows the code; see the header) -/
theorem parent_pointer_to_map_is_error (cfg : Config) (p : List GoString) (e : GoType) (x : Option GoVal)
    (h : get cfg p.dropLast d = .ok (some (.ptr e x))) : evaluateNotPresent cfg p d = false := by
  unfold evaluateNotPresent
  by_cases hl : p.length < 2 <;> simp [hl, h, GoVal.kind]

/-- non-vacuity: on {"m": {"a": 1}} the selector m.zz is absent, and `m.zz == 1` is false
    while `m.zz != 1` is true -/
def exDatum : Any :=
  some (.map "" GoType.stringT .iface false
    [(.str "" [109] /- "m" -/,
      .iface (some (.map "" GoType.stringT .iface false
        [(.str "" [97] /- "a" -/, .iface (some (.float .float64 "" 0x3FF0000000000000)))])))])
def exOpts : Opts := { tagName := [98, 101, 120, 112, 114], hook := .off, unknown := none, locals := [] }
def exSel : Selector := { ty := .bexpr, path := [[109], [122, 122]] /- m.zz -/ }

example : (match getValue exOpts exDatum exSel.path with | .absent => true | _ => false) = true := by
  decide +kernel
example : evaluateMatch (fun _ => none) exOpts exDatum exSel .equal (some [49]) = .val false := by
  decide +kernel
example : evaluateMatch (fun _ => none) exOpts exDatum exSel .notEqual (some [49]) = .val true := by
  decide +kernel

end Bexpr.Props.C05

#print axioms Bexpr.Props.C05.absent_table
#print axioms Bexpr.Props.C05.absent_all_any
#print axioms Bexpr.Props.C05.getValue_absent_iff
#print axioms Bexpr.Props.C05.evaluateNotPresent_iff
#print axioms Bexpr.Props.C05.other_failure_is_error
#print axioms Bexpr.Props.C05.getValue_ne_unmodelled
#print axioms Bexpr.Props.C05.notFound_nonmap_parent_is_error
#print axioms Bexpr.Props.C05.unknown_subst
#print axioms Bexpr.Props.C05.unknown_neutral_getValue
#print axioms Bexpr.Props.C05.slice_index_out_of_range
#print axioms Bexpr.Props.C05.step_into_scalar
