/-
  Property C07 (selector spellings):

    "A path spelled `a.b.0`, `a["b"]["0"]` (or with backticks) or `"/a/b/0"` selects the same
     element … In the JSON-Pointer spelling ~1 and ~0 denote '/' and '~'."

  At parser level (grammar = the PINNED table, semantics `Sem`, engine by `Props/C15.lean`):
   * `selector_bexpr_spellings` — every bexpr spelling of a part list (first identifier, then
     parts written `.ident`, `.digits`, `["…"]`, [`…`], with blanks inside the brackets)
     yields `Selector{Type: bexpr, Path: parts}`;
   * `selector_pointer_spelling` — the JSON-pointer spelling `"/p₁/p₂…"` of a path, each
     element RFC 6901-escaped (`~` ↦ `~0`, `/` ↦ `~1`), yields
     `Selector{Type: jsonPointer, Path: path}`: `~1` and `~0` denote `/` and `~`;
   * `selector_spellings_same_path` — so all spellings of one path yield selectors with the
     same `.path` (they differ in the `ty` field only);
   * `evaluate_ignores_selector_type` — the evaluator reads `.path` only: two trees that differ
     only in selector `ty` fields evaluate alike on every datum;
   * `spellings_same_outcome` — two whole renderings that differ only in how selectors are
     spelled are both accepted, and the two trees evaluate alike.

  The surrounding input is valid UTF-8 (`VT` = Go's `utf8.ValidString`, `C16.valid_text_iff`).
  RESTRICTIONS: in the pointer spelling every escaped element is non-empty valid UTF-8 whose
  runes are in the grammar's class `[\pL\pN-_.~:|]` (`SegOK`: letters and numbers by Go's
  `unicode.L` / `unicode.N` tables, non-ASCII ones included, or one of `-_.~:|` — a property of
  the grammar), the path is non-empty; index literals are `q body q` with a valid UTF-8 body
  without the byte `q` (denoting `strconv.Unquote` of the token).  Whole renderings: those of
  `Props/C16.lean`.
-/
import Bexpr.Eval.Impl
import Props.C15
import Props.C16Lex
import Proofs.RoundTripExpr

namespace Bexpr.Props.C07
open Bexpr Bexpr.Peg Bexpr.Driver Bexpr.Eval Bexpr.Proofs.RoundTrip
open Bexpr.Props.C16Lex (ptrEscape)

/-! ## 1. Parser level: all spellings of a path give that path -/

/-- bexpr spellings: `a.b.0`, `a["b"][`0`]`, `a[ "b" ].0`, … -/
theorem selector_bexpr_spellings (σ : SelSp) (h : σ.WF) (rest : GoString) (hstop : stopsSel rest)
    (hr : VT rest) (rule : String) (fr : Frame) (off : Nat) (errs : List PErr) :
    Sem pinEnv pinGrammar rule (.ruleRef "Selector") fr (ptAt (σ.text ++ rest) off) errs
      (.res (ptAt rest (off + σ.text.length)) errs fr (.sel { ty := .bexpr, path := σ.path })
        true) :=
  eats_Selector_bexpr σ h hstop hr

/-- JSON-pointer spelling: `"/a/b~1c/0"` is the path `[a, b/c, 0]`. -/
theorem selector_pointer_spelling (path : List GoString) (hne : path ≠ [])
    (h : ∀ p ∈ path, SegOK (ptrEscape p)) (rest : GoString) (hr : VT rest) (rule : String)
    (fr : Frame) (off : Nat) (errs : List PErr) :
    Sem pinEnv pinGrammar rule (.ruleRef "Selector") fr (ptAt (pointerText path ++ rest) off) errs
      (.res (ptAt rest (off + (pointerText path).length)) errs fr
        (.sel { ty := .jsonPointer, path := path }) true) :=
  eats_Selector_pointer path hne h hr

/-- Any two spellings of the same path — two bexpr spellings, or a bexpr spelling and the
    pointer spelling — parse to selectors with the same `.path`. -/
theorem selector_spellings_same_path (x₁ x₂ : SelX) (h₁ : x₁.WF) (h₂ : x₂.WF)
    (hp : x₁.sel.path = x₂.sel.path) (rest₁ rest₂ : GoString) (hf₁ : x₁.follow rest₁)
    (hf₂ : x₂.follow rest₂) (hr₁ : VT rest₁) (hr₂ : VT rest₂) (rule : String) (fr : Frame)
    (off : Nat) (errs : List PErr) :
    ∃ s₁ s₂ : Selector,
      Sem pinEnv pinGrammar rule (.ruleRef "Selector") fr (ptAt (x₁.text ++ rest₁) off) errs
        (.res (ptAt rest₁ (off + x₁.text.length)) errs fr (.sel s₁) true) ∧
      Sem pinEnv pinGrammar rule (.ruleRef "Selector") fr (ptAt (x₂.text ++ rest₂) off) errs
        (.res (ptAt rest₂ (off + x₂.text.length)) errs fr (.sel s₂) true) ∧
      s₁.path = s₂.path :=
  ⟨x₁.sel, x₂.sel, eats_SelX x₁ h₁ hf₁ hr₁, eats_SelX x₂ h₂ hf₂ hr₂, hp⟩

/-- in particular a bexpr spelling `σ` and the pointer spelling of `σ.path` -/
theorem bexpr_vs_pointer (σ : SelSp) : (SelX.bexpr σ).sel.path = (SelX.ptr σ.path).sel.path := rfl

/-- the same at the level of the engine's `parseExpr`: from any state on that input, with
    enough budget and fuel, both calls succeed with selectors of equal path -/
theorem selector_spellings_engine (x₁ x₂ : SelX) (h₁ : x₁.WF) (h₂ : x₂.WF)
    (hp : x₁.sel.path = x₂.sel.path) (rest₁ rest₂ : GoString) (hf₁ : x₁.follow rest₁)
    (hf₂ : x₂.follow rest₂) (hr₁ : VT rest₁) (hr₂ : VT rest₂) (rule : String) (fr : Frame)
    (off : Nat) (errs : List PErr) :
    ∃ (s₁ s₂ : Selector) (N₁ N₂ : Nat), s₁.path = s₂.path ∧
      ∀ max fuel cnt, cnt + N₁ ≤ max → N₁ ≤ fuel → cnt + N₂ ≤ max → N₂ ≤ fuel →
        eval pinEnv pinGrammar max fuel rule (.ruleRef "Selector") fr
            { pt := ptAt (x₁.text ++ rest₁) off, cnt := cnt, errs := errs } =
          .ok { pt := ptAt rest₁ (off + x₁.text.length), cnt := cnt + N₁, errs := errs } fr
            (.sel s₁) true ∧
        eval pinEnv pinGrammar max fuel rule (.ruleRef "Selector") fr
            { pt := ptAt (x₂.text ++ rest₂) off, cnt := cnt, errs := errs } =
          .ok { pt := ptAt rest₂ (off + x₂.text.length), cnt := cnt + N₂, errs := errs } fr
            (.sel s₂) true := by
  obtain ⟨N₁, _, e₁⟩ := C15.engine_complete_sem pinEnv pinGrammar
    (eats_SelX (rule := rule) (fr := fr) (off := off) (errs := errs) x₁ h₁ hf₁ hr₁)
  obtain ⟨N₂, _, e₂⟩ := C15.engine_complete_sem pinEnv pinGrammar
    (eats_SelX (rule := rule) (fr := fr) (off := off) (errs := errs) x₂ h₂ hf₂ hr₂)
  exact ⟨x₁.sel, x₂.sel, N₁, N₂, hp, fun max fuel cnt a b c d =>
    ⟨e₁ max fuel cnt a b, e₂ max fuel cnt c d⟩⟩

/-! ## 2. Evaluator level: the selector type is never read -/

def eraseTySel (s : Selector) : Selector := { s with ty := .bexpr }

/-- the tree with every selector's type field reset -/
def eraseTy : Expr → Expr
  | .not e => .not (eraseTy e)
  | .and l r => .and (eraseTy l) (eraseTy r)
  | .or l r => .or (eraseTy l) (eraseTy r)
  | .match_ s o v => .match_ (eraseTySel s) o v
  | .coll o s b e => .coll o (eraseTySel s) b (eraseTy e)

theorem evaluate_eraseTy (re : RegexOracle) : ∀ (e : Expr) (o : Opts) (d : Go.Any),
    evaluate re (eraseTy e) o d = evaluate re e o d
  | .not e, o, d => by simp only [eraseTy, evaluate, evaluate_eraseTy re e]
  | .and l r, o, d => by
    simp only [eraseTy, evaluate, evaluate_eraseTy re l, evaluate_eraseTy re r]
  | .or l r, o, d => by
    simp only [eraseTy, evaluate, evaluate_eraseTy re l, evaluate_eraseTy re r]
  | .match_ s op v, o, d => rfl
  | .coll op s b e, o, d => by
    have ih : (fun o' => evaluate re (eraseTy e) o' d) = (fun o' => evaluate re e o' d) :=
      funext fun o' => evaluate_eraseTy re e o' d
    simp only [eraseTy, evaluate, ih]
    rfl

/-- Two expressions that differ only in selector `ty` fields (quantifier selectors included)
    have the same outcome — value, error or panic — on every datum, options and regexp oracle. -/
theorem evaluate_ignores_selector_type (re : RegexOracle) (e₁ e₂ : Expr)
    (h : eraseTy e₁ = eraseTy e₂) (o : Opts) (d : Go.Any) :
    evaluate re e₁ o d = evaluate re e₂ o d := by
  rw [← evaluate_eraseTy re e₁, ← evaluate_eraseTy re e₂, h]

/-! ## 3. Whole expressions -/

theorem eraseTy_notFold (e : Expr) : eraseTy (notFold e) = notFold (eraseTy e) := by
  cases e <;> rfl

theorem eraseTy_norm : ∀ e : Expr, eraseTy (norm e) = norm (eraseTy e)
  | .not e => by simp only [norm, eraseTy, eraseTy_notFold, eraseTy_norm e]
  | .and l r => by simp only [norm, eraseTy, eraseTy_norm l, eraseTy_norm r]
  | .or l r => by simp only [norm, eraseTy, eraseTy_norm l, eraseTy_norm r]
  | .match_ .. => rfl
  | .coll _ _ _ e => by simp only [norm, eraseTy, eraseTy_norm e]

/-- Two well-formed renderings whose trees differ only in the selector types (i.e. which
    differ in how paths are spelled — and in blanks, parentheses, literal styles) are both
    accepted by the parser, and the trees it returns evaluate alike. -/
theorem spellings_same_outcome (ρ₁ ρ₂ : Top) (h₁ : ρ₁.WF) (h₂ : ρ₂.WF)
    (hsame : eraseTy ρ₁.ast = eraseTy ρ₂.ast) :
    ∃ e₁ e₂, Accepts pinEnv pinGrammar ρ₁.text (.expr e₁) ∧
      Accepts pinEnv pinGrammar ρ₂.text (.expr e₂) ∧
      ∀ re o d, evaluate re e₁ o d = evaluate re e₂ o d := by
  refine ⟨norm ρ₁.ast, norm ρ₂.ast, accepts_top_norm ρ₁ h₁, accepts_top_norm ρ₂ h₂, ?_⟩
  intro re o d
  exact evaluate_ignores_selector_type re _ _ (by rw [eraseTy_norm, eraseTy_norm, hsame]) o d

/-- respelling the selector of a match expression as a JSON pointer changes the type only -/
theorem respell_match (σ : SelSp) (o : OpSp) (v : ValSp) (p : PostSp) (i : InSp) :
    eraseTy (MatchSp.opValue (.bexpr σ) o v).ast = eraseTy (MatchSp.opValue (.ptr σ.path) o v).ast ∧
    eraseTy (MatchSp.post (.bexpr σ) p).ast = eraseTy (MatchSp.post (.ptr σ.path) p).ast ∧
    eraseTy (MatchSp.inSel v i (.bexpr σ)).ast = eraseTy (MatchSp.inSel v i (.ptr σ.path)).ast :=
  ⟨rfl, rfl, rfl⟩

/-! ## 4. Non-vacuity: `a.b.0`, `a["b"][`0`]`, `"/a/b/0"` -/

namespace Example

def dotted : SelSp := ⟨97, [], [.dotIdent 98 [], .dotDigits 48 []]⟩
def bracketed : SelSp := ⟨97, [], [.index [] 0x22 [98] [] [98], .index [32] 0x60 [48] [32] [48]]⟩
def path : List GoString := [[97], [98], [48]]

def asc (s : String) : GoString := s.toList.map GoString.byteOfChar

theorem texts : dotted.text = asc "a.b.0" ∧ bracketed.text = asc "a[\"b\"][ `0` ]" ∧
    pointerText path = asc "\"/a/b/0\"" := by decide +kernel

theorem paths : dotted.path = path ∧ bracketed.path = path := ⟨rfl, rfl⟩

theorem dotted_WF : dotted.WF := by
  refine ⟨by decide, by decide, ?_⟩
  intro p hp
  simp only [dotted, List.mem_cons, List.not_mem_nil, or_false] at hp
  rcases hp with rfl | rfl
  · exact ⟨by decide, by decide⟩
  · exact (by decide : AllIn isDigit [48])

theorem bracketed_WF : bracketed.WF := by
  refine ⟨by decide, by decide, ?_⟩
  intro p hp
  simp only [bracketed, List.mem_cons, List.not_mem_nil, or_false] at hp
  rcases hp with rfl | rfl
  · exact ⟨by decide, by decide, .inr rfl, by decide, by decide, by decide⟩
  · exact ⟨by decide, by decide, .inl rfl, by decide, by decide, by decide⟩

theorem pointer_WF : (SelX.ptr path).WF := by
  refine ⟨by decide, ?_⟩
  intro p hp
  simp only [path, List.mem_cons, List.not_mem_nil, or_false] at hp
  rcases hp with rfl | rfl | rfl <;>
    (rw [C16Lex.ptrEscape_eq_flatMap]; exact SegOK.of_ascii (by decide) (by decide) (by decide))

/-- non-ASCII path elements: `ключ["名前"]`-style index literals and `"/ключ/名前"` -/
def keyK : GoString := [0xD0, 0xBA, 0xD0, 0xBB, 0xD1, 0x8E, 0xD1, 0x87]  -- ключ
def keyN : GoString := [0xE5, 0x90, 0x8D, 0xE5, 0x89, 0x8D]              -- 名前
def bracketedU : SelSp := ⟨97, [], [.index [] 0x22 keyK [] keyK, .index [] 0x60 keyN [] keyN]⟩

theorem bracketedU_WF : bracketedU.WF := by
  refine ⟨by decide, by decide, ?_⟩
  intro p hp
  simp only [bracketedU, List.mem_cons, List.not_mem_nil, or_false] at hp
  rcases hp with rfl | rfl
  · exact ⟨by decide, by decide, .inr rfl, by decide +kernel, by decide, by decide +kernel⟩
  · exact ⟨by decide, by decide, .inl rfl, by decide +kernel, by decide, by decide +kernel⟩

theorem pointerU_WF : (SelX.ptr [[97], keyK, keyN]).WF := by
  refine ⟨by decide, ?_⟩
  intro p hp
  simp only [List.mem_cons, List.not_mem_nil, or_false] at hp
  rcases hp with rfl | rfl | rfl <;> (rw [C16Lex.ptrEscape_eq_flatMap]; decide +kernel)

/-- `a["ключ"][`名前`]` and `"/a/ключ/名前"` denote the same path -/
theorem unicode_same_path :
    (SelX.bexpr bracketedU).sel.path = (SelX.ptr [[97], keyK, keyN]).sel.path := rfl

/-- the escapes: `"/a~1b/c~0d"` is the path `[a/b, c~d]` -/
theorem escapes : pointerText [asc "a/b", asc "c~d"] = asc "\"/a~1b/c~0d\"" := by
  simp only [pointerText, List.map, C16Lex.ptrEscape_eq_flatMap]
  decide +kernel

end Example

end Bexpr.Props.C07

#print axioms Bexpr.Props.C07.selector_bexpr_spellings
#print axioms Bexpr.Props.C07.selector_pointer_spelling
#print axioms Bexpr.Props.C07.selector_spellings_same_path
#print axioms Bexpr.Props.C07.selector_spellings_engine
#print axioms Bexpr.Props.C07.evaluate_eraseTy
#print axioms Bexpr.Props.C07.evaluate_ignores_selector_type
#print axioms Bexpr.Props.C07.eraseTy_norm
#print axioms Bexpr.Props.C07.spellings_same_outcome
#print axioms Bexpr.Props.C07.respell_match
#print axioms Bexpr.Props.C07.Example.texts
#print axioms Bexpr.Props.C07.Example.dotted_WF
#print axioms Bexpr.Props.C07.Example.bracketed_WF
#print axioms Bexpr.Props.C07.Example.pointer_WF
#print axioms Bexpr.Props.C07.Example.bracketedU_WF
#print axioms Bexpr.Props.C07.Example.pointerU_WF
#print axioms Bexpr.Props.C07.Example.unicode_same_path
#print axioms Bexpr.Props.C07.Example.escapes
