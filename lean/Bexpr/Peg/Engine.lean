/-
  Hand model of pigeon's generic PEG engine as it appears at the end of
  `grammar/grammar.go`: `parse`, `parseRule`, `parseExpr` and the `parse*Expr` methods,
  `read`, `restore`, `sliceFrom`, `pushV`/`popV`, `addErr`/`addErrAt`.

  Faithfulness notes (what is and is not represented):
  * the position is the byte offset plus the remaining input (`rest = data[off:]`), the current
    rune and its width, exactly the `savepoint` fields that influence control flow
    (line/col are functions of the offset and only appear in messages);
  * `ExprCnt` is `cnt`; `maxExprCnt` is `max`; exceeding it is the outcome `exceeded`
    (Go: `panic(errMaxExprCnt)` recovered in `parse`);
  * the label stack `vstack`: every push/pop pair of the Go code brackets one recursive call, so
    the top frame is passed down and returned (`Frame`), a fresh empty frame is used where Go
    pushes, and the result frame is discarded where Go pops;
  * the error list is append-only (`errs`, newest first) and is never rolled back;
  * farthest-failure bookkeeping (`maxFailPos`, `maxFailExpected`) is not modelled: it never
    influences control flow, only the text of the final "no match found" message;
  * `throw`/`recovery`/state-code nodes, memoisation, debug and statistics are not modelled
    (the grammar is generated with `-optimize-parser` and uses none of them): an `unsupported`
    node aborts the run with a distinct outcome.
  The engine is generic in the grammar table and in the semantics of actions / code
  predicates (`Env`), so the meta-theorems (budget, typing, refinement) hold for every grammar.
-/
import Bexpr.Bytes
import Bexpr.Utf8
import Bexpr.Ast
import Bexpr.Peg.Syntax

namespace Bexpr.Peg

/-- Values flowing through the engine (Go: `any`). -/
inductive PVal where
  | nil
  | bytes (b : GoString)            -- []byte returned by matchers
  | str (s : GoString)              -- Go string returned by actions
  | list (vs : List PVal)           -- []any of sequences / repetitions
  | expr (e : Expr)                 -- grammar.Expression (non-nil)
  | sel (s : Selector)
  | mop (o : MatchOp)
  | cop (o : CollOp)
  | binding (b : Binding)
  | mval (raw : GoString)           -- *MatchValue
  deriving Repr, Inhabited, BEq

/-- One label frame of `vstack` (newest binding first; lookup takes the first hit,
    which is Go's map overwrite). -/
abbrev Frame := List (String × PVal)

def Frame.get (f : Frame) (l : String) : PVal :=
  match f.find? (·.1 == l) with
  | some (_, v) => v
  | none => .nil

def Frame.set (f : Frame) (l : String) (v : PVal) : Frame := (l, v) :: f

/-- What a semantic action returns: `(value, err)` or a panic (failed type assertion …). -/
inductive ActOut where
  | ret (v : PVal) (err : Option String)
  | panic (msg : String)
  deriving Repr, Inhabited

inductive PredOut where
  | ret (b : Bool) (err : Option String)
  | panic (msg : String)
  deriving Repr, Inhabited

/-- Semantics of the code attached to a grammar: actions, code predicates, Unicode classes. -/
structure Env where
  action : String → Frame → GoString → ActOut
  pred : String → Frame → PredOut
  classIn : String → Nat → Option Bool

/-- `savepoint`: offset, remaining input at that offset, current rune and width. -/
structure Pt where
  rest : GoString
  off : Nat
  rn : Nat
  w : Nat
  deriving Repr, Inhabited, BEq, DecidableEq

inductive ErrKind where
  | action (msg : String)           -- error returned by an action / code predicate
  | invalidEncoding
  | undefinedRule (name : String)
  | maxExpr
  | panic (msg : String)
  | noMatch
  | noRule
  deriving Repr, Inhabited, BEq, DecidableEq

/-- One entry of `errList`: byte offset, rule on top of `rstack` (display name if any), kind. -/
structure PErr where
  off : Nat
  rule : String
  kind : ErrKind
  deriving Repr, Inhabited, BEq, DecidableEq

structure PState where
  pt : Pt
  cnt : Nat
  errs : List PErr        -- newest first
  deriving Repr, Inhabited

def runeError : Nat := 0xFFFD

/-- `(*parser).read`: advance by the width of the current rune, decode the next one, log
    `invalid encoding` for a bad byte (`allowInvalidUTF8` is false: bexpr never sets it). -/
def PState.read (st : PState) (rule : String) : PState :=
  let rest := st.pt.rest.drop st.pt.w
  let off := st.pt.off + st.pt.w
  let (rn, n) := Utf8.decodeRune rest
  let st' := { st with pt := { rest := rest, off := off, rn := rn, w := n } }
  if rn == runeError && n == 1 then
    { st' with errs := { off := off, rule := rule, kind := .invalidEncoding } :: st'.errs }
  else st'

def PState.addErr (st : PState) (off : Nat) (rule : String) (k : ErrKind) : PState :=
  { st with errs := { off := off, rule := rule, kind := k } :: st.errs }

/-- `sliceFrom(start)` = `data[start.offset : p.pt.offset]`. -/
def sliceFrom (start : Pt) (cur : Pt) : GoString := start.rest.take (cur.off - start.off)

def atEOF (pt : Pt) : Bool := pt.rn == runeError && pt.w == 0

/-- Result of one `parseExpr` call. -/
inductive PRes where
  | ok (st : PState) (fr : Frame) (v : PVal) (matched : Bool)
  | exceeded (st : PState)                 -- panic(errMaxExprCnt)
  | abort (st : PState) (msg : String)     -- any other panic (failed assertion, unknown node)
  | fuelOut                                -- model artefact; unreachable with fuel ≥ max + 2
  deriving Repr, Inhabited

def lookupRule (g : Grammar) (name : String) : Option Rule :=
  g.foldl (fun acc r => if r.name == name then some r else acc) none

def Rule.shown (r : Rule) : String := if r.displayName != "" then r.displayName else r.name

/-- `parseSeqExpr` loop (after the caller recorded the start point). -/
def seqLoop (f : PExpr → Frame → PState → PRes) :
    List PExpr → Frame → PState → List PVal → PRes
  | [], fr, st, acc => .ok st fr (.list acc.reverse) true
  | e :: es, fr, st, acc =>
    match f e fr st with
    | .ok st' fr' v true => seqLoop f es fr' st' (v :: acc)
    | .ok st' fr' _ false => .ok st' fr' .nil false
    | r => r

/-- `parseChoiceExpr` loop: each alternative runs in a fresh frame that is dropped. -/
def choiceLoop (f : PExpr → Frame → PState → PRes) : List PExpr → Frame → PState → PRes
  | [], fr, st => .ok st fr .nil false
  | a :: as, fr, st =>
    match f a [] st with
    | .ok st' _ v true => .ok st' fr v true
    | .ok st' _ _ false => choiceLoop f as fr st'
    | r => r

/-- `parseZeroOrMoreExpr` / the tail of `parseOneOrMoreExpr`; `k` bounds the iterations
    (each iteration ticks `cnt`, so the budget bounds them in the real engine). -/
def starLoop (f : Frame → PState → PRes) : Nat → Frame → PState → List PVal → PRes
  | 0, _, _, _ => .fuelOut
  | k + 1, fr, st, acc =>
    match f [] st with
    | .ok st' _ v true => starLoop f k fr st' (v :: acc)
    | .ok st' _ _ false => .ok st' fr (.list acc.reverse) true
    | r => r

/-- `parseLitMatcher` inner loop: compare rune by rune, reading on. -/
def litLoop (rule : String) : List Nat → PState → PState × Bool
  | [], st => (st, true)
  | want :: ws, st => if st.pt.rn != want then (st, false) else litLoop rule ws (st.read rule)

def classMatches (env : Env) (chars ranges : List Nat) (classes : List String) (cur : Nat) :
    Option Bool :=
  if chars.contains cur then some true else
  let rec inRanges : List Nat → Bool
    | lo :: hi :: rs => (lo ≤ cur && cur ≤ hi) || inRanges rs
    | _ => false
  if inRanges ranges then some true else
  let rec inClasses : List String → Option Bool
    | [] => some false
    | c :: cs => match env.classIn c cur with
      | none => none
      | some true => some true
      | some false => inClasses cs
  inClasses classes

/-- `parseExpr`: tick the counter, check the budget, dispatch on the node type. -/
def eval (env : Env) (g : Grammar) (max : Nat) :
    Nat → String → PExpr → Frame → PState → PRes
  | 0, _, _, _, _ => .fuelOut
  | fuel + 1, rule, e, fr, st0 =>
    let st := { st0 with cnt := st0.cnt + 1 }
    if st.cnt > max then .exceeded st else
    match e with
    | .action name inner =>
      let start := st.pt
      match eval env g max fuel rule inner fr st with
      | .ok st' fr' _ true =>
        match env.action name fr' (sliceFrom start st'.pt) with
        | .ret av none => .ok st' fr' av true
        | .ret av (some msg) => .ok (st'.addErr start.off rule (.action msg)) fr' av true
        | .panic msg => .abort st' msg
      | .ok st' fr' v false => .ok st' fr' v false
      | r => r
    | .andCode name =>
      match env.pred name fr with
      | .ret b none => .ok st fr .nil b
      | .ret b (some msg) => .ok (st.addErr st.pt.off rule (.action msg)) fr .nil b
      | .panic msg => .abort st msg
    | .notCode name =>
      match env.pred name fr with
      | .ret b none => .ok st fr .nil (!b)
      | .ret b (some msg) => .ok (st.addErr st.pt.off rule (.action msg)) fr .nil (!b)
      | .panic msg => .abort st msg
    | .andP inner =>
      let pt := st.pt
      match eval env g max fuel rule inner [] st with
      | .ok st' _ _ m => .ok { st' with pt := pt } fr .nil m
      | r => r
    | .notP inner =>
      let pt := st.pt
      match eval env g max fuel rule inner [] st with
      | .ok st' _ _ m => .ok { st' with pt := pt } fr .nil (!m)
      | r => r
    | .any =>
      if atEOF st.pt then .ok st fr .nil false
      else
        let st' := st.read rule
        .ok st' fr (.bytes (sliceFrom st.pt st'.pt)) true
    | .charClass chars ranges classes ignoreCase inverted =>
      if ignoreCase then .abort st "unsupported: ignoreCase class" else
      if atEOF st.pt then .ok st fr .nil false
      else
        match classMatches env chars ranges classes st.pt.rn with
        | none => .abort st "unsupported: unicode class"
        | some hit =>
          if hit != inverted then
            let st' := st.read rule
            .ok st' fr (.bytes (sliceFrom st.pt st'.pt)) true
          else .ok st fr .nil false
    | .choice alts => choiceLoop (eval env g max fuel rule) alts fr st
    | .labeled label inner =>
      match eval env g max fuel rule inner [] st with
      | .ok st' _ v true => .ok st' (if label != "" then fr.set label v else fr) v true
      | .ok st' _ v false => .ok st' fr v false
      | r => r
    | .lit val ignoreCase =>
      if ignoreCase then .abort st "unsupported: ignoreCase literal" else
      -- a failed literal restores the position; errors logged by `read` on the way stay
      match litLoop rule val st with
      | (st', true) => .ok st' fr (.bytes (sliceFrom st.pt st'.pt)) true
      | (st', false) => .ok { st' with pt := st.pt } fr .nil false
    | .oneOrMore inner =>
      match eval env g max fuel rule inner [] st with
      | .ok st' _ v true => starLoop (eval env g max fuel rule inner) fuel fr st' [v]
      | .ok st' _ _ false => .ok st' fr .nil false
      | r => r
    | .ruleRef name =>
      if name == "" then .abort st "invalid rule: missing name" else
      match lookupRule g name with
      | none => .ok (st.addErr st.pt.off rule (.undefinedRule name)) fr .nil false
      | some r =>
        match eval env g max fuel r.shown r.expr [] st with
        | .ok st' _ v m => .ok st' fr v m
        | res => res
    | .seq es =>
      let pt := st.pt
      match seqLoop (eval env g max fuel rule) es fr st [] with
      | .ok st' fr' _ false => .ok { st' with pt := pt } fr' .nil false
      | r => r
    | .zeroOrMore inner => starLoop (eval env g max fuel rule inner) fuel fr st []
    | .zeroOrOne inner =>
      match eval env g max fuel rule inner [] st with
      | .ok st' _ v true => .ok st' fr v true
      | .ok st' _ _ false => .ok st' fr .nil true
      | r => r
    | .unsupported what => .abort st ("unsupported node: " ++ what)

/-- Outcome of `(*parser).parse`: the value (nil on failure or panic), the final error list
    (oldest first) and the step counter. -/
structure ParseOut where
  val : PVal
  errs : List PErr
  cnt : Nat
  deriving Repr, Inhabited

/-- `newParser`: a budget of 0 means `math.MaxUint64`. -/
def effectiveMax (maxExprCnt : Nat) : Nat := if maxExprCnt == 0 then 2 ^ 64 - 1 else maxExprCnt

/-- `Parse(filename, b, opts…)` = `newParser(…).parse(g)` with entry point `g.rules[0].name`. -/
def run (env : Env) (g : Grammar) (maxExprCnt : Nat) (input : GoString) : ParseOut :=
  let max := effectiveMax maxExprCnt
  let st0 : PState := { pt := { rest := input, off := 0, rn := 0, w := 0 }, cnt := 0, errs := [] }
  match g with
  | [] => { val := .nil, errs := [{ off := 0, rule := "", kind := .noRule }], cnt := 0 }
  | r0 :: _ =>
    match lookupRule g r0.name with
    | none => { val := .nil, errs := [], cnt := 0 }   -- unreachable: r0 ∈ g
    | some start =>
      let st1 := st0.read ""
      match eval env g max (max + 2) start.shown start.expr [] st1 with
      | .ok st _ v true => { val := v, errs := st.errs.reverse, cnt := st.cnt }
      | .ok st _ _ false =>
        if st.errs.isEmpty then
          { val := .nil, errs := [{ off := 0, rule := "", kind := .noMatch }], cnt := st.cnt }
        else { val := .nil, errs := st.errs.reverse, cnt := st.cnt }
      | .exceeded st =>
        { val := .nil
          errs := (st.addErr st.pt.off "" .maxExpr).errs.reverse, cnt := st.cnt }
      | .abort st msg =>
        { val := .nil
          errs := (st.addErr st.pt.off "" (.panic msg)).errs.reverse, cnt := st.cnt }
      | .fuelOut => { val := .nil, errs := [{ off := 0, rule := "", kind := .panic "fuel" }], cnt := 0 }

/-- `err == nil` of `Parse`. -/
def ParseOut.accepted (o : ParseOut) : Bool := o.errs.isEmpty

end Bexpr.Peg
