/-
  A decidable type checker for PEG grammars with semantic actions (`Bexpr.Peg.Engine`).

  * `PTy` are static types of the values (`PVal`) flowing through the engine;
    `hasTy v t` is the (decidable) meaning of a type.
  * `typeOfExpr` computes, for an expression under a rule-type environment `Γ`, a table of
    action semantics and an incoming label-type environment, the result type and the outgoing
    label-type environment.  It mirrors the label scoping of the engine: `labeled` adds to the
    current frame, `seq` and `action` thread it, everything else starts from the empty frame
    and drops it.
  * `minWidth` is a lower bound on the number of bytes consumed by a successful match; the
    action `string(c.text)[1:]` (`textTail`) is only accepted over an expression of minimum
    width ≥ 1.
  * `typecheck g sems Γ` checks every rule body against its declaration in `Γ`.

  Soundness (`Proofs/TypingSound.lean`): a grammar that type-checks never makes the engine
  abort (no failed type assertion, no slice-bounds panic, no unsupported node) and matched
  values have their static type.

  Core-only: this file is linked into the driver executable.
-/
import Bexpr.Peg.ActionTable

namespace Bexpr.Peg

/-- Static types of `PVal`s. -/
inductive PTy where
  /-- exactly `PVal.nil` -/
  | nil
  | bytes
  | str
  | list (t : PTy)
  /-- a `grammar.Expression` satisfying `Expr.parserShaped` -/
  | expr
  | sel
  /-- a `MatchOperator` that takes a value -/
  | mopV
  /-- a `MatchOperator` that takes no value -/
  | mopN
  | cop
  | binding
  | mval
  /-- `nil` or `t` (result of `?`; also what a label holds that may be unset) -/
  | opt (t : PTy)
  /-- top -/
  | any
  /-- bottom: the type of expressions that never match (`&{ return false, err }`) -/
  | never
  deriving DecidableEq, Repr, Inhabited

/-- The meaning of a type. -/
def hasTy (v : PVal) : PTy → Bool
  | .nil => match v with | .nil => true | _ => false
  | .bytes => match v with | .bytes _ => true | _ => false
  | .str => match v with | .str _ => true | _ => false
  | .list t => match v with | .list vs => vs.all (fun x => hasTy x t) | _ => false
  | .expr => match v with | .expr e => e.parserShaped | _ => false
  | .sel => match v with | .sel _ => true | _ => false
  | .mopV => match v with | .mop o => o.takesValue | _ => false
  | .mopN => match v with | .mop o => !o.takesValue | _ => false
  | .cop => match v with | .cop _ => true | _ => false
  | .binding => match v with | .binding _ => true | _ => false
  | .mval => match v with | .mval _ => true | _ => false
  | .opt t => (match v with | .nil => true | _ => false) || hasTy v t
  | .any => true
  | .never => false

/-- Subtyping (`sub s t`: every value of type `s` has type `t`). -/
def sub : PTy → PTy → Bool
  | _, .any => true
  | s, .opt t =>
    (s == .nil) || (s == .never) || sub s t || (match s with | .opt s' => sub s' t | _ => false)
  | s, .list t => (s == .never) || (match s with | .list s' => sub s' t | _ => false)
  | s, t => (s == .never) || (s == t)

/-- Upper bound of two types (for the alternatives of a choice). -/
def join (s t : PTy) : PTy := if sub s t then t else if sub t s then s else .any

/-- Label-type environments: the static counterpart of a `Frame`. -/
abbrev LEnv := List (String × PTy)

/-- The type of a label; a label that is not bound reads as `nil` (like `Frame.get`). -/
def LEnv.get (Δ : LEnv) (l : String) : PTy :=
  match Δ.find? (·.1 == l) with
  | some (_, t) => t
  | none => .nil

def lookupΓ (Γ : List (String × PTy)) (name : String) : Option PTy :=
  match Γ.find? (·.1 == name) with
  | some (_, t) => some t
  | none => none

/-- What the checker needs to know about the grammar as a whole. -/
structure TCtx where
  sems : List (String × ActionSem)
  Γ : List (String × PTy)
  /-- the names of the defined rules -/
  rules : List String

/-- a Unicode class name the engine's `classIn` knows -/
def knownClass (c : String) : Bool := (Unicode.inClass c 0).isSome

mutual
/-- Lower bound on the bytes consumed by a successful match. -/
def minWidth : PExpr → Nat
  | .choice alts => minWidthAlts alts
  | .seq es => minWidthSeq es
  | .action _ e => minWidth e
  | .labeled _ e => minWidth e
  | .ruleRef _ => 0
  | .lit val ic => if !ic && val.all (· < 128) then val.length else 0
  | .charClass _ _ _ _ _ => 1
  | .any => 1
  | .andP _ => 0
  | .notP _ => 0
  | .andCode _ => 0
  | .notCode _ => 0
  | .zeroOrOne _ => 0
  | .zeroOrMore _ => 0
  | .oneOrMore e => minWidth e
  | .unsupported _ => 0
/-- minimum over the alternatives (0 for the empty choice, which never matches anyway) -/
def minWidthAlts : List PExpr → Nat
  | [] => 0
  | a :: as => match as with
    | [] => minWidth a
    | _ :: _ => Nat.min (minWidth a) (minWidthAlts as)
def minWidthSeq : List PExpr → Nat
  | [] => 0
  | e :: es => minWidth e + minWidthSeq es
end

/-- `sub (Δ.get l) t` -/
def labelIs (Δ : LEnv) (l : String) (t : PTy) : Bool := sub (Δ.get l) t

def optLabelIs (Δ : LEnv) (l : Option String) (t : PTy) : Bool :=
  match l with
  | none => true
  | some l => labelIs Δ l t

/-- Typing of semantic actions: the label types an `ActionSem` requires (every Go type
    assertion it performs) and the type of its result; `w` is the minimum width of the
    expression the action is attached to. -/
def actionTy (sem : ActionSem) (Δ : LEnv) (w : Nat) : Option PTy :=
  match sem with
  | .retLabel l => some (Δ.get l)
  | .constMatchOp o => some (if o.takesValue then .mopV else .mopN)
  | .constCollOp _ => some .cop
  | .mkBinary _ l r => if labelIs Δ l .expr && labelIs Δ r .expr then some .expr else none
  | .notFold l => if labelIs Δ l .expr then some .expr else none
  | .mkColl op sel binding inner =>
    if labelIs Δ op .cop && labelIs Δ sel .sel && labelIs Δ binding .binding
        && labelIs Δ inner .expr then some .expr else none
  | .mkBinding _ d i v =>
    if optLabelIs Δ d .str && optLabelIs Δ i .str && optLabelIs Δ v .str then some .binding
    else none
  | .mkMatch sel op (some v) =>
    if labelIs Δ sel .sel && labelIs Δ op .mopV && labelIs Δ v .mval then some .expr else none
  | .mkMatch sel op none =>
    if labelIs Δ sel .sel && labelIs Δ op .mopN then some .expr else none
  | .selectorBexpr first rest =>
    if labelIs Δ first .str && labelIs Δ rest (.opt (.list .str)) then some .sel else none
  | .selectorPtr segs => if labelIs Δ segs (.opt (.list .str)) then some .sel else none
  | .textTail => if 1 ≤ w then some .str else none
  | .textAll => some .str
  | .valueFromSelector l => if labelIs Δ l .sel then some .mval else none
  | .valueFromStr l => if labelIs Δ l .str then some .mval else none
  | .unquoteText => some .str
  | .predErr _ => none
  | .unknown => none

/-- the code of a code predicate (`&{…}` / `!{…}`) must be `return false, errors.New(msg)` -/
def isPredSem : ActionSem → Bool
  | .predErr _ => true
  | _ => false

mutual
/-- Result type and outgoing label environment of an expression. -/
def typeOfExpr (C : TCtx) : PExpr → LEnv → Option (PTy × LEnv)
  | .choice alts, Δ =>
    match typeOfAlts C alts with
    | some t => some (t, Δ)
    | none => none
  | .seq es, Δ => typeOfSeq C es Δ
  | .action name e, Δ =>
    match typeOfExpr C e Δ with
    | some (_, Δ') =>
      match actionTy (lookupSem C.sems name) Δ' (minWidth e) with
      | some t => some (t, Δ')
      | none => none
    | none => none
  | .labeled l e, Δ =>
    match typeOfExpr C e [] with
    | some (t, _) => some (t, if l != "" then (l, t) :: Δ else Δ)
    | none => none
  | .ruleRef name, Δ =>
    if name == "" then none
    else if !C.rules.contains name then none
    else match lookupΓ C.Γ name with
      | some t => some (t, Δ)
      | none => none
  | .lit _ ic, Δ => if ic then none else some (.bytes, Δ)
  | .charClass _ _ classes ic _, Δ =>
    if ic then none else if classes.all knownClass then some (.bytes, Δ) else none
  | .any, Δ => some (.bytes, Δ)
  | .andP e, Δ =>
    match typeOfExpr C e [] with
    | some _ => some (.nil, Δ)
    | none => none
  | .notP e, Δ =>
    match typeOfExpr C e [] with
    | some _ => some (.nil, Δ)
    | none => none
  | .andCode name, Δ => if isPredSem (lookupSem C.sems name) then some (.never, Δ) else none
  | .notCode name, Δ => if isPredSem (lookupSem C.sems name) then some (.nil, Δ) else none
  | .zeroOrOne e, Δ =>
    match typeOfExpr C e [] with
    | some (t, _) => some (.opt t, Δ)
    | none => none
  | .zeroOrMore e, Δ =>
    match typeOfExpr C e [] with
    | some (t, _) => some (.list t, Δ)
    | none => none
  | .oneOrMore e, Δ =>
    match typeOfExpr C e [] with
    | some (t, _) => some (.list t, Δ)
    | none => none
  | .unsupported _, _ => none
/-- join of the alternatives' types, each alternative starting from the empty frame -/
def typeOfAlts (C : TCtx) : List PExpr → Option PTy
  | [] => some .never
  | a :: as =>
    match typeOfExpr C a [] with
    | some (t, _) =>
      match typeOfAlts C as with
      | some ts => some (join t ts)
      | none => none
    | none => none
/-- a sequence threads the label environment; its value is a `[]any`, and it never matches
    if one of its elements never matches -/
def typeOfSeq (C : TCtx) : List PExpr → LEnv → Option (PTy × LEnv)
  | [], Δ => some (.list .any, Δ)
  | e :: es, Δ =>
    match typeOfExpr C e Δ with
    | some (t, Δ') =>
      match typeOfSeq C es Δ' with
      | some (ts, Δ'') => some (if t == .never then .never else ts, Δ'')
      | none => none
    | none => none
end

def checkRule (C : TCtx) (r : Rule) : Bool :=
  match typeOfExpr C r.expr [] with
  | some (t, _) =>
    match lookupΓ C.Γ r.name with
    | some tΓ => sub t tΓ
    | none => false
  | none => false

def noDup : List String → Bool
  | [] => true
  | x :: xs => !xs.contains x && noDup xs

def ctxOf (g : Grammar) (sems : List (String × ActionSem)) (Γ : List (String × PTy)) : TCtx :=
  { sems := sems, Γ := Γ, rules := g.map (·.name) }

/-- Every rule body has its declared type, rule names are unique, and the start rule (the first
    one) produces an expression. -/
def typecheck (g : Grammar) (sems : List (String × ActionSem)) (Γ : List (String × PTy)) : Bool :=
  g.all (checkRule (ctxOf g sems Γ)) && noDup (g.map (·.name)) &&
  (match g with
   | [] => false
   | r0 :: _ => decide (lookupΓ Γ r0.name = some .expr))

/-- The declaration for the bexpr grammar (`grammar/grammar.peg`). -/
def bexprΓ : List (String × PTy) := [
  ("Input", .expr),
  ("OrExpression", .expr),
  ("AndExpression", .expr),
  ("NotExpression", .expr),
  ("CollectionExpression", .expr),
  ("CollectionIdentifiers", .binding),
  ("CollectionOpAny", .cop),
  ("CollectionOpAll", .cop),
  ("ParenthesizedExpression", .expr),
  ("MatchExpression", .expr),
  ("MatchSelectorOpValue", .expr),
  ("MatchSelectorOp", .expr),
  ("MatchValueOpSelector", .expr),
  ("MatchEqual", .mopV),
  ("MatchNotEqual", .mopV),
  ("MatchIsEmpty", .mopN),
  ("MatchIsNotEmpty", .mopN),
  ("MatchIn", .mopV),
  ("MatchNotIn", .mopV),
  ("MatchContains", .mopV),
  ("MatchNotContains", .mopV),
  ("MatchMatches", .mopV),
  ("MatchNotMatches", .mopV),
  ("Selector", .sel),
  ("JsonPointerSegment", .str),
  ("Identifier", .str),
  ("SelectorOrIndex", .str),
  ("IndexExpression", .str),
  ("Value", .mval),
  ("NumberLiteral", .str),
  ("AfterNumbers", .nil),
  ("IntegerOrFloat", .list .any),
  ("StringLiteral", .str),
  ("RawStringChar", .list .any),
  ("DoubleStringChar", .list .any),
  ("_", .list .bytes),
  ("EOF", .nil)
]

end Bexpr.Peg
