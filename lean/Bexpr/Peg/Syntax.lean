/-
  PEG syntax: a one-to-one mirror of the node types of pigeon's generated
  grammar table (`grammar/grammar.go`, `var g`) and of the `.peg` source.

  Both translators (T1: grammar.go composite literal, T2: grammar.peg) emit
  values of `Grammar`; C20 compares the two by `rfl`, the engine interprets them.
  Positions (`pos:`) are deliberately not represented.
-/
namespace Bexpr.Peg

/-- Expression nodes.  `name` of `action`/`andCode`/`notCode` is the name of the
    generated Go function without the `call` prefix, e.g. `"onInput2"`. -/
inductive PExpr where
  | choice (alts : List PExpr)
  | seq (es : List PExpr)
  | action (name : String) (e : PExpr)
  | labeled (label : String) (e : PExpr)
  | ruleRef (name : String)
  /-- literal: the runes of `val` (code points), and `ignoreCase` -/
  | lit (val : List Nat) (ignoreCase : Bool)
  /-- character class: `chars`, `ranges` (flat list lo,hi,lo,hi… exactly as in grammar.go),
      Unicode class names (e.g. "L", "N"), flags -/
  | charClass (chars : List Nat) (ranges : List Nat) (classes : List String)
      (ignoreCase : Bool) (inverted : Bool)
  | any
  | andP (e : PExpr)
  | notP (e : PExpr)
  | andCode (name : String)
  | notCode (name : String)
  | zeroOrOne (e : PExpr)
  | zeroOrMore (e : PExpr)
  | oneOrMore (e : PExpr)
  /-- anything the translator does not recognise (throw/recovery/state code …) -/
  | unsupported (what : String)
  deriving Repr, BEq, Inhabited

structure Rule where
  name : String
  displayName : String
  expr : PExpr
  deriving Repr, BEq, Inhabited

abbrev Grammar := List Rule

/-- One semantic action / code predicate: the labels it receives (in order, as passed by
    the `callon*` wrapper resp. computed by pigeon's label scoping from the `.peg`), and its
    code as a list of Go tokens (go/scanner literal text, comments and automatic semicolons
    dropped). -/
structure ActionCode where
  name : String
  params : List String
  body : List String
  deriving Repr, BEq, Inhabited, DecidableEq

end Bexpr.Peg
