/-
  The PEG engine of `Engine.lean` INSTRUMENTED with pigeon's farthest-failure bookkeeping
  (`maxFailPos`, `maxFailExpected`, `maxFailInvertExpected`, `(*parser).failAt`) — the state that
  never influences control flow and only feeds the text of the final "no match found, expected: …"
  message.  `Engine.lean` is left untouched; `evalT` is `eval` with a `Track` threaded through and
  `failAt` called exactly where the Go code calls it:

    parseAnyMatcher        EOF: failAt(false, p.pt.position, ".")      else read; failAt(true, start, ".")
    parseCharClassMatcher  every return path: failAt(false, start, chr.val) on a miss (EOF, inverted
                           hit, no hit) and read; failAt(true, start, chr.val) on a match
    parseLitMatcher        failAt(false, start, lit.want) on the first differing rune (start = the
                           position where the literal began, not where it differs);
                           failAt(true, start, lit.want) after the last rune
    parseNotExpr           maxFailInvertExpected is flipped before and after the sub-expression
    parseAndExpr           nothing (no failAt, no flip)

  `Proofs/EngineT.lean` proves that the first component of `evalT` IS `eval` (`evalT_erase`).

  Also recorded (because the text of the recovered `panic(errMaxExprCnt)` entry needs it): the
  rule on top of `p.rstack` at the moment a panic leaves `parseExpr` — the deferred `recover` in
  `parse` calls `addErr` while the rule stack is still as the panic left it.  `Engine.run` reports
  that entry with rule `""`; `runT` reports the real one.
-/
import Bexpr.Peg.Engine

namespace Bexpr.Peg

/-- Texts the instrumented engine needs: the `want` / `val` string of a matcher node
    (`lit.want`, `chr.val`, `"."` for the any matcher; regenerated into `BexprGen/FailNames`),
    and the prefix `failAt` puts in front of it under an odd number of `!` predicates. -/
structure Names where
  want : PExpr → GoString
  bang : GoString

/-- Farthest-failure state of `parser`. -/
structure Track where
  /-- `maxFailPos.offset` (line/col are a function of it, see `posAt` / `farPos`) -/
  off : Nat
  /-- `maxFailExpected`, NEWEST FIRST (Go appends; `expected` gives the append order) -/
  expRev : List GoString
  /-- `maxFailInvertExpected` -/
  invert : Bool
  /-- rule on top of `rstack` when a panic (budget, failed assertion, unknown node) left
      `parseExpr`; `""` = no panic / empty stack -/
  panicRule : String
  deriving Repr, Inhabited, BEq, DecidableEq

/-- `newParser`: `maxFailPos: position{col: 1, line: 1}` (offset 0), empty list, flag off. -/
def Track.init : Track := { off := 0, expRev := [], invert := false, panicRule := "" }

/-- `maxFailExpected` in append order. -/
def Track.expected (tr : Track) : List GoString := tr.expRev.reverse

/--
```go
func (p *parser) failAt(fail bool, pos position, want string) {
	if fail == p.maxFailInvertExpected {
		if pos.offset < p.maxFailPos.offset { return }
		if pos.offset > p.maxFailPos.offset { p.maxFailPos = pos; p.maxFailExpected = p.maxFailExpected[:0] }
		if p.maxFailInvertExpected { want = "!" + want }
		p.maxFailExpected = append(p.maxFailExpected, want)
	}
}
```
-/
def Track.failAt (tr : Track) (bang : GoString) (fail : Bool) (off : Nat) (want : GoString) :
    Track :=
  if fail == tr.invert then
    if off < tr.off then tr
    else
      let want' := if tr.invert then bang ++ want else want
      if off > tr.off then { tr with off := off, expRev := [want'] }
      else { tr with expRev := want' :: tr.expRev }
  else tr

/-- `failAt` with the `want` string computed only in the branch that records it (looking a node
    up in the regenerated table is the expensive part of a tracked run); equal to `failAt` on the
    computed string (`Proofs.EngineT.failAtBy_eq`). -/
@[inline] def Track.failAtBy (tr : Track) (bang : GoString) (fail : Bool) (off : Nat)
    (want : Unit → GoString) : Track :=
  if fail == tr.invert && !(decide (off < tr.off)) then tr.failAt bang fail off (want ()) else tr

/-- `p.maxFailInvertExpected = !p.maxFailInvertExpected` -/
def Track.flip (tr : Track) : Track := { tr with invert := !tr.invert }

/-- a panic leaves `parseExpr` while `rule` is on top of `rstack` -/
def Track.panicIn (tr : Track) (rule : String) : Track := { tr with panicRule := rule }

abbrev PResT := PRes × Track

/-- `seqLoop` with the track threaded. -/
def seqLoopT (f : PExpr → Frame → PState → Track → PResT) :
    List PExpr → Frame → PState → List PVal → Track → PResT
  | [], fr, st, acc, tr => (.ok st fr (.list acc.reverse) true, tr)
  | e :: es, fr, st, acc, tr =>
    let p := f e fr st tr
    match p.1 with
    | .ok st' fr' v true => seqLoopT f es fr' st' (v :: acc) p.2
    | .ok st' fr' _ false => (.ok st' fr' .nil false, p.2)
    | r => (r, p.2)

/-- `choiceLoop` with the track threaded. -/
def choiceLoopT (f : PExpr → Frame → PState → Track → PResT) :
    List PExpr → Frame → PState → Track → PResT
  | [], fr, st, tr => (.ok st fr .nil false, tr)
  | a :: as, fr, st, tr =>
    let p := f a [] st tr
    match p.1 with
    | .ok st' _ v true => (.ok st' fr v true, p.2)
    | .ok st' _ _ false => choiceLoopT f as fr st' p.2
    | r => (r, p.2)

/-- `starLoop` with the track threaded. -/
def starLoopT (f : Frame → PState → Track → PResT) :
    Nat → Frame → PState → List PVal → Track → PResT
  | 0, _, _, _, tr => (.fuelOut, tr)
  | k + 1, fr, st, acc, tr =>
    let p := f [] st tr
    match p.1 with
    | .ok st' _ v true => starLoopT f k fr st' (v :: acc) p.2
    | .ok st' _ _ false => (.ok st' fr (.list acc.reverse) true, p.2)
    | r => (r, p.2)

/-- The dispatch part of `parseExpr` (after the tick and the budget check) with the track;
    `ev` evaluates sub-expressions, `k` bounds the repetition loops.  Erasing the track gives
    `Proofs.Budget.body`, i.e. the dispatch of `Engine.eval`. -/
def bodyT (nm : Names) (env : Env) (g : Grammar)
    (ev : String → PExpr → Frame → PState → Track → PResT) (k : Nat)
    (rule : String) (e : PExpr) (fr : Frame) (st : PState) (tr : Track) : PResT :=
  match e with
  | .action name inner =>
    let start := st.pt
    let p := ev rule inner fr st tr
    match p.1 with
    | .ok st' fr' _ true =>
      match env.action name fr' (sliceFrom start st'.pt) with
      | .ret av none => (.ok st' fr' av true, p.2)
      | .ret av (some msg) => (.ok (st'.addErr start.off rule (.action msg)) fr' av true, p.2)
      | .panic msg => (.abort st' msg, p.2.panicIn rule)
    | .ok st' fr' v false => (.ok st' fr' v false, p.2)
    | r => (r, p.2)
  | .andCode name =>
    match env.pred name fr with
    | .ret b none => (.ok st fr .nil b, tr)
    | .ret b (some msg) => (.ok (st.addErr st.pt.off rule (.action msg)) fr .nil b, tr)
    | .panic msg => (.abort st msg, tr.panicIn rule)
  | .notCode name =>
    match env.pred name fr with
    | .ret b none => (.ok st fr .nil (!b), tr)
    | .ret b (some msg) => (.ok (st.addErr st.pt.off rule (.action msg)) fr .nil (!b), tr)
    | .panic msg => (.abort st msg, tr.panicIn rule)
  | .andP inner =>
    let pt := st.pt
    let p := ev rule inner [] st tr
    match p.1 with
    | .ok st' _ _ m => (.ok { st' with pt := pt } fr .nil m, p.2)
    | r => (r, p.2)
  | .notP inner =>
    let pt := st.pt
    let p := ev rule inner [] st tr.flip
    match p.1 with
    | .ok st' _ _ m => (.ok { st' with pt := pt } fr .nil (!m), p.2.flip)
    | r => (r, p.2)
  | .any =>
    if atEOF st.pt then
      (.ok st fr .nil false, tr.failAtBy nm.bang false st.pt.off (fun _ => nm.want e))
    else
      let st' := st.read rule
      (.ok st' fr (.bytes (sliceFrom st.pt st'.pt)) true,
        tr.failAtBy nm.bang true st.pt.off (fun _ => nm.want e))
  | .charClass chars ranges classes ignoreCase inverted =>
    if ignoreCase then (.abort st "unsupported: ignoreCase class", tr.panicIn rule) else
    if atEOF st.pt then
      (.ok st fr .nil false, tr.failAtBy nm.bang false st.pt.off (fun _ => nm.want e))
    else
      match classMatches env chars ranges classes st.pt.rn with
      | none => (.abort st "unsupported: unicode class", tr.panicIn rule)
      | some hit =>
        if hit != inverted then
          let st' := st.read rule
          (.ok st' fr (.bytes (sliceFrom st.pt st'.pt)) true,
            tr.failAtBy nm.bang true st.pt.off (fun _ => nm.want e))
        else (.ok st fr .nil false, tr.failAtBy nm.bang false st.pt.off (fun _ => nm.want e))
  | .choice alts => choiceLoopT (ev rule) alts fr st tr
  | .labeled label inner =>
    let p := ev rule inner [] st tr
    match p.1 with
    | .ok st' _ v true => (.ok st' (if label != "" then fr.set label v else fr) v true, p.2)
    | .ok st' _ v false => (.ok st' fr v false, p.2)
    | r => (r, p.2)
  | .lit val ignoreCase =>
    if ignoreCase then (.abort st "unsupported: ignoreCase literal", tr.panicIn rule) else
    match litLoop rule val st with
    | (st', true) =>
      (.ok st' fr (.bytes (sliceFrom st.pt st'.pt)) true,
        tr.failAtBy nm.bang true st.pt.off (fun _ => nm.want e))
    | (st', false) =>
      (.ok { st' with pt := st.pt } fr .nil false,
        tr.failAtBy nm.bang false st.pt.off (fun _ => nm.want e))
  | .oneOrMore inner =>
    let p := ev rule inner [] st tr
    match p.1 with
    | .ok st' _ v true => starLoopT (ev rule inner) k fr st' [v] p.2
    | .ok st' _ _ false => (.ok st' fr .nil false, p.2)
    | r => (r, p.2)
  | .ruleRef name =>
    if name == "" then (.abort st "invalid rule: missing name", tr.panicIn rule) else
    match lookupRule g name with
    | none => (.ok (st.addErr st.pt.off rule (.undefinedRule name)) fr .nil false, tr)
    | some r =>
      let p := ev r.shown r.expr [] st tr
      match p.1 with
      | .ok st' _ v m => (.ok st' fr v m, p.2)
      | res => (res, p.2)
  | .seq es =>
    let pt := st.pt
    let p := seqLoopT (ev rule) es fr st [] tr
    match p.1 with
    | .ok st' fr' _ false => (.ok { st' with pt := pt } fr' .nil false, p.2)
    | r => (r, p.2)
  | .zeroOrMore inner => starLoopT (ev rule inner) k fr st [] tr
  | .zeroOrOne inner =>
    let p := ev rule inner [] st tr
    match p.1 with
    | .ok st' _ v true => (.ok st' fr v true, p.2)
    | .ok st' _ _ false => (.ok st' fr .nil true, p.2)
    | r => (r, p.2)
  | .unsupported what => (.abort st ("unsupported node: " ++ what), tr.panicIn rule)

/-- `parseExpr` with the farthest-failure state: tick, budget check (a panic leaves with `rule`
    on top of the rule stack), dispatch. -/
def evalT (nm : Names) (env : Env) (g : Grammar) (max : Nat) :
    Nat → String → PExpr → Frame → PState → Track → PResT
  | 0, _, _, _, _, tr => (.fuelOut, tr)
  | fuel + 1, rule, e, fr, st0, tr =>
    let st := { st0 with cnt := st0.cnt + 1 }
    if st.cnt > max then (.exceeded st, tr.panicIn rule) else
    bodyT nm env g (evalT nm env g max fuel) fuel rule e fr st tr

/-- Outcome of `(*parser).parse` with what the message needs. -/
structure ParseOutT where
  val : PVal
  /-- the error list, oldest first, as `Engine.run` gives it EXCEPT that the `.noMatch` entry
      carries the farthest offset and the `.maxExpr` / `.panic` entry carries the rule that was
      on top of the rule stack -/
  errs : List PErr
  cnt : Nat
  /-- final farthest-failure state -/
  track : Track
  deriving Repr, Inhabited

/-- The epilogue of `parse` (cf. `Proofs.Budget.outOf`). -/
def outOfT : PResT → ParseOutT
  | (.ok st _ v true, tr) => { val := v, errs := st.errs.reverse, cnt := st.cnt, track := tr }
  | (.ok st _ _ false, tr) =>
    if st.errs.isEmpty then
      { val := .nil, errs := [{ off := tr.off, rule := "", kind := .noMatch }], cnt := st.cnt,
        track := tr }
    else { val := .nil, errs := st.errs.reverse, cnt := st.cnt, track := tr }
  | (.exceeded st, tr) =>
    { val := .nil, errs := (st.addErr st.pt.off tr.panicRule .maxExpr).errs.reverse,
      cnt := st.cnt, track := tr }
  | (.abort st msg, tr) =>
    { val := .nil, errs := (st.addErr st.pt.off tr.panicRule (.panic msg)).errs.reverse,
      cnt := st.cnt, track := tr }
  | (.fuelOut, tr) =>
    { val := .nil, errs := [{ off := 0, rule := "", kind := .panic "fuel" }], cnt := 0,
      track := tr }

/-- The state in which `parse` calls the start rule: `p.read()` with an empty rule stack. -/
def initStateT (input : GoString) : PState :=
  PState.read { pt := { rest := input, off := 0, rn := 0, w := 0 }, cnt := 0, errs := [] } ""

/-- `Engine.run` with tracking. -/
def runT (nm : Names) (env : Env) (g : Grammar) (maxExprCnt : Nat) (input : GoString) :
    ParseOutT :=
  let max := effectiveMax maxExprCnt
  match g with
  | [] => { val := .nil, errs := [{ off := 0, rule := "", kind := .noRule }], cnt := 0,
            track := Track.init }
  | r0 :: _ =>
    match lookupRule g r0.name with
    | none => { val := .nil, errs := [], cnt := 0, track := Track.init }   -- unreachable: r0 ∈ g
    | some start =>
      outOfT (evalT nm env g max (max + 2) start.shown start.expr [] (initStateT input)
        Track.init)

def ParseOutT.accepted (o : ParseOutT) : Bool := o.errs.isEmpty

/-- forget what `runT` adds to an entry: the offset of `.noMatch`, the rule of `.maxExpr`/`.panic` -/
def PErr.forget (e : PErr) : PErr :=
  match e.kind with
  | .noMatch => { e with off := 0 }
  | .maxExpr => { e with rule := "" }
  | .panic _ => { e with rule := "" }
  | _ => e

def ParseOutT.toParseOut (o : ParseOutT) : ParseOut :=
  { val := o.val, errs := o.errs.map PErr.forget, cnt := o.cnt }

end Bexpr.Peg
