/-
  PINNED copy of `BexprGen/FailNames.lean` (the `want` / `val` strings of the matcher nodes and the
  wording of the parser's messages) as of the commit the examples of `Props/C15Err.lean` were
  written against.  It is NOT regenerated and nothing that is compared with the real code uses it:
  the driver and `Ties/FailNames.lean` use the regenerated file, so a commit that rewords a
  message changes the model's messages with it.  Produced by
  `xlate failnames -ns Bexpr.Peg.Pinned.FailNames -file PinnedFailNames.lean`.
-/
import Bexpr.Peg.ErrorText

namespace Bexpr.Peg.Pinned.FailNames

open Bexpr Bexpr.Peg

/-- matcher node ↦ `want` (litMatcher) / `val` (charClassMatcher) as written in grammar.go; first occurrence of every distinct node, in table order -/
def goWants : List (PExpr × GoString) := [
  -- "\"(\""
  (PExpr.lit [40] false, [34, 40, 34]),
  -- "\")\""
  (PExpr.lit [41] false, [34, 41, 34]),
  -- "\"or\""
  (PExpr.lit [111, 114] false, [34, 111, 114, 34]),
  -- "\"and\""
  (PExpr.lit [97, 110, 100] false, [34, 97, 110, 100, 34]),
  -- "\"not\""
  (PExpr.lit [110, 111, 116] false, [34, 110, 111, 116, 34]),
  -- "\"as\""
  (PExpr.lit [97, 115] false, [34, 97, 115, 34]),
  -- "\"{\""
  (PExpr.lit [123] false, [34, 123, 34]),
  -- "\"}\""
  (PExpr.lit [125] false, [34, 125, 34]),
  -- "\",\""
  (PExpr.lit [44] false, [34, 44, 34]),
  -- "\"_\""
  (PExpr.lit [95] false, [34, 95, 34]),
  -- "\"any\""
  (PExpr.lit [97, 110, 121] false, [34, 97, 110, 121, 34]),
  -- "\"all\""
  (PExpr.lit [97, 108, 108] false, [34, 97, 108, 108, 34]),
  -- "\"==\""
  (PExpr.lit [61, 61] false, [34, 61, 61, 34]),
  -- "\"!=\""
  (PExpr.lit [33, 61] false, [34, 33, 61, 34]),
  -- "\"is\""
  (PExpr.lit [105, 115] false, [34, 105, 115, 34]),
  -- "\"empty\""
  (PExpr.lit [101, 109, 112, 116, 121] false, [34, 101, 109, 112, 116, 121, 34]),
  -- "\"in\""
  (PExpr.lit [105, 110] false, [34, 105, 110, 34]),
  -- "\"contains\""
  (PExpr.lit [99, 111, 110, 116, 97, 105, 110, 115] false, [34, 99, 111, 110, 116, 97, 105, 110, 115, 34]),
  -- "\"matches\""
  (PExpr.lit [109, 97, 116, 99, 104, 101, 115] false, [34, 109, 97, 116, 99, 104, 101, 115, 34]),
  -- "\"\\\"\""
  (PExpr.lit [34] false, [34, 92, 34, 34]),
  -- "\"/\""
  (PExpr.lit [47] false, [34, 47, 34]),
  -- "[\\pL\\pN-_.~:|]"
  (PExpr.charClass [45, 95, 46, 126, 58, 124] [] ["L", "N"] false false, [91, 92, 112, 76, 92, 112, 78, 45, 95, 46, 126, 58, 124, 93]),
  -- "[a-zA-Z]"
  (PExpr.charClass [] [97, 122, 65, 90] [] false false, [91, 97, 45, 122, 65, 45, 90, 93]),
  -- "[a-zA-Z0-9_/]"
  (PExpr.charClass [95, 47] [97, 122, 65, 90, 48, 57] [] false false, [91, 97, 45, 122, 65, 45, 90, 48, 45, 57, 95, 47, 93]),
  -- "\".\""
  (PExpr.lit [46] false, [34, 46, 34]),
  -- "[0-9]"
  (PExpr.charClass [] [48, 57] [] false false, [91, 48, 45, 57, 93]),
  -- "\"[\""
  (PExpr.lit [91] false, [34, 91, 34]),
  -- "\"]\""
  (PExpr.lit [93] false, [34, 93, 34]),
  -- "\"-\""
  (PExpr.lit [45] false, [34, 45, 34]),
  -- "\"0\""
  (PExpr.lit [48] false, [34, 48, 34]),
  -- "[1-9]"
  (PExpr.charClass [] [49, 57] [] false false, [91, 49, 45, 57, 93]),
  -- "\"`\""
  (PExpr.lit [96] false, [34, 96, 34]),
  -- "[ \\t\\r\\n]"
  (PExpr.charClass [32, 9, 13, 10] [] [] false false, [91, 32, 92, 116, 92, 114, 92, 110, 93])
]

/-- nodes of grammar.go with the same content but different texts -/
def goConflicts : List (PExpr × List GoString) := [
]

/-- the same derived from grammar.peg the way pigeon's builder derives it -/
def pegWants : List (PExpr × GoString) := [
  -- "\"(\""
  (PExpr.lit [40] false, [34, 40, 34]),
  -- "\")\""
  (PExpr.lit [41] false, [34, 41, 34]),
  -- "\"or\""
  (PExpr.lit [111, 114] false, [34, 111, 114, 34]),
  -- "\"and\""
  (PExpr.lit [97, 110, 100] false, [34, 97, 110, 100, 34]),
  -- "\"not\""
  (PExpr.lit [110, 111, 116] false, [34, 110, 111, 116, 34]),
  -- "\"as\""
  (PExpr.lit [97, 115] false, [34, 97, 115, 34]),
  -- "\"{\""
  (PExpr.lit [123] false, [34, 123, 34]),
  -- "\"}\""
  (PExpr.lit [125] false, [34, 125, 34]),
  -- "\",\""
  (PExpr.lit [44] false, [34, 44, 34]),
  -- "\"_\""
  (PExpr.lit [95] false, [34, 95, 34]),
  -- "\"any\""
  (PExpr.lit [97, 110, 121] false, [34, 97, 110, 121, 34]),
  -- "\"all\""
  (PExpr.lit [97, 108, 108] false, [34, 97, 108, 108, 34]),
  -- "\"==\""
  (PExpr.lit [61, 61] false, [34, 61, 61, 34]),
  -- "\"!=\""
  (PExpr.lit [33, 61] false, [34, 33, 61, 34]),
  -- "\"is\""
  (PExpr.lit [105, 115] false, [34, 105, 115, 34]),
  -- "\"empty\""
  (PExpr.lit [101, 109, 112, 116, 121] false, [34, 101, 109, 112, 116, 121, 34]),
  -- "\"in\""
  (PExpr.lit [105, 110] false, [34, 105, 110, 34]),
  -- "\"contains\""
  (PExpr.lit [99, 111, 110, 116, 97, 105, 110, 115] false, [34, 99, 111, 110, 116, 97, 105, 110, 115, 34]),
  -- "\"matches\""
  (PExpr.lit [109, 97, 116, 99, 104, 101, 115] false, [34, 109, 97, 116, 99, 104, 101, 115, 34]),
  -- "\"\\\"\""
  (PExpr.lit [34] false, [34, 92, 34, 34]),
  -- "\"/\""
  (PExpr.lit [47] false, [34, 47, 34]),
  -- "[\\pL\\pN-_.~:|]"
  (PExpr.charClass [45, 95, 46, 126, 58, 124] [] ["L", "N"] false false, [91, 92, 112, 76, 92, 112, 78, 45, 95, 46, 126, 58, 124, 93]),
  -- "[a-zA-Z]"
  (PExpr.charClass [] [97, 122, 65, 90] [] false false, [91, 97, 45, 122, 65, 45, 90, 93]),
  -- "[a-zA-Z0-9_/]"
  (PExpr.charClass [95, 47] [97, 122, 65, 90, 48, 57] [] false false, [91, 97, 45, 122, 65, 45, 90, 48, 45, 57, 95, 47, 93]),
  -- "\".\""
  (PExpr.lit [46] false, [34, 46, 34]),
  -- "[0-9]"
  (PExpr.charClass [] [48, 57] [] false false, [91, 48, 45, 57, 93]),
  -- "\"[\""
  (PExpr.lit [91] false, [34, 91, 34]),
  -- "\"]\""
  (PExpr.lit [93] false, [34, 93, 34]),
  -- "\"-\""
  (PExpr.lit [45] false, [34, 45, 34]),
  -- "\"0\""
  (PExpr.lit [48] false, [34, 48, 34]),
  -- "[1-9]"
  (PExpr.charClass [] [49, 57] [] false false, [91, 49, 45, 57, 93]),
  -- "\"`\""
  (PExpr.lit [96] false, [34, 96, 34]),
  -- "[ \\t\\r\\n]"
  (PExpr.charClass [32, 9, 13, 10] [] [] false false, [91, 32, 92, 116, 92, 114, 92, 110, 93])
]

/-- nodes of grammar.peg with the same content but different texts -/
def pegConflicts : List (PExpr × List GoString) := [
]

-- "!"
def bang : GoString := [33]

-- "."
def anyWant : GoString := [46]

/-- the wording of the engine's messages as found in grammar.go -/
def texts : MsgTexts := {
  -- "grammar has no rule"
  noRule := [103, 114, 97, 109, 109, 97, 114, 32, 104, 97, 115, 32, 110, 111, 32, 114, 117, 108, 101],
  -- "invalid entrypoint"
  invalidEntrypoint := [105, 110, 118, 97, 108, 105, 100, 32, 101, 110, 116, 114, 121, 112, 111, 105, 110, 116],
  -- "invalid encoding"
  invalidEncoding := [105, 110, 118, 97, 108, 105, 100, 32, 101, 110, 99, 111, 100, 105, 110, 103],
  -- "max number of expresssions parsed"
  maxExprCnt := [109, 97, 120, 32, 110, 117, 109, 98, 101, 114, 32, 111, 102, 32, 101, 120, 112, 114, 101, 115, 115, 115, 105, 111, 110, 115, 32, 112, 97, 114, 115, 101, 100],
  -- "no match found, expected: "
  noMatchPrefix := [110, 111, 32, 109, 97, 116, 99, 104, 32, 102, 111, 117, 110, 100, 44, 32, 101, 120, 112, 101, 99, 116, 101, 100, 58, 32],
  -- ", "
  listSep := [44, 32],
  -- "or"
  listLastSep := [111, 114],
  -- " "
  joinPad1 := [32],
  -- " "
  joinPad2 := [32],
  -- "!."
  notAnyKey := [33, 46],
  -- "EOF"
  eofName := [69, 79, 70],
  -- ""
  pos0 := [],
  -- ":"
  pos1 := [58],
  -- " ("
  pos2 := [32, 40],
  -- ")"
  pos3 := [41],
  -- ": "
  ruleSep := [58, 32],
  -- "rule "
  rulePrefix := [114, 117, 108, 101, 32],
  -- ": "
  errSep := [58, 32],
  -- "\n"
  lineSep := [10],
  -- "undefined rule: "
  undefinedRulePrefix := [117, 110, 100, 101, 102, 105, 110, 101, 100, 32, 114, 117, 108, 101, 58, 32]
}

/-- every entry above that was not recognised (text `unknown:…`) -/
def unknowns : List String := []

end Bexpr.Peg.Pinned.FailNames
