/-
  From token lists to action semantics (`semOfBody`) and the `Env` of the bexpr grammar.

  A template is a token list with holes; a body that matches no template is `ActionSem.unknown`.
  The templates are the code shapes found in `grammar.peg` at the pinned commit; the token lists
  they are matched against are regenerated from the source on every run.
-/
import Bexpr.Peg.Actions
import Bexpr.Unicode

namespace Bexpr.Peg

/-- match `body` against `tmpl` (`none` = hole); returns the hole fillers in order -/
def matchTemplate : List (Option String) → List String → Option (List String)
  | [], [] => some []
  | some t :: ts, b :: bs => if t == b then matchTemplate ts bs else none
  | none :: ts, b :: bs => (matchTemplate ts bs).map (b :: ·)
  | _, _ => none

def matchOpOfConst : String → Option MatchOp
  | "MatchEqual" => some .equal
  | "MatchNotEqual" => some .notEqual
  | "MatchIn" => some .in_
  | "MatchNotIn" => some .notIn
  | "MatchIsEmpty" => some .isEmpty
  | "MatchIsNotEmpty" => some .isNotEmpty
  | "MatchMatches" => some .matches
  | "MatchNotMatches" => some .notMatches
  | _ => none

def collOpOfConst : String → Option CollOp
  | "CollectionOpAny" => some .any
  | "CollectionOpAll" => some .all
  | _ => none

def tBinary : List (Option String) := [
  some "return", some "&", some "BinaryExpression", some "{", some "Operator", some ":", none, some ",",
  some "Left", some ":", none, some ".", some "(", some "Expression", some ")", some ",", some "Right",
  some ":", none, some ".", some "(", some "Expression", some ")", some ",", some "}", some ",", some "nil"]
def tNot : List (Option String) := [
  some "if", some "unary", some ",", some "ok", some ":=", none, some ".", some "(", some "*",
  some "UnaryExpression", some ")", some ";", some "ok", some "&&", some "unary", some ".", some "Operator",
  some "==", some "UnaryOpNot", some "{", some "return", some "unary", some ".", some "Operand", some ",",
  some "nil", some "}", some "return", some "&", some "UnaryExpression", some "{", some "Operator", some ":",
  some "UnaryOpNot", some ",", some "Operand", some ":", none, some ".", some "(", some "Expression",
  some ")", some ",", some "}", some ",", some "nil"]
def tColl : List (Option String) := [
  some "return", some "&", some "CollectionExpression", some "{", some "Op", some ":", none, some ".",
  some "(", some "CollectionOperator", some ")", some ",", some "Selector", some ":", none, some ".",
  some "(", some "Selector", some ")", some ",", some "NameBinding", some ":", none, some ".", some "(",
  some "CollectionNameBinding", some ")", some ",", some "Inner", some ":", none, some ".", some "(",
  some "Expression", some ")", some ",", some "}", some ",", some "nil"]
def tBindIV : List (Option String) := [
  some "return", some "CollectionNameBinding", some "{", some "Mode", some ":",
  some "CollectionBindIndexAndValue", some ",", some "Index", some ":", none, some ".", some "(",
  some "string", some ")", some ",", some "Value", some ":", none, some ".", some "(", some "string",
  some ")", some ",", some "}", some ",", some "nil"]
def tBindI : List (Option String) := [
  some "return", some "CollectionNameBinding", some "{", some "Mode", some ":", some "CollectionBindIndex",
  some ",", some "Index", some ":", none, some ".", some "(", some "string", some ")", some ",", some "}",
  some ",", some "nil"]
def tBindV : List (Option String) := [
  some "return", some "CollectionNameBinding", some "{", some "Mode", some ":", some "CollectionBindValue",
  some ",", some "Value", some ":", none, some ".", some "(", some "string", some ")", some ",", some "}",
  some ",", some "nil"]
def tBindD : List (Option String) := [
  some "return", some "CollectionNameBinding", some "{", some "Mode", some ":", some "CollectionBindDefault",
  some ",", some "Default", some ":", none, some ".", some "(", some "string", some ")", some ",", some "}",
  some ",", some "nil"]
def tPredErr : List (Option String) := [
  some "return", some "false", some ",", some "errors", some ".", some "New", some "(", none, some ")"]
def tMatch3 : List (Option String) := [
  some "return", some "&", some "MatchExpression", some "{", some "Selector", some ":", none, some ".",
  some "(", some "Selector", some ")", some ",", some "Operator", some ":", none, some ".", some "(",
  some "MatchOperator", some ")", some ",", some "Value", some ":", none, some ".", some "(", some "*",
  some "MatchValue", some ")", some "}", some ",", some "nil"]
def tMatch2 : List (Option String) := [
  some "return", some "&", some "MatchExpression", some "{", some "Selector", some ":", none, some ".",
  some "(", some "Selector", some ")", some ",", some "Operator", some ":", none, some ".", some "(",
  some "MatchOperator", some ")", some ",", some "Value", some ":", some "nil", some "}", some ",", some "nil"]
def tSelBexpr : List (Option String) := [
  some "sel", some ":=", some "Selector", some "{", some "Type", some ":", some "SelectorTypeBexpr",
  some ",", some "Path", some ":", some "[", some "]", some "string", some "{", none, some ".", some "(",
  some "string", some ")", some "}", some ",", some "}", some "if", none, some "!=", some "nil", some "{",
  some "for", some "_", some ",", some "v", some ":=", some "range", none, some ".", some "(", some "[",
  some "]", some "interface", some "{", some "}", some ")", some "{", some "sel", some ".", some "Path",
  some "=", some "append", some "(", some "sel", some ".", some "Path", some ",", some "v", some ".",
  some "(", some "string", some ")", some ")", some "}", some "}", some "return", some "sel", some ",",
  some "nil"]
def tSelPtr : List (Option String) := [
  some "sel", some ":=", some "Selector", some "{", some "Type", some ":", some "SelectorTypeJsonPointer",
  some ",", some "}", some "if", none, some "!=", some "nil", some "{", some "for", some "_", some ",",
  some "v", some ":=", some "range", none, some ".", some "(", some "[", some "]", some "interface",
  some "{", some "}", some ")", some "{", some "sel", some ".", some "Path", some "=", some "append",
  some "(", some "sel", some ".", some "Path", some ",", some "v", some ".", some "(", some "string",
  some ")", some ")", some "}", some "}", some "ptrStr", some ":=", some "fmt", some ".", some "Sprintf",
  some "(", some "\"/%s\"", some ",", some "strings", some ".", some "Join", some "(", some "sel", some ".",
  some "Path", some ",", some "\"/\"", some ")", some ")", some "ptr", some ",", some "err", some ":=",
  some "pointerstructure", some ".", some "Parse", some "(", some "ptrStr", some ")", some "if", some "err",
  some "!=", some "nil", some "{", some "return", some "nil", some ",", some "fmt", some ".", some "Errorf",
  some "(", none, some ",", some "err", some ")", some "}", some "sel", some ".", some "Path", some "=",
  some "ptr", some ".", some "Parts", some "return", some "sel", some ",", some "nil"]
def tTextTail : List (Option String) := [
  some "return", some "string", some "(", some "c", some ".", some "text", some ")", some "[", some "1",
  some ":", some "]", some ",", some "nil"]
def tTextAll : List (Option String) := [
  some "return", some "string", some "(", some "c", some ".", some "text", some ")", some ",", some "nil"]
def tValSel : List (Option String) := [
  some "return", some "&", some "MatchValue", some "{", some "Raw", some ":", none, some ".", some "(",
  some "Selector", some ")", some ".", some "String", some "(", some ")", some "}", some ",", some "nil"]
def tValStr : List (Option String) := [
  some "return", some "&", some "MatchValue", some "{", some "Raw", some ":", none, some ".", some "(",
  some "string", some ")", some "}", some ",", some "nil"]
def tUnquote : List (Option String) := [
  some "return", some "strconv", some ".", some "Unquote", some "(", some "string", some "(", some "c",
  some ".", some "text", some ")", some ")"]
def tRet : List (Option String) := [
  some "return", none, some ",", some "nil"]

def semOfBody (params : List String) (body : List String) : ActionSem :=
  let isParam (x : String) := params.contains x && !params.contains "!mismatch"
  if let some [x] := matchTemplate tRet body then
    if isParam x then .retLabel x
    else if let some o := matchOpOfConst x then .constMatchOp o
    else if let some o := collOpOfConst x then .constCollOp o
    else .unknown
  else if let some [op, l, r] := matchTemplate tBinary body then
    if isParam l && isParam r then
      if op == "BinaryOpOr" then .mkBinary true l r
      else if op == "BinaryOpAnd" then .mkBinary false l r
      else .unknown
    else .unknown
  else if let some [a, b] := matchTemplate tNot body then
    if a == b && isParam a then .notFold a else .unknown
  else if let some [o, s, b, e] := matchTemplate tColl body then
    if isParam o && isParam s && isParam b && isParam e then .mkColl o s b e else .unknown
  else if let some [i, v] := matchTemplate tBindIV body then
    if isParam i && isParam v then .mkBinding .indexAndValue none (some i) (some v) else .unknown
  else if let some [i] := matchTemplate tBindI body then
    if isParam i then .mkBinding .index none (some i) none else .unknown
  else if let some [v] := matchTemplate tBindV body then
    if isParam v then .mkBinding .value none none (some v) else .unknown
  else if let some [d] := matchTemplate tBindD body then
    if isParam d then .mkBinding .default (some d) none none else .unknown
  else if let some [m] := matchTemplate tPredErr body then
    .predErr m
  else if let some [s, o, v] := matchTemplate tMatch3 body then
    if isParam s && isParam o && isParam v then .mkMatch s o (some v) else .unknown
  else if let some [s, o] := matchTemplate tMatch2 body then
    if isParam s && isParam o then .mkMatch s o none else .unknown
  else if let some [f, r1, r2] := matchTemplate tSelBexpr body then
    if r1 == r2 && isParam f && isParam r1 then .selectorBexpr f r1 else .unknown
  else if let some [p1, p2, msg] := matchTemplate tSelPtr body then
    if p1 == p2 && isParam p1 && msg == "\"error validating json pointer: %w\"" then .selectorPtr p1
    else .unknown
  else if (matchTemplate tTextTail body).isSome then .textTail
  else if (matchTemplate tTextAll body).isSome then .textAll
  else if let some [l] := matchTemplate tValSel body then
    if isParam l then .valueFromSelector l else .unknown
  else if let some [l] := matchTemplate tValStr body then
    if isParam l then .valueFromStr l else .unknown
  else if (matchTemplate tUnquote body).isSome then .unquoteText
  else .unknown

/-- the semantic table of a list of code blocks -/
def semTable (acts : List ActionCode) : List (String × ActionSem) :=
  acts.map fun a => (a.name, semOfBody a.params a.body)

def lookupSem (tbl : List (String × ActionSem)) (name : String) : ActionSem :=
  match tbl.find? (·.1 == name) with
  | some (_, s) => s
  | none => .unknown

/-- The `Env` determined by a list of code blocks and the Unicode tables. -/
def envOf (tbl : List (String × ActionSem)) : Env where
  action name fr text := runActionSem (lookupSem tbl name) fr text
  pred name fr := runPredSem (lookupSem tbl name) fr
  classIn := Unicode.inClass

end Bexpr.Peg
