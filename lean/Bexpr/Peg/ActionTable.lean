/-
  From token lists to action semantics (`semOfBody`) and the `Env` of the bexpr grammar.

  A template is a token list with holes; a body that matches no template is `ActionSem.unknown`.
  The templates are the code shapes found in `grammar.peg` at the pinned commit; the token lists
  they are matched against are regenerated from the source on every run.
-/
import Bexpr.Peg.Actions
import Bexpr.Unicode

namespace Bexpr.Peg

/-- match `body` against `tmpl` (`none` = hole); returns the hole fillers in order -/
def matchTemplate : List (Option String) → List String → Option (List String)
  | [], [] => some []
  | some t :: ts, b :: bs => if t == b then matchTemplate ts bs else none
  | none :: ts, b :: bs => (matchTemplate ts bs).map (b :: ·)
  | _, _ => none

/-- build a template from a space-separated string where `?` is a hole -/
def tmpl (s : String) : List (Option String) :=
  (s.splitOn " ").map fun w => if w == "?" then none else some w

def matchOpOfConst : String → Option MatchOp
  | "MatchEqual" => some .equal
  | "MatchNotEqual" => some .notEqual
  | "MatchIn" => some .in_
  | "MatchNotIn" => some .notIn
  | "MatchIsEmpty" => some .isEmpty
  | "MatchIsNotEmpty" => some .isNotEmpty
  | "MatchMatches" => some .matches
  | "MatchNotMatches" => some .notMatches
  | _ => none

def collOpOfConst : String → Option CollOp
  | "CollectionOpAny" => some .any
  | "CollectionOpAll" => some .all
  | _ => none

def tBinary := tmpl "return & BinaryExpression { Operator : ? , Left : ? . ( Expression ) , Right : ? . ( Expression ) , } , nil"
def tNot := tmpl "if unary , ok := ? . ( * UnaryExpression ) ; ok && unary . Operator == UnaryOpNot { return unary . Operand , nil } return & UnaryExpression { Operator : UnaryOpNot , Operand : ? . ( Expression ) , } , nil"
def tColl := tmpl "return & CollectionExpression { Op : ? . ( CollectionOperator ) , Selector : ? . ( Selector ) , NameBinding : ? . ( CollectionNameBinding ) , Inner : ? . ( Expression ) , } , nil"
def tBindIV := tmpl "return CollectionNameBinding { Mode : CollectionBindIndexAndValue , Index : ? . ( string ) , Value : ? . ( string ) , } , nil"
def tBindI := tmpl "return CollectionNameBinding { Mode : CollectionBindIndex , Index : ? . ( string ) , } , nil"
def tBindV := tmpl "return CollectionNameBinding { Mode : CollectionBindValue , Value : ? . ( string ) , } , nil"
def tBindD := tmpl "return CollectionNameBinding { Mode : CollectionBindDefault , Default : ? . ( string ) , } , nil"
def tPredErr := tmpl "return false , errors . New ( ? )"
def tMatch3 := tmpl "return & MatchExpression { Selector : ? . ( Selector ) , Operator : ? . ( MatchOperator ) , Value : ? . ( * MatchValue ) } , nil"
def tMatch2 := tmpl "return & MatchExpression { Selector : ? . ( Selector ) , Operator : ? . ( MatchOperator ) , Value : nil } , nil"
def tSelBexpr := tmpl "sel := Selector { Type : SelectorTypeBexpr , Path : [ ] string { ? . ( string ) } , } if ? != nil { for _ , v := range ? . ( [ ] interface { } ) { sel . Path = append ( sel . Path , v . ( string ) ) } } return sel , nil"
def tSelPtr := tmpl "sel := Selector { Type : SelectorTypeJsonPointer , } if ? != nil { for _ , v := range ? . ( [ ] interface { } ) { sel . Path = append ( sel . Path , v . ( string ) ) } } ptrStr := fmt . Sprintf ( \"/%s\" , strings . Join ( sel . Path , \"/\" ) ) ptr , err := pointerstructure . Parse ( ptrStr ) if err != nil { return nil , fmt . Errorf ( ? , err ) } sel . Path = ptr . Parts return sel , nil"
def tTextTail := tmpl "return string ( c . text ) [ 1 : ] , nil"
def tTextAll := tmpl "return string ( c . text ) , nil"
def tValSel := tmpl "return & MatchValue { Raw : ? . ( Selector ) . String ( ) } , nil"
def tValStr := tmpl "return & MatchValue { Raw : ? . ( string ) } , nil"
def tUnquote := tmpl "return strconv . Unquote ( string ( c . text ) )"
def tRet := tmpl "return ? , nil"

/-- a Go interpreted string literal token without escapes → its content -/
def unquoteToken (t : String) : Option String :=
  let cs := t.toList
  match cs with
  | '"' :: rest =>
    match rest.reverse with
    | '"' :: midRev =>
      let mid := midRev.reverse
      if mid.any (fun c => c == '\\' || c == '"') then none else some (String.ofList mid)
    | _ => none
  | _ => none

def semOfBody (params : List String) (body : List String) : ActionSem :=
  let isParam (x : String) := params.contains x && !params.contains "!mismatch"
  if let some [x] := matchTemplate tRet body then
    if isParam x then .retLabel x
    else if let some o := matchOpOfConst x then .constMatchOp o
    else if let some o := collOpOfConst x then .constCollOp o
    else .unknown
  else if let some [op, l, r] := matchTemplate tBinary body then
    if isParam l && isParam r then
      if op == "BinaryOpOr" then .mkBinary true l r
      else if op == "BinaryOpAnd" then .mkBinary false l r
      else .unknown
    else .unknown
  else if let some [a, b] := matchTemplate tNot body then
    if a == b && isParam a then .notFold a else .unknown
  else if let some [o, s, b, e] := matchTemplate tColl body then
    if isParam o && isParam s && isParam b && isParam e then .mkColl o s b e else .unknown
  else if let some [i, v] := matchTemplate tBindIV body then
    if isParam i && isParam v then .mkBinding .indexAndValue none (some i) (some v) else .unknown
  else if let some [i] := matchTemplate tBindI body then
    if isParam i then .mkBinding .index none (some i) none else .unknown
  else if let some [v] := matchTemplate tBindV body then
    if isParam v then .mkBinding .value none none (some v) else .unknown
  else if let some [d] := matchTemplate tBindD body then
    if isParam d then .mkBinding .default (some d) none none else .unknown
  else if let some [m] := matchTemplate tPredErr body then
    match unquoteToken m with
    | some msg => .predErr msg
    | none => .unknown
  else if let some [s, o, v] := matchTemplate tMatch3 body then
    if isParam s && isParam o && isParam v then .mkMatch s o (some v) else .unknown
  else if let some [s, o] := matchTemplate tMatch2 body then
    if isParam s && isParam o then .mkMatch s o none else .unknown
  else if let some [f, r1, r2] := matchTemplate tSelBexpr body then
    if r1 == r2 && isParam f && isParam r1 then .selectorBexpr f r1 else .unknown
  else if let some [p1, p2, msg] := matchTemplate tSelPtr body then
    if p1 == p2 && isParam p1 && msg == "\"error validating json pointer: %w\"" then .selectorPtr p1
    else .unknown
  else if (matchTemplate tTextTail body).isSome then .textTail
  else if (matchTemplate tTextAll body).isSome then .textAll
  else if let some [l] := matchTemplate tValSel body then
    if isParam l then .valueFromSelector l else .unknown
  else if let some [l] := matchTemplate tValStr body then
    if isParam l then .valueFromStr l else .unknown
  else if (matchTemplate tUnquote body).isSome then .unquoteText
  else .unknown

/-- the semantic table of a list of code blocks -/
def semTable (acts : List ActionCode) : List (String × ActionSem) :=
  acts.map fun a => (a.name, semOfBody a.params a.body)

def lookupSem (tbl : List (String × ActionSem)) (name : String) : ActionSem :=
  match tbl.find? (·.1 == name) with
  | some (_, s) => s
  | none => .unknown

/-- The `Env` determined by a list of code blocks and the Unicode tables. -/
def envOf (tbl : List (String × ActionSem)) : Env where
  action name fr text := runActionSem (lookupSem tbl name) fr text
  pred name fr := runPredSem (lookupSem tbl name) fr
  classIn := Unicode.inClass

end Bexpr.Peg
