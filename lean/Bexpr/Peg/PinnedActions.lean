/-
  PINNED copy of the bexpr grammar table (resp. its code blocks) as of the commit the property
  theorems were written against — the reference for "the bexpr language".  It is NOT regenerated:
  `Ties/PinnedGrammar.lean` checks on every run that the table regenerated from /repo equals it
  (kernel `rfl`); when the grammar is edited (even consistently in grammar.peg and grammar.go) that
  obligation breaks and the check searches for an input on which the shipped parser deviates from
  this table (`parsepin` driver command).
-/
import Bexpr.Peg.Syntax

namespace Bexpr.Peg.Pinned.Actions

open Bexpr.Peg

def act_0 : ActionCode := {
  name := "onInput2",
  params := ["expr"],
  body := ["return", "expr", ",", "nil"]
}

def act_1 : ActionCode := {
  name := "onInput17",
  params := ["expr"],
  body := ["return", "expr", ",", "nil"]
}

def act_2 : ActionCode := {
  name := "onOrExpression2",
  params := ["left", "right"],
  body := [
    "return", "&", "BinaryExpression", "{", "Operator", ":", "BinaryOpOr", ",", "Left", ":", "left", ".", "(",
    "Expression", ")", ",", "Right", ":", "right", ".", "(", "Expression", ")", ",", "}", ",", "nil"
  ]
}

def act_3 : ActionCode := {
  name := "onOrExpression11",
  params := ["expr"],
  body := ["return", "expr", ",", "nil"]
}

def act_4 : ActionCode := {
  name := "onOrExpression14",
  params := ["expr"],
  body := ["return", "expr", ",", "nil"]
}

def act_5 : ActionCode := {
  name := "onAndExpression2",
  params := ["left", "right"],
  body := [
    "return", "&", "BinaryExpression", "{", "Operator", ":", "BinaryOpAnd", ",", "Left", ":", "left", ".", "(",
    "Expression", ")", ",", "Right", ":", "right", ".", "(", "Expression", ")", ",", "}", ",", "nil"
  ]
}

def act_6 : ActionCode := {
  name := "onAndExpression11",
  params := ["expr"],
  body := ["return", "expr", ",", "nil"]
}

def act_7 : ActionCode := {
  name := "onNotExpression2",
  params := ["expr"],
  body := [
    "if", "unary", ",", "ok", ":=", "expr", ".", "(", "*", "UnaryExpression", ")", ";", "ok", "&&", "unary", ".",
    "Operator", "==", "UnaryOpNot", "{", "return", "unary", ".", "Operand", ",", "nil", "}", "return", "&",
    "UnaryExpression", "{", "Operator", ":", "UnaryOpNot", ",", "Operand", ":", "expr", ".", "(", "Expression", ")",
    ",", "}", ",", "nil"
  ]
}

def act_8 : ActionCode := {
  name := "onNotExpression8",
  params := ["expr"],
  body := ["return", "expr", ",", "nil"]
}

def act_9 : ActionCode := {
  name := "onCollectionExpression1",
  params := ["op", "selector", "binding", "expr"],
  body := [
    "return", "&", "CollectionExpression", "{", "Op", ":", "op", ".", "(", "CollectionOperator", ")", ",", "Selector",
    ":", "selector", ".", "(", "Selector", ")", ",", "NameBinding", ":", "binding", ".", "(", "CollectionNameBinding",
    ")", ",", "Inner", ":", "expr", ".", "(", "Expression", ")", ",", "}", ",", "nil"
  ]
}

def act_10 : ActionCode := {
  name := "onCollectionIdentifiers2",
  params := ["id1", "id2"],
  body := [
    "return", "CollectionNameBinding", "{", "Mode", ":", "CollectionBindIndexAndValue", ",", "Index", ":", "id1", ".",
    "(", "string", ")", ",", "Value", ":", "id2", ".", "(", "string", ")", ",", "}", ",", "nil"
  ]
}

def act_11 : ActionCode := {
  name := "onCollectionIdentifiers13",
  params := ["id1"],
  body := [
    "return", "CollectionNameBinding", "{", "Mode", ":", "CollectionBindIndex", ",", "Index", ":", "id1", ".", "(",
    "string", ")", ",", "}", ",", "nil"
  ]
}

def act_12 : ActionCode := {
  name := "onCollectionIdentifiers23",
  params := ["id2"],
  body := [
    "return", "CollectionNameBinding", "{", "Mode", ":", "CollectionBindValue", ",", "Value", ":", "id2", ".", "(",
    "string", ")", ",", "}", ",", "nil"
  ]
}

def act_13 : ActionCode := {
  name := "onCollectionIdentifiers33",
  params := ["id"],
  body := [
    "return", "CollectionNameBinding", "{", "Mode", ":", "CollectionBindDefault", ",", "Default", ":", "id", ".", "(",
    "string", ")", ",", "}", ",", "nil"
  ]
}

def act_14 : ActionCode := {
  name := "onCollectionOpAny1",
  params := [],
  body := ["return", "CollectionOpAny", ",", "nil"]
}

def act_15 : ActionCode := {
  name := "onCollectionOpAll1",
  params := [],
  body := ["return", "CollectionOpAll", ",", "nil"]
}

def act_16 : ActionCode := {
  name := "onParenthesizedExpression2",
  params := ["expr"],
  body := ["return", "expr", ",", "nil"]
}

def act_17 : ActionCode := {
  name := "onParenthesizedExpression12",
  params := ["expr"],
  body := ["return", "expr", ",", "nil"]
}

def act_18 : ActionCode := {
  name := "onParenthesizedExpression24",
  params := [],
  body := ["return", "false", ",", "errors", ".", "New", "(", "\"Unmatched parentheses\"", ")"]
}

def act_19 : ActionCode := {
  name := "onMatchSelectorOpValue1",
  params := ["selector", "operator", "value"],
  body := [
    "return", "&", "MatchExpression", "{", "Selector", ":", "selector", ".", "(", "Selector", ")", ",", "Operator",
    ":", "operator", ".", "(", "MatchOperator", ")", ",", "Value", ":", "value", ".", "(", "*", "MatchValue", ")",
    "}", ",", "nil"
  ]
}

def act_20 : ActionCode := {
  name := "onMatchSelectorOp1",
  params := ["selector", "operator"],
  body := [
    "return", "&", "MatchExpression", "{", "Selector", ":", "selector", ".", "(", "Selector", ")", ",", "Operator",
    ":", "operator", ".", "(", "MatchOperator", ")", ",", "Value", ":", "nil", "}", ",", "nil"
  ]
}

def act_21 : ActionCode := {
  name := "onMatchValueOpSelector2",
  params := ["value", "operator", "selector"],
  body := [
    "return", "&", "MatchExpression", "{", "Selector", ":", "selector", ".", "(", "Selector", ")", ",", "Operator",
    ":", "operator", ".", "(", "MatchOperator", ")", ",", "Value", ":", "value", ".", "(", "*", "MatchValue", ")",
    "}", ",", "nil"
  ]
}

def act_22 : ActionCode := {
  name := "onMatchValueOpSelector20",
  params := ["operator"],
  body := ["return", "false", ",", "errors", ".", "New", "(", "\"Invalid selector\"", ")"]
}

def act_23 : ActionCode := {
  name := "onMatchEqual1",
  params := [],
  body := ["return", "MatchEqual", ",", "nil"]
}

def act_24 : ActionCode := {
  name := "onMatchNotEqual1",
  params := [],
  body := ["return", "MatchNotEqual", ",", "nil"]
}

def act_25 : ActionCode := {
  name := "onMatchIsEmpty1",
  params := [],
  body := ["return", "MatchIsEmpty", ",", "nil"]
}

def act_26 : ActionCode := {
  name := "onMatchIsNotEmpty1",
  params := [],
  body := ["return", "MatchIsNotEmpty", ",", "nil"]
}

def act_27 : ActionCode := {
  name := "onMatchIn1",
  params := [],
  body := ["return", "MatchIn", ",", "nil"]
}

def act_28 : ActionCode := {
  name := "onMatchNotIn1",
  params := [],
  body := ["return", "MatchNotIn", ",", "nil"]
}

def act_29 : ActionCode := {
  name := "onMatchContains1",
  params := [],
  body := ["return", "MatchIn", ",", "nil"]
}

def act_30 : ActionCode := {
  name := "onMatchNotContains1",
  params := [],
  body := ["return", "MatchNotIn", ",", "nil"]
}

def act_31 : ActionCode := {
  name := "onMatchMatches1",
  params := [],
  body := ["return", "MatchMatches", ",", "nil"]
}

def act_32 : ActionCode := {
  name := "onMatchNotMatches1",
  params := [],
  body := ["return", "MatchNotMatches", ",", "nil"]
}

def act_33 : ActionCode := {
  name := "onSelector2",
  params := ["first", "rest"],
  body := [
    "sel", ":=", "Selector", "{", "Type", ":", "SelectorTypeBexpr", ",", "Path", ":", "[", "]", "string", "{",
    "first", ".", "(", "string", ")", "}", ",", "}", "if", "rest", "!=", "nil", "{", "for", "_", ",", "v", ":=",
    "range", "rest", ".", "(", "[", "]", "interface", "{", "}", ")", "{", "sel", ".", "Path", "=", "append", "(",
    "sel", ".", "Path", ",", "v", ".", "(", "string", ")", ")", "}", "}", "return", "sel", ",", "nil"
  ]
}

def act_34 : ActionCode := {
  name := "onSelector9",
  params := ["ptrsegs"],
  body := [
    "sel", ":=", "Selector", "{", "Type", ":", "SelectorTypeJsonPointer", ",", "}", "if", "ptrsegs", "!=", "nil", "{",
    "for", "_", ",", "v", ":=", "range", "ptrsegs", ".", "(", "[", "]", "interface", "{", "}", ")", "{", "sel", ".",
    "Path", "=", "append", "(", "sel", ".", "Path", ",", "v", ".", "(", "string", ")", ")", "}", "}", "ptrStr", ":=",
    "fmt", ".", "Sprintf", "(", "\"/%s\"", ",", "strings", ".", "Join", "(", "sel", ".", "Path", ",", "\"/\"", ")",
    ")", "ptr", ",", "err", ":=", "pointerstructure", ".", "Parse", "(", "ptrStr", ")", "if", "err", "!=", "nil", "{",
    "return", "nil", ",", "fmt", ".", "Errorf", "(", "\"error validating json pointer: %w\"", ",", "err", ")", "}",
    "sel", ".", "Path", "=", "ptr", ".", "Parts", "return", "sel", ",", "nil"
  ]
}

def act_35 : ActionCode := {
  name := "onJsonPointerSegment1",
  params := ["ident"],
  body := ["return", "string", "(", "c", ".", "text", ")", "[", "1", ":", "]", ",", "nil"]
}

def act_36 : ActionCode := {
  name := "onIdentifier1",
  params := [],
  body := ["return", "string", "(", "c", ".", "text", ")", ",", "nil"]
}

def act_37 : ActionCode := {
  name := "onSelectorOrIndex2",
  params := ["ident"],
  body := ["return", "ident", ",", "nil"]
}

def act_38 : ActionCode := {
  name := "onSelectorOrIndex7",
  params := ["expr"],
  body := ["return", "expr", ",", "nil"]
}

def act_39 : ActionCode := {
  name := "onSelectorOrIndex10",
  params := ["idx"],
  body := ["return", "string", "(", "c", ".", "text", ")", "[", "1", ":", "]", ",", "nil"]
}

def act_40 : ActionCode := {
  name := "onIndexExpression2",
  params := ["lit"],
  body := ["return", "lit", ",", "nil"]
}

def act_41 : ActionCode := {
  name := "onIndexExpression18",
  params := [],
  body := ["return", "false", ",", "errors", ".", "New", "(", "\"Invalid index\"", ")"]
}

def act_42 : ActionCode := {
  name := "onIndexExpression28",
  params := [],
  body := ["return", "false", ",", "errors", ".", "New", "(", "\"Unclosed index expression\"", ")"]
}

def act_43 : ActionCode := {
  name := "onValue2",
  params := ["selector"],
  body := [
    "return", "&", "MatchValue", "{", "Raw", ":", "selector", ".", "(", "Selector", ")", ".", "String", "(", ")", "}",
    ",", "nil"
  ]
}

def act_44 : ActionCode := {
  name := "onValue5",
  params := ["n"],
  body := ["return", "&", "MatchValue", "{", "Raw", ":", "n", ".", "(", "string", ")", "}", ",", "nil"]
}

def act_45 : ActionCode := {
  name := "onValue8",
  params := ["s"],
  body := ["return", "&", "MatchValue", "{", "Raw", ":", "s", ".", "(", "string", ")", "}", ",", "nil"]
}

def act_46 : ActionCode := {
  name := "onNumberLiteral2",
  params := [],
  body := ["return", "string", "(", "c", ".", "text", ")", ",", "nil"]
}

def act_47 : ActionCode := {
  name := "onNumberLiteral15",
  params := [],
  body := ["return", "false", ",", "errors", ".", "New", "(", "\"Invalid number literal\"", ")"]
}

def act_48 : ActionCode := {
  name := "onStringLiteral2",
  params := [],
  body := ["return", "strconv", ".", "Unquote", "(", "string", "(", "c", ".", "text", ")", ")"]
}

def act_49 : ActionCode := {
  name := "onStringLiteral25",
  params := [],
  body := ["return", "false", ",", "errors", ".", "New", "(", "\"Unterminated string literal\"", ")"]
}

def actions : List ActionCode := [
  act_0, act_1, act_2, act_3, act_4, act_5, act_6, act_7, act_8, act_9, act_10, act_11, act_12, act_13, act_14,
  act_15, act_16, act_17, act_18, act_19, act_20, act_21, act_22, act_23, act_24, act_25, act_26, act_27, act_28,
  act_29, act_30, act_31, act_32, act_33, act_34, act_35, act_36, act_37, act_38, act_39, act_40, act_41, act_42,
  act_43, act_44, act_45, act_46, act_47, act_48, act_49
]

end Bexpr.Peg.Pinned.Actions
