/-
  PINNED copy of the bexpr grammar table (resp. its code blocks) as of the commit the property
  theorems were written against — the reference for "the bexpr language".  It is NOT regenerated:
  `Ties/PinnedGrammar.lean` checks on every run that the table regenerated from /repo equals it
  (kernel `rfl`); when the grammar is edited (even consistently in grammar.peg and grammar.go) that
  obligation breaks and the check searches for an input on which the shipped parser deviates from
  this table (`parsepin` driver command).
-/
import Bexpr.Peg.Syntax

namespace Bexpr.Peg.Pinned.Grammar

open Bexpr.Peg

def rule_0 : Rule := {
  name := "Input",
  displayName := "",
  expr :=
    PExpr.choice [
      PExpr.action "onInput2" (
        PExpr.seq [
          PExpr.zeroOrOne (PExpr.ruleRef "_"),
          PExpr.lit [40] false,
          PExpr.zeroOrOne (PExpr.ruleRef "_"),
          PExpr.labeled "expr" (PExpr.ruleRef "OrExpression"),
          PExpr.zeroOrOne (PExpr.ruleRef "_"),
          PExpr.lit [41] false,
          PExpr.zeroOrOne (PExpr.ruleRef "_"),
          PExpr.ruleRef "EOF"
        ]
      ),
      PExpr.action "onInput17" (
        PExpr.seq [
          PExpr.zeroOrOne (PExpr.ruleRef "_"),
          PExpr.labeled "expr" (PExpr.ruleRef "OrExpression"),
          PExpr.zeroOrOne (PExpr.ruleRef "_"),
          PExpr.ruleRef "EOF"
        ]
      )
    ]
}

def rule_1 : Rule := {
  name := "OrExpression",
  displayName := "",
  expr :=
    PExpr.choice [
      PExpr.action "onOrExpression2" (
        PExpr.seq [
          PExpr.labeled "left" (PExpr.ruleRef "AndExpression"),
          PExpr.ruleRef "_",
          PExpr.lit [111, 114] false,
          PExpr.ruleRef "_",
          PExpr.labeled "right" (PExpr.ruleRef "OrExpression")
        ]
      ),
      PExpr.action "onOrExpression11" (PExpr.labeled "expr" (PExpr.ruleRef "AndExpression")),
      PExpr.action "onOrExpression14" (PExpr.labeled "expr" (PExpr.ruleRef "CollectionExpression"))
    ]
}

def rule_2 : Rule := {
  name := "AndExpression",
  displayName := "",
  expr :=
    PExpr.choice [
      PExpr.action "onAndExpression2" (
        PExpr.seq [
          PExpr.labeled "left" (PExpr.ruleRef "NotExpression"),
          PExpr.ruleRef "_",
          PExpr.lit [97, 110, 100] false,
          PExpr.ruleRef "_",
          PExpr.labeled "right" (PExpr.ruleRef "AndExpression")
        ]
      ),
      PExpr.action "onAndExpression11" (PExpr.labeled "expr" (PExpr.ruleRef "NotExpression"))
    ]
}

def rule_3 : Rule := {
  name := "NotExpression",
  displayName := "",
  expr :=
    PExpr.choice [
      PExpr.action "onNotExpression2" (
        PExpr.seq [
          PExpr.lit [110, 111, 116] false,
          PExpr.ruleRef "_",
          PExpr.labeled "expr" (PExpr.ruleRef "NotExpression")
        ]
      ),
      PExpr.action "onNotExpression8" (PExpr.labeled "expr" (PExpr.ruleRef "ParenthesizedExpression"))
    ]
}

def rule_4 : Rule := {
  name := "CollectionExpression",
  displayName := "",
  expr :=
    PExpr.action "onCollectionExpression1" (
      PExpr.seq [
        PExpr.labeled "op" (PExpr.choice [PExpr.ruleRef "CollectionOpAny", PExpr.ruleRef "CollectionOpAll"]),
        PExpr.labeled "selector" (PExpr.ruleRef "Selector"),
        PExpr.ruleRef "_",
        PExpr.lit [97, 115] false,
        PExpr.ruleRef "_",
        PExpr.labeled "binding" (PExpr.ruleRef "CollectionIdentifiers"),
        PExpr.zeroOrOne (PExpr.ruleRef "_"),
        PExpr.lit [123] false,
        PExpr.zeroOrOne (PExpr.ruleRef "_"),
        PExpr.labeled "expr" (PExpr.ruleRef "OrExpression"),
        PExpr.zeroOrOne (PExpr.ruleRef "_"),
        PExpr.lit [125] false
      ]
    )
}

def rule_5 : Rule := {
  name := "CollectionIdentifiers",
  displayName := "\"collection-identifiers\"",
  expr :=
    PExpr.choice [
      PExpr.action "onCollectionIdentifiers2" (
        PExpr.seq [
          PExpr.labeled "id1" (PExpr.ruleRef "Identifier"),
          PExpr.zeroOrOne (PExpr.ruleRef "_"),
          PExpr.lit [44] false,
          PExpr.zeroOrOne (PExpr.ruleRef "_"),
          PExpr.labeled "id2" (PExpr.ruleRef "Identifier")
        ]
      ),
      PExpr.action "onCollectionIdentifiers13" (
        PExpr.seq [
          PExpr.labeled "id1" (PExpr.ruleRef "Identifier"),
          PExpr.zeroOrOne (PExpr.ruleRef "_"),
          PExpr.lit [44] false,
          PExpr.zeroOrOne (PExpr.ruleRef "_"),
          PExpr.lit [95] false
        ]
      ),
      PExpr.action "onCollectionIdentifiers23" (
        PExpr.seq [
          PExpr.lit [95] false,
          PExpr.zeroOrOne (PExpr.ruleRef "_"),
          PExpr.lit [44] false,
          PExpr.zeroOrOne (PExpr.ruleRef "_"),
          PExpr.labeled "id2" (PExpr.ruleRef "Identifier")
        ]
      ),
      PExpr.action "onCollectionIdentifiers33" (PExpr.labeled "id" (PExpr.ruleRef "Identifier"))
    ]
}

def rule_6 : Rule := {
  name := "CollectionOpAny",
  displayName := "",
  expr :=
    PExpr.action "onCollectionOpAny1" (PExpr.seq [PExpr.lit [97, 110, 121] false, PExpr.ruleRef "_"])
}

def rule_7 : Rule := {
  name := "CollectionOpAll",
  displayName := "",
  expr :=
    PExpr.action "onCollectionOpAll1" (PExpr.seq [PExpr.lit [97, 108, 108] false, PExpr.ruleRef "_"])
}

def rule_8 : Rule := {
  name := "ParenthesizedExpression",
  displayName := "\"grouping\"",
  expr :=
    PExpr.choice [
      PExpr.action "onParenthesizedExpression2" (
        PExpr.seq [
          PExpr.lit [40] false,
          PExpr.zeroOrOne (PExpr.ruleRef "_"),
          PExpr.labeled "expr" (PExpr.ruleRef "OrExpression"),
          PExpr.zeroOrOne (PExpr.ruleRef "_"),
          PExpr.lit [41] false
        ]
      ),
      PExpr.action "onParenthesizedExpression12" (PExpr.labeled "expr" (PExpr.ruleRef "MatchExpression")),
      PExpr.seq [
        PExpr.lit [40] false,
        PExpr.zeroOrOne (PExpr.ruleRef "_"),
        PExpr.ruleRef "OrExpression",
        PExpr.zeroOrOne (PExpr.ruleRef "_"),
        PExpr.notP (PExpr.lit [41] false),
        PExpr.andCode "onParenthesizedExpression24"
      ]
    ]
}

def rule_9 : Rule := {
  name := "MatchExpression",
  displayName := "\"match\"",
  expr :=
    PExpr.choice [
      PExpr.ruleRef "MatchSelectorOpValue",
      PExpr.ruleRef "MatchSelectorOp",
      PExpr.ruleRef "MatchValueOpSelector"
    ]
}

def rule_10 : Rule := {
  name := "MatchSelectorOpValue",
  displayName := "\"match\"",
  expr :=
    PExpr.action "onMatchSelectorOpValue1" (
      PExpr.seq [
        PExpr.labeled "selector" (PExpr.ruleRef "Selector"),
        PExpr.labeled "operator" (
          PExpr.choice [
            PExpr.ruleRef "MatchEqual",
            PExpr.ruleRef "MatchNotEqual",
            PExpr.ruleRef "MatchContains",
            PExpr.ruleRef "MatchNotContains",
            PExpr.ruleRef "MatchMatches",
            PExpr.ruleRef "MatchNotMatches"
          ]
        ),
        PExpr.labeled "value" (PExpr.ruleRef "Value")
      ]
    )
}

def rule_11 : Rule := {
  name := "MatchSelectorOp",
  displayName := "\"match\"",
  expr :=
    PExpr.action "onMatchSelectorOp1" (
      PExpr.seq [
        PExpr.labeled "selector" (PExpr.ruleRef "Selector"),
        PExpr.labeled "operator" (PExpr.choice [PExpr.ruleRef "MatchIsEmpty", PExpr.ruleRef "MatchIsNotEmpty"])
      ]
    )
}

def rule_12 : Rule := {
  name := "MatchValueOpSelector",
  displayName := "\"match\"",
  expr :=
    PExpr.choice [
      PExpr.action "onMatchValueOpSelector2" (
        PExpr.seq [
          PExpr.labeled "value" (PExpr.ruleRef "Value"),
          PExpr.labeled "operator" (PExpr.choice [PExpr.ruleRef "MatchIn", PExpr.ruleRef "MatchNotIn"]),
          PExpr.labeled "selector" (PExpr.ruleRef "Selector")
        ]
      ),
      PExpr.seq [
        PExpr.ruleRef "Value",
        PExpr.labeled "operator" (PExpr.choice [PExpr.ruleRef "MatchIn", PExpr.ruleRef "MatchNotIn"]),
        PExpr.notP (PExpr.ruleRef "Selector"),
        PExpr.andCode "onMatchValueOpSelector20"
      ]
    ]
}

def rule_13 : Rule := {
  name := "MatchEqual",
  displayName := "",
  expr :=
    PExpr.action "onMatchEqual1" (
      PExpr.seq [PExpr.zeroOrOne (PExpr.ruleRef "_"), PExpr.lit [61, 61] false, PExpr.zeroOrOne (PExpr.ruleRef "_")]
    )
}

def rule_14 : Rule := {
  name := "MatchNotEqual",
  displayName := "",
  expr :=
    PExpr.action "onMatchNotEqual1" (
      PExpr.seq [PExpr.zeroOrOne (PExpr.ruleRef "_"), PExpr.lit [33, 61] false, PExpr.zeroOrOne (PExpr.ruleRef "_")]
    )
}

def rule_15 : Rule := {
  name := "MatchIsEmpty",
  displayName := "",
  expr :=
    PExpr.action "onMatchIsEmpty1" (
      PExpr.seq [
        PExpr.ruleRef "_",
        PExpr.lit [105, 115] false,
        PExpr.ruleRef "_",
        PExpr.lit [101, 109, 112, 116, 121] false
      ]
    )
}

def rule_16 : Rule := {
  name := "MatchIsNotEmpty",
  displayName := "",
  expr :=
    PExpr.action "onMatchIsNotEmpty1" (
      PExpr.seq [
        PExpr.ruleRef "_",
        PExpr.lit [105, 115] false,
        PExpr.ruleRef "_",
        PExpr.lit [110, 111, 116] false,
        PExpr.ruleRef "_",
        PExpr.lit [101, 109, 112, 116, 121] false
      ]
    )
}

def rule_17 : Rule := {
  name := "MatchIn",
  displayName := "",
  expr :=
    PExpr.action "onMatchIn1" (PExpr.seq [PExpr.ruleRef "_", PExpr.lit [105, 110] false, PExpr.ruleRef "_"])
}

def rule_18 : Rule := {
  name := "MatchNotIn",
  displayName := "",
  expr :=
    PExpr.action "onMatchNotIn1" (
      PExpr.seq [
        PExpr.ruleRef "_",
        PExpr.lit [110, 111, 116] false,
        PExpr.ruleRef "_",
        PExpr.lit [105, 110] false,
        PExpr.ruleRef "_"
      ]
    )
}

def rule_19 : Rule := {
  name := "MatchContains",
  displayName := "",
  expr :=
    PExpr.action "onMatchContains1" (
      PExpr.seq [PExpr.ruleRef "_", PExpr.lit [99, 111, 110, 116, 97, 105, 110, 115] false, PExpr.ruleRef "_"]
    )
}

def rule_20 : Rule := {
  name := "MatchNotContains",
  displayName := "",
  expr :=
    PExpr.action "onMatchNotContains1" (
      PExpr.seq [
        PExpr.ruleRef "_",
        PExpr.lit [110, 111, 116] false,
        PExpr.ruleRef "_",
        PExpr.lit [99, 111, 110, 116, 97, 105, 110, 115] false,
        PExpr.ruleRef "_"
      ]
    )
}

def rule_21 : Rule := {
  name := "MatchMatches",
  displayName := "",
  expr :=
    PExpr.action "onMatchMatches1" (
      PExpr.seq [PExpr.ruleRef "_", PExpr.lit [109, 97, 116, 99, 104, 101, 115] false, PExpr.ruleRef "_"]
    )
}

def rule_22 : Rule := {
  name := "MatchNotMatches",
  displayName := "",
  expr :=
    PExpr.action "onMatchNotMatches1" (
      PExpr.seq [
        PExpr.ruleRef "_",
        PExpr.lit [110, 111, 116] false,
        PExpr.ruleRef "_",
        PExpr.lit [109, 97, 116, 99, 104, 101, 115] false,
        PExpr.ruleRef "_"
      ]
    )
}

def rule_23 : Rule := {
  name := "Selector",
  displayName := "\"selector\"",
  expr :=
    PExpr.choice [
      PExpr.action "onSelector2" (
        PExpr.seq [
          PExpr.labeled "first" (PExpr.ruleRef "Identifier"),
          PExpr.labeled "rest" (PExpr.zeroOrMore (PExpr.ruleRef "SelectorOrIndex"))
        ]
      ),
      PExpr.action "onSelector9" (
        PExpr.seq [
          PExpr.lit [34] false,
          PExpr.labeled "ptrsegs" (PExpr.zeroOrMore (PExpr.ruleRef "JsonPointerSegment")),
          PExpr.lit [34] false
        ]
      )
    ]
}

def rule_24 : Rule := {
  name := "JsonPointerSegment",
  displayName := "",
  expr :=
    PExpr.action "onJsonPointerSegment1" (
      PExpr.seq [
        PExpr.lit [47] false,
        PExpr.labeled "ident" (PExpr.oneOrMore (PExpr.charClass [45, 95, 46, 126, 58, 124] [] ["L", "N"] false false))
      ]
    )
}

def rule_25 : Rule := {
  name := "Identifier",
  displayName := "",
  expr :=
    PExpr.action "onIdentifier1" (
      PExpr.seq [
        PExpr.charClass [] [97, 122, 65, 90] [] false false,
        PExpr.zeroOrMore (PExpr.charClass [95, 47] [97, 122, 65, 90, 48, 57] [] false false)
      ]
    )
}

def rule_26 : Rule := {
  name := "SelectorOrIndex",
  displayName := "",
  expr :=
    PExpr.choice [
      PExpr.action "onSelectorOrIndex2" (
        PExpr.seq [PExpr.lit [46] false, PExpr.labeled "ident" (PExpr.ruleRef "Identifier")]
      ),
      PExpr.action "onSelectorOrIndex7" (PExpr.labeled "expr" (PExpr.ruleRef "IndexExpression")),
      PExpr.action "onSelectorOrIndex10" (
        PExpr.seq [
          PExpr.lit [46] false,
          PExpr.labeled "idx" (PExpr.oneOrMore (PExpr.charClass [] [48, 57] [] false false))
        ]
      )
    ]
}

def rule_27 : Rule := {
  name := "IndexExpression",
  displayName := "\"index\"",
  expr :=
    PExpr.choice [
      PExpr.action "onIndexExpression2" (
        PExpr.seq [
          PExpr.lit [91] false,
          PExpr.zeroOrOne (PExpr.ruleRef "_"),
          PExpr.labeled "lit" (PExpr.ruleRef "StringLiteral"),
          PExpr.zeroOrOne (PExpr.ruleRef "_"),
          PExpr.lit [93] false
        ]
      ),
      PExpr.seq [
        PExpr.lit [91] false,
        PExpr.zeroOrOne (PExpr.ruleRef "_"),
        PExpr.notP (PExpr.ruleRef "StringLiteral"),
        PExpr.andCode "onIndexExpression18"
      ],
      PExpr.seq [
        PExpr.lit [91] false,
        PExpr.zeroOrOne (PExpr.ruleRef "_"),
        PExpr.ruleRef "StringLiteral",
        PExpr.zeroOrOne (PExpr.ruleRef "_"),
        PExpr.notP (PExpr.lit [93] false),
        PExpr.andCode "onIndexExpression28"
      ]
    ]
}

def rule_28 : Rule := {
  name := "Value",
  displayName := "\"value\"",
  expr :=
    PExpr.choice [
      PExpr.action "onValue2" (PExpr.labeled "selector" (PExpr.ruleRef "Selector")),
      PExpr.action "onValue5" (PExpr.labeled "n" (PExpr.ruleRef "NumberLiteral")),
      PExpr.action "onValue8" (PExpr.labeled "s" (PExpr.ruleRef "StringLiteral"))
    ]
}

def rule_29 : Rule := {
  name := "NumberLiteral",
  displayName := "\"number\"",
  expr :=
    PExpr.choice [
      PExpr.action "onNumberLiteral2" (
        PExpr.seq [
          PExpr.zeroOrOne (PExpr.lit [45] false),
          PExpr.ruleRef "IntegerOrFloat",
          PExpr.andP (PExpr.ruleRef "AfterNumbers")
        ]
      ),
      PExpr.seq [
        PExpr.zeroOrOne (PExpr.lit [45] false),
        PExpr.ruleRef "IntegerOrFloat",
        PExpr.notP (PExpr.ruleRef "AfterNumbers"),
        PExpr.andCode "onNumberLiteral15"
      ]
    ]
}

def rule_30 : Rule := {
  name := "AfterNumbers",
  displayName := "",
  expr :=
    PExpr.andP (PExpr.choice [PExpr.ruleRef "_", PExpr.ruleRef "EOF", PExpr.lit [41] false])
}

def rule_31 : Rule := {
  name := "IntegerOrFloat",
  displayName := "",
  expr :=
    PExpr.seq [
      PExpr.choice [
        PExpr.lit [48] false,
        PExpr.seq [
          PExpr.charClass [] [49, 57] [] false false,
          PExpr.zeroOrMore (PExpr.charClass [] [48, 57] [] false false)
        ]
      ],
      PExpr.zeroOrOne (PExpr.seq [PExpr.lit [46] false, PExpr.oneOrMore (PExpr.charClass [] [48, 57] [] false false)])
    ]
}

def rule_32 : Rule := {
  name := "StringLiteral",
  displayName := "\"string\"",
  expr :=
    PExpr.choice [
      PExpr.action "onStringLiteral2" (
        PExpr.choice [
          PExpr.seq [PExpr.lit [96] false, PExpr.zeroOrMore (PExpr.ruleRef "RawStringChar"), PExpr.lit [96] false],
          PExpr.seq [PExpr.lit [34] false, PExpr.zeroOrMore (PExpr.ruleRef "DoubleStringChar"), PExpr.lit [34] false]
        ]
      ),
      PExpr.seq [
        PExpr.choice [
          PExpr.seq [PExpr.lit [96] false, PExpr.zeroOrMore (PExpr.ruleRef "RawStringChar")],
          PExpr.seq [PExpr.lit [34] false, PExpr.zeroOrMore (PExpr.ruleRef "DoubleStringChar")]
        ],
        PExpr.ruleRef "EOF",
        PExpr.andCode "onStringLiteral25"
      ]
    ]
}

def rule_33 : Rule := {
  name := "RawStringChar",
  displayName := "",
  expr :=
    PExpr.seq [PExpr.notP (PExpr.lit [96] false), PExpr.any]
}

def rule_34 : Rule := {
  name := "DoubleStringChar",
  displayName := "",
  expr :=
    PExpr.seq [PExpr.notP (PExpr.lit [34] false), PExpr.any]
}

def rule_35 : Rule := {
  name := "_",
  displayName := "\"whitespace\"",
  expr :=
    PExpr.oneOrMore (PExpr.charClass [32, 9, 13, 10] [] [] false false)
}

def rule_36 : Rule := {
  name := "EOF",
  displayName := "",
  expr :=
    PExpr.notP PExpr.any
}

def grammar : Grammar := [
  rule_0, rule_1, rule_2, rule_3, rule_4, rule_5, rule_6, rule_7, rule_8, rule_9, rule_10, rule_11, rule_12, rule_13,
  rule_14, rule_15, rule_16, rule_17, rule_18, rule_19, rule_20, rule_21, rule_22, rule_23, rule_24, rule_25, rule_26,
  rule_27, rule_28, rule_29, rule_30, rule_31, rule_32, rule_33, rule_34, rule_35, rule_36
]

end Bexpr.Peg.Pinned.Grammar
