/-
  The text of the error `grammar.Parse("", input, opts…)` returns — `err.Error()`, byte for byte:

    * `read()` maintains `line` / `col`: `posAt`;
    * `addErrAt` gives every entry the prefix `line:col (offset)[: rule <name>]`
      (the file name is `""`, as in `bexpr.CreateEvaluator`), `parserError.Error()` is
      `prefix + ": " + inner.Error()`;
    * when nothing else was logged, `parse` adds `no match found, expected: …` at `maxFailPos`,
      the expected list being the SET of `maxFailExpected`, `"!."` replaced by a trailing `EOF`,
      `sort.Strings` (bytewise), `listJoin(expected, ", ", "or")`;
    * `errList.err()` de-duplicates by message text keeping first occurrences, `errList.Error()`
      joins with `\n`.

  Every piece of wording is a FIELD of `MsgTexts` / `Names`; the instances used against the real
  code are regenerated from `/repo/grammar/grammar.go` (`BexprGen/FailNames.lean`), the instance
  used in kernel-checked examples is the pinned copy `Bexpr/Peg/PinnedFailNames.lean`.

  Faithful for every run that does not abort; for `.panic` entries (failed type assertion,
  unknown node: unreachable for a grammar that type-checks, `Props.C10.parse_never_aborts`) the
  inner text is the model's own description, not Go's runtime message.  A rule whose shown name
  is `""` is treated as "no rule on the stack" (no grammar rule has an empty name).
-/
import Bexpr.Peg.EngineT
import Bexpr.Unquote

namespace Bexpr.Peg

/-! ## positions -/

/-- What one `read()` does to `(line, col)` when `rest` is the input from the offset it arrives
    at: `p.pt.col++; if rn == '\n' { p.pt.line++; p.pt.col = 0 }`. -/
def posStep (rest : GoString) (lc : Nat × Nat) : Nat × Nat :=
  if (Utf8.decodeRune rest).1 == 10 then (lc.1 + 1, 0) else (lc.1, lc.2 + 1)

/-- Replay the reads from offset `cur` (where `rest` starts; `lc` = line/col before the read that
    arrives at `cur`) until an offset `≥ target` is reached or the input ends. -/
def posScan : Nat → GoString → Nat → Nat × Nat → Nat → Nat × Nat
  | 0, _, _, lc, _ => lc
  | fuel + 1, rest, cur, lc, target =>
    let lc' := posStep rest lc
    let w := (Utf8.decodeRune rest).2
    if target ≤ cur || w == 0 then lc' else posScan fuel (rest.drop w) (cur + w) lc' target

/-- `(line, col)` of `p.pt` when `p.pt.offset = off` (`newParser`: `line: 1`, `col: 0`; the first
    `read()` arrives at offset 0).  Linear in `off`. -/
def posAt (input : GoString) (off : Nat) : Nat × Nat :=
  posScan (input.length + 1) input 0 (1, 0) off

/-- The runes the same reads make current (for the characterisation of `posAt`). -/
def readRunes : Nat → GoString → Nat → Nat → List Nat
  | 0, _, _, _ => []
  | fuel + 1, rest, cur, target =>
    let rn := (Utf8.decodeRune rest).1
    let w := (Utf8.decodeRune rest).2
    if target ≤ cur || w == 0 then [rn] else rn :: readRunes fuel (rest.drop w) (cur + w) target

/-- the runes `read()` has made current by the time `p.pt.offset` reaches `off`, the one AT `off`
    (or the end-of-input pseudo rune) included -/
def runesRead (input : GoString) (off : Nat) : List Nat :=
  readRunes (input.length + 1) input 0 off

/-- `maxFailPos` as reported: the initial `position{col: 1, line: 1}` unless `failAt` moved it
    (which it only does to a strictly larger offset). -/
def farPos (input : GoString) (off : Nat) : Nat × Nat :=
  if off == 0 then (1, 1) else posAt input off

/-! ## wording -/

/-- The strings of `grammar.go`'s engine part that end up in messages. -/
structure MsgTexts where
  /-- `errNoRule`, `errInvalidEntrypoint`, `errInvalidEncoding`, `errMaxExprCnt` -/
  noRule : GoString
  invalidEntrypoint : GoString
  invalidEncoding : GoString
  maxExprCnt : GoString
  /-- `"no match found, expected: "` and the arguments `", "`, `"or"` of `listJoin` in `parse` -/
  noMatchPrefix : GoString
  listSep : GoString
  listLastSep : GoString
  /-- the two `" "` of `listJoin`'s default case -/
  joinPad1 : GoString
  joinPad2 : GoString
  /-- `"!."` (the key `parse` deletes) and `"EOF"` (what it appends instead) -/
  notAnyKey : GoString
  eofName : GoString
  /-- `"%d:%d (%d)"` split at its three verbs -/
  pos0 : GoString
  pos1 : GoString
  pos2 : GoString
  pos3 : GoString
  /-- `": "` and `"rule "` of `addErrAt` -/
  ruleSep : GoString
  rulePrefix : GoString
  /-- `": "` of `parserError.Error`, `'\n'` of `errList.Error` -/
  errSep : GoString
  lineSep : GoString
  /-- `"undefined rule: %s"` up to its verb -/
  undefinedRulePrefix : GoString

/-! ## the expected list -/

/-- Go's `<` on strings: bytewise lexicographic. -/
def bytesLt : GoString → GoString → Bool
  | [], [] => false
  | [], _ :: _ => true
  | _ :: _, [] => false
  | a :: as, b :: bs => a < b || (a == b && bytesLt as bs)

/-- insert into a strictly increasing list, dropping a duplicate -/
def insertSorted (s : GoString) : List GoString → List GoString
  | [] => [s]
  | t :: ts =>
    if bytesLt s t then s :: t :: ts else if s == t then t :: ts else t :: insertSorted s ts

/-- the elements of a list as a strictly increasing list: the key set of `maxFailExpectedMap`
    after `sort.Strings` -/
def sortSet (xs : List GoString) : List GoString := xs.foldl (fun acc x => insertSorted x acc) []

/-- `expected` as `parse` computes it from `maxFailExpected`. -/
def expectedOf (tx : MsgTexts) (maxFailExpected : List GoString) : List GoString :=
  let eof := maxFailExpected.contains tx.notAnyKey
  let rest := sortSet (maxFailExpected.filter (· != tx.notAnyKey))
  if eof then rest ++ [tx.eofName] else rest

/-- `listJoin(list, sep, lastSep)` -/
def listJoin (tx : MsgTexts) (list : List GoString) (sep lastSep : GoString) : GoString :=
  match list with
  | [] => []
  | [x] => x
  | _ => GoString.join sep list.dropLast ++ tx.joinPad1 ++ lastSep ++ tx.joinPad2 ++
      (list.getLast?.getD [])

/-! ## entries -/

/-- message of an error returned by an action or a code predicate: `predErr` keeps the Go string
    literal token as written, everything else is the text itself -/
def actionText (msg : String) : GoString :=
  let b := GoString.ofString msg
  match b with
  | 34 :: _ => (Strconv.unquote b).getD b
  | 96 :: _ => (Strconv.unquote b).getD b
  | _ => b

/-- `fmt.Sprintf("%d:%d (%d)", pos.line, pos.col, pos.offset)` -/
def posText (tx : MsgTexts) (line col off : Nat) : GoString :=
  tx.pos0 ++ natToDec line ++ tx.pos1 ++ natToDec col ++ tx.pos2 ++ natToDec off ++ tx.pos3

/-- the position `addErrAt` receives for an entry -/
def entryPos (input : GoString) (e : PErr) : Nat × Nat :=
  match e.kind with
  | .noMatch => farPos input e.off            -- `p.maxFailPos`
  | .noRule => (1, 0)                         -- `addErr` before the first `read()`
  | _ => posAt input e.off                    -- `p.pt.position` / `start.position`

/-- `Inner.Error()` -/
def innerText (tx : MsgTexts) (expected : List GoString) (e : PErr) : GoString :=
  match e.kind with
  | .action msg => actionText msg
  | .invalidEncoding => tx.invalidEncoding
  | .undefinedRule n => tx.undefinedRulePrefix ++ GoString.ofString n
  | .maxExpr => tx.maxExprCnt
  | .panic msg => GoString.ofString msg
  | .noMatch => tx.noMatchPrefix ++ listJoin tx expected tx.listSep tx.listLastSep
  | .noRule => tx.noRule

/-- `parserError.Error()` of one entry -/
def entryText (tx : MsgTexts) (input : GoString) (expected : List GoString) (e : PErr) :
    GoString :=
  let lc := entryPos input e
  let pre := posText tx lc.1 lc.2 e.off
  let pre := if e.rule == "" then pre else pre ++ tx.ruleSep ++ tx.rulePrefix ++ GoString.ofString e.rule
  pre ++ tx.errSep ++ innerText tx expected e

/-! ## the list -/

/-- `errList.dedupe`: keep the first occurrence of every message (`seen` = messages kept so far) -/
def dedupeAux (seen : List GoString) : List GoString → List GoString
  | [] => []
  | x :: xs => if seen.contains x then dedupeAux seen xs else x :: dedupeAux (x :: seen) xs

def dedupe (xs : List GoString) : List GoString := dedupeAux [] xs

/-- the lines of the message, before and after `dedupe` -/
def errorLinesRaw (tx : MsgTexts) (input : GoString) (o : ParseOutT) : List GoString :=
  let expected := expectedOf tx o.track.expected
  o.errs.map (entryText tx input expected)

def errorLines (tx : MsgTexts) (input : GoString) (o : ParseOutT) : List GoString :=
  dedupe (errorLinesRaw tx input o)

/-- `err.Error()` of what `Parse` returns for the run `o` on `input`; `none` when `err == nil`. -/
def errorTextOf (tx : MsgTexts) (input : GoString) (o : ParseOutT) : Option GoString :=
  if o.errs.isEmpty then none else some (GoString.join tx.lineSep (errorLines tx input o))

/-- `grammar.Parse("", input, grammar.MaxExpressions(max))` ↦ `err.Error()` -/
def errorText (nm : Names) (tx : MsgTexts) (env : Env) (g : Grammar) (maxExprCnt : Nat)
    (input : GoString) : Option GoString :=
  errorTextOf tx input (runT nm env g maxExprCnt input)

/-! ## names from a regenerated table -/

/-- what a matcher node that the table does not list is called: never a silent default -/
def unknownWant : GoString := GoString.ofString "unknown:matcher node without a want/val string"

/-- equality of two matcher nodes (literal / character class) by content; spelled out because the
    derived `BEq PExpr` (a nested inductive) does not reduce in the kernel -/
def matcherEq : PExpr → PExpr → Bool
  | .lit v i, .lit v' i' => v == v' && i == i'
  | .charClass c r cl i inv, .charClass c' r' cl' i' inv' =>
    c == c' && r == r' && cl == cl' && i == i' && inv == inv'
  | _, _ => false

/-- lookup of a matcher node BY CONTENT in a table `node ↦ text` (`BexprGen.FailNames.goWants`) -/
def wantOf (table : List (PExpr × GoString)) (anyWant : GoString) (e : PExpr) : GoString :=
  match e with
  | .any => anyWant
  | _ =>
    match table.find? (fun p => matcherEq p.1 e) with
    | some (_, w) => w
    | none => unknownWant

mutual
/-- the literal and character-class nodes of an expression (the any matcher has one fixed name) -/
def matchersOf : PExpr → List PExpr
  | .choice alts => matchersOfList alts
  | .seq es => matchersOfList es
  | .action _ e => matchersOf e
  | .labeled _ e => matchersOf e
  | .ruleRef _ => []
  | .lit v i => [.lit v i]
  | .charClass c r cl i inv => [.charClass c r cl i inv]
  | .any => []
  | .andP e => matchersOf e
  | .notP e => matchersOf e
  | .andCode _ => []
  | .notCode _ => []
  | .zeroOrOne e => matchersOf e
  | .zeroOrMore e => matchersOf e
  | .oneOrMore e => matchersOf e
  | .unsupported _ => []
def matchersOfList : List PExpr → List PExpr
  | [] => []
  | e :: es => matchersOf e ++ matchersOfList es
end

/-- every matcher node of the grammar has an entry in the table (so `unknownWant` is never used) -/
def tableCovers (table : List (PExpr × GoString)) (g : Grammar) : Bool :=
  g.all fun r => (matchersOf r.expr).all fun e => table.any fun p => matcherEq p.1 e

/-- two tables give every node they list the same text (compared by content, order-insensitive) -/
def tablesAgree (t1 t2 : List (PExpr × GoString)) : Bool :=
  (t1.all fun p => t2.any fun q => matcherEq p.1 q.1 && p.2 == q.2) &&
  (t2.all fun q => t1.any fun p => matcherEq p.1 q.1 && p.2 == q.2)

def namesOf (table : List (PExpr × GoString)) (anyWant bang : GoString) : Names :=
  { want := wantOf table anyWant, bang := bang }

end Bexpr.Peg
