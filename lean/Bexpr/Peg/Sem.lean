/-
  Declarative (big-step, budget-free, fuel-free) semantics of the grammar table as an
  ordered-choice PEG with pigeon's extensions: labels, semantic actions, code predicates, the
  append-only error log ("explicit error productions": an action that returns an error logs it
  and the match still succeeds), and the run-time panics of the generated parser (`abort`).

  A judgement

      Sem env g rule e fr pt errs o

  reads: "expression `e`, evaluated inside rule `rule` (display name, used only to tag logged
  errors) with label frame `fr`, at input position `pt`, with error log `errs` (newest first),
  has outcome `o`", where `o` is either

      .res pt' errs' fr' v matched     -- new position, new log, new frame, value, match flag
      .abort msg                       -- a Go panic other than the expression budget

  There is no step counter and no fuel: a judgement is a finite derivation tree.  An expression
  that loops (left recursion, `e*` over a non-consuming `e`) simply has no outcome.

  The element lists of `seq` / `choice` and the iterations of `*` / `+` have their own
  relations (`SemSeq`, `SemChoice`, `SemStar`), mutually inductive with `Sem`.

  What the rules say, in PEG-textbook terms:
  * ordered choice: alternatives are tried left to right, the first that matches wins; a failed
    alternative hands on only its log (`Sem.fail_pt` in `Proofs/SemRefine.lean`: a failed match
    never moves the position), its labels are dropped;
  * a sequence threads position, log and frame through its elements, collects the values, and
    restores the position if an element fails;
  * `&e` / `!e` never consume and drop the labels of `e`; `e?` always matches;
    `e*` / `e+` are greedy: the iterations form a list that ends with the first failing one;
  * `l:e` evaluates `e` in a fresh frame and binds its value in the current frame; rules,
    alternatives, predicates and repetitions evaluate their body in a fresh frame and drop it;
    sequences and actions thread the frame;
  * an action runs when its expression matched, on the matched text and the frame; its error
    is logged at the START offset of the action and the match still succeeds; a code predicate
    logs at the current offset;
  * the log is threaded through successful AND failed branches and is never rolled back;
  * a reference to an undefined rule logs `undefinedRule` and fails; `ruleRef ""`, an
    `unsupported` node, an `ignoreCase` matcher, an unknown Unicode class and a panicking
    action / predicate abort.
-/
import Bexpr.Peg.Engine

namespace Bexpr.Peg

/-- Outcome of a judgement. -/
inductive SemOut where
  | res (pt : Pt) (errs : List PErr) (fr : Frame) (v : PVal) (matched : Bool)
  | abort (msg : String)

/-- Outcome of a sequence body: all elements matched (values in order), or one failed (position,
    log and frame at the point of failure), or a panic. -/
inductive SeqOut where
  | ok (pt : Pt) (errs : List PErr) (fr : Frame) (vs : List PVal)
  | fail (pt : Pt) (errs : List PErr) (fr : Frame)
  | abort (msg : String)

/-- Put the value of an earlier element in front. -/
def SeqOut.cons (v : PVal) : SeqOut → SeqOut
  | .ok pt errs fr vs => .ok pt errs fr (v :: vs)
  | o => o

/-- Outcome of the iterations of `e*`: it always matches (values in order), or a panic. -/
inductive StarOut where
  | done (pt : Pt) (errs : List PErr) (vs : List PVal)
  | abort (msg : String)

def StarOut.cons (v : PVal) : StarOut → StarOut
  | .done pt errs vs => .done pt errs (v :: vs)
  | o => o

/-! ## Reading one rune -/

/-- The position after consuming the current rune: skip its bytes, decode the next rune. -/
def Pt.next (pt : Pt) : Pt :=
  let rest := pt.rest.drop pt.w
  let d := Utf8.decodeRune rest
  { rest := rest, off := pt.off + pt.w, rn := d.1, w := d.2 }

/-- Arriving at `pt'` logs `invalid encoding` if the rune there is a bad byte. -/
def logRead (rule : String) (pt' : Pt) (errs : List PErr) : List PErr :=
  if pt'.rn == runeError && pt'.w == 1 then
    { off := pt'.off, rule := rule, kind := .invalidEncoding } :: errs
  else errs

/-- The error (if any) returned by an action / code predicate is logged at `off`. -/
def logAct (off : Nat) (rule : String) (err : Option String) (errs : List PErr) : List PErr :=
  match err with
  | none => errs
  | some msg => { off := off, rule := rule, kind := .action msg } :: errs

/-- Matching the runes of a literal one by one from `pt`: `SemLit rule ws pt errs pt' errs' b`
    — all runes matched (`b = true`, `pt'` after the literal) or the first mismatch was found
    at `pt'` (`b = false`).  Each consumed rune is a `read` (which may log). -/
inductive SemLit (rule : String) : List Nat → Pt → List PErr → Pt → List PErr → Bool → Prop
  | nil {pt errs} : SemLit rule [] pt errs pt errs true
  | mismatch {w ws pt errs} : pt.rn ≠ w → SemLit rule (w :: ws) pt errs pt errs false
  | step {w ws pt errs pt' errs' b} : pt.rn = w →
      SemLit rule ws pt.next (logRead rule pt.next errs) pt' errs' b →
      SemLit rule (w :: ws) pt errs pt' errs' b

/-! ## The judgement -/

mutual

inductive Sem (env : Env) (g : Grammar) :
    String → PExpr → Frame → Pt → List PErr → SemOut → Prop
  /- `.` -/
  | any_eof {rule fr pt errs} : atEOF pt = true →
      Sem env g rule .any fr pt errs (.res pt errs fr .nil false)
  | any_ok {rule fr pt errs} : atEOF pt = false →
      Sem env g rule .any fr pt errs
        (.res pt.next (logRead rule pt.next errs) fr (.bytes (sliceFrom pt pt.next)) true)
  /- `"literal"` -/
  | lit_ok {rule fr pt errs val pt' errs'} : SemLit rule val pt errs pt' errs' true →
      Sem env g rule (.lit val false) fr pt errs
        (.res pt' errs' fr (.bytes (sliceFrom pt pt')) true)
  | lit_fail {rule fr pt errs val pt' errs'} : SemLit rule val pt errs pt' errs' false →
      Sem env g rule (.lit val false) fr pt errs (.res pt errs' fr .nil false)
  | lit_ignoreCase {rule fr pt errs val} :
      Sem env g rule (.lit val true) fr pt errs (.abort "unsupported: ignoreCase literal")
  /- `[class]` -/
  | class_ignoreCase {rule fr pt errs chars ranges classes inverted} :
      Sem env g rule (.charClass chars ranges classes true inverted) fr pt errs
        (.abort "unsupported: ignoreCase class")
  | class_eof {rule fr pt errs chars ranges classes inverted} : atEOF pt = true →
      Sem env g rule (.charClass chars ranges classes false inverted) fr pt errs
        (.res pt errs fr .nil false)
  | class_unknown {rule fr pt errs chars ranges classes inverted} : atEOF pt = false →
      classMatches env chars ranges classes pt.rn = none →
      Sem env g rule (.charClass chars ranges classes false inverted) fr pt errs
        (.abort "unsupported: unicode class")
  | class_ok {rule fr pt errs chars ranges classes inverted hit} : atEOF pt = false →
      classMatches env chars ranges classes pt.rn = some hit → hit ≠ inverted →
      Sem env g rule (.charClass chars ranges classes false inverted) fr pt errs
        (.res pt.next (logRead rule pt.next errs) fr (.bytes (sliceFrom pt pt.next)) true)
  | class_fail {rule fr pt errs chars ranges classes inverted hit} : atEOF pt = false →
      classMatches env chars ranges classes pt.rn = some hit → hit = inverted →
      Sem env g rule (.charClass chars ranges classes false inverted) fr pt errs
        (.res pt errs fr .nil false)
  /- `&{ code }` and `!{ code }` -/
  | andCode_ret {rule fr pt errs name b err} : env.pred name fr = .ret b err →
      Sem env g rule (.andCode name) fr pt errs
        (.res pt (logAct pt.off rule err errs) fr .nil b)
  | andCode_panic {rule fr pt errs name msg} : env.pred name fr = .panic msg →
      Sem env g rule (.andCode name) fr pt errs (.abort msg)
  | notCode_ret {rule fr pt errs name b err} : env.pred name fr = .ret b err →
      Sem env g rule (.notCode name) fr pt errs
        (.res pt (logAct pt.off rule err errs) fr .nil (!b))
  | notCode_panic {rule fr pt errs name msg} : env.pred name fr = .panic msg →
      Sem env g rule (.notCode name) fr pt errs (.abort msg)
  /- `&e` and `!e`: fresh frame, position restored, labels dropped, log kept -/
  | andP_res {rule fr pt errs e pt' errs' fr' v m} :
      Sem env g rule e [] pt errs (.res pt' errs' fr' v m) →
      Sem env g rule (.andP e) fr pt errs (.res pt errs' fr .nil m)
  | andP_abort {rule fr pt errs e msg} :
      Sem env g rule e [] pt errs (.abort msg) →
      Sem env g rule (.andP e) fr pt errs (.abort msg)
  | notP_res {rule fr pt errs e pt' errs' fr' v m} :
      Sem env g rule e [] pt errs (.res pt' errs' fr' v m) →
      Sem env g rule (.notP e) fr pt errs (.res pt errs' fr .nil (!m))
  | notP_abort {rule fr pt errs e msg} :
      Sem env g rule e [] pt errs (.abort msg) →
      Sem env g rule (.notP e) fr pt errs (.abort msg)
  /- `e { code }`: the frame is threaded; the action sees the labels bound by `e` -/
  | action_ret {rule fr pt errs name e pt' errs' fr' v av err} :
      Sem env g rule e fr pt errs (.res pt' errs' fr' v true) →
      env.action name fr' (sliceFrom pt pt') = .ret av err →
      Sem env g rule (.action name e) fr pt errs
        (.res pt' (logAct pt.off rule err errs') fr' av true)
  | action_panic {rule fr pt errs name e pt' errs' fr' v msg} :
      Sem env g rule e fr pt errs (.res pt' errs' fr' v true) →
      env.action name fr' (sliceFrom pt pt') = .panic msg →
      Sem env g rule (.action name e) fr pt errs (.abort msg)
  | action_fail {rule fr pt errs name e pt' errs' fr' v} :
      Sem env g rule e fr pt errs (.res pt' errs' fr' v false) →
      Sem env g rule (.action name e) fr pt errs (.res pt' errs' fr' v false)
  | action_abort {rule fr pt errs name e msg} :
      Sem env g rule e fr pt errs (.abort msg) →
      Sem env g rule (.action name e) fr pt errs (.abort msg)
  /- `l:e`: `e` in a fresh frame, its value bound in the current frame -/
  | labeled_ok {rule fr pt errs l e pt' errs' fr' v} :
      Sem env g rule e [] pt errs (.res pt' errs' fr' v true) →
      Sem env g rule (.labeled l e) fr pt errs
        (.res pt' errs' (if l != "" then fr.set l v else fr) v true)
  | labeled_fail {rule fr pt errs l e pt' errs' fr' v} :
      Sem env g rule e [] pt errs (.res pt' errs' fr' v false) →
      Sem env g rule (.labeled l e) fr pt errs (.res pt' errs' fr v false)
  | labeled_abort {rule fr pt errs l e msg} :
      Sem env g rule e [] pt errs (.abort msg) →
      Sem env g rule (.labeled l e) fr pt errs (.abort msg)
  /- `Name`: the body of the rule in a fresh frame, errors tagged with the callee's name -/
  | ruleRef_noName {rule fr pt errs} :
      Sem env g rule (.ruleRef "") fr pt errs (.abort "invalid rule: missing name")
  | ruleRef_undefined {rule fr pt errs name} : name ≠ "" → lookupRule g name = none →
      Sem env g rule (.ruleRef name) fr pt errs
        (.res pt ({ off := pt.off, rule := rule, kind := .undefinedRule name } :: errs)
          fr .nil false)
  | ruleRef_res {rule fr pt errs name r pt' errs' fr' v m} : name ≠ "" →
      lookupRule g name = some r →
      Sem env g r.shown r.expr [] pt errs (.res pt' errs' fr' v m) →
      Sem env g rule (.ruleRef name) fr pt errs (.res pt' errs' fr v m)
  | ruleRef_abort {rule fr pt errs name r msg} : name ≠ "" →
      lookupRule g name = some r →
      Sem env g r.shown r.expr [] pt errs (.abort msg) →
      Sem env g rule (.ruleRef name) fr pt errs (.abort msg)
  /- `e₁ e₂ … eₙ` -/
  | seq_ok {rule fr pt errs es pt' errs' fr' vs} :
      SemSeq env g rule es fr pt errs (.ok pt' errs' fr' vs) →
      Sem env g rule (.seq es) fr pt errs (.res pt' errs' fr' (.list vs) true)
  | seq_fail {rule fr pt errs es pt' errs' fr'} :
      SemSeq env g rule es fr pt errs (.fail pt' errs' fr') →
      Sem env g rule (.seq es) fr pt errs (.res pt errs' fr' .nil false)
  | seq_abort {rule fr pt errs es msg} :
      SemSeq env g rule es fr pt errs (.abort msg) →
      Sem env g rule (.seq es) fr pt errs (.abort msg)
  /- `e₁ / e₂ / … / eₙ` -/
  | choice {rule fr pt errs alts o} :
      SemChoice env g rule alts fr pt errs o →
      Sem env g rule (.choice alts) fr pt errs o
  /- `e?` -/
  | opt_some {rule fr pt errs e pt' errs' fr' v} :
      Sem env g rule e [] pt errs (.res pt' errs' fr' v true) →
      Sem env g rule (.zeroOrOne e) fr pt errs (.res pt' errs' fr v true)
  | opt_none {rule fr pt errs e pt' errs' fr' v} :
      Sem env g rule e [] pt errs (.res pt' errs' fr' v false) →
      Sem env g rule (.zeroOrOne e) fr pt errs (.res pt' errs' fr .nil true)
  | opt_abort {rule fr pt errs e msg} :
      Sem env g rule e [] pt errs (.abort msg) →
      Sem env g rule (.zeroOrOne e) fr pt errs (.abort msg)
  /- `e*` -/
  | star_done {rule fr pt errs e pt' errs' vs} :
      SemStar env g rule e pt errs (.done pt' errs' vs) →
      Sem env g rule (.zeroOrMore e) fr pt errs (.res pt' errs' fr (.list vs) true)
  | star_abort {rule fr pt errs e msg} :
      SemStar env g rule e pt errs (.abort msg) →
      Sem env g rule (.zeroOrMore e) fr pt errs (.abort msg)
  /- `e+` -/
  | plus_none {rule fr pt errs e pt' errs' fr' v} :
      Sem env g rule e [] pt errs (.res pt' errs' fr' v false) →
      Sem env g rule (.oneOrMore e) fr pt errs (.res pt' errs' fr .nil false)
  | plus_abort_first {rule fr pt errs e msg} :
      Sem env g rule e [] pt errs (.abort msg) →
      Sem env g rule (.oneOrMore e) fr pt errs (.abort msg)
  | plus_done {rule fr pt errs e pt₁ errs₁ fr₁ v pt' errs' vs} :
      Sem env g rule e [] pt errs (.res pt₁ errs₁ fr₁ v true) →
      SemStar env g rule e pt₁ errs₁ (.done pt' errs' vs) →
      Sem env g rule (.oneOrMore e) fr pt errs (.res pt' errs' fr (.list (v :: vs)) true)
  | plus_abort {rule fr pt errs e pt₁ errs₁ fr₁ v msg} :
      Sem env g rule e [] pt errs (.res pt₁ errs₁ fr₁ v true) →
      SemStar env g rule e pt₁ errs₁ (.abort msg) →
      Sem env g rule (.oneOrMore e) fr pt errs (.abort msg)
  /- throw / recovery / state code: not part of the grammar language handled here -/
  | unsupported {rule fr pt errs what} :
      Sem env g rule (.unsupported what) fr pt errs (.abort ("unsupported node: " ++ what))

/-- The elements of a sequence, left to right, threading position, log and frame. -/
inductive SemSeq (env : Env) (g : Grammar) :
    String → List PExpr → Frame → Pt → List PErr → SeqOut → Prop
  | nil {rule fr pt errs} : SemSeq env g rule [] fr pt errs (.ok pt errs fr [])
  | cons {rule fr pt errs e es pt₁ errs₁ fr₁ v o} :
      Sem env g rule e fr pt errs (.res pt₁ errs₁ fr₁ v true) →
      SemSeq env g rule es fr₁ pt₁ errs₁ o →
      SemSeq env g rule (e :: es) fr pt errs (o.cons v)
  | fail {rule fr pt errs e es pt₁ errs₁ fr₁ v} :
      Sem env g rule e fr pt errs (.res pt₁ errs₁ fr₁ v false) →
      SemSeq env g rule (e :: es) fr pt errs (.fail pt₁ errs₁ fr₁)
  | abort {rule fr pt errs e es msg} :
      Sem env g rule e fr pt errs (.abort msg) →
      SemSeq env g rule (e :: es) fr pt errs (.abort msg)

/-- The alternatives of an ordered choice, left to right; `fr` is the frame of the choice
    node itself (returned unchanged), each alternative runs in a fresh frame. -/
inductive SemChoice (env : Env) (g : Grammar) :
    String → List PExpr → Frame → Pt → List PErr → SemOut → Prop
  | exhausted {rule fr pt errs} :
      SemChoice env g rule [] fr pt errs (.res pt errs fr .nil false)
  | hit {rule fr pt errs a as pt₁ errs₁ fr₁ v} :
      Sem env g rule a [] pt errs (.res pt₁ errs₁ fr₁ v true) →
      SemChoice env g rule (a :: as) fr pt errs (.res pt₁ errs₁ fr v true)
  | next {rule fr pt errs a as pt₁ errs₁ fr₁ v o} :
      Sem env g rule a [] pt errs (.res pt₁ errs₁ fr₁ v false) →
      SemChoice env g rule as fr pt₁ errs₁ o →
      SemChoice env g rule (a :: as) fr pt errs o
  | abortAlt {rule fr pt errs a as msg} :
      Sem env g rule a [] pt errs (.abort msg) →
      SemChoice env g rule (a :: as) fr pt errs (.abort msg)

/-- The iterations of `e*` from `pt`: greedy, each in a fresh frame, ending with the first
    iteration that fails (whose log is kept). -/
inductive SemStar (env : Env) (g : Grammar) :
    String → PExpr → Pt → List PErr → StarOut → Prop
  | stop {rule e pt errs pt₁ errs₁ fr₁ v} :
      Sem env g rule e [] pt errs (.res pt₁ errs₁ fr₁ v false) →
      SemStar env g rule e pt errs (.done pt₁ errs₁ [])
  | more {rule e pt errs pt₁ errs₁ fr₁ v o} :
      Sem env g rule e [] pt errs (.res pt₁ errs₁ fr₁ v true) →
      SemStar env g rule e pt₁ errs₁ o →
      SemStar env g rule e pt errs (o.cons v)
  | abortIter {rule e pt errs msg} :
      Sem env g rule e [] pt errs (.abort msg) →
      SemStar env g rule e pt errs (.abort msg)

end

/-! ## Derivation size

  `SemN … o N` is `Sem … o` together with the size `N` of the derivation, counted in `Sem`
  nodes (one per expression evaluation; the list relations and `SemLit` are free).  The rules
  are those of `Sem`, rule by rule; `Proofs/SemRefine.lean` proves
  `Sem … o ↔ ∃ N, SemN … o N` (`semN_iff`) and that `N` is unique.  `N` is what pigeon calls the
  expression count: the engine reproduces a derivation of size `N` in exactly `N` `parseExpr`
  calls (`engine_complete`). -/

mutual

inductive SemN (env : Env) (g : Grammar) :
    String → PExpr → Frame → Pt → List PErr → SemOut → Nat → Prop
  | any_eof {rule fr pt errs} : atEOF pt = true →
      SemN env g rule .any fr pt errs (.res pt errs fr .nil false) 1
  | any_ok {rule fr pt errs} : atEOF pt = false →
      SemN env g rule .any fr pt errs
        (.res pt.next (logRead rule pt.next errs) fr (.bytes (sliceFrom pt pt.next)) true) 1
  | lit_ok {rule fr pt errs val pt' errs'} : SemLit rule val pt errs pt' errs' true →
      SemN env g rule (.lit val false) fr pt errs
        (.res pt' errs' fr (.bytes (sliceFrom pt pt')) true) 1
  | lit_fail {rule fr pt errs val pt' errs'} : SemLit rule val pt errs pt' errs' false →
      SemN env g rule (.lit val false) fr pt errs (.res pt errs' fr .nil false) 1
  | lit_ignoreCase {rule fr pt errs val} :
      SemN env g rule (.lit val true) fr pt errs (.abort "unsupported: ignoreCase literal") 1
  | class_ignoreCase {rule fr pt errs chars ranges classes inverted} :
      SemN env g rule (.charClass chars ranges classes true inverted) fr pt errs
        (.abort "unsupported: ignoreCase class") 1
  | class_eof {rule fr pt errs chars ranges classes inverted} : atEOF pt = true →
      SemN env g rule (.charClass chars ranges classes false inverted) fr pt errs
        (.res pt errs fr .nil false) 1
  | class_unknown {rule fr pt errs chars ranges classes inverted} : atEOF pt = false →
      classMatches env chars ranges classes pt.rn = none →
      SemN env g rule (.charClass chars ranges classes false inverted) fr pt errs
        (.abort "unsupported: unicode class") 1
  | class_ok {rule fr pt errs chars ranges classes inverted hit} : atEOF pt = false →
      classMatches env chars ranges classes pt.rn = some hit → hit ≠ inverted →
      SemN env g rule (.charClass chars ranges classes false inverted) fr pt errs
        (.res pt.next (logRead rule pt.next errs) fr (.bytes (sliceFrom pt pt.next)) true) 1
  | class_fail {rule fr pt errs chars ranges classes inverted hit} : atEOF pt = false →
      classMatches env chars ranges classes pt.rn = some hit → hit = inverted →
      SemN env g rule (.charClass chars ranges classes false inverted) fr pt errs
        (.res pt errs fr .nil false) 1
  | andCode_ret {rule fr pt errs name b err} : env.pred name fr = .ret b err →
      SemN env g rule (.andCode name) fr pt errs
        (.res pt (logAct pt.off rule err errs) fr .nil b) 1
  | andCode_panic {rule fr pt errs name msg} : env.pred name fr = .panic msg →
      SemN env g rule (.andCode name) fr pt errs (.abort msg) 1
  | notCode_ret {rule fr pt errs name b err} : env.pred name fr = .ret b err →
      SemN env g rule (.notCode name) fr pt errs
        (.res pt (logAct pt.off rule err errs) fr .nil (!b)) 1
  | notCode_panic {rule fr pt errs name msg} : env.pred name fr = .panic msg →
      SemN env g rule (.notCode name) fr pt errs (.abort msg) 1
  | andP_res {rule fr pt errs e pt' errs' fr' v m N} :
      SemN env g rule e [] pt errs (.res pt' errs' fr' v m) N →
      SemN env g rule (.andP e) fr pt errs (.res pt errs' fr .nil m) (N + 1)
  | andP_abort {rule fr pt errs e msg N} :
      SemN env g rule e [] pt errs (.abort msg) N →
      SemN env g rule (.andP e) fr pt errs (.abort msg) (N + 1)
  | notP_res {rule fr pt errs e pt' errs' fr' v m N} :
      SemN env g rule e [] pt errs (.res pt' errs' fr' v m) N →
      SemN env g rule (.notP e) fr pt errs (.res pt errs' fr .nil (!m)) (N + 1)
  | notP_abort {rule fr pt errs e msg N} :
      SemN env g rule e [] pt errs (.abort msg) N →
      SemN env g rule (.notP e) fr pt errs (.abort msg) (N + 1)
  | action_ret {rule fr pt errs name e pt' errs' fr' v av err N} :
      SemN env g rule e fr pt errs (.res pt' errs' fr' v true) N →
      env.action name fr' (sliceFrom pt pt') = .ret av err →
      SemN env g rule (.action name e) fr pt errs
        (.res pt' (logAct pt.off rule err errs') fr' av true) (N + 1)
  | action_panic {rule fr pt errs name e pt' errs' fr' v msg N} :
      SemN env g rule e fr pt errs (.res pt' errs' fr' v true) N →
      env.action name fr' (sliceFrom pt pt') = .panic msg →
      SemN env g rule (.action name e) fr pt errs (.abort msg) (N + 1)
  | action_fail {rule fr pt errs name e pt' errs' fr' v N} :
      SemN env g rule e fr pt errs (.res pt' errs' fr' v false) N →
      SemN env g rule (.action name e) fr pt errs (.res pt' errs' fr' v false) (N + 1)
  | action_abort {rule fr pt errs name e msg N} :
      SemN env g rule e fr pt errs (.abort msg) N →
      SemN env g rule (.action name e) fr pt errs (.abort msg) (N + 1)
  | labeled_ok {rule fr pt errs l e pt' errs' fr' v N} :
      SemN env g rule e [] pt errs (.res pt' errs' fr' v true) N →
      SemN env g rule (.labeled l e) fr pt errs
        (.res pt' errs' (if l != "" then fr.set l v else fr) v true) (N + 1)
  | labeled_fail {rule fr pt errs l e pt' errs' fr' v N} :
      SemN env g rule e [] pt errs (.res pt' errs' fr' v false) N →
      SemN env g rule (.labeled l e) fr pt errs (.res pt' errs' fr v false) (N + 1)
  | labeled_abort {rule fr pt errs l e msg N} :
      SemN env g rule e [] pt errs (.abort msg) N →
      SemN env g rule (.labeled l e) fr pt errs (.abort msg) (N + 1)
  | ruleRef_noName {rule fr pt errs} :
      SemN env g rule (.ruleRef "") fr pt errs (.abort "invalid rule: missing name") 1
  | ruleRef_undefined {rule fr pt errs name} : name ≠ "" → lookupRule g name = none →
      SemN env g rule (.ruleRef name) fr pt errs
        (.res pt ({ off := pt.off, rule := rule, kind := .undefinedRule name } :: errs)
          fr .nil false) 1
  | ruleRef_res {rule fr pt errs name r pt' errs' fr' v m N} : name ≠ "" →
      lookupRule g name = some r →
      SemN env g r.shown r.expr [] pt errs (.res pt' errs' fr' v m) N →
      SemN env g rule (.ruleRef name) fr pt errs (.res pt' errs' fr v m) (N + 1)
  | ruleRef_abort {rule fr pt errs name r msg N} : name ≠ "" →
      lookupRule g name = some r →
      SemN env g r.shown r.expr [] pt errs (.abort msg) N →
      SemN env g rule (.ruleRef name) fr pt errs (.abort msg) (N + 1)
  | seq_ok {rule fr pt errs es pt' errs' fr' vs N} :
      SemSeqN env g rule es fr pt errs (.ok pt' errs' fr' vs) N →
      SemN env g rule (.seq es) fr pt errs (.res pt' errs' fr' (.list vs) true) (N + 1)
  | seq_fail {rule fr pt errs es pt' errs' fr' N} :
      SemSeqN env g rule es fr pt errs (.fail pt' errs' fr') N →
      SemN env g rule (.seq es) fr pt errs (.res pt errs' fr' .nil false) (N + 1)
  | seq_abort {rule fr pt errs es msg N} :
      SemSeqN env g rule es fr pt errs (.abort msg) N →
      SemN env g rule (.seq es) fr pt errs (.abort msg) (N + 1)
  | choice {rule fr pt errs alts o N} :
      SemChoiceN env g rule alts fr pt errs o N →
      SemN env g rule (.choice alts) fr pt errs o (N + 1)
  | opt_some {rule fr pt errs e pt' errs' fr' v N} :
      SemN env g rule e [] pt errs (.res pt' errs' fr' v true) N →
      SemN env g rule (.zeroOrOne e) fr pt errs (.res pt' errs' fr v true) (N + 1)
  | opt_none {rule fr pt errs e pt' errs' fr' v N} :
      SemN env g rule e [] pt errs (.res pt' errs' fr' v false) N →
      SemN env g rule (.zeroOrOne e) fr pt errs (.res pt' errs' fr .nil true) (N + 1)
  | opt_abort {rule fr pt errs e msg N} :
      SemN env g rule e [] pt errs (.abort msg) N →
      SemN env g rule (.zeroOrOne e) fr pt errs (.abort msg) (N + 1)
  | star_done {rule fr pt errs e pt' errs' vs N} :
      SemStarN env g rule e pt errs (.done pt' errs' vs) N →
      SemN env g rule (.zeroOrMore e) fr pt errs (.res pt' errs' fr (.list vs) true) (N + 1)
  | star_abort {rule fr pt errs e msg N} :
      SemStarN env g rule e pt errs (.abort msg) N →
      SemN env g rule (.zeroOrMore e) fr pt errs (.abort msg) (N + 1)
  | plus_none {rule fr pt errs e pt' errs' fr' v N} :
      SemN env g rule e [] pt errs (.res pt' errs' fr' v false) N →
      SemN env g rule (.oneOrMore e) fr pt errs (.res pt' errs' fr .nil false) (N + 1)
  | plus_abort_first {rule fr pt errs e msg N} :
      SemN env g rule e [] pt errs (.abort msg) N →
      SemN env g rule (.oneOrMore e) fr pt errs (.abort msg) (N + 1)
  | plus_done {rule fr pt errs e pt₁ errs₁ fr₁ v pt' errs' vs N₁ N₂} :
      SemN env g rule e [] pt errs (.res pt₁ errs₁ fr₁ v true) N₁ →
      SemStarN env g rule e pt₁ errs₁ (.done pt' errs' vs) N₂ →
      SemN env g rule (.oneOrMore e) fr pt errs (.res pt' errs' fr (.list (v :: vs)) true)
        (N₁ + N₂ + 1)
  | plus_abort {rule fr pt errs e pt₁ errs₁ fr₁ v msg N₁ N₂} :
      SemN env g rule e [] pt errs (.res pt₁ errs₁ fr₁ v true) N₁ →
      SemStarN env g rule e pt₁ errs₁ (.abort msg) N₂ →
      SemN env g rule (.oneOrMore e) fr pt errs (.abort msg) (N₁ + N₂ + 1)
  | unsupported {rule fr pt errs what} :
      SemN env g rule (.unsupported what) fr pt errs (.abort ("unsupported node: " ++ what)) 1

inductive SemSeqN (env : Env) (g : Grammar) :
    String → List PExpr → Frame → Pt → List PErr → SeqOut → Nat → Prop
  | nil {rule fr pt errs} : SemSeqN env g rule [] fr pt errs (.ok pt errs fr []) 0
  | cons {rule fr pt errs e es pt₁ errs₁ fr₁ v o N₁ N₂} :
      SemN env g rule e fr pt errs (.res pt₁ errs₁ fr₁ v true) N₁ →
      SemSeqN env g rule es fr₁ pt₁ errs₁ o N₂ →
      SemSeqN env g rule (e :: es) fr pt errs (o.cons v) (N₁ + N₂)
  | fail {rule fr pt errs e es pt₁ errs₁ fr₁ v N₁} :
      SemN env g rule e fr pt errs (.res pt₁ errs₁ fr₁ v false) N₁ →
      SemSeqN env g rule (e :: es) fr pt errs (.fail pt₁ errs₁ fr₁) N₁
  | abort {rule fr pt errs e es msg N₁} :
      SemN env g rule e fr pt errs (.abort msg) N₁ →
      SemSeqN env g rule (e :: es) fr pt errs (.abort msg) N₁

inductive SemChoiceN (env : Env) (g : Grammar) :
    String → List PExpr → Frame → Pt → List PErr → SemOut → Nat → Prop
  | exhausted {rule fr pt errs} :
      SemChoiceN env g rule [] fr pt errs (.res pt errs fr .nil false) 0
  | hit {rule fr pt errs a as pt₁ errs₁ fr₁ v N₁} :
      SemN env g rule a [] pt errs (.res pt₁ errs₁ fr₁ v true) N₁ →
      SemChoiceN env g rule (a :: as) fr pt errs (.res pt₁ errs₁ fr v true) N₁
  | next {rule fr pt errs a as pt₁ errs₁ fr₁ v o N₁ N₂} :
      SemN env g rule a [] pt errs (.res pt₁ errs₁ fr₁ v false) N₁ →
      SemChoiceN env g rule as fr pt₁ errs₁ o N₂ →
      SemChoiceN env g rule (a :: as) fr pt errs o (N₁ + N₂)
  | abortAlt {rule fr pt errs a as msg N₁} :
      SemN env g rule a [] pt errs (.abort msg) N₁ →
      SemChoiceN env g rule (a :: as) fr pt errs (.abort msg) N₁

inductive SemStarN (env : Env) (g : Grammar) :
    String → PExpr → Pt → List PErr → StarOut → Nat → Prop
  | stop {rule e pt errs pt₁ errs₁ fr₁ v N₁} :
      SemN env g rule e [] pt errs (.res pt₁ errs₁ fr₁ v false) N₁ →
      SemStarN env g rule e pt errs (.done pt₁ errs₁ []) N₁
  | more {rule e pt errs pt₁ errs₁ fr₁ v o N₁ N₂} :
      SemN env g rule e [] pt errs (.res pt₁ errs₁ fr₁ v true) N₁ →
      SemStarN env g rule e pt₁ errs₁ o N₂ →
      SemStarN env g rule e pt errs (o.cons v) (N₁ + N₂)
  | abortIter {rule e pt errs msg N₁} :
      SemN env g rule e [] pt errs (.abort msg) N₁ →
      SemStarN env g rule e pt errs (.abort msg) N₁

end

/-! ## Acceptance -/

/-- The position before the first `read` (`newParser`): offset 0, no current rune. -/
def Pt.start (input : GoString) : Pt := { rest := input, off := 0, rn := 0, w := 0 }

/-- The start rule of a grammar: its first rule, looked up by name (as `parse` does; with
    duplicate names the LAST rule of that name wins, exactly as in pigeon's `rules` map). -/
def startRule (g : Grammar) : Option Rule :=
  match g with
  | [] => none
  | r0 :: _ => lookupRule g r0.name

/-- `input` is accepted with value `v`: after the initial `read`, the body of the start rule
    (fresh frame, errors tagged with its name) matches with value `v` and the final error log
    is EMPTY (in particular the initial read logged nothing). -/
def Accepts (env : Env) (g : Grammar) (input : GoString) (v : PVal) : Prop :=
  ∃ start pt' fr', startRule g = some start ∧
    Sem env g start.shown start.expr [] (Pt.start input).next
      (logRead "" (Pt.start input).next []) (.res pt' [] fr' v true)

/-- `Accepts` with the size of the derivation. -/
def AcceptsIn (env : Env) (g : Grammar) (input : GoString) (v : PVal) (N : Nat) : Prop :=
  ∃ start pt' fr', startRule g = some start ∧
    SemN env g start.shown start.expr [] (Pt.start input).next
      (logRead "" (Pt.start input).next []) (.res pt' [] fr' v true) N

/-- `input` is rejected: the start rule fails, or matches with a non-empty log, or panics, or
    there is no start rule. -/
def Rejects (env : Env) (g : Grammar) (input : GoString) : Prop :=
  startRule g = none ∨
  ∃ start o, startRule g = some start ∧
    Sem env g start.shown start.expr [] (Pt.start input).next
      (logRead "" (Pt.start input).next []) o ∧
    match o with
    | .res _ errs' _ _ m => m = false ∨ errs' ≠ []
    | .abort _ => True

end Bexpr.Peg
