/-
  Semantics of the code blocks of `grammar.peg` / the `on*` functions of `grammar.go`.

  The meaning of an action is determined from its *token list* (regenerated from the source on
  every run): `semOfBody` recognises the ~25 distinct shapes of code this grammar uses and maps
  each to an `ActionSem`; anything else is `unknown`, which aborts a parse in the model (and so
  shows up both in the correspondence check and in the typing tie).  Thus swapping two code
  blocks, changing a constant, or editing a block changes the model accordingly.
-/
import Bexpr.Peg.Engine
import Bexpr.Unquote

namespace Bexpr.Peg

inductive ActionSem where
  /-- `return <label>, nil` -/
  | retLabel (l : String)
  /-- `return <MatchOperator constant>, nil` -/
  | constMatchOp (o : MatchOp)
  | constCollOp (o : CollOp)
  /-- `return &BinaryExpression{Operator: op, Left: l.(Expression), Right: r.(Expression)}, nil` -/
  | mkBinary (isOr : Bool) (l r : String)
  /-- NotExpression: fold `not not e`, else `&UnaryExpression{Not, expr.(Expression)}` -/
  | notFold (l : String)
  | mkColl (op sel binding inner : String)
  | mkBinding (mode : BindMode) (dflt index value : Option String)
  /-- `&MatchExpression{Selector: s.(Selector), Operator: o.(MatchOperator), Value: v.(*MatchValue)}` -/
  | mkMatch (sel op : String) (val : Option String)
  | selectorBexpr (first rest : String)
  | selectorPtr (segs : String)
  /-- `return string(c.text)[1:], nil` -/
  | textTail
  /-- `return string(c.text), nil` -/
  | textAll
  /-- `return &MatchValue{Raw: l.(Selector).String()}, nil` -/
  | valueFromSelector (l : String)
  /-- `return &MatchValue{Raw: l.(string)}, nil` -/
  | valueFromStr (l : String)
  /-- `return strconv.Unquote(string(c.text))` -/
  | unquoteText
  /-- code predicate `return false, errors.New(<string literal token>)`; the token is kept as
      written (with its quotes), the driver unquotes it for display -/
  | predErr (tok : String)
  | unknown
  deriving Repr, BEq, Inhabited, DecidableEq

/-- `Selector.String()` of `grammar/ast.go`. -/
def _root_.Bexpr.Selector.render (s : Selector) : GoString :=
  if s.path.isEmpty then [] else
  match s.ty with
  | .bexpr => GoString.join (GoString.ofString ".") s.path
  | .jsonPointer => GoString.join (GoString.ofString "/") s.path
  | .unknown => []

/-- `pointerstructure.Parse` applied to `"/" ++ join "/" segs` (never fails: the input starts
    with a slash): split at every '/', then per part `~1`→`/` followed by `~0`→`~`. -/
def ptrUnescape (p : GoString) : GoString :=
  GoString.replaceAll (GoString.replaceAll p (GoString.ofString "~1") (GoString.ofString "/"))
    (GoString.ofString "~0") (GoString.ofString "~")

def splitSlash (s : GoString) : List GoString :=
  let rec go : GoString → GoString → List GoString
    | [], cur => [cur.reverse]
    | c :: cs, cur => if c == 47 then cur.reverse :: go cs [] else go cs (c :: cur)
  go s []

def ptrParse (segs : List GoString) : List GoString :=
  (splitSlash (GoString.join (GoString.ofString "/") segs)).map ptrUnescape

def asStrList : List PVal → Option (List GoString)
  | [] => some []
  | .str s :: vs => (asStrList vs).map (s :: ·)
  | _ => none

/-- Go's `x.([]interface{})` loop with `v.(string)` per element, guarded by `x != nil`. -/
def restStrings (v : PVal) : Option (List GoString) :=
  match v with
  | .nil => some []
  | .list vs => asStrList vs
  | _ => none

def quoteLit (s : String) : String := "\"" ++ s ++ "\""

def panicAssert : ActOut := .panic "interface conversion"

def runActionSem (sem : ActionSem) (fr : Frame) (text : GoString) : ActOut :=
  match sem with
  | .retLabel l => .ret (fr.get l) none
  | .constMatchOp o => .ret (.mop o) none
  | .constCollOp o => .ret (.cop o) none
  | .mkBinary isOr l r =>
    match fr.get l, fr.get r with
    | .expr a, .expr b => .ret (.expr (if isOr then .or a b else .and a b)) none
    | _, _ => panicAssert
  | .notFold l =>
    match fr.get l with
    | .expr (.not e) => .ret (.expr e) none
    | .expr e => .ret (.expr (.not e)) none
    | _ => panicAssert
  | .mkColl op sel binding inner =>
    match fr.get op, fr.get sel, fr.get binding, fr.get inner with
    | .cop o, .sel s, .binding b, .expr e => .ret (.expr (.coll o s b e)) none
    | _, _, _, _ => panicAssert
  | .mkBinding mode d i v =>
    let getStr : Option String → Option GoString
      | none => some []
      | some l => match fr.get l with
        | .str s => some s
        | _ => none
    match getStr d, getStr i, getStr v with
    | some d, some i, some v =>
      .ret (.binding { mode := mode, default := d, index := i, value := v }) none
    | _, _, _ => panicAssert
  | .mkMatch sel op val =>
    match fr.get sel, fr.get op with
    | .sel s, .mop o =>
      match val with
      | none => .ret (.expr (.match_ s o none)) none
      | some vl =>
        match fr.get vl with
        | .mval raw => .ret (.expr (.match_ s o (some raw))) none
        | _ => panicAssert
    | _, _ => panicAssert
  | .selectorBexpr first rest =>
    match fr.get first, restStrings (fr.get rest) with
    | .str f, some rs => .ret (.sel { ty := .bexpr, path := f :: rs }) none
    | _, _ => panicAssert
  | .selectorPtr segs =>
    match restStrings (fr.get segs) with
    | some ss => .ret (.sel { ty := .jsonPointer, path := ptrParse ss }) none
    | none => panicAssert
  | .textTail =>
    match text with
    | [] => .panic "slice bounds out of range"
    | _ :: t => .ret (.str t) none
  | .textAll => .ret (.str text) none
  | .valueFromSelector l =>
    match fr.get l with
    | .sel s => .ret (.mval s.render) none
    | _ => panicAssert
  | .valueFromStr l =>
    match fr.get l with
    | .str s => .ret (.mval s) none
    | _ => panicAssert
  | .unquoteText =>
    match Strconv.unquote text with
    | some s => .ret (.str s) none
    | none => .ret (.str []) (some "invalid syntax")
  | .predErr _ => .panic "predicate used as action"
  | .unknown => .panic "unknown action code"

def runPredSem (sem : ActionSem) (_fr : Frame) : PredOut :=
  match sem with
  | .predErr msg => .ret false (some msg)
  | _ => .panic "unknown predicate code"

end Bexpr.Peg
