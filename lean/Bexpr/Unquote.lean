/-
  Bexpr.Unquote — Go's `strconv.Unquote` / `strconv.UnquoteChar` on byte lists.

  Source modelled: $GOROOT/src/strconv/quote.go (go1.23.5), functions `unhex`,
  `UnquoteChar`, `unquote(in, unescape = true)`, `Unquote`.

  About Go's fast path.  For `"`/`'` literals `unquote` first looks at the text up
  to the FIRST closing quote; if that text has no backslash and no newline and is
  valid UTF-8 (for `'`: exactly one well-formed rune, or nothing at all) it returns
  the text verbatim.  Otherwise — in particular for invalid UTF-8 — it runs the
  general loop over `UnquoteChar`.  The general loop computes the same answer on
  every input the fast path accepts (it copies ASCII bytes, re-encodes well-formed
  runes to the same bytes, and stops at the same quote), so the model consists of
  the general loop only.  Consequences worth knowing, all confirmed against Go:
    * an invalid UTF-8 byte inside `"…"` or `'…'` is NOT kept: `UnquoteChar`
      decodes it to `RuneError` with `multibyte = true`, and `utf8.AppendRune`
      writes `EF BF BD` (U+FFFD);
    * inside backquotes bytes are never validated (only `\r` is dropped);
    * `''` (empty character literal) is accepted and yields the empty string.
-/
import Bexpr.Utf8

namespace Bexpr.Strconv

open Bexpr.Utf8

/-- Go `unhex`: value of a hex digit of either case. -/
def unhex (b : UInt8) : Option Nat :=
  if 0x30 ≤ b && b ≤ 0x39 then some (b.toNat - 0x30)
  else if 0x61 ≤ b && b ≤ 0x66 then some (b.toNat - 0x61 + 10)
  else if 0x41 ≤ b && b ≤ 0x46 then some (b.toNat - 0x41 + 10)
  else none

/-- Read exactly `n` hex digits (`v = v<<4 | x`); `none` if the input is shorter
(`len(s) < n`) or a byte is not a hex digit. -/
def hexRun : Nat → GoString → Nat → Option (Nat × GoString)
  | 0, s, v => some (v, s)
  | _ + 1, [], _ => none
  | n + 1, c :: cs, v =>
    match unhex c with
    | some x => hexRun n cs (v * 16 + x)
    | none => none

/-- Octal digit: `x := rune(s[j]) - '0'; if x < 0 || x > 7 → error`. -/
def octVal (b : UInt8) : Option Nat :=
  if 0x30 ≤ b && b ≤ 0x37 then some (b.toNat - 0x30) else none

/-- What `UnquoteChar` returns on success: `value`, `multibyte`, `tail`. -/
structure UnquotedChar where
  value : Nat
  multibyte : Bool
  tail : GoString
  deriving Repr

/-- The "hard case" of `UnquoteChar`: `c` is the byte after the backslash and `s`
what follows it. -/
def unquoteEscape (c : UInt8) (s : GoString) (quote : UInt8) : Option UnquotedChar :=
  let simple (v : Nat) : Option UnquotedChar := some ⟨v, false, s⟩
  if c == 0x61 then simple 7            -- \a
  else if c == 0x62 then simple 8       -- \b
  else if c == 0x66 then simple 12      -- \f
  else if c == 0x6E then simple 10      -- \n
  else if c == 0x72 then simple 13      -- \r
  else if c == 0x74 then simple 9       -- \t
  else if c == 0x76 then simple 11      -- \v
  else if c == 0x78 then                -- \xHH: "single-byte string, possibly not UTF-8"
    match hexRun 2 s 0 with
    | some (v, t) => some ⟨v, false, t⟩
    | none => none
  else if c == 0x75 || c == 0x55 then   -- \uHHHH, \UHHHHHHHH
    match hexRun (if c == 0x75 then 4 else 8) s 0 with
    | some (v, t) => if validRune v then some ⟨v, true, t⟩ else none
    | none => none
  else if 0x30 ≤ c && c ≤ 0x37 then     -- \ooo: one digit already, two more; `v > 255` is an error
    match s with
    | d1 :: d2 :: t =>
      match octVal d1, octVal d2 with
      | some x1, some x2 =>
        let v := ((c.toNat - 0x30) * 8 + x1) * 8 + x2
        if v > 255 then none else some ⟨v, false, t⟩
      | _, _ => none
    | _ => none
  else if c == 0x5C then simple 0x5C    -- \\
  else if c == 0x27 || c == 0x22 then   -- \' \" : `if c != quote → error`
    if c != quote then none else simple c.toNat
  else none

/-- Go `strconv.UnquoteChar(s, quote)`; `none` is `ErrSyntax`. -/
def unquoteChar (s : GoString) (quote : UInt8) : Option UnquotedChar :=
  match s with
  | [] => none
  | c :: t =>
    if c == quote && (quote == 0x27 || quote == 0x22) then none
    else if c ≥ 0x80 then
      -- `r, size := utf8.DecodeRuneInString(s); return r, true, s[size:], nil`
      let rw := decodeRune s
      some ⟨rw.1, true, s.drop rw.2⟩
    else if c != 0x5C then some ⟨c.toNat, false, t⟩
    else
      match t with
      | [] => none                        -- `len(s) <= 1`
      | e :: s2 => unquoteEscape e s2 quote

/-- The bytes `unquote` appends for one decoded character:
`if r < utf8.RuneSelf || !multibyte { byte(r) } else { utf8.AppendRune(buf, r) }`. -/
def unquotedBytes (u : UnquotedChar) : GoString :=
  if u.value < 0x80 || !u.multibyte then [u.value.toUInt8] else encodeRune u.value

/-- The loop `for len(in) > 0 && in[0] != quote { … }` of `unquote`, after the
opening quote has been skipped.  Returns the unescaped bytes and the unconsumed
input (which starts at the closing quote if there is one).  A raw newline or a bad
escape gives `none`; for `'` the loop body runs at most once (`break`).
Each round consumes at least one byte, so `fuel = in.length` suffices. -/
def unquoteBody (quote : UInt8) : Nat → GoString → Option (GoString × GoString)
  | _, [] => some ([], [])
  | 0, _ :: _ => none
  | fuel + 1, c :: t =>
    if c == quote then some ([], c :: t)
    else if c == 0x0A then none
    else
      match unquoteChar (c :: t) quote with
      | none => none
      | some u =>
        if quote == 0x27 then some (unquotedBytes u, u.tail)
        else
          match unquoteBody quote fuel u.tail with
          | none => none
          | some (out, rest) => some (unquotedBytes u ++ out, rest)

/-- Go `strconv.Unquote(s)`; `none` is `ErrSyntax`.
* fewer than two bytes: error;
* `` ` ``: the first backquote after the opening one must be the last byte; the
  text between is returned with every `\r` removed, nothing else is checked;
* `"` and `'`: `unquoteBody`, then exactly the closing quote must remain
  (`Unquote` rejects any remainder);
* any other first byte: error. -/
def unquote (s : GoString) : Option GoString :=
  match s with
  | [] => none
  | [_] => none
  | q :: body =>
    if q == 0x60 then
      let sp := body.span (· != 0x60)
      if sp.2.length == 1 then some (sp.1.filter (· != 0x0D)) else none
    else if q == 0x22 || q == 0x27 then
      match unquoteBody q body.length body with
      | some (out, rest) => if rest == [q] then some out else none
      | none => none
    else none

end Bexpr.Strconv
