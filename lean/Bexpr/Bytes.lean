/-
  Bexpr.Bytes — Go strings as byte lists.

  A Go `string` is an arbitrary (not necessarily UTF-8) sequence of bytes.  The
  whole model therefore works on `List UInt8`; Lean `String`s only appear at the
  boundary (literals in the model, hex text in the drivers).

  Core-only: no imports beyond the prelude.
-/

namespace Bexpr

/-- A Go `string`: a finite sequence of bytes, not necessarily valid UTF-8. -/
abbrev GoString := List UInt8

namespace GoString

/-- The bytes of the UTF-8 encoding of a Lean string (a Go string literal). -/
def ofString (s : String) : GoString := s.toUTF8.toList

/-- The byte of an ASCII character (`Char.toNat` truncated to 8 bits). -/
def byteOfChar (c : Char) : UInt8 := c.toNat.toUInt8

/-! ### Hex text (lowercase), used by the line protocols of the drivers -/

/-- Lowercase hex digit of a value `< 16` (Go: `lowerhex[v]`). -/
def hexDigit (v : Nat) : Char :=
  if v < 10 then Char.ofNat (0x30 + v) else Char.ofNat (0x61 + (v - 10))

/-- Two lowercase hex digits of a byte. -/
def hexByte (b : UInt8) : List Char :=
  [hexDigit (b.toNat / 16), hexDigit (b.toNat % 16)]

/-- Lowercase hex encoding, two characters per byte; `[]` ↦ `""`. -/
def toHex (s : GoString) : String :=
  String.ofList (s.flatMap hexByte)

/-- Value of one hex digit character (either case). -/
def hexVal? (c : Char) : Option Nat :=
  let n := c.toNat
  if 0x30 ≤ n ∧ n ≤ 0x39 then some (n - 0x30)
  else if 0x61 ≤ n ∧ n ≤ 0x66 then some (n - 0x61 + 10)
  else if 0x41 ≤ n ∧ n ≤ 0x46 then some (n - 0x41 + 10)
  else none

/-- Decode pairs of hex digits; `none` on an odd length or a non-hex character. -/
def ofHexChars? : List Char → Option GoString
  | [] => some []
  | [_] => none
  | a :: b :: rest =>
    match hexVal? a, hexVal? b, ofHexChars? rest with
    | some x, some y, some t => some ((x * 16 + y).toUInt8 :: t)
    | _, _, _ => none

/-- Inverse of `toHex` (accepts either case). -/
def ofHex? (s : String) : Option GoString := ofHexChars? s.toList

/-- Best-effort rendering as a Lean string for messages: the exact text when the
bytes are valid UTF-8, otherwise ASCII bytes as themselves and every other byte as
U+FFFD.  (Display only; never used by the model.) -/
def toStringLossy (s : GoString) : String :=
  match String.fromUTF8? (ByteArray.mk s.toArray) with
  | some t => t
  | none =>
    String.ofList (s.map fun b => if b < 0x80 then Char.ofNat b.toNat else Char.ofNat 0xFFFD)

/-! ### `strings` package helpers -/

/-- Go `strings.HasPrefix(s, pre)`. -/
def isPrefixOf (pre s : GoString) : Bool :=
  match pre, s with
  | [], _ => true
  | _ :: _, [] => false
  | a :: as, b :: bs => a == b && isPrefixOf as bs

/-- Go `strings.Contains(hay, needle)`; an empty needle is contained everywhere. -/
def containsSub (hay needle : GoString) : Bool :=
  match hay with
  | [] => needle.isEmpty
  | _ :: t => isPrefixOf needle hay || containsSub t needle

/-- Go `strings.Join(parts, sep)`. -/
def join (sep : GoString) : List GoString → GoString
  | [] => []
  | [p] => p
  | p :: q :: rest => p ++ sep ++ join sep (q :: rest)

/-- Worker of `replaceAll`; `fuel` bounds the number of steps (each step consumes
at least one byte of `s`, so `s.length` suffices). -/
def replaceAllAux (old new : GoString) : Nat → GoString → GoString
  | 0, s => s
  | _ + 1, [] => []
  | fuel + 1, c :: t =>
    if isPrefixOf old (c :: t) then
      new ++ replaceAllAux old new fuel ((c :: t).drop old.length)
    else
      c :: replaceAllAux old new fuel t

/-- Go `strings.Replace(s, old, new, -1)` / `strings.ReplaceAll` for a NON-EMPTY
`old`: leftmost, non-overlapping occurrences.  For an empty `old` this model
returns `s` unchanged (Go would insert `new` around every rune); callers never
pass an empty `old`. -/
def replaceAll (s old new : GoString) : GoString :=
  if old.isEmpty then s else replaceAllAux old new s.length s

/-- Decimal text of a natural number (Go `strconv.Itoa` on a non-negative value). -/
def natToDec (n : Nat) : GoString :=
  (Nat.toDigits 10 n).map byteOfChar

end GoString

export GoString (toHex ofHex? isPrefixOf containsSub join replaceAll natToDec)

end Bexpr
