/-
  Bexpr.Quote — Go's `strconv.Quote` (what `fmt`'s `%q` prints for a string
  without flags) on byte lists.

  Source modelled: $GOROOT/src/strconv/quote.go (go1.23.5), `appendQuotedWith` and
  `appendEscapedRune` with `quote = '"'`, `ASCIIonly = false`, `graphicOnly = false`.
-/
import Bexpr.Utf8
import Bexpr.Unicode

namespace Bexpr.Strconv

open Bexpr.Utf8

/-- `lowerhex[v]` for `v < 16`, as a byte. -/
def lowerHexByte (v : Nat) : UInt8 :=
  if v < 10 then (0x30 + v).toUInt8 else (0x61 + (v - 10)).toUInt8

/-- `\x` followed by two lowercase hex digits of the low byte of `v`. -/
def escX (v : Nat) : GoString :=
  [0x5C, 0x78, lowerHexByte (v / 16 % 16), lowerHexByte (v % 16)]

/-- `\u` + 4 hex digits: `for s := 12; s >= 0; s -= 4 { lowerhex[r>>uint(s)&0xF] }`. -/
def escU4 (r : Nat) : GoString :=
  [0x5C, 0x75, lowerHexByte (r / 4096 % 16), lowerHexByte (r / 256 % 16),
   lowerHexByte (r / 16 % 16), lowerHexByte (r % 16)]

/-- `\U` + 8 hex digits. -/
def escU8 (r : Nat) : GoString :=
  [0x5C, 0x55, lowerHexByte (r / 268435456 % 16), lowerHexByte (r / 16777216 % 16),
   lowerHexByte (r / 1048576 % 16), lowerHexByte (r / 65536 % 16),
   lowerHexByte (r / 4096 % 16), lowerHexByte (r / 256 % 16),
   lowerHexByte (r / 16 % 16), lowerHexByte (r % 16)]

/-- Go `appendEscapedRune(buf, r, '"', false, false)`. -/
def escapedRune (r : Nat) : GoString :=
  if r == 0x22 || r == 0x5C then [0x5C, r.toUInt8]      -- always backslashed
  else if Bexpr.Unicode.isPrint r then encodeRune r
  else if r == 7 then [0x5C, 0x61]                       -- \a
  else if r == 8 then [0x5C, 0x62]                       -- \b
  else if r == 12 then [0x5C, 0x66]                      -- \f
  else if r == 10 then [0x5C, 0x6E]                      -- \n
  else if r == 13 then [0x5C, 0x72]                      -- \r
  else if r == 9 then [0x5C, 0x74]                       -- \t
  else if r == 11 then [0x5C, 0x76]                      -- \v
  else if r < 0x20 || r == 0x7F then escX r
  else if !validRune r then escU4 0xFFFD
  else if r < 0x10000 then escU4 r
  else escU8 r

/-- The loop of `appendQuotedWith`: decode a rune; `width == 1 && r == RuneError`
(an invalid byte) prints as `\xHH` of that byte, everything else goes through
`appendEscapedRune`.  (A well-formed U+FFFD has width 3 and is printed as itself.)
Each round consumes at least one byte, so `fuel = s.length` suffices. -/
def quoteBody : Nat → GoString → GoString
  | _, [] => []
  | 0, _ :: _ => []
  | fuel + 1, b :: t =>
    let rw := decodeRune (b :: t)
    if rw.2 == 1 && rw.1 == runeError then escX b.toNat ++ quoteBody fuel t
    else escapedRune rw.1 ++ quoteBody fuel ((b :: t).drop rw.2)

/-- Go `strconv.Quote(s)` = `fmt.Sprintf("%q", s)`. -/
def quote (s : GoString) : GoString :=
  0x22 :: (quoteBody s.length s ++ [0x22])

end Bexpr.Strconv
