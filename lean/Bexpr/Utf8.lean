/-
  Bexpr.Utf8 — Go's `unicode/utf8` (`DecodeRune`, `AppendRune`, `ValidRune`,
  `ValidString`) on byte lists.  Runes are plain `Nat`s.

  Source modelled: $GOROOT/src/unicode/utf8/utf8.go (go1.23.5).
-/
import Bexpr.Bytes

namespace Bexpr.Utf8

/-- `utf8.RuneError` = U+FFFD. -/
def runeError : Nat := 0xFFFD

/-- `utf8.MaxRune` = U+10FFFF. -/
def maxRune : Nat := 0x10FFFF

/-- `utf8.RuneSelf`: bytes below it are single-byte runes. -/
def runeSelf : Nat := 0x80

/-- Go `utf8.ValidRune`: `0 <= r < 0xD800 || 0xDFFF < r <= MaxRune`. -/
def validRune (r : Nat) : Bool :=
  r < 0xD800 || (0xDFFF < r && r ≤ maxRune)

/-- A continuation byte in `[lo, hi]` (Go: `b < accept.lo || accept.hi < b` negated). -/
def inRange (lo hi : Nat) (b : UInt8) : Bool :=
  lo ≤ b.toNat && b.toNat ≤ hi

/-- The default continuation-byte test `locb <= b <= hicb` (`0x80..0xBF`). -/
def isCont (b : UInt8) : Bool := inRange 0x80 0xBF b

/-- Payload of a continuation byte (Go: `b & maskx`). -/
def contBits (b : UInt8) : Nat := b.toNat % 64

/-- Go's `acceptRanges[first[p0]>>4]` for the SECOND byte, by lead byte:
`E0 → A0..BF`, `ED → 80..9F`, `F0 → 90..BF`, `F4 → 80..8F`, otherwise `80..BF`. -/
def acceptLo (p0 : Nat) : Nat :=
  if p0 = 0xE0 then 0xA0 else if p0 = 0xF0 then 0x90 else 0x80

/-- See `acceptLo`. -/
def acceptHi (p0 : Nat) : Nat :=
  if p0 = 0xED then 0x9F else if p0 = 0xF4 then 0x8F else 0xBF

/-- The error answer `(RuneError, 1)`. -/
def decodeErr : Nat × Nat := (runeError, 1)

/-- Go `utf8.DecodeRune` / `DecodeRuneInString`: `(rune, width)`.
`(0xFFFD, 0)` on empty input; `(0xFFFD, 1)` on every invalid, overlong,
surrogate, out-of-range or truncated encoding.

Lead bytes by Go's `first` table: `00..7F` ASCII; `80..C1` and `F5..FF` invalid (`xx`);
`C2..DF` two bytes; `E0..EF` three bytes; `F0..F4` four bytes. -/
def decodeRune : GoString → Nat × Nat
  | [] => (runeError, 0)
  | b0 :: rest =>
    let p0 := b0.toNat
    if p0 < 0x80 then (p0, 1)                       -- `as`: ASCII
    else if p0 < 0xC2 then decodeErr                -- `xx`
    else if p0 < 0xE0 then                          -- size 2
      match rest with
      | b1 :: _ =>
        if inRange 0x80 0xBF b1 then ((p0 % 32) * 64 + contBits b1, 2) else decodeErr
      | _ => decodeErr                              -- `n < sz`
    else if p0 < 0xF0 then                          -- size 3
      match rest with
      | b1 :: b2 :: _ =>
        if inRange (acceptLo p0) (acceptHi p0) b1 && isCont b2 then
          ((p0 % 16) * 4096 + contBits b1 * 64 + contBits b2, 3)
        else decodeErr
      | _ => decodeErr
    else if p0 < 0xF5 then                          -- size 4
      match rest with
      | b1 :: b2 :: b3 :: _ =>
        if inRange (acceptLo p0) (acceptHi p0) b1 && isCont b2 && isCont b3 then
          ((p0 % 8) * 262144 + contBits b1 * 4096 + contBits b2 * 64 + contBits b3, 4)
        else decodeErr
      | _ => decodeErr
    else decodeErr                                  -- `xx`

/-- Go `utf8.AppendRune(nil, r)` (= `EncodeRune`): invalid runes (surrogates,
`> MaxRune`; Go's negative runes are not representable here) encode as U+FFFD,
i.e. `EF BF BD`. -/
def encodeRune (r : Nat) : GoString :=
  if r ≤ 0x7F then [r.toUInt8]
  else if r ≤ 0x7FF then
    [(0xC0 + r / 64).toUInt8, (0x80 + r % 64).toUInt8]
  else if r > maxRune || (0xD800 ≤ r && r ≤ 0xDFFF) then
    [0xEF, 0xBF, 0xBD]
  else if r ≤ 0xFFFF then
    [(0xE0 + r / 4096).toUInt8, (0x80 + r / 64 % 64).toUInt8, (0x80 + r % 64).toUInt8]
  else
    [(0xF0 + r / 262144).toUInt8, (0x80 + r / 4096 % 64).toUInt8,
     (0x80 + r / 64 % 64).toUInt8, (0x80 + r % 64).toUInt8]

/-- Worker of `validString`; every step consumes at least one byte, so
`fuel = s.length` suffices. -/
def validStringAux : Nat → GoString → Bool
  | _, [] => true
  | 0, _ :: _ => false
  | fuel + 1, s@(_ :: _) =>
    let rw := decodeRune s
    if rw.1 = runeError && rw.2 = 1 then false
    else validStringAux fuel (s.drop rw.2)

/-- Go `utf8.ValidString`: no position decodes to `(RuneError, 1)`. -/
def validString (s : GoString) : Bool := validStringAux s.length s

/-- All runes of `s` with their widths, decoding the Go way (`for _, r := range s`):
invalid bytes yield `0xFFFD` one byte at a time. -/
def runesAux : Nat → GoString → List Nat
  | _, [] => []
  | 0, _ :: _ => []
  | fuel + 1, s@(_ :: _) =>
    let rw := decodeRune s
    rw.1 :: runesAux fuel (s.drop rw.2)

/-- Go `[]rune(s)`. -/
def runes (s : GoString) : List Nat := runesAux s.length s

end Bexpr.Utf8
