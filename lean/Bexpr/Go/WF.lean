/-
  Well-formedness of model values: the invariants every value built by Go's type system
  satisfies, which the model's `GoVal` does not enforce by construction:
  * the kind stored in a scalar fits its constructor;
  * elements / entries / pointees inhabit the declared element, key and value types;
  * the dynamic value of an interface is never itself an interface;
  * map keys are pairwise distinct (as Go's `==` on the boxed keys decides it).
  The harness only ever sends values for which `GoVal.wf` is true (the driver reports a
  violation of this as `WF?` instead of an outcome).
-/
import Bexpr.Go.Pointer

namespace Bexpr.Go

def keysDistinct : List (GoVal × GoVal) → Bool
  | [] => true
  | (k, _) :: es => !(es.any fun e => fkeyEq e.1 k) && keysDistinct es

mutual
def GoVal.wf : GoVal → Bool
  | .bool _ _ => true
  | .int k _ _ => k.isInt
  | .uint k _ _ => k.isUint
  | .float k _ _ => k == .float32 || k == .float64
  | .complex k _ => k == .complex64 || k == .complex128
  | .str _ _ => true
  | .ptr _ none => true
  | .ptr elem (some v) => v.typeOf == elem && v.wf
  | .slice _ elem _ xs => wfList elem xs
  | .array elem xs => wfList elem xs
  | .map _ kt vt _ es => wfEntries kt vt es
  | .struct _ fs => wfFields fs
  | .iface none => true
  | .iface (some v) => v.kind != .interface && v.wf
  | .other k _ _ => k == .chan || k == .func || k == .unsafePointer
def wfList (elem : GoType) : List GoVal → Bool
  | [] => true
  | x :: xs => x.typeOf == elem && x.wf && wfList elem xs
def wfEntries (kt vt : GoType) : List (GoVal × GoVal) → Bool
  | [] => true
  | (k, v) :: es => k.typeOf == kt && k.wf && v.typeOf == vt && v.wf && wfEntries kt vt es
def wfFields : List (Field × GoVal) → Bool
  | [] => true
  | (_, v) :: fs => v.wf && wfFields fs
end

/-- An `interface{}` value is well-formed if its dynamic value is, and is not an interface. -/
def Any.wf : Any → Bool
  | none => true
  | some v => v.kind != .interface && v.wf

end Bexpr.Go
