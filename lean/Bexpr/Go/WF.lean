/-
  Well-formedness of model values: the invariants every value built by Go's type system
  satisfies, which the model's `GoVal` does not enforce by construction:
  * the kind stored in a scalar fits its constructor;
  * elements / entries / pointees inhabit the declared element, key and value types;
  * the dynamic value of an interface is never itself an interface;
  * the key type of a map is comparable (`GoType.comparable`: pointers, arrays of comparable
    elements, structs, complex numbers, channels, interface types, … are all admitted; slices, maps,
    funcs are not);
  * map keys are pairwise distinct (as Go's `==` on the boxed keys decides it; `keysDistinct`, a
    hypothesis of the order-independence theorems, not part of `wf`).
  Values of a NON-EMPTY interface type (fields / elements / keys held in such a slot) stay outside
  the universe: `other .interface …` is not well-formed as a VALUE; as a map's key TYPE it is.
  The harness only ever sends values for which `GoVal.wf` is true (the driver reports a
  violation of this as `WF?` instead of an outcome).
-/
import Bexpr.Go.Pointer

namespace Bexpr.Go

def keysDistinct : List (GoVal × GoVal) → Bool
  | [] => true
  | (k, _) :: es => !(es.any fun e => fkeyEq e.1 k) && keysDistinct es

/-- a key held in a slot of NON-EMPTY interface type (`map[error]V`): opaque — no path part is ever
    converted to such a type, so the key is never compared -/
def isNEIfaceKey : GoVal → Bool
  | .other k _ _ => k == .interface
  | _ => false

mutual
def GoVal.wf : GoVal → Bool
  | .bool _ _ => true
  | .int k _ _ => k.isInt
  | .uint k _ _ => k.isUint
  | .float k _ _ => k == .float32 || k == .float64
  | .complex k _ => k == .complex64 || k == .complex128
  | .str _ _ => true
  | .ptr _ none => true
  | .ptr elem (some v) => v.typeOf == elem && v.wf
  | .slice _ elem _ xs => wfList elem xs
  | .array elem xs => wfList elem xs
  | .map _ kt vt _ es => wfEntries kt vt es && kt.comparable
  | .struct _ fs => wfFields fs
  | .iface none => true
  | .iface (some v) => v.kind != .interface && v.wf
  | .other k _ _ => k == .chan || k == .func || k == .unsafePointer
def wfList (elem : GoType) : List GoVal → Bool
  | [] => true
  | x :: xs => x.typeOf == elem && x.wf && wfList elem xs
def wfEntries (kt vt : GoType) : List (GoVal × GoVal) → Bool
  | [] => true
  | (k, v) :: es =>
    k.typeOf == kt && (k.wf || isNEIfaceKey k) && v.typeOf == vt && v.wf && wfEntries kt vt es
def wfFields : List (Field × GoVal) → Bool
  | [] => true
  | (_, v) :: fs => v.wf && wfFields fs
end

/-- An `interface{}` value is well-formed if its dynamic value is, and is not an interface. -/
def Any.wf : Any → Bool
  | none => true
  | some v => v.kind != .interface && v.wf

/-- the static type mentions a non-empty interface type -/
def GoType.mentionsNEI : GoType → Bool
  | .other k _ => k == .interface
  | .ptr e => e.mentionsNEI
  | .slice _ e => e.mentionsNEI
  | .array _ e => e.mentionsNEI
  | .map _ k v => k.mentionsNEI || v.mentionsNEI
  | _ => false

mutual
/-- The value lies OUTSIDE the modelled universe: it holds a value of a non-empty interface type
    (`fmt.Stringer`, `error`, …) as an element / field / pointee / map value, or has a container type
    whose element type mentions one.  The only admitted place is a map's KEY type (and its opaque
    keys).  The driver answers `U` on such data; the harness still runs the real code on them. -/
def GoVal.outside : GoVal → Bool
  | .other k _ _ => k == .interface
  | .ptr e none => e.mentionsNEI
  | .ptr e (some v) => e.mentionsNEI || v.outside
  | .slice _ e _ xs => e.mentionsNEI || outsideList xs
  | .array e xs => e.mentionsNEI || outsideList xs
  | .map _ kt vt _ es =>
    (match kt with
      | .other _ _ => false
      | kt => kt.mentionsNEI) || vt.mentionsNEI || outsideEntries es
  | .struct _ fs => outsideFields fs
  | .iface (some v) => v.outside
  | _ => false
def outsideList : List GoVal → Bool
  | [] => false
  | x :: xs => x.outside || outsideList xs
def outsideEntries : List (GoVal × GoVal) → Bool
  | [] => false
  | (k, v) :: es => (!isNEIfaceKey k && k.outside) || v.outside || outsideEntries es
def outsideFields : List (Field × GoVal) → Bool
  | [] => false
  | (_, v) :: fs => v.outside || outsideFields fs
end

def Any.outside : Any → Bool
  | none => false
  | some v => v.outside

end Bexpr.Go
