/-
  Hand model of `pointerstructure.(*Pointer).Get` (v1.2.1: get.go, pointer.go `coerce`) together
  with the string→key path of `mapstructure.WeakDecode` it falls back to.
-/
import Bexpr.Go.Val
import Bexpr.Strconv

namespace Bexpr.Go
open Bexpr

inductive GetErr where
  | notFound          -- errors.Is(err, ErrNotFound)
  | outOfRange
  | invalidKind
  | convert
  | ignored           -- `struct field %q is ignored and cannot be used`
  | tagBar            -- tag contains '|'
  | hookNil           -- ValueTransformationHook returned the zero Value
  | unmodelled        -- outside the modelled universe (reported by the driver, never silently)
  deriving DecidableEq, Repr, Inhabited

/-- The value-transformation hook family of the correspondence check
    (`pointerstructure.Config.ValueTransformationHook`); `off` = no hook configured. -/
inductive Hook where
  | off
  | identity
  /-- unwrap a struct named `Wrap` (through interfaces/pointers) to its first field -/
  | unwrap
  /-- replace every value by the int 42 -/
  | const42
  /-- return the zero `reflect.Value` -/
  | nilret
  deriving DecidableEq, Repr, Inhabited

/-- strip interfaces and pointers (used by the `unwrap` hook of the harness) -/
def stripIP : GoVal → Option GoVal
  | .iface (some v) => stripIP v
  | .iface none => none
  | .ptr _ (some v) => stripIP v
  | .ptr _ none => none
  | v => some v

def Hook.apply (h : Hook) (v : GoVal) : RV :=
  match h with
  | .off => some v
  | .identity => some v
  | .unwrap =>
    match stripIP v with
    | some (.struct "main.Wrap" ((_, f) :: _)) => some f
    | _ => some v
  | .const42 => some (.int .int "" 42)
  | .nilret => none

structure Config where
  tagName : GoString
  hook : Hook
  deriving Repr, Inhabited

/-- `for currentVal.Kind() == reflect.Interface { currentVal = currentVal.Elem() }` -/
def unwrapIfaceV : GoVal → RV
  | .iface (some v) => unwrapIfaceV v
  | .iface none => none
  | v => some v

/-- `for currentVal.Kind() == reflect.Ptr { currentVal = reflect.Indirect(currentVal) }` -/
def unwrapPtrV : GoVal → RV
  | .ptr _ (some v) => unwrapPtrV v
  | .ptr _ none => none
  | v => some v

def unwrapForStep (v : RV) : RV :=
  match v with
  | none => none
  | some v =>
    match unwrapIfaceV v with
    | none => none
    | some v' => unwrapPtrV v'

/-- `mapstructure.WeakDecode(string, *T)` for the key types in the modelled universe, after
    `coerce`'s assignable / convertible shortcuts.  `none` = the key type is outside it. -/
def coerceKey (part : GoString) (kt : GoType) : Option (Except GetErr GoVal) :=
  match kt with
  | .iface => some (.ok (.str "" part))                     -- assignable
  | .basic .string name => some (.ok (.str name part))      -- assignable / convertible
  | .basic .bool name =>
    some (match Strconv.parseBool part with
      | .ok b => .ok (.bool name b)
      | .error _ => if part.isEmpty then .ok (.bool name false) else .error .convert)
  | .basic k name =>
    let s := if part.isEmpty then GoString.ofString "0" else part
    if k.isInt then
      some (match Strconv.parseInt s 0 k.bits with
        | .ok i => .ok (.int k name i)
        | .error _ => .error .convert)
    else if k.isUint then
      some (match Strconv.parseUint s 0 k.bits with
        | .ok u => .ok (.uint k name u)
        | .error _ => .error .convert)
    else if k == .float32 || k == .float64 then
      -- `ParseFloat(str, val.Type().Bits())` then `SetFloat`: the value is stored at the
      -- key's width; a range error (±Inf) is an error
      some (match Strconv.parseFloat s k.bits with
        | .ok b => .ok (.float k name b)
        | .error _ => .error .convert)
    else none
  | _ => none

def fkeyEq (a b : GoVal) : Bool := keyEq Strconv.feq a b

/-- `getMap` -/
def getMap (part : GoString) (kt : GoType) (es : List (GoVal × GoVal)) : Except GetErr RV :=
  match coerceKey part kt with
  | none => .error .unmodelled
  | some (.error e) => .error e
  | some (.ok key) =>
    match es.find? (fun e => fkeyEq e.1 key) with
    | some (_, v) => .ok (some v)
    | none => .error .notFound

/-- `getSlice`: the index is `WeakDecode`d to `int` -/
def getSlice (part : GoString) (xs : List GoVal) : Except GetErr RV :=
  let s := if part.isEmpty then GoString.ofString "0" else part
  match Strconv.parseInt s 0 64 with
  | .error _ => .error .convert
  | .ok idx =>
    if idx < 0 || idx ≥ xs.length then .error .outOfRange
    else
      match xs[idx.toNat]? with
      | some v => .ok (some v)
      | none => .error .outOfRange

/-- cut a tag at its first comma (`fieldTag[0:idx]`) -/
def tagHead : GoString → GoString
  | [] => []
  | c :: cs => if c == 44 then [] else c :: tagHead cs

/-- The field loop of `getStruct`; state = (foundField, found, ignored). -/
def structLoop (tagName part : GoString) :
    List (Field × GoVal) → Option GoVal → Bool → Bool → Except GetErr RV
  | [], foundField, found, ignored =>
    if !found then .error .notFound
    else if ignored then .error .ignored
    else .ok foundField
  | (f, v) :: rest, foundField, found, ignored =>
    if !f.exported then structLoop tagName part rest foundField found ignored else
    let fieldTag := f.tag tagName
    if !fieldTag.isEmpty then
      let fieldTag := tagHead fieldTag
      if fieldTag.contains 124 then .error .tagBar
      else if fieldTag == GoString.ofString "-" then
        if f.goName == part then structLoop tagName part rest foundField true true
        else structLoop tagName part rest foundField found ignored
      else if fieldTag == part then .ok (some v)
      else structLoop tagName part rest foundField found ignored
    else if f.goName == part then structLoop tagName part rest (some v) true ignored
    else structLoop tagName part rest foundField found ignored

def getStruct (cfg : Config) (part : GoString) (fs : List (Field × GoVal)) : Except GetErr RV :=
  let tagName := if cfg.tagName.isEmpty then GoString.ofString "pointer" else cfg.tagName
  structLoop tagName part fs none false false

/-- One iteration of the loop of `Get`. -/
def getStep (cfg : Config) (part : GoString) (cur : RV) : Except GetErr RV :=
  match unwrapForStep cur with
  | some (.map _ kt _ _ es) => applyHook (getMap part kt es)
  | some (.slice _ _ _ xs) => applyHook (getSlice part xs)
  | some (.array _ xs) => applyHook (getSlice part xs)
  | some (.struct _ fs) => applyHook (getStruct cfg part fs)
  | _ => .error .invalidKind
where
  applyHook (r : Except GetErr RV) : Except GetErr RV :=
    match r with
    | .error e => .error e
    | .ok none => .error .hookNil    -- unreachable: the getters return valid Values
    | .ok (some v) =>
      match cfg.hook with
      | .off => .ok (some v)
      | h =>
        match h.apply v with
        | none => .error .hookNil
        | some v' => .ok (some v')

def getLoop (cfg : Config) : List GoString → RV → Except GetErr RV
  | [], cur => .ok cur
  | p :: ps, cur =>
    match getStep cfg p cur with
    | .error e => .error e
    | .ok cur' => getLoop cfg ps cur'

/-- `(*Pointer).Get(v)`: empty pointer returns `v` itself; otherwise walk and box the result. -/
def get (cfg : Config) (parts : List GoString) (v : Any) : Except GetErr Any :=
  match parts with
  | [] => .ok v
  | _ =>
    match getLoop cfg parts (valueOf v) with
    | .error e => .error e
    | .ok none => .error .hookNil      -- unreachable
    | .ok (some r) => .ok r.toAny

end Bexpr.Go
