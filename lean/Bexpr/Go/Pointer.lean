/-
  Hand model of `pointerstructure.(*Pointer).Get` (v1.2.1: get.go, pointer.go `coerce`) together
  with the string→key path of `mapstructure.WeakDecode` it falls back to.
-/
import Bexpr.Go.Val
import Bexpr.Strconv

namespace Bexpr.Go
open Bexpr

inductive GetErr where
  | notFound          -- errors.Is(err, ErrNotFound)
  | outOfRange
  | invalidKind
  | convert
  | ignored           -- `struct field %q is ignored and cannot be used`
  | tagBar            -- tag contains '|'
  | hookNil           -- ValueTransformationHook returned the zero Value
  | unmodelled        -- outside the modelled universe; no longer produced by `get` (`get_ne_unmodelled`)
  | panic             -- the library panics (mapstructure compares arrays of an uncomparable type)
  deriving DecidableEq, Repr, Inhabited

/-- The value-transformation hook family of the correspondence check
    (`pointerstructure.Config.ValueTransformationHook`); `off` = no hook configured. -/
inductive Hook where
  | off
  | identity
  /-- unwrap a struct named `Wrap` (through interfaces/pointers) to its first field -/
  | unwrap
  /-- replace every value by the int 42 -/
  | const42
  /-- return the zero `reflect.Value` -/
  | nilret
  deriving DecidableEq, Repr, Inhabited

/-- strip interfaces and pointers (used by the `unwrap` hook of the harness) -/
def stripIP : GoVal → Option GoVal
  | .iface (some v) => stripIP v
  | .iface none => none
  | .ptr _ (some v) => stripIP v
  | .ptr _ none => none
  | v => some v

def Hook.apply (h : Hook) (v : GoVal) : RV :=
  match h with
  | .off => some v
  | .identity => some v
  | .unwrap =>
    match stripIP v with
    | some (.struct "main.Wrap" ((_, f) :: _)) => some f
    | _ => some v
  | .const42 => some (.int .int "" 42)
  | .nilret => none

structure Config where
  tagName : GoString
  hook : Hook
  deriving Repr, Inhabited

/-- `for currentVal.Kind() == reflect.Interface { currentVal = currentVal.Elem() }` -/
def unwrapIfaceV : GoVal → RV
  | .iface (some v) => unwrapIfaceV v
  | .iface none => none
  | v => some v

/-- `for currentVal.Kind() == reflect.Ptr { currentVal = reflect.Indirect(currentVal) }` -/
def unwrapPtrV : GoVal → RV
  | .ptr _ (some v) => unwrapPtrV v
  | .ptr _ none => none
  | v => some v

def unwrapForStep (v : RV) : RV :=
  match v with
  | none => none
  | some v =>
    match unwrapIfaceV v with
    | none => none
    | some v' => unwrapPtrV v'

/-- `mapstructure`'s `decodeBool / decodeInt / decodeUint / decodeFloat / decodeString` on a string
    input with `WeaklyTypedInput`, for a target of basic kind `k` (defined-type name `name`).
    `getKind` folds Int8…Int64 into Int, Uint8…Uint64 into Uint (NOT Uintptr) and Float64 into
    Float32; uintptr, the complex kinds and everything else end in `unsupported type`. -/
def convOr {α : Type} (r : Except Strconv.PErr α) (f : α → GoVal) : Except GetErr GoVal :=
  match r with
  | .ok a => .ok (f a)
  | .error _ => .error .convert

def decodeBasic (part : GoString) (k : Kind) (name : String) : Except GetErr GoVal :=
  if k == .string then .ok (.str name part)
  else if k == .bool then
    match Strconv.parseBool part with
    | .ok b => .ok (.bool name b)
    | .error _ => if part.isEmpty then .ok (.bool name false) else .error .convert
  else
    let s := if part.isEmpty then GoString.ofString "0" else part
    if k.isInt then
      convOr (Strconv.parseInt s 0 k.bits) (.int k name)
    else if k.isUint && k != .uintptr then
      convOr (Strconv.parseUint s 0 k.bits) (.uint k name)
    else if k == .float32 || k == .float64 then
      -- `ParseFloat(str, val.Type().Bits())` then `SetFloat`: the value is stored at the
      -- key's width; a range error (±Inf) is an error
      convOr (Strconv.parseFloat s k.bits) (.float k name)
    else .error .convert

/-- `(*Decoder).decode(name, part, v)` of mapstructure v1.4.1 for a string input `part`, weak mode,
    into a FRESH (zero) value `v` of type `t`:
    * interface: `decodeBasic` stores the string if it is assignable (empty interface only);
    * pointer: `decodePtr` allocates the pointee and decodes into it;
    * array `[n]e`: `decodeArray` first evaluates `valArray.Interface() == reflect.Zero(t).Interface()`,
      a RUNTIME PANIC ("comparing uncomparable type") when `[n]e` is not comparable (reachable below a
      pointer); then lifts the string to `[]interface{}{part}`: length 1 > n = 0 is an error,
      otherwise element 0 is decoded and the rest stays zero;
    * slice (only below a pointer): a string becomes `[]byte(part)` for elements of kind uint8, else
      it is lifted to a one-element slice;
    * struct, map ("expected a map"), func (type mismatch), chan / unsafe.Pointer / non-empty
      interface ("unsupported type" / not assignable): error. -/
def decodeInto (part : GoString) : GoType → Except GetErr GoVal
  | .iface => .ok (.iface (some (.str "" part)))
  | .basic k name => decodeBasic part k name
  | .ptr e =>
    match decodeInto part e with
    | .ok v => .ok (.ptr e (some v))
    | .error x => .error x
  | .array n e =>
    if !e.comparable then .error .panic
    else if n == 0 then .error .convert
    else
      match decodeInto part e with
      | .ok v => .ok (.array e (v :: List.replicate (n - 1) (zeroVal e)))
      | .error x => .error x
  | .slice name e =>
    if e.kind == .uint8 then
      let en := match e with
        | .basic _ en => en
        | _ => ""
      .ok (.slice name e false (part.map fun b => .uint .uint8 en b.toNat))
    else
      match decodeInto part e with
      | .ok v => .ok (.slice name e false [v])
      | .error x => .error x
  | .map .. => .error .convert
  | .struct _ => .error .convert
  | .other .. => .error .convert

/-- `coerce(reflect.ValueOf(part), keyType)` of pointerstructure: the assignable / convertible
    shortcuts (a string is assignable to `interface{}` and convertible to every string kind), then
    `mapstructure.WeakDecode(part, new(keyType))`.  Total on every key type: a key, "couldn't convert"
    (`.convert`) or the panic of `decodeArray` (`.panic`). -/
def coerceKey (part : GoString) (kt : GoType) : Except GetErr GoVal :=
  match kt with
  | .iface => .ok (.str "" part)                     -- assignable
  | .basic .string name => .ok (.str name part)      -- assignable / convertible
  | kt => decodeInto part kt

def fkeyEq (a b : GoVal) : Bool := keyEq Strconv.feq a b

/-- `getMap` -/
def getMap (part : GoString) (kt : GoType) (es : List (GoVal × GoVal)) : Except GetErr RV :=
  match coerceKey part kt with
  | .error e => .error e
  | .ok key =>
    match es.find? (fun e => fkeyEq e.1 key) with
    | some (_, v) => .ok (some v)
    | none => .error .notFound

/-- `getSlice`: the index is `WeakDecode`d to `int` -/
def getSlice (part : GoString) (xs : List GoVal) : Except GetErr RV :=
  let s := if part.isEmpty then GoString.ofString "0" else part
  match Strconv.parseInt s 0 64 with
  | .error _ => .error .convert
  | .ok idx =>
    if idx < 0 || idx ≥ xs.length then .error .outOfRange
    else
      match xs[idx.toNat]? with
      | some v => .ok (some v)
      | none => .error .outOfRange

/-- cut a tag at its first comma (`fieldTag[0:idx]`) -/
def tagHead : GoString → GoString
  | [] => []
  | c :: cs => if c == 44 then [] else c :: tagHead cs

/-- The field loop of `getStruct`; state = (foundField, found, ignored). -/
def structLoop (tagName part : GoString) :
    List (Field × GoVal) → Option GoVal → Bool → Bool → Except GetErr RV
  | [], foundField, found, ignored =>
    if !found then .error .notFound
    else if ignored then .error .ignored
    else .ok foundField
  | (f, v) :: rest, foundField, found, ignored =>
    if !f.exported then structLoop tagName part rest foundField found ignored else
    let fieldTag := f.tag tagName
    if !fieldTag.isEmpty then
      let fieldTag := tagHead fieldTag
      if fieldTag.contains 124 then .error .tagBar
      else if fieldTag == GoString.ofString "-" then
        if f.goName == part then structLoop tagName part rest foundField true true
        else structLoop tagName part rest foundField found ignored
      else if fieldTag == part then .ok (some v)
      else structLoop tagName part rest foundField found ignored
    else if f.goName == part then structLoop tagName part rest (some v) true ignored
    else structLoop tagName part rest foundField found ignored

def getStruct (cfg : Config) (part : GoString) (fs : List (Field × GoVal)) : Except GetErr RV :=
  let tagName := if cfg.tagName.isEmpty then GoString.ofString "pointer" else cfg.tagName
  structLoop tagName part fs none false false

/-- One iteration of the loop of `Get`. -/
def getStep (cfg : Config) (part : GoString) (cur : RV) : Except GetErr RV :=
  match unwrapForStep cur with
  | some (.map _ kt _ _ es) => applyHook (getMap part kt es)
  | some (.slice _ _ _ xs) => applyHook (getSlice part xs)
  | some (.array _ xs) => applyHook (getSlice part xs)
  | some (.struct _ fs) => applyHook (getStruct cfg part fs)
  | _ => .error .invalidKind
where
  applyHook (r : Except GetErr RV) : Except GetErr RV :=
    match r with
    | .error e => .error e
    | .ok none => .error .hookNil    -- unreachable: the getters return valid Values
    | .ok (some v) =>
      match cfg.hook with
      | .off => .ok (some v)
      | h =>
        match h.apply v with
        | none => .error .hookNil
        | some v' => .ok (some v')

def getLoop (cfg : Config) : List GoString → RV → Except GetErr RV
  | [], cur => .ok cur
  | p :: ps, cur =>
    match getStep cfg p cur with
    | .error e => .error e
    | .ok cur' => getLoop cfg ps cur'

/-- `(*Pointer).Get(v)`: empty pointer returns `v` itself; otherwise walk and box the result. -/
def get (cfg : Config) (parts : List GoString) (v : Any) : Except GetErr Any :=
  match parts with
  | [] => .ok v
  | _ =>
    match getLoop cfg parts (valueOf v) with
    | .error e => .error e
    | .ok none => .error .hookNil      -- unreachable
    | .ok (some r) => .ok r.toAny

end Bexpr.Go
