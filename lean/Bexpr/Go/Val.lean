/-
  The Go value universe as `reflect` shows it to go-bexpr and pointerstructure.

  A `GoVal` carries exactly the static type information the code inspects: kind and defined-type
  name of scalars, element type of pointers / slices / arrays, key and value type of maps, the
  field list (Go name, exportedness, pre-parsed tags) of structs, and whether a slot is of
  interface type (`iface`).  Pointer identity and aliasing are not represented.
-/
import Bexpr.Bytes

namespace Bexpr.Go

inductive Kind where
  | invalid | bool
  | int | int8 | int16 | int32 | int64
  | uint | uint8 | uint16 | uint32 | uint64 | uintptr
  | float32 | float64 | complex64 | complex128
  | array | chan | func | interface | map | pointer | slice | string | struct | unsafePointer
  deriving DecidableEq, Repr, Inhabited

def Kind.isInt : Kind → Bool
  | .int | .int8 | .int16 | .int32 | .int64 => true
  | _ => false

def Kind.isUint : Kind → Bool
  | .uint | .uint8 | .uint16 | .uint32 | .uint64 | .uintptr => true
  | _ => false

/-- `reflect.Type.Bits()` for the numeric kinds (int/uint/uintptr are 64 bit on the platform). -/
def Kind.bits : Kind → Nat
  | .int8 | .uint8 => 8
  | .int16 | .uint16 => 16
  | .int32 | .uint32 | .float32 => 32
  | .complex128 => 128
  | _ => 64

/-- Static Go types.  `name = ""` is the predeclared / unnamed type; `json.Number` is the
    defined string type named `"json.Number"`.  Struct types are identified by name
    (the harness gives every distinct struct type a distinct name). -/
inductive GoType where
  | basic (k : Kind) (name : String)
  | ptr (e : GoType)
  | slice (name : String) (e : GoType)
  | array (n : Nat) (e : GoType)
  | map (name : String) (k v : GoType)
  | struct (name : String)
  | iface
  | other (k : Kind) (name : String)     -- chan / func / unsafe.Pointer
  deriving Repr, Inhabited, BEq, DecidableEq

def GoType.kind : GoType → Kind
  | .basic k _ => k
  | .ptr _ => .pointer
  | .slice .. => .slice
  | .array .. => .array
  | .map .. => .map
  | .struct _ => .struct
  | .iface => .interface
  | .other k _ => k

/-- `derefType` of evaluate.go: strip every pointer level. -/
def GoType.deref : GoType → GoType
  | .ptr e => e.deref
  | t => t

def GoType.stringT : GoType := .basic .string ""

/-- A struct field as `reflect.StructField` shows it: Go name, `PkgPath == ""`, and the result
    of `Tag.Get(key)` for the tag keys in use (absent key = absent from the list = ""). -/
structure Field where
  goName : GoString
  exported : Bool
  tags : List (GoString × GoString)
  deriving Repr, Inhabited, BEq, DecidableEq

def Field.tag (f : Field) (key : GoString) : GoString :=
  match f.tags.find? (·.1 == key) with
  | some (_, v) => v
  | none => []

inductive GoVal where
  | bool (name : String) (b : Bool)
  | int (k : Kind) (name : String) (v : Int)
  | uint (k : Kind) (name : String) (v : Nat)
  | float (k : Kind) (name : String) (bits : Nat)      -- IEEE bit pattern of that width
  | complex (k : Kind) (name : String)
  | str (name : String) (s : GoString)
  | ptr (elem : GoType) (v : Option GoVal)
  | slice (name : String) (elem : GoType) (isNil : Bool) (xs : List GoVal)
  | array (elem : GoType) (xs : List GoVal)
  | map (name : String) (kt vt : GoType) (isNil : Bool) (es : List (GoVal × GoVal))
  | struct (name : String) (fs : List (Field × GoVal))
  | iface (v : Option GoVal)             -- a slot of static type interface{}
  | other (k : Kind) (name : String) (isNil : Bool)
  deriving Repr, Inhabited

/-- `reflect.Value`: `none` is the zero Value (Kind Invalid). -/
abbrev RV := Option GoVal

/-- A Go `interface{}` value: `none` is nil, `some v` has dynamic value `v` (never an `iface`). -/
abbrev Any := Option GoVal

def GoVal.kind : GoVal → Kind
  | .bool .. => .bool
  | .int k .. => k
  | .uint k .. => k
  | .float k .. => k
  | .complex k .. => k
  | .str .. => .string
  | .ptr .. => .pointer
  | .slice .. => .slice
  | .array .. => .array
  | .map .. => .map
  | .struct .. => .struct
  | .iface _ => .interface
  | .other k .. => k

def RV.kind : RV → Kind
  | none => .invalid
  | some v => v.kind

def GoVal.typeOf : GoVal → GoType
  | .bool n _ => .basic .bool n
  | .int k n _ => .basic k n
  | .uint k n _ => .basic k n
  | .float k n _ => .basic k n
  | .complex k n => .basic k n
  | .str n _ => .basic .string n
  | .ptr e _ => .ptr e
  | .slice n e _ _ => .slice n e
  | .array e xs => .array xs.length e
  | .map n k v _ _ => .map n k v
  | .struct n _ => .struct n
  | .iface _ => .iface
  | .other k n _ => .other k n

/-- `reflect.ValueOf(x)` for an interface value `x`. -/
def valueOf (x : Any) : RV := x

/-- `v.Interface()` for a valid Value: an interface-kind Value yields its content, anything
    else is boxed. -/
def GoVal.toAny : GoVal → Any
  | .iface x => x
  | v => some v

/-- `reflect.Indirect`: one pointer level (`nil` pointer → zero Value); other kinds unchanged. -/
def indirect : RV → RV
  | some (.ptr _ x) => x
  | v => v

mutual
/-- Structural size, used as termination measure / fuel bound. -/
def GoVal.size : GoVal → Nat
  | .ptr _ (some v) => v.size + 1
  | .slice _ _ _ xs => sizeList xs + 1
  | .array _ xs => sizeList xs + 1
  | .map _ _ _ _ es => sizeEntries es + 1
  | .struct _ fs => sizeFields fs + 1
  | .iface (some v) => v.size + 1
  | _ => 1
def sizeList : List GoVal → Nat
  | [] => 0
  | x :: xs => x.size + sizeList xs
def sizeEntries : List (GoVal × GoVal) → Nat
  | [] => 0
  | (k, v) :: es => k.size + v.size + sizeEntries es
def sizeFields : List (Field × GoVal) → Nat
  | [] => 0
  | (_, v) :: fs => v.size + sizeFields fs
end

/-- Go's "comparable" for the static types the model distinguishes (what the compiler demands of a
    map key type).  A struct type is known by name only (its field list lives in the values): the
    harness asks `reflect.Type.Comparable()` and marks the names of the struct types that are NOT
    comparable with the suffix `#nc` (`harness/wire.go: typeName`). -/
def GoType.comparable : GoType → Bool
  | .basic k _ =>
    k == .bool || k.isInt || k.isUint || k == .float32 || k == .float64 ||
      k == .complex64 || k == .complex128 || k == .string
  | .ptr _ => true
  | .slice .. => false
  | .array _ e => e.comparable
  | .map .. => false
  | .struct n => !(n.endsWith "#nc")
  | .iface => true
  | .other k _ => k == .chan || k == .unsafePointer || k == .interface   -- not func

/-- `reflect.Zero(t)`.  The zero value of a struct type cannot be built from its name alone
    (placeholder without fields); no definition of the model ever asks for it: a string is never
    decoded into a struct, so no array of structs is ever built. -/
def zeroVal : GoType → GoVal
  | .basic k name =>
    if k == .bool then .bool name false
    else if k.isInt then .int k name 0
    else if k.isUint then .uint k name 0
    else if k == .float32 || k == .float64 then .float k name 0
    else if k == .complex64 || k == .complex128 then .complex k name
    else .str name []
  | .ptr e => .ptr e none
  | .slice n e => .slice n e true []
  | .array n e => .array e (List.replicate n (zeroVal e))
  | .map n k v => .map n k v true []
  | .struct n => .struct n []
  | .iface => .iface none
  | .other k n => .other k n true

/-- the dynamic value of an interface-typed key (`k.Interface()`); other keys unchanged -/
def unboxKey : GoVal → GoVal
  | .iface (some v) => v
  | v => v

/-- Equality of scalar map keys (the universe before arrays / pointers were admitted as keys);
    `keyEqV` agrees with it on scalars (`keyEqV_scalar`, Proofs/PermRel.lean). -/
def keyEqScalar (feq : Nat → Nat → Nat → Bool) : GoVal → GoVal → Bool
  | .bool n a, .bool m b => n == m && a == b
  | .int k n a, .int k' m b => k == k' && n == m && a == b
  | .uint k n a, .uint k' m b => k == k' && n == m && a == b
  | .float k n a, .float k' m b => k == k' && n == m && feq k.bits a b
  | .str n a, .str m b => n == m && a == b
  | _, _ => false

mutual
/-- Go's `==` on two values of comparable type as far as a map lookup can observe it: same
    dynamic type and equal value; floats by IEEE `==`; arrays element by element; interface slots
    (array elements of interface type) by their dynamic values, nil equals nil; pointers: the nil
    pointer equals the nil pointer of the same type, and since pointer identity is not represented
    and every pointer a lookup compares was allocated by the lookup itself, two non-nil pointers are
    never equal.  Structs, complex numbers and channels never take part in a comparison whose
    one side was built from a path part (such a part does not convert): `false`. -/
def keyEqV (feq : Nat → Nat → Nat → Bool) : GoVal → GoVal → Bool
  | .bool n a, .bool m b => n == m && a == b
  | .int k n a, .int k' m b => k == k' && n == m && a == b
  | .uint k n a, .uint k' m b => k == k' && n == m && a == b
  | .float k n a, .float k' m b => k == k' && n == m && feq k.bits a b
  | .str n a, .str m b => n == m && a == b
  | .iface none, .iface none => true
  | .iface (some a), .iface (some b) => keyEqV feq a b
  | .ptr e none, .ptr e' none => e == e'
  | .array e xs, .array e' ys => e == e' && keyEqL feq xs ys
  | _, _ => false
def keyEqL (feq : Nat → Nat → Nat → Bool) : List GoVal → List GoVal → Bool
  | [], [] => true
  | x :: xs, y :: ys => keyEqV feq x y && keyEqL feq xs ys
  | _, _ => false
end

/-- Equality of map keys as Go's `==` on the boxed keys decides it (`k.Interface() ==
    key.Interface()`). -/
def keyEq (feq : Nat → Nat → Nat → Bool) (a b : GoVal) : Bool :=
  keyEqV feq (unboxKey a) (unboxKey b)

end Bexpr.Go
