/-
  Bexpr.Strconv — Go's `strconv.ParseBool`, `ParseUint`, `ParseInt`, `ParseFloat`
  on byte lists, plus IEEE-754 helpers (`feq`, `f32to64`, `f64to32`).

  Sources modelled: $GOROOT/src/strconv/{atob,atoi,atof}.go (go1.23.5, amd64,
  so `IntSize = 64`).

  Every definition is a plain structural recursion over the byte list with
  `Nat`/`Int` arithmetic.  Floats are represented by their IEEE-754 bit patterns
  as `Nat`s.
-/
import Bexpr.Bytes

namespace Bexpr.Strconv

/-- The two `strconv` error kinds (`strconv.ErrSyntax`, `strconv.ErrRange`). -/
inductive PErr
  | syntax
  | range
  deriving DecidableEq, Repr

/-! ## ParseBool -/

/-- The spellings `strconv.ParseBool` accepts as `true`:
`"1", "t", "T", "TRUE", "true", "True"`. -/
def trueStrs : List GoString :=
  [ [0x31], [0x74], [0x54],
    [0x54, 0x52, 0x55, 0x45],      -- TRUE
    [0x74, 0x72, 0x75, 0x65],      -- true
    [0x54, 0x72, 0x75, 0x65] ]     -- True

/-- The spellings `strconv.ParseBool` accepts as `false`:
`"0", "f", "F", "FALSE", "false", "False"`. -/
def falseStrs : List GoString :=
  [ [0x30], [0x66], [0x46],
    [0x46, 0x41, 0x4C, 0x53, 0x45],  -- FALSE
    [0x66, 0x61, 0x6C, 0x73, 0x65],  -- false
    [0x46, 0x61, 0x6C, 0x73, 0x65] ] -- False

/-- Go `strconv.ParseBool`: a `switch str` over twelve literals, otherwise
`syntaxError("ParseBool", str)`. -/
def parseBool (s : GoString) : Except PErr Bool :=
  if trueStrs.contains s then .ok true
  else if falseStrs.contains s then .ok false
  else .error .syntax

/-! ## Character classes -/

/-- `'0' <= c && c <= '9'`. -/
def isDecDigit (c : UInt8) : Bool := 0x30 ≤ c && c ≤ 0x39

/-- `'a' <= lower(c) && lower(c) <= 'f'` where Go's `lower(c) = c | ('x' - 'X')`,
i.e. `c` is one of `a..f`, `A..F`. -/
def isHexLetter (c : UInt8) : Bool := (0x61 ≤ c && c ≤ 0x66) || (0x41 ≤ c && c ≤ 0x46)

/-- Digit value as in the `ParseUint` loop: `c - '0'` for `0..9`, and
`lower(c) - 'a' + 10` when `'a' <= lower(c) <= 'z'` (so `a..z` and `A..Z`);
`none` is the `default:` branch (syntax error). -/
def digitVal (c : UInt8) : Option Nat :=
  if 0x30 ≤ c && c ≤ 0x39 then some (c.toNat - 0x30)
  else if 0x61 ≤ c && c ≤ 0x7A then some (c.toNat - 0x61 + 10)
  else if 0x41 ≤ c && c ≤ 0x5A then some (c.toNat - 0x41 + 10)
  else none

/-- `lower(c) == 'b'`. -/
def isB (c : UInt8) : Bool := c == 0x62 || c == 0x42
/-- `lower(c) == 'o'`. -/
def isO (c : UInt8) : Bool := c == 0x6F || c == 0x4F
/-- `lower(c) == 'x'`. -/
def isX (c : UInt8) : Bool := c == 0x78 || c == 0x58
/-- `lower(c) == 'e'`. -/
def isE (c : UInt8) : Bool := c == 0x65 || c == 0x45
/-- `lower(c) == 'p'`. -/
def isP (c : UInt8) : Bool := c == 0x70 || c == 0x50

/-- The byte `'_'`. -/
def underscore : UInt8 := 0x5F

/-! ## underscoreOK -/

/-- The `saw` variable of Go's `underscoreOK`: `'^'`, `'0'`, `'_'`, `'!'`. -/
inductive Saw
  | start       -- '^' beginning of number
  | digit       -- '0' a digit or base prefix
  | underscore  -- '_'
  | other       -- '!' none of the above
  deriving DecidableEq, Repr

/-- The "number proper" loop of `underscoreOK`.  Returns `false` as soon as an
underscore does not follow a digit or is not followed by one; at the end
`saw != '_'`. -/
def underscoreLoop (hex : Bool) : GoString → Saw → Bool
  | [], saw => saw != .underscore
  | c :: cs, saw =>
    if isDecDigit c || (hex && isHexLetter c) then underscoreLoop hex cs .digit
    else if c == underscore then
      if saw != .digit then false else underscoreLoop hex cs .underscore
    else if saw == .underscore then false
    else underscoreLoop hex cs .other

/-- Go `strconv.underscoreOK`: optional sign, optional base prefix `0b 0o 0x`
(either case; counts as a digit), then underscores only between digits. -/
def underscoreOK (s : GoString) : Bool :=
  let s1 := match s with
    | c :: t => if c == 0x2D || c == 0x2B then t else s
    | [] => s
  match s1 with
  | 0x30 :: p :: t =>
    if isB p || isO p || isX p then underscoreLoop (isX p) t .digit
    else underscoreLoop false s1 .start
  | _ => underscoreLoop false s1 .start

/-! ## ParseUint / ParseInt -/

/-- The digit loop of `ParseUint`, as a left-to-right fold with early exit.
`n` is the value accumulated so far.  Go's two overflow tests (`n >= cutoff` so
`n*base` wraps, and `n1 < n || n1 > maxVal`) together say exactly
`n*base + d > maxVal = 2^bitSize - 1` in unbounded arithmetic.
The first offending byte decides: a bad digit gives `syntax`, an overflow `range`
(even if garbage follows). -/
def uintLoop (base bitSize : Nat) (base0 : Bool) : GoString → Nat → Except PErr Nat
  | [], n => .ok n
  | c :: cs, n =>
    if c == underscore && base0 then uintLoop base bitSize base0 cs n
    else
      match digitVal c with
      | none => .error .syntax
      | some d =>
        if d ≥ base then .error .syntax
        else if n * base + d ≥ 2 ^ bitSize then .error .range
        else uintLoop base bitSize base0 cs (n * base + d)

/-- Base-prefix handling of `ParseUint` for `base == 0`: returns the effective base
and the digits that follow.  `0b`/`0o`/`0x` need at least one more byte
(`len(s) >= 3`); any other leading `0` means octal and only the `0` is dropped. -/
def splitBase0 (s : GoString) : Nat × GoString :=
  match s with
  | 0x30 :: p :: d :: t =>
    if isB p then (2, d :: t)
    else if isO p then (8, d :: t)
    else if isX p then (16, d :: t)
    else (8, p :: d :: t)
  | 0x30 :: t => (8, t)
  | _ => (10, s)

/-- Go `strconv.ParseUint(s, base, bitSize)`.
Contract: `base = 0 ∨ 2 ≤ base ≤ 36`, `bitSize ≤ 64` (`0` means 64).  Outside it
Go returns a third kind of error (`invalid base` / `invalid bit size`); this model
answers `syntax` there — go-bexpr never does that. -/
def parseUint (s : GoString) (base bitSize : Nat) : Except PErr Nat :=
  if s.isEmpty then .error .syntax
  else if !(base == 0 || (2 ≤ base && base ≤ 36)) || bitSize > 64 then .error .syntax
  else
    let base0 := base == 0
    let bd : Nat × GoString := if base0 then splitBase0 s else (base, s)
    let bits := if bitSize == 0 then 64 else bitSize
    match uintLoop bd.1 bits base0 bd.2 0 with
    | .error e => .error e
    | .ok n =>
      -- `if underscores && !underscoreOK(s0)`; `underscores` is set iff the loop
      -- skipped an underscore, i.e. `base0` and the digits contain one.
      if base0 && bd.2.contains underscore && !underscoreOK s then .error .syntax
      else .ok n

/-- Go `strconv.ParseInt(s, base, bitSize)`: optional single sign, `ParseUint` on
the rest, then the `cutoff = 1 << (bitSize-1)` tests.  A `range` error of
`ParseUint` carries the value `maxVal = 2^bitSize - 1` into those tests, exactly
as in Go. -/
def parseInt (s : GoString) (base bitSize : Nat) : Except PErr Int :=
  match s with
  | [] => .error .syntax
  | c :: t =>
    let neg := c == 0x2D
    let rest := if c == 0x2B || c == 0x2D then t else s
    let bits := if bitSize == 0 then 64 else bitSize
    let un? : Except PErr Nat :=
      match parseUint rest base bitSize with
      | .ok n => .ok n
      | .error .range => .ok (2 ^ bits - 1)
      | .error .syntax => .error .syntax
    match un? with
    | .error e => .error e
    | .ok un =>
      let cutoff := 2 ^ (bits - 1)
      if !neg && un ≥ cutoff then .error .range
      else if neg && un > cutoff then .error .range
      else .ok (if neg then - (un : Int) else (un : Int))

/-! ## IEEE-754 formats -/

/-- A binary interchange format: `mantBits` stored fraction bits, `expBits`
exponent bits (Go's `floatInfo`; its `bias` is the negative of ours). -/
structure FloatFmt where
  mantBits : Nat
  expBits : Nat
  deriving Repr

/-- binary64 (`float64info = {52, 11, -1023}`). -/
def fmt64 : FloatFmt := ⟨52, 11⟩
/-- binary32 (`float32info = {23, 8, -127}`). -/
def fmt32 : FloatFmt := ⟨23, 8⟩

/-- Format selected by `ParseFloat`'s `bitSize`: 32 means binary32, anything else binary64. -/
def fmtOf (bitSize : Nat) : FloatFmt := if bitSize == 32 then fmt32 else fmt64

namespace FloatFmt

/-- Exponent bias (1023 / 127). -/
def bias (f : FloatFmt) : Nat := 2 ^ (f.expBits - 1) - 1
/-- Smallest normal exponent (−1022 / −126). -/
def emin (f : FloatFmt) : Int := 1 - (f.bias : Int)
/-- Bit pattern of +Inf; every pattern `≥` this (sign removed) is Inf or NaN. -/
def infBits (f : FloatFmt) : Nat := (2 ^ f.expBits - 1) * 2 ^ f.mantBits
/-- The sign bit. -/
def signBit (f : FloatFmt) : Nat := 2 ^ (f.mantBits + f.expBits)
/-- Stored fraction field. -/
def fracOf (f : FloatFmt) (bits : Nat) : Nat := bits % 2 ^ f.mantBits
/-- Stored (biased) exponent field. -/
def expOf (f : FloatFmt) (bits : Nat) : Nat := bits / 2 ^ f.mantBits % 2 ^ f.expBits
/-- Sign field (0 or 1). -/
def signOf (f : FloatFmt) (bits : Nat) : Nat := bits / 2 ^ (f.mantBits + f.expBits) % 2
/-- Pattern with the sign bit cleared. -/
def absOf (f : FloatFmt) (bits : Nat) : Nat := bits % f.signBit
/-- NaN: exponent all ones, fraction non-zero. -/
def isNaN (f : FloatFmt) (bits : Nat) : Bool := f.absOf bits > f.infBits

end FloatFmt

/-! ## Correct rounding of a non-negative rational to a float -/

/-- `num / (den * 2^e)` as a fraction of naturals (`e` may be negative). -/
def scalePow2 (num den : Nat) (e : Int) : Nat × Nat :=
  if e ≥ 0 then (num, den * 2 ^ e.toNat) else (num * 2 ^ (-e).toNat, den)

/-- `⌊log2 (num/den)⌋` for `num, den > 0`: the estimate
`log2 num - log2 den` is either right or one too big. -/
def floorLog2Rat (num den : Nat) : Int :=
  let e : Int := (Nat.log2 num : Int) - (Nat.log2 den : Int)
  let nd := scalePow2 num den e
  if nd.1 ≥ nd.2 then e else e - 1

/-- Round `num/den` to the nearest natural, ties to even. -/
def roundHalfEven (num den : Nat) : Nat :=
  let q := num / den
  let r := num % den
  if 2 * r > den || (2 * r == den && q % 2 == 1) then q + 1 else q

/-- The bit pattern (sign bit clear) of the float of format `f` nearest to the
rational `num/den ≥ 0` (`den > 0`), round-half-even, subnormals included.
A result `≥ f.infBits` means the rounded value exceeds the largest finite float
(overflow).

With `e = max ⌊log2 v⌋ emin` the value is measured in units of `2^(e - mantBits)`,
giving an integer significand `m ≤ 2^(mantBits+1)`; the pattern is
`(e - emin) * 2^mantBits + m`: for a normal number `m` carries the implicit bit,
which bumps the exponent field from `e - emin` to `e - emin + 1 = e + bias`; for a
subnormal `e = emin` and the pattern is just `m`; a carry out of rounding
(`m = 2^(mantBits+1)`, or `m = 2^mantBits` in the subnormal case) lands on the
right pattern by plain addition. -/
def roundRat (f : FloatFmt) (num den : Nat) : Nat :=
  if num == 0 then 0
  else
    let e2 := floorLog2Rat num den
    let e := if e2 < f.emin then f.emin else e2
    let nd := scalePow2 num den (e - (f.mantBits : Int))
    let m := roundHalfEven nd.1 nd.2
    (e - f.emin).toNat * 2 ^ f.mantBits + m

/-! ## ParseFloat -/

/-- The three values `special` can return. -/
inductive Special
  | posInf
  | negInf
  | nan
  deriving DecidableEq, Repr

/-- Go `commonPrefixLenIgnoreCase(s, prefix)`; `pre` is lower-case, only `A..Z`
of `s` are folded. -/
def commonPrefixLenIgnoreCase : GoString → GoString → Nat
  | c :: cs, p :: ps =>
    let c' := if 0x41 ≤ c && c ≤ 0x5A then c + 0x20 else c
    if c' == p then commonPrefixLenIgnoreCase cs ps + 1 else 0
  | _, _ => 0

/-- `"infinity"`. -/
def infinityStr : GoString := [0x69, 0x6E, 0x66, 0x69, 0x6E, 0x69, 0x74, 0x79]
/-- `"nan"`. -/
def nanStr : GoString := [0x6E, 0x61, 0x6E]

/-- The `case 'i', 'I':` arm of `special` (also reached by `fallthrough` after a
sign): `n := commonPrefixLenIgnoreCase(s, "infinity")`; `3 < n < 8` is cut back to
3; success iff `n == 3 || n == 8`; consumed length `nsign + n`. -/
def specialInf (s : GoString) (neg : Bool) (nsign : Nat) : Option (Special × Nat) :=
  let n0 := commonPrefixLenIgnoreCase s infinityStr
  let n := if 3 < n0 && n0 < 8 then 3 else n0
  if n == 3 || n == 8 then some (if neg then .negInf else .posInf, nsign + n) else none

/-- Go `special(s)`: the recognised prefix and its length.  A sign is accepted
only in front of `inf`/`infinity` (`"+nan"` is NOT special: after the sign the code
falls through to the `inf` arm only). -/
def special (s : GoString) : Option (Special × Nat) :=
  match s with
  | [] => none
  | c :: rest =>
    if c == 0x2B then specialInf rest false 1
    else if c == 0x2D then specialInf rest true 1
    else if c == 0x69 || c == 0x49 then specialInf s false 0
    else if c == 0x6E || c == 0x4E then
      if commonPrefixLenIgnoreCase s nanStr == 3 then some (.nan, 3) else none
    else none

/-- State of the mantissa loop of `readFloat`.  Unlike Go we keep ALL digits in
`mant` (Go keeps 19 resp. 16 and sets `trunc`, then repairs the result on its slow
path); `fracDigits` counts the digits after the point. -/
structure MantScan where
  mant : Nat := 0
  sawDot : Bool := false
  sawDigits : Bool := false
  fracDigits : Nat := 0
  deriving Repr

/-- Push one digit of value `d` in base `base`. -/
def MantScan.push (st : MantScan) (base d : Nat) : MantScan :=
  { st with mant := st.mant * base + d, sawDigits := true,
            fracDigits := if st.sawDot then st.fracDigits + 1 else st.fracDigits }

/-- The `loop:` of `readFloat`: underscores are skipped, one `.` is allowed,
decimal digits always count, `a..f`/`A..F` only when `hex`.  Returns the state and
the unconsumed rest. -/
def scanMant (hex : Bool) : GoString → MantScan → MantScan × GoString
  | [], st => (st, [])
  | c :: cs, st =>
    if c == underscore then scanMant hex cs st
    else if c == 0x2E then
      if st.sawDot then (st, c :: cs) else scanMant hex cs { st with sawDot := true }
    else if isDecDigit c then
      scanMant hex cs (st.push (if hex then 16 else 10) (c.toNat - 0x30))
    else if hex && isHexLetter c then
      scanMant hex cs (st.push 16 ((c.toNat ||| 0x20) - 0x61 + 10))
    else (st, c :: cs)

/-- The exponent digit loop of `readFloat`:
`for ; i < len(s) && ('0' <= s[i] && s[i] <= '9' || s[i] == '_'); i++` with the
saturating accumulation `if e < 10000 { e = e*10 + int(s[i]) - '0' }`. -/
def scanExpDigits : GoString → Nat → Nat × GoString
  | [], e => (e, [])
  | c :: cs, e =>
    if c == underscore then scanExpDigits cs e
    else if isDecDigit c then
      scanExpDigits cs (if e < 10000 then e * 10 + (c.toNat - 0x30) else e)
    else (e, c :: cs)

/-- The optional-exponent part of `readFloat`, entered after the exponent
character: optional sign, then a mandatory decimal digit, then digits and
underscores.  `none` = `return` with `ok == false`. -/
def scanExp (s : GoString) : Option (Int × GoString) :=
  match s with
  | [] => none                                   -- `if i >= len(s) { return }`
  | c :: t =>
    let neg := c == 0x2D
    let rest := if c == 0x2B || c == 0x2D then t else s
    match rest with
    | [] => none
    | d :: _ =>
      if !isDecDigit d then none                 -- `s[i] < '0' || s[i] > '9'`
      else
        let er := scanExpDigits rest 0
        some (if neg then - (er.1 : Int) else (er.1 : Int), er.2)

/-- What `readFloat` extracts, with the whole string consumed: the value is
`(-1)^neg * mant * base^exp` where `base = 2` if `hex` else `10`. -/
structure ReadFloat where
  neg : Bool
  hex : Bool
  mant : Nat
  exp : Int
  deriving Repr

/-- Go `readFloat(s)` restricted to the case that matters for `ParseFloat`:
success AND `i == len(s)` (any unconsumed byte makes `ParseFloat` fail with a
syntax error).  Hex mode needs `i+2 < len(s)`, i.e. a byte after `0x`; hex
mantissas need a `p` exponent.  The final `underscores && !underscoreOK(s[:i])`
becomes a test on all of `s`: every `_` inside the consumed text was seen by one of
the two loops. -/
def readFloat (s : GoString) : Option ReadFloat :=
  match s with
  | [] => none
  | c :: t =>
    let neg := c == 0x2D
    let s1 := if c == 0x2B || c == 0x2D then t else s
    let hexBody : Option GoString :=
      match s1 with
      | 0x30 :: x :: d :: r => if isX x then some (d :: r) else none
      | _ => none
    let hex := hexBody.isSome
    let body := hexBody.getD s1
    let sr := scanMant hex body {}
    let st := sr.1
    if !st.sawDigits then none
    else
      let isExpChar (c : UInt8) : Bool := if hex then isP c else isE c
      let fin (e : Int) (rest : GoString) : Option ReadFloat :=
        if !rest.isEmpty then none
        else if s.contains underscore && !underscoreOK s then none
        else
          let k : Int := if hex then e - 4 * (st.fracDigits : Int) else e - (st.fracDigits : Int)
          some { neg := neg, hex := hex, mant := st.mant, exp := k }
      match sr.2 with
      | e :: rest =>
        if isExpChar e then
          match scanExp rest with
          | none => none
          | some er => fin er.1 er.2
        else none                                   -- unconsumed byte
      | [] => if hex then none else fin 0 []        -- hex: "Must have exponent."

/-- The exact value of a `ReadFloat` as a fraction `num/den` (sign aside). -/
def ReadFloat.toRat (r : ReadFloat) : Nat × Nat :=
  let b : Nat := if r.hex then 2 else 10
  if r.exp ≥ 0 then (r.mant * b ^ r.exp.toNat, 1) else (r.mant, b ^ (-r.exp).toNat)

/-- Bit pattern `ParseFloat` yields for a `special` value.  `math.NaN()` is
`0x7FF8000000000001`; converted with `float32(·)` on amd64 it is `0x7FC00000`. -/
def specialBits (f : FloatFmt) : Special → Nat
  | .posInf => f.infBits
  | .negInf => f.signBit + f.infBits
  | .nan => if f.mantBits == 23 then 0x7FC00000 else 0x7FF8000000000001

/-- Go `strconv.ParseFloat(s, bitSize)`, result as a bit pattern of width 32
(`bitSize = 32`) or 64 (otherwise): the correctly rounded (nearest-even) value of
the literal, `range` when that rounding overflows to ±Inf, `syntax` when Go reports
a syntax error (including trailing garbage).

The literal's exact value uses Go's saturated exponent (`scanExpDigits`), so even
`1e99999999` agrees.  NaN never carries a sign (`"-nan"` is a syntax error).

KNOWN DIVERGENCE (a go1.23.5 defect, found by /verif/harness_strconv): for a
DECIMAL literal with more than 800 digits between its first non-zero digit and the
decimal point (or the end of the mantissa), Go's slow path `decimal.set` sets
`dp = nd` from a digit count capped at 800, so whenever the Eisel-Lemire fast path
declines, Go's result is too small by `10^(digits-800)`; e.g.
`ParseFloat("1" + 800 zeros + "e-791", 64)` returns `1e8`, not `1e9`.  Which path
Go takes depends on Eisel-Lemire internals, so this is not modelled: here such
literals get their correctly rounded value.  Syntax acceptance is unaffected.  The
harness generates such inputs only with `-bug800`. -/
def parseFloat (s : GoString) (bitSize : Nat) : Except PErr Nat :=
  let f := fmtOf bitSize
  match special s with
  | some (sp, n) =>
    -- `if n != len(s) && (err == nil || …) { return 0, syntaxError }`
    if n == s.length then .ok (specialBits f sp) else .error .syntax
  | none =>
    match readFloat s with
    | none => .error .syntax
    | some r =>
      let nd := r.toRat
      let bits := roundRat f nd.1 nd.2
      if bits ≥ f.infBits then .error .range
      else .ok (if r.neg then f.signBit + bits else bits)

/-! ## Comparisons and conversions on bit patterns -/

/-- IEEE `==` on two patterns of width `bitSize` (32, else 64): NaN is unequal to
everything, `+0 == -0`, otherwise pattern equality. -/
def feq (bitSize : Nat) (a b : Nat) : Bool :=
  let f := fmtOf bitSize
  if f.isNaN a || f.isNaN b then false
  else if f.absOf a == 0 && f.absOf b == 0 then true
  else a == b

/-- The exact value of a FINITE pattern as `num/den` (sign aside):
subnormals `frac * 2^(emin - mantBits)`, normals `(2^mantBits + frac) * 2^(exp - bias - mantBits)`. -/
def finiteToRat (f : FloatFmt) (bits : Nat) : Nat × Nat :=
  let frac := f.fracOf bits
  let ex := f.expOf bits
  let m : Nat := if ex == 0 then frac else 2 ^ f.mantBits + frac
  let e : Int := (if ex == 0 then f.emin else (ex : Int) - (f.bias : Int)) - (f.mantBits : Int)
  if e ≥ 0 then (m * 2 ^ e.toNat, 1) else (m, 2 ^ (-e).toNat)

/-- Go's float conversion between formats, on patterns: round to nearest even,
overflow to ±Inf, Inf to Inf.  A NaN becomes the quiet NaN with the same sign and
the payload shifted into place (what amd64 `CVTSD2SS`/`CVTSS2SD` do). -/
def fconvert (src dst : FloatFmt) (bits : Nat) : Nat :=
  let sign := if src.signOf bits == 1 then dst.signBit else 0
  let a := src.absOf bits
  if a == src.infBits then sign + dst.infBits
  else if a > src.infBits then
    let frac := src.fracOf bits
    let payload :=
      if dst.mantBits ≥ src.mantBits then frac * 2 ^ (dst.mantBits - src.mantBits)
      else frac / 2 ^ (src.mantBits - dst.mantBits)
    let quiet := 2 ^ (dst.mantBits - 1)
    sign + dst.infBits + (if payload / quiet % 2 == 1 then payload else payload + quiet)
  else
    let nd := finiteToRat src a
    let r := roundRat dst nd.1 nd.2
    sign + (if r ≥ dst.infBits then dst.infBits else r)

/-- Go `float64(x)` for `x : float32` (exact). -/
def f32to64 (bits32 : Nat) : Nat := fconvert fmt32 fmt64 bits32

/-- Go `float32(x)` for `x : float64` (nearest even; overflow to ±Inf). -/
def f64to32 (bits64 : Nat) : Nat := fconvert fmt64 fmt32 bits64

end Bexpr.Strconv
