/-
  Mirror of `grammar/ast.go`: the syntax tree the parser produces and the evaluator walks.
-/
import Bexpr.Bytes

namespace Bexpr

inductive MatchOp where
  | equal | notEqual | in_ | notIn | isEmpty | isNotEmpty | matches | notMatches
  deriving DecidableEq, Repr, Inhabited

def MatchOp.all : List MatchOp :=
  [.equal, .notEqual, .in_, .notIn, .isEmpty, .isNotEmpty, .matches, .notMatches]

inductive SelType where
  | unknown | bexpr | jsonPointer
  deriving DecidableEq, Repr, Inhabited

structure Selector where
  ty : SelType
  path : List GoString
  deriving DecidableEq, Repr, Inhabited

inductive CollOp where
  | all | any
  deriving DecidableEq, Repr, Inhabited

inductive BindMode where
  | default | index | value | indexAndValue
  deriving DecidableEq, Repr, Inhabited

/-- `CollectionNameBinding`; unused names are the empty string as in Go. -/
structure Binding where
  mode : BindMode
  default : GoString := []
  index : GoString := []
  value : GoString := []
  deriving DecidableEq, Repr, Inhabited

/-- `grammar.Expression`.  `UnaryExpression` has the single operator `not`,
    `BinaryExpression` the two operators `and` / `or`; `MatchExpression.Value` is a
    pointer (`none` = nil) whose only parser-set field is `Raw`. -/
inductive Expr where
  | not (e : Expr)
  | and (l r : Expr)
  | or (l r : Expr)
  | match_ (sel : Selector) (op : MatchOp) (val : Option GoString)
  | coll (op : CollOp) (sel : Selector) (b : Binding) (inner : Expr)
  deriving DecidableEq, Repr, Inhabited

/-- Operators that carry a value in parser-produced trees. -/
def MatchOp.takesValue : MatchOp → Bool
  | .isEmpty | .isNotEmpty => false
  | _ => true

/-- Shape invariant of trees produced by the parser (see `Proofs/ParserShape`):
    a match node has a value iff its operator takes one. -/
def Expr.parserShaped : Expr → Bool
  | .not e => e.parserShaped
  | .and l r => l.parserShaped && r.parserShaped
  | .or l r => l.parserShaped && r.parserShaped
  | .match_ _ op v => v.isSome == op.takesValue
  | .coll _ _ _ inner => inner.parserShaped

def Expr.size : Expr → Nat
  | .not e => e.size + 1
  | .and l r => l.size + r.size + 1
  | .or l r => l.size + r.size + 1
  | .match_ .. => 1
  | .coll _ _ _ inner => inner.size + 1

end Bexpr
