/-
  Wire format of the correspondence check (harness ↔ driver): S-expressions over
  space-separated tokens; byte strings are lowercase hex with an `x` prefix.
  Reader and printers for types, values, expression trees.
-/
import Bexpr.Ast
import Bexpr.Go.Val
import Bexpr.Peg.Engine

namespace Bexpr.Wire
open Bexpr Bexpr.Go

/-- generic S-expression -/
inductive Sx where
  | atom (a : String)
  | list (xs : List Sx)
  deriving Repr, Inhabited

/-- parse one S-expression from a token list; `fuel` bounds recursion (token count) -/
def parseSx : Nat → List String → Option (Sx × List String)
  | 0, _ => none
  | _ + 1, [] => none
  | fuel + 1, t :: ts =>
    if t == "(" then
      let rec items : Nat → List String → List Sx → Option (List Sx × List String)
        | 0, _, _ => none
        | _ + 1, [], _ => none
        | k + 1, t :: ts, acc =>
          if t == ")" then some (acc.reverse, ts)
          else match parseSx fuel (t :: ts) with
            | some (x, rest) => items k rest (x :: acc)
            | none => none
      match items (fuel + 1) ts [] with
      | some (xs, rest) => some (.list xs, rest)
      | none => none
    else if t == ")" then none
    else some (.atom t, ts)

def parseAll (toks : List String) : Option (List Sx) :=
  let n := toks.length + 1
  let rec go : Nat → List String → List Sx → Option (List Sx)
    | 0, _, _ => none
    | _ + 1, [], acc => some acc.reverse
    | k + 1, ts, acc =>
      match parseSx n ts with
      | some (x, rest) => go k rest (x :: acc)
      | none => none
  go n toks []

def hexAtom? (a : String) : Option GoString :=
  if a.startsWith "x" then GoString.ofHex? (a.drop 1).toString else none

def nameOf (a : String) : String := if a == "-" then "" else a

def kindOfString : String → Option Kind
  | "invalid" => some .invalid | "bool" => some .bool
  | "int" => some .int | "int8" => some .int8 | "int16" => some .int16 | "int32" => some .int32
  | "int64" => some .int64
  | "uint" => some .uint | "uint8" => some .uint8 | "uint16" => some .uint16
  | "uint32" => some .uint32 | "uint64" => some .uint64 | "uintptr" => some .uintptr
  | "float32" => some .float32 | "float64" => some .float64
  | "complex64" => some .complex64 | "complex128" => some .complex128
  | "array" => some .array | "chan" => some .chan | "func" => some .func
  | "interface" => some .interface | "map" => some .map | "ptr" => some .pointer
  | "slice" => some .slice | "string" => some .string | "struct" => some .struct
  | "unsafe.Pointer" => some .unsafePointer
  | _ => none

def kindToString : Kind → String
  | .invalid => "invalid" | .bool => "bool"
  | .int => "int" | .int8 => "int8" | .int16 => "int16" | .int32 => "int32" | .int64 => "int64"
  | .uint => "uint" | .uint8 => "uint8" | .uint16 => "uint16" | .uint32 => "uint32"
  | .uint64 => "uint64" | .uintptr => "uintptr"
  | .float32 => "float32" | .float64 => "float64"
  | .complex64 => "complex64" | .complex128 => "complex128"
  | .array => "array" | .chan => "chan" | .func => "func" | .interface => "interface"
  | .map => "map" | .pointer => "ptr" | .slice => "slice" | .string => "string"
  | .struct => "struct" | .unsafePointer => "unsafe.Pointer"

def typeOfSx : Sx → Option GoType
  | .atom "i" => some .iface
  | .list [.atom "b", .atom k, .atom n] => (kindOfString k).map fun k => .basic k (nameOf n)
  | .list [.atom "p", t] => (typeOfSx t).map .ptr
  | .list [.atom "s", .atom n, t] => (typeOfSx t).map (.slice (nameOf n))
  | .list [.atom "a", .atom n, t] => do
    let n ← n.toNat?
    let t ← typeOfSx t
    pure (.array n t)
  | .list [.atom "m", .atom n, k, v] => do
    let k ← typeOfSx k
    let v ← typeOfSx v
    pure (.map (nameOf n) k v)
  | .list [.atom "st", .atom n] => some (.struct (nameOf n))
  | .list [.atom "o", .atom k, .atom n] => (kindOfString k).map fun k => .other k (nameOf n)
  | _ => none

def nm (n : String) : String := if n == "" then "-" else n

def typeToString : GoType → String
  | .iface => "i"
  | .basic k n => s!"( b {kindToString k} {nm n} )"
  | .ptr t => s!"( p {typeToString t} )"
  | .slice n t => s!"( s {nm n} {typeToString t} )"
  | .array n t => s!"( a {n} {typeToString t} )"
  | .map n k v => s!"( m {nm n} {typeToString k} {typeToString v} )"
  | .struct n => s!"( st {nm n} )"
  | .other k n => s!"( o {kindToString k} {nm n} )"

def bool01? : String → Option Bool
  | "0" => some false
  | "1" => some true
  | _ => none

mutual
def valOfSx : Sx → Option GoVal
  | .list [.atom "B", .atom n, .atom b] => (bool01? b).map (.bool (nameOf n))
  | .list [.atom "I", .atom k, .atom n, .atom v] => do
    let k ← kindOfString k
    let v ← v.toInt?
    pure (.int k (nameOf n) v)
  | .list [.atom "U", .atom k, .atom n, .atom v] => do
    let k ← kindOfString k
    let v ← v.toNat?
    pure (.uint k (nameOf n) v)
  | .list [.atom "F", .atom k, .atom n, .atom v] => do
    let k ← kindOfString k
    let v ← v.toNat?
    pure (.float k (nameOf n) v)
  | .list [.atom "C", .atom k, .atom n] => (kindOfString k).map fun k => .complex k (nameOf n)
  | .list [.atom "S", .atom n, .atom h] => (hexAtom? h).map (.str (nameOf n))
  | .list [.atom "P", t, .atom "nil"] => (typeOfSx t).map fun t => .ptr t none
  | .list [.atom "P", t, v] => do
    let t ← typeOfSx t
    let v ← valOfSx v
    pure (.ptr t (some v))
  | .list (.atom "L" :: .atom n :: t :: .atom isNil :: xs) => do
    let t ← typeOfSx t
    let b ← bool01? isNil
    let xs ← valsOfSx xs
    pure (.slice (nameOf n) t b xs)
  | .list (.atom "A" :: t :: xs) => do
    let t ← typeOfSx t
    let xs ← valsOfSx xs
    pure (.array t xs)
  | .list (.atom "M" :: .atom n :: kt :: vt :: .atom isNil :: es) => do
    let kt ← typeOfSx kt
    let vt ← typeOfSx vt
    let b ← bool01? isNil
    let es ← entriesOfSx es
    pure (.map (nameOf n) kt vt b es)
  | .list (.atom "T" :: .atom n :: fs) => do
    let fs ← fieldsOfSx fs
    pure (.struct (nameOf n) fs)
  | .list [.atom "X", .atom "nil"] => some (.iface none)
  | .list [.atom "X", v] => (valOfSx v).map fun v => .iface (some v)
  | .list [.atom "O", .atom k, .atom n, .atom isNil] => do
    let k ← kindOfString k
    let b ← bool01? isNil
    pure (.other k (nameOf n) b)
  | _ => none
def valsOfSx : List Sx → Option (List GoVal)
  | [] => some []
  | x :: xs => do
    let v ← valOfSx x
    let vs ← valsOfSx xs
    pure (v :: vs)
def entriesOfSx : List Sx → Option (List (GoVal × GoVal))
  | [] => some []
  | .list [k, v] :: es => do
    let k ← valOfSx k
    let v ← valOfSx v
    let es ← entriesOfSx es
    pure ((k, v) :: es)
  | _ => none
def fieldsOfSx : List Sx → Option (List (Field × GoVal))
  | [] => some []
  | .list [.atom "f", .atom gn, .atom ex, .list tags, v] :: fs => do
    let gn ← hexAtom? gn
    let ex ← bool01? ex
    let tags ← tagsOfSx tags
    let v ← valOfSx v
    let fs ← fieldsOfSx fs
    pure (({ goName := gn, exported := ex, tags := tags }, v) :: fs)
  | _ => none
def tagsOfSx : List Sx → Option (List (GoString × GoString))
  | [] => some []
  | .list [.atom k, .atom v] :: ts => do
    let k ← hexAtom? k
    let v ← hexAtom? v
    let ts ← tagsOfSx ts
    pure ((k, v) :: ts)
  | _ => none
end

def anyOfSx : Sx → Option Any
  | .atom "nil" => some none
  | x => (valOfSx x).map some

def hx (s : GoString) : String := "x" ++ GoString.toHex s

def b01 (b : Bool) : String := if b then "1" else "0"

mutual
def valToString : GoVal → String
  | .bool n b => s!"( B {nm n} {b01 b} )"
  | .int k n v => s!"( I {kindToString k} {nm n} {v} )"
  | .uint k n v => s!"( U {kindToString k} {nm n} {v} )"
  | .float k n v => s!"( F {kindToString k} {nm n} {v} )"
  | .complex k n => s!"( C {kindToString k} {nm n} )"
  | .str n v => s!"( S {nm n} {hx v} )"
  | .ptr t none => s!"( P {typeToString t} nil )"
  | .ptr t (some v) => s!"( P {typeToString t} {valToString v} )"
  | .slice n t isNil xs => s!"( L {nm n} {typeToString t} {b01 isNil}{valsToString xs} )"
  | .array t xs => s!"( A {typeToString t}{valsToString xs} )"
  | .map n kt vt isNil es =>
    s!"( M {nm n} {typeToString kt} {typeToString vt} {b01 isNil}{entriesToString es} )"
  | .struct n fs => s!"( T {nm n}{fieldsToString fs} )"
  | .iface none => "( X nil )"
  | .iface (some v) => s!"( X {valToString v} )"
  | .other k n isNil => s!"( O {kindToString k} {nm n} {b01 isNil} )"
def valsToString : List GoVal → String
  | [] => ""
  | v :: vs => " " ++ valToString v ++ valsToString vs
def entriesToString : List (GoVal × GoVal) → String
  | [] => ""
  | (k, v) :: es => s!" ( {valToString k} {valToString v} )" ++ entriesToString es
def fieldsToString : List (Field × GoVal) → String
  | [] => ""
  | (f, v) :: fs =>
    let tags := String.join (f.tags.map fun (k, t) => s!" ( {hx k} {hx t} )")
    s!" ( f {hx f.goName} {b01 f.exported} ({tags} ) {valToString v} )" ++ fieldsToString fs
end

def anyToString : Any → String
  | none => "nil"
  | some v => valToString v

/-! expression trees -/

def matchOpToString : MatchOp → String
  | .equal => "eq" | .notEqual => "ne" | .in_ => "in" | .notIn => "notin"
  | .isEmpty => "empty" | .isNotEmpty => "notempty" | .matches => "matches"
  | .notMatches => "notmatches"

def selToString (s : Selector) : String :=
  let ty := match s.ty with
    | .bexpr => "bexpr"
    | .jsonPointer => "ptr"
    | .unknown => "unknown"
  "( sel " ++ ty ++ String.join (s.path.map fun p => " " ++ hx p) ++ " )"

def bindToString (b : Binding) : String :=
  let m := match b.mode with
    | .default => "default"
    | .index => "index"
    | .value => "value"
    | .indexAndValue => "indexvalue"
  s!"( bind {m} {hx b.default} {hx b.index} {hx b.value} )"

def exprToString : Expr → String
  | .not e => s!"( not {exprToString e} )"
  | .and l r => s!"( and {exprToString l} {exprToString r} )"
  | .or l r => s!"( or {exprToString l} {exprToString r} )"
  | .match_ sel op none => s!"( match {selToString sel} {matchOpToString op} - )"
  | .match_ sel op (some raw) => s!"( match {selToString sel} {matchOpToString op} {hx raw} )"
  | .coll op sel b inner =>
    let o := match op with
      | .all => "all"
      | .any => "any"
    s!"( coll {o} {selToString sel} {bindToString b} {exprToString inner} )"

end Bexpr.Wire
