/-
  GoLite — abstract syntax of the small subset of Go in which `evaluate`, `evaluateMatchExpression`
  and the helpers they may be split into are written.  Terms of these types are REGENERATED from
  the source on every run (`xlate golite` → `BexprGen/GoLiteGen.lean`); `Bexpr/GoLite/Interp.lean`
  gives them a meaning over an abstract value domain and `Ties/EvaluateSem.lean` states the
  obligations.  Whatever the translator does not recognise is an explicit `unsupported` node, on
  which the interpreter gets stuck (so the dependent obligation fails visibly).
-/
namespace Bexpr.GoLite

/-- expressions -/
inductive Expr where
  /-- a local variable, parameter, or (as callee) a package-level function -/
  | ident (name : String)
  /-- field selection `x.F` -/
  | sel (e : Expr) (field : String)
  /-- a name of an imported package: `grammar.UnaryOpNot`, `reflect.Indirect` -/
  | pkg (pkg name : String)
  | nil
  | bool (b : Bool)
  /-- a string / number literal (only ever an argument of an opaque call) -/
  | lit (text : String)
  | not (e : Expr)
  /-- `&&` `||` `==` `!=` -/
  | bin (op : String) (l r : Expr)
  /-- `f(args…)`; `ellipsis` = the last argument is spread (`opt...`) -/
  | call (f : Expr) (args : List Expr) (ellipsis : Bool)
  /-- `e.(T)`, `T` printed as text -/
  | typeAssert (e : Expr) (ty : String)
  /-- `fmt.Errorf(…)` / `errors.New(…)`: an opaque error made at `site` (`<function>#<n>`);
      the translator only emits it when no argument contains a call -/
  | mkErr (fn : String) (site : String)
  | unsupported (text : String)
  deriving Repr, Inhabited

/-- statements -/
inductive Stmt where
  /-- `a, b := e…` -/
  | define (lhs : List String) (rhs : List Expr)
  /-- `a, b = e…` (identifiers and `_` only) -/
  | assign (lhs : List String) (rhs : List Expr)
  /-- `var x T` / `var x T = e` / `var x = e` (one name) -/
  | varDecl (name : String) (ty : String) (init : Option Expr)
  /-- `if init; cond { thn } else { els }`; `else if` is `els = [ifS …]` -/
  | ifS (init : Option Stmt) (cond : Expr) (thn : List Stmt) (els : List Stmt)
  /-- expression switch; `tag = none` is `switch { … }`; no `fallthrough` -/
  | switchS (init : Option Stmt) (tag : Option Expr) (cases : List (List Expr × List Stmt))
      (dflt : Option (List Stmt))
  /-- `switch x := e.(type) { case T1, T2: … }`, types printed as text (`"nil"` for `case nil`) -/
  | typeSwitch (bind : Option String) (e : Expr) (cases : List (List String × List Stmt))
      (dflt : Option (List Stmt))
  | ret (es : List Expr)
  | block (ss : List Stmt)
  /-- an expression statement (a call) -/
  | exprS (e : Expr)
  | unsupported (text : String)
  deriving Repr, Inhabited

/-- one clause of an expression switch (a helper of the generated terms) -/
@[reducible] def Stmt.case (es : List Expr) (body : List Stmt) : List Expr × List Stmt := (es, body)

/-- one clause of a type switch -/
@[reducible] def Stmt.typeCase (tys : List String) (body : List Stmt) : List String × List Stmt :=
  (tys, body)

/-- a package-level function -/
structure FuncDecl where
  name : String
  /-- parameter names in order -/
  params : List String
  /-- the last parameter is `...T` -/
  variadic : Bool
  /-- result names (`""` when unnamed) and types as text -/
  results : List (String × String)
  body : List Stmt
  deriving Repr, Inhabited

end Bexpr.GoLite
