/-
  GoLite — a fuelled big-step interpreter over an ABSTRACT value domain.

  Values: booleans, `nil`, opaque errors (tagged by the site that made them), abstract syntax-tree
  nodes, operator constants, opaque values (`datum`, `opt`, …) and symbolic applications (the
  result of a field selection or of an external call the scenario answers symbolically).

  A call to a function of the generated table is interpreted by inlining.  A call to a LEAF — a
  name listed in `Cfg.leaves` or any function that is not in the table (other packages, methods,
  builtins) — is answered by the scenario's ORACLE and LOGGED with the callee and the abstract
  values of its arguments; when the oracle has no answer the run is stuck.  So is every
  `unsupported` node, an unbound name, a condition that is not a boolean, a comparison of values
  the domain cannot compare, and the end of the fuel.  Everything is total and evaluates in the
  kernel (`decide +kernel`).
-/
import Bexpr.GoLite.Syntax

namespace Bexpr.GoLite

/-- abstract syntax-tree nodes of the EVALUATED expression (`grammar.Expression` values) -/
inductive Node where
  /-- `*grammar.UnaryExpression{Operator: op, Operand: c}` -/
  | unary (op : String) (c : Node)
  /-- `*grammar.BinaryExpression{Operator: op, Left: l, Right: r}` -/
  | binary (op : String) (l r : Node)
  /-- `*grammar.MatchExpression{Operator: op, …}` -/
  | match_ (op : String)
  /-- `*grammar.CollectionExpression` -/
  | coll
  /-- an operand about which nothing is known (only ever handed to a leaf) -/
  | leaf (name : String)
  /-- a value of none of the four node types -/
  | invalid
  deriving DecidableEq, Repr, Inhabited

/-- abstract values -/
inductive Val where
  | bool (b : Bool)
  | nil
  /-- an opaque non-nil error; `tag` says where it was made -/
  | err (tag : String)
  | node (n : Node)
  /-- an operator constant of package grammar (`UnaryOpNot`, `MatchEqual`, …) -/
  | opc (name : String)
  /-- an opaque value (`datum`, `opt`, a value returned by a leaf) -/
  | opaque (name : String)
  | str (s : String)
  /-- argument lists of symbolic applications (`unit` = empty) -/
  | unit
  | cons (a rest : Val)
  /-- symbolic: `pkg.name(args)`; `pkg = "."` is a field selection / method, `""` this package -/
  | app (pkg name : String) (args : Val)
  deriving DecidableEq, Repr, Inhabited

def Val.ofList : List Val → Val
  | [] => .unit
  | v :: vs => .cons v (Val.ofList vs)

/-- one logged call of a leaf -/
structure Call where
  pkg : String
  name : String
  args : List Val
  ellipsis : Bool
  deriving DecidableEq, Repr, Inhabited

/-- the oracle: callee package, name, arguments ↦ results (`none`: no answer, the run is stuck) -/
abbrev Oracle := String → String → List Val → Option (List Val)

structure Cfg where
  funcs : List FuncDecl
  /-- package-level functions kept abstract even when they are in the table -/
  leaves : List String
  oracle : Oracle

abbrev Env := List (String × Val)

structure St where
  env : Env
  log : List Call
  /-- result names of the function being interpreted (for a bare `return`) -/
  res : List String
  deriving Repr, Inhabited

abbrev M := StateT St (Except String)

/-- how a statement ends -/
inductive Flow where
  | next
  | returned (vs : List Val)
  deriving Repr, Inhabited

/-! ### pure helpers -/

def lookup (env : Env) (n : String) : Option Val :=
  (env.find? (·.1 == n)).map (·.2)

def update : Env → String → Val → Option Env
  | [], _, _ => none
  | (k, w) :: rest, n, v =>
    if k == n then some ((k, v) :: rest) else (update rest n v).map ((k, w) :: ·)

/-- leave a block: drop the bindings made since `old`, keep assignments to older ones -/
def restore (old new : Env) : Env := new.drop (new.length - old.length)

/-- `==` on abstract values; `none` = the domain cannot tell -/
def eqVal : Val → Val → Option Bool
  | .bool a, .bool b => some (a == b)
  | .nil, .nil => some true
  | .nil, .err _ => some false
  | .err _, .nil => some false
  | .opc a, .opc b => some (a == b)
  | .str a, .str b => some (a == b)
  | _, _ => none

/-- field selection; unknown fields are symbolic -/
def field (v : Val) (f : String) : Option Val :=
  match v with
  | .node (.unary op c) =>
    if f == "Operator" then some (.opc op) else if f == "Operand" then some (.node c)
    else some (.app "." f (.cons v .unit))
  | .node (.binary op l r) =>
    if f == "Operator" then some (.opc op) else if f == "Left" then some (.node l)
    else if f == "Right" then some (.node r) else some (.app "." f (.cons v .unit))
  | .node (.match_ op) =>
    if f == "Operator" then some (.opc op) else some (.app "." f (.cons v .unit))
  | .node .coll => some (.app "." f (.cons v .unit))
  | .app .. => some (.app "." f (.cons v .unit))
  | .opaque _ => some (.app "." f (.cons v .unit))
  | _ => none

/-- the dynamic type a type switch / assertion sees -/
def dynType : Val → Option String
  | .node (.unary ..) => some "*grammar.UnaryExpression"
  | .node (.binary ..) => some "*grammar.BinaryExpression"
  | .node (.match_ _) => some "*grammar.MatchExpression"
  | .node .coll => some "*grammar.CollectionExpression"
  | .node .invalid => some "<invalid>"
  | .nil => some "nil"
  | _ => none

def zeroOf (ty : String) : Val :=
  if ty == "bool" then .bool false
  else if ty == "error" then .nil
  else .app "" "zero" (.cons (.str ty) .unit)

def bindNames : List String → List Val → Env → Option Env
  | [], [], env => some env
  | n :: ns, v :: vs, env => bindNames ns vs (if n == "_" then env else (n, v) :: env)
  | _, _, _ => none

def assignNames : List String → List Val → Env → Option Env
  | [], [], env => some env
  | n :: ns, v :: vs, env =>
    if n == "_" then assignNames ns vs env
    else match update env n v with
      | some env' => assignNames ns vs env'
      | none => none
  | _, _, _ => none

/-- bind the parameters of an inlined function -/
def bindParams (fd : FuncDecl) (args : List Val) (ellipsis : Bool) : Option Env :=
  let n := fd.params.length
  if fd.variadic then
    if ellipsis then
      if args.length == n then bindNames fd.params args [] else none
    else if args.length + 1 ≥ n then
      bindNames fd.params (args.take (n - 1) ++ [.app "" "variadic" (Val.ofList (args.drop (n - 1)))]) []
    else none
  else if ellipsis then none
  else if args.length == n then bindNames fd.params args [] else none

def bindResults (rs : List (String × String)) (env : Env) : Env :=
  rs.foldl (fun e r => if r.1 == "" || r.1 == "_" then e else (r.1, zeroOf r.2) :: e) env

def stuck {α : Type} (msg : String) : M α := throw msg

def one (what : String) : List Val → M Val
  | [v] => pure v
  | _ => stuck ("not a single value: " ++ what)

def logCall (c : Call) : M Unit := modify fun st => { st with log := st.log ++ [c] }

def setEnv (env : Env) : M Unit := modify fun st => { st with env := env }

def getEnv : M Env := do return (← get).env

/-- leave a scope opened when the environment was `outer` -/
def leave (outer : Env) : M Unit := modify fun st => { st with env := restore outer st.env }

/-- ask the oracle and log the call -/
def extern (cfg : Cfg) (pkg name : String) (args : List Val) (ellipsis : Bool) : M (List Val) :=
  match cfg.oracle pkg name args with
  | some vs => do logCall ⟨pkg, name, args, ellipsis⟩; pure vs
  | none => stuck ("no answer for the call of " ++ pkg ++ "." ++ name)

/-! ### the interpreter (structural recursion on the fuel) -/

mutual

/-- an expression denotes a list of values (a call may return several) -/
def evalE (cfg : Cfg) (fuel : Nat) (e : Expr) : M (List Val) :=
  match fuel with
  | 0 => stuck "fuel"
  | fuel + 1 =>
    match e with
    | .ident n => do
      match lookup (← getEnv) n with
      | some v => pure [v]
      | none => stuck ("unbound name " ++ n)
    | .sel e f => do
      let v ← one "operand of a selection" (← evalE cfg fuel e)
      match field v f with
      | some w => pure [w]
      | none => stuck ("no field " ++ f)
    | .pkg p n =>
      if p == "grammar" then pure [.opc n] else pure [.app p n .unit]
    | .nil => pure [.nil]
    | .bool b => pure [.bool b]
    | .lit t => pure [.str t]
    | .not e => do
      match (← evalE cfg fuel e) with
      | [.bool b] => pure [.bool (!b)]
      | _ => stuck "operand of ! is not a boolean"
    | .bin op l r => do
      let a ← one "left operand" (← evalE cfg fuel l)
      if op == "&&" || op == "||" then
        match a with
        | .bool x =>
          if x == (op == "||") then pure [.bool x]      -- short circuit
          else do
            match (← evalE cfg fuel r) with
            | [.bool y] => pure [.bool y]
            | _ => stuck ("right operand of " ++ op ++ " is not a boolean")
        | _ => stuck ("left operand of " ++ op ++ " is not a boolean")
      else if op == "==" || op == "!=" then do
        let b ← one "right operand" (← evalE cfg fuel r)
        match eqVal a b with
        | some t => pure [.bool (t == (op == "=="))]
        | none => stuck "comparison of values the abstract domain cannot compare"
      else stuck ("operator " ++ op)
    | .call f args ell => do
      let vs ←
        match args with
        | [a] => evalE cfg fuel a                       -- `f(g())` passes all results of g
        | _ => evalArgs cfg fuel args
      match f with
      | .ident name =>
        match lookup (← getEnv) name with
        | some _ => stuck ("call of the local value " ++ name)
        | none => callFn cfg fuel name vs ell
      | .pkg p name => extern cfg p name vs ell
      | .sel recv m => do
        let r ← one "receiver" (← evalE cfg fuel recv)
        extern cfg "." m (r :: vs) ell
      | _ => stuck "callee"
    | .typeAssert e ty => do
      let (v, ok) ← assertType cfg fuel e ty
      if ok then pure [v] else stuck ("failed type assertion to " ++ ty)
    | .mkErr fn site => do
      logCall ⟨"error", fn, [.str site], false⟩
      pure [.err site]
    | .unsupported t => stuck ("unsupported expression: " ++ t)

/-- `e.(T)` in its comma-ok reading: the value and whether the assertion holds -/
def assertType (cfg : Cfg) (fuel : Nat) (e : Expr) (ty : String) : M (Val × Bool) :=
  match fuel with
  | 0 => stuck "fuel"
  | fuel + 1 => do
    let v ← one "operand of a type assertion" (← evalE cfg fuel e)
    match v with
    | .node _ | .nil =>
      match dynType v with
      | some t => if t == ty then pure (v, true) else pure (.nil, false)
      | none => stuck "type assertion on a node of unknown type"
    | _ =>
      match (← extern cfg ".(type)" ty [v] false) with
      | [w, .bool ok] => pure (w, ok)
      | _ => stuck "answer to a type assertion"

/-- several argument expressions, one value each, left to right -/
def evalArgs (cfg : Cfg) (fuel : Nat) (es : List Expr) : M (List Val) :=
  match fuel with
  | 0 => stuck "fuel"
  | fuel + 1 =>
    match es with
    | [] => pure []
    | e :: rest => do
      let v ← one "argument" (← evalE cfg fuel e)
      let ws ← evalArgs cfg fuel rest
      pure (v :: ws)

/-- a call of a package-level function: a leaf is answered by the oracle, a table function inlined -/
def callFn (cfg : Cfg) (fuel : Nat) (name : String) (args : List Val) (ell : Bool) : M (List Val) :=
  match fuel with
  | 0 => stuck "fuel"
  | fuel + 1 =>
    if cfg.leaves.contains name then extern cfg "" name args ell
    else match cfg.funcs.find? (·.name == name) with
      | none => extern cfg "" name args ell
      | some fd => inlineFn cfg fuel fd args ell

def inlineFn (cfg : Cfg) (fuel : Nat) (fd : FuncDecl) (args : List Val) (ell : Bool) : M (List Val) :=
  match fuel with
  | 0 => stuck "fuel"
  | fuel + 1 =>
    match bindParams fd args ell with
    | none => stuck ("arguments do not fit the parameters of " ++ fd.name)
    | some env => do
      let caller ← get
      set ({ env := bindResults fd.results env, log := caller.log, res := fd.results.map (·.1) } : St)
      let fl ← execBlock cfg fuel fd.body
      let log := (← get).log
      set { caller with log := log }
      match fl with
      | .returned vs => pure vs
      | .next => if fd.results.isEmpty then pure [] else stuck ("missing return in " ++ fd.name)

/-- statements in sequence (the caller opens and closes the scope) -/
def execBlock (cfg : Cfg) (fuel : Nat) (ss : List Stmt) : M Flow :=
  match fuel with
  | 0 => stuck "fuel"
  | fuel + 1 =>
    match ss with
    | [] => pure .next
    | s :: rest => do
      match (← exec cfg fuel s) with
      | .next => execBlock cfg fuel rest
      | r => pure r

/-- a block in its own scope -/
def execScoped (cfg : Cfg) (fuel : Nat) (ss : List Stmt) : M Flow :=
  match fuel with
  | 0 => stuck "fuel"
  | fuel + 1 => do
    let outer ← getEnv
    let fl ← execBlock cfg fuel ss
    leave outer
    pure fl

/-- the right-hand side of `:=` / `=` / `return` -/
def evalRhs (cfg : Cfg) (fuel : Nat) (nlhs : Nat) (rhs : List Expr) : M (List Val) :=
  match fuel with
  | 0 => stuck "fuel"
  | fuel + 1 =>
    match rhs with
    | [.typeAssert e ty] =>
      if nlhs == 2 then do
        let (v, ok) ← assertType cfg fuel e ty
        pure [v, .bool ok]
      else evalE cfg fuel (.typeAssert e ty)
    | [e] => evalE cfg fuel e
    | es => evalArgs cfg fuel es

def exec (cfg : Cfg) (fuel : Nat) (s : Stmt) : M Flow :=
  match fuel with
  | 0 => stuck "fuel"
  | fuel + 1 =>
    match s with
    | .define lhs rhs => do
      let vs ← evalRhs cfg fuel lhs.length rhs
      match bindNames lhs vs (← getEnv) with
      | some env => setEnv env; pure .next
      | none => stuck "assignment count mismatch"
    | .assign lhs rhs => do
      let vs ← evalRhs cfg fuel lhs.length rhs
      match assignNames lhs vs (← getEnv) with
      | some env => setEnv env; pure .next
      | none => stuck "assignment to an unknown name or count mismatch"
    | .varDecl n ty init => do
      let v ←
        match init with
        | none => pure (zeroOf ty)
        | some e => do one "initialiser" (← evalE cfg fuel e)
      setEnv ((n, v) :: (← getEnv))
      pure .next
    | .ifS init cond thn els => do
      let outer ← getEnv
      let fl ←
        match init with
        | none => pure Flow.next
        | some i => exec cfg fuel i
      match fl with
      | .returned vs => pure (.returned vs)
      | .next =>
        match (← evalE cfg fuel cond) with
        | [.bool c] =>
          let fl ← execScoped cfg fuel (if c then thn else els)
          leave outer
          pure fl
        | _ => stuck "condition is not a boolean"
    | .switchS init tag cases dflt => do
      let outer ← getEnv
      let fl ←
        match init with
        | none => pure Flow.next
        | some i => exec cfg fuel i
      match fl with
      | .returned vs => pure (.returned vs)
      | .next =>
        let tv ←
          match tag with
          | none => pure (Val.bool true)
          | some t => do one "switch tag" (← evalE cfg fuel t)
        let fl ← switchCases cfg fuel tv cases dflt
        leave outer
        pure fl
    | .typeSwitch bind e cases dflt => do
      let v ← one "operand of a type switch" (← evalE cfg fuel e)
      match dynType v with
      | none => stuck "type switch on a value of unknown type"
      | some t =>
        let body :=
          match cases.find? (·.1.contains t) with
          | some c => c.2
          | none => dflt.getD []
        let outer ← getEnv
        match bind with
        | some b => setEnv ((b, v) :: outer)
        | none => pure ()
        let fl ← execScoped cfg fuel body
        leave outer
        pure fl
    | .ret es =>
      match es with
      | [] => do
        let st ← get
        match st.res.mapM (lookup st.env) with
        | some vs => pure (.returned vs)
        | none => stuck "bare return without named results"
      | es => do
        let vs ← evalRhs cfg fuel 0 es
        pure (.returned vs)
    | .block ss => execScoped cfg fuel ss
    | .exprS e => do
      let _ ← evalE cfg fuel e
      pure .next
    | .unsupported t => stuck ("unsupported statement: " ++ t)

/-- the clauses of an expression switch, top to bottom; the first equal case expression wins -/
def switchCases (cfg : Cfg) (fuel : Nat) (tv : Val) (cases : List (List Expr × List Stmt))
    (dflt : Option (List Stmt)) : M Flow :=
  match fuel with
  | 0 => stuck "fuel"
  | fuel + 1 =>
    match cases with
    | [] => execScoped cfg fuel (dflt.getD [])
    | (es, body) :: rest => do
      if (← matchAny cfg fuel tv es) then execScoped cfg fuel body
      else switchCases cfg fuel tv rest dflt

def matchAny (cfg : Cfg) (fuel : Nat) (tv : Val) (es : List Expr) : M Bool :=
  match fuel with
  | 0 => stuck "fuel"
  | fuel + 1 =>
    match es with
    | [] => pure false
    | e :: rest => do
      let v ← one "case expression" (← evalE cfg fuel e)
      match eqVal tv v with
      | some true => pure true
      | some false => matchAny cfg fuel tv rest
      | none => stuck "case expression the abstract domain cannot compare with the tag"

end

/-! ### running a function of the table -/

/-- the result of a run -/
inductive Run where
  | done (result : List Val) (log : List Call)
  | stuck (msg : String)
  deriving DecidableEq, Repr, Inhabited

/-- interpret the BODY of `fname` (even when it is listed as a leaf: the leaf status applies to the
    calls met on the way, e.g. the recursive calls of `evaluate`) -/
def run (cfg : Cfg) (fuel : Nat) (fname : String) (args : List Val) (ellipsis : Bool) : Run :=
  match cfg.funcs.find? (·.name == fname) with
  | none => .stuck ("no function " ++ fname ++ " in the generated table")
  | some fd =>
    match (inlineFn cfg fuel fd args ellipsis).run { env := [], log := [], res := [] } with
    | .ok (vs, st) => .done vs st.log
    | .error m => .stuck m

end Bexpr.GoLite
