/-
  Line protocol of the correspondence check: one request per line, one answer per line.
  The driver runs the *model* on exactly the inputs the harness gave to the real code.
-/
import Bexpr.Wire
import Bexpr.Eval.Create
import Bexpr.Eval.Dump
import Bexpr.Eval.RefCheck
import Bexpr.Go.WF
import Bexpr.StrconvDriver
import BexprGen.GoGrammar
import BexprGen.GoActions
import BexprGen.PegGrammar
import BexprGen.PegActions
import Bexpr.Peg.PinnedGrammar
import Bexpr.Peg.PinnedActions
import Bexpr.Peg.ErrorText
import BexprGen.FailNames

namespace Bexpr.Driver
open Bexpr Bexpr.Go Bexpr.Peg Bexpr.Eval Bexpr.Wire

def goSem := semTable BexprGen.GoActions.actions
def goEnv : Env := envOf goSem
def goGrammar : Grammar := BexprGen.GoGrammar.grammar
def pegSem := semTable BexprGen.PegActions.actions
def pegEnv : Env := envOf pegSem
def pegGrammar : Grammar := BexprGen.PegGrammar.grammar
def pinSem := semTable Bexpr.Peg.Pinned.Actions.actions
def pinEnv : Env := envOf pinSem
def pinGrammar : Grammar := Bexpr.Peg.Pinned.Grammar.grammar

def errToString (e : PErr) : String :=
  match e.kind with
  | .action msg =>
    -- messages of code predicates are Go string-literal tokens: strip the quotes
    let m := if msg.startsWith "\"" && msg.endsWith "\"" && msg.length ≥ 2
      then ((msg.drop 1).dropEnd 1).toString else msg
    s!"{e.off}:{hx (GoString.ofString e.rule)}:act={hx (GoString.ofString m)}"
  | .invalidEncoding => s!"{e.off}:{hx (GoString.ofString e.rule)}:enc"
  | .undefinedRule n => s!"{e.off}:{hx (GoString.ofString e.rule)}:undef={n}"
  | .maxExpr => "max"
  | .panic _ => "panic"
  | .noMatch => "nomatch"
  | .noRule => "norule"

def insertSorted (s : String) : List String → List String
  | [] => [s]
  | t :: ts => if s < t then s :: t :: ts else if s == t then t :: ts else t :: insertSorted s ts

def sortDedup (xs : List String) : List String := xs.foldl (fun acc x => insertSorted x acc) []

def pvalToString : PVal → String
  | .nil => "nil"
  | .expr e => exprToString e
  | _ => "other"

def parseLine (env : Env) (g : Grammar) (max : Nat) (input : GoString) : String :=
  let out := Peg.run env g max input
  if out.accepted then s!"ok {out.cnt} {pvalToString out.val}"
  else s!"err {out.cnt} {String.intercalate "," (sortDedup (out.errs.map errToString))}"

/-- matcher names and message wording as regenerated from `/repo/grammar/grammar.go` -/
def goNames : Names :=
  namesOf BexprGen.FailNames.goWants BexprGen.FailNames.anyWant BexprGen.FailNames.bang

/-- `parsemsg <max> <hex>`: the exact `err.Error()` of `grammar.Parse("", input, MaxExpressions(max))`
    (one tracked run per request) -/
def parseMsgLine (nm : Names) (tx : MsgTexts) (env : Env) (g : Grammar) (max : Nat)
    (input : GoString) : String :=
  match Peg.errorText nm tx env g max input with
  | none => "ok"
  | some t => "err " ++ hx t

/-- regexp table: pattern ↦ (compiles?, subject ↦ matched) -/
abbrev ReTable := List (GoString × Bool × List (GoString × Bool))

def reTableOfSx : Sx → Option ReTable
  | .list (.atom "re" :: pats) =>
    pats.mapM fun p => match p with
      | .list (.atom pat :: .atom ok :: subs) => do
        let pat ← hexAtom? pat
        let ok ← bool01? ok
        let subs ← subs.mapM fun s => match s with
          | .list [.atom subj, .atom m] => do
            let subj ← hexAtom? subj
            let m ← bool01? m
            pure (subj, m)
          | _ => none
        pure (pat, ok, subs)
      | _ => none
  | _ => none

/-- oracle from a table; `dflt` answers subjects missing from the table -/
def oracleOf (t : ReTable) (dflt : Bool) : RegexOracle := fun pat =>
  match t.find? (·.1 == pat) with
  | none => if dflt then some (fun _ => dflt) else none
  | some (_, false, _) => none
  | some (_, true, subs) => some fun subj =>
    match subs.find? (·.1 == subj) with
    | some (_, m) => m
    | none => dflt

def hookOfString : String → Option Hook
  | "off" => some .off
  | "identity" => some .identity
  | "unwrap" => some .unwrap
  | "const42" => some .const42
  | "nilret" => some .nilret
  | _ => none

def optOfSx : Sx → Option Opt
  | .atom "nilopt" => some .nilOpt
  | .list [.atom "max", .atom n] => n.toNat?.map .maxExpressions
  | .list [.atom "tag", .atom h] => (hexAtom? h).map .tagName
  | .list [.atom "hook", .atom h] => (hookOfString h).map .hookFn
  | .list [.atom "unk", a] => (anyOfSx a).map .unknownValue
  | _ => none

def optsOfSx : Sx → Option (List Opt)
  | .list (.atom "opts" :: os) => os.mapM optOfSx
  | _ => none

def outToString : Out → String
  | .val true => "T"
  | .val false => "F"
  | .err false => "E0"
  | .err true => "E1"
  | .panic => "P"
  | .unmodelled => "U"

def optsWf (opts : List Opt) : Bool :=
  opts.all fun o => match o with
    | .unknownValue v => Any.wf v
    | _ => true

def optsOutside (opts : List Opt) : Bool :=
  opts.any fun o => match o with
    | .unknownValue v => Any.outside v
    | _ => false

def evalLine (opts : List Opt) (expr : GoString) (datum : Any) (t : ReTable) : String :=
  -- a VALUE of a non-empty interface type (fmt.Stringer, error …: an element, field, pointee or map
  -- value) is outside the modelled universe (`Go/WF.lean`, `GoVal.outside`): the harness still runs the
  -- real code on it (panic oracle), the model says `U`.  As a map's KEY type it is modelled.
  if Any.outside datum || optsOutside opts then "U" else
  -- the hypotheses of the evaluator theorems are checked on every value the harness sends
  if !(Any.wf datum && optsWf opts) then "WF?" else
  match createEvaluator goEnv goGrammar expr opts with
  | .err => "CE"
  | .panic => "CP"
  | .ok ev =>
    let a := ev.evaluate (oracleOf t false) datum
    let b := ev.evaluate (oracleOf t true) datum
    if a != b then "REMISS" else outToString a

/-- `evalref`: the answer of the REFERENCE interpreter (`Spec.denote`) on the tree the PINNED grammar
    assigns to the text, with `R1` when the Boolean hypotheses of `C01.refOk_sound` hold (then the
    answer is what `Evaluate` must return) and `R0` otherwise. -/
def evalRefLine (opts : List Opt) (expr : GoString) (datum : Any) (t : ReTable) : String :=
  if Any.outside datum || optsOutside opts then "U" else
  if !(Any.wf datum && optsWf opts) then "WF?" else
  match createEvaluator pinEnv pinGrammar expr opts with
  | .err => "CE"
  | .panic => "CP"
  | .ok ev =>
    let a := RefCheck.refAnswer (oracleOf t false) ev datum
    let b := RefCheck.refAnswer (oracleOf t true) ev datum
    if a != b then "REMISS" else
    (if RefCheck.refOk ev datum then "R1 " else "R0 ") ++ outToString a

/-- canonical order for map entries: by the printed key -/
def sortEntries (es : List (GoVal × GoVal)) : List (GoVal × GoVal) :=
  let keyed := es.map fun e => (valToString e.1, e)
  let rec ins (x : String × (GoVal × GoVal)) : List (String × (GoVal × GoVal)) →
      List (String × (GoVal × GoVal))
    | [] => [x]
    | y :: ys => if x.1 < y.1 then x :: y :: ys else y :: ins x ys
  (keyed.foldl (fun acc x => ins x acc) []).map (·.2)

def canonTop : Any → Any
  | some (.map n kt vt isNil es) => some (.map n kt vt isNil (sortEntries es))
  | v => v

def filterLine (expr : GoString) (datum : Any) (t : ReTable) : String :=
  if Any.outside datum then "U" else
  if !(Any.wf datum) then "WF?" else
  match createFilter goEnv goGrammar expr with
  | .err => "CE"
  | .panic => "CP"
  | .nilFilter =>
    match execute (oracleOf t false) none datum with
    | .ok v => "nilfilter " ++ anyToString (canonTop v)
    | _ => "bad"
  | .ok ev =>
    let a := execute (oracleOf t false) (some ev) datum
    let b := execute (oracleOf t true) (some ev) datum
    let show_ : ExecOut → String
      | .ok v => "ok " ++ anyToString (canonTop v)
      | .err => "E"
      | .panic => "P"
      | .unmodelled => "U"
    if show_ a != show_ b then "REMISS" else show_ a

def dumpLine (expr indent : GoString) (level : Nat) : String :=
  match createEvaluator goEnv goGrammar expr [] with
  | .err => "CE"
  | .panic => "CP"
  | .ok ev =>
    match Dump.dump indent ev.ast level with
    | some out => "ok " ++ hx out
    | none => "P"

def semLine : String :=
  String.intercalate ";" (goSem.map fun (n, s) => s!"{n}={repr s}")

def handle (line : String) : String :=
  let words := (line.splitOn " ").filter (· != "")
  match words with
  | [] => "bad"
  | "parse" :: max :: [h] =>
    match max.toNat?, hexAtom? h with
    | some m, some b => parseLine goEnv goGrammar m b
    | _, _ => "bad"
  | "parsepin" :: max :: [h] =>
    match max.toNat?, hexAtom? h with
    | some m, some b => parseLine pinEnv pinGrammar m b
    | _, _ => "bad"
  | "parsepeg" :: max :: [h] =>
    match max.toNat?, hexAtom? h with
    | some m, some b => parseLine pegEnv pegGrammar m b
    | _, _ => "bad"
  | "parsemsg" :: max :: [h] =>
    match max.toNat?, hexAtom? h with
    | some m, some b => parseMsgLine goNames BexprGen.FailNames.texts goEnv goGrammar m b
    | _, _ => "bad"
  | "eval" :: rest =>
    match parseAll rest with
    | some [opts, .atom e, d, t] =>
      match optsOfSx opts, hexAtom? e, anyOfSx d, reTableOfSx t with
      | some o, some e, some d, some t => evalLine o e d t
      | _, _, _, _ => "bad"
    | _ => "bad"
  | "evalref" :: rest =>
    match parseAll rest with
    | some [opts, .atom e, d, t] =>
      match optsOfSx opts, hexAtom? e, anyOfSx d, reTableOfSx t with
      | some o, some e, some d, some t => evalRefLine o e d t
      | _, _, _, _ => "bad"
    | _ => "bad"
  | "filter" :: rest =>
    match parseAll rest with
    | some [.atom e, d, t] =>
      match hexAtom? e, anyOfSx d, reTableOfSx t with
      | some e, some d, some t => filterLine e d t
      | _, _, _ => "bad"
    | _ => "bad"
  | "dump" :: e :: i :: [l] =>
    match hexAtom? e, hexAtom? i, l.toNat? with
    | some e, some i, some l => dumpLine e i l
    | _, _, _ => "bad"
  | ["sem"] => semLine
  | ws =>
    match StrconvDriver.handle ws with
    | some r => r
    | none => "bad"

end Bexpr.Driver
