/-
  Hand model of `options.go` (`getOpts`, the `With*` setters), `bexpr.go:CreateEvaluator`,
  `filter.go` (`CreateFilter`, `Execute`).
-/
import Bexpr.Eval.Impl
import Bexpr.Peg.ActionTable

namespace Bexpr.Eval
open Bexpr Bexpr.Go Bexpr.Peg

/-- The `options` record (the local-variable list is only used internally by `evaluate`). -/
structure Options where
  maxExpressions : Nat := 0
  tagName : GoString := GoString.ofString "bexpr"
  hook : Hook := .off
  unknown : Option Any := none
  deriving Repr, Inhabited

/-- A functional option as a caller can build it. -/
inductive Opt where
  | maxExpressions (n : Nat)
  | tagName (s : GoString)
  | hookFn (h : Hook)
  | unknownValue (v : Any)
  | nilOpt                       -- a nil `Option` value: skipped by `getOpts`
  deriving Repr, Inhabited

def Opt.apply (o : Options) : Opt → Options
  | .maxExpressions n => { o with maxExpressions := n }
  | .tagName s => { o with tagName := s }
  | .hookFn h => { o with hook := h }
  | .unknownValue v => { o with unknown := some v }
  | .nilOpt => o

/-- `getDefaultOptions` -/
def defaultOptions : Options := {}

/-- `getOpts`: fold the options over the defaults, left to right. -/
def getOpts (opts : List Opt) : Options := opts.foldl Opt.apply defaultOptions

inductive CreateOut where
  | ok (ev : Evaluator)
  | err                -- (nil, err)
  | panic              -- the unrecovered `ast.(grammar.Expression)` assertion
  deriving Repr, Inhabited

/-- `CreateEvaluator`: the budget is forwarded only when non-zero (and 0 means unlimited in
    `newParser`, so forwarding it or not is the same parse: `run` takes the raw option value). -/
def createEvaluator (env : Env) (g : Grammar) (expression : GoString) (opts : List Opt) :
    CreateOut :=
  let po := getOpts opts
  let out := Peg.run env g po.maxExpressions expression
  if !out.accepted then .err else
  match out.val with
  | .expr e =>
    .ok { ast := e, tagName := po.tagName, hook := po.hook, unknown := po.unknown,
          expression := expression }
  | _ => .panic

inductive FilterCreate where
  | nilFilter
  | ok (ev : Evaluator)
  | err
  | panic
  deriving Repr, Inhabited

/-- `CreateFilter` -/
def createFilter (env : Env) (g : Grammar) (expression : GoString) : FilterCreate :=
  if expression.isEmpty then .nilFilter else
  match createEvaluator env g expression [] with
  | .ok ev => .ok ev
  | .err => .err
  | .panic => .panic

inductive ExecOut where
  | ok (v : Any)
  | err
  | panic
  | unmodelled
  deriving Repr, Inhabited

/-- element loop of `Execute` for slices / arrays: the first error aborts -/
def execSliceLoop (f : Any → Out) : List GoVal → List GoVal → Except Out (List GoVal)
  | [], acc => .ok acc.reverse
  | x :: xs, acc =>
    match f x.toAny with
    | .val true => execSliceLoop f xs (x :: acc)
    | .val false => execSliceLoop f xs acc
    | other => .error other

def execMapLoop (f : Any → Out) :
    List (GoVal × GoVal) → List (GoVal × GoVal) → Except Out (List (GoVal × GoVal))
  | [], acc => .ok acc.reverse
  | (k, v) :: es, acc =>
    match f v.toAny with
    | .val true => execMapLoop f es ((k, v) :: acc)
    | .val false => execMapLoop f es acc
    | other => .error other

def outToExec : Out → ExecOut
  | .err _ => .err
  | .panic => .panic
  | .unmodelled => .unmodelled
  | .val _ => .err      -- not produced by the loops

/-- `(*Filter).Execute`; `filter = none` is the nil filter. -/
def execute (re : RegexOracle) (filter : Option Evaluator) (data : Any) : ExecOut :=
  match filter with
  | none => .ok data
  | some ev =>
    match valueOf data with
    | none => .err                            -- `if !rvalue.IsValid()`
    | some (.array elem xs) =>
      match execSliceLoop (ev.evaluate re) xs [] with
      | .ok kept => .ok (some (.slice "" elem false kept))
      | .error o => outToExec o
    | some (.slice name elem _ xs) =>
      match execSliceLoop (ev.evaluate re) xs [] with
      | .ok kept => .ok (some (.slice name elem false kept))
      | .error o => outToExec o
    | some (.map name kt vt _ es) =>
      match execMapLoop (ev.evaluate re) es [] with
      | .ok kept => .ok (some (.map name kt vt false kept))
      | .error o => outToExec o
    | some _ => .err

end Bexpr.Eval
