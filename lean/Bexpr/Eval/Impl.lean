/-
  Hand model of `evaluate.go` (and `bexpr.go:Evaluate`), statement by statement.

  Every `reflect` call the Go code makes has its *partial* meaning here: where the real call
  panics the model yields `Out.panic`, so a missing guard in the code is a reachable panic in the
  model.  The regexp engine is a parameter (`RegexOracle`): compile-or-fail, then match.
-/
import Bexpr.Ast
import Bexpr.Go.Pointer

namespace Bexpr.Eval
open Bexpr Bexpr.Go

/-- Result of a `(bool, error)` returning function, or a panic.  `err b` keeps the boolean that
    accompanies the error. `unmodelled` marks behaviour outside the modelled universe. -/
inductive Out where
  | val (b : Bool)
  | err (b : Bool)
  | panic
  | unmodelled
  deriving DecidableEq, Repr, Inhabited

/-- `regexp.Compile` + `(*Regexp).Match`, abstracted: `none` = does not compile. -/
abbrev RegexOracle := GoString → Option (GoString → Bool)

/-- `localVariable` of options.go: `path = []` means a key/index binding carrying `value`. -/
structure LocalVar where
  name : GoString
  path : List GoString
  value : Any
  deriving Repr, Inhabited

/-- The evaluation-time part of `options`. -/
structure Opts where
  tagName : GoString
  hook : Hook
  unknown : Option Any            -- `withUnknown *interface{}`
  locals : List LocalVar          -- in append order (oldest first)
  deriving Repr, Inhabited

def Opts.cfg (o : Opts) : Config := { tagName := o.tagName, hook := o.hook }

/-- coerced literal (`getMatchExprValue`) -/
inductive Lit where
  | bool (b : Bool)
  | int (i : Int)
  | uint (u : Nat)
  | f32 (bits : Nat)
  | f64 (bits : Nat)
  | str (s : GoString)
  deriving Repr, Inhabited, DecidableEq

inductive CoerceErr where
  | syntax | range
  deriving Repr, DecidableEq

/-- `getMatchExprValue(expression, kind)` for a non-nil `expression.Value`. -/
def coerceLit (raw : GoString) (k : Kind) : Except CoerceErr Lit :=
  let conv {α} (r : Except Strconv.PErr α) (f : α → Lit) : Except CoerceErr Lit :=
    match r with
    | .ok a => .ok (f a)
    | .error .syntax => .error .syntax
    | .error .range => .error .range
  if k == .bool then conv (Strconv.parseBool raw) .bool
  else if k.isInt then conv (Strconv.parseInt raw 0 64) .int
  else if k.isUint && k != .uintptr then conv (Strconv.parseUint raw 0 64) .uint
  else if k == .float32 then conv (Strconv.parseFloat raw 32) .f32
  else if k == .float64 then conv (Strconv.parseFloat raw 64) .f64
  else .ok (.str raw)

/-- `primitiveEqualityFn(kind) != nil` -/
def hasEqFn (k : Kind) : Bool :=
  k == .bool || k.isInt || (k.isUint && k != .uintptr) || k == .float32 || k == .float64 ||
    k == .string

/-- `Value.String()`: the string for string kinds, `"<invalid Value>"` for the zero Value;
    other kinds print `<T Value>` which is outside the model (`none`). -/
def rvString : RV → Option GoString
  | none => some (GoString.ofString "<invalid Value>")
  | some (.str _ s) => some s
  | _ => none

/-- `eqFn(matchValue, value)` where `eqFn = primitiveEqualityFn(k)` and `matchValue` was coerced
    for kind `k`: the type assertion on `first` succeeds by construction; the accessor on
    `second` panics when the Value's kind does not fit. -/
def applyEq (k : Kind) (lit : Lit) (second : RV) : Option (Option Bool) :=
  -- outer none = panic; inner none = unmodelled
  if k == .bool then
    match lit, second with
    | .bool a, some (.bool _ b) => some (some (a == b))
    | _, _ => none
  else if k.isInt then
    match lit, second with
    | .int a, some (.int _ _ b) => some (some (a == b))
    | _, _ => none
  else if k.isUint then
    match lit, second with
    | .uint a, some (.uint _ _ b) => some (some (a == b))
    | _, _ => none
  else if k == .float32 then
    match lit, second with
    | .f32 a, some (.float .float32 _ b) => some (some (Strconv.feq 32 a b))
    | .f32 a, some (.float .float64 _ b) => some (some (Strconv.feq 32 a (Strconv.f64to32 b)))
    | _, _ => none
  else if k == .float64 then
    match lit, second with
    | .f64 a, some (.float .float64 _ b) => some (some (Strconv.feq 64 a b))
    | .f64 a, some (.float .float32 _ b) => some (some (Strconv.feq 64 a (Strconv.f32to64 b)))
    | _, _ => none
  else if k == .string then
    match lit with
    | .str a =>
      match rvString second with
      | some s => some (some (a == s))
      | none => some none
    | _ => none
  else none

/-- `derefValue`: follow every pointer level; the zero Value for a nil pointer. -/
def derefValue : GoVal → RV
  | .ptr _ (some v) => derefValue v
  | .ptr _ none => none
  | v => some v

/-- `doMatchEqual` -/
def doMatchEqual (raw : Option GoString) (value : RV) : Out :=
  let k := value.kind
  if !hasEqFn k then .err false else
  match raw with
  | none => .panic            -- nil *MatchValue: `first.(T)` on a nil interface
  | some raw =>
    match coerceLit raw k with
    | .error _ => .err false
    | .ok lit =>
      match applyEq k lit value with
      | none => .panic
      | some none => .unmodelled
      | some (some b) => .val b

/-- the `[]interface{}` loop of `doMatchIn` -/
def inIfaceLoop (raw : GoString) : List GoVal → Out
  | [] => .val false
  | x :: xs =>
    -- item := derefValue(value.Index(i).Elem())
    let item : RV := match x with
      | .iface (some y) => derefValue y
      | _ => none
    match item with
    | none => inIfaceLoop raw xs          -- nil element or nil pointer: `continue`
    | some it =>
      let k := it.kind
      match coerceLit raw k with
      | .error .syntax => inIfaceLoop raw xs
      | .error .range => .err false
      | .ok lit =>
        if !hasEqFn k then .err false else
        match applyEq k lit (some it) with
        | none => .panic
        | some none => .unmodelled
        | some (some true) => .val true
        | some (some false) => inIfaceLoop raw xs

/-- the concrete-element loop of `doMatchIn` -/
def inConcreteLoop (k : Kind) (lit : Lit) : List GoVal → Out
  | [] => .val false
  | x :: xs =>
    match derefValue x with
    | none => inConcreteLoop k lit xs     -- nil pointer element: `continue`
    | some item =>
      match applyEq k lit (some item) with
      | none => .panic
      | some none => .unmodelled
      | some (some true) => .val true
      | some (some false) => inConcreteLoop k lit xs

/-- string assignable to the key type: `MapIndex(reflect.ValueOf(raw))` does not panic -/
def stringAssignable (kt : GoType) : Bool :=
  kt == .iface || kt == GoType.stringT

/-- `doMatchIn` -/
def doMatchIn (raw : Option GoString) (value : RV) : Out :=
  match raw with
  | none =>
    -- getMatchExprValue returns (nil, nil); every later use of the nil matchValue panics,
    -- except on kinds that reach the default branch
    match value.kind with
    | .map | .slice | .array | .string => .panic
    | _ => .err false
  | some raw =>
    match coerceLit raw value.kind with
    | .error _ => .err false
    | .ok _ =>
      match value with
      | some (.map _ kt _ _ es) =>
        if stringAssignable kt then .val (es.any fun e => fkeyEq e.1 (.str "" raw))
        else
          match kt with
          | .basic .string name => .val (es.any fun e => fkeyEq e.1 (.str name raw))  -- Convert
          | _ => .err false
      | some (.slice _ elem _ xs) => inElems raw elem xs
      | some (.array elem xs) => inElems raw elem xs
      | some (.str _ s) => .val (GoString.containsSub s raw)
      | _ => .err false
where
  inElems (raw : GoString) (elem : GoType) (xs : List GoVal) : Out :=
    let k := elem.deref.kind
    if elem == .iface then inIfaceLoop raw xs
    else if k == .interface then .unmodelled     -- pointer-to-interface elements: outside the universe
    else
      match coerceLit raw k with
      | .error _ => .err false
      | .ok lit =>
        if !hasEqFn k then .err false
        else inConcreteLoop k lit xs

/-- `value.Len()`; `none` = panic -/
def rvLen : RV → Option Nat
  | some (.slice _ _ _ xs) => some xs.length
  | some (.array _ xs) => some xs.length
  | some (.map _ _ _ _ es) => some es.length
  | some (.str _ s) => some s.length
  | some (.other .chan _ _) => some 0
  | _ => none

/-- `doMatchIsEmpty` -/
def doMatchIsEmpty (value : RV) : Out :=
  match value.kind with
  | .array | .chan | .map | .slice | .string =>
    match rvLen value with
    | some n => .val (n == 0)
    | none => .panic
  | _ => .err false

/-- bytes of a value whose type is convertible to `[]byte` (string kinds; slices whose element
    type is exactly `uint8`) -/
def asBytes : GoVal → Option GoString
  | .str _ s => some s
  | .slice _ (.basic .uint8 "") _ xs =>
    some (xs.map fun x => match x with
      | .uint _ _ n => n.toUInt8
      | _ => 0)
  | _ => none

/-- `doMatchMatches` -/
def doMatchMatches (re : RegexOracle) (raw : Option GoString) (value : RV) : Out :=
  match value with
  | none => .err false                   -- `if !value.IsValid()`
  | some v =>
    match asBytes v with
    | none => .err false                 -- not convertible to []byte
    | some bs =>
      match raw with
      | none => .panic                   -- expression.Value.Converted on a nil pointer
      | some raw =>
        match re raw with
        | none => .err false
        | some m => .val (m bs)

/-- `MatchOperator.NotPresentDisposition` -/
def notPresentDisposition : MatchOp → Bool
  | .equal => false
  | .notEqual => true
  | .in_ => false
  | .notIn => true
  | .isEmpty => true
  | .isNotEmpty => false
  | .matches => false
  | .notMatches => true

/-- `result, err := f(…); if err == nil { return !result, nil }; return false, err` -/
def negate : Out → Out
  | .val b => .val (!b)
  | .err _ => .err false
  | o => o

inductive GetValue where
  | present (v : Any)
  | absent                 -- `(nil, false, nil)`
  | error
  | unmodelled
  deriving Repr, Inhabited

/-- the local-variable rewriting loop of `getValue` (scans from the newest binding down) -/
def resolveLocals : List LocalVar → List GoString → Except Unit (Sum Any (List GoString))
  | [], path => .ok (.inr path)
  | lv :: older, path =>
    match path with
    | [] => .ok (.inr path)
    | name :: restPath =>
      if name == lv.name then
        if lv.path.isEmpty then
          if !restPath.isEmpty then .error () else .ok (.inl lv.value)
        else resolveLocals older (lv.path ++ restPath)
      else resolveLocals older path

/-- `evaluateNotPresent` -/
def evaluateNotPresent (cfg : Config) (parts : List GoString) (datum : Any) : Bool :=
  if parts.length < 2 then false else
  match get cfg parts.dropLast datum with
  | .ok (some v) => v.kind == .map
  | _ => false

/-- `getValue` -/
def getValue (o : Opts) (datum : Any) (path : List GoString) : GetValue :=
  match resolveLocals o.locals.reverse path with
  | .error () => .error
  | .ok (.inl v) => .present v
  | .ok (.inr path) =>
    match get o.cfg path datum with
    | .ok v => .present v
    | .error .unmodelled => .unmodelled
    -- `safeGet`: a panic raised inside the walk (mapstructure comparing arrays of an uncomparable
    -- type, `GetErr.panic`) is recovered and returned as the lookup error; it is not ErrNotFound
    | .error .panic => .error
    | .error .notFound =>
      match o.unknown with
      | some u => .present u
      | none => if evaluateNotPresent o.cfg path datum then .absent else .error
    | .error _ => .error

/-- the `json.Number` narrowing at the top of `evaluateMatchExpression` -/
def narrowJsonNumber (v : Any) : Except Unit Any :=
  match v with
  | some (.str "json.Number" s) =>
    match Strconv.parseInt s 10 64 with
    | .ok i => .ok (some (.int .int64 "" i))
    | .error _ =>
      match Strconv.parseFloat s 64 with
      | .ok f => .ok (some (.float .float64 "" f))
      | .error _ => .error ()
  | v => .ok v

/-- `evaluateMatchExpression` -/
def evaluateMatch (re : RegexOracle) (o : Opts) (datum : Any) (sel : Selector) (op : MatchOp)
    (raw : Option GoString) : Out :=
  match getValue o datum sel.path with
  | .error => .err false
  | .unmodelled => .unmodelled
  | .absent => .val (notPresentDisposition op)
  | .present v =>
    match narrowJsonNumber v with
    | .error () => .err false
    | .ok v =>
      let rvalue := indirect (valueOf v)
      match op with
      | .equal => doMatchEqual raw rvalue
      | .notEqual => negate (doMatchEqual raw rvalue)
      | .in_ => doMatchIn raw rvalue
      | .notIn => negate (doMatchIn raw rvalue)
      | .isEmpty => doMatchIsEmpty rvalue
      | .isNotEmpty => negate (doMatchIsEmpty rvalue)
      | .matches => doMatchMatches re raw rvalue
      | .notMatches => negate (doMatchMatches re raw rvalue)

/-- bindings pushed for element `i` of a list (`else` branch of the loop body) -/
def listBindings (sel : Selector) (b : Binding) (i : Nat) : List LocalVar :=
  let pathValue := sel.path ++ [GoString.natToDec i]
  (if !b.default.isEmpty then [{ name := b.default, path := pathValue, value := none }] else [])
  ++ (if !b.value.isEmpty then [{ name := b.value, path := pathValue, value := none }] else [])
  ++ (if !b.index.isEmpty then [{ name := b.index, path := [], value := some (.int .int "" i) }] else [])

/-- bindings pushed for a map entry with key `key` -/
def mapBindings (sel : Selector) (b : Binding) (key : GoString) : List LocalVar :=
  let kv : Any := some (.str "" key)
  (if !b.value.isEmpty then [{ name := b.value, path := sel.path ++ [key], value := none }] else [])
  ++ (if !b.default.isEmpty then [{ name := b.default, path := [], value := kv }] else [])
  ++ (if !b.index.isEmpty then [{ name := b.index, path := [], value := kv }] else [])

/-- the loop of `evaluateCollectionExpression` over the per-element binding lists -/
def collLoop (f : Opts → Out) (o : Opts) (op : CollOp) (b : Binding) :
    List (List LocalVar) → Out
  | [] => .val (op == .all)
  | bs :: rest =>
    if b.mode == .indexAndValue && b.index == b.value then .err false else
    match f { o with locals := o.locals ++ bs } with
    | .val r =>
      if (r && op == .any) || (!r && op == .all) then .val r
      else collLoop f o op b rest
    | .err _ => .err false
    | other => other

def strKey : GoVal → GoString
  | .str _ s => s
  | _ => []

/-- Go's `<=` on strings: bytewise lexicographic -/
def strLe : GoString → GoString → Bool
  | [], _ => true
  | _ :: _, [] => false
  | a :: as, b :: bs => a < b || (a == b && strLe as bs)

/-- `sort.Slice(keys, func(i, j) bool { return keys[i].String() < keys[j].String() })`: the keys
    of a map are pairwise distinct, so the sorted order is unique. -/
def sortKeys (ks : List GoString) : List GoString := ks.mergeSort strLe

/-- `evaluate` (with `evaluateCollectionExpression` inlined for the structural recursion) -/
def evaluate (re : RegexOracle) : Expr → Opts → Any → Out
  | .not e, o, d =>
    match evaluate re e o d with
    | .val b => .val (!b)
    | .err _ => .err false            -- `if err != nil { return false, err }`
    | other => other
  | .and l r, o, d =>
    match evaluate re l o d with
    | .val true => evaluate re r o d
    | other => other                  -- `if err != nil || !result { return result, err }`
  | .or l r, o, d =>
    match evaluate re l o d with
    | .val false => evaluate re r o d
    | other => other
  | .match_ sel op raw, o, d => evaluateMatch re o d sel op raw
  | .coll op sel b inner, o, d =>
    match getValue o d sel.path with
    | .error => .err false
    | .unmodelled => .unmodelled
    | .absent => .val (op == .all)
    | .present v =>
      match v with
      | some (.map _ kt _ _ es) =>
        if kt != GoType.stringT then .err false
        else collLoop (fun o' => evaluate re inner o' d) o op b
          ((sortKeys (es.map fun e => strKey e.1)).map fun k => mapBindings sel b k)
      | some (.slice _ _ _ xs) =>
        collLoop (fun o' => evaluate re inner o' d) o op b
          ((List.range xs.length).map fun i => listBindings sel b i)
      | some (.array _ xs) =>
        collLoop (fun o' => evaluate re inner o' d) o op b
          ((List.range xs.length).map fun i => listBindings sel b i)
      | _ => .err false

/-- `(*Evaluator).Evaluate`: rebuild the per-call options from the evaluator's fields. -/
structure Evaluator where
  ast : Expr
  tagName : GoString
  hook : Hook
  unknown : Option Any
  expression : GoString
  deriving Repr, Inhabited

def Evaluator.evaluate (re : RegexOracle) (ev : Evaluator) (datum : Any) : Out :=
  Eval.evaluate re ev.ast
    { tagName := ev.tagName, hook := ev.hook, unknown := ev.unknown, locals := [] } datum

end Bexpr.Eval
