/-
  Effect model for C12 / C13: which statements reachable from Evaluate / Execute can write memory
  that outlives the call.

  The store sites are EXTRACTED from the source on every run (`BexprGen.Effects.storeSites`,
  `reachableFromEvaluate`, `appendOrigins`), each with a CLASS computed by the translator's
  per-function freshness analysis (xlate/facts_effects.go, sections "freshness" and "store sites").
  This file says which classes are call-local, and why; the ties `Ties/Effects.lean` and
  `Ties/EffectsC13.lean` check that every site of an Evaluate-reachable function has such a class.
  The source TEXT of a site is carried along for the reader (and to identify the one tolerated
  shared site of C13); the ties do not compare it, so rewriting a statement without changing where
  the written memory comes from does not break them.  A site the analysis does not recognise is
  `shared`, which fails the ties.
-/
namespace Bexpr.Eval.Effects

/-- a store site: (function, kind, class, source text) -/
abbrev Site := String × String × String × String

/-- an origin of an appended-to local: (function, variable, class, source text) -/
abbrev Origin := String × String × String × String

/-- kinds of store sites that can be call-local at all; everything else (`assign-global`,
    `assign-deref`, `assign-param-slice`, `go`, `chan`, `sync`, unknown kinds) never is -/
def localKinds : List String :=
  ["append", "assign-field", "assign-index", "builtin-mutator", "reflect-mutator"]

/-- The Option setters.  Their closures `func(o *options) { o.f = e }` write through `o`
    (class `setter`): that is call-local because `o` points to the options struct that is a local
    variable of `getOpts` — `opts := getDefaultOptions(); …; o(&opts)` is the only place an Option
    is applied, pinned by `Ties.Options.getOpts_shape`.  `WithLocalVariable` also appends to
    `o.withLocalVariables`: that slice starts nil (`Ties.Options.defaults_agree`) and is only ever
    assigned an append to itself (`Ties.Options.setters_own_field`), so its backing array was
    allocated by an earlier setter applied to the same call-local struct. -/
def optionSetters : List String :=
  ["WithMaxExpressions", "WithTagName", "WithHookFn", "WithUnknownValue", "WithLocalVariable"]

/-- The functions that may assign a field of a by-value parameter of a named type (class
    `param-field`): `evaluateNotPresent(ptr pointerstructure.Pointer, …)` re-slices `ptr.Parts`;
    `pointerstructure.Pointer` is a struct, so that writes the slice header of the callee's own
    copy only. -/
def valueParamWriters : List String := ["evaluateNotPresent"]

/-- Is the store site call-local?
    * `local`: the written memory is held by a fresh local variable — one whose every value is a
      fresh allocation of the same call (`make`, a composite literal, `new`, `nil`, `reflect.MakeSlice`
      / `MakeMap` / `New`, or an append to such a value), reached in at most one selector / index
      step;
    * `setter`, `param-field`: see `optionSetters`, `valueParamWriters`. -/
def isLocalSite (s : Site) : Bool :=
  let (fn, kind, cls, _) := s
  localKinds.contains kind &&
    (cls == "local" || (cls == "setter" && optionSetters.contains fn) ||
     (cls == "param-field" && kind == "assign-field" && valueParamWriters.contains fn))

/-- every value an appended-to local slice of an Evaluate-reachable function receives must be a
    fresh allocation, or a previous append to the same (already fresh) variable -/
def isFreshOrigin (o : Origin) : Bool := o.2.2.1 == "fresh"

/-! ### The logic part: steps that do not write shared state commute with everything -/

/-- an atomic step of a call over the shared state `σ` (evaluator, syntax tree, datum) and the
    call's own state `λ` (its stack frame and the memory it allocated) -/
structure Step (σ : Type) (l : Type) where
  run : σ → l → σ × l

/-- the step leaves the shared state alone -/
def Step.ReadOnly {σ l : Type} (s : Step σ l) : Prop := ∀ a b, (s.run a b).1 = a

def upd {l : Type} (f : Nat → l) (i : Nat) (v : l) : Nat → l := fun j => if j = i then v else f j

/-- run an interleaving: a list of (call id, step) in the order the scheduler picked them -/
def runAll {σ l : Type} : List (Nat × Step σ l) → σ → (Nat → l) → σ × (Nat → l)
  | [], s, loc => (s, loc)
  | (i, st) :: rest, s, loc =>
    let r := st.run s (loc i)
    runAll rest r.1 (upd loc i r.2)

/-- run one call's steps alone -/
def runSeq {σ l : Type} : List (Step σ l) → σ → l → σ × l
  | [], s, b => (s, b)
  | st :: rest, s, b => let r := st.run s b; runSeq rest r.1 r.2

def stepsOf {σ l : Type} (i : Nat) (sched : List (Nat × Step σ l)) : List (Step σ l) :=
  (sched.filter (·.1 == i)).map (·.2)

end Bexpr.Eval.Effects
