/-
  Effect model for C12 / C13: which statements reachable from Evaluate / Execute can write memory
  that outlives the call.

  The store sites are EXTRACTED from the source on every run (`BexprGen.Effects.storeSites`,
  `reachableFromEvaluate`, `appendOrigins`); this file holds the hand classification: for each
  site the syntactic argument why the written memory is allocated by the very call that writes it.
  A site that is not listed here is `shared`, which fails the tie `Ties/Effects.lean`.
-/
namespace Bexpr.Eval.Effects

/-- (function, kind, source text) ↦ why the write is call-local -/
def localSites : List ((String × String × String) × String) := [
  (("Evaluator.Evaluate", "append", "append(opts, WithUnknownValue(*eval.unknownVal))"),
    "opts is the slice literal built two lines above in the same call"),
  (("Filter.Execute", "reflect-mutator", "reflect.Append(newSlice, item)"),
    "newSlice comes from reflect.MakeSlice in this call"),
  (("Filter.Execute", "reflect-mutator", "newMap.SetMapIndex(mapKey, item)"),
    "newMap comes from reflect.MakeMap in this call"),
  (("WithHookFn", "assign-field", "o.withHookFn = fn"),
    "o points to the options struct local to getOpts (getDefaultOptions() per call)"),
  (("WithTagName", "assign-field", "o.withTagName = tagName"), "same"),
  (("WithUnknownValue", "assign-field", "o.withUnknown = &val"), "same; val is the closure's own copy"),
  (("WithLocalVariable", "assign-field",
      "o.withLocalVariables = append(o.withLocalVariables, localVariable{ name: name, path: path, value: value, })"),
    "same; the slice field starts nil in getDefaultOptions, so append allocates"),
  (("WithLocalVariable", "append",
      "append(o.withLocalVariables, localVariable{ name: name, path: path, value: value, })"), "same"),
  (("evaluateCollectionExpression", "append", "append(path, expression.Selector.Path...)"),
    "path := make([]string, 0, …) in this iteration"),
  (("evaluateCollectionExpression", "append", "append(path, key.Interface().(string))"), "same"),
  (("evaluateCollectionExpression", "append",
      "append(innerOpt, WithLocalVariable(expression.NameBinding.Value, path, nil))"),
    "innerOpt := append([]Option(nil), opt...) — a fresh copy per iteration"),
  (("evaluateCollectionExpression", "append",
      "append(innerOpt, WithLocalVariable(expression.NameBinding.Default, nil, key.Interface()))"), "same"),
  (("evaluateCollectionExpression", "append",
      "append(innerOpt, WithLocalVariable(expression.NameBinding.Index, nil, key.Interface()))"), "same"),
  (("evaluateCollectionExpression", "append", "append(pathValue, expression.Selector.Path...)"),
    "pathValue := make([]string, 0, …) in this iteration"),
  (("evaluateCollectionExpression", "append", "append(pathValue, fmt.Sprintf(\"%d\", i))"), "same"),
  (("evaluateCollectionExpression", "append",
      "append(innerOpt, WithLocalVariable(expression.NameBinding.Default, pathValue, nil))"), "innerOpt: fresh copy"),
  (("evaluateCollectionExpression", "append",
      "append(innerOpt, WithLocalVariable(expression.NameBinding.Value, pathValue, nil))"), "innerOpt: fresh copy"),
  (("evaluateCollectionExpression", "append",
      "append(innerOpt, WithLocalVariable(expression.NameBinding.Index, nil, i))"), "innerOpt: fresh copy"),
  (("evaluateNotPresent", "assign-field", "ptr.Parts = ptr.Parts[0 : len(ptr.Parts)-1]"),
    "ptr is a by-value parameter; re-slicing writes the local header only"),
  (("getValue", "append", "append(prefix, path[1:]...)"),
    "prefix := append([]string(nil), lv.path...) — a fresh copy")
]

/-- where every appended-to local slice of an Evaluate-reachable function comes from:
    a fresh allocation, or a previous append to the same (already fresh) variable -/
def freshOrigins : List (String × String × String) := [
  ("Evaluator.Evaluate", "opts", "[]Option{ WithTagName(eval.tagName), WithHookFn(eval.valueTransformationHook), }"),
  ("Evaluator.Evaluate", "opts", "append(opts, WithUnknownValue(*eval.unknownVal))"),
  ("evaluateCollectionExpression", "innerOpt", "append([]Option(nil), opt...)"),
  ("evaluateCollectionExpression", "path", "make([]string, 0, len(expression.Selector.Path)+1)"),
  ("evaluateCollectionExpression", "path", "append(path, expression.Selector.Path...)"),
  ("evaluateCollectionExpression", "path", "append(path, key.Interface().(string))"),
  ("evaluateCollectionExpression", "innerOpt",
      "append(innerOpt, WithLocalVariable(expression.NameBinding.Value, path, nil))"),
  ("evaluateCollectionExpression", "innerOpt",
      "append(innerOpt, WithLocalVariable(expression.NameBinding.Default, nil, key.Interface()))"),
  ("evaluateCollectionExpression", "innerOpt",
      "append(innerOpt, WithLocalVariable(expression.NameBinding.Index, nil, key.Interface()))"),
  ("evaluateCollectionExpression", "pathValue", "make([]string, 0, len(expression.Selector.Path)+1)"),
  ("evaluateCollectionExpression", "pathValue", "append(pathValue, expression.Selector.Path...)"),
  ("evaluateCollectionExpression", "pathValue", "append(pathValue, fmt.Sprintf(\"%d\", i))"),
  ("evaluateCollectionExpression", "innerOpt",
      "append(innerOpt, WithLocalVariable(expression.NameBinding.Default, pathValue, nil))"),
  ("evaluateCollectionExpression", "innerOpt",
      "append(innerOpt, WithLocalVariable(expression.NameBinding.Value, pathValue, nil))"),
  ("evaluateCollectionExpression", "innerOpt",
      "append(innerOpt, WithLocalVariable(expression.NameBinding.Index, nil, i))"),
  ("getValue", "prefix", "append([]string(nil), lv.path...)")
]

def isLocalSite (s : String × String × String) : Bool := localSites.any (·.1 == s)

/-! ### The logic part: steps that do not write shared state commute with everything -/

/-- an atomic step of a call over the shared state `σ` (evaluator, syntax tree, datum) and the
    call's own state `λ` (its stack frame and the memory it allocated) -/
structure Step (σ : Type) (l : Type) where
  run : σ → l → σ × l

/-- the step leaves the shared state alone -/
def Step.ReadOnly {σ l : Type} (s : Step σ l) : Prop := ∀ a b, (s.run a b).1 = a

def upd {l : Type} (f : Nat → l) (i : Nat) (v : l) : Nat → l := fun j => if j = i then v else f j

/-- run an interleaving: a list of (call id, step) in the order the scheduler picked them -/
def runAll {σ l : Type} : List (Nat × Step σ l) → σ → (Nat → l) → σ × (Nat → l)
  | [], s, loc => (s, loc)
  | (i, st) :: rest, s, loc =>
    let r := st.run s (loc i)
    runAll rest r.1 (upd loc i r.2)

/-- run one call's steps alone -/
def runSeq {σ l : Type} : List (Step σ l) → σ → l → σ × l
  | [], s, b => (s, b)
  | st :: rest, s, b => let r := st.run s b; runSeq rest r.1 r.2

def stepsOf {σ l : Type} (i : Nat) (sched : List (Nat × Step σ l)) : List (Step σ l) :=
  (sched.filter (·.1 == i)).map (·.2)

end Bexpr.Eval.Effects
