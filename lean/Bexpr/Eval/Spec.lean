/-
  Reference semantics of the expression language (property C01): an interpreter written from
  the documentation, independent of `Eval.evaluate` in the three places where the code is
  intricate:

   * BINDING.  The environment is lexical and holds VALUES: inside `any S as x {…}` the name `x`
     stands for the element itself (an `interface{}` value), not for a path that is looked up
     again; an index/key name stands for the position/key.  A selector `x.rest` whose first part
     is bound selects `rest` WITHIN that value; every other selector is walked from the root
     datum.  Innermost binding first; a binding hides outer bindings and same-named fields of the
     datum.
   * ABSENT KEYS.  One walk, no second look: the selector is "absent" iff the walk fails with
     not-found at its LAST part, in a value of kind Map, and the selector — counted from the
     root — has at least two parts.  (A selector `x.rest` through an element has at least two
     parts as soon as `rest` has one.)
   * FOLDING.  `not`/`and`/`or` by their outcome tables; `any`/`all` by the left-to-right fold
     over the elements in index order, resp. over the entries in bytewise key order.

  Shared with the implementation model (and not re-specified here): one step of the walk
  (`Go.getStep`: key / field name or tag / index, through interfaces and pointers) and the
  per-operator tables on the selected value (`doMatchEqual`, `doMatchIn`, `doMatchIsEmpty`,
  `doMatchMatches`, with the literal read in the selected value's own type).

  Core-only.
-/
import Bexpr.Eval.Impl

namespace Bexpr.Eval.Spec
open Bexpr Bexpr.Go Bexpr.Eval

/-- what a name stands for inside the braces -/
inductive Bound where
  /-- the element / entry value itself -/
  | elem (v : Any)
  /-- the index (an `int`) or the key (a `string`) -/
  | key (v : Any)
  deriving Repr, Inhabited

/-- lexical environment: configuration, root datum, bindings innermost first -/
structure Env where
  cfg : Config
  unknown : Option Any
  root : Any
  vars : List (GoString × Bound)
  deriving Repr, Inhabited

def Env.lookup (env : Env) (x : GoString) : Option Bound :=
  match env.vars.find? (fun p => p.1 == x) with
  | some (_, b) => some b
  | none => none

/-- Where a walk failed: the error, whether it was at the last part, and the (boxed) value the
    failing step was applied to. -/
structure Stuck where
  err : GetErr
  atLast : Bool
  parent : Any
  deriving Repr, Inhabited

/-- Walk the parts from a boxed value, one `getStep` per part, boxing the intermediate results
    as `interface{}` values. -/
def walk (cfg : Config) : List GoString → Any → Except Stuck Any
  | [], v => .ok v
  | part :: rest, v =>
    match getStep cfg part (valueOf v) with
    | .error e => .error { err := e, atLast := rest.isEmpty, parent := v }
    | .ok none => .error { err := .hookNil, atLast := rest.isEmpty, parent := v }
    | .ok (some r) => walk cfg rest r.toAny

/-- Classification of a walk.  `minParts`: how many parts the walked path must have for an
    absent key to count as absent (2 from the root, 1 from an element: the element's own path
    has at least one part). -/
def classify (unknown : Option Any) (minParts : Nat) (path : List GoString) :
    Except Stuck Any → GetValue
  | .ok v => .present v
  | .error s =>
    match s.err with
    | .unmodelled => .unmodelled
    | .notFound =>
      match unknown with
      | some u => .present u
      | none =>
        if s.atLast && decide (minParts ≤ path.length) && RV.kind s.parent == .map then .absent
        else .error
    | _ => .error

/-- Selector resolution. -/
def select (env : Env) (path : List GoString) : GetValue :=
  match path with
  | [] => .present env.root
  | x :: rest =>
    match env.lookup x with
    | some (.key v) => if rest.isEmpty then .present v else .error
    | some (.elem v) => classify env.unknown 1 rest (walk env.cfg rest v)
    | none => classify env.unknown 2 path (walk env.cfg path env.root)

/-- the operator tables on a selected value -/
def matchValue (re : RegexOracle) (op : MatchOp) (raw : Option GoString) (v : Any) : Out :=
  match narrowJsonNumber v with
  | .error () => .err false
  | .ok v =>
    let rv := indirect (valueOf v)
    match op with
    | .equal => doMatchEqual raw rv
    | .notEqual => negate (doMatchEqual raw rv)
    | .in_ => doMatchIn raw rv
    | .notIn => negate (doMatchIn raw rv)
    | .isEmpty => doMatchIsEmpty rv
    | .isNotEmpty => negate (doMatchIsEmpty rv)
    | .matches => doMatchMatches re raw rv
    | .notMatches => negate (doMatchMatches re raw rv)

def notT : Out → Out
  | .val b => .val (!b)
  | .err _ => .err false
  | x => x

def andT (a b : Out) : Out :=
  match a with
  | .val true => b
  | x => x

def orT (a b : Out) : Out :=
  match a with
  | .val false => b
  | x => x

/-- left-to-right fold of a quantifier: the first decisive element (`true` for `any`, `false`
    for `all`) or the first non-value outcome ends it -/
def fold (op : CollOp) : List Out → Out
  | [] => .val (op == .all)
  | x :: rest =>
    match x with
    | .val r => if r == (op == .any) then .val r else fold op rest
    | .err _ => .err false
    | other => other

/-- one element of an iteration: its position / key and its value -/
structure Item where
  pos : GoVal
  val : Any
  deriving Repr, Inhabited

/-- the entry of a map with string key `k` -/
def entry (es : List (GoVal × GoVal)) (k : GoString) : Any :=
  match es.find? (fun e => fkeyEq e.1 (.str "" k)) with
  | some (_, v) => v.toAny
  | none => none

/-- the elements of a list with their positions, counting from `i` -/
def listItems : List GoVal → Nat → List Item
  | [], _ => []
  | x :: xs, i => { pos := .int .int "" i, val := x.toAny } :: listItems xs (i + 1)

/-- What `any`/`all` iterate: the elements of a slice or array in index order, the entries of a
    map whose key type is `string` in bytewise key order.  `none`: not iterable. -/
def items : Any → Option (Bool × List Item)
  | some (.slice _ _ _ xs) => some (false, listItems xs 0)
  | some (.array _ xs) => some (false, listItems xs 0)
  | some (.map _ kt _ _ es) =>
    if kt == GoType.stringT then
      some (true, (sortKeys (es.map fun e => strKey e.1)).map fun k =>
        { pos := .str "" k, val := entry es k })
    else none
  | _ => none

/-- The names a quantifier binds for one item, innermost first.  Lists: the one-name form and
    the value name stand for the element, the index name for the position.  Maps: the value name
    stands for the entry's value, the one-name form and the index name for the key.  Unused
    names are empty. -/
def bindItem (b : Binding) (isMap : Bool) (it : Item) : List (GoString × Bound) :=
  let nm (n : GoString) (bd : Bound) : List (GoString × Bound) :=
    if n.isEmpty then [] else [(n, bd)]
  if isMap then
    nm b.index (.key (some it.pos)) ++ nm b.default (.key (some it.pos)) ++ nm b.value (.elem it.val)
  else
    nm b.index (.key (some it.pos)) ++ nm b.value (.elem it.val) ++ nm b.default (.elem it.val)

def Env.push (env : Env) (vs : List (GoString × Bound)) : Env :=
  { env with vars := vs ++ env.vars }

/-- The denotation of an expression in an environment. -/
def denote (re : RegexOracle) : Expr → Env → Out
  | .not e, env => notT (denote re e env)
  | .and l r, env => andT (denote re l env) (denote re r env)
  | .or l r, env => orT (denote re l env) (denote re r env)
  | .match_ sel op raw, env =>
    match select env sel.path with
    | .error => .err false
    | .unmodelled => .unmodelled
    | .absent => .val (notPresentDisposition op)
    | .present v => matchValue re op raw v
  | .coll op sel b inner, env =>
    match select env sel.path with
    | .error => .err false
    | .unmodelled => .unmodelled
    | .absent => .val (op == .all)
    | .present v =>
      match items v with
      | none => .err false
      | some (isMap, its) =>
        -- one name for both index and value is an error as soon as there is an element
        if b.mode == .indexAndValue && b.index == b.value && !its.isEmpty then .err false
        else fold op (its.map fun it => denote re inner (env.push (bindItem b isMap it)))

/-- the environment of a top-level evaluation -/
def Env.top (tagName : GoString) (hook : Hook) (unknown : Option Any) (datum : Any) : Env :=
  { cfg := { tagName := tagName, hook := hook }, unknown := unknown, root := datum, vars := [] }

end Bexpr.Eval.Spec
