/-
  Hand model of the `ExpressionDump` methods and the `String()` methods of `grammar/ast.go`.
-/
import Bexpr.Ast
import Bexpr.Quote
import Bexpr.Peg.Actions

namespace Bexpr.Dump
open Bexpr

def s (x : String) : GoString := GoString.ofString x

/-- `MatchOperator.String` -/
def matchOpName : MatchOp → String
  | .equal => "Equal"
  | .notEqual => "Not Equal"
  | .in_ => "In"
  | .notIn => "Not In"
  | .isEmpty => "Is Empty"
  | .isNotEmpty => "Is Not Empty"
  | .matches => "Matches"
  | .notMatches => "Not Matches"

/-- `CollectionOperator` is a string type: the constant's text -/
def collOpName : CollOp → String
  | .all => "ALL"
  | .any => "ANY"

def bindModeName : BindMode → String
  | .default => "Default"
  | .index => "Index"
  | .value => "Value"
  | .indexAndValue => "Index & Value"

/-- `(*CollectionNameBinding).String` -/
def bindingString (b : Binding) : GoString :=
  match b.mode with
  | .default => s (bindModeName b.mode) ++ s " (" ++ b.default ++ s ")"
  | .index => s (bindModeName b.mode) ++ s " (" ++ b.index ++ s ")"
  | .value => s (bindModeName b.mode) ++ s " (" ++ b.value ++ s ")"
  | .indexAndValue => s (bindModeName b.mode) ++ s " (" ++ b.index ++ s ", " ++ b.value ++ s ")"

/-- `strings.Repeat(indent, level)` -/
def repeatStr (indent : GoString) : Nat → GoString
  | 0 => []
  | n + 1 => indent ++ repeatStr indent n

/-- which operators print their value -/
def printsValue : MatchOp → Bool
  | .equal | .notEqual | .in_ | .notIn => true
  | _ => false

/-- `ExpressionDump(w, indent, level)`; `none` = panic (nil `Value` dereference). -/
def dump (indent : GoString) : Expr → Nat → Option GoString
  | .not e, level => do
    let inner ← dump indent e (level + 1)
    let li := repeatStr indent level
    pure (li ++ s "Not {\n" ++ inner ++ li ++ s "}\n")
  | .and l r, level => do
    let a ← dump indent l (level + 1)
    let b ← dump indent r (level + 1)
    let li := repeatStr indent level
    pure (li ++ s "And {\n" ++ a ++ b ++ li ++ s "}\n")
  | .or l r, level => do
    let a ← dump indent l (level + 1)
    let b ← dump indent r (level + 1)
    let li := repeatStr indent level
    pure (li ++ s "Or {\n" ++ a ++ b ++ li ++ s "}\n")
  | .match_ sel op val, level =>
    let i1 := repeatStr indent level
    let i2 := repeatStr indent (level + 1)
    if printsValue op then
      match val with
      | none => none
      | some raw =>
        some (i1 ++ s (matchOpName op) ++ s " {\n" ++ i2 ++ s "Selector: " ++ sel.render
          ++ s "\n" ++ i2 ++ s "Value: " ++ Strconv.quote raw ++ s "\n" ++ i1 ++ s "}\n")
    else
      some (i1 ++ s (matchOpName op) ++ s " {\n" ++ i2 ++ s "Selector: " ++ sel.render
        ++ s "\n" ++ i1 ++ s "}\n")
  | .coll op sel b inner, level => do
    let body ← dump indent inner (level + 1)
    let li := repeatStr indent level
    pure (li ++ s (collOpName op) ++ s " " ++ bindingString b ++ s " on " ++ sel.render
      ++ s " {\n" ++ body ++ li ++ s "}\n")

end Bexpr.Dump
