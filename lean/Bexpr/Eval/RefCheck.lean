/-
  Decidable side conditions under which the reference interpreter `Spec.denote` is PROVED to be the
  outcome of `Evaluate` (`Props/C01.refOk_sound`).  The driver answers `evalref` requests with
  `Spec.denote` and the value of `refOk`; the check uses them to turn a model/implementation
  disagreement into a failing input of C01 ("the real code returns X, the reference semantics
  assigns Y").  Core-only.
-/
import Bexpr.Eval.Spec
import Bexpr.Go.WF

namespace Bexpr.Eval.RefCheck
open Bexpr Bexpr.Go Bexpr.Eval

/-- `C06.Iterable`, as a Boolean -/
def iterableB : Any → Bool
  | some (.slice ..) => true
  | some (.array ..) => true
  | some (.map _ kt _ _ _) => kt == GoType.stringT
  | _ => false

/-- `C01.wellBound`, restated here so that the driver does not import proof modules -/
def wellBoundB : Expr → Bool
  | .not e => wellBoundB e
  | .and l r => wellBoundB l && wellBoundB r
  | .or l r => wellBoundB l && wellBoundB r
  | .match_ .. => true
  | .coll _ sel b inner =>
    !sel.path.isEmpty && (b.default.isEmpty || b.value.isEmpty) && wellBoundB inner

def sizeOf : Any → Nat
  | none => 0
  | some v => v.size

/-- the hypotheses of `C01.evaluator_refines_spec`, decidably -/
def refOk (ev : Evaluator) (d : Any) : Bool :=
  Any.wf d && (ev.hook == .off || ev.hook == .identity)
    && (match ev.unknown with | none => true | some u => !iterableB u)
    && wellBoundB ev.ast && decide (sizeOf d ≤ 2 ^ 63)

/-- what the reference semantics assigns -/
def refAnswer (re : RegexOracle) (ev : Evaluator) (d : Any) : Out :=
  Spec.denote re ev.ast (Spec.Env.top ev.tagName ev.hook ev.unknown d)

end Bexpr.Eval.RefCheck
