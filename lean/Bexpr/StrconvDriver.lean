/-
  Bexpr.StrconvDriver — line protocol around the strconv/utf8/unicode model, used
  by the `bxstrconv` executable for differential testing against the real Go
  library (/verif/harness_strconv).

  One request per line, words separated by single spaces; byte strings are
  lowercase hex with prefix `x` (the empty string is `x`).

      bool xHEX            → ok 0|1 / syn
      int BASE BITS xHEX   → ok <decimal int> / syn / range
      uint BASE BITS xHEX  → ok <decimal nat> / syn / range
      float BITS xHEX      → ok <bit pattern as decimal nat> / syn / range
      unquote xHEX         → ok xHEX / err
      quote xHEX           → ok xHEX
      rune xHEX            → ok <rune> <width>
      isprint N / isL N / isN N → ok 0|1
      f64to32 N / f32to64 N     → ok N
-/
import Bexpr.Bytes
import Bexpr.Utf8
import Bexpr.Strconv
import Bexpr.Unquote
import Bexpr.Quote
import Bexpr.Unicode

namespace Bexpr.StrconvDriver

open Bexpr Bexpr.Strconv

/-- Decode an `xHEX` word. -/
def bytesArg (w : String) : Option GoString :=
  match w.toList with
  | 'x' :: rest => GoString.ofHexChars? rest
  | _ => none

/-- Encode a byte string as an `xHEX` word. -/
def bytesOut (s : GoString) : String := "x" ++ GoString.toHex s

/-- `0`/`1`. -/
def boolOut (b : Bool) : String := if b then "ok 1" else "ok 0"

/-- Answer for a `PErr`. -/
def errOut : PErr → String
  | .syntax => "syn"
  | .range => "range"

/-- Answer one request (already split into words); `none` for an unknown or
malformed request. -/
def handle (words : List String) : Option String :=
  match words with
  | ["bool", x] => do
    let s ← bytesArg x
    pure (match parseBool s with
      | .ok b => boolOut b
      | .error e => errOut e)
  | ["int", b, n, x] => do
    let base ← b.toNat?
    let bits ← n.toNat?
    let s ← bytesArg x
    pure (match parseInt s base bits with
      | .ok v => "ok " ++ toString v
      | .error e => errOut e)
  | ["uint", b, n, x] => do
    let base ← b.toNat?
    let bits ← n.toNat?
    let s ← bytesArg x
    pure (match parseUint s base bits with
      | .ok v => "ok " ++ toString v
      | .error e => errOut e)
  | ["float", n, x] => do
    let bits ← n.toNat?
    let s ← bytesArg x
    pure (match parseFloat s bits with
      | .ok v => "ok " ++ toString v
      | .error e => errOut e)
  | ["unquote", x] => do
    let s ← bytesArg x
    pure (match unquote s with
      | some r => "ok " ++ bytesOut r
      | none => "err")
  | ["quote", x] => do
    let s ← bytesArg x
    pure ("ok " ++ bytesOut (quote s))
  | ["rune", x] => do
    let s ← bytesArg x
    let rw := Utf8.decodeRune s
    pure ("ok " ++ toString rw.1 ++ " " ++ toString rw.2)
  | ["isprint", n] => do
    let r ← n.toNat?
    pure (boolOut (Unicode.isPrint r))
  | ["isL", n] => do
    let r ← n.toNat?
    pure (boolOut (Unicode.isL r))
  | ["isN", n] => do
    let r ← n.toNat?
    pure (boolOut (Unicode.isN r))
  | ["f64to32", n] => do
    let v ← n.toNat?
    pure ("ok " ++ toString (f64to32 v))
  | ["f32to64", n] => do
    let v ← n.toNat?
    pure ("ok " ++ toString (f32to64 v))
  | _ => none

end Bexpr.StrconvDriver
