package main

// grammar_go.go: T1, the reader for the pigeon-generated grammar/grammar.go.
//
// It reads, with go/parser + go/ast only:
//   - the composite literal `var g = &grammar{rules: []*rule{...}}`,
//   - every method `func (c *current) on<Rule><n>(params) (T, error) { body }`,
//   - every wrapper `func (p *parser) callon<Rule><n>()` (the stack["label"] arguments).
//
// Anything it does not recognise becomes a PExpr.unsupported node; it never
// consults grammar.peg.

import (
	"fmt"
	"go/ast"
	"go/parser"
	"go/scanner"
	"go/token"
	"strconv"
	"strings"
)

// goTokens tokenises Go source text with go/scanner.  Comments and the
// automatically inserted semicolons are dropped; every other token is
// rendered as its literal text if it has one, else as token.String().
// Used for both the Go function bodies (T1) and the PEG code blocks (T2).
func goTokens(src string) []string {
	fset := token.NewFileSet()
	file := fset.AddFile("", fset.Base(), len(src))
	var s scanner.Scanner
	s.Init(file, []byte(src), func(token.Position, string) {}, 0) // mode 0: comments are skipped
	toks := []string{}
	for {
		_, tok, lit := s.Scan()
		if tok == token.EOF {
			break
		}
		if tok == token.COMMENT {
			continue
		}
		if tok == token.SEMICOLON && lit == "\n" {
			continue
		}
		if lit != "" {
			toks = append(toks, lit)
		} else {
			toks = append(toks, tok.String())
		}
	}
	return toks
}

type goFunc struct {
	params []string
	body   []string
	labels []string // callon*: stack["label"] arguments
	bad    string   // callon*: description of an argument that is not stack["..."]
}

type goReader struct {
	src     []byte
	fset    *token.FileSet
	names   []string // action / predicate names in pre-order over the rule table
	notes   []string
	onFuncs map[string]*goFunc
	callOns map[string]*goFunc
	onOrder []string
}

func readGoGrammar(src []byte) *table {
	r := &goReader{src: src, fset: token.NewFileSet(), onFuncs: map[string]*goFunc{}, callOns: map[string]*goFunc{}}
	file, err := parser.ParseFile(r.fset, "grammar.go", src, parser.SkipObjectResolution)
	if err != nil {
		return &table{fatal: err}
	}

	var gval ast.Expr
	for _, d := range file.Decls {
		switch d := d.(type) {
		case *ast.GenDecl:
			if d.Tok != token.VAR {
				continue
			}
			for _, sp := range d.Specs {
				vs, ok := sp.(*ast.ValueSpec)
				if !ok {
					continue
				}
				for i, n := range vs.Names {
					if n.Name == "g" && i < len(vs.Values) && gval == nil {
						gval = vs.Values[i]
					}
				}
			}
		case *ast.FuncDecl:
			r.readFunc(d)
		}
	}
	if gval == nil {
		return &table{fatal: fmt.Errorf("no `var g = &grammar{...}` declaration found")}
	}

	t := &table{}
	rulesLit, why := r.findRules(gval)
	if rulesLit == nil {
		return &table{fatal: fmt.Errorf("var g: %s", why)}
	}
	for _, el := range rulesLit.Elts {
		t.rules = append(t.rules, r.readRule(el))
	}

	// Actions, in the order their names appear in the rule table.
	referenced := map[string]bool{}
	for _, name := range r.names {
		referenced[name] = true
		t.actions = append(t.actions, r.actionFor(name))
	}
	// on* methods that no rule refers to are reported, but not emitted as defs
	// (the order contract is "as referenced by the rule table").
	for _, name := range r.onOrder {
		if !referenced[name] {
			r.notes = append(r.notes, fmt.Sprintf("method %s on *current is not referenced by the rule table", name))
		}
	}
	t.notes = r.notes
	return t
}

// ---------------------------------------------------------------------------
// functions

func recvTypeName(fd *ast.FuncDecl) string {
	if fd.Recv == nil || len(fd.Recv.List) != 1 {
		return ""
	}
	t := fd.Recv.List[0].Type
	if st, ok := t.(*ast.StarExpr); ok {
		if id, ok := st.X.(*ast.Ident); ok {
			return "*" + id.Name
		}
	}
	return ""
}

func (r *goReader) readFunc(fd *ast.FuncDecl) {
	name := fd.Name.Name
	switch {
	case recvTypeName(fd) == "*current" && strings.HasPrefix(name, "on"):
		f := &goFunc{}
		if fd.Type.Params != nil {
			for _, fld := range fd.Type.Params.List {
				if len(fld.Names) == 0 {
					f.params = append(f.params, "_")
				}
				for _, n := range fld.Names {
					f.params = append(f.params, n.Name)
				}
			}
		}
		if fd.Body != nil {
			lo := r.fset.Position(fd.Body.Lbrace).Offset + 1
			hi := r.fset.Position(fd.Body.Rbrace).Offset
			if lo >= 0 && hi >= lo && hi <= len(r.src) {
				f.body = goTokens(string(r.src[lo:hi]))
			}
		}
		if _, dup := r.onFuncs[name]; dup {
			r.notes = append(r.notes, fmt.Sprintf("method %s on *current declared more than once; first declaration used", name))
			return
		}
		r.onFuncs[name] = f
		r.onOrder = append(r.onOrder, name)

	case recvTypeName(fd) == "*parser" && strings.HasPrefix(name, "callon"):
		f := &goFunc{}
		want := strings.TrimPrefix(name, "call")
		var call *ast.CallExpr
		if fd.Body != nil {
			ast.Inspect(fd.Body, func(n ast.Node) bool {
				if c, ok := n.(*ast.CallExpr); ok && call == nil {
					if sel, ok := c.Fun.(*ast.SelectorExpr); ok && sel.Sel.Name == want {
						call = c
						return false
					}
				}
				return true
			})
		}
		if call == nil {
			f.bad = "wrapper does not call " + want
		} else {
			for _, a := range call.Args {
				lbl, ok := stackLabel(a)
				if !ok {
					f.bad = "argument is not of the form stack[\"label\"]"
					lbl = "!expr"
				}
				f.labels = append(f.labels, lbl)
			}
		}
		if _, dup := r.callOns[name]; dup {
			r.notes = append(r.notes, fmt.Sprintf("method %s on *parser declared more than once; first declaration used", name))
			return
		}
		r.callOns[name] = f
	}
}

func stackLabel(e ast.Expr) (string, bool) {
	ix, ok := e.(*ast.IndexExpr)
	if !ok {
		return "", false
	}
	if id, ok := ix.X.(*ast.Ident); !ok || id.Name != "stack" {
		return "", false
	}
	return stringLit(ix.Index)
}

func sameStrings(a, b []string) bool {
	if len(a) != len(b) {
		return false
	}
	for i := range a {
		if a[i] != b[i] {
			return false
		}
	}
	return true
}

func (r *goReader) actionFor(name string) actionCode {
	ac := actionCode{name: name, params: []string{}, body: []string{}}
	on := r.onFuncs[name]
	call := r.callOns["call"+name]
	var problems []string
	if call != nil {
		ac.params = append(ac.params, call.labels...)
		if call.bad != "" {
			problems = append(problems, "call"+name+": "+call.bad)
		}
	} else {
		problems = append(problems, "wrapper call"+name+" not found")
	}
	if on != nil {
		ac.body = on.body
		if call != nil && !sameStrings(call.labels, on.params) {
			problems = append(problems, fmt.Sprintf("%s has parameters (%s) but call%s passes labels (%s)",
				name, strings.Join(on.params, ", "), name, strings.Join(call.labels, ", ")))
		}
	} else {
		problems = append(problems, "method "+name+" on *current not found")
	}
	if len(problems) > 0 {
		ac.params = append(ac.params, "!mismatch")
		ac.comment = "MISMATCH: " + strings.Join(problems, "; ")
	}
	return ac
}

// ---------------------------------------------------------------------------
// the rule table

func stringLit(e ast.Expr) (string, bool) {
	bl, ok := e.(*ast.BasicLit)
	if !ok || bl.Kind != token.STRING {
		return "", false
	}
	s, err := strconv.Unquote(bl.Value)
	if err != nil {
		return "", false
	}
	return s, true
}

func boolLit(e ast.Expr) (bool, bool) {
	id, ok := e.(*ast.Ident)
	if !ok {
		return false, false
	}
	switch id.Name {
	case "true":
		return true, true
	case "false":
		return false, true
	}
	return false, false
}

// compositeOf strips an optional leading & and returns the composite literal
// and the name of its type ("" for an elided type).
func compositeOf(e ast.Expr) (*ast.CompositeLit, string, bool) {
	if u, ok := e.(*ast.UnaryExpr); ok && u.Op == token.AND {
		e = u.X
	}
	if p, ok := e.(*ast.ParenExpr); ok {
		e = p.X
	}
	cl, ok := e.(*ast.CompositeLit)
	if !ok {
		return nil, "", false
	}
	switch t := cl.Type.(type) {
	case nil:
		return cl, "", true
	case *ast.Ident:
		return cl, t.Name, true
	}
	return cl, "?", true
}

// fields returns the key: value elements of a struct literal.  Duplicate or
// positional elements are reported through ok=false.
func fields(cl *ast.CompositeLit) (map[string]ast.Expr, bool) {
	m := map[string]ast.Expr{}
	ok := true
	for _, el := range cl.Elts {
		kv, isKV := el.(*ast.KeyValueExpr)
		if !isKV {
			ok = false
			continue
		}
		id, isID := kv.Key.(*ast.Ident)
		if !isID {
			ok = false
			continue
		}
		if _, dup := m[id.Name]; dup {
			ok = false
			continue
		}
		m[id.Name] = kv.Value
	}
	return m, ok
}

func (r *goReader) findRules(gval ast.Expr) (*ast.CompositeLit, string) {
	cl, typ, ok := compositeOf(gval)
	if !ok || typ != "grammar" {
		return nil, "initialiser is not a &grammar{...} composite literal"
	}
	f, _ := fields(cl)
	rv, ok := f["rules"]
	if !ok {
		return nil, "no `rules:` field"
	}
	rl, ok := rv.(*ast.CompositeLit)
	if !ok {
		return nil, "`rules:` is not a composite literal"
	}
	return rl, ""
}

func (r *goReader) line(n ast.Node) int { return r.fset.Position(n.Pos()).Line }

func (r *goReader) readRule(el ast.Expr) rule {
	cl, typ, ok := compositeOf(el)
	if !ok || (typ != "" && typ != "rule") {
		return rule{name: "!unreadable", expr: unsupported("grammar.go:%d: rule table element is not a rule literal", r.line(el))}
	}
	f, clean := fields(cl)
	out := rule{}
	if v, ok := f["name"]; ok {
		if s, ok := stringLit(v); ok {
			out.name = s
		} else {
			out.name = "!unreadable"
		}
	} else {
		out.name = "!unreadable"
	}
	if v, ok := f["displayName"]; ok {
		if s, ok := stringLit(v); ok {
			out.displayName = s
		} else {
			out.displayName = "!unreadable"
		}
	}
	switch v, ok := f["expr"]; {
	case !clean:
		out.expr = unsupported("grammar.go:%d: malformed rule literal", r.line(el))
	case !ok:
		out.expr = unsupported("grammar.go:%d: rule without expr", r.line(el))
	default:
		out.expr = r.readExpr(v)
	}
	return out
}

func (r *goReader) readExprList(e ast.Expr) ([]*expr, bool) {
	cl, ok := e.(*ast.CompositeLit)
	if !ok {
		return nil, false
	}
	out := make([]*expr, 0, len(cl.Elts))
	for _, el := range cl.Elts {
		if _, isKV := el.(*ast.KeyValueExpr); isKV {
			return nil, false
		}
		out = append(out, r.readExpr(el))
	}
	return out, true
}

// runName reads `(*parser).callonXxxN` and returns "onXxxN".
func runName(e ast.Expr) (string, bool) {
	sel, ok := e.(*ast.SelectorExpr)
	if !ok {
		return "", false
	}
	x := sel.X
	if p, ok := x.(*ast.ParenExpr); ok {
		x = p.X
	}
	st, ok := x.(*ast.StarExpr)
	if !ok {
		return "", false
	}
	if id, ok := st.X.(*ast.Ident); !ok || id.Name != "parser" {
		return "", false
	}
	return strings.TrimPrefix(sel.Sel.Name, "call"), true
}

func runeList(e ast.Expr) ([]rune, bool) {
	cl, ok := e.(*ast.CompositeLit)
	if !ok {
		return nil, false
	}
	out := make([]rune, 0, len(cl.Elts))
	for _, el := range cl.Elts {
		bl, ok := el.(*ast.BasicLit)
		if !ok {
			return nil, false
		}
		switch bl.Kind {
		case token.CHAR:
			c, _, tail, err := strconv.UnquoteChar(bl.Value[1:len(bl.Value)-1], '\'')
			if err != nil || tail != "" {
				return nil, false
			}
			out = append(out, c)
		case token.INT:
			n, err := strconv.ParseInt(bl.Value, 0, 32)
			if err != nil || n < 0 {
				return nil, false
			}
			out = append(out, rune(n))
		default:
			return nil, false
		}
	}
	return out, true
}

func classList(e ast.Expr) ([]string, bool) {
	cl, ok := e.(*ast.CompositeLit)
	if !ok {
		return nil, false
	}
	out := make([]string, 0, len(cl.Elts))
	for _, el := range cl.Elts {
		c, ok := el.(*ast.CallExpr)
		if !ok || len(c.Args) != 1 {
			return nil, false
		}
		if id, ok := c.Fun.(*ast.Ident); !ok || id.Name != "rangeTable" {
			return nil, false
		}
		s, ok := stringLit(c.Args[0])
		if !ok {
			return nil, false
		}
		out = append(out, s)
	}
	return out, true
}

// wantField reads the string field of a matcher literal that failAt reports (`want` of a
// litMatcher, `val` of a charClassMatcher).  A field that is missing or not a string literal is
// an explicit unknown entry.
func wantField(r *goReader, f map[string]ast.Expr, name string) (string, bool) {
	v, ok := f[name]
	if !ok {
		return "unknown:matcher literal has no " + name + " field", true
	}
	if s, ok := stringLit(v); ok {
		return s, true
	}
	lo, hi := r.fset.Position(v.Pos()).Offset, r.fset.Position(v.End()).Offset
	if lo >= 0 && hi >= lo && hi <= len(r.src) {
		return "unknown:" + string(r.src[lo:hi]), true
	}
	return "unknown:unreadable " + name + " field", true
}

func (r *goReader) readExpr(e ast.Expr) *expr {
	cl, typ, ok := compositeOf(e)
	if !ok {
		return unsupported("grammar.go:%d: expression is not a composite literal", r.line(e))
	}
	bad := func(what string) *expr {
		return unsupported("grammar.go:%d: %s: %s", r.line(e), typ, what)
	}
	if typ == "anyMatcher" { // anyMatcher is a position: {line: .., col: .., offset: ..}
		return &expr{kind: kAny}
	}
	f, clean := fields(cl)
	if !clean {
		return bad("malformed literal")
	}

	wrap := func(k kind) *expr {
		v, ok := f["expr"]
		if !ok {
			return bad("no expr field")
		}
		return &expr{kind: k, kids: []*expr{r.readExpr(v)}}
	}

	switch typ {
	case "choiceExpr":
		v, ok := f["alternatives"]
		if !ok {
			return bad("no alternatives field")
		}
		kids, ok := r.readExprList(v)
		if !ok {
			return bad("unreadable alternatives")
		}
		return &expr{kind: kChoice, kids: kids}

	case "seqExpr":
		v, ok := f["exprs"]
		if !ok {
			return bad("no exprs field")
		}
		kids, ok := r.readExprList(v)
		if !ok {
			return bad("unreadable exprs")
		}
		return &expr{kind: kSeq, kids: kids}

	case "actionExpr", "andCodeExpr", "notCodeExpr":
		v, ok := f["run"]
		if !ok {
			return bad("no run field")
		}
		name, ok := runName(v)
		if !ok {
			return bad("unreadable run field")
		}
		switch typ {
		case "andCodeExpr":
			r.names = append(r.names, name)
			return &expr{kind: kAndCode, name: name}
		case "notCodeExpr":
			r.names = append(r.names, name)
			return &expr{kind: kNotCode, name: name}
		}
		iv, ok := f["expr"]
		if !ok {
			return bad("no expr field")
		}
		r.names = append(r.names, name) // the action is numbered before its inner expression
		return &expr{kind: kAction, name: name, kids: []*expr{r.readExpr(iv)}}

	case "labeledExpr":
		lv, ok := f["label"]
		if !ok {
			return bad("no label field")
		}
		label, ok := stringLit(lv)
		if !ok {
			return bad("unreadable label")
		}
		x := wrap(kLabeled)
		if x.kind == kLabeled {
			x.name = label
		}
		return x

	case "ruleRefExpr":
		nv, ok := f["name"]
		if !ok {
			return bad("no name field")
		}
		name, ok := stringLit(nv)
		if !ok {
			return bad("unreadable name")
		}
		return &expr{kind: kRuleRef, name: name}

	case "litMatcher":
		vv, ok := f["val"]
		if !ok {
			return bad("no val field")
		}
		val, ok := stringLit(vv)
		if !ok {
			return bad("unreadable val")
		}
		x := &expr{kind: kLit, val: []rune(val)}
		if iv, ok := f["ignoreCase"]; ok {
			if x.ignoreCase, ok = boolLit(iv); !ok {
				return bad("unreadable ignoreCase")
			}
		}
		x.want, x.hasWant = wantField(r, f, "want")
		return x

	case "charClassMatcher":
		x := &expr{kind: kCharClass}
		if v, ok := f["chars"]; ok {
			if x.chars, ok = runeList(v); !ok {
				return bad("unreadable chars")
			}
		}
		if v, ok := f["ranges"]; ok {
			if x.ranges, ok = runeList(v); !ok {
				return bad("unreadable ranges")
			}
		}
		if v, ok := f["classes"]; ok {
			if x.classes, ok = classList(v); !ok {
				return bad("unreadable classes")
			}
		}
		if v, ok := f["ignoreCase"]; ok {
			if x.ignoreCase, ok = boolLit(v); !ok {
				return bad("unreadable ignoreCase")
			}
		}
		if v, ok := f["inverted"]; ok {
			if x.inverted, ok = boolLit(v); !ok {
				return bad("unreadable inverted")
			}
		}
		x.want, x.hasWant = wantField(r, f, "val")
		return x

	case "andExpr":
		return wrap(kAndP)
	case "notExpr":
		return wrap(kNotP)
	case "zeroOrOneExpr":
		return wrap(kZeroOrOne)
	case "zeroOrMoreExpr":
		return wrap(kZeroOrMore)
	case "oneOrMoreExpr":
		return wrap(kOneOrMore)

	case "recoveryExpr", "throwExpr", "stateCodeExpr":
		return unsupported("%s", typ)
	}
	return unsupported("grammar.go:%d: unknown node type %q", r.line(e), typ)
}
