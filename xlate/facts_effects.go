package main

// facts_effects.go: T4, the `effects` subcommand.
//
// A syntactic effect summary of the code of package bexpr that is reachable
// from (*Evaluator).Evaluate, (*Filter).Execute, CreateEvaluator and
// CreateFilter, emitted as BexprGen/Effects.lean.
//
// The call graph is computed by NAME only (no type information):
//   - an identifier that names a package-level function of the package is an
//     edge to it (this also covers function values such as `return doEqualBool`);
//   - a selector `x.m`, where x is not an imported package, is an edge to every
//     method named m declared in package bexpr and in grammar/ast.go;
//   - `grammar.F` is an edge to the package-level function F of grammar/ast.go.
// This over-approximates.  Functions of grammar/grammar.go (the parser) are
// not part of this summary.
//
// Every store site and every origin of an appended-to local carries a CLASS
// computed by a per-function freshness analysis (see freshness below), so that
// the Lean tie checks classes instead of comparing source text: rewriting a
// statement without changing where the written memory comes from keeps the
// class.  The analysis resolves names by NAME within one function and answers
// "shared" whenever it does not recognise a construct.

import (
	"go/ast"
	"go/build/constraint"
	"go/token"
	"os"
	"path/filepath"
	"sort"
	"strings"
)

var effectsSchema = []defSpec{
	{"reachable", "List String"},
	{"reachableFromEvaluate", "List String"},
	{"appendOrigins", "List (String × String × String × String)"}, // (function, variable, class, text)
	{"storeSites", "List (String × String × String × String)"},    // (function, kind, class, text)
	{"globals", "List (String × String)"},
	{"globalClasses", "List (String × String)"},
	{"evaluatorFields", "List String"},
	{"filterFields", "List String"},
	{"evaluateOptsBuilt", "List String"},
}

const astRel = "grammar/ast.go"

var effectsCmd = &factsCmd{
	name:    "effects",
	outFile: "Effects.lean",
	ns:      "BexprGen.Effects",
	schema:  effectsSchema,
	load:    loadEffects,
	extract: extractEffects,
}

func runEffects(args []string) int { return effectsCmd.run(args) }

// hasVerifConstraint reports whether the file header carries a build
// constraint that mentions the tag `verif`.  It works on the raw lines before
// the package clause, so it does not need the file to parse.
func hasVerifConstraint(src []byte) bool {
	for _, line := range strings.Split(string(src), "\n") {
		t := strings.TrimSpace(line)
		if strings.HasPrefix(t, "package ") || t == "package" {
			break
		}
		if !constraint.IsGoBuild(t) && !constraint.IsPlusBuild(t) {
			continue
		}
		x, err := constraint.Parse(t)
		if err != nil {
			continue
		}
		found := false
		var walk func(constraint.Expr)
		walk = func(e constraint.Expr) {
			switch e := e.(type) {
			case *constraint.TagExpr:
				if e.Tag == "verif" {
					found = true
				}
			case *constraint.NotExpr:
				walk(e.X)
			case *constraint.AndExpr:
				walk(e.X)
				walk(e.Y)
			case *constraint.OrExpr:
				walk(e.X)
				walk(e.Y)
			}
		}
		walk(x)
		if found {
			return true
		}
	}
	return false
}

// loadEffects loads <repo>/*.go (without _test.go files and files with a
// `verif` build constraint) and grammar/ast.go.
func loadEffects(repo string) ([]*srcFile, []string) {
	var fatal []string
	names, err := filepath.Glob(filepath.Join(repo, "*.go"))
	if err != nil {
		fatal = append(fatal, "cannot list "+repo+": "+err.Error())
	}
	sort.Strings(names)
	var out []*srcFile
	for _, p := range names {
		base := filepath.Base(p)
		if strings.HasSuffix(base, "_test.go") {
			continue
		}
		raw, err := os.ReadFile(p)
		if err == nil && hasVerifConstraint(raw) {
			continue
		}
		out = append(out, loadSrc(repo, base))
	}
	if len(out) == 0 {
		fatal = append(fatal, "no Go source files found in "+repo)
	}
	out = append(out, loadSrc(repo, astRel))
	return out, fatal
}

// importNames maps the local name of every import of a file to its path.
func importNames(f *ast.File) map[string]string {
	out := map[string]string{}
	for _, im := range f.Imports {
		path := strings.Trim(im.Path.Value, "\"`")
		name := path
		if i := strings.LastIndex(path, "/"); i >= 0 {
			name = path[i+1:]
		}
		if im.Name != nil {
			name = im.Name.Name
		}
		out[name] = path
	}
	return out
}

type effNode struct {
	fnDecl
	inAst bool // declared in grammar/ast.go
}

type effSite struct {
	pos   token.Pos
	seq   int
	kind  string
	class string // "local", "setter", "param-field" or "shared" (see storeSitesOf)
	text  string
}

func extractEffects(files map[string]*srcFile) (map[string]lval, []string) {
	vals := map[string]lval{}
	var notes []string

	var pkgFiles []*srcFile
	for _, sf := range files {
		if sf.rel != astRel {
			pkgFiles = append(pkgFiles, sf)
		}
	}
	sort.Slice(pkgFiles, func(i, j int) bool { return pkgFiles[i].rel < pkgFiles[j].rel })
	astFile := files[astRel]
	for _, sf := range pkgFiles {
		if sf.file.Name.Name != "bexpr" {
			notes = append(notes, sf.rel+" declares package "+sf.file.Name.Name+", not bexpr; it is included all the same")
		}
	}

	// ---- declarations
	var nodes []*effNode
	pkgFuncs := map[string][]*effNode{}   // package-level functions of bexpr by name
	pkgMethods := map[string][]*effNode{} // methods of bexpr by method name
	astFuncs := map[string][]*effNode{}
	astMethods := map[string][]*effNode{}
	byKey := map[string][]*effNode{}
	add := func(sf *srcFile, inAst bool) {
		for _, f := range funcsOf(sf) {
			n := &effNode{fnDecl: f, inAst: inAst}
			nodes = append(nodes, n)
			byKey[f.key] = append(byKey[f.key], n)
			isMethod := f.fd.Recv != nil
			switch {
			case inAst && isMethod:
				astMethods[f.fd.Name.Name] = append(astMethods[f.fd.Name.Name], n)
			case inAst:
				astFuncs[f.fd.Name.Name] = append(astFuncs[f.fd.Name.Name], n)
			case isMethod:
				pkgMethods[f.fd.Name.Name] = append(pkgMethods[f.fd.Name.Name], n)
			default:
				pkgFuncs[f.fd.Name.Name] = append(pkgFuncs[f.fd.Name.Name], n)
			}
		}
	}
	for _, sf := range pkgFiles {
		add(sf, false)
	}
	add(astFile, true)

	// ---- globals
	globalSet := map[string]bool{}
	var globals [][2]string
	var globalClasses [][2]string
	// classOfInit: what kind of value a package-level variable is initialised with — only values that the
	// code can read but has no way to mutate in place are given a class; everything else is "other:<text>"
	classOfInit := func(sf *srcFile, e ast.Expr) string {
		if e == nil {
			return "other:<no initialiser>"
		}
		switch x := unparen(e).(type) {
		case *ast.BasicLit:
			return "basic"
		case *ast.CallExpr:
			if pk, name, ok := pkgSel(x.Fun); ok {
				switch {
				case pk == "reflect" && name == "TypeOf":
					return "typeOf"
				case pk == "errors" && name == "New":
					return "errorsNew"
				}
			}
		case *ast.CompositeLit:
			if mt, ok := x.Type.(*ast.MapType); ok {
				if pk, name, ok := pkgSel(mt.Key); ok && pk == "reflect" && name == "Kind" {
					for _, el := range x.Elts {
						kv, ok := el.(*ast.KeyValueExpr)
						if !ok {
							return "other:" + sf.oneLine(e)
						}
						if _, isID := kv.Value.(*ast.Ident); !isID {
							return "other:" + sf.oneLine(e)
						}
					}
					return "kindFnTable"
				}
			}
		}
		return "other:" + sf.oneLine(e)
	}
	for _, sf := range pkgFiles {
		for _, d := range sf.file.Decls {
			gd, ok := d.(*ast.GenDecl)
			if !ok || gd.Tok != token.VAR {
				continue
			}
			for _, sp := range gd.Specs {
				vs, ok := sp.(*ast.ValueSpec)
				if !ok {
					continue
				}
				for i, n := range vs.Names {
					init := ""
					switch {
					case len(vs.Values) == len(vs.Names):
						init = sf.oneLine(vs.Values[i])
					case len(vs.Values) > 0:
						parts := make([]string, len(vs.Values))
						for j, v := range vs.Values {
							parts[j] = sf.oneLine(v)
						}
						init = strings.Join(parts, ", ")
					}
					if n.Name != "_" {
						globalSet[n.Name] = true
					}
					globals = append(globals, [2]string{n.Name, init})
					cls := "other:" + init
					if len(vs.Values) == len(vs.Names) {
						cls = classOfInit(sf, vs.Values[i])
					}
					globalClasses = append(globalClasses, [2]string{n.Name, cls})
				}
			}
		}
	}
	vals["globals"] = lPairs(globals)
	vals["globalClasses"] = lPairs(globalClasses)

	// ---- call graph by name
	edges := func(n *effNode) []*effNode {
		var out []*effNode
		if n.fd.Body == nil {
			return out
		}
		imports := importNames(n.sf.file)
		var visit func(ast.Node) bool
		visit = func(nd ast.Node) bool {
			switch x := nd.(type) {
			case *ast.SelectorExpr:
				if id, ok := x.X.(*ast.Ident); ok {
					if path, isImport := imports[id.Name]; isImport {
						if !n.inAst && (path == "github.com/hashicorp/go-bexpr/grammar" || strings.HasSuffix(path, "/grammar")) {
							out = append(out, astFuncs[x.Sel.Name]...)
						}
						return false
					}
				}
				if !n.inAst {
					out = append(out, pkgMethods[x.Sel.Name]...)
				}
				out = append(out, astMethods[x.Sel.Name]...)
				ast.Inspect(x.X, visit)
				return false
			case *ast.Ident:
				if n.inAst {
					out = append(out, astFuncs[x.Name]...)
				} else {
					out = append(out, pkgFuncs[x.Name]...)
				}
			}
			return true
		}
		ast.Inspect(n.fd.Body, visit)
		return out
	}
	reached := map[*effNode]bool{}
	var work []*effNode
	var reachable []string
	for _, root := range []string{"Evaluator.Evaluate", "Filter.Execute", "CreateEvaluator", "CreateFilter"} {
		found := false
		for _, n := range byKey[root] {
			if !n.inAst {
				found = true
				if !reached[n] {
					reached[n] = true
					work = append(work, n)
				}
			}
		}
		if !found {
			reachable = append(reachable, unk("root "+root+" not found in package bexpr"))
		}
	}
	for len(work) > 0 {
		n := work[len(work)-1]
		work = work[:len(work)-1]
		for _, m := range edges(n) {
			if !reached[m] {
				reached[m] = true
				work = append(work, m)
			}
		}
	}
	var rnodes []*effNode
	for _, n := range nodes { // source order, made deterministic by the sort below
		if reached[n] {
			rnodes = append(rnodes, n)
		}
	}
	sort.SliceStable(rnodes, func(i, j int) bool { return rnodes[i].key < rnodes[j].key })
	for _, n := range rnodes {
		reachable = append(reachable, n.key)
	}
	sort.Strings(reachable)
	vals["reachable"] = lStrs(reachable)

	// ---- reachable from the evaluation entry points only (Evaluate / Execute)
	reachedE := map[*effNode]bool{}
	var workE []*effNode
	for _, root := range []string{"Evaluator.Evaluate", "Filter.Execute"} {
		for _, n := range byKey[root] {
			if !n.inAst && !reachedE[n] {
				reachedE[n] = true
				workE = append(workE, n)
			}
		}
	}
	for len(workE) > 0 {
		n := workE[len(workE)-1]
		workE = workE[:len(workE)-1]
		for _, m := range edges(n) {
			if !reachedE[m] {
				reachedE[m] = true
				workE = append(workE, m)
			}
		}
	}
	var fromEval []string
	for _, n := range nodes {
		if reachedE[n] {
			fromEval = append(fromEval, n.key)
		}
	}
	sort.Strings(fromEval)
	vals["reachableFromEvaluate"] = lStrs(fromEval)

	// ---- package-level names (they shadow the builtins and are never locals)
	pkgScope, astScope := packageScope(pkgFiles), packageScope([]*srcFile{astFile})
	scopeOf := func(n *effNode) map[string]bool {
		if n.inAst {
			return astScope
		}
		return pkgScope
	}

	// ---- where the slices that are appended to come from: every value received by a local
	// identifier that is the first argument of an append call in a reachable function, with
	// its class: "fresh", "parameter" or "shared"
	var origins [][4]string
	var sites [][4]string
	for _, n := range rnodes {
		if n.fd.Body == nil {
			continue
		}
		fr := analyseFreshness(n.sf, n.fd, scopeOf(n), importNames(n.sf.file))
		targets := map[string]bool{}
		ast.Inspect(n.fd.Body, func(x ast.Node) bool {
			if c, ok := x.(*ast.CallExpr); ok {
				if id, ok := c.Fun.(*ast.Ident); ok && id.Name == "append" && len(c.Args) > 0 {
					if a, ok := c.Args[0].(*ast.Ident); ok {
						targets[a.Name] = true
					}
				}
			}
			return true
		})
		seen := map[string]bool{}
		for _, o := range fr.origins {
			k := o.name + "\x00" + o.text
			if !targets[o.name] || seen[k] {
				continue
			}
			if o.how == "method" && fr.fresh[o.name] {
				continue // a method call that does not matter (all values are reflect.Values)
			}
			seen[k] = true
			origins = append(origins, [4]string{n.key, o.name, fr.originClass(o), o.text})
		}
		// ---- store sites
		for _, s := range storeSitesOf(n, globalSet, fr) {
			sites = append(sites, [4]string{n.key, s.kind, s.class, s.text})
		}
	}
	// as before: grouped by function in key order, in source order within a function
	vals["appendOrigins"] = lQuads(origins)
	vals["storeSites"] = lQuads(sites)

	// ---- struct fields
	for _, t := range [][2]string{{"evaluatorFields", "Evaluator"}, {"filterFields", "Filter"}} {
		names := []string{}
		found := false
		for _, sf := range pkgFiles {
			fs, ok := structFields(sf, t[1])
			if !ok {
				continue
			}
			found = true
			for _, f := range fs {
				names = append(names, f[0])
			}
			break
		}
		if !found {
			names = append(names, unk("struct type "+t[1]+" not found"))
		}
		vals[t[0]] = lStrs(names)
	}

	// ---- evaluateOptsBuilt
	var evalFn *fnDecl
	for _, n := range byKey["Evaluator.Evaluate"] {
		if !n.inAst {
			evalFn = &n.fnDecl
			break
		}
	}
	vals["evaluateOptsBuilt"] = lStrs(evaluateOptsBuilt(evalFn))
	return vals, notes
}

// isWithCall recognises `WithXxx(...)`.
func isWithCall(e ast.Expr) bool {
	call, ok := e.(*ast.CallExpr)
	if !ok {
		return false
	}
	id, ok := call.Fun.(*ast.Ident)
	return ok && strings.HasPrefix(id.Name, "With")
}

// optsAppend recognises `opts = append(opts, a, b, ...)` and returns the
// appended expressions.
func optsAppend(st ast.Stmt) ([]ast.Expr, bool) {
	as, ok := st.(*ast.AssignStmt)
	if !ok || as.Tok != token.ASSIGN || len(as.Lhs) != 1 || len(as.Rhs) != 1 || !isIdent(as.Lhs[0], "opts") {
		return nil, false
	}
	call, ok := as.Rhs[0].(*ast.CallExpr)
	if !ok || !isIdent(call.Fun, "append") || call.Ellipsis.IsValid() || len(call.Args) < 2 || !isIdent(call.Args[0], "opts") {
		return nil, false
	}
	return call.Args[1:], true
}

// evaluateOptsBuilt lists how (*Evaluator).Evaluate builds `opts`: the options
// of the slice literal and of the appends, in source order (a conditional
// append is listed with its condition); every other statement except the final
// `return evaluate(<ast>, <datum>, opts...)` is listed as unknown.
func evaluateOptsBuilt(f *fnDecl) []string {
	if f == nil || f.fd.Body == nil {
		return []string{unk("method Evaluator.Evaluate not found")}
	}
	sf := f.sf
	out := []string{}
	withOrUnknown := func(prefix string, e ast.Expr) {
		if isWithCall(e) {
			out = append(out, prefix+sf.oneLine(e))
		} else {
			out = append(out, unk(prefix+sf.oneLine(e)))
		}
	}
	stmts := f.fd.Body.List
	for i, st := range stmts {
		// opts := []Option{ ... }   or   opts := make([]Option, 0)   or   opts := make([]Option, 0, n)
		if as, ok := st.(*ast.AssignStmt); ok && as.Tok == token.DEFINE && len(as.Lhs) == 1 && len(as.Rhs) == 1 && isIdent(as.Lhs[0], "opts") {
			if cl, ok := as.Rhs[0].(*ast.CompositeLit); ok && sameStrings(sf.toks(cl.Type), []string{"[", "]", "Option"}) {
				for _, el := range cl.Elts {
					withOrUnknown("", el)
				}
				continue
			}
			if call, ok := as.Rhs[0].(*ast.CallExpr); ok && isIdent(call.Fun, "make") && !call.Ellipsis.IsValid() &&
				(len(call.Args) == 2 || len(call.Args) == 3) && sameStrings(sf.toks(call.Args[0]), []string{"[", "]", "Option"}) &&
				sameStrings(sf.toks(call.Args[1]), []string{"0"}) {
				continue // an empty slice: contributes no option (the capacity does not matter)
			}
		}
		// opts = append(opts, WithX(...))
		if args, ok := optsAppend(st); ok {
			for _, a := range args {
				withOrUnknown("", a)
			}
			continue
		}
		// if cond { opts = append(opts, WithX(...)) }
		if is, ok := st.(*ast.IfStmt); ok && is.Init == nil && is.Else == nil && len(is.Body.List) == 1 {
			if args, ok := optsAppend(is.Body.List[0]); ok {
				for _, a := range args {
					withOrUnknown("if "+sf.oneLine(is.Cond)+": ", a)
				}
				continue
			}
		}
		// return evaluate(<ast>, <datum>, opts...)
		if i == len(stmts)-1 {
			if r := singleReturn([]ast.Stmt{st}, 1); r != nil {
				if call, ok := r.Results[0].(*ast.CallExpr); ok && isIdent(call.Fun, "evaluate") && call.Ellipsis.IsValid() &&
					len(call.Args) == 3 && isIdent(call.Args[2], "opts") {
					continue
				}
			}
		}
		out = append(out, unk(sf.oneLine(st)))
	}
	return out
}

// ---------------------------------------------------------------------------
// freshness
//
// A local variable is FRESH when every value it ever holds was allocated by
// the running call of the function itself: memory no other call can reach.
// A write into (or an append to) what a fresh variable holds is call-local.
//
// The analysis is per function and resolves identifiers by NAME: every
// declaration and assignment of a name anywhere in the function (function
// literals included) counts for that name, so a name that is declared twice is
// fresh only if both variables are.  It is a greatest fixpoint (`x = append(x,
// ...)` keeps x fresh when all other values of x are): start with every name
// that has only candidate origins and remove names until nothing changes.
//
// Never fresh: receivers, parameters and results (of the declaration and of
// every function literal or function type in it), range variables, names that
// are also declared at package level, a variable whose address is taken
// (`&v`: somebody else can then assign it), the left-hand side of a
// multi-value or op= assignment, and a variable that is the receiver of a
// method call (`v.M()` may be `(&v).M()`), unless all its values come from
// package reflect (reflect.Value has value receivers only).

// origin is one way a name gets a value.
type origin struct {
	name string
	how  string   // "value" (expr is assigned), "zero" (`var v T`), "parameter", "method" (receiver of a call) or "other"
	expr ast.Expr // how == "value": the assigned expression
	text string   // reported text
	typ  ast.Expr // how == "parameter": the declared type
	lit  bool     // how == "parameter": of a function literal or function type, not of the declaration itself
}

type freshness struct {
	sf       *srcFile
	origins  []origin            // walk (= source) order
	byName   map[string][]origin // the same, per name
	declared map[string]bool     // names declared in the function (an origin other than "method")
	scope    map[string]bool     // package-level names
	imports  map[string]string   // local import name -> path
	fresh    map[string]bool     // the result
}

// packageScope is the set of names declared at package level in the given files.
func packageScope(sfs []*srcFile) map[string]bool {
	out := map[string]bool{}
	for _, sf := range sfs {
		if sf == nil || sf.file == nil {
			continue
		}
		for _, d := range sf.file.Decls {
			switch x := d.(type) {
			case *ast.FuncDecl:
				if x.Recv == nil {
					out[x.Name.Name] = true
				}
			case *ast.GenDecl:
				for _, sp := range x.Specs {
					switch y := sp.(type) {
					case *ast.ValueSpec:
						for _, n := range y.Names {
							out[n.Name] = true
						}
					case *ast.TypeSpec:
						out[y.Name.Name] = true
					}
				}
			}
		}
	}
	return out
}

func analyseFreshness(sf *srcFile, fd *ast.FuncDecl, scope map[string]bool, imports map[string]string) *freshness {
	fr := &freshness{sf: sf, byName: map[string][]origin{}, declared: map[string]bool{}, scope: scope, imports: imports, fresh: map[string]bool{}}
	add := func(o origin) {
		if o.name == "_" {
			return
		}
		fr.origins = append(fr.origins, o)
		fr.byName[o.name] = append(fr.byName[o.name], o)
		if o.how != "method" {
			fr.declared[o.name] = true
		}
	}
	fields := func(fl *ast.FieldList, how, text string, lit bool) {
		if fl == nil {
			return
		}
		for _, f := range fl.List {
			for _, nm := range f.Names {
				add(origin{name: nm.Name, how: how, text: text, typ: f.Type, lit: lit})
			}
		}
	}
	fields(fd.Recv, "other", "<receiver>", false)
	ast.Inspect(fd, func(nd ast.Node) bool {
		switch x := nd.(type) {
		case *ast.FuncType:
			fields(x.Params, "parameter", "<parameter>", x != fd.Type)
			fields(x.Results, "other", "<result>", false)
		case *ast.AssignStmt:
			for i, l := range x.Lhs {
				id, ok := unparen(l).(*ast.Ident)
				if !ok {
					continue
				}
				switch {
				case (x.Tok == token.DEFINE || x.Tok == token.ASSIGN) && len(x.Lhs) == len(x.Rhs):
					add(origin{name: id.Name, how: "value", expr: x.Rhs[i], text: sf.oneLine(x.Rhs[i])})
				default: // multi-value right-hand side, or op=
					add(origin{name: id.Name, how: "other", text: sf.oneLine(x)})
				}
			}
		case *ast.IncDecStmt:
			if id, ok := unparen(x.X).(*ast.Ident); ok {
				add(origin{name: id.Name, how: "other", text: sf.oneLine(x)})
			}
		case *ast.RangeStmt:
			for _, l := range []ast.Expr{x.Key, x.Value} {
				if l == nil {
					continue
				}
				if id, ok := unparen(l).(*ast.Ident); ok {
					add(origin{name: id.Name, how: "other", text: "<range variable>"})
				}
			}
		case *ast.DeclStmt:
			gd, ok := x.Decl.(*ast.GenDecl)
			if !ok {
				return true
			}
			for _, sp := range gd.Specs {
				if ts, ok := sp.(*ast.TypeSpec); ok {
					add(origin{name: ts.Name.Name, how: "other", text: "<local type>"})
				}
				vs, ok := sp.(*ast.ValueSpec)
				if !ok {
					continue
				}
				for i, nm := range vs.Names {
					switch {
					case gd.Tok != token.VAR:
						add(origin{name: nm.Name, how: "other", text: "<local constant>"})
					case len(vs.Values) == 0:
						add(origin{name: nm.Name, how: "zero", text: "var " + sf.oneLine(vs)})
					case len(vs.Values) == len(vs.Names):
						add(origin{name: nm.Name, how: "value", expr: vs.Values[i], text: sf.oneLine(vs.Values[i])})
					default:
						add(origin{name: nm.Name, how: "other", text: "var " + sf.oneLine(vs)})
					}
				}
			}
		case *ast.UnaryExpr:
			if x.Op == token.AND {
				if id, ok := unparen(x.X).(*ast.Ident); ok {
					add(origin{name: id.Name, how: "other", text: "<address taken> " + sf.oneLine(x)})
				}
			}
		case *ast.CallExpr:
			if sel, ok := unparen(x.Fun).(*ast.SelectorExpr); ok {
				if id, ok := unparen(sel.X).(*ast.Ident); ok {
					add(origin{name: id.Name, how: "method", text: "<receiver of a call> " + sf.oneLine(x.Fun)})
				}
			}
		}
		return true
	})

	// greatest fixpoint
	for name, os := range fr.byName {
		fr.fresh[name] = !scope[name] && fr.declared[name] && len(os) > 0
	}
	for changed := true; changed; {
		changed = false
		for name, os := range fr.byName {
			if !fr.fresh[name] {
				continue
			}
			ok, method, allReflect := true, false, true
			for _, o := range os {
				switch o.how {
				case "zero":
					allReflect = false
				case "value":
					if !fr.freshExpr(o.expr) {
						ok = false
					}
					if !fr.isReflectCall(o.expr) {
						allReflect = false
					}
				case "method":
					method = true
				default:
					ok = false
				}
			}
			if !ok || (method && !allReflect) {
				fr.fresh[name] = false
				changed = true
			}
		}
	}
	return fr
}

// builtin reports whether e is the predeclared identifier `name` (not
// redeclared in the function or at package level).
func (fr *freshness) builtin(e ast.Expr, name string) bool {
	return isIdent(e, name) && !fr.declared[name] && !fr.scope[name]
}

// reflectFn recognises `reflect.F` (the imported package "reflect") and returns F.
func (fr *freshness) reflectFn(e ast.Expr) (string, bool) {
	p, name, ok := pkgSel(unparen(e))
	if !ok || fr.imports[p] != "reflect" || fr.declared[p] {
		return "", false
	}
	return name, true
}

func (fr *freshness) isReflectCall(e ast.Expr) bool {
	call, ok := unparen(e).(*ast.CallExpr)
	if !ok {
		return false
	}
	_, ok = fr.reflectFn(call.Fun)
	return ok
}

// freshLocal: e is an identifier naming a (currently) fresh local.
func (fr *freshness) freshLocal(e ast.Expr) bool {
	id, ok := unparen(e).(*ast.Ident)
	return ok && fr.fresh[id.Name]
}

// freshExpr: the value of e is allocated by the evaluation of e itself, or is
// what a fresh local holds.
//
//	nil, []T(nil), make(...), new(T), T{...}, &T{...}, a fresh local,
//	append(F, ...) with F one of these,
//	reflect.MakeSlice / MakeMap / MakeMapWithSize / New (...),
//	reflect.Append / AppendSlice (F, ...) with F a fresh local.
func (fr *freshness) freshExpr(e ast.Expr) bool {
	e = unparen(e)
	switch x := e.(type) {
	case *ast.Ident:
		return fr.builtin(x, "nil") || fr.fresh[x.Name]
	case *ast.CompositeLit:
		return true
	case *ast.UnaryExpr:
		_, isLit := unparen(x.X).(*ast.CompositeLit)
		return x.Op == token.AND && isLit
	case *ast.CallExpr:
		switch {
		case fr.builtin(x.Fun, "make") || fr.builtin(x.Fun, "new"):
			return true
		case fr.builtin(x.Fun, "append"):
			return len(x.Args) > 0 && fr.freshExpr(x.Args[0])
		}
		if at, ok := unparen(x.Fun).(*ast.ArrayType); ok && at.Len == nil {
			return len(x.Args) == 1 && fr.builtin(unparen(x.Args[0]), "nil") // []T(nil)
		}
		if name, ok := fr.reflectFn(x.Fun); ok {
			switch name {
			case "MakeSlice", "MakeMap", "MakeMapWithSize", "New":
				return true
			case "Append", "AppendSlice":
				return len(x.Args) > 0 && fr.freshLocal(x.Args[0])
			}
		}
	}
	return false
}

// originClass: "fresh", "parameter" or "shared".
func (fr *freshness) originClass(o origin) string {
	switch {
	case o.how == "parameter":
		return "parameter"
	case o.how == "zero", o.how == "value" && fr.freshExpr(o.expr):
		return "fresh"
	}
	return "shared"
}

// setterParam: name is declared exactly once in the function, as the one
// parameter `name *options` of a function literal (the shape of the Option
// setters of options.go), and is never assigned.
func (fr *freshness) setterParam(name string) bool {
	os := fr.byName[name]
	if len(os) != 1 || os[0].how != "parameter" || !os[0].lit || fr.scope[name] {
		return false
	}
	st, ok := os[0].typ.(*ast.StarExpr)
	return ok && isIdent(st.X, "options")
}

// valueParam: name is declared exactly once in the function, as a parameter of
// the declaration itself whose type is a type name (T or pkg.T, no pointer,
// slice, map, ...), and is never assigned as a whole: for a struct type T the
// callee owns a copy, and `name.f = e` writes that copy.  (Method calls on it
// do not matter: they act on the copy, too.)
func (fr *freshness) valueParam(name string) bool {
	var decl []origin
	for _, o := range fr.byName[name] {
		if o.how != "method" {
			decl = append(decl, o)
		}
	}
	if len(decl) != 1 || decl[0].how != "parameter" || decl[0].lit {
		return false
	}
	if _, ok := decl[0].typ.(*ast.Ident); ok {
		return true
	}
	_, _, ok := pkgSel(decl[0].typ)
	return ok
}

// ---------------------------------------------------------------------------
// store sites

var lockMethods = map[string]bool{"Lock": true, "Unlock": true, "RLock": true, "RUnlock": true, "TryLock": true, "TryRLock": true}

func isReflectMutator(name string) bool {
	switch name {
	case "Append", "AppendSlice", "Copy", "Grow", "Clear":
		return true
	}
	return strings.HasPrefix(name, "Set")
}

// isFreshSliceArg: nil, []T(nil), []T{}, make(...).
func isFreshSliceArg(e ast.Expr) bool {
	e = unparen(e)
	if isIdent(e, "nil") {
		return true
	}
	isSliceType := func(t ast.Expr) bool {
		at, ok := unparen(t).(*ast.ArrayType)
		return ok && at.Len == nil
	}
	switch x := e.(type) {
	case *ast.CallExpr:
		if isIdent(x.Fun, "make") {
			return true
		}
		if isSliceType(x.Fun) && len(x.Args) == 1 && isIdent(unparen(x.Args[0]), "nil") {
			return true
		}
	case *ast.CompositeLit:
		if x.Type != nil && isSliceType(x.Type) && len(x.Elts) == 0 {
			return true
		}
	}
	return false
}

// storeSitesOf lists the statements of a function that can write memory other
// than the function's own variables, each with a kind and a class:
//
//	"local"        the written memory belongs to a fresh local (see freshness):
//	               `append(x, ...)`, `x.f = e`, `x[i] = e`, `copy/delete/clear(x, ...)`,
//	               `reflect.Append(x, ...)`, `x.SetMapIndex(...)` with x a fresh local;
//	"setter"       `o.f = e` / `append(o.f, ...)` with o the `*options` parameter of a
//	               function literal (an Option setter writing the struct it is applied to);
//	"param-field"  `p.f = e` with p a by-value parameter of a named type;
//	"shared"       everything else, in particular every target that is reached through
//	               more than one selector / index step, writes to package-level variables,
//	               through pointers, goroutines, channels and package sync.
func storeSitesOf(n *effNode, globals map[string]bool, fr *freshness) []effSite {
	fd, sf := n.fd, n.sf
	if fd.Body == nil {
		return nil
	}
	// locals: receiver, parameters, results (of the function and of every
	// function literal / function type inside it), := and var declarations.
	locals := map[string]bool{}
	sliceParams := map[string]bool{}
	addFields := func(fl *ast.FieldList, params bool) {
		if fl == nil {
			return
		}
		for _, f := range fl.List {
			for _, nm := range f.Names {
				locals[nm.Name] = true
				if params {
					switch t := f.Type.(type) {
					case *ast.ArrayType:
						if t.Len == nil {
							sliceParams[nm.Name] = true
						}
					case *ast.Ellipsis:
						sliceParams[nm.Name] = true
					}
				}
			}
		}
	}
	addFields(fd.Recv, false)
	ast.Inspect(fd, func(nd ast.Node) bool {
		switch x := nd.(type) {
		case *ast.FuncType:
			addFields(x.Params, true)
			addFields(x.Results, false)
		case *ast.AssignStmt:
			if x.Tok == token.DEFINE {
				for _, l := range x.Lhs {
					if id, ok := l.(*ast.Ident); ok {
						locals[id.Name] = true
					}
				}
			}
		case *ast.RangeStmt:
			if x.Tok == token.DEFINE {
				for _, l := range []ast.Expr{x.Key, x.Value} {
					if id, ok := l.(*ast.Ident); ok {
						locals[id.Name] = true
					}
				}
			}
		case *ast.DeclStmt:
			if gd, ok := x.Decl.(*ast.GenDecl); ok && gd.Tok == token.VAR {
				for _, sp := range gd.Specs {
					if vs, ok := sp.(*ast.ValueSpec); ok {
						for _, nm := range vs.Names {
							locals[nm.Name] = true
						}
					}
				}
			}
		}
		return true
	})

	var sites []effSite
	reportAs := func(pos token.Pos, kind, class, text string) {
		sites = append(sites, effSite{pos: pos, seq: len(sites), kind: kind, class: class, text: text})
	}
	report := func(pos token.Pos, kind, text string) { reportAs(pos, kind, "shared", text) }
	// localIf: "local" if e is an identifier naming a fresh local
	localIf := func(e ast.Expr) string {
		if fr.freshLocal(e) {
			return "local"
		}
		return "shared"
	}
	// oneStep classifies the target `x.f` / `x[i]` (x is what is selected from / indexed)
	oneStep := func(x ast.Expr, field bool) string {
		id, ok := unparen(x).(*ast.Ident)
		switch {
		case !ok:
			return "shared"
		case fr.fresh[id.Name]:
			return "local"
		case field && fr.setterParam(id.Name):
			return "setter"
		case field && fr.valueParam(id.Name):
			return "param-field"
		}
		return "shared"
	}
	// lhs classifies one assigned-to expression.
	lhs := func(e ast.Expr, st ast.Stmt, opAssign bool) {
		e = unparen(e)
		switch x := e.(type) {
		case *ast.Ident:
			switch {
			case x.Name == "_":
			case globals[x.Name]:
				report(st.Pos(), "assign-global", sf.oneLine(st))
			case locals[x.Name]:
				if opAssign && sliceParams[x.Name] {
					report(st.Pos(), "assign-param-slice", sf.oneLine(st))
				}
			default:
				report(st.Pos(), unk("assignment to an identifier that is neither a local nor a package-level variable"), sf.oneLine(st))
			}
		case *ast.SelectorExpr:
			reportAs(st.Pos(), "assign-field", oneStep(x.X, true), sf.oneLine(st))
		case *ast.IndexExpr:
			reportAs(st.Pos(), "assign-index", oneStep(x.X, false), sf.oneLine(st))
		case *ast.StarExpr:
			report(st.Pos(), "assign-deref", sf.oneLine(st))
		default:
			report(st.Pos(), unk("assignment target"), sf.oneLine(st))
		}
	}

	// innermost enclosing statement (for go / chan / sync reports)
	var stack []ast.Node
	enclosing := func() ast.Node {
		for i := len(stack) - 1; i >= 0; i-- {
			switch s := stack[i].(type) {
			case *ast.BlockStmt, *ast.CaseClause, *ast.CommClause:
				continue
			case ast.Stmt:
				return s
			}
		}
		if len(stack) > 0 {
			return stack[len(stack)-1]
		}
		return fd
	}
	ast.Inspect(fd.Body, func(nd ast.Node) bool {
		if nd == nil {
			stack = stack[:len(stack)-1]
			return true
		}
		stack = append(stack, nd)
		switch x := nd.(type) {
		case *ast.AssignStmt:
			if x.Tok != token.DEFINE {
				for _, l := range x.Lhs {
					lhs(l, x, x.Tok != token.ASSIGN)
				}
			}
		case *ast.IncDecStmt:
			lhs(x.X, x, true)
		case *ast.RangeStmt:
			if x.Tok == token.ASSIGN {
				for _, l := range []ast.Expr{x.Key, x.Value} {
					if l != nil {
						lhs(l, x, false)
					}
				}
			}
		case *ast.GoStmt:
			report(x.Pos(), "go", sf.oneLine(x))
		case *ast.SendStmt:
			report(x.Pos(), "chan", sf.oneLine(x))
		case *ast.UnaryExpr:
			if x.Op == token.ARROW {
				report(x.Pos(), "chan", sf.oneLine(enclosing()))
			}
		case *ast.SelectStmt:
			report(x.Pos(), "chan", sf.oneLine(x))
		case *ast.SelectorExpr:
			if id, ok := x.X.(*ast.Ident); ok && (id.Name == "sync" || id.Name == "atomic") {
				report(x.Pos(), "sync", sf.oneLine(enclosing()))
			}
		case *ast.CallExpr:
			switch fun := unparen(x.Fun).(type) {
			case *ast.Ident:
				switch fun.Name {
				case "append":
					switch {
					case len(x.Args) == 0:
						report(x.Pos(), "append", sf.oneLine(x))
					case isFreshSliceArg(x.Args[0]):
						// appending to nil / a literal / make(...) allocates: not a store site
					default:
						class := localIf(x.Args[0])
						if s, ok := unparen(x.Args[0]).(*ast.SelectorExpr); ok && oneStep(s.X, true) == "setter" {
							class = "setter"
						}
						reportAs(x.Pos(), "append", class, sf.oneLine(x))
					}
				case "delete", "copy", "clear":
					class := "shared"
					if len(x.Args) > 0 {
						class = localIf(x.Args[0])
					}
					reportAs(x.Pos(), "builtin-mutator", class, sf.oneLine(x))
				case "close":
					report(x.Pos(), "chan", sf.oneLine(x))
				}
			case *ast.SelectorExpr:
				if isReflectMutator(fun.Sel.Name) {
					// the mutated operand: the first argument of reflect.Append /
					// AppendSlice / Copy, the receiver of a method (v.Set..., v.Grow, ...)
					class := localIf(fun.X)
					if _, ok := fr.reflectFn(fun); ok {
						class = "shared"
						if len(x.Args) > 0 {
							class = localIf(x.Args[0])
						}
					}
					reportAs(x.Pos(), "reflect-mutator", class, sf.oneLine(x))
				}
				if lockMethods[fun.Sel.Name] {
					report(x.Pos(), "sync", sf.oneLine(x))
				}
			}
		}
		return true
	})
	sort.SliceStable(sites, func(i, j int) bool {
		if sites[i].pos != sites[j].pos {
			return sites[i].pos < sites[j].pos
		}
		return sites[i].seq < sites[j].seq
	})
	return sites
}
