package main

// facts_effects.go: T4, the `effects` subcommand.
//
// A syntactic effect summary of the code of package bexpr that is reachable
// from (*Evaluator).Evaluate, (*Filter).Execute, CreateEvaluator and
// CreateFilter, emitted as BexprGen/Effects.lean.
//
// The call graph is computed by NAME only (no type information):
//   - an identifier that names a package-level function of the package is an
//     edge to it (this also covers function values such as `return doEqualBool`);
//   - a selector `x.m`, where x is not an imported package, is an edge to every
//     method named m declared in package bexpr and in grammar/ast.go;
//   - `grammar.F` is an edge to the package-level function F of grammar/ast.go.
// This over-approximates.  Functions of grammar/grammar.go (the parser) are
// not part of this summary.

import (
	"go/ast"
	"go/build/constraint"
	"go/token"
	"os"
	"path/filepath"
	"sort"
	"strings"
)

var effectsSchema = []defSpec{
	{"reachable", "List String"},
	{"reachableFromEvaluate", "List String"},
	{"appendOrigins", "List (String × String × String)"},
	{"storeSites", "List (String × String × String)"},
	{"globals", "List (String × String)"},
	{"evaluatorFields", "List String"},
	{"filterFields", "List String"},
	{"evaluateOptsBuilt", "List String"},
}

const astRel = "grammar/ast.go"

var effectsCmd = &factsCmd{
	name:    "effects",
	outFile: "Effects.lean",
	ns:      "BexprGen.Effects",
	schema:  effectsSchema,
	load:    loadEffects,
	extract: extractEffects,
}

func runEffects(args []string) int { return effectsCmd.run(args) }

// hasVerifConstraint reports whether the file header carries a build
// constraint that mentions the tag `verif`.  It works on the raw lines before
// the package clause, so it does not need the file to parse.
func hasVerifConstraint(src []byte) bool {
	for _, line := range strings.Split(string(src), "\n") {
		t := strings.TrimSpace(line)
		if strings.HasPrefix(t, "package ") || t == "package" {
			break
		}
		if !constraint.IsGoBuild(t) && !constraint.IsPlusBuild(t) {
			continue
		}
		x, err := constraint.Parse(t)
		if err != nil {
			continue
		}
		found := false
		var walk func(constraint.Expr)
		walk = func(e constraint.Expr) {
			switch e := e.(type) {
			case *constraint.TagExpr:
				if e.Tag == "verif" {
					found = true
				}
			case *constraint.NotExpr:
				walk(e.X)
			case *constraint.AndExpr:
				walk(e.X)
				walk(e.Y)
			case *constraint.OrExpr:
				walk(e.X)
				walk(e.Y)
			}
		}
		walk(x)
		if found {
			return true
		}
	}
	return false
}

// loadEffects loads <repo>/*.go (without _test.go files and files with a
// `verif` build constraint) and grammar/ast.go.
func loadEffects(repo string) ([]*srcFile, []string) {
	var fatal []string
	names, err := filepath.Glob(filepath.Join(repo, "*.go"))
	if err != nil {
		fatal = append(fatal, "cannot list "+repo+": "+err.Error())
	}
	sort.Strings(names)
	var out []*srcFile
	for _, p := range names {
		base := filepath.Base(p)
		if strings.HasSuffix(base, "_test.go") {
			continue
		}
		raw, err := os.ReadFile(p)
		if err == nil && hasVerifConstraint(raw) {
			continue
		}
		out = append(out, loadSrc(repo, base))
	}
	if len(out) == 0 {
		fatal = append(fatal, "no Go source files found in "+repo)
	}
	out = append(out, loadSrc(repo, astRel))
	return out, fatal
}

// importNames maps the local name of every import of a file to its path.
func importNames(f *ast.File) map[string]string {
	out := map[string]string{}
	for _, im := range f.Imports {
		path := strings.Trim(im.Path.Value, "\"`")
		name := path
		if i := strings.LastIndex(path, "/"); i >= 0 {
			name = path[i+1:]
		}
		if im.Name != nil {
			name = im.Name.Name
		}
		out[name] = path
	}
	return out
}

type effNode struct {
	fnDecl
	inAst bool // declared in grammar/ast.go
}

type effSite struct {
	pos  token.Pos
	seq  int
	kind string
	text string
}

func extractEffects(files map[string]*srcFile) (map[string]lval, []string) {
	vals := map[string]lval{}
	var notes []string

	var pkgFiles []*srcFile
	for _, sf := range files {
		if sf.rel != astRel {
			pkgFiles = append(pkgFiles, sf)
		}
	}
	sort.Slice(pkgFiles, func(i, j int) bool { return pkgFiles[i].rel < pkgFiles[j].rel })
	astFile := files[astRel]
	for _, sf := range pkgFiles {
		if sf.file.Name.Name != "bexpr" {
			notes = append(notes, sf.rel+" declares package "+sf.file.Name.Name+", not bexpr; it is included all the same")
		}
	}

	// ---- declarations
	var nodes []*effNode
	pkgFuncs := map[string][]*effNode{}   // package-level functions of bexpr by name
	pkgMethods := map[string][]*effNode{} // methods of bexpr by method name
	astFuncs := map[string][]*effNode{}
	astMethods := map[string][]*effNode{}
	byKey := map[string][]*effNode{}
	add := func(sf *srcFile, inAst bool) {
		for _, f := range funcsOf(sf) {
			n := &effNode{fnDecl: f, inAst: inAst}
			nodes = append(nodes, n)
			byKey[f.key] = append(byKey[f.key], n)
			isMethod := f.fd.Recv != nil
			switch {
			case inAst && isMethod:
				astMethods[f.fd.Name.Name] = append(astMethods[f.fd.Name.Name], n)
			case inAst:
				astFuncs[f.fd.Name.Name] = append(astFuncs[f.fd.Name.Name], n)
			case isMethod:
				pkgMethods[f.fd.Name.Name] = append(pkgMethods[f.fd.Name.Name], n)
			default:
				pkgFuncs[f.fd.Name.Name] = append(pkgFuncs[f.fd.Name.Name], n)
			}
		}
	}
	for _, sf := range pkgFiles {
		add(sf, false)
	}
	add(astFile, true)

	// ---- globals
	globalSet := map[string]bool{}
	var globals [][2]string
	for _, sf := range pkgFiles {
		for _, d := range sf.file.Decls {
			gd, ok := d.(*ast.GenDecl)
			if !ok || gd.Tok != token.VAR {
				continue
			}
			for _, sp := range gd.Specs {
				vs, ok := sp.(*ast.ValueSpec)
				if !ok {
					continue
				}
				for i, n := range vs.Names {
					init := ""
					switch {
					case len(vs.Values) == len(vs.Names):
						init = sf.oneLine(vs.Values[i])
					case len(vs.Values) > 0:
						parts := make([]string, len(vs.Values))
						for j, v := range vs.Values {
							parts[j] = sf.oneLine(v)
						}
						init = strings.Join(parts, ", ")
					}
					if n.Name != "_" {
						globalSet[n.Name] = true
					}
					globals = append(globals, [2]string{n.Name, init})
				}
			}
		}
	}
	vals["globals"] = lPairs(globals)

	// ---- call graph by name
	edges := func(n *effNode) []*effNode {
		var out []*effNode
		if n.fd.Body == nil {
			return out
		}
		imports := importNames(n.sf.file)
		var visit func(ast.Node) bool
		visit = func(nd ast.Node) bool {
			switch x := nd.(type) {
			case *ast.SelectorExpr:
				if id, ok := x.X.(*ast.Ident); ok {
					if path, isImport := imports[id.Name]; isImport {
						if !n.inAst && (path == "github.com/hashicorp/go-bexpr/grammar" || strings.HasSuffix(path, "/grammar")) {
							out = append(out, astFuncs[x.Sel.Name]...)
						}
						return false
					}
				}
				if !n.inAst {
					out = append(out, pkgMethods[x.Sel.Name]...)
				}
				out = append(out, astMethods[x.Sel.Name]...)
				ast.Inspect(x.X, visit)
				return false
			case *ast.Ident:
				if n.inAst {
					out = append(out, astFuncs[x.Name]...)
				} else {
					out = append(out, pkgFuncs[x.Name]...)
				}
			}
			return true
		}
		ast.Inspect(n.fd.Body, visit)
		return out
	}
	reached := map[*effNode]bool{}
	var work []*effNode
	var reachable []string
	for _, root := range []string{"Evaluator.Evaluate", "Filter.Execute", "CreateEvaluator", "CreateFilter"} {
		found := false
		for _, n := range byKey[root] {
			if !n.inAst {
				found = true
				if !reached[n] {
					reached[n] = true
					work = append(work, n)
				}
			}
		}
		if !found {
			reachable = append(reachable, unk("root "+root+" not found in package bexpr"))
		}
	}
	for len(work) > 0 {
		n := work[len(work)-1]
		work = work[:len(work)-1]
		for _, m := range edges(n) {
			if !reached[m] {
				reached[m] = true
				work = append(work, m)
			}
		}
	}
	var rnodes []*effNode
	for _, n := range nodes { // source order, made deterministic by the sort below
		if reached[n] {
			rnodes = append(rnodes, n)
		}
	}
	sort.SliceStable(rnodes, func(i, j int) bool { return rnodes[i].key < rnodes[j].key })
	for _, n := range rnodes {
		reachable = append(reachable, n.key)
	}
	sort.Strings(reachable)
	vals["reachable"] = lStrs(reachable)

	// ---- reachable from the evaluation entry points only (Evaluate / Execute)
	reachedE := map[*effNode]bool{}
	var workE []*effNode
	for _, root := range []string{"Evaluator.Evaluate", "Filter.Execute"} {
		for _, n := range byKey[root] {
			if !n.inAst && !reachedE[n] {
				reachedE[n] = true
				workE = append(workE, n)
			}
		}
	}
	for len(workE) > 0 {
		n := workE[len(workE)-1]
		workE = workE[:len(workE)-1]
		for _, m := range edges(n) {
			if !reachedE[m] {
				reachedE[m] = true
				workE = append(workE, m)
			}
		}
	}
	var fromEval []string
	for _, n := range nodes {
		if reachedE[n] {
			fromEval = append(fromEval, n.key)
		}
	}
	sort.Strings(fromEval)
	vals["reachableFromEvaluate"] = lStrs(fromEval)

	// ---- where the slices that are appended to come from: every right-hand side assigned to a
	// local identifier that is the first argument of an append call in a reachable function
	var origins [][3]string
	for _, n := range rnodes {
		targets := map[string]bool{}
		ast.Inspect(n.fd.Body, func(x ast.Node) bool {
			if c, ok := x.(*ast.CallExpr); ok {
				if id, ok := c.Fun.(*ast.Ident); ok && id.Name == "append" && len(c.Args) > 0 {
					if a, ok := c.Args[0].(*ast.Ident); ok {
						targets[a.Name] = true
					}
				}
			}
			return true
		})
		seen := map[string]bool{}
		ast.Inspect(n.fd.Body, func(x ast.Node) bool {
			as, ok := x.(*ast.AssignStmt)
			if !ok {
				return true
			}
			for i, l := range as.Lhs {
				id, ok := l.(*ast.Ident)
				if !ok || !targets[id.Name] || i >= len(as.Rhs) {
					continue
				}
				txt := n.sf.oneLine(as.Rhs[i])
				k := id.Name + "\x00" + txt
				if !seen[k] {
					seen[k] = true
					origins = append(origins, [3]string{n.key, id.Name, txt})
				}
			}
			return true
		})
		// parameters that are appended to are reported as such
		if n.fd.Type.Params != nil {
			for _, f := range n.fd.Type.Params.List {
				for _, nm := range f.Names {
					if targets[nm.Name] {
						origins = append(origins, [3]string{n.key, nm.Name, "<parameter>"})
					}
				}
			}
		}
	}
	vals["appendOrigins"] = lTriples(origins)

	// ---- store sites
	var sites [][3]string
	for _, n := range rnodes {
		for _, s := range storeSitesOf(n, globalSet) {
			sites = append(sites, [3]string{n.key, s.kind, s.text})
		}
	}
	vals["storeSites"] = lTriples(sites)

	// ---- struct fields
	for _, t := range [][2]string{{"evaluatorFields", "Evaluator"}, {"filterFields", "Filter"}} {
		names := []string{}
		found := false
		for _, sf := range pkgFiles {
			fs, ok := structFields(sf, t[1])
			if !ok {
				continue
			}
			found = true
			for _, f := range fs {
				names = append(names, f[0])
			}
			break
		}
		if !found {
			names = append(names, unk("struct type "+t[1]+" not found"))
		}
		vals[t[0]] = lStrs(names)
	}

	// ---- evaluateOptsBuilt
	var evalFn *fnDecl
	for _, n := range byKey["Evaluator.Evaluate"] {
		if !n.inAst {
			evalFn = &n.fnDecl
			break
		}
	}
	vals["evaluateOptsBuilt"] = lStrs(evaluateOptsBuilt(evalFn))
	return vals, notes
}

// isWithCall recognises `WithXxx(...)`.
func isWithCall(e ast.Expr) bool {
	call, ok := e.(*ast.CallExpr)
	if !ok {
		return false
	}
	id, ok := call.Fun.(*ast.Ident)
	return ok && strings.HasPrefix(id.Name, "With")
}

// optsAppend recognises `opts = append(opts, a, b, ...)` and returns the
// appended expressions.
func optsAppend(st ast.Stmt) ([]ast.Expr, bool) {
	as, ok := st.(*ast.AssignStmt)
	if !ok || as.Tok != token.ASSIGN || len(as.Lhs) != 1 || len(as.Rhs) != 1 || !isIdent(as.Lhs[0], "opts") {
		return nil, false
	}
	call, ok := as.Rhs[0].(*ast.CallExpr)
	if !ok || !isIdent(call.Fun, "append") || call.Ellipsis.IsValid() || len(call.Args) < 2 || !isIdent(call.Args[0], "opts") {
		return nil, false
	}
	return call.Args[1:], true
}

// evaluateOptsBuilt lists how (*Evaluator).Evaluate builds `opts`.
func evaluateOptsBuilt(f *fnDecl) []string {
	if f == nil || f.fd.Body == nil {
		return []string{unk("method Evaluator.Evaluate not found")}
	}
	sf := f.sf
	out := []string{}
	withOrUnknown := func(prefix string, e ast.Expr) {
		if isWithCall(e) {
			out = append(out, prefix+sf.oneLine(e))
		} else {
			out = append(out, unk(prefix+sf.oneLine(e)))
		}
	}
	stmts := f.fd.Body.List
	for i, st := range stmts {
		// opts := []Option{ ... }
		if as, ok := st.(*ast.AssignStmt); ok && as.Tok == token.DEFINE && len(as.Lhs) == 1 && len(as.Rhs) == 1 && isIdent(as.Lhs[0], "opts") {
			if cl, ok := as.Rhs[0].(*ast.CompositeLit); ok && sameStrings(sf.toks(cl.Type), []string{"[", "]", "Option"}) {
				for _, el := range cl.Elts {
					withOrUnknown("", el)
				}
				continue
			}
		}
		// opts = append(opts, WithX(...))
		if args, ok := optsAppend(st); ok {
			for _, a := range args {
				withOrUnknown("", a)
			}
			continue
		}
		// if cond { opts = append(opts, WithX(...)) }
		if is, ok := st.(*ast.IfStmt); ok && is.Init == nil && is.Else == nil && len(is.Body.List) == 1 {
			if args, ok := optsAppend(is.Body.List[0]); ok {
				for _, a := range args {
					withOrUnknown("if "+sf.oneLine(is.Cond)+": ", a)
				}
				continue
			}
		}
		// return evaluate(<ast>, <datum>, opts...)
		if i == len(stmts)-1 {
			if r := singleReturn([]ast.Stmt{st}, 1); r != nil {
				if call, ok := r.Results[0].(*ast.CallExpr); ok && isIdent(call.Fun, "evaluate") && call.Ellipsis.IsValid() &&
					len(call.Args) == 3 && isIdent(call.Args[2], "opts") {
					continue
				}
			}
		}
		out = append(out, unk(sf.oneLine(st)))
	}
	return out
}

// ---------------------------------------------------------------------------
// store sites

var lockMethods = map[string]bool{"Lock": true, "Unlock": true, "RLock": true, "RUnlock": true, "TryLock": true, "TryRLock": true}

func isReflectMutator(name string) bool {
	switch name {
	case "Append", "AppendSlice", "Copy", "Grow", "Clear":
		return true
	}
	return strings.HasPrefix(name, "Set")
}

// isFreshSliceArg: nil, []T(nil), []T{}, make(...).
func isFreshSliceArg(e ast.Expr) bool {
	e = unparen(e)
	if isIdent(e, "nil") {
		return true
	}
	isSliceType := func(t ast.Expr) bool {
		at, ok := unparen(t).(*ast.ArrayType)
		return ok && at.Len == nil
	}
	switch x := e.(type) {
	case *ast.CallExpr:
		if isIdent(x.Fun, "make") {
			return true
		}
		if isSliceType(x.Fun) && len(x.Args) == 1 && isIdent(unparen(x.Args[0]), "nil") {
			return true
		}
	case *ast.CompositeLit:
		if x.Type != nil && isSliceType(x.Type) && len(x.Elts) == 0 {
			return true
		}
	}
	return false
}

func storeSitesOf(n *effNode, globals map[string]bool) []effSite {
	fd, sf := n.fd, n.sf
	if fd.Body == nil {
		return nil
	}
	// locals: receiver, parameters, results (of the function and of every
	// function literal / function type inside it), := and var declarations.
	locals := map[string]bool{}
	sliceParams := map[string]bool{}
	addFields := func(fl *ast.FieldList, params bool) {
		if fl == nil {
			return
		}
		for _, f := range fl.List {
			for _, nm := range f.Names {
				locals[nm.Name] = true
				if params {
					switch t := f.Type.(type) {
					case *ast.ArrayType:
						if t.Len == nil {
							sliceParams[nm.Name] = true
						}
					case *ast.Ellipsis:
						sliceParams[nm.Name] = true
					}
				}
			}
		}
	}
	addFields(fd.Recv, false)
	ast.Inspect(fd, func(nd ast.Node) bool {
		switch x := nd.(type) {
		case *ast.FuncType:
			addFields(x.Params, true)
			addFields(x.Results, false)
		case *ast.AssignStmt:
			if x.Tok == token.DEFINE {
				for _, l := range x.Lhs {
					if id, ok := l.(*ast.Ident); ok {
						locals[id.Name] = true
					}
				}
			}
		case *ast.RangeStmt:
			if x.Tok == token.DEFINE {
				for _, l := range []ast.Expr{x.Key, x.Value} {
					if id, ok := l.(*ast.Ident); ok {
						locals[id.Name] = true
					}
				}
			}
		case *ast.DeclStmt:
			if gd, ok := x.Decl.(*ast.GenDecl); ok && gd.Tok == token.VAR {
				for _, sp := range gd.Specs {
					if vs, ok := sp.(*ast.ValueSpec); ok {
						for _, nm := range vs.Names {
							locals[nm.Name] = true
						}
					}
				}
			}
		}
		return true
	})

	var sites []effSite
	report := func(pos token.Pos, kind, text string) {
		sites = append(sites, effSite{pos: pos, seq: len(sites), kind: kind, text: text})
	}
	// lhs classifies one assigned-to expression.
	lhs := func(e ast.Expr, st ast.Stmt, opAssign bool) {
		e = unparen(e)
		switch x := e.(type) {
		case *ast.Ident:
			switch {
			case x.Name == "_":
			case globals[x.Name]:
				report(st.Pos(), "assign-global", sf.oneLine(st))
			case locals[x.Name]:
				if opAssign && sliceParams[x.Name] {
					report(st.Pos(), "assign-param-slice", sf.oneLine(st))
				}
			default:
				report(st.Pos(), unk("assignment to an identifier that is neither a local nor a package-level variable"), sf.oneLine(st))
			}
		case *ast.SelectorExpr:
			report(st.Pos(), "assign-field", sf.oneLine(st))
		case *ast.IndexExpr:
			report(st.Pos(), "assign-index", sf.oneLine(st))
		case *ast.StarExpr:
			report(st.Pos(), "assign-deref", sf.oneLine(st))
		default:
			report(st.Pos(), unk("assignment target"), sf.oneLine(st))
		}
	}

	// innermost enclosing statement (for go / chan / sync reports)
	var stack []ast.Node
	enclosing := func() ast.Node {
		for i := len(stack) - 1; i >= 0; i-- {
			switch s := stack[i].(type) {
			case *ast.BlockStmt, *ast.CaseClause, *ast.CommClause:
				continue
			case ast.Stmt:
				return s
			}
		}
		if len(stack) > 0 {
			return stack[len(stack)-1]
		}
		return fd
	}
	ast.Inspect(fd.Body, func(nd ast.Node) bool {
		if nd == nil {
			stack = stack[:len(stack)-1]
			return true
		}
		stack = append(stack, nd)
		switch x := nd.(type) {
		case *ast.AssignStmt:
			if x.Tok != token.DEFINE {
				for _, l := range x.Lhs {
					lhs(l, x, x.Tok != token.ASSIGN)
				}
			}
		case *ast.IncDecStmt:
			lhs(x.X, x, true)
		case *ast.RangeStmt:
			if x.Tok == token.ASSIGN {
				for _, l := range []ast.Expr{x.Key, x.Value} {
					if l != nil {
						lhs(l, x, false)
					}
				}
			}
		case *ast.GoStmt:
			report(x.Pos(), "go", sf.oneLine(x))
		case *ast.SendStmt:
			report(x.Pos(), "chan", sf.oneLine(x))
		case *ast.UnaryExpr:
			if x.Op == token.ARROW {
				report(x.Pos(), "chan", sf.oneLine(enclosing()))
			}
		case *ast.SelectStmt:
			report(x.Pos(), "chan", sf.oneLine(x))
		case *ast.SelectorExpr:
			if id, ok := x.X.(*ast.Ident); ok && (id.Name == "sync" || id.Name == "atomic") {
				report(x.Pos(), "sync", sf.oneLine(enclosing()))
			}
		case *ast.CallExpr:
			switch fun := unparen(x.Fun).(type) {
			case *ast.Ident:
				switch fun.Name {
				case "append":
					if len(x.Args) == 0 || !isFreshSliceArg(x.Args[0]) {
						report(x.Pos(), "append", sf.oneLine(x))
					}
				case "delete", "copy", "clear":
					report(x.Pos(), "builtin-mutator", sf.oneLine(x))
				case "close":
					report(x.Pos(), "chan", sf.oneLine(x))
				}
			case *ast.SelectorExpr:
				if isReflectMutator(fun.Sel.Name) {
					report(x.Pos(), "reflect-mutator", sf.oneLine(x))
				}
				if lockMethods[fun.Sel.Name] {
					report(x.Pos(), "sync", sf.oneLine(x))
				}
			}
		}
		return true
	})
	sort.SliceStable(sites, func(i, j int) bool {
		if sites[i].pos != sites[j].pos {
			return sites[i].pos < sites[j].pos
		}
		return sites[i].seq < sites[j].seq
	})
	return sites
}
