// Command xlate translates parts of the hashicorp/go-bexpr source tree into
// Lean 4 data for the verification framework under /verif/lean.
//
// Usage:
//
//	xlate <subcommand> [flags]
//
// Subcommands register themselves in the `subcommands` table below.  Every
// subcommand re-reads its source files on every invocation and never caches.
package main

import (
	"fmt"
	"os"
	"sort"
)

// subcommand is one translator.  run receives the arguments after the
// subcommand name and returns the process exit code.
type subcommand struct {
	name  string
	short string
	run   func(args []string) int
}

// subcommands is the dispatch table.  Add new translators here.
var subcommands = []subcommand{
	{
		name:  "grammar",
		short: "translate grammar/grammar.go (T1) and grammar/grammar.peg (T2) to Lean PEG tables",
		run:   runGrammar,
	},
	{
		name:  "tables",
		short: "extract dispatch tables, operator tables and function token lists (T3) to BexprGen/Tables.lean",
		run:   runTables,
	},
	{
		name:  "effects",
		short: "extract the syntactic effect summary of the evaluator (T4) to BexprGen/Effects.lean",
		run:   runEffects,
	},
	{
		name:  "options",
		short: "extract option setters, defaults and parser budget plumbing (T5) to BexprGen/Options.lean",
		run:   runOptions,
	},
}

// `all` is registered at init time: runAll walks the table above, so naming it
// in the table's own initialiser would be an initialisation cycle.
func init() {
	subcommands = append(subcommands, subcommand{
		name:  "all",
		short: "run grammar, tables, effects, options, failnames, golite in sequence (exit code = max)",
		run:   runAll,
	})
	subcommands = append(subcommands, subcommand{
		name:  "locals",
		short: "print the names every library function declares (pins/locals.json)",
		run:   runLocals,
	})
	subcommands = append(subcommands, subcommand{
		name:  "funcs",
		short: "print the normalised text of every unexported package-level function (pins/funcs.json)",
		run:   runFuncs,
	})
}

func usage() {
	fmt.Fprintf(os.Stderr, "usage: xlate <subcommand> [flags]\n\nsubcommands:\n")
	cmds := append([]subcommand(nil), subcommands...)
	sort.Slice(cmds, func(i, j int) bool { return cmds[i].name < cmds[j].name })
	for _, c := range cmds {
		fmt.Fprintf(os.Stderr, "  %-10s %s\n", c.name, c.short)
	}
}

func main() {
	if len(os.Args) < 2 {
		usage()
		os.Exit(64)
	}
	name := os.Args[1]
	loadPinnedLocals()
	loadPinnedFuncs()
	if name == "-h" || name == "-help" || name == "--help" || name == "help" {
		usage()
		return
	}
	for _, c := range subcommands {
		if c.name == name {
			os.Exit(c.run(os.Args[2:]))
		}
	}
	fmt.Fprintf(os.Stderr, "xlate: unknown subcommand %q\n", name)
	usage()
	os.Exit(64)
}
