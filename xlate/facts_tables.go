package main

// facts_tables.go: T3, the `tables` subcommand.
//
// Reads evaluate.go, coerce.go, options.go, bexpr.go, filter.go and
// grammar/ast.go and emits BexprGen/Tables.lean: the dispatch tables of the
// evaluator (kind -> equality function, kind -> coercion, operator -> matcher),
// the operator name tables of the AST, and the token lists of every function
// body.  Purely syntactic; see facts_common.go for the conventions.

import (
	"go/ast"
	"go/token"
	"strconv"
	"strings"
)

var tablesFiles = []string{"evaluate.go", "coerce.go", "options.go", "bexpr.go", "filter.go", "grammar/ast.go"}

var tablesSchema = []defSpec{
	{"eqFnTable", "List (String × String)"},
	{"coerceTable", "List (String × String)"},
	{"coerceNilValueGuard", "Bool"},
	{"eqFnBodies", "List (String × List String)"},
	{"strconvCalls", "List (String × String × List String)"},
	{"coerceBodies", "List (String × List String)"},
	{"matchDispatch", "List (String × String × String)"},
	{"notPresent", "List (String × Bool)"},
	{"matchOpStrings", "List (String × String)"},
	{"unaryOpStrings", "List (String × String)"},
	{"binaryOpStrings", "List (String × String)"},
	{"bindModeStrings", "List (String × String)"},
	{"collOpStrings", "List (String × String)"},
	{"matchOpOrder", "List String"},
	{"unaryOpOrder", "List String"},
	{"binaryOpOrder", "List String"},
	{"dumpPrintsValue", "List String"},
	{"dumpFormats", "List (String × String)"},
	{"dumpTemplates", "List (String × List String)"},
	{"evaluateBranches", "List (String × List String)"},
	{"funcTokens", "List (String × List String)"},
	{"funcFiles", "List (String × String)"},
	{"selectorString", "List String"},
	{"notPresentGuard", "List String"},
	{"getValueBody", "List String"},
}

var tablesCmd = &factsCmd{
	name:    "tables",
	outFile: "Tables.lean",
	ns:      "BexprGen.Tables",
	schema:  tablesSchema,
	load:    loadFixedPlusRoot(tablesFiles...),
	extract: extractTables,
}

func runTables(args []string) int { return tablesCmd.run(args) }

func extractTables(files map[string]*srcFile) (map[string]lval, []string) {
	ev, co, as := files["evaluate.go"], files["coerce.go"], files["grammar/ast.go"]
	pkg := rootFiles(files, "evaluate.go", "coerce.go", "options.go", "bexpr.go", "filter.go")
	vals := map[string]lval{}
	kindTablePkg = pkg

	// a. eqFnTable
	eqTable, _ := kindTable(findFn("primitiveEqualityFn", pkg...), "primitiveEqualityFn", false, returnsIdent, func(sf *srcFile, body []ast.Stmt) string {
		if r := singleReturn(body, 1); r != nil {
			return sf.oneLine(r.Results[0])
		}
		return unk(sf.stmtsOneLine(body))
	})
	vals["eqFnTable"] = lPairs(eqTable)

	// b. coerceTable
	coTable, guard := kindTable(findFn("getMatchExprValue", pkg...), "getMatchExprValue", true, returnsCoerceCall, func(sf *srcFile, body []ast.Stmt) string {
		if len(body) == 1 && sameStrings(sf.toks(body[0]), []string{"return", "expression", ".", "Value", ".", "Raw", ",", "nil"}) {
			return "raw"
		}
		return unk(sf.stmtsOneLine(body))
	})
	vals["coerceTable"] = lPairs(coTable)
	vals["coerceNilValueGuard"] = lBool(guard)

	// c. eqFnBodies: every function named in (a), first occurrence order
	var eqBodies []keyedToks
	seen := map[string]bool{}
	for _, p := range eqTable {
		name := p[1]
		if p[0] == "default" || strings.HasPrefix(name, "unknown:") || seen[name] {
			continue
		}
		seen[name] = true
		eqBodies = append(eqBodies, keyedToks{name, fnBodyToks(name, pkg...)})
	}
	vals["eqFnBodies"] = lKeyed(eqBodies)

	// d. strconvCalls, coerceBodies
	var scalls lList
	var cbodies []keyedToks
	for _, f := range funcsOf(co) {
		cbodies = append(cbodies, keyedToks{f.key, f.sf.bodyToks(f.fd.Body)})
		n := 0
		if f.fd.Body != nil {
			ast.Inspect(f.fd.Body, func(nd ast.Node) bool {
				call, ok := nd.(*ast.CallExpr)
				if !ok {
					return true
				}
				if p, name, ok := pkgSel(call.Fun); ok && p == "strconv" {
					args := make([]string, len(call.Args))
					for i, a := range call.Args {
						args[i] = f.sf.oneLine(a)
						// a named package-level constant stands for its value
						if id, ok := a.(*ast.Ident); ok {
							if v, ok := pkgLevelValue(f.sf, id.Name).(*ast.BasicLit); ok {
								args[i] = v.Value
							}
						}
					}
					if call.Ellipsis.IsValid() {
						args = append(args, "...")
					}
					scalls = append(scalls, lTup{lStr(f.key), lStr(name), lStrs(args)})
					n++
				}
				return true
			})
		}
		if n == 0 {
			scalls = append(scalls, lTup{lStr(f.key), lStr(unk("no strconv call in " + f.key)), lStrs(nil)})
		}
	}
	if scalls == nil {
		scalls = lList{}
	}
	vals["strconvCalls"] = scalls
	vals["coerceBodies"] = lKeyed(cbodies)

	// e. matchDispatch
	vals["matchDispatch"] = lTriples(matchDispatch(findFn("evaluateMatchExpression", pkg...), pkg))

	// f. notPresent
	var np lList
	for _, e := range opSwitch(findFn("MatchOperator.NotPresentDisposition", as), "MatchOperator.NotPresentDisposition") {
		b, isBool := false, false
		if e.ret != nil {
			b, isBool = boolLit(e.ret)
		}
		switch {
		case e.bad != "":
			np = append(np, lTup{lStr(e.bad), lBool(false)})
		case !isBool:
			np = append(np, lTup{lStr(unk(e.key + ": " + e.text)), lBool(false)})
		default:
			np = append(np, lTup{lStr(e.key), lBool(b)})
		}
	}
	vals["notPresent"] = orEmpty(np)

	// g. operator strings and orders
	for _, t := range [][2]string{{"matchOpStrings", "MatchOperator"}, {"unaryOpStrings", "UnaryOperator"}, {"binaryOpStrings", "BinaryOperator"}} {
		var ps [][2]string
		if tab, ok := opNameTable(findFn(t[1]+".String", as), as); ok {
			// the same function written as a lookup in a keyed name table
			vals[t[0]] = lPairs(tab)
			continue
		}
		for _, e := range opSwitch(findFn(t[1]+".String", as), t[1]+".String") {
			switch {
			case e.bad != "":
				ps = append(ps, [2]string{e.bad, e.bad})
			default:
				s, ok := "", false
				if e.ret != nil {
					s, ok = stringLit(e.ret)
				}
				if !ok {
					s = unk(e.text)
				}
				ps = append(ps, [2]string{e.key, s})
			}
		}
		vals[t[0]] = lPairs(ps)
	}
	consts := constsOf(as)
	for _, t := range [][2]string{{"bindModeStrings", "CollectionBindMode"}, {"collOpStrings", "CollectionOperator"}} {
		var ps [][2]string
		for _, c := range consts {
			if c.typ != t[1] {
				continue
			}
			s, ok := "", false
			if c.val != nil {
				s, ok = stringLit(c.val)
			}
			if !ok {
				s = unk(as.oneLine(c.spec))
			}
			ps = append(ps, [2]string{c.name, s})
		}
		vals[t[0]] = lPairs(ps)
	}
	for _, t := range [][2]string{{"matchOpOrder", "MatchOperator"}, {"unaryOpOrder", "UnaryOperator"}, {"binaryOpOrder", "BinaryOperator"}} {
		var names []string
		for _, c := range consts {
			if c.typ != t[1] {
				continue
			}
			if c.val != nil && isIdent(c.val, "iota") && c.iota == len(names) && c.single {
				names = append(names, c.name)
			} else {
				names = append(names, unk(c.name+" (iota "+strconv.Itoa(c.iota)+"): "+as.oneLine(c.spec)))
			}
		}
		vals[t[0]] = lStrs(names)
	}

	// h. dumpPrintsValue, dumpFormats, dumpTemplates (the raw format strings are
	// informational; the tie pins the templates computed from them, facts_dump.go)
	vals["dumpPrintsValue"] = lStrs(dumpPrintsValue(findFn("MatchExpression.ExpressionDump", as)))
	var formats [][2]string
	for _, f := range funcsOf(as) {
		if f.fd.Name.Name != "ExpressionDump" && f.key != "CollectionNameBinding.String" {
			continue
		}
		if f.fd.Body == nil {
			formats = append(formats, [2]string{recvBase(f.fd), unk("no body")})
			continue
		}
		ast.Inspect(f.fd.Body, func(nd ast.Node) bool {
			call, ok := nd.(*ast.CallExpr)
			if !ok {
				return true
			}
			p, name, ok := pkgSel(call.Fun)
			if !ok || p != "fmt" {
				return true
			}
			idx := -1
			switch name {
			case "Fprintf":
				idx = 1
			case "Sprintf":
				idx = 0
			}
			if idx < 0 || idx >= len(call.Args) {
				formats = append(formats, [2]string{recvBase(f.fd), unk(f.sf.oneLine(call))})
				return true
			}
			if s, ok := stringLit(call.Args[idx]); ok {
				formats = append(formats, [2]string{recvBase(f.fd), s})
			} else {
				formats = append(formats, [2]string{recvBase(f.fd), unk(f.sf.oneLine(call))})
			}
			return true
		})
	}
	vals["dumpFormats"] = lPairs(formats)
	var templates []keyedToks
	for _, f := range funcsOf(as) {
		if f.fd.Name.Name == "ExpressionDump" && f.fd.Recv != nil {
			f := f
			templates = append(templates, dumpTemplates(&f)...)
		}
	}
	vals["dumpTemplates"] = lKeyed(templates)

	// i. evaluateBranches
	vals["evaluateBranches"] = lKeyed(evaluateBranches(findFn("evaluate", pkg...)))

	// j. funcTokens, funcFiles
	var ftoks []keyedToks
	var ffiles [][2]string
	for _, rel := range tablesFiles {
		for _, f := range funcsOf(files[rel]) {
			ftoks = append(ftoks, keyedToks{f.key, f.sf.bodyToks(f.fd.Body)})
			ffiles = append(ffiles, [2]string{f.key, rel})
		}
	}
	vals["funcTokens"] = lKeyed(ftoks)
	vals["funcFiles"] = lPairs(ffiles)

	// k, l
	vals["selectorString"] = lStrs(fnBodyToks("Selector.String", as))
	vals["notPresentGuard"] = lStrs(fnBodyToks("evaluateNotPresent", ev))
	vals["getValueBody"] = lStrs(fnBodyToks("getValue", ev))
	return vals, nil
}

func orEmpty(l lList) lList {
	if l == nil {
		return lList{}
	}
	return l
}

// singleReturn recognises a body that is exactly one return statement with n
// results.
func singleReturn(body []ast.Stmt, n int) *ast.ReturnStmt {
	if len(body) != 1 {
		return nil
	}
	r, ok := body[0].(*ast.ReturnStmt)
	if !ok || len(r.Results) != n {
		return nil
	}
	return r
}

// returnsIdent: `return f` -> "f".
func returnsIdent(sf *srcFile, body []ast.Stmt) string {
	if r := singleReturn(body, 1); r != nil {
		if id, ok := r.Results[0].(*ast.Ident); ok {
			return id.Name
		}
	}
	return unk(sf.stmtsOneLine(body))
}

// returnsCoerceCall: `return F(expression.Value.Raw)` -> "F".
func returnsCoerceCall(sf *srcFile, body []ast.Stmt) string {
	if r := singleReturn(body, 1); r != nil {
		if call, ok := r.Results[0].(*ast.CallExpr); ok && len(call.Args) == 1 && !call.Ellipsis.IsValid() {
			if id, ok := call.Fun.(*ast.Ident); ok && sameStrings(sf.toks(call.Args[0]), []string{"expression", ".", "Value", ".", "Raw"}) {
				return id.Name
			}
		}
	}
	return unk(sf.stmtsOneLine(body))
}

var nilValueGuardToks = []string{"if", "expression", ".", "Value", "==", "nil", "{", "return", "nil", ",", "nil", "}"}

// kindTable reads a function whose body is (an optional nil-Value guard and)
// one `switch <reflect.Kind parameter> { case reflect.X, ...: <body> }`.
// kindTablePkg: the files in which a package-level table (`var t = map[reflect.Kind]T{…}`) that a kind
// function merely indexes is looked up
var kindTablePkg []*srcFile

// kindMapTable reads `return t[kind]` where t is a package-level map literal keyed by reflect kinds whose
// values are plain identifiers: one row per key, and the zero value (nil) as the default row.
func kindMapTable(f *fnDecl, stmts []ast.Stmt, kindParams map[string]bool) ([][2]string, bool) {
	if len(stmts) != 1 {
		return nil, false
	}
	ret, ok := stmts[0].(*ast.ReturnStmt)
	if !ok || len(ret.Results) != 1 {
		return nil, false
	}
	ix, ok := ret.Results[0].(*ast.IndexExpr)
	if !ok {
		return nil, false
	}
	tab, ok1 := ix.X.(*ast.Ident)
	key, ok2 := ix.Index.(*ast.Ident)
	if !ok1 || !ok2 || !kindParams[key.Name] {
		return nil, false
	}
	for _, sf := range kindTablePkg {
		if sf == nil || sf.file == nil {
			continue
		}
		for _, d := range sf.file.Decls {
			gd, ok := d.(*ast.GenDecl)
			if !ok || gd.Tok != token.VAR {
				continue
			}
			for _, sp := range gd.Specs {
				vs, ok := sp.(*ast.ValueSpec)
				if !ok || len(vs.Names) != 1 || vs.Names[0].Name != tab.Name || len(vs.Values) != 1 {
					continue
				}
				cl, ok := vs.Values[0].(*ast.CompositeLit)
				if !ok {
					return nil, false
				}
				mt, ok := cl.Type.(*ast.MapType)
				if !ok {
					return nil, false
				}
				if pk, name, ok := pkgSel(mt.Key); !ok || pk != "reflect" || name != "Kind" {
					return nil, false
				}
				var out [][2]string
				for _, el := range cl.Elts {
					kv, ok := el.(*ast.KeyValueExpr)
					if !ok {
						return nil, false
					}
					pk, name, ok := pkgSel(kv.Key)
					id, isID := kv.Value.(*ast.Ident)
					if !ok || pk != "reflect" || !isID {
						return nil, false
					}
					out = append(out, [2]string{name, id.Name})
				}
				return append(out, [2]string{"default", "nil"}), true
			}
		}
	}
	return nil, false
}

func kindTable(f *fnDecl, fname string, allowGuard bool, caseVal, defVal func(*srcFile, []ast.Stmt) string) (out [][2]string, guard bool) {
	if f == nil || f.fd.Body == nil {
		return [][2]string{{"unknown:missing", unk("func " + fname + " not found")}}, false
	}
	sf := f.sf
	kindParams := map[string]bool{}
	if f.fd.Type.Params != nil {
		for _, p := range f.fd.Type.Params.List {
			if pk, name, ok := pkgSel(p.Type); ok && pk == "reflect" && name == "Kind" {
				for _, n := range p.Names {
					kindParams[n.Name] = true
				}
			}
		}
	}
	stmts := f.fd.Body.List
	if allowGuard && len(stmts) > 0 && sameStrings(sf.toks(stmts[0]), nilValueGuardToks) {
		guard = true
		stmts = stmts[1:]
	}
	if rows, ok := kindMapTable(f, stmts, kindParams); ok {
		return rows, guard
	}
	seen := false
	for _, st := range stmts {
		sw, ok := st.(*ast.SwitchStmt)
		tagOK := false
		if ok && sw.Init == nil && sw.Tag != nil {
			if id, isID := sw.Tag.(*ast.Ident); isID && kindParams[id.Name] {
				tagOK = true
			}
		}
		if !ok || seen || !tagOK {
			out = append(out, [2]string{"unknown:stmt", unk(sf.oneLine(st))})
			continue
		}
		seen = true
		for _, c := range sw.Body.List {
			cc, ok := c.(*ast.CaseClause)
			if !ok {
				out = append(out, [2]string{"unknown:clause", unk(sf.oneLine(c))})
				continue
			}
			if cc.List == nil {
				out = append(out, [2]string{"default", defVal(sf, cc.Body)})
				continue
			}
			v := caseVal(sf, cc.Body)
			for _, e := range cc.List {
				k := unk(sf.oneLine(e))
				if pk, name, ok := pkgSel(e); ok && pk == "reflect" {
					k = name
				}
				out = append(out, [2]string{k, v})
			}
		}
	}
	if !seen {
		out = append(out, [2]string{"unknown:missing", unk("no switch over a reflect.Kind parameter in " + fname)})
	}
	return out, guard
}

// opEntry is one (constant, returned expression) row of a switch over the
// receiver of an operator method.
type opEntry struct {
	key  string   // constant name or "default"
	ret  ast.Expr // the single returned expression; nil if the body has another shape
	text string   // text of the clause body
	bad  string   // non-empty: "unknown:..." description of an unrecognised construct
}

// opSwitch reads a method whose body is exactly `switch <receiver> { case C: return e ... }`.
func opSwitch(f *fnDecl, fname string) []opEntry {
	if f == nil || f.fd.Body == nil {
		return []opEntry{{bad: unk("method " + fname + " not found")}}
	}
	sf := f.sf
	recv := recvName(f.fd)
	var out []opEntry
	seen := false
	for _, st := range f.fd.Body.List {
		sw, ok := st.(*ast.SwitchStmt)
		if !ok || seen || sw.Init != nil || sw.Tag == nil || recv == "" || !isIdent(sw.Tag, recv) {
			out = append(out, opEntry{bad: unk(sf.oneLine(st))})
			continue
		}
		seen = true
		for _, c := range sw.Body.List {
			cc, ok := c.(*ast.CaseClause)
			if !ok {
				out = append(out, opEntry{bad: unk(sf.oneLine(c))})
				continue
			}
			var ret ast.Expr
			if r := singleReturn(cc.Body, 1); r != nil {
				ret = r.Results[0]
			}
			text := sf.stmtsOneLine(cc.Body)
			if cc.List == nil {
				out = append(out, opEntry{key: "default", ret: ret, text: text})
				continue
			}
			for _, e := range cc.List {
				if id, ok := e.(*ast.Ident); ok {
					out = append(out, opEntry{key: id.Name, ret: ret, text: text})
				} else {
					out = append(out, opEntry{bad: unk("case " + sf.oneLine(e) + ": " + text)})
				}
			}
		}
	}
	if !seen {
		out = append(out, opEntry{bad: unk("no switch over the receiver in " + fname)})
	}
	return out
}

// pkgLevelValue finds the initialiser of the package-level `var name = …` / `const name = …` of a file.
func pkgLevelValue(sf *srcFile, name string) ast.Expr {
	if sf == nil || sf.file == nil {
		return nil
	}
	for _, d := range sf.file.Decls {
		gd, ok := d.(*ast.GenDecl)
		if !ok || (gd.Tok != token.VAR && gd.Tok != token.CONST) {
			continue
		}
		for _, sp := range gd.Specs {
			vs, ok := sp.(*ast.ValueSpec)
			if !ok || len(vs.Values) != len(vs.Names) {
				continue
			}
			for i, n := range vs.Names {
				if n.Name == name {
					return vs.Values[i]
				}
			}
		}
	}
	return nil
}

// strOrConst: a string literal, or an identifier naming a package-level string constant.
func strOrConst(sf *srcFile, e ast.Expr) (string, bool) {
	if s, ok := stringLit(e); ok {
		return s, true
	}
	if id, ok := e.(*ast.Ident); ok {
		if v := pkgLevelValue(sf, id.Name); v != nil {
			return stringLit(v)
		}
	}
	return "", false
}

// opNameTable recognises a String method written as a lookup in a keyed table of names:
//
//	func (op T) String() string {
//		if op < 0 || int(op) >= len(names) { return D }      // array / slice table
//		return names[op]
//	}
//	func (op T) String() string {
//		if s, ok := names[op]; ok { return s }               // map table
//		return D
//	}
//
// where `names` is a package-level array, slice or map literal all of whose elements are
// `Constant: "name"`.  It yields the same (constant, name) pairs as the switch form, plus
// ("default", D).  Any other shape is not a table (ok = false) and the switch reader reports it.
func opNameTable(f *fnDecl, sf *srcFile) ([][2]string, bool) {
	if f == nil || f.fd.Body == nil || len(f.fd.Body.List) != 2 {
		return nil, false
	}
	recv := recvName(f.fd)
	if recv == "" {
		return nil, false
	}
	guard, ok := f.fd.Body.List[0].(*ast.IfStmt)
	ret, ok2 := f.fd.Body.List[1].(*ast.ReturnStmt)
	if !ok || !ok2 || guard.Else != nil || len(ret.Results) != 1 {
		return nil, false
	}
	gr := singleReturn(guard.Body.List, 1)
	if gr == nil {
		return nil, false
	}
	indexOf := func(e ast.Expr) (string, bool) { // names[op] / names[int(op)]
		ix, ok := unparen(e).(*ast.IndexExpr)
		if !ok {
			return "", false
		}
		id, ok := ix.X.(*ast.Ident)
		if !ok {
			return "", false
		}
		arg := unparen(ix.Index)
		if c, ok := arg.(*ast.CallExpr); ok && len(c.Args) == 1 && (isIdent(c.Fun, "int") || isIdent(c.Fun, "uint")) {
			arg = unparen(c.Args[0])
		}
		if !isIdent(arg, recv) {
			return "", false
		}
		return id.Name, true
	}
	var table, deflt string
	var dexpr ast.Expr
	isMap := false
	if guard.Init == nil {
		// if op < 0 || int(op) >= len(names) { return D } ; return names[op]
		t, ok := indexOf(ret.Results[0])
		if !ok {
			return nil, false
		}
		want1 := []string{recv, "<", "0", "||", "int", "(", recv, ")", ">=", "len", "(", t, ")"}
		want2 := []string{"int", "(", recv, ")", ">=", "len", "(", t, ")", "||", recv, "<", "0"}
		c := f.sf.toks(guard.Cond)
		if !sameStrings(c, want1) && !sameStrings(c, want2) {
			return nil, false
		}
		table, dexpr = t, gr.Results[0]
	} else {
		// if s, ok := names[op]; ok { return s } ; return D
		as, ok := guard.Init.(*ast.AssignStmt)
		if !ok || as.Tok != token.DEFINE || len(as.Lhs) != 2 || len(as.Rhs) != 1 {
			return nil, false
		}
		v, ok1 := as.Lhs[0].(*ast.Ident)
		okv, ok2 := as.Lhs[1].(*ast.Ident)
		t, ok3 := indexOf(as.Rhs[0])
		if !ok1 || !ok2 || !ok3 || !isIdent(guard.Cond, okv.Name) || !isIdent(gr.Results[0], v.Name) {
			return nil, false
		}
		table, dexpr, isMap = t, ret.Results[0], true
	}
	d, ok := strOrConst(sf, dexpr)
	if !ok {
		return nil, false
	}
	deflt = d
	cl, ok := pkgLevelValue(sf, table).(*ast.CompositeLit)
	if !ok || len(cl.Elts) == 0 {
		return nil, false
	}
	switch ty := cl.Type.(type) {
	case *ast.ArrayType:
		if isMap || !isIdent(ty.Elt, "string") {
			return nil, false
		}
	case *ast.MapType:
		if !isMap || !isIdent(ty.Value, "string") {
			return nil, false
		}
	default:
		return nil, false
	}
	var out [][2]string
	for _, el := range cl.Elts {
		kv, ok := el.(*ast.KeyValueExpr)
		if !ok {
			return nil, false
		}
		k, ok1 := kv.Key.(*ast.Ident)
		v, ok2 := strOrConst(sf, kv.Value)
		if !ok1 || !ok2 {
			return nil, false
		}
		out = append(out, [2]string{k.Name, v})
	}
	return append(out, [2]string{"default", deflt}), true
}

// matchDispatch reads the `switch expression.Operator` of evaluateMatchExpression.
// pkg: the files of package bexpr (where a negation helper is looked up).
func matchDispatch(f *fnDecl, pkg []*srcFile) [][3]string {
	if f == nil || f.fd.Body == nil {
		return [][3]string{{unk("func evaluateMatchExpression not found"), unk("missing"), ""}}
	}
	sf := f.sf
	var sws []*ast.SwitchStmt
	ast.Inspect(f.fd.Body, func(n ast.Node) bool {
		if sw, ok := n.(*ast.SwitchStmt); ok && sw.Tag != nil && sameStrings(sf.toks(sw.Tag), []string{"expression", ".", "Operator"}) {
			sws = append(sws, sw)
		}
		return true
	})
	if len(sws) == 0 {
		return [][3]string{{unk("no `switch expression.Operator` in evaluateMatchExpression"), unk("missing"), ""}}
	}
	var out [][3]string
	for i, sw := range sws {
		if i > 0 || sw.Init != nil {
			out = append(out, [3]string{unk("extra or initialised switch"), unk(sf.oneLine(sw)), ""})
			continue
		}
		hasDefault := false
		for _, c := range sw.Body.List {
			cc, ok := c.(*ast.CaseClause)
			if !ok {
				out = append(out, [3]string{unk("clause"), unk(sf.oneLine(c)), ""})
				continue
			}
			if cc.List == nil {
				hasDefault = true
				shape := unk(sf.stmtsOneLine(cc.Body))
				if r := singleReturn(cc.Body, 2); r != nil && isIdent(r.Results[0], "false") {
					if call, ok := r.Results[1].(*ast.CallExpr); ok {
						if p, n, ok := pkgSel(call.Fun); ok && ((p == "fmt" && n == "Errorf") || (p == "errors" && n == "New")) {
							shape = "error"
						}
					}
				}
				out = append(out, [3]string{"default", shape, ""})
				continue
			}
			shape, callee := dispatchShape(sf, cc.Body, pkg)
			for _, e := range cc.List {
				k := unk(sf.oneLine(e))
				if p, n, ok := pkgSel(e); ok && p == "grammar" {
					k = n
				}
				out = append(out, [3]string{k, shape, callee})
			}
		}
		if !hasDefault {
			out = append(out, [3]string{"default", unk("no default clause"), ""})
		}
	}
	return out
}

// matcherCall recognises `f(expression, rvalue)` with f an identifier.
func matcherCall(e ast.Expr) (callee string, ok bool) {
	call, isCall := e.(*ast.CallExpr)
	if !isCall || call.Ellipsis.IsValid() || len(call.Args) != 2 ||
		!isIdent(call.Args[0], "expression") || !isIdent(call.Args[1], "rvalue") {
		return "", false
	}
	id, isID := call.Fun.(*ast.Ident)
	if !isID {
		return "", false
	}
	return id.Name, true
}

// negationBody recognises the two ways of writing "pass an error on with
// false, otherwise negate the result" over the variables b (bool) and e (error):
//
//	if e == nil { return !b, nil }; return false, e
//	if e != nil { return false, e }; return !b, nil
func negationBody(sf *srcFile, stmts []ast.Stmt, b, e string) bool {
	if len(stmts) != 2 {
		return false
	}
	t0, t1 := sf.toks(stmts[0]), sf.toks(stmts[1])
	return sameStrings(t0, []string{"if", e, "==", "nil", "{", "return", "!", b, ",", "nil", "}"}) &&
		sameStrings(t1, []string{"return", "false", ",", e}) ||
		sameStrings(t0, []string{"if", e, "!=", "nil", "{", "return", "false", ",", e, "}"}) &&
			sameStrings(t1, []string{"return", "!", b, ",", "nil"})
}

// isNegationHelper: f is a package-level function `func H(b bool, e error)
// (bool, error)` whose body is negationBody over its two parameters.
func isNegationHelper(f *fnDecl) bool {
	if f == nil || f.fd.Recv != nil || f.fd.Body == nil || f.fd.Type.TypeParams != nil ||
		f.fd.Type.Params == nil || f.fd.Type.Results == nil {
		return false
	}
	sf := f.sf
	ps := paramNames(f.fd.Type)
	if len(ps) != 2 || ps[0] == "_" || ps[1] == "_" || ps[0] == ps[1] {
		return false
	}
	if !sameStrings(sf.toks(f.fd.Type.Params), []string{"(", ps[0], "bool", ",", ps[1], "error", ")"}) ||
		!sameStrings(sf.toks(f.fd.Type.Results), []string{"(", "bool", ",", "error", ")"}) {
		return false
	}
	return negationBody(sf, f.fd.Body.List, ps[0], ps[1])
}

// dispatchShape reads the body of one operator case:
//
//	direct:   return f(expression, rvalue)
//	negated:  result, err := f(expression, rvalue); <negationBody over result, err>
//	negated:  return H(f(expression, rvalue))   with H a negation helper of the package
func dispatchShape(sf *srcFile, body []ast.Stmt, pkg []*srcFile) (shape, callee string) {
	if r := singleReturn(body, 1); r != nil {
		if callee, ok := matcherCall(r.Results[0]); ok {
			return "direct", callee
		}
		if outer, ok := r.Results[0].(*ast.CallExpr); ok && !outer.Ellipsis.IsValid() && len(outer.Args) == 1 {
			if h, ok := outer.Fun.(*ast.Ident); ok {
				if callee, ok := matcherCall(outer.Args[0]); ok && isNegationHelper(findFn(h.Name, pkg...)) {
					return "negated", callee
				}
			}
		}
	}
	if len(body) == 3 {
		if as, ok := body[0].(*ast.AssignStmt); ok && as.Tok == token.DEFINE && len(as.Lhs) == 2 && len(as.Rhs) == 1 &&
			isIdent(as.Lhs[0], "result") && isIdent(as.Lhs[1], "err") {
			if callee, ok := matcherCall(as.Rhs[0]); ok && negationBody(sf, body[1:], "result", "err") {
				return "negated", callee
			}
		}
	}
	return unk(sf.stmtsOneLine(body)), ""
}

// constInfo is one declared constant with the type and value expression it
// has after applying Go's implicit repetition rule.
type constInfo struct {
	name   string
	typ    string   // declared type name, "" if untyped
	val    ast.Expr // value expression, nil if none
	iota   int
	single bool // the spec declares exactly one name
	spec   *ast.ValueSpec
}

func constsOf(sf *srcFile) []constInfo {
	var out []constInfo
	if sf == nil || sf.file == nil {
		return out
	}
	for _, d := range sf.file.Decls {
		gd, ok := d.(*ast.GenDecl)
		if !ok || gd.Tok != token.CONST {
			continue
		}
		var curType ast.Expr
		var curVals []ast.Expr
		for i, sp := range gd.Specs {
			vs, ok := sp.(*ast.ValueSpec)
			if !ok {
				continue
			}
			if vs.Type != nil || len(vs.Values) > 0 {
				curType, curVals = vs.Type, vs.Values
			}
			for j, n := range vs.Names {
				ci := constInfo{name: n.Name, iota: i, single: len(vs.Names) == 1, spec: vs}
				if j < len(curVals) {
					ci.val = curVals[j]
				}
				switch t := curType.(type) {
				case nil:
					// `const X = T(v)`: a conversion gives the constant type T
					if call, ok := ci.val.(*ast.CallExpr); ok {
						if id, ok := call.Fun.(*ast.Ident); ok {
							ci.typ = id.Name
						}
					}
				case *ast.Ident:
					ci.typ = t.Name
				default:
					ci.typ = sf.oneLine(t)
				}
				out = append(out, ci)
			}
		}
	}
	return out
}

func mentionsSelector(nodes []ast.Stmt, name string) bool {
	found := false
	for _, n := range nodes {
		ast.Inspect(n, func(nd ast.Node) bool {
			if s, ok := nd.(*ast.SelectorExpr); ok && s.Sel.Name == name {
				found = true
			}
			return !found
		})
	}
	return found
}

// dumpPrintsValue: the constants of the first case of the switch in
// (*MatchExpression).ExpressionDump; that case must reference .Value and no
// other clause may.
func dumpPrintsValue(f *fnDecl) []string {
	if f == nil || f.fd.Body == nil {
		return []string{unk("method MatchExpression.ExpressionDump not found")}
	}
	sf := f.sf
	var sw *ast.SwitchStmt
	for _, st := range f.fd.Body.List {
		if s, ok := st.(*ast.SwitchStmt); ok {
			sw = s
			break
		}
	}
	if sw == nil {
		return []string{unk("no switch in MatchExpression.ExpressionDump")}
	}
	out := []string{}
	for _, st := range f.fd.Body.List {
		if st != ast.Stmt(sw) && mentionsSelector([]ast.Stmt{st}, "Value") {
			out = append(out, unk("statement outside the switch references Value: "+sf.oneLine(st)))
		}
	}
	for i, c := range sw.Body.List {
		cc, ok := c.(*ast.CaseClause)
		if !ok {
			out = append(out, unk(sf.oneLine(c)))
			continue
		}
		refs := mentionsSelector(cc.Body, "Value")
		if i == 0 {
			if cc.List == nil {
				out = append(out, unk("first clause is the default clause"))
			}
			for _, e := range cc.List {
				if id, ok := e.(*ast.Ident); ok {
					out = append(out, id.Name)
				} else {
					out = append(out, unk(sf.oneLine(e)))
				}
			}
			if !refs {
				out = append(out, unk("first case does not reference Value: "+sf.stmtsOneLine(cc.Body)))
			}
		} else if refs {
			out = append(out, unk("later clause references Value: "+sf.oneLine(cc)))
		}
	}
	return out
}

// typeCaseName: `*grammar.UnaryExpression` -> "UnaryExpression".
func typeCaseName(sf *srcFile, e ast.Expr) string {
	if st, ok := e.(*ast.StarExpr); ok {
		if p, n, ok := pkgSel(st.X); ok && p == "grammar" {
			return n
		}
	}
	return unk(sf.oneLine(e))
}

// evaluateBranches splits the body of func evaluate into its branches.
func evaluateBranches(f *fnDecl) []keyedToks {
	if f == nil || f.fd.Body == nil {
		return []keyedToks{{unk("func evaluate not found"), []string{}}}
	}
	sf := f.sf
	var out []keyedToks
	stmts := f.fd.Body.List
	at := -1
	for i, st := range stmts {
		if _, ok := st.(*ast.TypeSwitchStmt); ok {
			at = i
			break
		}
	}
	if at < 0 {
		return []keyedToks{{unk("no type switch in func evaluate"), sf.bodyToks(f.fd.Body)}}
	}
	if at > 0 {
		out = append(out, keyedToks{unk("statements before the type switch"), sf.stmtsToks(stmts[:at])})
	}
	ts := stmts[at].(*ast.TypeSwitchStmt)
	// the switch must be `switch node := ast.(type)`
	if ts.Init != nil || !sameStrings(sf.toks(ts.Assign), []string{"node", ":=", "ast", ".", "(", "type", ")"}) {
		out = append(out, keyedToks{unk("type switch header"), goTokens(sf.span(ts.Pos(), ts.Body.Lbrace))})
	}
	for _, c := range ts.Body.List {
		cc, ok := c.(*ast.CaseClause)
		if !ok {
			out = append(out, keyedToks{unk("clause"), sf.toks(c)})
			continue
		}
		var key string
		if cc.List == nil {
			key = "default"
		} else {
			names := make([]string, len(cc.List))
			for i, e := range cc.List {
				names[i] = typeCaseName(sf, e)
			}
			key = strings.Join(names, ",")
		}
		// a body that is exactly `switch node.Operator { case grammar.C: ... }` is
		// split per constant
		if len(cc.Body) == 1 {
			if sw, ok := cc.Body[0].(*ast.SwitchStmt); ok && sw.Init == nil && sw.Tag != nil &&
				sameStrings(sf.toks(sw.Tag), []string{"node", ".", "Operator"}) {
				for _, ic := range sw.Body.List {
					icc, ok := ic.(*ast.CaseClause)
					if !ok {
						out = append(out, keyedToks{unk(key + " clause"), sf.toks(ic)})
						continue
					}
					ikey := key + ".default"
					if icc.List != nil {
						names := make([]string, len(icc.List))
						for i, e := range icc.List {
							if p, n, ok := pkgSel(e); ok && p == "grammar" {
								names[i] = n
							} else {
								names[i] = unk(sf.oneLine(e))
							}
						}
						ikey = strings.Join(names, ",")
					}
					out = append(out, keyedToks{ikey, sf.stmtsToks(icc.Body)})
				}
				continue
			}
		}
		out = append(out, keyedToks{key, sf.stmtsToks(cc.Body)})
	}
	out = append(out, keyedToks{"fallthrough", sf.stmtsToks(stmts[at+1:])})
	return out
}
