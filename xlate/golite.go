package main

// golite.go: the `golite` subcommand (T7) — translates `evaluate`, `evaluateMatchExpression` and
// every unexported package-level function of package bexpr reachable from them (the LEAVES below
// are kept abstract) into terms of the GoLite syntax (lean/Bexpr/GoLite/Syntax.lean) and writes
// BexprGen/GoLiteGen.lean.  lean/Bexpr/GoLite/Interp.lean interprets the terms over an abstract
// value domain; lean/Ties/EvaluateSem.lean states the obligations on the regenerated terms.
//
// The translator is deliberately small and never guesses: a construct outside the subset becomes an
// explicit `unsupported "<text>"` node, on which the interpreter is stuck, so the dependent
// obligation fails visibly.

import (
	"flag"
	"fmt"
	"go/ast"
	"go/token"
	"os"
	"path/filepath"
	"sort"
	"strconv"
	"strings"
)

// goliteRoots are the functions whose bodies the obligations interpret.
var goliteRoots = []string{"evaluate", "evaluateMatchExpression"}

// goliteLeaves are never translated: a call of one of them is answered by the oracle of the
// interpreter and logged.  (`evaluate` is a root AND a leaf: its body is interpreted, the recursive
// calls met on the way are answered by the oracle.)
var goliteLeaves = []string{
	"evaluateCollectionExpression", "doMatchEqual", "doMatchIn", "doMatchIsEmpty", "doMatchMatches",
	"getValue", "getMatchExprValue",
}

func init() {
	subcommands = append(subcommands, subcommand{
		name:  "golite",
		short: "translate evaluate / evaluateMatchExpression and their helpers to GoLite terms (T7) in BexprGen/GoLiteGen.lean",
		run:   runGoLite,
	})
}

type goliteFn struct {
	sf *srcFile
	fd *ast.FuncDecl
}

// goliteTr translates one function.
type goliteTr struct {
	sf      *srcFile
	fn      string
	imports map[string]bool // names under which packages are imported in this file
	locals  map[string]bool // every name the function binds
	nerr    int
	unsup   *[][2]string
}

func (t *goliteTr) unsupportedE(n ast.Node) doc {
	text := t.sf.oneLine(n)
	*t.unsup = append(*t.unsup, [2]string{t.fn, text})
	return app("Expr.unsupported", atom(leanString(text)))
}

func (t *goliteTr) unsupportedS(n ast.Node) doc {
	text := t.sf.oneLine(n)
	*t.unsup = append(*t.unsup, [2]string{t.fn, text})
	return app("Stmt.unsupported", atom(leanString(text)))
}

func goliteImportNames(f *ast.File) map[string]bool {
	out := map[string]bool{}
	for _, im := range f.Imports {
		if im.Name != nil {
			out[im.Name.Name] = true
			continue
		}
		p, err := strconv.Unquote(im.Path.Value)
		if err != nil {
			continue
		}
		if i := strings.LastIndex(p, "/"); i >= 0 {
			p = p[i+1:]
		}
		out[p] = true
	}
	return out
}

// boundNames lists every name a function binds (parameters, results, `:=`, var, type-switch
// binders, range variables): a selector on one of them is a field selection, not a package member.
func boundNames(fd *ast.FuncDecl) map[string]bool {
	out := map[string]bool{}
	fields := func(fl *ast.FieldList) {
		if fl == nil {
			return
		}
		for _, f := range fl.List {
			for _, n := range f.Names {
				out[n.Name] = true
			}
		}
	}
	fields(fd.Type.Params)
	fields(fd.Type.Results)
	if fd.Body == nil {
		return out
	}
	ast.Inspect(fd.Body, func(n ast.Node) bool {
		switch x := n.(type) {
		case *ast.AssignStmt:
			if x.Tok == token.DEFINE {
				for _, l := range x.Lhs {
					if id, ok := l.(*ast.Ident); ok {
						out[id.Name] = true
					}
				}
			}
		case *ast.ValueSpec:
			for _, id := range x.Names {
				out[id.Name] = true
			}
		case *ast.RangeStmt:
			for _, e := range []ast.Expr{x.Key, x.Value} {
				if id, ok := e.(*ast.Ident); ok {
					out[id.Name] = true
				}
			}
		case *ast.FuncLit:
			fields(x.Type.Params)
			fields(x.Type.Results)
		}
		return true
	})
	return out
}

func (t *goliteTr) pkgMember(e ast.Expr) (pkg, name string, ok bool) {
	se, isSel := e.(*ast.SelectorExpr)
	if !isSel {
		return "", "", false
	}
	id, isID := se.X.(*ast.Ident)
	if !isID || !t.imports[id.Name] || t.locals[id.Name] {
		return "", "", false
	}
	return id.Name, se.Sel.Name, true
}

func containsCall(es []ast.Expr) bool {
	found := false
	for _, e := range es {
		ast.Inspect(e, func(n ast.Node) bool {
			switch n.(type) {
			case *ast.CallExpr, *ast.FuncLit:
				found = true
			}
			return !found
		})
	}
	return found
}

func lstr(s string) doc { return atom(leanString(s)) }

func (t *goliteTr) exprs(es []ast.Expr) doc {
	ds := make([]doc, len(es))
	for i, e := range es {
		ds[i] = t.expr(e)
	}
	return list(ds...)
}

func (t *goliteTr) expr(e ast.Expr) doc {
	switch x := e.(type) {
	case *ast.ParenExpr:
		return t.expr(x.X)
	case *ast.Ident:
		if !t.locals[x.Name] {
			switch x.Name {
			case "nil":
				return atom("Expr.nil")
			case "true":
				return app("Expr.bool", atom("true"))
			case "false":
				return app("Expr.bool", atom("false"))
			}
		}
		if x.Name == "_" {
			return t.unsupportedE(e)
		}
		return app("Expr.ident", lstr(x.Name))
	case *ast.BasicLit:
		return app("Expr.lit", lstr(x.Value))
	case *ast.SelectorExpr:
		if p, n, ok := t.pkgMember(x); ok {
			return app("Expr.pkg", lstr(p), lstr(n))
		}
		return app("Expr.sel", t.expr(x.X), lstr(x.Sel.Name))
	case *ast.UnaryExpr:
		if x.Op == token.NOT {
			return app("Expr.not", t.expr(x.X))
		}
	case *ast.BinaryExpr:
		switch x.Op {
		case token.LAND, token.LOR, token.EQL, token.NEQ:
			return app("Expr.bin", lstr(x.Op.String()), t.expr(x.X), t.expr(x.Y))
		}
	case *ast.CallExpr:
		if p, n, ok := t.pkgMember(x.Fun); ok && ((p == "fmt" && n == "Errorf") || (p == "errors" && n == "New")) {
			if containsCall(x.Args) || x.Ellipsis.IsValid() {
				return t.unsupportedE(e)
			}
			t.nerr++
			return app("Expr.mkErr", lstr(p+"."+n), lstr(fmt.Sprintf("%s#%d", t.fn, t.nerr)))
		}
		var f doc
		switch fun := unparen(x.Fun).(type) {
		case *ast.Ident:
			f = app("Expr.ident", lstr(fun.Name))
		case *ast.SelectorExpr:
			f = t.expr(fun)
		default:
			return t.unsupportedE(e)
		}
		return app("Expr.call", f, t.exprs(x.Args), atom(leanBool(x.Ellipsis.IsValid())))
	case *ast.TypeAssertExpr:
		if x.Type != nil {
			return app("Expr.typeAssert", t.expr(x.X), lstr(t.sf.oneLine(x.Type)))
		}
	}
	return t.unsupportedE(e)
}

func identNames(es []ast.Expr) ([]string, bool) {
	out := make([]string, len(es))
	for i, e := range es {
		id, ok := e.(*ast.Ident)
		if !ok {
			return nil, false
		}
		out[i] = id.Name
	}
	return out, true
}

func strList(ss []string) doc {
	ds := make([]doc, len(ss))
	for i, s := range ss {
		ds[i] = lstr(s)
	}
	return list(ds...)
}

func (t *goliteTr) stmts(ss []ast.Stmt) doc {
	ds := make([]doc, 0, len(ss))
	for _, s := range ss {
		if _, empty := s.(*ast.EmptyStmt); empty {
			continue
		}
		ds = append(ds, t.stmt(s))
	}
	return list(ds...)
}

func (t *goliteTr) optStmt(s ast.Stmt) doc {
	if s == nil {
		return atom("none")
	}
	return app("some", t.stmt(s))
}

func optDoc(d *doc) doc {
	if d == nil {
		return atom("none")
	}
	return app("some", *d)
}

func (t *goliteTr) stmt(s ast.Stmt) doc {
	switch x := s.(type) {
	case *ast.AssignStmt:
		names, ok := identNames(x.Lhs)
		if !ok {
			return t.unsupportedS(s)
		}
		switch x.Tok {
		case token.DEFINE:
			return app("Stmt.define", strList(names), t.exprs(x.Rhs))
		case token.ASSIGN:
			return app("Stmt.assign", strList(names), t.exprs(x.Rhs))
		}
	case *ast.DeclStmt:
		gd, ok := x.Decl.(*ast.GenDecl)
		if !ok || gd.Tok != token.VAR || len(gd.Specs) != 1 {
			return t.unsupportedS(s)
		}
		vs, ok := gd.Specs[0].(*ast.ValueSpec)
		if !ok || len(vs.Names) != 1 || len(vs.Values) > 1 || (vs.Type == nil && len(vs.Values) == 0) {
			return t.unsupportedS(s)
		}
		ty := ""
		if vs.Type != nil {
			ty = t.sf.oneLine(vs.Type)
		}
		init := atom("none")
		if len(vs.Values) == 1 {
			init = app("some", t.expr(vs.Values[0]))
		}
		return app("Stmt.varDecl", lstr(vs.Names[0].Name), lstr(ty), init)
	case *ast.IfStmt:
		els := list()
		switch e := x.Else.(type) {
		case nil:
		case *ast.BlockStmt:
			els = t.stmts(e.List)
		case *ast.IfStmt:
			els = list(t.stmt(e))
		default:
			return t.unsupportedS(s)
		}
		return app("Stmt.ifS", t.optStmt(x.Init), t.expr(x.Cond), t.stmts(x.Body.List), els)
	case *ast.SwitchStmt:
		tag := atom("none")
		if x.Tag != nil {
			tag = app("some", t.expr(x.Tag))
		}
		var cases []doc
		var dflt *doc
		for _, c := range x.Body.List {
			cc, ok := c.(*ast.CaseClause)
			if !ok {
				return t.unsupportedS(s)
			}
			body := t.stmts(cc.Body)
			if cc.List == nil {
				dflt = &body
				continue
			}
			cases = append(cases, app("Stmt.case", t.exprs(cc.List), body))
		}
		return app("Stmt.switchS", t.optStmt(x.Init), tag, list(cases...), optDoc(dflt))
	case *ast.TypeSwitchStmt:
		if x.Init != nil {
			return t.unsupportedS(s)
		}
		bind := atom("none")
		var ta *ast.TypeAssertExpr
		switch a := x.Assign.(type) {
		case *ast.ExprStmt:
			ta, _ = a.X.(*ast.TypeAssertExpr)
		case *ast.AssignStmt:
			if names, ok := identNames(a.Lhs); ok && len(names) == 1 && len(a.Rhs) == 1 && a.Tok == token.DEFINE {
				ta, _ = a.Rhs[0].(*ast.TypeAssertExpr)
				bind = app("some", lstr(names[0]))
			}
		}
		if ta == nil || ta.Type != nil {
			return t.unsupportedS(s)
		}
		var cases []doc
		var dflt *doc
		for _, c := range x.Body.List {
			cc, ok := c.(*ast.CaseClause)
			if !ok {
				return t.unsupportedS(s)
			}
			body := t.stmts(cc.Body)
			if cc.List == nil {
				dflt = &body
				continue
			}
			types := make([]string, len(cc.List))
			for i, ty := range cc.List {
				types[i] = t.sf.oneLine(ty)
			}
			cases = append(cases, app("Stmt.typeCase", strList(types), body))
		}
		return app("Stmt.typeSwitch", bind, t.expr(ta.X), list(cases...), optDoc(dflt))
	case *ast.ReturnStmt:
		return app("Stmt.ret", t.exprs(x.Results))
	case *ast.BlockStmt:
		return app("Stmt.block", t.stmts(x.List))
	case *ast.ExprStmt:
		return app("Stmt.exprS", t.expr(x.X))
	}
	return t.unsupportedS(s)
}

// goliteFunc translates one declaration to a `FuncDecl.mk …` term.
func goliteFunc(f goliteFn, unsup *[][2]string) doc {
	t := &goliteTr{sf: f.sf, fn: f.fd.Name.Name, imports: goliteImportNames(f.sf.file), locals: boundNames(f.fd), unsup: unsup}
	var params []string
	variadic := false
	if f.fd.Type.Params != nil {
		for _, fl := range f.fd.Type.Params.List {
			if _, ok := fl.Type.(*ast.Ellipsis); ok {
				variadic = true
			}
			if len(fl.Names) == 0 {
				params = append(params, "_")
			}
			for _, n := range fl.Names {
				params = append(params, n.Name)
			}
		}
	}
	var results []doc
	if f.fd.Type.Results != nil {
		for _, fl := range f.fd.Type.Results.List {
			ty := t.sf.oneLine(fl.Type)
			if len(fl.Names) == 0 {
				results = append(results, atom("(\"\", "+leanString(ty)+")"))
			}
			for _, n := range fl.Names {
				results = append(results, atom("("+leanString(n.Name)+", "+leanString(ty)+")"))
			}
		}
	}
	var body doc
	if f.fd.Body == nil || f.fd.Type.TypeParams != nil {
		body = list(t.unsupportedS(f.fd))
	} else {
		body = t.stmts(f.fd.Body.List)
	}
	return app("FuncDecl.mk", lstr(t.fn), strList(params), atom(leanBool(variadic)), list(results...), body)
}

// goliteCollect finds the roots and everything reachable from them that is not a leaf.  reach maps
// each root to the functions its interpretation may inline: the other roots count as leaves there
// (`evaluate` hands match nodes to `evaluateMatchExpression`, which the first stage keeps abstract).
func goliteCollect(files []*srcFile) (order []goliteFn, reach map[string][]string, missing []string) {
	decls := map[string]goliteFn{}
	for _, sf := range files {
		for _, f := range funcsOf(sf) {
			if f.fd.Recv == nil {
				if _, dup := decls[f.key]; !dup {
					decls[f.key] = goliteFn{sf: sf, fd: f.fd}
				}
			}
		}
	}
	leaf := map[string]bool{}
	for _, l := range goliteLeaves {
		leaf[l] = true
	}
	isRoot := map[string]bool{}
	for _, r := range goliteRoots {
		isRoot[r] = true
	}
	mentions := func(f goliteFn) []string {
		if f.fd.Body == nil {
			return nil
		}
		locals := boundNames(f.fd)
		var out []string
		ast.Inspect(f.fd.Body, func(n ast.Node) bool {
			// any mention of a package-level function (called or passed as a value)
			if id, ok := n.(*ast.Ident); ok && !locals[id.Name] && !leaf[id.Name] && !ast.IsExported(id.Name) {
				if _, isFn := decls[id.Name]; isFn {
					out = append(out, id.Name)
				}
			}
			return true
		})
		return out
	}
	reach = map[string][]string{}
	inOrder := map[string]bool{}
	for _, r := range goliteRoots {
		if _, ok := decls[r]; !ok {
			missing = append(missing, r)
			continue
		}
		seen := map[string]bool{}
		var visit func(name string)
		visit = func(name string) {
			if seen[name] || (isRoot[name] && name != r) {
				return
			}
			seen[name] = true
			f := decls[name]
			reach[r] = append(reach[r], name)
			if !inOrder[name] {
				inOrder[name] = true
				order = append(order, f)
			}
			for _, c := range mentions(f) {
				visit(c)
			}
		}
		visit(r)
	}
	return order, reach, missing
}

func runGoLite(args []string) int {
	fs := flag.NewFlagSet("golite", flag.ContinueOnError)
	repo := fs.String("repo", "/repo", "root of the go-bexpr source tree")
	out := fs.String("out", "/verif/lean/BexprGen", "output directory for the generated Lean file")
	if err := fs.Parse(args); err != nil {
		return 64
	}
	if fs.NArg() != 0 {
		fmt.Fprintf(os.Stderr, "xlate golite: unexpected arguments %q\n", fs.Args())
		return 64
	}
	if err := os.MkdirAll(*out, 0o755); err != nil {
		fmt.Fprintf(os.Stderr, "xlate golite: %v\n", err)
		return 1
	}
	target := filepath.Join(*out, "GoLiteGen.lean")
	if err := os.Remove(target); err != nil && !os.IsNotExist(err) {
		fmt.Fprintf(os.Stderr, "xlate golite: cannot remove stale output: %v\n", err)
		return 1
	}
	srcs, fatal := loadFixedPlusRoot("evaluate.go")(*repo)
	var good []*srcFile
	for _, s := range srcs {
		if s.err != nil {
			fatal = append(fatal, fmt.Sprintf("source could not be parsed: %s: %v", s.path, s.err))
			continue
		}
		good = append(good, s)
	}
	var fdocs []doc
	var names []string
	var unsup [][2]string
	var reach map[string][]string
	if len(fatal) == 0 {
		func() {
			defer func() {
				if r := recover(); r != nil {
					fatal = append(fatal, fmt.Sprintf("internal error in xlate golite: %v", r))
					fdocs, names = nil, nil
				}
			}()
			order, rch, missing := goliteCollect(good)
			reach = rch
			for _, m := range missing {
				fatal = append(fatal, "function "+m+" not found in package bexpr")
			}
			for _, f := range order {
				fdocs = append(fdocs, goliteFunc(f, &unsup))
				names = append(names, f.fd.Name.Name)
			}
		}()
	}
	if len(fatal) > 0 {
		fdocs, names = nil, nil
	}
	for _, f := range fatal {
		fmt.Fprintf(os.Stderr, "xlate golite: %s\n", f)
	}

	var b strings.Builder
	paths := make([]string, len(srcs))
	for i, s := range srcs {
		paths[i] = s.path
	}
	fmt.Fprintf(&b, "-- GENERATED by /verif/xlate (golite) from %s; do not edit.\n", strings.Join(paths, ", "))
	for _, s := range srcs {
		fmt.Fprintf(&b, "-- source SHA-256 %s: %s\n", s.path, s.sum)
	}
	for _, f := range fatal {
		fmt.Fprintf(&b, "-- ERROR: %s\n", commentSafe(f))
	}
	for _, u := range unsup {
		fmt.Fprintf(&b, "-- NOTE: unsupported construct in %s: %s\n", u[0], commentSafe(u[1]))
	}
	b.WriteString("import Bexpr.GoLite.Syntax\n\nnamespace BexprGen.GoLiteGen\nopen Bexpr.GoLite\n\n")
	sortedLeaves := append([]string{}, goliteLeaves...)
	sort.Strings(sortedLeaves)
	emitListDef(&b, "roots", "List String", strDocs(goliteRoots))
	emitListDef(&b, "leaves", "List String", strDocs(sortedLeaves))
	emitListDef(&b, "funcNames", "List String", strDocs(names))
	var udocs, rdocs []doc
	for _, u := range unsup {
		udocs = append(udocs, atom("("+leanString(u[0])+", "+leanString(u[1])+")"))
	}
	for _, r := range goliteRoots {
		if len(fatal) == 0 {
			rdocs = append(rdocs, atom("("+leanString(r)+", "+list(strDocs(reach[r])...).flat()+")"))
		}
	}
	b.WriteString("/-- (function, text) of every construct outside the GoLite subset -/\n")
	emitListDef(&b, "unsupportedNodes", "List (String × String)", udocs)
	b.WriteString("/-- root ↦ the functions its interpretation may inline (the other roots are leaves there) -/\n")
	emitListDef(&b, "reach", "List (String × List String)", rdocs)
	for i, d := range fdocs {
		var lines []string
		layout(d, 2, "", &lines)
		fmt.Fprintf(&b, "def fn_%d : FuncDecl :=\n%s\n\n", i, strings.Join(lines, "\n"))
	}
	fnames := make([]doc, len(fdocs))
	for i := range fdocs {
		fnames[i] = atom(fmt.Sprintf("fn_%d", i))
	}
	emitListDef(&b, "funcs", "List FuncDecl", fnames)
	b.WriteString("end BexprGen.GoLiteGen\n")
	if err := os.WriteFile(target, []byte(b.String()), 0o644); err != nil {
		fmt.Fprintf(os.Stderr, "xlate golite: %v\n", err)
		return 1
	}
	fmt.Printf("golite: %d source files, %d functions (%s), %d unsupported nodes -> %s\n", len(srcs), len(fdocs), strings.Join(names, " "), len(unsup), target)
	if len(fatal) > 0 {
		return 2
	}
	return 0
}

func strDocs(ss []string) []doc {
	ds := make([]doc, len(ss))
	for i, s := range ss {
		ds[i] = lstr(s)
	}
	return ds
}
