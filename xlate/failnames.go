package main

// failnames.go: the `failnames` subcommand (T6) — everything the Lean model of the parser's error
// TEXT needs and that is wording, not control flow:
//
//   - per matcher node of the rule table (by content: the PExpr value) the string failAt records
//     for the "no match found, expected: ..." message: `want` of a litMatcher, `val` of a
//     charClassMatcher.  Read independently from grammar.go (the fields as written) and from
//     grammar.peg (derived the way pigeon's builder derives them); two nodes with the same content
//     but different texts are listed as a conflict, never resolved silently;
//   - the texts of the sentinel errors (errNoRule, errInvalidEntrypoint, errInvalidEncoding,
//     errMaxExprCnt);
//   - the string pieces of parse ("no match found, expected: ", the arguments of listJoin, "!.",
//     "EOF"), listJoin, addErrAt ("%d:%d (%d)", ": ", "rule "), parserError.Error, errList.Error,
//     failAt ("!"), parseAnyMatcher (".") and parseRuleRefExpr ("undefined rule: %s").
//
// Each piece is looked up by a syntactic pattern in the function it belongs to; a piece that is
// not found in exactly the expected shape becomes the text `unknown:<what was found>` and is
// listed in `unknowns`, so that the model's messages visibly differ instead of silently keeping an
// old wording.
//
// Output: <out>/FailNames.lean, namespace BexprGen.FailNames (or -ns).

import (
	"sort"
	"flag"
	"fmt"
	"go/ast"
	"go/token"
	"os"
	"path/filepath"
	"strconv"
	"strings"
	"unicode/utf8"
)

func init() {
	subcommands = append(subcommands, subcommand{
		name:  "failnames",
		short: "extract matcher want/val strings and the wording of parser error messages (T6) to BexprGen/FailNames.lean",
		run:   runFailNames,
	})
}

// ---------------------------------------------------------------------------
// matcher texts

type wantEntry struct {
	key  string // flat Lean text of the node (content identity)
	node *expr
	text string
}

type wantConflict struct {
	key   string
	node  *expr
	texts []string
}

// collectWants walks a rule table in pre-order and returns the first text of every distinct
// matcher node plus the conflicts.
func collectWants(t *table) (entries []wantEntry, conflicts []wantConflict) {
	index := map[string]int{}
	cindex := map[string]int{}
	var walk func(e *expr)
	walk = func(e *expr) {
		if e == nil {
			return
		}
		if e.kind == kLit || e.kind == kCharClass {
			key := exprDoc(e).flat()
			text := e.want
			if !e.hasWant {
				text = "unknown:matcher without a want/val string"
			}
			if i, ok := index[key]; !ok {
				index[key] = len(entries)
				entries = append(entries, wantEntry{key: key, node: e, text: text})
			} else if entries[i].text != text {
				if ci, ok := cindex[key]; ok {
					have := false
					for _, x := range conflicts[ci].texts {
						have = have || x == text
					}
					if !have {
						conflicts[ci].texts = append(conflicts[ci].texts, text)
					}
				} else {
					cindex[key] = len(conflicts)
					conflicts = append(conflicts, wantConflict{key: key, node: e, texts: []string{entries[i].text, text}})
				}
			}
		}
		for _, k := range e.kids {
			walk(k)
		}
	}
	if t != nil {
		for _, r := range t.rules {
			walk(r.expr)
		}
	}
	return entries, conflicts
}

// ---------------------------------------------------------------------------
// message pieces

type piece struct {
	name string
	text string // the string, or unknown:<…>
	doc  string
}

type pieceReader struct {
	sf       *srcFile
	pieces   []piece
	unknowns []string
}

func (r *pieceReader) add(name, text, doc string) {
	if strings.HasPrefix(text, "unknown:") {
		r.unknowns = append(r.unknowns, name+": "+text)
	}
	r.pieces = append(r.pieces, piece{name: name, text: text, doc: doc})
}

func strLitOf(e ast.Expr) (string, bool) { return stringLit(unparen(e)) }

// sentinel reads `var name = errors.New("…")`.
func (r *pieceReader) sentinel(name string) string {
	if r.sf == nil || r.sf.file == nil {
		return unk("grammar.go not parsed")
	}
	for _, d := range r.sf.file.Decls {
		gd, ok := d.(*ast.GenDecl)
		if !ok || gd.Tok != token.VAR {
			continue
		}
		for _, sp := range gd.Specs {
			vs, ok := sp.(*ast.ValueSpec)
			if !ok {
				continue
			}
			for i, n := range vs.Names {
				if n.Name != name {
					continue
				}
				if i >= len(vs.Values) {
					return unk("var " + name + " has no initialiser")
				}
				if c, ok := unparen(vs.Values[i]).(*ast.CallExpr); ok && len(c.Args) == 1 {
					if pkg, fn, ok := pkgSel(c.Fun); ok && pkg == "errors" && fn == "New" {
						if s, ok := strLitOf(c.Args[0]); ok {
							return s
						}
					}
				}
				return unk(r.sf.oneLine(vs.Values[i]))
			}
		}
	}
	return unk("var " + name + " not found")
}

func (r *pieceReader) fn(key string) *fnDecl { return findFn(key, r.sf) }

// flattenAdd lists the operands of a left-nested chain of `+`.
func flattenAdd(e ast.Expr) []ast.Expr {
	e = unparen(e)
	if b, ok := e.(*ast.BinaryExpr); ok && b.Op == token.ADD {
		return append(flattenAdd(b.X), flattenAdd(b.Y)...)
	}
	return []ast.Expr{e}
}

func selName(e ast.Expr) string {
	if s, ok := unparen(e).(*ast.SelectorExpr); ok {
		return s.Sel.Name
	}
	return ""
}

func callTo(e ast.Expr, name string) (*ast.CallExpr, bool) {
	c, ok := unparen(e).(*ast.CallExpr)
	if !ok {
		return nil, false
	}
	switch f := c.Fun.(type) {
	case *ast.Ident:
		return c, f.Name == name
	case *ast.SelectorExpr:
		return c, f.Sel.Name == name
	}
	return c, false
}

// the one match of pred among the nodes of a function body; why explains a failure
func findOne(f *fnDecl, what string, pred func(n ast.Node) (string, bool)) string {
	if f == nil || f.fd.Body == nil {
		return unk("function not found (" + what + ")")
	}
	var found []string
	ast.Inspect(f.fd.Body, func(n ast.Node) bool {
		if n == nil {
			return true
		}
		if s, ok := pred(n); ok {
			found = append(found, s)
		}
		return true
	})
	switch len(found) {
	case 0:
		return unk(what + " not found in " + f.key)
	case 1:
		return found[0]
	}
	for _, s := range found[1:] {
		if s != found[0] {
			return unk(what + " is ambiguous in " + f.key + ": " + strings.Join(found, " | "))
		}
	}
	return found[0]
}

func (r *pieceReader) extract() {
	r.add("noRule", r.sentinel("errNoRule"), "errNoRule")
	r.add("invalidEntrypoint", r.sentinel("errInvalidEntrypoint"), "errInvalidEntrypoint")
	r.add("invalidEncoding", r.sentinel("errInvalidEncoding"), "errInvalidEncoding")
	r.add("maxExprCnt", r.sentinel("errMaxExprCnt"), "errMaxExprCnt")

	// parse: p.addErrAt(errors.New(LIT+listJoin(expected, LIT, LIT)), p.maxFailPos, expected)
	parse := r.fn("parser.parse")
	var noMatch [3]string
	one := findOne(parse, "addErrAt(errors.New(<lit> + listJoin(_, <lit>, <lit>)), …)", func(n ast.Node) (string, bool) {
		c, ok := n.(*ast.CallExpr)
		if !ok || selName(c.Fun) != "addErrAt" || len(c.Args) < 1 {
			return "", false
		}
		en, ok := callTo(c.Args[0], "New")
		if !ok || len(en.Args) != 1 {
			return "", false
		}
		ops := flattenAdd(en.Args[0])
		if len(ops) != 2 {
			return "", false
		}
		pre, ok1 := strLitOf(ops[0])
		lj, ok2 := callTo(ops[1], "listJoin")
		if !ok1 || !ok2 || len(lj.Args) != 3 {
			return "", false
		}
		sep, ok3 := strLitOf(lj.Args[1])
		last, ok4 := strLitOf(lj.Args[2])
		if !ok3 || !ok4 {
			return "", false
		}
		noMatch = [3]string{pre, sep, last}
		return "ok", true
	})
	if one != "ok" {
		noMatch = [3]string{one, one, one}
	}
	r.add("noMatchPrefix", noMatch[0], "parse: the text in front of listJoin(…)")
	r.add("listSep", noMatch[1], "parse: second argument of listJoin")
	r.add("listLastSep", noMatch[2], "parse: third argument of listJoin")

	// listJoin: the whole body against a template with two holes
	r.listJoin()

	r.add("notAnyKey", findOne(parse, "delete(_, <lit>)", func(n ast.Node) (string, bool) {
		c, ok := callTo0(n, "delete")
		if !ok || len(c.Args) != 2 {
			return "", false
		}
		return strLitOf(c.Args[1])
	}), "parse: the key deleted from the expected set")
	r.add("eofName", findOne(parse, "append(_, <lit>)", func(n ast.Node) (string, bool) {
		c, ok := callTo0(n, "append")
		if !ok || len(c.Args) != 2 {
			return "", false
		}
		return strLitOf(c.Args[1])
	}), "parse: what is appended instead")

	// addErrAt
	addErrAt := r.fn("parser.addErrAt")
	format := findOne(addErrAt, "fmt.Sprintf(<lit>, pos.line, pos.col, pos.offset)", func(n ast.Node) (string, bool) {
		c, ok := callTo0(n, "Sprintf")
		if !ok || len(c.Args) != 4 {
			return "", false
		}
		if selName(c.Args[1]) != "line" || selName(c.Args[2]) != "col" || selName(c.Args[3]) != "offset" {
			return "", false
		}
		return strLitOf(c.Args[0])
	})
	posPieces := []string{format, format, format, format}
	if !strings.HasPrefix(format, "unknown:") {
		parts := strings.Split(format, "%d")
		if len(parts) == 4 && !strings.Contains(strings.Join(parts, ""), "%") {
			posPieces = parts
		} else {
			u := unk("position format is not three %d verbs: " + strconv.Quote(format))
			posPieces = []string{u, u, u, u}
		}
	}
	for i, p := range posPieces {
		r.add(fmt.Sprintf("pos%d", i), p, fmt.Sprintf("addErrAt: piece %d of the position format split at its %%d verbs", i))
	}
	ruleSep := unk("if len(p.rstack) > 0 { … } not found in parser.addErrAt")
	rulePrefix := ruleSep
	if addErrAt != nil && addErrAt.fd.Body != nil {
		for _, st := range addErrAt.fd.Body.List {
			is, ok := st.(*ast.IfStmt)
			if !ok || !mentions(is.Cond, "rstack") {
				continue
			}
			inner := &fnDecl{sf: addErrAt.sf, fd: &ast.FuncDecl{Name: ast.NewIdent("addErrAt"), Body: is.Body}, key: "parser.addErrAt (rule part)"}
			ruleSep = findOne(inner, "buf.WriteString(<lit>)", func(n ast.Node) (string, bool) {
				c, ok := callTo0(n, "WriteString")
				if !ok || len(c.Args) != 1 {
					return "", false
				}
				return strLitOf(c.Args[0])
			})
			rulePrefix = findOne(inner, "<lit> + rule.displayName / <lit> + rule.name", func(n ast.Node) (string, bool) {
				b, ok := n.(*ast.BinaryExpr)
				if !ok || b.Op != token.ADD {
					return "", false
				}
				if s := selName(b.Y); s != "displayName" && s != "name" {
					return "", false
				}
				return strLitOf(b.X)
			})
		}
	}
	r.add("ruleSep", ruleSep, "addErrAt: between the position and the rule part")
	r.add("rulePrefix", rulePrefix, "addErrAt: in front of the rule name")

	// parserError.Error: return p.prefix + LIT + p.Inner.Error()
	r.add("errSep", findOne(r.fn("parserError.Error"), "return p.prefix + <lit> + p.Inner.Error()", func(n ast.Node) (string, bool) {
		rs, ok := n.(*ast.ReturnStmt)
		if !ok || len(rs.Results) != 1 {
			return "", false
		}
		ops := flattenAdd(rs.Results[0])
		if len(ops) != 3 || selName(ops[0]) != "prefix" {
			return "", false
		}
		c, ok := callTo(ops[2], "Error")
		if !ok {
			return "", false
		}
		if fsel, isSel := c.Fun.(*ast.SelectorExpr); !isSel || selName(fsel.X) != "Inner" {
			return "", false
		}
		return strLitOf(ops[1])
	}), "parserError.Error: between prefix and inner message")

	// errList.Error: buf.WriteRune(CHAR)
	r.add("lineSep", findOne(r.fn("errList.Error"), "buf.WriteRune(<char>)", func(n ast.Node) (string, bool) {
		c, ok := callTo0(n, "WriteRune")
		if !ok || len(c.Args) != 1 {
			return "", false
		}
		bl, ok := unparen(c.Args[0]).(*ast.BasicLit)
		if !ok || bl.Kind != token.CHAR {
			return "", false
		}
		ch, _, tail, err := strconv.UnquoteChar(bl.Value[1:len(bl.Value)-1], '\'')
		if err != nil || tail != "" {
			return "", false
		}
		var buf [utf8.UTFMax]byte
		return string(buf[:utf8.EncodeRune(buf[:], ch)]), true
	}), "errList.Error: between entries")

	// failAt: want = LIT + want
	r.add("bang", findOne(r.fn("parser.failAt"), "want = <lit> + want", func(n ast.Node) (string, bool) {
		as, ok := n.(*ast.AssignStmt)
		if !ok || as.Tok != token.ASSIGN || len(as.Lhs) != 1 || len(as.Rhs) != 1 {
			return "", false
		}
		id, ok := as.Lhs[0].(*ast.Ident)
		if !ok {
			return "", false
		}
		ops := flattenAdd(as.Rhs[0])
		if len(ops) != 2 || !isIdent(unparen(ops[1]), id.Name) {
			return "", false
		}
		return strLitOf(ops[0])
	}), "failAt: prefix of an inverted expectation")

	// parseAnyMatcher: p.failAt(_, _, LIT), all alike
	r.add("anyWant", findOne(r.fn("parser.parseAnyMatcher"), "p.failAt(_, _, <lit>)", func(n ast.Node) (string, bool) {
		c, ok := callTo0(n, "failAt")
		if !ok || len(c.Args) != 3 {
			return "", false
		}
		return strLitOf(c.Args[2])
	}), "parseAnyMatcher: the want string of the any matcher")

	// parseRuleRefExpr: fmt.Errorf(LIT, ref.name) with LIT = prefix + "%s"
	und := findOne(r.fn("parser.parseRuleRefExpr"), "fmt.Errorf(<lit>, ref.name)", func(n ast.Node) (string, bool) {
		c, ok := callTo0(n, "Errorf")
		if !ok || len(c.Args) != 2 || selName(c.Args[1]) != "name" {
			return "", false
		}
		return strLitOf(c.Args[0])
	})
	if !strings.HasPrefix(und, "unknown:") {
		if strings.HasSuffix(und, "%s") && strings.Count(und, "%") == 1 {
			und = strings.TrimSuffix(und, "%s")
		} else {
			und = unk("undefined-rule format is not <text>%s: " + strconv.Quote(und))
		}
	}
	r.add("undefinedRulePrefix", und, "parseRuleRefExpr: the format up to its %s verb")
}

func callTo0(n ast.Node, name string) (*ast.CallExpr, bool) {
	e, ok := n.(ast.Expr)
	if !ok {
		return nil, false
	}
	if _, isCall := e.(*ast.CallExpr); !isCall {
		return nil, false
	}
	return callTo(e, name)
}

// listJoin: compare the token list of the body with the template (parameter names taken from the
// signature); the two string literals of the default case are the holes.
func (r *pieceReader) listJoin() {
	f := r.fn("listJoin")
	bad := func(why string) {
		r.add("joinPad1", unk(why), "listJoin: between the joined head and lastSep")
		r.add("joinPad2", unk(why), "listJoin: between lastSep and the last element")
	}
	if f == nil || f.fd.Body == nil {
		bad("function listJoin not found")
		return
	}
	ps := paramNames(f.fd.Type)
	if len(ps) != 3 {
		bad("listJoin does not have three parameters")
		return
	}
	l, sep, last := ps[0], ps[1], ps[2]
	tmpl := []string{"switch", "len", "(", l, ")", "{",
		"case", "0", ":", "return", `""`,
		"case", "1", ":", "return", l, "[", "0", "]",
		"default", ":", "return", "strings", ".", "Join", "(", l, "[", ":", "len", "(", l, ")", "-", "1", "]", ",", sep, ")",
		"+", "\x00", "+", last, "+", "\x00", "+", l, "[", "len", "(", l, ")", "-", "1", "]", "}"}
	toks := canonSwitchToks(f.sf, f.fd.Body)
	if len(toks) != len(tmpl) {
		bad("body of listJoin has an unexpected shape: " + f.sf.stmtsOneLine(f.fd.Body.List))
		return
	}
	var holes []string
	for i := range tmpl {
		if tmpl[i] == "\x00" {
			s, err := strconv.Unquote(toks[i])
			if err != nil {
				bad("body of listJoin has an unexpected shape: " + f.sf.stmtsOneLine(f.fd.Body.List))
				return
			}
			holes = append(holes, s)
		} else if tmpl[i] != toks[i] {
			bad("body of listJoin has an unexpected shape: " + f.sf.stmtsOneLine(f.fd.Body.List))
			return
		}
	}
	r.add("joinPad1", holes[0], "listJoin: between the joined head and lastSep")
	r.add("joinPad2", holes[1], "listJoin: between lastSep and the last element")
}

// ---------------------------------------------------------------------------
// emission

func bytesLit(s string) string {
	if len(s) == 0 {
		return "[]"
	}
	parts := make([]string, len(s))
	for i := 0; i < len(s); i++ {
		parts[i] = strconv.Itoa(int(s[i]))
	}
	return "[" + strings.Join(parts, ", ") + "]"
}

func emitWants(b *strings.Builder, name, doc string, entries []wantEntry) {
	fmt.Fprintf(b, "/-- %s -/\ndef %s : List (PExpr × GoString) := [", doc, name)
	for i, e := range entries {
		if i > 0 {
			b.WriteString(",")
		}
		fmt.Fprintf(b, "\n  -- %s\n  (%s, %s)", commentSafe(strconv.Quote(e.text)), e.key, bytesLit(e.text))
	}
	b.WriteString("\n]\n\n")
}

func emitConflicts(b *strings.Builder, name, doc string, cs []wantConflict) {
	fmt.Fprintf(b, "/-- %s -/\ndef %s : List (PExpr × List GoString) := [", doc, name)
	for i, c := range cs {
		if i > 0 {
			b.WriteString(",")
		}
		var qs, bs []string
		for _, t := range c.texts {
			qs = append(qs, strconv.Quote(t))
			bs = append(bs, bytesLit(t))
		}
		fmt.Fprintf(b, "\n  -- %s\n  (%s, [%s])", commentSafe(strings.Join(qs, " vs ")), c.key, strings.Join(bs, ", "))
	}
	b.WriteString("\n]\n\n")
}

func runFailNames(args []string) int {
	fs := flag.NewFlagSet("failnames", flag.ContinueOnError)
	repo := fs.String("repo", "/repo", "root of the go-bexpr source tree")
	out := fs.String("out", "/verif/lean/BexprGen", "output directory for the generated Lean file")
	ns := fs.String("ns", "BexprGen.FailNames", "Lean namespace of the generated file")
	file := fs.String("file", "FailNames.lean", "name of the generated file")
	if err := fs.Parse(args); err != nil {
		return 64
	}
	if fs.NArg() != 0 {
		fmt.Fprintf(os.Stderr, "xlate failnames: unexpected arguments %q\n", fs.Args())
		return 64
	}
	if err := os.MkdirAll(*out, 0o755); err != nil {
		fmt.Fprintf(os.Stderr, "xlate failnames: %v\n", err)
		return 1
	}
	target := filepath.Join(*out, *file)
	if err := os.Remove(target); err != nil && !os.IsNotExist(err) {
		fmt.Fprintf(os.Stderr, "xlate failnames: cannot remove stale output: %v\n", err)
		return 1
	}
	exit := 0
	goPath := filepath.Join(*repo, "grammar", "grammar.go")
	pegPath := filepath.Join(*repo, "grammar", "grammar.peg")

	var fatal []string
	readTable := func(path string, read func([]byte) *table) *table {
		src, err := os.ReadFile(path)
		if err != nil {
			fatal = append(fatal, fmt.Sprintf("%s: %v", path, err))
			return nil
		}
		t := safeRead(read, src)
		if t.fatal != nil {
			fatal = append(fatal, fmt.Sprintf("%s: cannot be parsed: %v", path, t.fatal))
			return nil
		}
		return t
	}
	goT := readTable(goPath, readGoGrammar)
	pegT := readTable(pegPath, readPegGrammar)
	goWants, goConf := collectWants(goT)
	pegWants, pegConf := collectWants(pegT)

	pr := &pieceReader{sf: loadSrc(*repo, "grammar/grammar.go")}
	if pr.sf.err != nil {
		fatal = append(fatal, fmt.Sprintf("%s: %v", pr.sf.path, pr.sf.err))
	}
	func() {
		defer func() {
			if r := recover(); r != nil {
				fatal = append(fatal, fmt.Sprintf("internal error in xlate failnames: %v", r))
				pr.pieces = nil
			}
		}()
		pr.extract()
	}()
	if len(fatal) > 0 {
		exit = 2
	}
	unknowns := append([]string{}, pr.unknowns...)
	for _, f := range fatal {
		unknowns = append(unknowns, "fatal: "+f)
	}
	for _, w := range goWants {
		if strings.HasPrefix(w.text, "unknown:") {
			unknowns = append(unknowns, "grammar.go "+w.key+": "+w.text)
		}
	}
	for _, w := range pegWants {
		if strings.HasPrefix(w.text, "unknown:") {
			unknowns = append(unknowns, "grammar.peg "+w.key+": "+w.text)
		}
	}

	var b strings.Builder
	fmt.Fprintf(&b, "-- GENERATED by /verif/xlate (failnames) from %s, %s; do not edit.\n", goPath, pegPath)
	fmt.Fprintf(&b, "-- source SHA-256 %s: %s\n", goPath, pr.sf.sum)
	for _, f := range fatal {
		fmt.Fprintf(&b, "-- ERROR: %s\n", commentSafe(f))
	}
	b.WriteString("import Bexpr.Peg.ErrorText\n\n")
	fmt.Fprintf(&b, "namespace %s\n\nopen Bexpr Bexpr.Peg\n\n", *ns)
	emitWants(&b, "goWants", "matcher node ↦ `want` (litMatcher) / `val` (charClassMatcher) as written in grammar.go; first occurrence of every distinct node, in table order", goWants)
	emitConflicts(&b, "goConflicts", "nodes of grammar.go with the same content but different texts", goConf)
	emitWants(&b, "pegWants", "the same derived from grammar.peg the way pigeon's builder derives it", pegWants)
	emitConflicts(&b, "pegConflicts", "nodes of grammar.peg with the same content but different texts", pegConf)

	get := map[string]string{}
	for _, p := range pr.pieces {
		get[p.name] = p.text
	}
	for _, name := range []string{"bang", "anyWant"} {
		t, ok := get[name]
		if !ok {
			t = unk("not extracted")
			unknowns = append(unknowns, name+": "+t)
		}
		fmt.Fprintf(&b, "-- %s\ndef %s : GoString := %s\n\n", commentSafe(strconv.Quote(t)), name, bytesLit(t))
	}
	b.WriteString("/-- the wording of the engine's messages as found in grammar.go -/\ndef texts : MsgTexts := {\n")
	fields := []string{"noRule", "invalidEntrypoint", "invalidEncoding", "maxExprCnt", "noMatchPrefix", "listSep", "listLastSep",
		"joinPad1", "joinPad2", "notAnyKey", "eofName", "pos0", "pos1", "pos2", "pos3", "ruleSep", "rulePrefix", "errSep", "lineSep",
		"undefinedRulePrefix"}
	for i, name := range fields {
		t, ok := get[name]
		if !ok {
			t = unk("not extracted")
			unknowns = append(unknowns, name+": "+t)
		}
		sfx := ","
		if i == len(fields)-1 {
			sfx = ""
		}
		fmt.Fprintf(&b, "  -- %s\n  %s := %s%s\n", commentSafe(strconv.Quote(t)), name, bytesLit(t), sfx)
	}
	b.WriteString("}\n\n")
	b.WriteString("/-- every entry above that was not recognised (text `unknown:…`) -/\ndef unknowns : List String := [")
	for i, u := range unknowns {
		if i > 0 {
			b.WriteString(",")
		}
		fmt.Fprintf(&b, "\n  %s", leanString(u))
	}
	if len(unknowns) > 0 {
		b.WriteString("\n")
	}
	b.WriteString("]\n\n")
	fmt.Fprintf(&b, "end %s\n", *ns)
	if err := os.WriteFile(target, []byte(b.String()), 0o644); err != nil {
		fmt.Fprintf(os.Stderr, "xlate failnames: %v\n", err)
		return 1
	}
	fmt.Printf("failnames: %d/%d matcher texts (grammar.go/grammar.peg), %d/%d conflicts, %d message pieces, %d unknown entries -> %s\n",
		len(goWants), len(pegWants), len(goConf), len(pegConf), len(pr.pieces), len(unknowns), target)
	return exit
}

// canonSwitchToks is bodyToks for a body that is one `switch` over mutually exclusive constant cases
// (every clause lists distinct basic literals, at most one default): the clauses are emitted in the
// order of their first case text, the default last — the textual order of such clauses cannot matter.
// Any other body is returned as written.
func canonSwitchToks(sf *srcFile, b *ast.BlockStmt) []string {
	if b == nil || len(b.List) != 1 {
		return sf.bodyToks(b)
	}
	sw, ok := b.List[0].(*ast.SwitchStmt)
	if !ok || sw.Init != nil || sw.Tag == nil || sw.Body == nil {
		return sf.bodyToks(b)
	}
	type clause struct {
		key  string
		toks []string
	}
	var cls []clause
	seen := map[string]bool{}
	for _, st := range sw.Body.List {
		cc, ok := st.(*ast.CaseClause)
		if !ok {
			return sf.bodyToks(b)
		}
		key := "\xff default"
		for _, e := range cc.List {
			bl, ok := e.(*ast.BasicLit)
			if !ok || seen[bl.Value] {
				return sf.bodyToks(b)
			}
			seen[bl.Value] = true
		}
		if len(cc.List) > 0 {
			key = sf.oneLine(cc.List[0])
		} else if seen[key] {
			return sf.bodyToks(b)
		} else {
			seen[key] = true
		}
		cls = append(cls, clause{key, sf.toks(cc)})
	}
	sort.SliceStable(cls, func(i, j int) bool { return cls[i].key < cls[j].key })
	out := append([]string{"switch"}, sf.toks(sw.Tag)...)
	out = append(out, "{")
	for _, c := range cls {
		out = append(out, c.toks...)
	}
	return append(out, "}")
}
