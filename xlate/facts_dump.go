package main

// facts_dump.go: `dumpTemplates` of the `tables` subcommand (T3).
//
// What each ExpressionDump method of grammar/ast.go writes, as a flat list of
// pieces in output order:
//
//	"text:<t>"                      literal text of a format string (adjacent literals are merged)
//	"%s:<e>", "%v:<e>", "%q:<e>"    a verb and the argument it formats
//	"dump:<e>"                      the recursive call <e>.ExpressionDump(w, indent, level+1)
//	"unknown:..."                   anything that is not recognised
//
// This is the format strings of the methods made independent of how they are
// spelled: `%[2]s` and a positional `%s` that format the same argument give the
// same piece, a local that is defined once and never assigned again
// (`localIndent := strings.Repeat(indent, level)`) is replaced by its
// definition in <e>, and a method that is `<before>; switch expr.Operator {
// case C...: <clause> }; <after>` is listed per constant C (and "default")
// with the pieces of <before>, <clause>, <after> in a row.  Two methods with
// the same templates print the same text, whatever print does for the
// verbs; the converse does not hold (a refactor that prints the same text with
// other verbs or without fmt changes the template and breaks the tie).
//
// Recognised statements (everything else is an "unknown:" piece of every
// template of the method):
//
//	name := <expression>                          an inlinable local, see dumpInliner
//	fmt.Fprintf(w, "<literal format>", args...)   w the method's first parameter
//	<e>.ExpressionDump(w, indent, level+1)        with the method's own three parameters
//	switch <expr.Operator> { case C, ...: Fprintf statements }    at most one, at top level

import (
	"go/ast"
	"go/token"
	"strconv"
	"strings"
)

// dumpInliner replaces locals by their definitions.  A name may be used in a
// reported expression if it is
//   - not declared in the function at all (a package, a package-level name, a
//     predeclared identifier), or
//   - the receiver or a parameter that is never assigned and whose address is
//     never taken (exactly one origin), or
//   - a local with exactly one origin `name := e` at the top level of the body,
//     e itself being reportable; it is replaced by e.
//
// Since nothing that e mentions is ever assigned, e has the same value where
// the local is used as where it is defined.
type dumpInliner struct {
	sf   *srcFile
	fr   *freshness          // for the origins by name
	defs map[string]ast.Expr // top-level `name := e` definitions
	busy map[string]bool     // cycle guard
}

func newDumpInliner(sf *srcFile, fd *ast.FuncDecl) *dumpInliner {
	in := &dumpInliner{sf: sf, fr: analyseFreshness(sf, fd, nil, nil), defs: map[string]ast.Expr{}, busy: map[string]bool{}}
	for _, st := range fd.Body.List {
		if as, ok := st.(*ast.AssignStmt); ok && as.Tok == token.DEFINE && len(as.Lhs) == 1 && len(as.Rhs) == 1 {
			if id, ok := as.Lhs[0].(*ast.Ident); ok && id.Name != "_" {
				in.defs[id.Name] = as.Rhs[0]
			}
		}
	}
	return in
}

// declOrigins lists the origins of a name other than "receiver of a call".
func (in *dumpInliner) declOrigins(name string) []origin {
	var out []origin
	for _, o := range in.fr.byName[name] {
		if o.how != "method" {
			out = append(out, o)
		}
	}
	return out
}

// isLocalDef: st is the one definition of an inlinable local, and the
// definition does not mention the writer w (so evaluating it writes nothing;
// the statement itself contributes no piece).
func (in *dumpInliner) isLocalDef(st ast.Stmt, w string) bool {
	as, ok := st.(*ast.AssignStmt)
	if !ok || as.Tok != token.DEFINE || len(as.Lhs) != 1 || len(as.Rhs) != 1 {
		return false
	}
	id, ok := as.Lhs[0].(*ast.Ident)
	if !ok || in.defs[id.Name] != as.Rhs[0] {
		return false
	}
	usesWriter := false
	ast.Inspect(as.Rhs[0], func(n ast.Node) bool {
		if x, ok := n.(*ast.Ident); ok && x.Name == w {
			usesWriter = true
		}
		return true
	})
	_, ok = in.exprText(id)
	return ok && !usesWriter
}

// exprText is the text of e, in a canonical spelling (no blanks except after
// the commas of an argument list), with every inlinable local replaced by its
// definition; ok is false if e mentions a name that may not be used or has an
// unsupported form.
func (in *dumpInliner) exprText(e ast.Expr) (string, bool) {
	switch x := e.(type) {
	case *ast.BasicLit:
		return x.Value, true
	case *ast.Ident:
		os := in.declOrigins(x.Name)
		switch {
		case len(os) == 0:
			return x.Name, true
		case len(os) != 1:
			return "", false
		case os[0].how == "parameter" && !os[0].lit, os[0].text == "<receiver>":
			return x.Name, true
		case os[0].how == "value" && in.defs[x.Name] == os[0].expr && !in.busy[x.Name]:
			in.busy[x.Name] = true
			d, ok := in.exprText(os[0].expr)
			in.busy[x.Name] = false
			switch os[0].expr.(type) {
			case *ast.BinaryExpr, *ast.UnaryExpr, *ast.StarExpr:
				d = "(" + d + ")"
			}
			return d, ok
		}
		return "", false
	case *ast.ParenExpr:
		y, ok := in.exprText(x.X)
		return "(" + y + ")", ok
	case *ast.SelectorExpr:
		y, ok := in.exprText(x.X)
		return y + "." + x.Sel.Name, ok
	case *ast.StarExpr:
		y, ok := in.exprText(x.X)
		return "*" + y, ok
	case *ast.UnaryExpr:
		y, ok := in.exprText(x.X)
		return x.Op.String() + y, ok && x.Op != token.AND && x.Op != token.ARROW
	case *ast.BinaryExpr:
		l, ok1 := in.exprText(x.X)
		r, ok2 := in.exprText(x.Y)
		return l + x.Op.String() + r, ok1 && ok2
	case *ast.IndexExpr:
		l, ok1 := in.exprText(x.X)
		r, ok2 := in.exprText(x.Index)
		return l + "[" + r + "]", ok1 && ok2
	case *ast.CallExpr:
		if x.Ellipsis.IsValid() {
			return "", false
		}
		fun, ok := in.exprText(x.Fun)
		if !ok {
			return "", false
		}
		args := make([]string, len(x.Args))
		for i, a := range x.Args {
			if args[i], ok = in.exprText(a); !ok {
				return "", false
			}
		}
		return fun + "(" + strings.Join(args, ", ") + ")", true
	}
	return "", false
}

// formatPieces splits a format string into pieces.  Supported: literal text,
// `%%`, and the verbs s, v, q, optionally with an explicit argument index
// (`%[3]s`); no flags, width or precision.  Every argument must be used.
func formatPieces(format string, args []string) ([]string, bool) {
	var out []string
	used := make([]bool, len(args))
	lit := ""
	next := 0
	for i := 0; i < len(format); i++ {
		c := format[i]
		if c != '%' {
			lit += string(c)
			continue
		}
		i++
		if i < len(format) && format[i] == '%' {
			lit += "%"
			continue
		}
		if i < len(format) && format[i] == '[' {
			j := strings.IndexByte(format[i:], ']')
			if j < 0 {
				return nil, false
			}
			n, err := strconv.Atoi(format[i+1 : i+j])
			if err != nil || n < 1 {
				return nil, false
			}
			next = n - 1
			i += j + 1
		}
		if i >= len(format) || (format[i] != 's' && format[i] != 'v' && format[i] != 'q') || next >= len(args) {
			return nil, false
		}
		if lit != "" {
			out = append(out, "text:"+lit)
			lit = ""
		}
		out = append(out, "%"+string(format[i])+":"+args[next])
		used[next] = true
		next++
	}
	if lit != "" {
		out = append(out, "text:"+lit)
	}
	for _, u := range used {
		if !u {
			return nil, false
		}
	}
	return out, true
}

// mergeText joins adjacent "text:" pieces.
func mergeText(ps []string) []string {
	out := []string{}
	for _, p := range ps {
		if n := len(out); n > 0 && strings.HasPrefix(p, "text:") && strings.HasPrefix(out[n-1], "text:") {
			out[n-1] += strings.TrimPrefix(p, "text:")
			continue
		}
		out = append(out, p)
	}
	return out
}

// dumpTemplates lists (key, pieces) for one ExpressionDump method: key is the
// receiver type, or "<receiver type>/<constant>" and "<receiver type>/default"
// for a method with a switch over expr.Operator.
func dumpTemplates(f *fnDecl) []keyedToks {
	name := recvBase(f.fd)
	sf := f.sf
	ps := paramNames(f.fd.Type)
	recv := recvName(f.fd)
	if f.fd.Body == nil || len(ps) != 3 || recv == "" {
		return []keyedToks{{name, []string{unk("no body, or not a method (w, indent, level)")}}}
	}
	in := newDumpInliner(sf, f.fd)
	w, indent, level := ps[0], ps[1], ps[2]

	// simple: the pieces of a statement that is not a switch
	simple := func(st ast.Stmt) []string {
		if in.isLocalDef(st, w) {
			return nil
		}
		bad := []string{unk(sf.oneLine(st))}
		es, ok := st.(*ast.ExprStmt)
		if !ok {
			return bad
		}
		call, ok := es.X.(*ast.CallExpr)
		if !ok || call.Ellipsis.IsValid() {
			return bad
		}
		if p, fn, ok := pkgSel(call.Fun); ok && p == "fmt" && fn == "Fprintf" && len(in.declOrigins("fmt")) == 0 {
			if len(call.Args) < 2 || !isIdent(call.Args[0], w) {
				return bad
			}
			format, ok := stringLit(call.Args[1])
			if !ok {
				return bad
			}
			args := make([]string, len(call.Args)-2)
			for i, a := range call.Args[2:] {
				if args[i], ok = in.exprText(a); !ok {
					return bad
				}
			}
			pieces, ok := formatPieces(format, args)
			if !ok {
				return bad
			}
			return pieces
		}
		if sel, ok := call.Fun.(*ast.SelectorExpr); ok && sel.Sel.Name == "ExpressionDump" && len(call.Args) == 3 &&
			isIdent(call.Args[0], w) && isIdent(call.Args[1], indent) && sameStrings(sf.toks(call.Args[2]), []string{level, "+", "1"}) {
			if t, ok := in.exprText(sel.X); ok {
				return []string{"dump:" + t}
			}
		}
		return bad
	}
	// the parameters must be usable (never assigned)
	var before, after []string
	for _, p := range []string{recv, w, indent, level} {
		if _, ok := in.exprText(ast.NewIdent(p)); !ok {
			before = append(before, unk(p+" is assigned or declared again"))
		}
	}

	var sw *ast.SwitchStmt
	for _, st := range f.fd.Body.List {
		if s, ok := st.(*ast.SwitchStmt); ok && sw == nil {
			sw = s
			continue
		}
		if sw == nil {
			before = append(before, simple(st)...)
		} else {
			after = append(after, simple(st)...) // a second switch is unknown here
		}
	}
	if sw == nil {
		return []keyedToks{{name, mergeText(before)}}
	}
	// the switch must be over <receiver>.Operator (possibly through a local)
	if sw.Tag == nil || sw.Init != nil {
		before = append(before, unk("switch without a tag, or with an init statement"))
	} else if tag, ok := in.exprText(sw.Tag); !ok || tag != recv+".Operator" {
		before = append(before, unk("switch "+sf.oneLine(sw.Tag)))
	}
	join := func(mid []string) []string {
		all := append(append(append([]string{}, before...), mid...), after...)
		return mergeText(all)
	}
	var out []keyedToks
	hasDefault := false
	for _, c := range sw.Body.List {
		cc, ok := c.(*ast.CaseClause)
		if !ok {
			before = append(before, unk(sf.oneLine(c)))
			continue
		}
		var mid []string
		for _, st := range cc.Body { // (a `:=` in a clause is not at top level: unknown)
			mid = append(mid, simple(st)...)
		}
		if cc.List == nil {
			hasDefault = true
			out = append(out, keyedToks{name + "/default", mid})
			continue
		}
		for _, e := range cc.List {
			if id, ok := e.(*ast.Ident); ok {
				out = append(out, keyedToks{name + "/" + id.Name, mid})
			} else {
				before = append(before, unk("case "+sf.oneLine(e)))
			}
		}
	}
	if !hasDefault {
		out = append(out, keyedToks{name + "/default", nil})
	}
	for i := range out {
		out[i].toks = join(out[i].toks)
	}
	return out
}
